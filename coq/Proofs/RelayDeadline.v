(* Proofs about Model/RelayDeadline.v. *)
From Coq Require Import List ZArith Bool Lia ZifyBool.
From MV Require Import Model.RelayDeadline.
Import ListNotations.
Open Scope Z_scope.

(* with a fresh deadline per write, the deadline in force is start + W ... *)
Lemma fresh_deadline W s l : forall w res start d, In (w, res, start, d) (writes true W s l) -> d = start + W.
Proof.
  revert s. induction l as [|w0 l IH]; intros s w res start d H; cbn in H; [contradiction|].
  unfold write1, arm in H. cbn zeta in H.
  destruct (now s + Z.max 0 (gap w0) + Z.max 0 (stall w0) <? now s + Z.max 0 (gap w0) + W) eqn:E.
  - destruct H as [H|H]; [inversion H; subst; reflexivity|]. eapply IH; exact H.
  - destruct H as [H|[]]. inversion H; subst; reflexivity.
Qed.

(* ... so a write times out only if the receiver kept THAT write blocked for at least W *)
Lemma fresh_timeout_needs_stall W s l : 0 < W ->
  forall w dl start d, In (w, TimedOut dl, start, d) (writes true W s l) -> W <= stall w.
Proof.
  intros HW. revert s. induction l as [|w0 l IH]; intros s w dl start d H; cbn in H; [contradiction|].
  unfold write1, arm in H. cbn zeta in H.
  destruct (now s + Z.max 0 (gap w0) + Z.max 0 (stall w0) <? now s + Z.max 0 (gap w0) + W) eqn:E.
  - destruct H as [H|H]; [inversion H|]. eapply IH; exact H.
  - destruct H as [H|[]]. inversion H; subst. lia.
Qed.

(* and every write the receiver blocks for less than W completes: the whole history is written *)
Lemma fresh_all_done W l : 0 < W -> Forall (fun w => stall w < W) l ->
  forall s, length (writes true W s l) = length l /\
            Forall (fun x => match x with (_, Done _, _, _) => True | _ => False end) (writes true W s l).
Proof.
  intros HW. induction 1 as [|w0 l Hw Hl IH]; intros s; cbn; [split; constructor|].
  unfold write1, arm. cbn zeta.
  destruct (now s + Z.max 0 (gap w0) + Z.max 0 (stall w0) <? now s + Z.max 0 (gap w0) + W) eqn:E; [|lia].
  destruct (IH (mkD (now s + Z.max 0 (gap w0) + Z.max 0 (stall w0)) (Some (now s + Z.max 0 (gap w0) + W)))) as [I1 I2].
  split; [cbn; now rewrite I1|]. constructor; [exact I|exact I2].
Qed.

(* the cached variant: a second write inherits what is left of the first write's window *)
Lemma cached_refuted :
  ~ (forall W s l, 0 < W -> forall w dl start d, In (w, TimedOut dl, start, d) (writes false W s l) -> W <= stall w).
Proof.
  intros H. specialize (H 1000 d0 [mkWr 0 0; mkWr 600 650] eq_refl (mkWr 600 650) 1000 600 1000).
  cbn in H. assert (X : 1000 <= 650) by (apply H; right; left; reflexivity). lia.
Qed.
