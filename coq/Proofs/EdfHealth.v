From Coq Require Import List ZArith Bool Lia.
From MV Require Import Model.Edf Model.EdfHealth Proofs.Edf.
Import ListNotations.
Open Scope Z_scope.

(* every state the balancer's scheduler can be in after skipped picks is reached by valid picks: invariant kept,
   number of entries and their periods unchanged *)
Definition same_shape (s s' : edf) : Prop :=
  length (es s') = length (es s) /\ forall j, per_at s' j = per_at s j.

Lemma same_shape_refl s : same_shape s s.
Proof. split; [reflexivity|intros; reflexivity]. Qed.
Lemma same_shape_trans a b c : same_shape a b -> same_shape b c -> same_shape a c.
Proof. intros [L1 P1] [L2 P2]. split; [congruence|]. intros j. rewrite P2. apply P1. Qed.
Lemma pick_shape s i s' : edf_pick s i = Some s' -> same_shape s s'.
Proof. intros H. destruct (pick_effect _ _ _ H) as [L E]. split; [exact L|]. intros j. apply (E j). Qed.

Lemma skips_inv fuel unh : forall s s', EInv s -> In s' (edf_skips fuel unh s) -> EInv s' /\ same_shape s s'.
Proof.
  induction fuel as [|f IH]; intros s s' Hinv Hin; cbn [edf_skips] in Hin.
  - destruct Hin as [<-|[]]. split; [exact Hinv|apply same_shape_refl].
  - destruct Hin as [<-|Hin]; [split; [exact Hinv|apply same_shape_refl]|].
    apply in_flat_map in Hin. destruct Hin as [j [_ Hj]].
    destruct (unh_at unh j); [|destruct Hj].
    destruct (edf_pick s j) as [s1|] eqn:Hp; [|destruct Hj].
    destruct (IH s1 s' (pick_inv _ _ _ Hinv Hp) Hj) as [Hi Hs].
    split; [exact Hi|]. eapply same_shape_trans; [eapply pick_shape; exact Hp|exact Hs].
Qed.

Lemma skips_exact_inv n unh : forall s s', EInv s -> In s' (edf_skips_exact n unh s) -> EInv s' /\ same_shape s s'.
Proof.
  induction n as [|f IH]; intros s s' Hinv Hin; cbn [edf_skips_exact] in Hin.
  - destruct Hin as [<-|[]]. split; [exact Hinv|apply same_shape_refl].
  - apply in_flat_map in Hin. destruct Hin as [j [_ Hj]].
    destruct (unh_at unh j); [|destruct Hj].
    destruct (edf_pick s j) as [s1|] eqn:Hp; [|destruct Hj].
    destruct (IH s1 s' (pick_inv _ _ _ Hinv Hp) Hj) as [Hi Hs].
    split; [exact Hi|]. eapply same_shape_trans; [eapply pick_shape; exact Hp|exact Hs].
Qed.

Lemma observe_inv unh s i s' : EInv s -> In s' (edf_observe unh s i) -> EInv s' /\ same_shape s s'.
Proof.
  unfold edf_observe. intros Hinv Hin. destruct (unh_at unh i); [destruct Hin|].
  apply in_app_or in Hin. destruct Hin as [Hin|Hin].
  - apply in_flat_map in Hin. destruct Hin as [s1 [H1 H2]].
    destruct (skips_inv _ _ _ _ Hinv H1) as [Hi1 Hs1].
    destruct (edf_pick s1 i) as [s2|] eqn:Hp; [|destruct H2]. destruct H2 as [<-|[]].
    split; [eapply pick_inv; eassumption|]. eapply same_shape_trans; [exact Hs1|eapply pick_shape; exact Hp].
  - eapply skips_exact_inv; eassumption.
Qed.

Lemma dedup_incl l s : In s (dedup_states l) -> In s l.
Proof.
  induction l as [|x l IH]; cbn [dedup_states]; [tauto|].
  destruct (existsb (edf_eqb x) l); cbn; intros H; [right; auto|destruct H; [left; auto|right; auto]].
Qed.

Lemma observe_all_inv obs : forall ss (P : edf -> Prop) s0,
  (forall s, In s ss -> EInv s /\ same_shape s0 s) ->
  forall s', In s' (edf_observe_all ss obs) -> EInv s' /\ same_shape s0 s'.
Proof.
  induction obs as [|[unh i] obs IH]; intros ss P s0 Hss s' Hin; cbn [edf_observe_all] in Hin.
  - apply Hss. exact Hin.
  - eapply (IH _ P s0); [|exact Hin]. intros s Hs. apply dedup_incl in Hs.
    apply in_flat_map in Hs. destruct Hs as [s1 [H1 H2]].
    destruct (Hss s1 H1) as [Hi1 Hs1]. destruct (observe_inv _ _ _ _ Hi1 H2) as [Hi2 Hs2].
    split; [exact Hi2|eapply same_shape_trans; eassumption].
Qed.

(* Health flips do not disturb the weighted order: whatever hosts were unhealthy while earlier picks were made
   (skipped picks, fall-backs), from every state the scheduler can then be in, every window of picks over the
   now all-healthy hosts satisfies the bound (scaled form). *)
Theorem wrr_window_after_health_flips s0 obs s1 picks s2 :
  EInv s0 -> In s1 (edf_observe_all [s0] obs) -> edf_run s1 picks = Some s2 ->
  forall i j, (i < length (es s0))%nat -> (j < length (es s0))%nat ->
  Z.abs (count_pick i picks * per_at s0 i - count_pick j picks * per_at s0 j) <= per_at s0 i + per_at s0 j.
Proof.
  intros H0 Hin Hrun i j Hi Hj.
  destruct (observe_all_inv obs [s0] (fun _ => True) s0) with (s' := s1) as [Hinv1 [Hlen Hper]].
  - intros s [<-|[]]. split; [exact H0|apply same_shape_refl].
  - exact Hin.
  - pose proof (edf_window_scaled s1 picks s2 Hinv1 Hrun i j ltac:(lia) ltac:(lia)) as HW.
    rewrite !Hper in HW. exact HW.
Qed.

(* with weights: the balancer built from weights ws (every host Added, r pre-picks), any observed history with
   health flips, then any all-healthy window *)
Theorem wrr_window_after_health_flips_weights ws pre s0 obs s1 picks s2 :
  Forall (fun w => 0 < w) ws ->
  edf_run (edf_of_weights ws) pre = Some s0 ->
  In s1 (edf_observe_all [s0] obs) -> edf_run s1 picks = Some s2 ->
  forall i j wi wj, nth_error ws i = Some wi -> nth_error ws j = Some wj ->
  Z.abs (count_pick i picks * wj - count_pick j picks * wi) <= wi + wj.
Proof.
  intros Hpos Hpre Hin Hrun i j wi wj Hi Hj.
  pose proof (of_weights_inv ws Hpos) as Hinv.
  destruct (run_effect _ _ _ Hinv Hpre) as [Hinv0 [Hlen0 Heff0]].
  assert (Hlen : length (es (edf_of_weights ws)) = length ws).
  { unfold edf_of_weights. rewrite fold_add_len. reflexivity. }
  assert (Hil : (i < length ws)%nat) by (apply nth_error_Some; congruence).
  assert (Hjl : (j < length ws)%nat) by (apply nth_error_Some; congruence).
  pose proof (wrr_window_after_health_flips s0 obs s1 picks s2 Hinv0 Hin Hrun i j ltac:(lia) ltac:(lia)) as HW.
  destruct (Heff0 i) as [Hpi _]. destruct (Heff0 j) as [Hpj _].
  rewrite Hpi, Hpj in HW. rewrite (of_weights_per ws i wi Hi), (of_weights_per ws j wj Hj) in HW.
  pose proof (prod_pos ws Hpos) as HD. set (D := prod_weights ws) in *.
  rewrite Forall_forall in Hpos.
  pose proof (Hpos wi (nth_error_In _ _ Hi)) as Hwi. pose proof (Hpos wj (nth_error_In _ _ Hj)) as Hwj.
  destruct (prod_div ws wi (nth_error_In _ _ Hi)) as [qi Hqi]. destruct (prod_div ws wj (nth_error_In _ _ Hj)) as [qj Hqj].
  fold D in Hqi, Hqj.
  assert (Hdi : D / wi = qi) by (rewrite Hqi; apply Z.div_mul; lia).
  assert (Hdj : D / wj = qj) by (rewrite Hqj; apply Z.div_mul; lia).
  rewrite Hdi, Hdj in HW.
  eapply (scale_arith D wi wj qi qj); eauto.
Qed.

(* the other construction - only the hosts healthy at build time are queued - is refuted: weights 1,2,5, the
   weight-5 host is down when the balancer is built and recovers: it is never picked *)
Definition only_healthy_start : edf := edf_of_weights [1; 2].
Lemma never_picks_absent : forall picks s s', length (es s) = 2%nat -> edf_run s picks = Some s' -> count_pick 2 picks = 0.
Proof.
  induction picks as [|i p IH]; intros s0 s' H2 H; [reflexivity|]. cbn [edf_run] in H.
  destruct (edf_pick s0 i) as [s1|] eqn:Hp; [|discriminate].
  rewrite count_pick_cons. destruct (Nat.eqb_spec 2 i) as [Heq|Hne].
  - subst i. unfold edf_pick in Hp. destruct (nth_error (es s0) 2) eqn:E; [|discriminate].
    assert (2 < length (es s0))%nat by (apply nth_error_Some; congruence). lia.
  - rewrite (IH s1 s'); [reflexivity| |exact H]. rewrite (proj1 (pick_effect _ _ _ Hp)). exact H2.
Qed.

Theorem queue_only_healthy_refuted :
  forall picks s', edf_run only_healthy_start picks = Some s' -> count_pick 2 picks = 0.
Proof.
  intros picks s' Hrun. eapply never_picks_absent; [|exact Hrun].
  unfold only_healthy_start, edf_of_weights. rewrite fold_add_len. reflexivity.
Qed.
