(* Proofs about Model/RouteAction.v: header levels, per-key closed form, rewrites, redirect. *)
From Coq Require Import List String Ascii Bool Arith Lia.
From MV Require Import Model.Router Model.RouteAction.
Import ListNotations.
Local Open Scope string_scope.

(* ------------------------------------------------------------------ header map laws *)
Lemma hget_hset_same k v m : hget k (hset k v m) = Some v.
Proof.
  unfold hget. induction m as [|[k' v'] m IH]; cbn [hset assoc].
  - now rewrite String.eqb_refl.
  - destruct (String.eqb_spec k' k) as [->|Hne]; cbn [assoc].
    + now rewrite String.eqb_refl.
    + destruct (String.eqb_spec k' k); [contradiction|exact IH].
Qed.

Lemma hget_hset_other k k' v m : k' <> k -> hget k (hset k' v m) = hget k m.
Proof.
  intros Hne. unfold hget. induction m as [|[k0 v0] m IH]; cbn [hset assoc].
  - destruct (String.eqb_spec k' k); [contradiction|reflexivity].
  - destruct (String.eqb_spec k0 k') as [->|Hne0]; cbn [assoc].
    + destruct (String.eqb_spec k' k); [contradiction|reflexivity].
    + destruct (String.eqb_spec k0 k); [reflexivity|exact IH].
Qed.

Lemma hget_hdel_same k m : hget k (hdel k m) = None.
Proof.
  unfold hget. induction m as [|[k' v'] m IH]; cbn [hdel assoc]; [reflexivity|].
  destruct (String.eqb_spec k' k) as [->|Hne]; [exact IH|]. cbn [assoc].
  destruct (String.eqb_spec k' k); [contradiction|exact IH].
Qed.

Lemma hget_hdel_other k k' m : k' <> k -> hget k (hdel k' m) = hget k m.
Proof.
  intros Hne. unfold hget. induction m as [|[k0 v0] m IH]; cbn [hdel assoc]; [reflexivity|].
  destruct (String.eqb_spec k0 k') as [->|Hne0].
  - destruct (String.eqb_spec k' k); [contradiction|exact IH].
  - cbn [assoc]. destruct (String.eqb_spec k0 k); [reflexivity|exact IH].
Qed.

(* ------------------------------------------------------------------ one parser, one key *)
(* the value an addition gives its key, from the old value *)
Definition new_value (known : list string) (vars : list (string * string)) (old : option string) (a : hadd) : string :=
  let value := format_value known vars (ha_value a) in
  match old with
  | Some v => if andb (negb (String.eqb v "")) (append_flag a) then v ++ "," ++ value else value
  | None => value
  end.

Definition adds_for (k : string) (p : hparser) : list hadd :=
  filter (fun a => String.eqb (lower (ha_key a)) k) (hp_add p).

Definition fold_value (known : list string) (vars : list (string * string)) (old : option string) (adds : list hadd) : option string :=
  fold_left (fun o a => Some (new_value known vars o a)) adds old.

Definition removed (k : string) (p : hparser) : bool := existsb (fun r => String.eqb (lower r) k) (hp_remove p).

(* effect of one level on the value of key k *)
Definition level (known : list string) (vars : list (string * string)) (k : string) (p : hparser) (old : option string) : option string :=
  if removed k p then None else fold_value known vars old (adds_for k p).

Lemma adds_get known vars k adds : forall m,
  hget k (fold_left (apply_add known vars) adds m) =
  fold_value known vars (hget k m) (filter (fun a => String.eqb (lower (ha_key a)) k) adds).
Proof.
  unfold fold_value. induction adds as [|a adds IH]; intros m; cbn [fold_left filter]; [reflexivity|].
  rewrite IH. destruct (String.eqb_spec (lower (ha_key a)) k) as [Heq|Hne].
  - cbn [fold_left]. f_equal. unfold apply_add. rewrite Heq. rewrite hget_hset_same. reflexivity.
  - f_equal. unfold apply_add. apply hget_hset_other. exact Hne.
Qed.

Lemma removes_get k rs : forall m,
  hget k (fold_left (fun m r => hdel (lower r) m) rs m) =
  if existsb (fun r => String.eqb (lower r) k) rs then None else hget k m.
Proof.
  induction rs as [|r rs IH]; intros m; cbn [fold_left existsb]; [reflexivity|].
  rewrite IH. destruct (String.eqb_spec (lower r) k) as [Heq|Hne]; cbn [orb].
  - rewrite Heq, hget_hdel_same. destruct (existsb _ rs); reflexivity.
  - rewrite (hget_hdel_other k (lower r) m Hne). reflexivity.
Qed.

(* evaluateHeaders acts on each key independently: additions to the key in order, then removal *)
Theorem evaluate_get known vars p k m :
  hget k (evaluate known vars p m) = level known vars k p (hget k m).
Proof.
  unfold evaluate, level, removed, adds_for. rewrite removes_get, adds_get. reflexivity.
Qed.

Theorem three_levels_get known vars p1 p2 p3 k m :
  hget k (three_levels known vars p1 p2 p3 m) =
  level known vars k p3 (level known vars k p2 (level known vars k p1 (hget k m))).
Proof. unfold three_levels. rewrite !evaluate_get. reflexivity. Qed.

(* one addition per level for the key, no removal: the closed form with the append flags *)
Lemma level_single known vars k p a old :
  removed k p = false -> adds_for k p = [a] -> level known vars k p old = Some (new_value known vars old a).
Proof. intros Hr Ha. unfold level. rewrite Hr, Ha. reflexivity. Qed.

Lemma level_untouched known vars k p old :
  removed k p = false -> adds_for k p = [] -> level known vars k p old = old.
Proof. intros Hr Ha. unfold level. rewrite Hr, Ha. reflexivity. Qed.

Lemma level_removed known vars k p old : removed k p = true -> level known vars k p old = None.
Proof. intros Hr. unfold level. rewrite Hr. reflexivity. Qed.

(* ------------------------------------------------------------------ request finalisation *)
Lemma finalize_base_hdrs a e :
  e_hdrs (finalize_base a e) = three_levels (e_known e) (e_vars e) (ra_req a) (ra_vh_req a) (ra_gl_req a) (e_hdrs e).
Proof.
  unfold finalize_base.
  destruct (negb (String.eqb (ra_host_rewrite a) "")); [reflexivity|].
  destruct (negb (String.eqb (ra_auto_host_header a) "")).
  - destruct (hget _ _); reflexivity.
  - destruct (ra_auto_host a); [destruct (e_dns_host e)|]; reflexivity.
Qed.

Lemma finalize_path_hdrs a matched e k : k <> hdr_original_path ->
  hget k (e_hdrs (finalize_path a matched e)) = hget k (e_hdrs e).
Proof.
  intros Hk. unfold finalize_path.
  destruct (andb _ _); [reflexivity|].
  destruct (assoc var_path (e_vars e)) as [path|]; [|reflexivity].
  destruct (String.eqb path ""); [reflexivity|].
  destruct (negb (String.eqb (ra_prefix_rewrite a) "")).
  - destruct (String.prefix matched path); [|reflexivity]. cbn [with_vars with_hdrs e_hdrs].
    apply hget_hset_other. congruence.
  - destruct (String.eqb (e_replaced e) path); [reflexivity|]. cbn [with_vars with_hdrs e_hdrs].
    apply hget_hset_other. congruence.
Qed.

(* every rule kind applies route, then virtual host, then router level (the original-path header apart) *)
Theorem header_levels a e k : k <> hdr_original_path ->
  hget k (e_hdrs (finalize_request true true a e)) =
  level (e_known e) (e_vars e) k (ra_gl_req a)
    (level (e_known e) (e_vars e) k (ra_vh_req a)
      (level (e_known e) (e_vars e) k (ra_req a) (hget k (e_hdrs e)))).
Proof.
  intros Hk. rewrite <- three_levels_get, <- finalize_base_hdrs. unfold finalize_request.
  destruct (ra_kind a); try reflexivity; apply finalize_path_hdrs; exact Hk.
Qed.

Theorem response_levels a known vars k m :
  hget k (finalize_response a known vars m) =
  level known vars k (ra_gl_resp a) (level known vars k (ra_vh_resp a) (level known vars k (ra_resp a) (hget k m))).
Proof. unfold finalize_response. apply three_levels_get. Qed.

(* host rewrite precedence: host_rewrite > header named by auto_host_rewrite_header > auto (STRICT_DNS upstream host) *)
Theorem host_rewrite_precedence a e :
  assoc var_authority (e_vars (finalize_base a e)) =
  if negb (String.eqb (ra_host_rewrite a) "") then Some (ra_host_rewrite a)
  else if negb (String.eqb (ra_auto_host_header a) "") then
    match hget (ra_auto_host_header a) (e_hdrs (finalize_base a e)) with
    | Some v => Some v
    | None => assoc var_authority (e_vars e)
    end
  else if ra_auto_host a then
    match e_dns_host e with Some hn => Some hn | None => assoc var_authority (e_vars e) end
  else assoc var_authority (e_vars e).
Proof.
  rewrite finalize_base_hdrs. unfold finalize_base.
  destruct (negb (String.eqb (ra_host_rewrite a) "")).
  - cbn [with_vars e_vars]. apply hget_hset_same.
  - destruct (negb (String.eqb (ra_auto_host_header a) "")).
    + destruct (hget _ _); cbn [with_vars with_hdrs e_vars]; [apply hget_hset_same|reflexivity].
    + destruct (ra_auto_host a); [|reflexivity].
      destruct (e_dns_host e); cbn [with_vars with_hdrs e_vars]; [apply hget_hset_same|reflexivity].
Qed.

(* the path variable is not touched by the header / host step *)
Lemma finalize_base_path a e : assoc var_path (e_vars (finalize_base a e)) = assoc var_path (e_vars e).
Proof.
  assert (forall v, assoc var_path (hset var_authority v (e_vars e)) = assoc var_path (e_vars e)) as H.
  { intros v. apply (hget_hset_other var_path var_authority). discriminate. }
  unfold finalize_base.
  destruct (negb (String.eqb (ra_host_rewrite a) "")); [cbn [with_vars e_vars]; apply H|].
  destruct (negb (String.eqb (ra_auto_host_header a) "")).
  - destruct (hget _ _); cbn [with_vars with_hdrs e_vars]; [apply H|reflexivity].
  - destruct (ra_auto_host a); [|reflexivity].
    destruct (e_dns_host e); cbn [with_vars with_hdrs e_vars]; [apply H|reflexivity].
Qed.

(* ------------------------------------------------------------------ path rewrite *)
Lemma prefix_split p s : String.prefix p s = true -> s = p ++ drop (String.length p) s.
Proof.
  revert s; induction p as [|c p IH]; intros s.
  - destruct s; intros _; reflexivity.
  - destruct s as [|d s]; cbn [String.prefix String.length drop append]; [intros H; discriminate H|].
    destruct (Ascii.ascii_dec c d) as [->|]; [|intros H; discriminate H].
    intros H. f_equal. now apply IH.
Qed.

(* prefix rewrite: exactly the matched prefix is replaced, the original path is recorded *)
Theorem prefix_rewrite_applies a matched e path rest :
  ra_prefix_rewrite a <> "" -> assoc var_path (e_vars e) = Some path -> path = matched ++ rest -> path <> "" ->
  assoc var_path (e_vars (finalize_path a matched e)) = Some (ra_prefix_rewrite a ++ rest) /\
  hget hdr_original_path (e_hdrs (finalize_path a matched e)) = Some path.
Proof.
  intros Hrw Hp Hsplit Hne. unfold finalize_path.
  destruct (String.eqb_spec (ra_prefix_rewrite a) "") as [|_]; [contradiction|]. cbn [andb negb].
  rewrite Hp. destruct (String.eqb_spec path "") as [|_]; [contradiction|].
  assert (String.prefix matched path = true) as Hpre.
  { subst path. clear. induction matched as [|c m IH]; cbn [append String.prefix].
    - destruct rest; reflexivity.
    - destruct (Ascii.ascii_dec c c); [exact IH|contradiction]. }
  rewrite Hpre. cbn [with_vars with_hdrs e_vars e_hdrs]. split.
  - rewrite (hget_hset_same var_path). f_equal. f_equal.
    pose proof (prefix_split _ _ Hpre) as Hs. rewrite Hsplit in Hs at 1.
    clear -Hs. revert Hs. generalize (drop (String.length matched) path). intros r.
    induction matched as [|c m IH]; cbn [append]; [intros ->; reflexivity|]. intros H; inversion H. now apply IH.
  - apply hget_hset_same.
Qed.

(* a path that does not start with the matched string is left alone *)
Theorem prefix_rewrite_skipped a matched e path :
  ra_prefix_rewrite a <> "" -> assoc var_path (e_vars e) = Some path -> String.prefix matched path = false ->
  finalize_path a matched e = e.
Proof.
  intros Hrw Hp Hpre. unfold finalize_path.
  destruct (String.eqb_spec (ra_prefix_rewrite a) "") as [|_]; [contradiction|]. cbn [andb negb].
  rewrite Hp, Hpre. destruct (String.eqb path ""); reflexivity.
Qed.

(* regex rewrite: the path becomes the library's replacement result, the original is recorded - only when it differs *)
Theorem regex_rewrite_applies a matched e path :
  ra_prefix_rewrite a = "" -> regex_rewrite_active a = true ->
  assoc var_path (e_vars e) = Some path -> path <> "" ->
  (e_replaced e <> path ->
     assoc var_path (e_vars (finalize_path a matched e)) = Some (e_replaced e) /\
     hget hdr_original_path (e_hdrs (finalize_path a matched e)) = Some path) /\
  (e_replaced e = path -> finalize_path a matched e = e).
Proof.
  intros Hrw Hact Hp Hne. unfold finalize_path. rewrite Hrw, Hact, Hp. cbn [String.eqb andb negb].
  destruct (String.eqb_spec path "") as [|_]; [contradiction|]. split.
  - intros Hd. destruct (String.eqb_spec (e_replaced e) path); [contradiction|].
    cbn [with_vars with_hdrs e_vars e_hdrs]. split; [apply (hget_hset_same var_path)|apply hget_hset_same].
  - intros ->. rewrite String.eqb_refl. reflexivity.
Qed.

(* no rewrite configured (or no usable path): nothing changes *)
Theorem no_rewrite_untouched a matched e :
  (ra_prefix_rewrite a = "" /\ regex_rewrite_active a = false) \/
  assoc var_path (e_vars e) = None \/ assoc var_path (e_vars e) = Some "" ->
  finalize_path a matched e = e.
Proof.
  unfold finalize_path. intros [[-> ->]|[->| ->]].
  - reflexivity.
  - destruct (andb _ _); reflexivity.
  - destruct (andb _ _); reflexivity.
Qed.

(* kinds without a path rule never rewrite the path *)
Theorem rpc_var_dsl_keep_path a e : (ra_kind a = RKRpc \/ ra_kind a = RKVar \/ ra_kind a = RKDsl) ->
  assoc var_path (e_vars (finalize_request true true a e)) = assoc var_path (e_vars e).
Proof.
  unfold finalize_request. intros [-> |[-> | ->]]; apply finalize_base_path.
Qed.

(* ------------------------------------------------------------------ redirect *)
Theorem make_redirect_spec r :
  match make_redirect r with
  | Some rule =>
      (rd_code r = 0 /\ rr_code rule = 301 \/ code_supported (rd_code r) = true /\ rr_code rule = rd_code r) /\
      rr_path rule = rd_path r /\ rr_host rule = rd_host r /\ rr_scheme rule = lower (rd_scheme r) /\
      (rd_scheme r = "" \/ scheme_valid (lower (rd_scheme r)) = true)
  | None => (rd_code r <> 0 /\ code_supported (rd_code r) = false) \/
            (lower (rd_scheme r) <> "" /\ scheme_valid (lower (rd_scheme r)) = false)
  end.
Proof.
  unfold make_redirect.
  destruct (String.eqb_spec (lower (rd_scheme r)) "") as [He|Hne]; cbn [negb andb].
  - assert (rd_scheme r = "") as Hs by (destruct (rd_scheme r); [reflexivity|discriminate]).
    destruct (Nat.eqb_spec (rd_code r) 0) as [H0|H0].
    + cbn [rr_code rr_path rr_host rr_scheme]. auto 10.
    + destruct (code_supported (rd_code r)) eqn:Ec; cbn [rr_code rr_path rr_host rr_scheme]; auto 10.
  - destruct (scheme_valid (lower (rd_scheme r))) eqn:Ev; cbn [negb].
    + destruct (Nat.eqb_spec (rd_code r) 0) as [H0|H0].
      * cbn [rr_code rr_path rr_host rr_scheme]. auto 10.
      * destruct (code_supported (rd_code r)) eqn:Ec; cbn [rr_code rr_path rr_host rr_scheme]; auto 10.
    + right. auto.
Qed.

(* scheme / host / path come from the rule when set, else from the request; the query is preserved; the port is dropped
   exactly when the scheme changes and (new scheme, port) is one of the strip pairs *)
Theorem redirect_url_spec strip r cs ch cp cq :
  let u := redirect_url strip r cs ch cp cq in
  u_scheme u = or_else (rr_scheme r) cs /\
  u_path u = or_else (rr_path r) cp /\
  u_query u = cq /\
  (u_scheme u = cs -> u_host u = or_else (rr_host r) ch) /\
  (u_scheme u <> cs -> forall h p, split_host_port (or_else (rr_host r) ch) = SplitOk h p ->
     u_host u = if pair_in (u_scheme u) p strip then h else or_else (rr_host r) ch) /\
  (u_scheme u <> cs -> (forall h p, split_host_port (or_else (rr_host r) ch) <> SplitOk h p) ->
     u_host u = or_else (rr_host r) ch).
Proof.
  cbn zeta. unfold redirect_url. cbn [u_scheme u_host u_path u_query].
  repeat split.
  - intros Heq. rewrite Heq, String.eqb_refl. reflexivity.
  - intros Hne h p Hs. destruct (String.eqb_spec (or_else (rr_scheme r) cs) cs); [contradiction|]. rewrite Hs. reflexivity.
  - intros Hne Hs. destruct (String.eqb_spec (or_else (rr_scheme r) cs) cs); [contradiction|].
    destruct (split_host_port (or_else (rr_host r) ch)) as [h p| |] eqn:E; [exfalso; exact (Hs h p eq_refl)|reflexivity|reflexivity].
Qed.
