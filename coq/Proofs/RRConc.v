(* Proofs about Model/RRConc.v: every interleaving of concurrent round robin lookups, health flips and cursor bumps. *)
From Coq Require Import List NArith Arith Bool Lia ZifyN ZifyNat ZifyBool.
From MV Require Import Lib.Interleave Model.RRConc.
Import ListNotations.

(* the second pass of the reduced variant visits every position: total consecutive residues from a start < total *)
Lemma cover_mod : forall total s k, (s < total)%nat -> (k < total)%nat ->
  exists j, (j < total)%nat /\ ((j + s) mod total = k)%nat.
Proof.
  intros total s k Hs Hk. exists ((k + total - s) mod total)%nat. split.
  - apply Nat.mod_upper_bound; lia.
  - rewrite Nat.add_mod_idemp_l by lia. replace (k + total - s + s)%nat with (k + 1 * total)%nat by lia.
    rewrite Nat.mod_add by lia. apply Nat.mod_small; auto.
Qed.

Lemma flip_at_length : forall k hl, length (flip_at k hl) = length hl.
Proof. induction k; destruct hl; cbn; auto. Qed.

Lemma nth_flip_other : forall k j hl, j <> k -> nth j (flip_at k hl) false = nth j hl false.
Proof.
  induction k; intros j [|b hl] H; cbn; auto.
  - destruct j; [congruence|auto].
  - destruct j; auto.
Qed.

Section Inv.
  Variable v : sp_variant.
  Variable total : nat.
  Variable F : list nat.            (* positions some flip thread may touch *)
  Variable hl0 : list bool.
  Definition stable (k : nat) : Prop := nth k hl0 false = true /\ ~ In k F.

  Definition thread_ok (t : rthread) : Prop :=
    match t with
    | RLook ph obs =>
        (forall k, In k obs -> ~ stable k) /\
        match ph with
        | R1add _ => True
        | R1probe _ idx => (idx < total)%nat
        | R2add => (0 < total)%nat
        | R2probe start i =>
            (i < total)%nat /\
            (v = SPReduced -> (start < N.of_nat total)%N /\
                              forall j, (j < i)%nat -> In ((j + N.to_nat start) mod total)%nat obs)
        | RDone (Some idx) => (idx < total)%nat
        | RDone None => total = 0%nat \/ (v = SPReduced -> forall k, (k < total)%nat -> In k obs)
        end
    | RFlip k _ => In k F
    | RBump _ => True
    end.

  Definition cfg_ok (c : list rthread * rshared) : Prop :=
    Forall thread_ok (fst c) /\ length (snd (snd c)) = total /\
    forall k, stable k -> nth k (snd (snd c)) false = true.

  Lemma sp_index_lt : forall start i, (0 < total)%nat -> (sp_index v total start i < total)%nat.
  Proof.
    intros start i H. unfold sp_index. destruct v.
    - apply Nat.mod_upper_bound; lia.
    - assert ((u32 (start + N.of_nat i) mod N.of_nat total) < N.of_nat total)%N by (apply N.mod_upper_bound; lia). lia.
  Qed.

  Lemma step_ok : forall c k, cfg_ok c -> cfg_ok (sched_step (rstep v) c k).
  Proof.
    intros [ts [cur hl]] k [Hts [Hlen Hst]]. unfold sched_step; cbn [fst snd] in *.
    destruct (nth_error ts k) as [t|] eqn:Hk; [|repeat split; auto].
    assert (Ht : thread_ok t) by (rewrite Forall_forall in Hts; apply Hts; eapply nth_error_In; eauto).
    unfold rstep. rewrite Hlen.
    destruct t as [ph obs|kf [|]|[|n]].
    - (* a lookup *)
      destruct Ht as [Hobs Hph].
      assert (Hfin : forall t' cur', thread_ok t' ->
                cfg_ok (upd_nth k t' ts, (cur', hl))).
      { intros t' cur' Ht'. split; [|split; auto]. apply Forall_upd_nth; auto. }
      destruct ph as [i|i idx| |start i|res].
      + destruct total as [|tot'] eqn:Et; cbn [fst snd]; apply Hfin; cbn; split; auto.
        assert ((u32 (cur + 1) mod N.of_nat (S tot')) < N.of_nat (S tot'))%N by (apply N.mod_upper_bound; lia). lia.
      + destruct (nth idx hl false) eqn:Eh.
        * cbn [fst snd]. apply Hfin. cbn. split; auto.
        * assert (Hns : forall k0, In k0 (idx :: obs) -> ~ stable k0).
          { intros k0 [<-|Hin]; auto. intros Hs. rewrite (Hst _ Hs) in Eh. discriminate. }
          destruct (Nat.ltb (S i) total); cbn [fst snd]; apply Hfin; cbn; split; auto. lia.
      + cbn [fst snd]. apply Hfin. cbn. split; auto. split; [lia|].
        intros Hv. rewrite Hv. cbn [sp_start]. split; [apply N.mod_upper_bound; lia|]. intros j Hj; lia.
      + destruct Hph as [Hi Hred].
        pose proof (sp_index_lt start i ltac:(lia)) as Hidx.
        destruct (nth (sp_index v total start i) hl false) eqn:Eh.
        * cbn [fst snd]. apply Hfin. cbn. split; auto.
        * assert (Hns : forall k0, In k0 (sp_index v total start i :: obs) -> ~ stable k0).
          { intros k0 [<-|Hin]; auto. intros Hs. rewrite (Hst _ Hs) in Eh. discriminate. }
          assert (Hall : v = SPReduced -> forall j, (j < S i)%nat ->
                           In ((j + N.to_nat start) mod total)%nat (sp_index v total start i :: obs)).
          { intros Hv j Hj. destruct (Hred Hv) as [_ Hprev].
            destruct (Nat.eq_dec j i) as [->|Hne]; [left; rewrite Hv; reflexivity|right; apply Hprev; lia]. }
          destruct (Nat.ltb_spec (S i) total); cbn [fst snd]; apply Hfin; cbn; split; auto.
          -- split; auto. intros Hv. destruct (Hred Hv); split; [auto|apply Hall; auto].
          -- right. intros Hv k0 Hk0. destruct (Hred Hv) as [Hs _].
             destruct (cover_mod total (N.to_nat start) k0 ltac:(lia) Hk0) as (j & Hj & <-).
             apply Hall; auto. lia.
      + cbn [fst snd]. split; [|split; auto]. apply Forall_upd_nth; auto. cbn. split; auto.
    - cbn [fst snd]. split; [|split; auto]. apply Forall_upd_nth; auto.
    - (* a flip *)
      cbn [fst snd]. cbn in Ht. split; [|split].
      + apply Forall_upd_nth; auto.
      + cbn. rewrite flip_at_length; auto.
      + cbn. intros k0 Hs. rewrite nth_flip_other; auto. intros ->. destruct Hs as [_ Hn]. auto.
    - cbn [fst snd]. split; [|split; auto]. apply Forall_upd_nth; auto.
    - cbn [fst snd]. split; [|split; auto]. apply Forall_upd_nth; auto.
  Qed.
End Inv.

Definition rinitial (t : rthread) : bool :=
  match t with RLook (R1add 0) [] => true | RFlip _ false => true | RBump _ => true | _ => false end.

Lemma flip_targets_in : forall ts k d, In (RFlip k d) ts -> In k (flip_targets ts).
Proof. intros ts k d H. unfold flip_targets. apply in_flat_map. exists (RFlip k d). split; auto. left; auto. Qed.

Lemma init_ok : forall v ts cur hl, forallb rinitial ts = true ->
  cfg_ok v (length hl) (flip_targets ts) hl (ts, (cur, hl)).
Proof.
  intros v ts cur hl Hi. repeat split; cbn [fst snd]; auto.
  - rewrite Forall_forall. intros t Hin. rewrite forallb_forall in Hi. specialize (Hi t Hin).
    destruct t as [ph obs|k d|n].
    + destruct ph as [[|i]|i idx| |st i|r]; cbn in Hi; try discriminate.
      destruct obs; [|discriminate]. cbn. split; [intros k []|exact I].
    + cbn. eapply flip_targets_in; eauto.
    + exact I.
  - intros k [H _]. exact H.
Qed.

Lemma run_ok : forall v sched ts cur hl, forallb rinitial ts = true ->
  cfg_ok v (length hl) (flip_targets ts) hl (rrun v sched ts cur hl).
Proof.
  intros. unfold rrun. apply (run_invariant (rstep v) (cfg_ok v (length hl) (flip_targets ts) hl)).
  - intros c k Hc. apply step_ok; auto.
  - apply init_ok; auto.
Qed.

(* member: whatever the interleaving (and whichever second-pass expression), a lookup returns a position of the set *)
Theorem rr_member : forall v sched ts cur hl, forallb rinitial ts = true ->
  Forall (fun t => match t with RLook (RDone (Some idx)) _ => (idx < length hl)%nat | _ => True end)
         (fst (rrun v sched ts cur hl)).
Proof.
  intros v sched ts cur hl Hi. destruct (run_ok v sched ts cur hl Hi) as [Hts _].
  eapply Forall_impl; [|exact Hts]. intros t Ht. destruct t as [[| | | |[idx|]] obs| |]; auto. destruct Ht; auto.
Qed.

(* a lookup that returns nil has itself probed EVERY position and found it unhealthy at that moment (reduced variant) *)
Theorem rr_nil_probed_all : forall sched ts cur hl, forallb rinitial ts = true ->
  Forall (fun t => match t with
                   | RLook (RDone None) obs => forall k, (k < length hl)%nat -> In k obs
                   | _ => True end)
         (fst (rrun SPReduced sched ts cur hl)).
Proof.
  intros sched ts cur hl Hi. destruct (run_ok SPReduced sched ts cur hl Hi) as [Hts _].
  eapply Forall_impl; [|exact Hts]. intros t Ht. destruct t as [[| | | |[idx|]] obs| |]; auto.
  destruct Ht as [_ [H0|H]]; [intros k Hk; lia|auto].
Qed.

(* complete: if some host is healthy and no flip touches it, no lookup returns nil - under EVERY interleaving *)
Theorem rr_complete : forall sched ts cur hl k, forallb rinitial ts = true -> stable_healthy ts hl k ->
  Forall (fun t => match t with RLook (RDone None) _ => False | _ => True end)
         (fst (rrun SPReduced sched ts cur hl)).
Proof.
  intros sched ts cur hl k Hi [Hk Hnf]. destruct (run_ok SPReduced sched ts cur hl Hi) as [Hts _].
  eapply Forall_impl; [|exact Hts]. intros t Ht. destruct t as [[| | | |[idx|]] obs| |]; auto.
  destruct Ht as [Hobs [H0|H]].
  - destruct hl; [destruct k; discriminate|discriminate].
  - assert (Hlt : (k < length hl)%nat).
    { destruct (Nat.lt_ge_cases k (length hl)); auto. rewrite nth_overflow in Hk by auto. discriminate. }
    apply (Hobs k (H eq_refl k Hlt)). split; auto.
Qed.

Definition rr_complete_statement (v : sp_variant) : Prop :=
  forall sched ts cur hl k, forallb rinitial ts = true -> stable_healthy ts hl k ->
  Forall (fun t => match t with RLook (RDone None) _ => False | _ => True end) (fst (rrun v sched ts cur hl)).

Theorem rr_complete_of_variant : forall v, v = SPReduced -> rr_complete_statement v.
Proof. intros v -> sched ts cur hl k. apply rr_complete. Qed.

(* the raw-cursor second pass: 6 hosts, only position 4 healthy, cursor 2^32-10, one foreign AddUint32 between the
   third add and the third probe of the lookup: the second pass wraps at 2^32 and never visits position 4 *)
Theorem rr_raw_refuted : ~ rr_complete_statement SPRaw.
Proof.
  intros H.
  specialize (H [0;0;0;0;0; 1; 0;0;0;0;0;0;0;0;0;0;0;0;0;0;0;0;0;0;0;0;0]%nat [new_lookup; RBump 1] 4294967286%N
                [false; false; false; false; true; false] 4%nat eq_refl).
  assert (Hs : stable_healthy [new_lookup; RBump 1] [false; false; false; false; true; false] 4).
  { split; [reflexivity|]. cbn. tauto. }
  specialize (H Hs). vm_compute in H. inversion H as [|? ? Hf _]. exact Hf.
Qed.

Theorem rr_nil_probed_all_of_variant : forall v, v = SPReduced -> forall sched ts cur hl, forallb rinitial ts = true ->
  Forall (fun t => match t with
                   | RLook (RDone None) obs => forall k, (k < length hl)%nat -> In k obs
                   | _ => True end)
         (fst (rrun v sched ts cur hl)).
Proof. intros v ->. apply rr_nil_probed_all. Qed.
