(* Proofs about Model/ListenerUpdate.v (property C12, listener part). *)
From Coq Require Import List Arith Bool Lia.
From MV Require Import Model.ListenerUpdate.
Import ListNotations.

Definition good : lflags := mkF true true true.

Definition refines (s : lstate) : Prop := forall n, live s n = option_map fresh (stored s n).

Lemma refines_init : refines s_init.
Proof. intros n. reflexivity. Qed.

Lemma refines_step s o : refines s -> refines (u_step good s o).
Proof.
  intros H k. destruct o as [n c|n]; cbn [u_step good insp_first idle_stored remove_clears].
  - destruct (live s n) eqn:El, (stored s n) eqn:Es; cbn [live stored]; unfold upd;
      destruct (Nat.eqb k n) eqn:E; cbn [option_map]; try reflexivity; try apply H.
  - cbn [live stored]. unfold upd. destruct (Nat.eqb k n); [reflexivity|apply H].
Qed.

Lemma fold_refines ops : forall s, refines s -> refines (fold_left (u_step good) ops s).
Proof. induction ops as [|o ops IH]; intros s H; cbn; [exact H|]. apply IH. apply refines_step. exact H. Qed.

(* after EVERY update history the live listeners are the listeners a fresh MOSN builds from the stored configuration *)
Theorem listener_refinement ops : refines (u_run good ops).
Proof. apply fold_refines. apply refines_init. Qed.

(* consequences *)
Theorem last_update_wins ops n c : live (u_run good (ops ++ [UAddOrUpdate n c])) n = Some (fresh c).
Proof.
  unfold u_run. rewrite fold_left_app. cbn [fold_left u_step good insp_first idle_stored].
  destruct (live (fold_left (u_step good) ops s_init) n), (stored (fold_left (u_step good) ops s_init) n);
    cbn [live]; unfold upd; rewrite Nat.eqb_refl; reflexivity.
Qed.

Theorem removed_is_gone ops n :
  live (u_run good (ops ++ [URemove n])) n = None /\ stored (u_run good (ops ++ [URemove n])) n = None.
Proof.
  unfold u_run. rewrite fold_left_app. cbn [fold_left u_step good remove_clears live stored]. unfold upd.
  rewrite Nat.eqb_refl. split; reflexivity.
Qed.
