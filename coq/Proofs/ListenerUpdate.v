(* Proofs about Model/ListenerUpdate.v (property C12, listener part). *)
From Coq Require Import List Arith Bool Lia.
From MV Require Import Model.ListenerUpdate.
Import ListNotations.

Definition good : lflags := mkF true true true true.

Definition refines (s : lstate) : Prop := forall n, live s n = option_map fresh (stored s n).

Lemma refines_init : refines s_init.
Proof. intros n. reflexivity. Qed.

Lemma refines_step s o : refines s -> refines (u_step good s o).
Proof.
  intros H k. destruct o as [n c|n]; cbn [u_step good insp_first idle_stored remove_clears dump_is_live].
  - destruct (live s n) eqn:El, (stored s n) eqn:Es; cbn [live stored]; unfold upd;
      destruct (Nat.eqb k n) eqn:E; cbn [option_map]; try reflexivity; try apply H.
  - cbn [live stored]. unfold upd. destruct (Nat.eqb k n); [reflexivity|apply H].
Qed.

Lemma fold_refines ops : forall s, refines s -> refines (fold_left (u_step good) ops s).
Proof. induction ops as [|o ops IH]; intros s H; cbn; [exact H|]. apply IH. apply refines_step. exact H. Qed.

(* after EVERY update history the live listeners are the listeners a fresh MOSN builds from the stored configuration *)
Theorem listener_refinement ops : refines (u_run good ops).
Proof. apply fold_refines. apply refines_init. Qed.

(* consequences *)
(* the last update wins for every field an update applies; the static fields are those of the add that created the listener *)
Definition after_update (p : option lconf) (c : lconf) : lconf := match p with Some p => merge p c | None => c end.

Theorem last_update_wins ops n c :
  let s := u_run good ops in
  live (u_run good (ops ++ [UAddOrUpdate n c])) n = Some (fresh (after_update (stored s n) c)) /\
  stored (u_run good (ops ++ [UAddOrUpdate n c])) n = Some (after_update (stored s n) c).
Proof.
  cbv zeta. pose proof (listener_refinement ops n) as R.
  unfold u_run in *. rewrite fold_left_app. cbn [fold_left u_step good insp_first idle_stored dump_is_live].
  destruct (live (fold_left (u_step good) ops s_init) n), (stored (fold_left (u_step good) ops s_init) n);
    cbn [live stored after_update]; unfold upd; rewrite Nat.eqb_refl; cbn [option_map] in R; try discriminate R;
    split; reflexivity.
Qed.

(* an update never changes the static fields of an existing listener *)
Theorem update_keeps_static ops n c p :
  stored (u_run good ops) n = Some p ->
  option_map lc_static (stored (u_run good (ops ++ [UAddOrUpdate n c])) n) = Some (lc_static p) /\
  option_map ll_static (live (u_run good (ops ++ [UAddOrUpdate n c])) n) = Some (lc_static p).
Proof.
  intros H. destruct (last_update_wins ops n c) as [L S]. cbv zeta in L, S. rewrite H in L, S. rewrite L, S. split; reflexivity.
Qed.

Theorem removed_is_gone ops n :
  live (u_run good (ops ++ [URemove n])) n = None /\ stored (u_run good (ops ++ [URemove n])) n = None.
Proof.
  unfold u_run. rewrite fold_left_app. cbn [fold_left u_step good remove_clears live stored]. unfold upd.
  rewrite Nat.eqb_refl. split; reflexivity.
Qed.
