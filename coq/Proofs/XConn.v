(* Proofs about Model/XConn.v: invariant of the client stream table over EVERY op history, delivery soundness,
   no displacement inside the allocation window (through counter wrap-around), server-side id restore. *)
From Coq Require Import List NArith ZArith Bool Arith Lia.
From Coq Require Import ZifyBool ZifyNat ZifyN.
From RecordUpdate Require Import RecordUpdate.
From MV Require Import Model.XConn.
Import ListNotations.
Open Scope N_scope.

Ltac zsolve := unfold two64, two32, two31 in *; zify; Z.div_mod_to_equations; lia.

(* ------------------------------------------------------------------------------------------------ *)
(* id generation *)
Definition real_gen (g : genk) : Prop := g = GenU32 \/ g = GenS32 \/ g = GenU64.

Lemma id_space_pos : forall g, real_gen g -> 0 < id_space g.
Proof. intros g [-> | [-> | ->]]; cbn; unfold two32, two64; lia. Qed.

Lemma next_ctr_closed : forall c0 n, next_ctr ((c0 + n) mod two64) = (c0 + (n + 1)) mod two64.
Proof. intros. unfold next_ctr. zsolve. Qed.

(* two allocations fewer than id_space apart never produce the same id - wrap-around of the counter included *)
Lemma gen_inj : forall g c0 a b, real_gen g -> c0 < two64 -> a < b -> b - a < id_space g ->
  gen_id g ((c0 + a + 1) mod two64) <> gen_id g ((c0 + b + 1) mod two64).
Proof.
  intros g c0 a b [-> | [-> | ->]] Hc Hab Hw; cbn [gen_id id_space] in *.
  - zsolve.
  - destruct (((c0 + a + 1) mod two64) mod two32 <? two31) eqn:E1;
    destruct (((c0 + b + 1) mod two64) mod two32 <? two31) eqn:E2; zsolve.
  - zsolve.
Qed.

(* ------------------------------------------------------------------------------------------------ *)
(* association list facts *)
Lemma lookup_In : forall t id s, NoDup (map fst t) -> (lookup id t = Some s <-> In (id, s) t).
Proof.
  induction t as [|[k v] t IH]; cbn; intros id s Hnd; [split; [discriminate|tauto]|].
  inversion Hnd as [|? ? Hnot Hnd']; subst. destruct (N.eqb_spec k id) as [->|Hne].
  - split.
    + intros H. inversion H; subst. left. reflexivity.
    + intros [H|H]; [inversion H; reflexivity|]. exfalso. apply Hnot. apply (in_map fst) in H. exact H.
  - rewrite IH by assumption. split; [tauto|]. intros [H|H]; [inversion H; congruence|assumption].
Qed.

Lemma lookup_None : forall t id, lookup id t = None <-> ~ In id (map fst t).
Proof.
  induction t as [|[k v] t IH]; cbn; intros id; [tauto|].
  destruct (N.eqb_spec k id) as [->|Hne]; [split; [discriminate|tauto]|]. rewrite IH. tauto.
Qed.

Lemma remove_key_In : forall t id k s, In (k, s) (remove_key id t) <-> In (k, s) t /\ k <> id.
Proof.
  induction t as [|[k' v] t IH]; cbn; intros id k s; [tauto|].
  destruct (N.eqb_spec k' id) as [->|Hne].
  - rewrite IH. split; [tauto|]. intros [[H|H] Hn]; [inversion H; congruence|tauto].
  - cbn. rewrite IH. split.
    + intros [H|H]; [inversion H; subst; split; [left; reflexivity|assumption]|tauto].
    + intros [[H|H] Hn]; [left; assumption|right; tauto].
Qed.

Lemma remove_key_keys : forall t id k, In k (map fst (remove_key id t)) -> In k (map fst t) /\ k <> id.
Proof.
  intros t id k H. apply in_map_iff in H. destruct H as [[k' s] [E H]]. cbn in E. subst.
  apply remove_key_In in H. destruct H as [H Hn]. split; [|assumption]. apply (in_map fst) in H. exact H.
Qed.

Lemma remove_key_NoDup : forall t id, NoDup (map fst t) -> NoDup (map fst (remove_key id t)).
Proof.
  induction t as [|[k v] t IH]; cbn; intros id Hnd; [constructor|].
  inversion Hnd; subst. destruct (N.eqb_spec k id); [auto|]. cbn. constructor; [|auto].
  intros H. apply remove_key_keys in H. tauto.
Qed.

(* ------------------------------------------------------------------------------------------------ *)
(* the invariant *)
Record XInv (g : genk) (c0 : N) (x : xconn) : Prop := mkXInv {
  xi_ctr : ctr x = (c0 + N.of_nat (nstreams x)) mod two64;
  xi_id : forall s, (s < nstreams x)%nat -> x_id (xst x s) = gen_id g ((c0 + N.of_nat s + 1) mod two64);
  xi_nodup : NoDup (map fst (tbl x));
  xi_tbl : forall id s, In (id, s) (tbl x) ->
           (s < nstreams x)%nat /\ x_id (xst x s) = id /\ x_recv (xst x s) = 0%nat /\ x_inflight (xst x s) = true;
  xi_recv : forall s, (s < nstreams x)%nat -> (x_recv (xst x s) <= 1)%nat;
  xi_inflight : forall s, (s < nstreams x)%nat -> x_inflight (xst x s) = true -> In (x_id (xst x s), s) (tbl x);
  xi_wok : wok x = true -> displaced x = 0%nat /\
           forall id s, In (id, s) (tbl x) -> N.of_nat (nstreams x - 1 - s) < id_space g
}.

Lemma xinit_inv : forall g c0, c0 < two64 -> XInv g c0 (xinit c0).
Proof.
  intros g c0 Hc. constructor; cbn; try (intros; lia); try tauto.
  - zsolve.
  - constructor.
Qed.

Definition flags_only (f : xs -> xs) : Prop :=
  forall e, x_id (f e) = x_id e /\ x_recv (f e) = x_recv e /\ x_inflight (f e) = x_inflight e.

Lemma set_flags_inv : forall g c0 x s f, flags_only f -> XInv g c0 x -> XInv g c0 (set_flags x s f).
Proof.
  intros g c0 x s f Hf [I1 I2 I3 I4 I5 I6 I7].
  assert (Hid : forall t, x_id (xst (set_flags x s f) t) = x_id (xst x t)).
  { intros t. cbn. unfold upd. destruct (Nat.eqb_spec t s) as [->|]; [apply Hf|reflexivity]. }
  assert (Hrc : forall t, x_recv (xst (set_flags x s f) t) = x_recv (xst x t)).
  { intros t. cbn. unfold upd. destruct (Nat.eqb_spec t s) as [->|]; [apply Hf|reflexivity]. }
  assert (Hin : forall t, x_inflight (xst (set_flags x s f) t) = x_inflight (xst x t)).
  { intros t. cbn. unfold upd. destruct (Nat.eqb_spec t s) as [->|]; [apply Hf|reflexivity]. }
  constructor; try assumption.
  - intros t Ht. rewrite Hid. apply I2. exact Ht.
  - intros id t H. rewrite Hid, Hrc, Hin. apply I4. exact H.
  - intros t Ht. rewrite Hrc. apply I5. exact Ht.
  - intros t Ht. rewrite Hin, Hid. apply I6. exact Ht.
Qed.

Lemma base_reset_inv : forall g c0 x s, XInv g c0 x -> XInv g c0 (base_reset x s).
Proof.
  intros g c0 x s HI. unfold base_reset. destruct (x_alive (xst x s)); [|assumption].
  apply set_flags_inv; [|assumption]. intros e. cbn. auto.
Qed.

Lemma set_wok_inv : forall g c0 x w, XInv g c0 x -> (w = true -> wok x = true) -> XInv g c0 (x <| wok := w |>).
Proof.
  intros g c0 x w [I1 I2 I3 I4 I5 I6 I7] Hw. constructor; cbn; auto.
Qed.

(* the holder s of key id loses its entry (answered, reset, or displaced): entry removed, in-flight mark cleared;
   the ghosts displaced / wok are set in the same step *)
Lemma drop_entry_inv : forall g c0 x id s f d w,
  XInv g c0 x -> lookup id (tbl x) = Some s ->
  (forall e, x_id (f e) = x_id e /\ (x_recv e = 0%nat -> (x_recv (f e) <= 1)%nat) /\ x_inflight (f e) = false) ->
  (w = true -> wok x = true /\ d = 0%nat) ->
  XInv g c0 (set_flags (x <| tbl := remove_key id (tbl x) |> <| displaced := d |> <| wok := w |>) s f).
Proof.
  intros g c0 x id s f d w [I1 I2 I3 I4 I5 I6 I7] Hl Hf Hd.
  apply lookup_In in Hl; [|assumption]. destruct (I4 id s Hl) as [Hs [Hids [Hr0 Hfl]]].
  set (x' := set_flags (x <| tbl := remove_key id (tbl x) |> <| displaced := d |> <| wok := w |>) s f).
  assert (Hid : forall t, x_id (xst x' t) = x_id (xst x t)).
  { intros t. cbn. unfold upd. destruct (Nat.eqb_spec t s) as [->|]; [apply Hf|reflexivity]. }
  assert (Hother : forall t, t <> s -> xst x' t = xst x t).
  { intros t Hne. cbn. unfold upd. destruct (Nat.eqb_spec t s); [contradiction|reflexivity]. }
  assert (Hself : xst x' s = f (xst x s)).
  { cbn. unfold upd. rewrite Nat.eqb_refl. reflexivity. }
  constructor.
  - exact I1.
  - intros t Ht. rewrite Hid. apply I2. exact Ht.
  - apply remove_key_NoDup. assumption.
  - intros k t H. cbn in H. apply remove_key_In in H. destruct H as [H Hne].
    destruct (I4 k t H) as [A [B [C D]]].
    assert (t <> s) by (intros ->; congruence).
    rewrite Hother by assumption. auto.
  - intros t Ht. destruct (Nat.eq_dec t s) as [->|Hne].
    + rewrite Hself. apply Hf. assumption.
    + rewrite Hother by assumption. apply I5. exact Ht.
  - intros t Ht. destruct (Nat.eq_dec t s) as [->|Hne].
    + rewrite Hself. destruct (Hf (xst x s)) as [_ [_ H]]. rewrite H. discriminate.
    + rewrite Hother by assumption. intros Hfl'. cbn. apply remove_key_In. split; [apply I6; assumption|].
      intros E. apply Hne. assert (Ht' := I6 t Ht Hfl'). rewrite E in Ht'.
      apply lookup_In in Ht'; [|assumption]. apply lookup_In in Hl; [|assumption]. congruence.
  - cbn. intros Hw. destruct (Hd Hw) as [Hwx ->]. destruct (I7 Hwx) as [A B]. split; [reflexivity|].
    intros k t H. apply remove_key_In in H. apply (B k t). tauto.
Qed.

Lemma remove_absent_inv : forall g c0 x id w, XInv g c0 x -> lookup id (tbl x) = None -> (w = true -> wok x = true) ->
  XInv g c0 (x <| tbl := remove_key id (tbl x) |> <| wok := w |>).
Proof.
  intros g c0 x id w [I1 I2 I3 I4 I5 I6 I7] Hl Hw. apply lookup_None in Hl.
  assert (Hsame : forall k s, In (k, s) (remove_key id (tbl x)) <-> In (k, s) (tbl x)).
  { intros k s. rewrite remove_key_In. split; [tauto|]. intros H. split; [assumption|].
    intros ->. apply Hl. apply (in_map fst) in H. exact H. }
  constructor; cbn; auto.
  - apply remove_key_NoDup. assumption.
  - intros k s H. apply Hsame in H. auto.
  - intros s Hs Hf. apply Hsame. auto.
  - intros Hw'. destruct (I7 (Hw Hw')) as [A B]. split; [assumption|]. intros k s H. apply Hsame in H. eauto.
Qed.

Lemma lookup_remove_key_same : forall t id, lookup id (remove_key id t) = None.
Proof. intros t id. apply lookup_None. intros H. apply remove_key_keys in H. tauto. Qed.

(* a new stream n is allocated; with a receiver (infl) its entry enters the table *)
Lemma add_stream_inv : forall g c0 y id infl,
  XInv g c0 y -> 0 < id_space g ->
  id = gen_id g ((c0 + N.of_nat (nstreams y) + 1) mod two64) ->
  (infl = true -> lookup id (tbl y) = None) ->
  (wok y = true -> forall k s, In (k, s) (tbl y) -> N.of_nat (nstreams y - s) < id_space g) ->
  XInv g c0 (y <| ctr := next_ctr (ctr y) |> <| nstreams := S (nstreams y) |>
               <| xst := upd (xst y) (nstreams y) (mkXs id infl false 0 0 infl) |>
               <| tbl := if infl then (id, nstreams y) :: tbl y else tbl y |>).
Proof.
  intros g c0 y id infl [I1 I2 I3 I4 I5 I6 I7] Hpos Hid Habs Hage.
  set (n := nstreams y) in *.
  constructor; cbn.
  - rewrite I1, next_ctr_closed. f_equal. fold n. lia.
  - intros s Hs. unfold upd. destruct (Nat.eqb_spec s n) as [->|Hne]; [exact Hid|]. apply I2. fold n. lia.
  - destruct infl; [|assumption]. cbn. constructor; [|assumption]. apply lookup_None. auto.
  - intros k s H. assert (Hold : In (k, s) (tbl y) -> (s < S n)%nat /\ x_id (upd (xst y) n (mkXs id infl false 0 0 infl) s) = k /\
        x_recv (upd (xst y) n (mkXs id infl false 0 0 infl) s) = 0%nat /\ x_inflight (upd (xst y) n (mkXs id infl false 0 0 infl) s) = true).
    { intros H'. destruct (I4 k s H') as [A [B [C D]]]. fold n in A. unfold upd. destruct (Nat.eqb_spec s n); [lia|]. auto. }
    destruct infl; [|auto]. destruct H as [H|H]; [|auto]. inversion H; subst. unfold upd. rewrite Nat.eqb_refl. cbn. auto.
  - intros s Hs. unfold upd. destruct (Nat.eqb_spec s n); [cbn; lia|]. apply I5. fold n. lia.
  - intros s Hs. unfold upd. destruct (Nat.eqb_spec s n) as [->|Hne].
    + cbn. intros ->. left. reflexivity.
    + intros H. assert (In (x_id (xst y s), s) (tbl y)) by (apply I6; [fold n; lia|assumption]). destruct infl; [right|]; assumption.
  - intros Hw. destruct (I7 Hw) as [A B]. split; [assumption|].
    intros k s H. assert (Hold : In (k, s) (tbl y) -> N.of_nat (S n - 1 - s) < id_space g).
    { intros H'. specialize (Hage Hw k s H'). destruct (I4 k s H') as [Hs _]. fold n in Hs. lia. }
    destruct infl; [|auto]. destruct H as [H|H]; [|auto]. inversion H; subst. lia.
Qed.

(* all table entries are younger than a full turn: the fresh id is not in the table *)
Lemma fresh_id_absent : forall g c0 x, real_gen g -> c0 < two64 -> XInv g c0 x ->
  forallb (fun e => age x (snd e) <? id_space g) (tbl x) = true ->
  lookup (gen_id g (next_ctr (ctr x))) (tbl x) = None.
Proof.
  intros g c0 x Hg Hc HI Hall. apply lookup_None. intros Hin.
  apply in_map_iff in Hin. destruct Hin as [[k s] [Ek Hin]]. cbn in Ek. subst k.
  rewrite forallb_forall in Hall. specialize (Hall _ Hin). cbn in Hall. unfold age in Hall.
  destruct (xi_tbl _ _ _ HI _ _ Hin) as [Hs [Hid _]].
  rewrite (xi_id _ _ _ HI s Hs) in Hid. rewrite (xi_ctr _ _ _ HI), next_ctr_closed in Hid.
  apply (gen_inj g c0 (N.of_nat s) (N.of_nat (nstreams x)) Hg Hc); [lia| lia|].
  rewrite Hid. f_equal. f_equal. lia.
Qed.

Lemma xnew_inv : forall g c0 x oneway, real_gen g -> c0 < two64 -> XInv g c0 x ->
  XInv g c0 (fst (xstep g x (XNew oneway))).
Proof.
  intros g c0 x oneway Hg Hc HI. cbn [xstep fst].
  set (id := gen_id g (next_ctr (ctr x))).
  set (w := wok x && forallb (fun e => age x (snd e) <? id_space g) (tbl x)).
  assert (Hidn : id = gen_id g ((c0 + N.of_nat (nstreams x) + 1) mod two64)).
  { unfold id. rewrite (xi_ctr _ _ _ HI), next_ctr_closed. f_equal. f_equal. lia. }
  assert (Hww : w = true -> wok x = true) by (unfold w; intros H; apply andb_true_iff in H; tauto).
  assert (Hw_absent : w = true -> lookup id (tbl x) = None).
  { intros Hw. apply andb_true_iff in Hw. destruct Hw as [_ Hall]. apply (fresh_id_absent g c0 x Hg Hc HI Hall). }
  assert (Hage : w = true -> forall k s, In (k, s) (tbl x) -> N.of_nat (nstreams x - s) < id_space g).
  { intros Hw k s H. apply andb_true_iff in Hw. destruct Hw as [_ Hall]. rewrite forallb_forall in Hall.
    specialize (Hall _ H). cbn in Hall. unfold age in Hall. lia. }
  pose proof (id_space_pos g Hg) as Hpos.
  destruct oneway.
  - (* one-way: no table entry, nobody displaced *)
    assert (Hy : XInv g c0 (x <| wok := w |>)) by (apply set_wok_inv; assumption).
    pose proof (add_stream_inv g c0 (x <| wok := w |>) id false Hy Hpos Hidn) as H. cbn in H.
    destruct (lookup id (tbl x)); apply H; try discriminate; exact Hage.
  - destruct (lookup id (tbl x)) as [s'|] eqn:El.
    + (* the holder s' of the same id is displaced *)
      assert (Hy : XInv g c0 (set_flags (x <| tbl := remove_key id (tbl x) |> <| displaced := S (displaced x) |> <| wok := w |>) s'
                     (fun e => mkXs (x_id e) (x_alive e) (x_connreset e) (x_recv e) (x_resets e) false))).
      { apply drop_entry_inv; auto.
        - intros e. cbn. split; [reflexivity|]. split; [lia|reflexivity].
        - intros Hw. discriminate (Hw_absent Hw). }
      pose proof (add_stream_inv g c0 _ id true Hy Hpos Hidn) as H. cbn in H. unfold clear_inflight, set_flags. cbn.
      apply H.
      * intros _. apply lookup_remove_key_same.
      * intros Hw k s H'. apply remove_key_In in H'. apply (Hage Hw k s). tauto.
    + assert (Hy : XInv g c0 (x <| tbl := remove_key id (tbl x) |> <| wok := w |>)) by (apply remove_absent_inv; assumption).
      pose proof (add_stream_inv g c0 _ id true Hy Hpos Hidn) as H. cbn in H. cbn. apply H.
      * intros _. apply lookup_remove_key_same.
      * intros Hw k s H'. apply remove_key_In in H'. apply (Hage Hw k s). tauto.
Qed.

Lemma xresponse_inv : forall g c0 x id, XInv g c0 x -> XInv g c0 (fst (xstep g x (XResponse id))).
Proof.
  intros g c0 x id HI. cbn [xstep]. destruct (lookup id (tbl x)) as [s|] eqn:El; cbn [fst]; [|assumption].
  pose proof (drop_entry_inv g c0 x id s (fun e => mkXs (x_id e) false (x_connreset e) (S (x_recv e)) (x_resets e) false)
                (displaced x) (wok x) HI El) as H.
  assert (Heq : set_flags (x <| tbl := remove_key id (tbl x) |>) s
                  (fun e => mkXs (x_id e) false (x_connreset e) (S (x_recv e)) (x_resets e) false) =
                set_flags (x <| tbl := remove_key id (tbl x) |> <| displaced := displaced x |> <| wok := wok x |>) s
                  (fun e => mkXs (x_id e) false (x_connreset e) (S (x_recv e)) (x_resets e) false)).
  { destruct x. reflexivity. }
  rewrite Heq. apply H.
  - intros e. cbn. split; [reflexivity|]. split; [lia|reflexivity].
  - intros Hw. split; [assumption|]. apply (xi_wok _ _ _ HI Hw).
Qed.

Lemma xconnreset_inv : forall g c0 x, XInv g c0 x -> XInv g c0 (fst (xstep g x XConnReset)).
Proof.
  intros g c0 x HI. cbn [xstep fst]. generalize (tbl x) as l. intros l. revert x HI.
  induction l as [|e l IH]; cbn [fold_left]; intros x HI; [assumption|].
  apply IH. apply base_reset_inv. apply set_flags_inv; [|assumption]. intros v. cbn. auto.
Qed.

Lemma xreset_inv : forall g c0 x s, real_gen g -> c0 < two64 -> XInv g c0 x -> XInv g c0 (fst (xstep g x (XReset s))).
Proof.
  intros g c0 x s Hg Hc HI. cbn [xstep]. destruct (Nat.ltb_spec s (nstreams x)) as [Hs|]; cbn [fst]; [|assumption].
  set (w := wok x && (age x s <? id_space g)).
  set (id := x_id (xst x s)).
  assert (Hww : w = true -> wok x = true) by (unfold w; intros H; apply andb_true_iff in H; tauto).
  (* base_reset commutes with the wok update: prove the invariant for the state before base_reset, with wok := w *)
  assert (Hcomm : forall y, base_reset y s <| wok := w |> = base_reset (y <| wok := w |>) s).
  { intros y. unfold base_reset. cbn. destruct (x_alive (xst y s)); reflexivity. }
  rewrite Hcomm. apply base_reset_inv.
  destruct (x_connreset (xst x s)).
  - apply set_wok_inv; assumption.
  - destruct (lookup id (tbl x)) as [s'|] eqn:El.
    + pose proof (drop_entry_inv g c0 x id s' (fun e => mkXs (x_id e) (x_alive e) (x_connreset e) (x_recv e) (x_resets e) false)
                    (if Nat.eqb s' s then displaced x else S (displaced x)) w HI El) as H.
      unfold clear_inflight, set_flags in *. cbn in *. apply H.
      * intros e. cbn. split; [reflexivity|]. split; [lia|reflexivity].
      * intros Hw. split; [auto|].
        assert (Hwx := Hww Hw). destruct (xi_wok _ _ _ HI Hwx) as [Hd Hb].
        destruct (Nat.eqb_spec s' s) as [->|Hne]; [assumption|]. exfalso.
        (* s' holds the id of s although s' <> s: they are at least a full turn apart - excluded by the window *)
        apply lookup_In in El; [|apply (xi_nodup _ _ _ HI)].
        destruct (xi_tbl _ _ _ HI _ _ El) as [Hs' [Hid' _]].
        specialize (Hb _ _ El).
        unfold w in Hw. apply andb_true_iff in Hw. destruct Hw as [_ Hage]. unfold age in Hage.
        rewrite (xi_id _ _ _ HI s' Hs') in Hid'. unfold id in Hid'. rewrite (xi_id _ _ _ HI s Hs) in Hid'.
        destruct (Nat.lt_ge_cases s s') as [Hlt|Hge].
        -- apply (gen_inj g c0 (N.of_nat s) (N.of_nat s') Hg Hc); [lia|lia|]. symmetry. exact Hid'.
        -- apply (gen_inj g c0 (N.of_nat s') (N.of_nat s) Hg Hc); [lia|lia|]. exact Hid'.
    + apply remove_absent_inv; assumption.
Qed.

Lemma xstep_inv : forall g c0 x o, real_gen g -> c0 < two64 -> XInv g c0 x -> XInv g c0 (fst (xstep g x o)).
Proof.
  intros g c0 x o Hg Hc HI. destruct o as [oneway|id|s|].
  - apply xnew_inv; assumption.
  - apply xresponse_inv; assumption.
  - apply xreset_inv; assumption.
  - apply xconnreset_inv; assumption.
Qed.

Theorem xrun_inv : forall g c0 ops, real_gen g -> c0 < two64 -> XInv g c0 (xrun g ops (xinit c0)).
Proof.
  intros g c0 ops Hg Hc. unfold xrun. generalize (xinit_inv g c0 Hc). generalize (xinit c0).
  induction ops as [|o ops IH]; cbn [fold_left]; intros x HI; [assumption|]. apply IH. apply xstep_inv; assumption.
Qed.

(* ------------------------------------------------------------------------------------------------ *)
(* the statements used by Props/C02.v *)

(* Delivery soundness, for every history: a delivery caused by a response with id `id` goes to a stream s that exists,
   whose allocated id is `id` (the id GenerateRequestID produced at its allocation), that is still in flight and has not
   received anything before; afterwards it has exactly one delivery and the id is out of the table.  A response whose
   id is not in the table (unknown, already answered, reset by its holder) is dropped and changes nothing.  No stream
   ever has two deliveries; a stream that is not in flight is not in the table. *)
Theorem xconn_delivery_sound : forall g c0 ops, real_gen g -> c0 < two64 -> let x := xrun g ops (xinit c0) in
  (forall id x' s, xstep g x (XResponse id) = (x', ODeliver s) ->
     (s < nstreams x)%nat /\ x_id (xst x s) = id /\ id = gen_id g ((c0 + N.of_nat s + 1) mod two64) /\
     x_inflight (xst x s) = true /\ x_recv (xst x s) = 0%nat /\
     x_recv (xst x' s) = 1%nat /\ x_inflight (xst x' s) = false /\ lookup id (tbl x') = None) /\
  (forall id, lookup id (tbl x) = None -> xstep g x (XResponse id) = (x, ODrop)) /\
  (forall s, (s < nstreams x)%nat -> (x_recv (xst x s) <= 1)%nat) /\
  (forall s id, (s < nstreams x)%nat -> x_inflight (xst x s) = false -> lookup id (tbl x) <> Some s) /\
  (forall o x' s, xstep g x o = (x', ODeliver s) -> exists id, o = XResponse id).
Proof.
  intros g c0 ops Hg Hc x. assert (HI := xrun_inv g c0 ops Hg Hc). fold x in HI.
  split; [|split; [|split; [|split]]].
  - intros id x' s H. cbn [xstep] in H. destruct (lookup id (tbl x)) as [s0|] eqn:El; [|discriminate].
    inversion H; subst s0. clear H.
    apply lookup_In in El; [|apply (xi_nodup _ _ _ HI)]. destruct (xi_tbl _ _ _ HI _ _ El) as [Hs [Hid [Hr Hf]]].
    split; [assumption|]. split; [assumption|]. split; [rewrite <- Hid; apply (xi_id _ _ _ HI); assumption|].
    split; [assumption|]. split; [assumption|]. subst x'. cbn. unfold upd. rewrite Nat.eqb_refl. cbn.
    rewrite Hr. split; [reflexivity|]. split; [reflexivity|]. apply lookup_remove_key_same.
  - intros id Hl. cbn [xstep]. rewrite Hl. reflexivity.
  - apply (xi_recv _ _ _ HI).
  - intros s id Hs Hf Hl. apply lookup_In in Hl; [|apply (xi_nodup _ _ _ HI)].
    destruct (xi_tbl _ _ _ HI _ _ Hl) as [_ [_ [_ H]]]. congruence.
  - intros o x' s H. destruct o as [oneway|id|s0|]; cbn [xstep] in H.
    + inversion H.
    + exists id. reflexivity.
    + destruct (Nat.ltb s0 (nstreams x)); inversion H.
    + inversion H.
Qed.

(* No collision inside the allocation window, THROUGH counter wrap-around (c0 is arbitrary): as long as no stream
   was kept in the table, or reset, a full turn of the id space (2^32 allocations for bolt/tars, 2^64 for dubbo)
   after its allocation (ghost wok), no stream ever lost its table entry to another stream (displaced = 0), every
   in-flight stream owns the entry of its id, and the id handed out next is not in the table. *)
Theorem xconn_no_collision : forall g c0 ops, real_gen g -> c0 < two64 -> let x := xrun g ops (xinit c0) in
  (wok x = true -> displaced x = 0%nat) /\
  (forall s, (s < nstreams x)%nat -> x_inflight (xst x s) = true -> lookup (x_id (xst x s)) (tbl x) = Some s) /\
  NoDup (map fst (tbl x)) /\
  (forallb (fun e => age x (snd e) <? id_space g) (tbl x) = true ->
     lookup (gen_id g (next_ctr (ctr x))) (tbl x) = None) /\
  ctr x = (c0 + N.of_nat (nstreams x)) mod two64.
Proof.
  intros g c0 ops Hg Hc x. assert (HI := xrun_inv g c0 ops Hg Hc). fold x in HI.
  split; [intros Hw; apply (xi_wok _ _ _ HI Hw)|]. split.
  - intros s Hs Hf. apply lookup_In; [apply (xi_nodup _ _ _ HI)|]. apply (xi_inflight _ _ _ HI); assumption.
  - split; [apply (xi_nodup _ _ _ HI)|]. split; [apply (fresh_id_absent g c0 x Hg Hc HI)|apply (xi_ctr _ _ _ HI)].
Qed.

(* server side: the reply written downstream carries the downstream request's id, whatever id the upstream leg used *)
Theorem xserver_id_restore : forall req u resp,
  f_id (upstream_request req u) = u /\ f_payload (upstream_request req u) = f_payload req /\
  f_id (downstream_reply (server_stream_id req) resp) = f_id req /\
  f_payload (downstream_reply (server_stream_id req) resp) = f_payload resp.
Proof. intros. cbn. auto. Qed.

(* A stream reset by its holder leaves no stale id behind: after XReset s (stream not marked by a connection reset) the
   id of s is out of the client stream table and no entry of the table leads to s - a reply carrying that id later is
   dropped (xconn_delivery_sound), it cannot reach whoever uses the stream object next. *)
Theorem xconn_reset_no_stale_id : forall g c0 ops s, real_gen g -> c0 < two64 -> let x := xrun g ops (xinit c0) in
  (s < nstreams x)%nat -> x_connreset (xst x s) = false ->
  let x' := fst (xstep g x (XReset s)) in
  lookup (x_id (xst x s)) (tbl x') = None /\ (forall id, lookup id (tbl x') <> Some s) /\
  xstep g x' (XResponse (x_id (xst x s))) = (x', ODrop).
Proof.
  intros g c0 ops s Hg Hc x Hs Hcr x'.
  assert (HI := xrun_inv g c0 ops Hg Hc). fold x in HI.
  assert (Htbl : tbl x' = remove_key (x_id (xst x s)) (tbl x)).
  { unfold x'. cbn [xstep]. apply Nat.ltb_lt in Hs. rewrite Hs, Hcr. cbn [fst]. unfold base_reset.
    destruct (lookup (x_id (xst x s)) (tbl x)); destruct (x_alive _); reflexivity. }
  assert (H1 : lookup (x_id (xst x s)) (tbl x') = None) by (rewrite Htbl; apply lookup_remove_key_same).
  split; [exact H1|]. split.
  - intros id Hl. rewrite Htbl in Hl.
    apply lookup_In in Hl; [|apply remove_key_NoDup; apply (xi_nodup _ _ _ HI)].
    apply remove_key_In in Hl. destruct Hl as [Hin Hne].
    destruct (xi_tbl _ _ _ HI _ _ Hin) as [_ [Hi _]]. congruence.
  - cbn [xstep]. rewrite H1. reflexivity.
Qed.

(* the answered id has left the table when the delivery happens, and a second frame carrying it is dropped *)
Lemma xconn_answered_id_gone : forall g x id x' s, xstep g x (XResponse id) = (x', ODeliver s) ->
  lookup id (tbl x') = None /\ xstep g x' (XResponse id) = (x', ODrop).
Proof.
  intros g x id x' s H. cbn [xstep] in H. destruct (lookup id (tbl x)) as [s0|] eqn:E; [|discriminate H].
  injection H as Hx _. subst x'.
  assert (L : lookup id (tbl (set_flags (x <| tbl := remove_key id (tbl x) |>) s0
            (fun e => mkXs (x_id e) false (x_connreset e) (S (x_recv e)) (x_resets e) false))) = None)
    by (cbn; apply lookup_remove_key_same).
  split; [exact L|]. cbn [xstep]. rewrite L. reflexivity.
Qed.
