(* Proofs/BufOwn.v (codec) - C08: the pooled frame copies have exactly one owner; see Model/BufOwn.v *)
From Coq Require Import List Arith ZArith Bool Lia.
From MV Require Import Model.BufOwn.
Import ListNotations.

Record inv (s : st) : Prop := {
  i_nodup : NoDup (map snd (held s));
  i_sdup : NoDup (map fst (held s));
  i_held : forall x, In x (map snd (held s)) -> cnt (pl s) x = 1%Z /\ ~ In x (free (pl s)) /\ x < fresh (pl s);
  i_free : forall x, In x (free (pl s)) -> cnt (pl s) x = 0%Z /\ x < fresh (pl s);
  i_fnodup : NoDup (free (pl s));
  i_fresh : forall x, fresh (pl s) <= x -> cnt (pl s) x = 0%Z;
  i_dup : dup (pl s) = 0;
  i_all : forall x, x < fresh (pl s) -> In x (map snd (held s)) \/ In x (free (pl s)) }.

Lemma inv_init : inv init.
Proof. constructor; cbn; try (intros; lia); try constructor; try tauto; try reflexivity. Qed.

Lemma in_without x y l : In y (without x l) <-> In y l /\ y <> x.
Proof. unfold without. rewrite filter_In. rewrite negb_true_iff, Nat.eqb_neq. tauto. Qed.

Lemma lookup_none s h : lookup s h = None -> ~ In s (map fst h).
Proof. induction h as [|[s' x] r IH]; cbn; [tauto|]. destruct (Nat.eqb s' s) eqn:E; [discriminate|]. apply Nat.eqb_neq in E. intros H [A|A]; [congruence|exact (IH H A)]. Qed.
Lemma lookup_some s h x : lookup s h = Some x -> In (s, x) h.
Proof. induction h as [|[s' y] r IH]; cbn; [discriminate|]. destruct (Nat.eqb s' s) eqn:E; [|intros H; right; exact (IH H)].
  apply Nat.eqb_eq in E. intros H. inversion H; subst. left; reflexivity. Qed.

Lemma in_drop s h e : In e (drop s h) <-> In e h /\ fst e <> s.
Proof. unfold drop. rewrite filter_In, negb_true_iff, Nat.eqb_neq. tauto. Qed.

Lemma upd_same f x v : upd f x v x = v. Proof. unfold upd. now rewrite Nat.eqb_refl. Qed.
Lemma upd_other f x v y : y <> x -> upd f x v y = f y. Proof. unfold upd. intros H. apply Nat.eqb_neq in H. now rewrite H. Qed.

Lemma NoDup_map_filter {A B} (f : A -> B) (p : A -> bool) l : NoDup (map f l) -> NoDup (map f (filter p l)).
Proof.
  induction l as [|a r IH]; cbn; [auto|]. intros H. inversion H as [|? ? Hn Hr]; subst. destruct (p a); cbn; [|auto].
  constructor; [|auto]. intros Hin. apply Hn. apply in_map_iff in Hin. destruct Hin as [z [Hz Hin]]. apply filter_In in Hin.
  apply in_map_iff. exists z. tauto.
Qed.

(* the buffer of the ended stream is referred to by no other stream *)
Lemma drop_snd s x h : NoDup (map snd h) -> NoDup (map fst h) -> In (s, x) h -> forall y, In y (map snd (drop s h)) -> y <> x /\ In y (map snd h).
Proof.
  intros Hn Hs Hin y Hy. apply in_map_iff in Hy. destruct Hy as [[s' y'] [E Hd]]. cbn in E. subst y'.
  apply in_drop in Hd. destruct Hd as [Hd Hne]. cbn in Hne. split; [|apply in_map_iff; exists (s', y); auto].
  intros ->. clear Hs. induction h as [|[a b] r IH]; [contradiction|]. cbn in Hn. inversion Hn as [|? ? Hnb Hr]; subst.
  destruct Hin as [Hin|Hin], Hd as [Hd|Hd].
  - congruence.
  - inversion Hin; subst. apply Hnb. apply in_map_iff. exists (s', x); auto.
  - inversion Hd; subst. apply Hnb. apply in_map_iff. exists (s, x); auto.
  - exact (IH Hr Hin Hd).
Qed.

Lemma step_inv ch s e : inv s -> inv (step false ch s e).
Proof.
  intros [I1 I1s I2 I3 I4 I5 I6 I7]. destruct e as [sid err|sid]; cbn [step].
  - destruct (lookup sid (held s)) eqn:El; [constructor; assumption|].
    pose proof (lookup_none _ _ El) as Hsid.
    rewrite andb_false_r. unfold take.
    destruct (nth_error (free (pl s)) (ch (free (pl s)))) as [x|] eqn:En.
    + apply nth_error_In in En. destruct (I3 x En) as [Hc Hf].
      constructor; cbn.
      * constructor; [|exact I1]. intros Hin. destruct (I2 x Hin) as [_ [Hnf _]]. exact (Hnf En).
      * constructor; assumption.
      * intros y [<-|Hy].
        { rewrite upd_same, Hc. split; [reflexivity|]. split; [|exact Hf]. rewrite in_without. tauto. }
        { destruct (I2 y Hy) as [A [B C]]. assert (y <> x) by (intros ->; exact (B En)).
          rewrite upd_other by assumption. split; [exact A|]. split; [|exact C]. rewrite in_without. tauto. }
      * intros y Hy. apply in_without in Hy. destruct Hy as [Hy Hne]. rewrite upd_other by exact Hne. exact (I3 y Hy).
      * apply NoDup_filter. exact I4.
      * intros y Hy. rewrite upd_other by lia. exact (I5 y Hy).
      * exact I6.
      * intros y Hy. destruct (Nat.eq_dec y x) as [->|Hne]; [left; left; reflexivity|].
        destruct (I7 y Hy) as [A|A]; [left; right; exact A|right; apply in_without; tauto].
    + constructor; cbn.
      * constructor; [|exact I1]. intros Hin. destruct (I2 _ Hin) as [_ [_ Hlt]]. lia.
      * constructor; assumption.
      * intros y [<-|Hy].
        { rewrite upd_same. split; [reflexivity|]. split; [|lia]. intros Hin. destruct (I3 _ Hin). lia. }
        { destruct (I2 y Hy) as [A [B C]]. rewrite upd_other by lia. split; [exact A|]. split; [exact B|lia]. }
      * intros y Hy. destruct (I3 y Hy) as [A B]. rewrite upd_other by lia. split; [exact A|lia].
      * exact I4.
      * intros y Hy. rewrite upd_other by lia. apply I5. lia.
      * exact I6.
      * intros y Hy. destruct (Nat.eq_dec y (fresh (pl s))) as [->|Hne]; [left; left; reflexivity|].
        destruct (I7 y) as [A|A]; [lia|left; right; exact A|right; exact A].
  - destruct (lookup sid (held s)) as [x|] eqn:El; [|constructor; assumption].
    apply lookup_some in El.
    assert (Hx : In x (map snd (held s))) by (apply in_map_iff; exists (sid, x); auto).
    destruct (I2 x Hx) as [Hc [Hnf Hlt]].
    pose proof (drop_snd sid x (held s) I1 I1s El) as Hd.
    unfold put. rewrite Hc. cbn [Z.sub Z.eqb Z.ltb Z.compare Z.pos_sub].
    constructor; cbn.
    * apply NoDup_map_filter. exact I1.
    * apply NoDup_map_filter. exact I1s.
    * intros y Hy. destruct (Hd y Hy) as [Hne Hin]. destruct (I2 y Hin) as [A [B C]].
      rewrite upd_other by exact Hne. split; [exact A|]. split; [|exact C]. intros [E|E]; [congruence|exact (B E)].
    * intros y [<-|Hy]; [rewrite upd_same; split; [reflexivity|exact Hlt]|].
      assert (y <> x) by (intros ->; exact (Hnf Hy)). rewrite upd_other by assumption. exact (I3 y Hy).
    * constructor; assumption.
    * intros y Hy. rewrite upd_other by lia. exact (I5 y Hy).
    * exact I6.
    * intros y Hy. destruct (Nat.eq_dec y x) as [->|Hne]; [right; left; reflexivity|].
      destruct (I7 y Hy) as [A|A]; [|right; right; exact A]. left.
      apply in_map_iff in A. destruct A as [[s' y'] [E A]]. cbn in E. subst y'.
      apply in_map_iff. exists (s', y). split; [reflexivity|]. apply in_drop. split; [exact A|]. cbn. intros ->.
      apply Hne. clear - I1s El A. induction (held s) as [|[a b] r IH]; [contradiction|]. cbn in I1s. inversion I1s as [|? ? Hn Hr]; subst.
      destruct El as [El|El], A as [A|A].
      { congruence. }
      { inversion El; subst. exfalso. apply Hn. apply in_map_iff. exists (sid, y); auto. }
      { inversion A; subst. exfalso. apply Hn. apply in_map_iff. exists (sid, x); auto. }
      { exact (IH Hr El A). }
Qed.

Lemma run_inv ch evs : forall s, inv s -> inv (fold_left (step false ch) evs s).
Proof. induction evs as [|e r IH]; cbn; [auto|]. intros s H. apply IH, step_inv, H. Qed.

(* every schedule of decodes (with and without error) and stream ends of any number of connections, every pool re-issue choice *)
Theorem own_exclusive : forall ch evs, exclusive (run false ch evs).
Proof.
  intros ch evs. destruct (run_inv ch evs init inv_init) as [I1 _ I2 I3 I4 _ I6 _]. unfold exclusive, run.
  repeat split; try assumption. intros x Hx. exact (proj1 (proj2 (I2 x Hx))).
Qed.

(* each taken buffer is put exactly once: when all streams have ended, every object ever made is in the pool, once, unreferenced *)
Theorem own_balanced : forall ch evs, held (run false ch evs) = [] ->
  NoDup (free (pl (run false ch evs))) /\ dup (pl (run false ch evs)) = 0 /\
  forall x, x < fresh (pl (run false ch evs)) -> In x (free (pl (run false ch evs))) /\ cnt (pl (run false ch evs)) x = 0%Z.
Proof.
  intros ch evs Hh. destruct (run_inv ch evs init inv_init) as [_ _ _ I3 I4 _ I6 I7]. unfold run in *.
  split; [exact I4|]. split; [exact I6|]. intros x Hx. destruct (I7 x Hx) as [A|A]; [rewrite Hh in A; contradiction|].
  split; [exact A|exact (proj1 (I3 x A))].
Qed.

(* the seeded shape (early release on the error path), pool re-issuing the object put last (the per-P cache of sync.Pool):
   A decodes a broken frame, B decodes, A's stream ends, C decodes: B and C refer to the same buffer *)
Definition lifo (l : list nat) : nat := 0.
Theorem own_early_release_refuted :
  let s := run true lifo [Dec 0 true; Dec 1 false; End 0; Dec 2 false] in
  held s = [(2, 0); (1, 0)] /\ ~ exclusive s /\ dup (pl s) = 0.
Proof.
  vm_compute. split; [reflexivity|]. split; [|reflexivity]. intros [H _]. inversion H as [|? ? Hn _]. apply Hn. left. reflexivity.
Qed.
(* without a taker in between, the reference count reports the duplicate - the only case the pool notices *)
Theorem own_early_release_immediate : dup (pl (run true lifo [Dec 0 true; End 0])) = 1.
Proof. reflexivity. Qed.
