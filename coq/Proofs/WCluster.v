From Coq Require Import List ZArith String Bool Lia Permutation.
From MV Require Import Model.WCluster.
Import ListNotations.
Open Scope Z_scope.

Definition lt0 (v : Z) : bool := Z.ltb v 0.

Lemma count_range_ext f g lo n :
  (forall v, lo <= v < lo + Z.of_nat n -> f v = g v) ->
  count_range f lo n = count_range g lo n.
Proof.
  revert lo; induction n as [|n IH]; intros lo H; cbn [count_range]; [reflexivity|].
  rewrite (H lo) by lia. f_equal. apply IH. intros v Hv. apply H. lia.
Qed.

Lemma count_range_app f lo n m :
  count_range f lo (n + m) = count_range f lo n + count_range f (lo + Z.of_nat n) m.
Proof.
  revert lo; induction n as [|n IH]; intros lo.
  - cbn. f_equal. lia.
  - cbn [Nat.add count_range]. rewrite IH.
    replace (lo + 1 + Z.of_nat n) with (lo + Z.of_nat (S n)) by lia. lia.
Qed.

Lemma count_range_shift f k lo n :
  count_range (fun v => f (v - k)) (lo + k) n = count_range f lo n.
Proof.
  revert lo; induction n as [|n IH]; intros lo; cbn [count_range]; [reflexivity|].
  replace (lo + k - k) with lo by lia. f_equal.
  replace (lo + k + 1) with (lo + 1 + k) by lia. apply IH.
Qed.

Lemma count_range_const_true f lo n :
  (forall v, lo <= v < lo + Z.of_nat n -> f v = true) -> count_range f lo n = Z.of_nat n.
Proof.
  revert lo; induction n as [|n IH]; intros lo H; cbn [count_range]; [reflexivity|].
  rewrite (H lo) by lia. rewrite IH; [lia|]. intros v Hv; apply H; lia.
Qed.

Lemma count_range_const_false f lo n :
  (forall v, lo <= v < lo + Z.of_nat n -> f v = false) -> count_range f lo n = 0.
Proof.
  revert lo; induction n as [|n IH]; intros lo H; cbn [count_range]; [reflexivity|].
  rewrite (H lo) by lia. rewrite IH; [lia|]. intros v Hv; apply H; lia.
Qed.

Lemma total_nonneg cs : Forall (fun p => 0 <= snd p) cs -> 0 <= total cs.
Proof. induction 1 as [|[c w] cs Hp _ IH]; cbn [total snd] in *; lia. Qed.

(* the heart: with `<`, the number of draws in [0,total) that select c is exactly c's weight,
   whatever the default and whatever the order of cs *)
Lemma hits_exact_gen cs : Forall (fun p => 0 <= snd p) cs -> forall c d,
  count_range (fun v => String.eqb (pick lt0 cs v d) c) 0 (Z.to_nat (total cs)) = weight_of c cs.
Proof.
  induction 1 as [|[c0 w0] cs Hw0 Hcs IH]; intros c d.
  - reflexivity.
  - cbn [snd] in Hw0. pose proof (total_nonneg cs Hcs) as HT.
    cbn [total weight_of].
    replace (Z.to_nat (w0 + total cs)) with (Z.to_nat w0 + Z.to_nat (total cs))%nat by lia.
    rewrite count_range_app. f_equal.
    + destruct (String.eqb c0 c) eqn:E.
      * rewrite count_range_const_true; [lia|]. intros v Hv. cbn [pick].
        unfold lt0 at 1. destruct (Z.ltb_spec (v - w0) 0); [exact E|lia].
      * apply count_range_const_false. intros v Hv. cbn [pick].
        unfold lt0 at 1. destruct (Z.ltb_spec (v - w0) 0); [exact E|lia].
    + rewrite <- (IH c d).
      rewrite Z2Nat.id by lia. cbn [Z.add].
      rewrite <- (count_range_shift (fun v => String.eqb (pick lt0 cs v d) c) w0 0).
      apply count_range_ext. intros v Hv. cbn [pick].
      unfold lt0 at 1. destruct (Z.ltb_spec (v - w0) 0); [lia|reflexivity].
Qed.

Lemma hits_exact cs c : Forall (fun p => 0 <= snd p) cs -> hits lt0 cs c = weight_of c cs.
Proof. intros H; unfold hits; apply hits_exact_gen; exact H. Qed.

Lemma weight_of_perm c cs cs' : Permutation cs cs' -> weight_of c cs = weight_of c cs'.
Proof.
  induction 1 as [| [a w] l l' _ IH | [a w] [b u] l | l l' l'' _ IH1 _ IH2]; cbn [weight_of]; lia.
Qed.

Lemma weight_of_nodup c w cs : NoDup (map fst cs) -> In (c, w) cs -> weight_of c cs = w.
Proof.
  induction cs as [|[c0 w0] cs IH]; intros Hnd Hin; [destruct Hin|].
  cbn [map fst] in Hnd. inversion Hnd as [|x l Hnotin Hnd']; subst.
  assert (Hz : forall l', ~ In c (map fst l') -> weight_of c l' = 0).
  { induction l' as [|[a u] l' IHl]; intros Hn; [reflexivity|]. cbn [weight_of].
    destruct (String.eqb_spec a c) as [->|Hne].
    - exfalso; apply Hn; cbn; auto.
    - rewrite IHl; [lia|]. intros Hc; apply Hn; cbn; auto. }
  cbn [weight_of]. destruct Hin as [Heq|Hin].
  - inversion Heq; subst. rewrite String.eqb_refl. rewrite Hz by exact Hnotin. lia.
  - destruct (String.eqb_spec c0 c) as [->|Hne].
    + exfalso; apply Hnotin. apply (in_map fst) in Hin. exact Hin.
    + rewrite IH by assumption. lia.
Qed.

Lemma perm_forall_nonneg (cs cs' : list wcluster) :
  Permutation cs cs' -> Forall (fun p => 0 <= snd p) cs -> Forall (fun p => 0 <= snd p) cs'.
Proof. intros HP HF. rewrite Forall_forall in *. intros x Hx. apply HF. eapply Permutation_in; [symmetry; exact HP|exact Hx]. Qed.

(* Full statement of the first half of C06. *)
Theorem cluster_exact : forall cs, NoDup (map fst cs) -> Forall (fun p => 0 <= snd p) cs ->
  0 < total cs -> forall cs', Permutation cs cs' -> forall c w, In (c, w) cs ->
  hits lt0 cs' c = w.
Proof.
  intros cs Hnd Hnn _ cs' HP c w Hin.
  rewrite hits_exact by (eapply perm_forall_nonneg; eassumption).
  rewrite <- (weight_of_perm c cs cs' HP). apply weight_of_nodup; assumption.
Qed.

(* zero-weight clusters are never picked, for any single draw *)
Lemma pick_lt_never_zero cs : Forall (fun p => 0 <= snd p) cs -> forall v d c,
  0 <= v -> pick lt0 cs v d = c -> c = d \/ exists w, In (c, w) cs /\ 0 < w.
Proof.
  induction 1 as [|[c0 w0] cs Hw0 _ IH]; intros v d c Hv Hp; cbn [pick] in Hp.
  - left; congruence.
  - cbn [snd] in Hw0. unfold lt0 at 1 in Hp. destruct (Z.ltb_spec (v - w0) 0).
    + right. exists w0. subst c0. split; [left; reflexivity|lia].
    + destruct (IH (v - w0) d c ltac:(lia) Hp) as [->|[w [Hin Hw]]]; [left; reflexivity|].
      right; exists w; split; [right; exact Hin|exact Hw].
Qed.

Lemma pick_lt_in_range cs : Forall (fun p => 0 <= snd p) cs -> forall v d,
  0 <= v < total cs -> exists w, In (pick lt0 cs v d, w) cs /\ 0 < w.
Proof.
  induction 1 as [|[c0 w0] cs Hw0 Hcs IH]; intros v d Hv; cbn [total] in Hv.
  - lia.
  - cbn [snd] in Hw0. cbn [pick]. unfold lt0 at 1.
    destruct (Z.ltb_spec (v - w0) 0).
    + exists w0; split; [left; reflexivity|lia].
    + destruct (IH (v - w0) d ltac:(lia)) as [w [Hin Hw]]. exists w; split; [right; exact Hin|exact Hw].
Qed.

(* With `<=` (the code before the fix) the statement is false: kept as a checked fact so that
   the model shows why the operator matters. *)
Definition le0 (v : Z) : bool := Z.leb v 0.
Lemma cluster_exact_le_refuted :
  exists cs c w, NoDup (map fst cs) /\ In (c, w) cs /\ hits le0 cs c <> w.
Proof. exists [("a"%string, 1); ("b"%string, 2)], "a"%string, 1. repeat split.
  - repeat constructor; cbn; intuition congruence.
  - left; reflexivity.
  - vm_compute. congruence.
Qed.
Lemma zero_weight_le_selectable : pick le0 [("z"%string, 0); ("a"%string, 2)] 0 "" = "z"%string.
Proof. reflexivity. Qed.

(* perms really enumerates every storage order (used only by the correspondence check, but
   proved so that "possible" is known to be complete) *)
Lemma insert_all_spec {A} (x : A) l l' : In l' (insert_all x l) -> Permutation (x :: l) l'.
Proof.
  revert l'; induction l as [|y l IH]; intros l' H; cbn in H.
  - destruct H as [<-|[]]; reflexivity.
  - destruct H as [<-|H]; [reflexivity|]. apply in_map_iff in H as [l0 [<- H0]].
    apply IH in H0. rewrite perm_swap. constructor. exact H0.
Qed.
Lemma insert_all_complete {A} (x : A) l1 l2 : In (l1 ++ x :: l2) (insert_all x (l1 ++ l2)).
Proof.
  induction l1 as [|y l1 IH]; cbn.
  - destruct l2; cbn; auto.
  - right. apply in_map. exact IH.
Qed.
Lemma perms_complete {A} (l l' : list A) : Permutation l l' -> In l' (perms l).
Proof.
  revert l'; induction l as [|x l IH]; intros l' HP.
  - apply Permutation_nil in HP; subst; cbn; auto.
  - assert (Hin : In x l') by (eapply Permutation_in; [exact HP|left; reflexivity]).
    apply in_split in Hin as [l1 [l2 ->]].
    apply Permutation_cons_app_inv in HP. cbn [perms]. apply in_flat_map.
    exists (l1 ++ l2); split; [apply IH; exact HP|apply insert_all_complete].
Qed.

(* ---- duplicate names: the stored map keeps the last occurrence ---- *)
Lemma dedup_last_nodup cfg : NoDup (map fst (dedup_last cfg)).
Proof.
  induction cfg as [|x cfg IH]; cbn [dedup_last fold_right]; [constructor|].
  fold (dedup_last cfg).
  destruct (existsb (fun y => String.eqb (fst y) (fst x)) (dedup_last cfg)) eqn:E; [exact IH|].
  cbn [map]. constructor; [|exact IH].
  intros Hin. apply in_map_iff in Hin as [y [Hy Hin]].
  assert (existsb (fun y => String.eqb (fst y) (fst x)) (dedup_last cfg) = true).
  { apply existsb_exists. exists y. split; [exact Hin|]. rewrite Hy. apply String.eqb_refl. }
  congruence.
Qed.

Lemma dedup_last_incl cfg p : In p (dedup_last cfg) -> In p cfg.
Proof.
  induction cfg as [|x cfg IH]; cbn [dedup_last fold_right]; [intros []|].
  fold (dedup_last cfg).
  destruct (existsb (fun y => String.eqb (fst y) (fst x)) (dedup_last cfg)); intros H.
  - right; apply IH; exact H.
  - destruct H as [<-|H]; [left; reflexivity|right; apply IH; exact H].
Qed.

(* exactness for a configured list WITH duplicate names: over the draw range [0, total of the stored map)
   every stored cluster gets exactly its stored (= last configured) weight, in every storage order *)
Theorem cluster_exact_dedup : forall cfg, Forall (fun p => 0 <= snd p) cfg ->
  forall cs', Permutation (dedup_last cfg) cs' -> forall c w, In (c, w) (dedup_last cfg) ->
  hits lt0 cs' c = w.
Proof.
  intros cfg Hnn cs' HP c w Hin.
  assert (Hnn' : Forall (fun p => 0 <= snd p) (dedup_last cfg)).
  { rewrite Forall_forall in *. intros p Hp. apply Hnn. apply dedup_last_incl; exact Hp. }
  rewrite hits_exact by (eapply perm_forall_nonneg; eassumption).
  rewrite <- (weight_of_perm c _ _ HP). apply weight_of_nodup; [apply dedup_last_nodup|exact Hin].
Qed.
