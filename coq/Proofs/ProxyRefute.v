(* Witness schedules (evaluated by vm_compute) for the statements that the faithful model refutes. *)
From Coq Require Import List ZArith Bool.
From RecordUpdate Require Import RecordSet.
From MV Require Import Model.Proxy Model.ProxySpec Proofs.ProxySrc.
Import ListNotations RecordSetNotations.
Open Scope Z_scope.

(* a run from the initial state: final state, trace, trace summary *)
Definition final (src : srcp) (c : cfg) (sched : list step) : st := fst (run src c (init_st 0) sched).
Definition trace (src : srcp) (c : cfg) (sched : list step) : list out := snd (run src c (init_st 0) sched).
Definition summ (src : srcp) (c : cfg) (sched : list step) : gs := gs_outs gs0 (trace src c sched).

Definition plain_cfg : cfg :=
  {| c_oneway := false; c_data := false; c_trailers := false; c_route := RouteForward; c_nhosts := 2%nat; c_retry_on := false;
     c_num_retries := 0%nat; c_codes := []; c_try_timeout := false; c_max_retries := 0; c_recv := []; c_send := []; c_pool := []; c_delay := []; c_snd_err_hdr := false; c_snd_err_data := false; c_snd_err_trl := false; c_http := false; c_nohost_from := None; c_late_reset := false; c_disable_retry := false |}.

(* the worker runs whenever it can, every sleep ends: 120 rounds of [Worker; Worker; Worker; wake] *)
Definition drive : list step := concat (repeat [Worker; Worker; Worker; Env EvWake] 120).

(* the outcome of a complete schedule, as the C03 statement wants it *)
Definition outcome_ok (c : cfg) (sched : list step) (s : st) (o : list out) : bool :=
  let g := gs_outs gs0 o in
  negb (quiescent s) ||
  (wdone s && cleaned s && (g_ended g || existsb is_down_reset sched || g_term g || c_oneway c)).

(* S16: more retries than the outer loop of OnReceive has iterations; every connection attempt fails *)
Definition cfg_loop : cfg := plain_cfg <| c_num_retries := 12%nat |> <| c_pool := repeat PoolConnFail 14 |>.
Definition sched_loop : list step := drive ++ [Env EvGlobal].   (* the global timer still fires: nobody is left to wake *)
Lemma witness_loop :
    quiescent (final src_tree cfg_loop sched_loop) = true /\ wdone (final src_tree cfg_loop sched_loop) = true /\ cleaned (final src_tree cfg_loop sched_loop) = false /\ g_started (summ src_tree cfg_loop sched_loop) = false /\ x_loop (final src_tree cfg_loop sched_loop) = true /\
  outcome_ok cfg_loop sched_loop (final src_tree cfg_loop sched_loop) (trace src_tree cfg_loop sched_loop) = false.
Proof. vm_compute. repeat split; reflexivity. Qed.

(* S17: request with a body, the first connection attempt fails, the retry goes out, the upstream stays silent *)
Definition cfg_nog : cfg := plain_cfg <| c_data := true |> <| c_pool := [PoolConnFail] |>.
Lemma witness_nog :
    quiescent (final src_tree cfg_nog drive) = true /\ wdone (final src_tree cfg_nog drive) = false /\ ph (final src_tree cfg_nog drive) = PWaitNotify /\ global_armed (final src_tree cfg_nog drive) = false /\ try_armed (final src_tree cfg_nog drive) = None /\
  x_nog (final src_tree cfg_nog drive) = true /\ outcome_ok cfg_nog drive (final src_tree cfg_nog drive) (trace src_tree cfg_nog drive) = false.
Proof. vm_compute. repeat split; reflexivity. Qed.

(* S19: the response (503) is in, the global timer expires before the worker has looked at it (CAS lost), the worker retries:
   the new attempt has no global timer *)
Definition cfg_lostg : cfg := plain_cfg <| c_retry_on := true |>.
Definition sched_lostg : list step := repeat Worker 12 ++ [Env (EvUpResp 0 503 false false); Env EvGlobal] ++ drive.
Lemma witness_lostg :
    quiescent (final src_tree cfg_lostg sched_lostg) = true /\ wdone (final src_tree cfg_lostg sched_lostg) = false /\ ph (final src_tree cfg_lostg sched_lostg) = PWaitNotify /\ x_nog (final src_tree cfg_lostg sched_lostg) = true /\ outcome_ok cfg_lostg sched_lostg (final src_tree cfg_lostg sched_lostg) (trace src_tree cfg_lostg sched_lostg) = false.
Proof. vm_compute. repeat split; reflexivity. Qed.

(* S18 (repaired by 0c05b6e5a: the direct-response branch resets the abandoned upstream stream, so no further upstream reset can
   arrive): TerminateStream, then an upstream reset seen by the processError of phase UpFilter - on the switch set back *)
Definition src_no_direct_reset : srcp := src_tree <| direct_resets_upstream := false |>.
Definition cfg_upf : cfg := plain_cfg <| c_recv := [{| f_phase := 0%nat; f_code := 403; f_verdicts := [] |}] |>.
Definition sched_upf : list step :=
  repeat Worker 12 ++ [Env (EvTerminate 403); Worker; Env (EvUpReset 0 RsRemoteReset)] ++ repeat Worker 6.
Lemma witness_upf :
    quiescent (final src_no_direct_reset cfg_upf sched_upf) = true /\ wdone (final src_no_direct_reset cfg_upf sched_upf) = true /\ cleaned (final src_no_direct_reset cfg_upf sched_upf) = false /\ g_started (summ src_no_direct_reset cfg_upf sched_upf) = false /\ x_upf (final src_no_direct_reset cfg_upf sched_upf) = true /\
  outcome_ok cfg_upf sched_upf (final src_no_direct_reset cfg_upf sched_upf) (trace src_no_direct_reset cfg_upf sched_upf) = false.
Proof. vm_compute. repeat split; reflexivity. Qed.
Lemma witness_upf_repaired :
  wdone (final src_tree cfg_upf sched_upf) = true /\ cleaned (final src_tree cfg_upf sched_upf) = true /\
  g_reply_kind (summ src_tree cfg_upf sched_upf) = Some (KHijack, 403) /\ up_alive (final src_tree cfg_upf sched_upf) = false.
Proof. vm_compute. repeat split; reflexivity. Qed.

(* --- the two repaired defects, shown on the source switches set back --- *)
Definition src_unguarded : srcp := src_tree <| reset_guarded := false |>.
Definition cfg_breaker : cfg := plain_cfg <| c_max_retries := 3 |>.
Definition sched_plain : list step := repeat Worker 12 ++ [Env (EvUpResp 0 200 false false)] ++ repeat Worker 8.
Lemma witness_unguarded :
    wdone (final src_unguarded cfg_breaker sched_plain) = true /\ cleaned (final src_unguarded cfg_breaker sched_plain) = true /\ g_res (summ src_unguarded cfg_breaker sched_plain) = -4 /\ rc (final src_unguarded cfg_breaker sched_plain) = -4.
Proof. vm_compute. repeat split; reflexivity. Qed.
Lemma witness_guarded :
    wdone (final (src_tree <| reset_guarded := true |>) cfg_breaker sched_plain) = true /\ cleaned (final (src_tree <| reset_guarded := true |>) cfg_breaker sched_plain) = true /\ g_res (summ (src_tree <| reset_guarded := true |>) cfg_breaker sched_plain) = 0 /\ g_res_min (summ (src_tree <| reset_guarded := true |>) cfg_breaker sched_plain) = 0.
Proof. vm_compute. repeat split; reflexivity. Qed.

Definition src_keep_again : srcp := src_tree <| direct_clears_again := false |>.
Definition cfg_hc : cfg :=
  plain_cfg <| c_recv := [{| f_phase := 1%nat; f_code := 403; f_verdicts := [VHijackCont] |}; {| f_phase := 1%nat; f_code := 0; f_verdicts := [VReMatch] |}] |>.
Lemma witness_keep_again :
    g_denied (summ src_keep_again cfg_hc sched_plain) = true /\ g_new_after_deny (summ src_keep_again cfg_hc sched_plain) = true /\
  g_reply_kind (summ src_keep_again cfg_hc sched_plain) = Some (KUp, 200).
Proof. vm_compute. repeat split; reflexivity. Qed.
Lemma witness_clear_again :
    g_denied (summ (src_tree <| direct_clears_again := true |>) cfg_hc sched_plain) = true /\ g_new (summ (src_tree <| direct_clears_again := true |>) cfg_hc sched_plain) = 0%nat /\ g_reply_kind (summ (src_tree <| direct_clears_again := true |>) cfg_hc sched_plain) = Some (KHijack, 403).
Proof. vm_compute. repeat split; reflexivity. Qed.

Definition src_keep_retry : srcp := src_tree <| direct_cancels_retry := false |>.
Definition cfg_leak : cfg := plain_cfg <| c_max_retries := 2 |> <| c_pool := [PoolConnFail] |>
  <| c_recv := [{| f_phase := 0%nat; f_code := 403; f_verdicts := [] |}] |>.
(* TerminateStream while the first connection attempt is under way (the worker is about to run phase DownRecvHeader) *)
Definition sched_leak : list step :=
  repeat Worker 6 ++ [Env (EvTerminate 403)] ++ drive ++ [Env (EvUpResp 1 200 false false)] ++ repeat Worker 8.
Lemma witness_keep_retry :
    wdone (final src_keep_retry cfg_leak sched_leak) = true /\ cleaned (final src_keep_retry cfg_leak sched_leak) = true /\ g_res (summ src_keep_retry cfg_leak sched_leak) = 1 /\ g_reply_kind (summ src_keep_retry cfg_leak sched_leak) = Some (KUp, 200).
Proof. vm_compute. repeat split; reflexivity. Qed.
Lemma witness_cancel_retry :
    wdone (final (src_tree <| direct_cancels_retry := true |>) cfg_leak sched_leak) = true /\ cleaned (final (src_tree <| direct_cancels_retry := true |>) cfg_leak sched_leak) = true /\ g_res (summ (src_tree <| direct_cancels_retry := true |>) cfg_leak sched_leak) = 0 /\ g_reply_kind (summ (src_tree <| direct_cancels_retry := true |>) cfg_leak sched_leak) = Some (KHijack, 403) /\
  g_new (summ (src_tree <| direct_cancels_retry := true |>) cfg_leak sched_leak) = 1%nat.
Proof. vm_compute. repeat split; reflexivity. Qed.

(* the pooled filter-chain object: with a Put that leaves the cursor, the second request starts behind its BeforeRoute deny filter *)
Definition src_no_put_reset : srcp := src_tree <| put_resets_cursor := false |>.
Definition cfg_park : cfg :=   (* AfterRoute filter #1 asks for re-choose (ignored there); no route: the stream ends with the cursor at 1 *)
  plain_cfg <| c_route := RouteNone |>
            <| c_recv := [{| f_phase := 0%nat; f_code := 0; f_verdicts := [] |}; {| f_phase := 1%nat; f_code := 0; f_verdicts := [VReChoose] |}] |>.
Definition cfg_deny_head : cfg := plain_cfg <| c_recv := [{| f_phase := 0%nat; f_code := 403; f_verdicts := [VHijack] |}] |>.
Lemma witness_stale_cursor :
  rcursor (final src_no_put_reset cfg_park drive) = 1%nat /\
  (let s0 := next_request src_no_put_reset (final src_no_put_reset cfg_park drive) 0 in
   let r := run src_no_put_reset cfg_deny_head s0 sched_plain in
   rcursor s0 = 1%nat /\ g_new (gs_outs gs0 (snd r)) = 1%nat /\ filter (fun o => match o with OFilterRecv _ _ _ => true | _ => false end) (snd r) = [] /\
   g_reply_kind (gs_outs gs0 (snd r)) = Some (KUp, 200)).
Proof. vm_compute. repeat split; reflexivity. Qed.
Lemma witness_fresh_cursor :
  let s0 := next_request src_tree (final src_tree cfg_park drive) 0 in
  let r := run src_tree cfg_deny_head s0 sched_plain in
  rcursor s0 = 0%nat /\ g_new (gs_outs gs0 (snd r)) = 0%nat /\ g_reply_kind (gs_outs gs0 (snd r)) = Some (KHijack, 403).
Proof. vm_compute. repeat split; reflexivity. Qed.

(* the timed-out attempt's stream is not reset by the timer callback and the retry abandons it / the retry finalises the request
   headers again: both switches set to the defective value *)
Definition src_timer_no_reset : srcp := src_tree <| timers_reset_stream := false |>.
Definition cfg_pertry : cfg := plain_cfg <| c_retry_on := true |> <| c_try_timeout := true |>.
Definition sched_pertry : list step := repeat Worker 12 ++ [Env (EvPerTry 0)] ++ drive.
Lemma witness_timer_no_reset : g_leak (summ src_timer_no_reset cfg_pertry sched_pertry) = true /\ g_leak (summ src_tree cfg_pertry sched_pertry) = false.
Proof. vm_compute. split; reflexivity. Qed.
Definition src_refinalize : srcp := src_tree <| retry_refinalizes := true |>.
Lemma witness_refinalize : g_fin_bad (summ src_refinalize cfg_pertry sched_pertry) = true /\ g_fin_bad (summ src_tree cfg_pertry sched_pertry) = false /\
  g_new (summ src_tree cfg_pertry sched_pertry) = 2%nat.
Proof. vm_compute. repeat split; reflexivity. Qed.

(* sendHijackReply that leaves a stored response body in place (switch set back): the upstream's 5xx WITH a body is retried, the
   next connection attempt overflows, and the 503 hijack headers are followed by the stale upstream body *)
Definition src_keep_body : srcp := src_tree <| hijack_clears_body := false |>.
Definition cfg_stale : cfg := plain_cfg <| c_retry_on := true |> <| c_pool := [PoolOk; PoolOverflow] |>.
Definition sched_stale : list step := repeat Worker 12 ++ [Env (EvUpResp 0 503 true false)] ++ drive.
Lemma witness_stale_body :
  g_mixed (summ src_keep_body cfg_stale sched_stale) = true /\ g_reply_kind (summ src_keep_body cfg_stale sched_stale) = Some (KHijack, 503) /\
  g_mixed (summ src_tree cfg_stale sched_stale) = false /\ g_reply_kind (summ src_tree cfg_stale sched_stale) = Some (KHijack, 503) /\
  g_ended (summ src_tree cfg_stale sched_stale) = true.
Proof. vm_compute. repeat split; reflexivity. Qed.

(* the seed's recycling discipline (doRetry no longer clears reuseBuffer; setupRetry clears it only when the failed attempt is
   still open): the first attempt is reset by the connection, the retry is answered, the request ends normally - and gives its
   objects back although the abandoned first attempt can still deliver a reply *)
Definition src_seed_recycle : srcp := src_tree <| retry_clears_reuse := false |> <| setupretry_clears_reuse := true |>.
Definition cfg_recycle : cfg := plain_cfg <| c_retry_on := true |>.
Definition sched_recycle : list step :=
  repeat Worker 12 ++ [Env (EvUpReset 0 RsTermination)] ++ drive ++ [Env (EvUpResp 1 200 false false)] ++ repeat Worker 8.
Lemma witness_seed_recycle :
  gave (final src_seed_recycle cfg_recycle sched_recycle) = true /\ abandoned (final src_seed_recycle cfg_recycle sched_recycle) = true /\
  nnew (final src_seed_recycle cfg_recycle sched_recycle) = 2%nat /\
  gave (final src_tree cfg_recycle sched_recycle) = false /\ g_ended (summ src_tree cfg_recycle sched_recycle) = true.
Proof. vm_compute. repeat split; reflexivity. Qed.

(* the global timer callback that goes on after a lost CAS unless the response has started downstream (switch set back): the
   in-time response is in (accepted, CAS held), the global timer expires before onUpstreamHeaders ran: the answered stream is
   reset, UpstreamGlobalTimeout raised, processError of phase UpFilter records a 504 and leaves - no reply, never cleaned *)
Definition src_global_goes_on : srcp := src_tree <| global_lost_cas_stops := false |>.
Definition sched_answered_then_global : list step :=
  repeat Worker 12 ++ [Env (EvUpResp 0 200 false false); Worker; Env EvGlobal] ++ repeat Worker 8.
Lemma witness_global_after_answer :
  wdone (final src_global_goes_on plain_cfg sched_answered_then_global) = true /\
  cleaned (final src_global_goes_on plain_cfg sched_answered_then_global) = false /\
  g_started (summ src_global_goes_on plain_cfg sched_answered_then_global) = false /\
  quiescent (final src_global_goes_on plain_cfg sched_answered_then_global) = true /\
  cleaned (final src_tree plain_cfg sched_answered_then_global) = true /\
  g_reply_kind (summ src_tree plain_cfg sched_answered_then_global) = Some (KUp, 200).
Proof. vm_compute. repeat split; reflexivity. Qed.

(* ---------- where the retry decision takes its status from (HTTP flavour: the context variable) ---------- *)
Definition cfg_http_codes : cfg :=
  plain_cfg <| c_retry_on := true |> <| c_codes := [503] |> <| c_num_retries := 3%nat |> <| c_http := true |>.
(* onUpstreamReset hands UpstreamGlobalTimeout to the retry state, and doRetryCheck consults the status mapping for resets: after
   an attempt answered 503 (retried), the global time-out of the next attempt finds the 503 still in the request context and is
   retried - a third attempt goes out after the effective time-out with no global timer armed; answered 200, the client gets 200
   instead of the 504 local reply *)
Definition src_global_retried : srcp := src_tree <| reset_excludes_global := false |> <| reset_reads_status := true |>.
Definition sched_503_then_global : list step :=
  repeat Worker 12 ++ [Env (EvUpResp 0 503 false false)] ++ drive ++ [Env EvGlobal] ++ drive ++ [Env (EvUpResp 2 200 false false)] ++ drive.
Lemma witness_global_timeout_retried :
  nnew (final src_global_retried cfg_http_codes sched_503_then_global) = 3%nat /\
  x_nog (final src_global_retried cfg_http_codes sched_503_then_global) = true /\
  g_reply_kind (summ src_global_retried cfg_http_codes sched_503_then_global) = Some (KUp, 200) /\
  (* the code in the tree: two attempts, the 504 local reply *)
  nnew (final src_tree cfg_http_codes sched_503_then_global) = 2%nat /\
  g_reply_kind (summ src_tree cfg_http_codes sched_503_then_global) = Some (KHijack, 504) /\
  g_ended (summ src_tree cfg_http_codes sched_503_then_global) = true /\
  (* with the exclusion in onUpstreamReset alone the global time-out is safe even if resets consult the status *)
  nnew (final (src_tree <| reset_reads_status := true |>) cfg_http_codes sched_503_then_global) = 2%nat.
Proof. vm_compute. repeat split; reflexivity. Qed.

(* repaired by 291bbf824 (kept on the switch set back): doRetryCheck consulted the status mapping for resets; a remote reset - no
   configured retry condition - of the attempt after a retried 503 was retried because of the stale 503 *)
Definition src_stale_status : srcp := src_tree <| reset_reads_status := true |>.
Definition sched_503_then_reset : list step :=
  repeat Worker 12 ++ [Env (EvUpResp 0 503 false false)] ++ drive ++ [Env (EvUpReset 1 RsRemoteReset)] ++ drive.
Lemma witness_stale_status :
  nnew (final src_stale_status cfg_http_codes sched_503_then_reset) = 3%nat /\
  nnew (final src_tree cfg_http_codes sched_503_then_reset) = 2%nat /\
  g_reply_kind (summ src_tree cfg_http_codes sched_503_then_reset) = Some (KHijack, reason_code src_tree RsRemoteReset) /\
  (* the xprotocol flavour (status read from the headers) never had it *)
  nnew (final src_stale_status (cfg_http_codes <| c_http := false |>) sched_503_then_reset) = 2%nat.
Proof. vm_compute. repeat split; reflexivity. Qed.

(* as statements: a reset is judged by its reason alone *)
Definition reset_by_reason_statement (src : srcp) : Prop :=
  forall c why s, retry_check src c None why s = retry_rule c None why.
Lemma refuted_reset_reads_status : ~ reset_by_reason_statement src_stale_status.
Proof.
  intros H. specialize (H cfg_http_codes RsRemoteReset (init_st 0 <| status_var := Some 503 |>)). vm_compute in H. discriminate H.
Qed.

(* ---------- the send chain on every reply that reaches the client ---------- *)
(* the UpFilter phase running the send filters once per upstreamRequest object (switch set): the retried 503 goes through the
   filters and marks the object; at retry time no healthy host is left, doRetry keeps the OLD object and records the local 502; back
   in UpFilter the chain is skipped: the only response the client gets bypasses every send filter *)
Definition src_send_once : srcp := src_tree <| send_once_per_upreq := true |>.
Definition cfg_nohost : cfg :=
  plain_cfg <| c_retry_on := true |> <| c_send := [{| sf_code := 400; sf_verdicts := [] |}; {| sf_code := 401; sf_verdicts := [] |}] |>
            <| c_nohost_from := Some 1%nat |>.
Definition sched_503_then_nohost : list step := repeat Worker 12 ++ [Env (EvUpResp 0 503 false false)] ++ drive.
Lemma witness_reply_skips_send_filters :
  x_unfilt (final src_send_once cfg_nohost sched_503_then_nohost) = true /\
  scalls (final src_send_once cfg_nohost sched_503_then_nohost) = [1%nat; 1%nat] /\
  g_reply_kind (summ src_send_once cfg_nohost sched_503_then_nohost) = Some (KHijack, 502) /\
  g_ended (summ src_send_once cfg_nohost sched_503_then_nohost) = true /\
  (* the tree: both filters ran on the 503 and on the 502 *)
  x_unfilt (final src_tree cfg_nohost sched_503_then_nohost) = false /\
  scalls (final src_tree cfg_nohost sched_503_then_nohost) = [2%nat; 2%nat] /\
  g_reply_kind (summ src_tree cfg_nohost sched_503_then_nohost) = Some (KHijack, 502) /\
  nnew (final src_tree cfg_nohost sched_503_then_nohost) = 1%nat.
Proof. vm_compute. repeat split; reflexivity. Qed.

(* ---------- a write into the downStream object after it was given back to the pool ---------- *)
(* onUpstreamHeaders setting downstreamResponseStarted after appendHeaders (switch set back): a headers-only response on the clean
   path ends the stream, cleans it and gives the object back inside appendHeaders; the assignment lands in the pooled object, and the
   next request served from it believes its response has begun: a pool overflow is then answered by resetting the client stream -
   no 503 reply *)
Definition src_late_started : srcp := src_tree <| started_marked_first := false |>.
Definition sched_answered_plain : list step := repeat Worker 12 ++ [Env (EvUpResp 0 200 false false)] ++ repeat Worker 8.
Definition cfg_overflow : cfg := plain_cfg <| c_pool := [PoolOverflow] |>.
Definition second_run (src : srcp) : st * list out :=
  run src cfg_overflow (next_request src (final src plain_cfg sched_answered_plain) 0) drive.
Lemma witness_write_after_give :
  gave (final src_late_started plain_cfg sched_answered_plain) = true /\
  late_started (final src_late_started plain_cfg sched_answered_plain) = true /\
  resp_started (next_request src_late_started (final src_late_started plain_cfg sched_answered_plain) 0) = true /\
  g_started (gs_outs gs0 (snd (second_run src_late_started))) = false /\
  existsb (fun o => match o with ODownReset => true | _ => false end) (snd (second_run src_late_started)) = true /\
  (* the tree: the object is clean, the second request gets its error reply *)
  late_started (final src_tree plain_cfg sched_answered_plain) = false /\
  next_request src_tree (final src_tree plain_cfg sched_answered_plain) 0 = init_st 0 /\
  g_reply_kind (gs_outs gs0 (snd (second_run src_tree))) = Some (KHijack, reason_code src_tree RsOverflow) /\
  g_ended (gs_outs gs0 (snd (second_run src_tree))) = true.
Proof. vm_compute. repeat split; reflexivity. Qed.

Definition fresh_start_statement (src : srcp) : Prop :=
  forall c sched rc0, next_request src (final src c sched) rc0 = init_st rc0.
Lemma refuted_write_after_give : ~ fresh_start_statement src_late_started.
Proof.
  intros H. specialize (H plain_cfg sched_answered_plain 0). apply (f_equal resp_started) in H.
  destruct witness_write_after_give as (_ & _ & W & _). rewrite W in H. cbn in H. exact (Bool.diff_true_false H).
Qed.

(* ---------- a timer function of an earlier owner of the pooled object ---------- *)
(* the per-try timer function comparing the object's ID with itself (switch set back): request B is parked on its silent-so-far
   upstream (no per-try time-out of its own) when the per-try timer of the PREVIOUS owner of its downStream object runs: B's attempt
   is reset and B is answered with the time-out reply (504) produced for the other request; with the captured ID it does nothing *)
Definition src_try_self_compare : srcp := src_tree <| try_captures_id := false |>.
Definition sched_stale_try : list step := repeat Worker 12 ++ [Env (EvStaleTry false)] ++ drive.
Lemma witness_stale_timer :
  g_reply_kind (summ src_try_self_compare plain_cfg sched_stale_try) = Some (KHijack, 504) /\
  g_ended (summ src_try_self_compare plain_cfg sched_stale_try) = true /\
  existsb (fun o => match o with OUpReset _ => true | _ => false end) (trace src_try_self_compare plain_cfg sched_stale_try) = true /\
  (* the tree: B is still waiting for its upstream, untouched but for reuseBuffer *)
  g_started (summ src_tree plain_cfg sched_stale_try) = false /\
  ph (final src_tree plain_cfg sched_stale_try) = PWaitNotify /\
  received (final src_tree plain_cfg sched_stale_try) = false /\
  up_alive (final src_tree plain_cfg sched_stale_try) = true /\
  reuse (final src_tree plain_cfg sched_stale_try) = false.
Proof. vm_compute. repeat split; reflexivity. Qed.

Definition stale_timer_statement (src : srcp) : Prop :=
  forall c s, env_step src c (EvStaleTry false) s = (s <| reuse := false |>, []).
Lemma refuted_try_self_compare : ~ stale_timer_statement src_try_self_compare.
Proof.
  intros H. specialize (H plain_cfg (final src_tree plain_cfg (repeat Worker 12))).
  apply (f_equal (fun p => received (fst p))) in H. vm_compute in H. discriminate H.
Qed.

Definition no_defect_flags (s : st) : bool := negb (x_loop s) && negb (x_upf s) && negb (x_nog s).

(* ---------- an upstream reset after the response to the client has started ---------- *)
(* downStream.resetStream() sets upstreamProcessDone and THEN resets the client stream, relying on the synchronous OnResetStream
   callback (downstreamReset -> processError -> ResetStream -> cleanStream).  With OnResetStream itself returning when
   upstreamProcessDone is set (switch set): the headers of a response with a body are written, the upstream stream is reset before
   the body phase, the client stream is reset - and the request never reaches a terminal outcome: not cleaned, gauge up, no log, no
   filter destroy *)
Definition src_reset_checks_done : srcp := src_tree <| on_reset_checks_done := true |>.
Definition cfg_late_reset : cfg := plain_cfg <| c_late_reset := true |>.
Definition sched_reset_mid_response : list step :=
  repeat Worker 12 ++ [Env (EvUpResp 0 200 true false)] ++ repeat Worker 3 ++ [Env (EvUpReset 0 RsTermination)] ++ drive.
Lemma witness_reset_mid_response :
  trace src_reset_checks_done cfg_late_reset sched_reset_mid_response =
    [OChoose; OUpNew 0 PoolOk; OUpHdr 0 true 1; ODownHdr false KUp 200; ODownReset] /\
  cleaned (final src_reset_checks_done cfg_late_reset sched_reset_mid_response) = false /\
  quiescent (final src_reset_checks_done cfg_late_reset sched_reset_mid_response) = true /\
  no_defect_flags (final src_reset_checks_done cfg_late_reset sched_reset_mid_response) = true /\
  (* the tree: the client stream is reset and the stream is cleaned once *)
  trace src_tree cfg_late_reset sched_reset_mid_response =
    [OChoose; OUpNew 0 PoolOk; OUpHdr 0 true 1; ODownHdr false KUp 200; ODownReset; OGauge (-1); OLog; ODestroy] /\
  cleaned (final src_tree cfg_late_reset sched_reset_mid_response) = true.
Proof. vm_compute. repeat split; reflexivity. Qed.

(* ---------- proxy_disable_retry ---------- *)
Definition src_disable_late : srcp := src_tree <| disable_retry_first := false |>.
Definition cfg_disabled : cfg := plain_cfg <| c_disable_retry := true |> <| c_pool := [PoolConnFail] |>.
Lemma witness_disable_retry :
  nnew (final src_disable_late cfg_disabled drive) = 2%nat /\ nnew (final src_tree cfg_disabled drive) = 1%nat /\
  g_reply_kind (summ src_tree cfg_disabled drive) = Some (KHijack, reason_code src_tree RsConnFailed).
Proof. vm_compute. repeat split; reflexivity. Qed.
