(* Proofs about Model/Relay.v, part 1a: the relay invariant Inv2, list helpers and the tactics of the case analysis.
   The preservation lemma rd_inv (Proofs/RelayInv.v) is a brute-force case analysis over the read outcome, the flags and
   the write outcomes; it is cut into 16 lemmas by (read outcome) x (first write outcome), one file each
   (Proofs/RelayInv_<e>_<w>.v), so that they build in parallel. *)
From Coq Require Import List NArith Bool Lia.
From MV Require Import Model.Relay.
Import ListNotations.

Definition prefix (a b : list N) : Prop := exists r, b = a ++ r.

Lemma closes_app t1 t2 : closes (t1 ++ t2) = closes t1 ++ closes t2.
Proof. induction t1 as [|[l|e] t1 IH]; cbn; [reflexivity|assumption|now rewrite IH]. Qed.
Lemma fdata_app t1 t2 : fdata (t1 ++ t2) = fdata t1 ++ fdata t2.
Proof. induction t1 as [|[l|e] t1 IH]; cbn; [reflexivity|now rewrite IH, app_assoc|assumption]. Qed.

(* ------------------------------------------------------------------ the invariant, over an ordered pair *)
(* per connection *)
Definition wf (c : conn) : Prop :=
  (c_closed c = false -> closes (c_trace c) = [] /\ c_rbuf c = []) /\
  (c_werr c = false -> c_pend c = [] /\ c_peof c = false) /\
  (closes (c_trace c) <> [] -> c_closed c = true).

(* direction x -> y: what y's socket got (or still holds) is a prefix of what x's socket delivered *)
Definition flow (x y : conn) : Prop := exists rest, c_in x = c_out y ++ c_pend y ++ rest.

(* nothing lost so far in direction x -> y *)
Definition exact (x y : conn) : Prop :=
  (c_closed y = false \/ closes (c_trace y) = [LocalClose]) ->
  (c_closed x = false \/ closes (c_trace x) = [RemoteClose]) ->
  c_in x = c_out y ++ c_pend y.

(* y is closed locally / holds a pending EOF marker only after x has been closed *)
Definition link (x y : conn) : Prop :=
  (closes (c_trace y) = [LocalClose] -> c_closed x = true) /\ (c_peof y = true -> c_closed x = true).

Definition sync (x y : conn) : Prop :=
  c_werr x = false -> c_werr y = false -> c_closed x = c_closed y.

Definition pairing (x y : conn) : Prop :=
  c_werr x = false -> c_werr y = false -> closes (c_trace x) = [RemoteClose] -> closes (c_trace y) = [LocalClose].

(* no OnData call after a close event *)
Fixpoint no_data (t : list tev) : bool :=
  match t with [] => true | TData _ :: _ => false | TClose _ :: r => no_data r end.
Fixpoint dbc (t : list tev) : bool :=
  match t with [] => true | TData _ :: r => dbc r | TClose _ :: r => no_data r end.

Lemma no_data_snoc_close t e : no_data t = true -> no_data (t ++ [TClose e]) = true.
Proof. induction t as [|[l|e'] t IH]; cbn; auto. Qed.
Lemma dbc_snoc_close t e : dbc t = true -> dbc (t ++ [TClose e]) = true.
Proof. induction t as [|[l|e'] t IH]; cbn; auto using no_data_snoc_close. Qed.
Lemma dbc_snoc_data t l : closes t = [] -> dbc (t ++ [TData l]) = true.
Proof. induction t as [|[l'|e'] t IH]; cbn; auto; discriminate. Qed.

(* every byte a raw Read returned has been handed to the filter chain (before any close event) or still sits in
   the read buffer *)
Definition rdok (c : conn) : Prop :=
  c_in c = fdata (c_trace c) ++ c_rbuf c /\ dbc (c_trace c) = true.

Definition Inv2 (x y : conn) : Prop :=
  wf x /\ wf y /\ flow x y /\ flow y x /\ exact x y /\ exact y x /\ link x y /\ link y x /\ sync x y /\
  pairing x y /\ pairing y x /\ rdok x /\ rdok y.

Lemma Inv2_sym x y : Inv2 x y -> Inv2 y x.
Proof. unfold Inv2, sync. intuition; try (symmetry; auto). Qed.

(* ------------------------------------------------------------------ list helpers *)
Lemma fs_app (k : nat) (p r : list N) : firstn k p ++ skipn k p ++ r = p ++ r.
Proof. now rewrite app_assoc, firstn_skipn. Qed.
Lemma fs_nil (k : nat) (p : list N) : firstn k p ++ skipn k p = p.
Proof. apply firstn_skipn. Qed.
Lemma app_nil_eq (a r : list N) : a = a ++ r -> r = [].
Proof. intros H. rewrite <- (app_nil_r a) in H at 1. now apply app_inv_head in H. Qed.

Lemma cancel2 (a b r : list N) : a ++ b ++ r = a ++ b -> r = [].
Proof. intros H. rewrite app_assoc in H. symmetry in H. now apply app_nil_eq in H. Qed.

Ltac norm := repeat rewrite <- app_assoc in *; cbn [app] in *; rewrite ?firstn_nil, ?skipn_nil, ?fs_app, ?fs_nil, ?app_nil_r in *.

Ltac brk :=
  repeat match goal with
  | |- context [match ?w with WOk => _ | WTimeout _ => _ | WErr _ => _ end] => destruct w
  | |- context [match ?l with [] => _ | _ :: _ => _ end] => destruct l
  | |- context [if ?b then _ else _] => destruct b eqn:?
  end.

Ltac fields := cbn [c_rbuf c_ren c_closed c_pend c_peof c_out c_in c_trace c_werr] in *.

Ltac prep H :=
  unfold Inv2, wf, flow, exact, link, sync, pairing, rdok in *; fields;
  rewrite ?closes_app, ?fdata_app in *; cbn [closes fdata app] in *; rewrite ?app_nil_r, ?orb_false_r, ?orb_true_r in *;
  let Hwx := fresh "Hwx" in let Hwy := fresh "Hwy" in let Hfxy := fresh "Hfxy" in let Hfyx := fresh "Hfyx" in
  let Hexy := fresh "Hexy" in let Heyx := fresh "Heyx" in let Hlxy := fresh "Hlxy" in let Hlyx := fresh "Hlyx" in
  let Hs := fresh "Hs" in let Hpxy := fresh "Hpxy" in let Hpyx := fresh "Hpyx" in
  let Hrx := fresh "Hrx" in let Hry := fresh "Hry" in
  destruct H as (Hwx & Hwy & Hfxy & Hfyx & Hexy & Heyx & Hlxy & Hlyx & Hs & Hpxy & Hpyx & Hrx & Hry).

Ltac triv := solve [ assumption | reflexivity | discriminate | congruence | intuition congruence ].

Ltac sat :=
  repeat match goal with
  | H : ?a = ?a -> _ |- _ => specialize (H eq_refl)
  | H : (?a = ?a \/ _) -> _ |- _ => specialize (H (or_introl eq_refl))
  | H : (_ \/ ?a = ?a) -> _ |- _ => specialize (H (or_intror eq_refl))
  | H : _ /\ _ |- _ => destruct H
  | H : exists _, _ |- _ => destruct H
  | H : closes ?t = _ |- _ => rewrite H in *
  | H : false = true -> _ |- _ => clear H
  | H : true = false -> _ |- _ => clear H
  | H : false = true \/ false = true -> _ |- _ => clear H
  | H : [] <> [] -> _ |- _ => clear H
  | H : ?a :: _ = [] -> _ |- _ => clear H
  | H : [] = _ :: _ -> _ |- _ => clear H
  | H : ?a ++ ?b ++ ?r = ?a ++ ?b |- _ => apply cancel2 in H
  | H : ?x = ?y |- _ => is_var x; subst x
  | H : ?y = ?x |- _ => is_var x; subst x
  end.

Ltac fin :=
  first [ solve [repeat apply dbc_snoc_close; try apply dbc_snoc_data; triv] | idtac ];
  norm;
  first [ triv
        | exists (@nil N); norm; triv
        | eexists; repeat rewrite <- app_assoc; cbn [app]; rewrite ?fs_app; reflexivity
        | repeat apply dbc_snoc_close; try apply dbc_snoc_data; triv ].

