(* Selector normalisation (types.InitSet + GenerateSubsetKeys) of Model/Subset.v. *)
From Coq Require Import List Arith Bool Lia.
From MV Require Import Model.Subset Proofs.Subset.
Import ListNotations.

Fixpoint ssorted (l : list nat) : Prop :=
  match l with [] => True | x :: l' => (forall y, In y l' -> x < y) /\ ssorted l' end.

Lemma insert_in : forall x l y, In y (insert_uniq x l) <-> y = x \/ In y l.
Proof.
  induction l as [|z l IH]; intros y; simpl.
  - split; intros H0; repeat (destruct H0 as [H0|H0]); subst; simpl; auto; contradiction.
  - destruct (Nat.ltb_spec x z).
    + simpl. split; intros H0; repeat (destruct H0 as [H0|H0]); subst; simpl; auto.
    + destruct (Nat.eqb_spec x z) as [E|E].
      * simpl. split; intros H0; repeat (destruct H0 as [H0|H0]); subst; simpl; auto.
      * simpl. rewrite IH. split; intros H0; repeat (destruct H0 as [H0|H0]); subst; simpl; auto.
Qed.

Lemma insert_sorted : forall x l, ssorted l -> ssorted (insert_uniq x l).
Proof.
  induction l as [|z l IH]; intros Hs; simpl.
  - split; [intros y Hy; destruct Hy|exact I].
  - simpl in Hs. destruct Hs as [Hz Hl]. destruct (Nat.ltb_spec x z).
    + simpl. split; [|split; auto]. intros y [<-|Hy]; auto. specialize (Hz y Hy); lia.
    + destruct (Nat.eqb_spec x z); [simpl; auto|]. simpl. split; auto.
      intros y Hy. apply insert_in in Hy. destruct Hy as [->|Hy]; [lia|auto].
Qed.

Lemma init_set_in : forall S y, In y (init_set S) <-> In y S.
Proof.
  induction S as [|x S IH]; intros y; cbn; [tauto|]. rewrite insert_in, IH. intuition.
Qed.

Lemma init_set_sorted : forall S, ssorted (init_set S).
Proof. induction S; cbn; auto. apply insert_sorted; auto. Qed.

Lemma sorted_ext : forall a b, ssorted a -> ssorted b -> (forall y, In y a <-> In y b) -> a = b.
Proof.
  induction a as [|x a IH]; intros [|y b] Ha Hb H; auto.
  - destruct (proj2 (H y)); left; auto.
  - destruct (proj1 (H x)); left; auto.
  - destruct Ha as [Hx Ha]. destruct Hb as [Hy Hb].
    assert (x = y).
    { destruct (proj1 (H x) (or_introl eq_refl)) as [E|Hin]; auto.
      destruct (proj2 (H y) (or_introl eq_refl)) as [E|Hin2]; auto.
      specialize (Hy _ Hin). specialize (Hx _ Hin2). lia. }
    subst y. f_equal. apply IH; auto. intros z. split; intros Hz.
    + destruct (proj1 (H z) (or_intror Hz)) as [E|]; auto. subst. specialize (Hx _ Hz). lia.
    + destruct (proj2 (H z) (or_intror Hz)) as [E|]; auto. subst. specialize (Hy _ Hz). lia.
Qed.

Lemma keys_eqb_eq : forall a b, keys_eqb a b = true <-> a = b.
Proof.
  induction a as [|x a IH]; intros [|y b]; cbn; split; intros H; try discriminate; auto.
  - apply andb_prop in H. destruct H as [H1 H2]. apply Nat.eqb_eq in H1. apply IH in H2. congruence.
  - inversion H; subst. rewrite Nat.eqb_refl. cbn. apply IH; auto.
Qed.

Definition gstep (acc : list (list nat)) (keys : list nat) : list (list nat) :=
  let s := init_set keys in if existsb (keys_eqb s) acc then acc else acc ++ [s].

Lemma existsb_keys : forall s acc, existsb (keys_eqb s) acc = true <-> In s acc.
Proof.
  intros s acc. rewrite existsb_exists. split.
  - intros (x & Hx & E). apply keys_eqb_eq in E. subst; auto.
  - intros H. exists s. split; auto. apply keys_eqb_eq; auto.
Qed.

Lemma G_acc : forall cfg acc s, In s acc -> In s (fold_left gstep cfg acc).
Proof.
  induction cfg as [|k cfg IH]; intros acc s H; cbn; auto. apply IH. unfold gstep.
  destruct (existsb _ acc); auto. apply in_or_app; auto.
Qed.

Lemma G_cfg : forall cfg acc S, In S cfg -> In (init_set S) (fold_left gstep cfg acc).
Proof.
  induction cfg as [|k cfg IH]; intros acc S HS; [destruct HS|].
  destruct HS as [<-|H]; cbn [fold_left]; auto.
  apply G_acc. unfold gstep. destruct (existsb (keys_eqb (init_set k)) acc) eqn:E.
  - apply existsb_keys; auto.
  - apply in_or_app; right; left; auto.
Qed.

Lemma G_only : forall cfg acc s, In s (fold_left gstep cfg acc) -> In s acc \/ exists S, In S cfg /\ s = init_set S.
Proof.
  induction cfg as [|k cfg IH]; intros acc s H; cbn in *; auto.
  destruct (IH _ _ H) as [Hin|(S & HS & E)].
  - unfold gstep in Hin. destruct (existsb _ acc); auto.
    apply in_app_or in Hin. destruct Hin as [|[<-|[]]]; auto. right. exists k; split; auto.
  - right. exists S; split; auto.
Qed.

Lemma nodup_snoc {A} : forall (l : list A) x, NoDup l -> ~ In x l -> NoDup (l ++ [x]).
Proof.
  induction l as [|y l IH]; intros x Hn Hx; cbn; [constructor; auto; constructor|].
  inversion Hn; subst. constructor.
  - intros Hin. apply in_app_or in Hin. destruct Hin as [|[<-|[]]]; auto. apply Hx; left; auto.
  - apply IH; auto. intros Hin; apply Hx; right; auto.
Qed.

Lemma G_nodup : forall cfg acc, NoDup acc -> NoDup (fold_left gstep cfg acc).
Proof.
  induction cfg as [|k cfg IH]; intros acc H; cbn; auto. apply IH. unfold gstep.
  destruct (existsb (keys_eqb (init_set k)) acc) eqn:E; auto.
  apply nodup_snoc; auto. intros Hin. apply existsb_keys in Hin. congruence.
Qed.

(* ---- the statements ---- *)
Theorem selector_keys_preserved : forall cfg,
  let n := generate_subset_keys cfg in
  (* every configured selector's key set is present after normalisation *)
  (forall S, In S cfg -> exists s, In s n /\ forall k, In k s <-> In k S) /\
  (* nothing is invented *)
  (forall s, In s n -> exists S, In S cfg /\ s = init_set S) /\
  (* no two entries are equal, and two configured selectors are merged iff they have the same key set *)
  NoDup n /\
  (forall S1 S2, init_set S1 = init_set S2 <-> (forall k, In k S1 <-> In k S2)).
Proof.
  intros cfg n. unfold n, generate_subset_keys. fold gstep. split; [|split; [|split]].
  - intros S HS. exists (init_set S). split; [apply G_cfg; auto|]. intros k. apply init_set_in.
  - intros s Hs. destruct (G_only _ _ _ Hs) as [[]|H]; auto.
  - apply G_nodup. constructor.
  - intros S1 S2. split.
    + intros E k. rewrite <- (init_set_in S1 k), <- (init_set_in S2 k), E. tauto.
    + intros H. apply sorted_ext; try apply init_set_sorted. intros y. rewrite !init_set_in. auto.
Qed.

(* with the CONFIGURED selectors: criteria whose (sorted, distinct) keys are the key set of a configured selector and
   that some host matches select exactly the hosts carrying all the pairs *)
Theorem subset_applies_configured : forall hs cfg c S,
  c <> [] -> ssorted (map fst c) -> In S cfg -> (forall k, In k S <-> In k (map fst c)) ->
  (exists h, In h hs /\ host_matches c h = true) ->
  active_entry c (build1 hs (generate_subset_keys cfg)) = Some (create_subset hs c).
Proof.
  intros hs cfg c S Hc Hs HS Hk Hm. apply active1_iff. split; [exact Hc|]. split; [|split; [exact Hm|reflexivity]].
  assert (E : init_set S = map fst c).
  { apply sorted_ext; auto; [apply init_set_sorted|]. intros y. rewrite init_set_in. auto. }
  rewrite <- E. unfold generate_subset_keys. fold gstep. apply G_cfg; auto.
Qed.
