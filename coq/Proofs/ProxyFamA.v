(* exhaustive reachability check of one part of the configuration family (vm_compute) *)
From Coq Require Import List ZArith Bool.
From MV Require Import Model.Proxy Model.ProxySpec Proofs.ProxyReach Proofs.ProxyFamily Gen.ProxyTokens.
Lemma famA_ok : fam_check proxy_src (good_all proxy_src) (fam_routes ++ fam_hijack_cont ++ fam_retry) = true.
Proof. vm_compute. reflexivity. Qed.
