(* Proofs/Bolt.v (codec) - bolt / boltv2 decoder: pure characterisation of the outcome, totality, bounds on
   reads and allocations, prefix stability (C07/C08).  The C01 lemmas are in Proofs/BoltEnc.v. *)
From Coq Require Import List NArith Lia ZifyBool ZifyNat ZifyN Bool.
From MV Require Import Lib.Bytes Lib.Dec Lib.Seg Model.CodecParams Model.HeaderKV Model.Bolt Proofs.HeaderKV.
Import ListNotations.
Open Scope N_scope.

(* ---- well-formed layouts: every field lies inside the fixed header ------------------------------ *)
Definition pair_ok (h : N) (p : N * N) : bool := (fst p <=? snd p) && (snd p <=? h).
Definition opt_ok (h : N) (o : option (N * N)) : bool := match o with Some p => pair_ok h p | None => true end.
Definition wf_layout (L : layout) : bool :=
  (0 <? l_hlen L) && pair_ok (l_hlen L) (l_class L) && pair_ok (l_hlen L) (l_header L) && pair_ok (l_hlen L) (l_content L)
  && pair_ok (l_hlen L) (l_cmdcode L) && pair_ok (l_hlen L) (l_ver L) && pair_ok (l_hlen L) (l_reqid L)
  && pair_ok (l_hlen L) (l_codec L) && pair_ok (l_hlen L) (l_tail L) && opt_ok (l_hlen L) (l_ver1 L) && opt_ok (l_hlen L) (l_switch L).

Lemma wf_layouts : forall v2 resp, wf_layout (layout_of v2 resp) = true.
Proof. intros [|] [|]; vm_compute; reflexivity. Qed.

(* value of a field of the fixed header *)
Definition fld (b : bytes) (p : N * N) : N := be_decw (sub b (fst p) (fst p + (snd p - fst p))).
Definition fld_opt (b : bytes) (o : option (N * N)) : N := match o with Some p => fld b p | None => 0 end.
Definition frame_len (L : layout) (b : bytes) : N :=
  l_hlen L + fld b (l_class L) + fld b (l_header L) + fld b (l_content L).

Lemma rdf_res v h p : pair_ok h p = true -> h <= vlen v -> res (rdf v p) = Ok (fld (vb v) p).
Proof.
  unfold pair_ok, rdf, fld. intros H Hh. apply andb_true_iff in H. destruct H as [H1 H2].
  apply rd_be_res. lia.
Qed.
Lemma rdf_opt_res v h o : opt_ok h o = true -> h <= vlen v -> res (rdf_opt v o) = Ok (fld_opt (vb v) o).
Proof. destruct o as [p|]; cbn [opt_ok rdf_opt fld_opt]; [apply rdf_res|reflexivity]. Qed.
Lemma rdf_bounded v h p n : pair_ok h p = true -> h <= n -> bounded n (rdf v p).
Proof.
  unfold pair_ok, rdf. intros H Hh. apply andb_true_iff in H. destruct H as [H1 H2].
  apply rd_be_bounded. lia.
Qed.
Lemma rdf_opt_bounded v h o n : opt_ok h o = true -> h <= n -> bounded n (rdf_opt v o).
Proof. destruct o as [p|]; cbn [opt_ok rdf_opt]; [apply rdf_bounded|intros; apply bounded_ret]. Qed.

Lemma fld_app b e h p : pair_ok h p = true -> h <= blen b -> fld (b ++ e) p = fld b p.
Proof.
  unfold pair_ok, fld. intros H Hh. apply andb_true_iff in H. destruct H as [H1 H2].
  rewrite sub_app by lia. reflexivity.
Qed.
Lemma fld_opt_app b e h o : opt_ok h o = true -> h <= blen b -> fld_opt (b ++ e) o = fld_opt b o.
Proof. destruct o as [p|]; cbn [opt_ok fld_opt]; [apply fld_app|reflexivity]. Qed.

(* ---- the outcome of decodeRequest / decodeResponse as a pure function of the received bytes ------ *)
Definition bolt_pure (chk : bool) (L : layout) (oneway : bool) (b : bytes) : outcome (bolt_cmd * N) :=
  if blen b <? l_hlen L then NeedMore else
  let classLen := fld b (l_class L) in
  let headerLen := fld b (l_header L) in
  let contentLen := fld b (l_content L) in
  let frameLen := l_hlen L + classLen + headerLen + contentLen in
  if blen b <? frameLen then NeedMore else
  let raw := sub b 0 frameLen in
  let headerIndex := l_hlen L + classLen in
  let contentIndex := headerIndex + headerLen in
  let class := if 0 <? classLen then sub raw (l_hlen L) headerIndex else [] in
  let hd := if 0 <? headerLen then hdr_decode chk (sub raw headerIndex contentIndex) else (HOk, []) in
  let content := if 0 <? contentLen then sub raw contentIndex frameLen else [] in
  let cmd herr := {|
    b_v2 := l_v2 L; b_resp := l_resp L; b_proto := l_proto L;
    b_cmdtype := if l_resp L then bolt_CmdTypeResponse else if oneway then bolt_CmdTypeRequestOneway else bolt_CmdTypeRequest;
    b_cmdcode := fld b (l_cmdcode L); b_ver := fld b (l_ver L); b_reqid := fld b (l_reqid L); b_codec := fld b (l_codec L);
    b_tail := fld b (l_tail L); b_ver1 := fld_opt b (l_ver1 L); b_switch := fld_opt b (l_switch L);
    b_classlen := classLen; b_headerlen := headerLen; b_contentlen := contentLen;
    b_class := class; b_kvs := snd hd; b_content := content;
    b_raw := Some (Private raw); b_hchanged := false; b_cchanged := false; b_herr := herr |} in
  match fst hd with
  | HOk => Ok (cmd false, frameLen)
  | HErr => Ok (cmd true, frameLen)
  | HPanic => Panic
  | HFuel => OutOfFuel
  end.

Ltac wf_split H :=
  unfold wf_layout in H; repeat (apply andb_true_iff in H; let H' := fresh "W" in destruct H as [H H']).

Lemma decode_frame_res chk L ow v : wf_layout L = true ->
  res (bolt_decode_frame chk L ow v) = bolt_pure chk L ow (vb v).
Proof.
  intros W. wf_split W. unfold bolt_decode_frame, bolt_pure. fold (vlen v).
  destruct (vlen v <? l_hlen L) eqn:E1; [reflexivity|].
  assert (Hh : l_hlen L <= vlen v) by (clear - E1; lia).
  rewrite res_bind, (rdf_res v (l_hlen L)) by assumption.
  rewrite res_bind, (rdf_res v (l_hlen L)) by assumption.
  rewrite res_bind, (rdf_res v (l_hlen L)) by assumption.
  destruct (vlen v <? l_hlen L + fld (vb v) (l_class L) + fld (vb v) (l_header L) + fld (vb v) (l_content L)) eqn:E2; [reflexivity|].
  rewrite res_bind, (rdf_res v (l_hlen L)) by assumption.
  rewrite res_bind, (rdf_res v (l_hlen L)) by assumption.
  rewrite res_bind, (rdf_res v (l_hlen L)) by assumption.
  rewrite res_bind, (rdf_res v (l_hlen L)) by assumption.
  rewrite res_bind, (rdf_res v (l_hlen L)) by assumption.
  rewrite res_bind, (rdf_opt_res v (l_hlen L)) by assumption.
  rewrite res_bind, (rdf_opt_res v (l_hlen L)) by assumption.
  rewrite res_bind. cbn [alloc res fst].
  rewrite res_bind, rd_sub_res by (clear - E2; lia).
  destruct (fst (if 0 <? fld (vb v) (l_header L) then _ else _)); reflexivity.
Qed.

Lemma decode_frame_bounded chk L ow v : wf_layout L = true -> bounded (vlen v) (bolt_decode_frame chk L ow v).
Proof.
  intros W. wf_split W. unfold bolt_decode_frame.
  destruct (vlen v <? l_hlen L) eqn:E1; [apply bounded_need_more|].
  assert (Hh : l_hlen L <= vlen v) by (clear - E1; lia).
  apply bounded_bind; [eapply rdf_bounded; eassumption|intros cl _].
  apply bounded_bind; [eapply rdf_bounded; eassumption|intros hl _].
  apply bounded_bind; [eapply rdf_bounded; eassumption|intros ctl _].
  destruct (vlen v <? l_hlen L + cl + hl + ctl) eqn:E2; [apply bounded_need_more|].
  apply bounded_bind; [eapply rdf_bounded; eassumption|intros ? _].
  apply bounded_bind; [eapply rdf_bounded; eassumption|intros ? _].
  apply bounded_bind; [eapply rdf_bounded; eassumption|intros ? _].
  apply bounded_bind; [eapply rdf_bounded; eassumption|intros ? _].
  apply bounded_bind; [eapply rdf_bounded; eassumption|intros ? _].
  apply bounded_bind; [eapply rdf_opt_bounded; eassumption|intros ? _].
  apply bounded_bind; [eapply rdf_opt_bounded; eassumption|intros ? _].
  apply bounded_bind; [apply bounded_alloc; clear - E2; lia|intros _ _].
  apply bounded_bind; [apply rd_sub_bounded; clear - E2; lia|intros raw _].
  destruct (fst (if 0 <? hl then _ else _)); try apply bounded_ret; [apply bounded_panic|apply bounded_oof].
Qed.

(* ---- bolt_pure: what it means not to ask for more data, and invariance under later bytes ----------- *)
Lemma bolt_pure_complete chk L ow b : bolt_pure chk L ow b <> NeedMore ->
  l_hlen L <= blen b /\ frame_len L b <= blen b.
Proof.
  unfold bolt_pure, frame_len. destruct (blen b <? l_hlen L) eqn:E1; [congruence|].
  destruct (blen b <? l_hlen L + fld b (l_class L) + fld b (l_header L) + fld b (l_content L)) eqn:E2; [congruence|].
  intros _. lia.
Qed.

Lemma bolt_pure_ok chk L ow b c n : bolt_pure chk L ow b = Ok (c, n) ->
  n = frame_len L b /\ l_hlen L <= n /\ n <= blen b.
Proof.
  intros H. assert (Hn : bolt_pure chk L ow b <> NeedMore) by congruence.
  apply bolt_pure_complete in Hn. destruct Hn as [H1 H2].
  unfold bolt_pure in H. fold (frame_len L b) in H.
  replace (blen b <? l_hlen L) with false in H by lia.
  replace (blen b <? frame_len L b) with false in H by lia.
  cbv zeta in H.
  destruct (fst (if 0 <? fld b (l_header L) then _ else _)); inversion H; subst; unfold frame_len in *; lia.
Qed.

Lemma bolt_pure_ext chk L ow b e : wf_layout L = true -> bolt_pure chk L ow b <> NeedMore ->
  bolt_pure chk L ow (b ++ e) = bolt_pure chk L ow b.
Proof.
  intros W Hn. apply bolt_pure_complete in Hn. destruct Hn as [H1 H2]. wf_split W.
  unfold frame_len in H2. unfold bolt_pure.
  rewrite !(fld_app b e (l_hlen L)) by assumption.
  rewrite !(fld_opt_app b e (l_hlen L)) by assumption.
  rewrite blen_app.
  replace (blen b + blen e <? l_hlen L) with false by (clear - H1 H2; lia).
  replace (blen b <? l_hlen L) with false by (clear - H1 H2; lia).
  replace (blen b + blen e <? l_hlen L + fld b (l_class L) + fld b (l_header L) + fld b (l_content L)) with false by (clear - H1 H2; lia).
  replace (blen b <? l_hlen L + fld b (l_class L) + fld b (l_header L) + fld b (l_content L)) with false by (clear - H1 H2; lia).
  rewrite (sub_app b e 0) by (clear - H1 H2; lia). reflexivity.
Qed.

Lemma bolt_pure_total L ow b : bolt_pure true L ow b <> Panic /\ bolt_pure true L ow b <> OutOfFuel.
Proof.
  unfold bolt_pure. destruct (blen b <? l_hlen L); [split; discriminate|].
  destruct (blen b <? l_hlen L + fld b (l_class L) + fld b (l_header L) + fld b (l_content L)); [split; discriminate|]. cbv zeta.
  match goal with |- context [fst (if ?c then hdr_decode true ?h else _)] =>
    destruct c; [destruct (hdr_decode_total h) as [E|E]; rewrite E|cbn [fst]] end; split; discriminate.
Qed.

(* ---- the protocol-level Decode -------------------------------------------------------------------- *)
Definition own_pure (chk : bool) (v2 : bool) (b : bytes) : outcome (bolt_cmd * N) :=
  if (if v2 then boltv2_LessLen else bolt_LessLen) <=? blen b then
    let ct := nth (N.to_nat (if v2 then boltv2_cmdtype_idx else bolt_cmdtype_idx)) b 0 in
    if ct =? bolt_CmdTypeRequest then bolt_pure chk (layout_of v2 false) false b
    else if ct =? bolt_CmdTypeRequestOneway then bolt_pure chk (layout_of v2 false) true b
    else if ct =? bolt_CmdTypeResponse then bolt_pure chk (layout_of v2 true) false b
    else Err ERR_CMDTYPE
  else NeedMore.

Lemma cmdtype_idx_lt (v2 : bool) : (if v2 then boltv2_cmdtype_idx else bolt_cmdtype_idx) < (if v2 then boltv2_LessLen else bolt_LessLen).
Proof. destruct v2; vm_compute; reflexivity. Qed.
Lemma own_decode_res chk v2 v : res (bolt_own_decode chk v2 v) = own_pure chk v2 (vb v).
Proof.
  unfold bolt_own_decode, own_pure. fold (vlen v).
  destruct ((if v2 then boltv2_LessLen else bolt_LessLen) <=? vlen v) eqn:E; [|reflexivity].
  pose proof (cmdtype_idx_lt v2) as Hi.
  rewrite res_bind, rd_idx_res by lia.
  destruct (_ =? bolt_CmdTypeRequest); [apply decode_frame_res, wf_layouts|].
  destruct (_ =? bolt_CmdTypeRequestOneway); [apply decode_frame_res, wf_layouts|].
  destruct (_ =? bolt_CmdTypeResponse); [apply decode_frame_res, wf_layouts|reflexivity].
Qed.

Lemma own_decode_bounded chk v2 v : bounded (vlen v) (bolt_own_decode chk v2 v).
Proof.
  unfold bolt_own_decode. destruct (_ <=? vlen v) eqn:E; [|apply bounded_need_more].
  apply bounded_bind; [apply rd_idx_bounded; lia|intros ct _].
  destruct (ct =? bolt_CmdTypeRequest); [apply decode_frame_bounded, wf_layouts|].
  destruct (ct =? bolt_CmdTypeRequestOneway); [apply decode_frame_bounded, wf_layouts|].
  destruct (ct =? bolt_CmdTypeResponse); [apply decode_frame_bounded, wf_layouts|apply bounded_fail].
Qed.

Lemma own_pure_ext chk v2 b e : own_pure chk v2 b <> NeedMore -> own_pure chk v2 (b ++ e) = own_pure chk v2 b.
Proof.
  unfold own_pure. intros Hn. pose proof (cmdtype_idx_lt v2) as Hi.
  destruct ((if v2 then boltv2_LessLen else bolt_LessLen) <=? blen b) eqn:E; [|congruence].
  rewrite blen_app. replace ((if v2 then boltv2_LessLen else bolt_LessLen) <=? blen b + blen e) with true by lia.
  rewrite app_nth1 by (unfold blen in *; lia).
  cbv zeta in *.
  destruct (_ =? bolt_CmdTypeRequest); [apply bolt_pure_ext; [apply wf_layouts|assumption]|].
  destruct (_ =? bolt_CmdTypeRequestOneway); [apply bolt_pure_ext; [apply wf_layouts|assumption]|].
  destruct (_ =? bolt_CmdTypeResponse); [apply bolt_pure_ext; [apply wf_layouts|assumption]|reflexivity].
Qed.

Lemma own_pure_ok chk v2 b c n : own_pure chk v2 b = Ok (c, n) -> 0 < n /\ n <= blen b.
Proof.
  unfold own_pure. destruct (_ <=? blen b); [|discriminate]. cbv zeta.
  assert (Hp : forall resp, 0 < l_hlen (layout_of v2 resp)) by (intros [|]; destruct v2; vm_compute; reflexivity).
  destruct (_ =? bolt_CmdTypeRequest); [intros H; apply bolt_pure_ok in H; specialize (Hp false); lia|].
  destruct (_ =? bolt_CmdTypeRequestOneway); [intros H; apply bolt_pure_ok in H; specialize (Hp false); lia|].
  destruct (_ =? bolt_CmdTypeResponse); [intros H; apply bolt_pure_ok in H; specialize (Hp true); lia|discriminate].
Qed.

Lemma own_pure_total v2 b : own_pure true v2 b <> Panic /\ own_pure true v2 b <> OutOfFuel.
Proof.
  unfold own_pure. destruct (_ <=? blen b); [|split; discriminate]. cbv zeta.
  destruct (_ =? bolt_CmdTypeRequest); [apply bolt_pure_total|].
  destruct (_ =? bolt_CmdTypeRequestOneway); [apply bolt_pure_total|].
  destruct (_ =? bolt_CmdTypeResponse); [apply bolt_pure_total|split; discriminate].
Qed.

(* first-byte dispatch between the two engines *)
Definition sw_pure (chk : bool) (b : bytes) : outcome (bolt_cmd * N) :=
  match b with
  | c :: _ => if c =? 2 then own_pure chk true b else own_pure chk false b
  | [] => own_pure chk false b
  end.
Definition sw2_pure (chk : bool) (b : bytes) : outcome (bolt_cmd * N) :=
  match b with
  | c :: _ => if c =? bolt_ProtocolCode then sw_pure chk b else own_pure chk true b
  | [] => own_pure chk true b
  end.

Lemma sw_res chk v : res (bolt_decode_sw chk bolt_gate_first v) = sw_pure chk (vb v).
Proof. unfold bolt_decode_sw, sw_pure. change bolt_gate_first with false. cbn [andb]. destruct (vb v) as [|c r] eqn:E; [|destruct (c =? 2)]; rewrite <- E; apply own_decode_res. Qed.
Lemma sw2_res chk v : res (boltv2_decode_sw chk bolt_gate_first v) = sw2_pure chk (vb v).
Proof.
  unfold boltv2_decode_sw, sw2_pure. change (bolt_gate_first && (vlen v <? boltv2_LessLen)) with false. cbv iota. destruct (vb v) as [|c r] eqn:E.
  - rewrite <- E. apply own_decode_res.
  - destruct (c =? bolt_ProtocolCode); rewrite <- E; [apply sw_res|apply own_decode_res].
Qed.
Lemma sw_bounded chk v : bounded (vlen v) (bolt_decode_sw chk bolt_gate_first v).
Proof. unfold bolt_decode_sw. change bolt_gate_first with false. cbn [andb]. destruct (vb v) as [|c r]; [|destruct (c =? 2)]; apply own_decode_bounded. Qed.
Lemma sw2_bounded chk v : bounded (vlen v) (boltv2_decode_sw chk bolt_gate_first v).
Proof.
  unfold boltv2_decode_sw. change (bolt_gate_first && (vlen v <? boltv2_LessLen)) with false. cbv iota. destruct (vb v) as [|c r]; [apply own_decode_bounded|].
  destruct (c =? bolt_ProtocolCode); [apply sw_bounded|apply own_decode_bounded].
Qed.

Lemma own_pure_nil chk v2 : own_pure chk v2 [] = NeedMore.
Proof. destruct v2; reflexivity. Qed.

Lemma sw_pure_ext chk b e : sw_pure chk b <> NeedMore -> sw_pure chk (b ++ e) = sw_pure chk b.
Proof.
  destruct b as [|c r]; [cbn [sw_pure]; rewrite own_pure_nil; congruence|].
  cbn [sw_pure app]. destruct (c =? 2); intros H; apply (own_pure_ext chk _ (c :: r) e H).
Qed.
Lemma sw2_pure_ext chk b e : sw2_pure chk b <> NeedMore -> sw2_pure chk (b ++ e) = sw2_pure chk b.
Proof.
  destruct b as [|c r]; [cbn [sw2_pure]; rewrite own_pure_nil; congruence|].
  cbn [sw2_pure app]. destruct (c =? bolt_ProtocolCode); intros H.
  - apply (sw_pure_ext chk (c :: r) e H).
  - apply (own_pure_ext chk _ (c :: r) e H).
Qed.
Lemma sw_pure_ok chk b c n : sw_pure chk b = Ok (c, n) -> 0 < n /\ n <= blen b.
Proof. destruct b as [|x r]; cbn [sw_pure]; [|destruct (x =? 2)]; apply own_pure_ok. Qed.
Lemma sw2_pure_ok chk b c n : sw2_pure chk b = Ok (c, n) -> 0 < n /\ n <= blen b.
Proof.
  destruct b as [|x r]; cbn [sw2_pure]; [apply own_pure_ok|].
  destruct (x =? bolt_ProtocolCode); [apply (sw_pure_ok chk (x :: r))|apply own_pure_ok].
Qed.
Lemma sw_pure_total b : sw_pure true b <> Panic /\ sw_pure true b <> OutOfFuel.
Proof. destruct b as [|x r]; cbn [sw_pure]; [|destruct (x =? 2)]; apply own_pure_total. Qed.
Lemma sw2_pure_total b : sw2_pure true b <> Panic /\ sw2_pure true b <> OutOfFuel.
Proof.
  destruct b as [|x r]; cbn [sw2_pure]; [apply own_pure_total|].
  destruct (x =? bolt_ProtocolCode); [apply (sw_pure_total (x :: r))|apply own_pure_total].
Qed.

(* the two engines agree on every input that starts with one of the two protocol codes *)
Lemma family_agree chk b x r : b = x :: r -> x = bolt_ProtocolCode \/ x = boltv2_ProtocolCode ->
  sw2_pure chk b = sw_pure chk b.
Proof.
  intros -> [->| ->]; cbn [sw2_pure sw_pure].
  - reflexivity.
  - reflexivity.
Qed.

(* ---- C08 statements for the code in the tree (xp_hdr_checked as read from the source) ------------- *)
Theorem bolt_decode_total v : res (bolt_decode v) <> Panic /\ res (bolt_decode v) <> OutOfFuel.
Proof. unfold bolt_decode. rewrite sw_res. apply sw_pure_total. Qed.
Theorem boltv2_decode_total v : res (boltv2_decode v) <> Panic /\ res (boltv2_decode v) <> OutOfFuel.
Proof. unfold boltv2_decode. rewrite sw2_res. apply sw2_pure_total. Qed.
Theorem bolt_decode_bounded v : bounded (vlen v) (bolt_decode v).
Proof. apply sw_bounded. Qed.
Theorem boltv2_decode_bounded v : bounded (vlen v) (boltv2_decode v).
Proof. apply sw2_bounded. Qed.
Theorem bolt_decode_spare_indep b s1 s2 :
  res (bolt_decode {| vb := b; vspare := s1 |}) = res (bolt_decode {| vb := b; vspare := s2 |}).
Proof. unfold bolt_decode. now rewrite !sw_res. Qed.
Theorem boltv2_decode_spare_indep b s1 s2 :
  res (boltv2_decode {| vb := b; vspare := s1 |}) = res (boltv2_decode {| vb := b; vspare := s2 |}).
Proof. unfold boltv2_decode. now rewrite !sw2_res. Qed.
(* a frame is only returned for bytes that have all arrived; NeedMore and Err consume nothing by construction *)
Theorem bolt_decode_consumed v c n : res (bolt_decode v) = Ok (c, n) -> 0 < n /\ n <= vlen v.
Proof. unfold bolt_decode. rewrite sw_res. apply sw_pure_ok. Qed.
Theorem boltv2_decode_consumed v c n : res (boltv2_decode v) = Ok (c, n) -> 0 < n /\ n <= vlen v.
Proof. unfold boltv2_decode. rewrite sw2_res. apply sw2_pure_ok. Qed.

(* ---- C07: prefix stability of the framers ------------------------------------------------------------ *)
Lemma to_presult_stable (P : bytes -> outcome (bolt_cmd * N)) :
  (forall b e, P b <> NeedMore -> P (b ++ e) = P b) ->
  (forall b c n, P b = Ok (c, n) -> 0 < n /\ n <= blen b) ->
  forall parse, (forall b, parse b = match P b with
                                       | Ok (c, n) => if b_herr c then (if b_cmdtype c =? bolt_CmdTypeRequest then PErrReply c (N.to_nat n) else PErr)
                                                       else POk c (N.to_nat n)
                                       | NeedMore => PNeedMore | _ => PErr end) ->
  stable parse.
Proof.
  intros Hext Hok parse Hp. constructor.
  - intros b f n H. rewrite Hp in H. destruct (P b) as [[c m]| | | |] eqn:E; try discriminate.
    destruct (b_herr c) eqn:Eh; [destruct (b_cmdtype c =? bolt_CmdTypeRequest); discriminate|]. inversion H; subst.
    split; [apply Hok in E; unfold blen in E; lia|].
    intros e. rewrite Hp, Hext by congruence. rewrite E, Eh. reflexivity.
  - intros b H e. rewrite Hp in *. destruct (P b) as [[c m]| | | |] eqn:E; try discriminate;
      rewrite Hext by congruence; rewrite E; try reflexivity. exact H.
  - intros b f n H. rewrite Hp in H. destruct (P b) as [[c m]| | | |] eqn:E; try discriminate.
    destruct (b_herr c) eqn:Eh; [|discriminate].
    destruct (b_cmdtype c =? bolt_CmdTypeRequest) eqn:Et; [|discriminate]. inversion H; subst.
    split; [apply Hok in E; unfold blen in E; lia|].
    intros e. rewrite Hp, Hext by congruence. rewrite E, Eh, Et. reflexivity.
Qed.

Lemma bolt_parse_eq b : bolt_parse b = match sw_pure xp_hdr_checked b with
   | Ok (c, n) => if b_herr c then (if b_cmdtype c =? bolt_CmdTypeRequest then PErrReply c (N.to_nat n) else PErr) else POk c (N.to_nat n)
   | NeedMore => PNeedMore | _ => PErr end.
Proof.
  unfold bolt_parse, to_presult, bolt_decode. rewrite sw_res. cbn [view_of vb].
  destruct (sw_pure xp_hdr_checked b) as [[c n]| | | |]; reflexivity.
Qed.
Lemma boltv2_parse_eq b : boltv2_parse b = match sw2_pure xp_hdr_checked b with
   | Ok (c, n) => if b_herr c then (if b_cmdtype c =? bolt_CmdTypeRequest then PErrReply c (N.to_nat n) else PErr) else POk c (N.to_nat n)
   | NeedMore => PNeedMore | _ => PErr end.
Proof.
  unfold boltv2_parse, to_presult, boltv2_decode. rewrite sw2_res. cbn [view_of vb].
  destruct (sw2_pure xp_hdr_checked b) as [[c n]| | | |]; reflexivity.
Qed.

Theorem bolt_parse_stable : stable bolt_parse.
Proof. eapply to_presult_stable; [apply sw_pure_ext|apply sw_pure_ok|apply bolt_parse_eq]. Qed.
Theorem boltv2_parse_stable : stable boltv2_parse.
Proof. eapply to_presult_stable; [apply sw2_pure_ext|apply sw2_pure_ok|apply boltv2_parse_eq]. Qed.

Theorem bolt_family_parse b x r : b = x :: r -> x = bolt_ProtocolCode \/ x = boltv2_ProtocolCode ->
  boltv2_parse b = bolt_parse b.
Proof. intros H1 H2. rewrite bolt_parse_eq, boltv2_parse_eq. now rewrite (family_agree _ b x r H1 H2). Qed.

(* with the length gate in front of the version switch (bolt_gate_first = true, not the code in the tree) the boltv2 entry
   does not extract a complete 20-byte v1 response that the bolt entry extracts *)
Lemma gate_first_breaks_family :
  let hb := [1;0;0;0;1; 0;0;0;7; 1; 0;0; 0;0; 0;0; 0;0;0;0] in
  res (boltv2_decode_sw true true (view_of hb)) = NeedMore /\
  (exists c, res (bolt_decode_sw true true (view_of hb)) = Ok (c, 20)) /\
  (exists c, res (boltv2_decode (view_of hb)) = Ok (c, 20)).
Proof. vm_compute. split; [reflexivity|split; eexists; reflexivity]. Qed.
