From Coq Require Import List Arith Bool.
From MV Require Import Model.Subset Model.HostUpdate.
Import ListNotations.

Theorem update_exact_never : update_exact_statement ReuseNever.
Proof. intros published cfgs. unfold update_hosts, build_hosts. rewrite map_id. reflexivity. Qed.

Theorem update_exact_of_mode : forall md, md = ReuseNever -> update_exact_statement md.
Proof. intros md ->. exact update_exact_never. Qed.

(* hence after any history of updates the published set is the last update, first occurrence per address *)
Theorem last_update_wins : forall updates cfgs,
  run_updates ReuseNever (updates ++ [cfgs]) = dedup_cfg [] cfgs.
Proof. intros. unfold run_updates. rewrite fold_left_app. cbn. apply update_exact_never. Qed.

(* the labels-subset shortcut: address 1 published with {k1=1}, then re-published with {k1=1, k2=2}: the old object (and
   its old labels) stays *)
Theorem labels_subset_shortcut_refuted : ~ update_exact_statement ReuseIfLabelsSubset.
Proof.
  intros H.
  specialize (H [mkCfg 1 [(1, 1)] 1 0 false] [mkCfg 1 [(1, 1); (2, 2)] 1 0 false]). vm_compute in H. discriminate.
Qed.
