(* filterHosts of the pre-indexed builder: the ALL-pairs shape is the intersection over all pairs, so the theorems of
   Proofs/Subset.v hold for the builder with the shape read from the source; the skip-unknown shape is refuted. *)
From Coq Require Import List Arith Bool Lia.
From MV Require Import Model.Subset Proofs.Subset.
Import ListNotations.

Lemma filter_true {A} (f : A -> bool) : forall l, (forall x, In x l -> f x = true) -> filter f l = l.
Proof.
  induction l as [|x l IH]; intros H; cbn; auto. rewrite (H x (or_introl eq_refl)). f_equal. apply IH.
  intros y Hy; apply H; right; auto.
Qed.

Lemma filter_nil {A} (f : A -> bool) : forall l, (forall x, In x l -> f x = false) -> filter f l = [].
Proof.
  induction l as [|x l IH]; intros H; cbn; auto. rewrite (H x (or_introl eq_refl)). apply IH.
  intros y Hy; apply H; right; auto.
Qed.

Lemma filter_ix_all : forall hs kvs, filter_hosts_ix FHAllPairs hs kvs = filter_hosts hs kvs.
Proof.
  intros hs kvs. unfold filter_hosts_ix, filter_hosts. destruct kvs as [|p kvs].
  - symmetry. apply filter_true. intros; reflexivity.
  - destruct (forallb (pair_known hs) (p :: kvs)) eqn:E; auto.
    symmetry. apply filter_nil. intros h Hh. destruct (host_matches (p :: kvs) h) eqn:M; auto.
    exfalso. assert (forallb (pair_known hs) (p :: kvs) = true); [|congruence].
    apply forallb_forall. intros q Hq. unfold pair_known. apply existsb_exists. exists h. split; auto.
    unfold host_matches in M. rewrite forallb_forall in M. auto.
Qed.

Lemma build2x_all : forall hs sels, build2x FHAllPairs hs sels = build2 hs sels.
Proof.
  intros hs sels. unfold build2x, build2. apply fold_left_ext. intros t keys.
  unfold b2x_selector, b2_selector. destruct keys; auto. apply fold_left_ext. intros t' kvs.
  rewrite filter_ix_all. reflexivity.
Qed.

Lemma make2x_all : forall hs sels pol dflt, make2x FHAllPairs hs sels pol dflt = make2 hs sels pol dflt.
Proof.
  intros. unfold make2x, make2. rewrite build2x_all. f_equal. destruct pol; cbn; auto. rewrite filter_ix_all; auto.
Qed.

Theorem builders_equiv_x : forall m, m = FHAllPairs -> forall hs sels pol dflt, NoDup (map sid hs) -> forall crit,
  host_num (make1 hs sels pol dflt) crit = host_num (make2x m hs sels pol dflt) crit /\
  is_exists (make1 hs sels pol dflt) crit = is_exists (make2x m hs sels pol dflt) crit /\
  (forall inner, choose_host inner (make1 hs sels pol dflt) crit = choose_host inner (make2x m hs sels pol dflt) crit) /\
  choose_set (make1 hs sels pol dflt) crit = choose_set (make2x m hs sels pol dflt) crit.
Proof. intros m -> hs sels pol dflt Hnd crit. rewrite make2x_all. apply builders_equiv; auto. Qed.

Theorem fallback_exact2x : forall m, m = FHAllPairs -> forall inner hs sels pol dflt crit,
  (match first_try (make2x m hs sels pol dflt) crit with Some l => inner l | None => None end) = None ->
  choose_host inner (make2x m hs sels pol dflt) crit =
    match pol with
    | NoFallBack => None
    | AnyEndPoint => inner hs
    | DefaultSubset => inner (filter (host_matches dflt) hs)
    end.
Proof.
  intros m -> inner hs sels pol dflt crit H. rewrite make2x_all in *. rewrite (fallback_exact2 inner hs sels pol dflt crit H).
  reflexivity.
Qed.

Theorem sound2x : forall m, m = FHAllPairs -> forall inner, (forall l h, inner l = Some h -> In h l) ->
  forall hs sels pol dflt c l h, NoDup (map sid hs) ->
  first_try (make2x m hs sels pol dflt) (Some c) = Some l -> inner l = Some h ->
  choose_host inner (make2x m hs sels pol dflt) (Some c) = Some h /\ In h hs /\
  (forall k v, In (k, v) c -> lookup k (smeta h) = Some v).
Proof. intros m -> inner Hin hs sels pol dflt c l h. rewrite make2x_all. apply sound2; auto. Qed.

(* the skip-unknown shape: default subset {k1=1, k2=9} where no host carries k2=9: the pre-indexed fallback keeps the
   k1=1 host, the filtering builder's fallback is empty *)
Definition fh_equiv_statement (m : fh_shape) : Prop :=
  forall hs sels pol dflt, NoDup (map sid hs) -> forall crit,
  host_num (make1 hs sels pol dflt) crit = host_num (make2x m hs sels pol dflt) crit.

Theorem skip_unknown_refuted : ~ fh_equiv_statement FHSkipUnknown.
Proof.
  intros H.
  specialize (H [mkSH 0 [(1, 1)] true; mkSH 1 [(1, 2)] true] [[1]] DefaultSubset [(1, 1); (2, 9)]).
  assert (Hnd : NoDup (map sid [mkSH 0 [(1, 1)] true; mkSH 1 [(1, 2)] true])).
  { repeat constructor; cbn; intuition discriminate. }
  specialize (H Hnd (Some [(1, 3)])). vm_compute in H. discriminate.
Qed.
