(* Proofs/HpackTotal.v (group h2): the HPACK decoder is total on EVERY byte string and every decoder
   state: it never panics, the parse loop needs at most one iteration per buffered byte (the fuel
   `length buf` is never exhausted), and every representation consumes at least one byte. (C08 part) *)
From Coq Require Import List NArith ZArith Arith Lia Bool.
From Coq Require Import ZifyBool ZifyNat ZifyN.
From MV Require Import Lib.HBits Gen.HpackTables Gen.H2Src Model.Hpack
  Proofs.HpackInt Proofs.HpackHuffman Proofs.HpackString Proofs.HpackRepr.
Import ListNotations.
Open Scope N_scope.

Lemma nth_some_lt' : forall {A} (l : list A) n x, nth_error l n = Some x -> (n < length l)%nat.
Proof. intros A l n x H. apply nth_error_Some. rewrite H. discriminate. Qed.

Definition good {A} (x : hout A) : Prop := x <> HPanic /\ x <> HFuel.

Lemma good_ok : forall {A} (a : A), good (HOk a).
Proof. split; discriminate. Qed.
Lemma good_err : forall {A} e, good (@HErr A e).
Proof. split; discriminate. Qed.
Lemma good_more : forall {A}, good (@HNeedMore A).
Proof. split; discriminate. Qed.

Lemma good_bind : forall {A B} (x : hout A) (f : A -> hout B),
  good x -> (forall a, x = HOk a -> good (f a)) -> good (hbind x f).
Proof.
  intros A B x f [H1 H2] Hf. destruct x; cbn [hbind]; try (split; discriminate); try contradiction.
  apply Hf. reflexivity.
Qed.

Lemma call_emit_good : forall st f rest, good (call_emit st f rest).
Proof. intros. unfold call_emit. destruct (_ && _); [apply good_err | apply good_ok]. Qed.

Lemma parse_indexed_good : forall st buf, good (parse_indexed st buf).
Proof.
  intros st buf. unfold parse_indexed. apply good_bind; [apply dec_int_no_panic; lia|].
  intros r _. rewrite tab_at_lookup. cbn [hbind]. destruct (tab_lookup (d_tab st) (fst r)); [apply call_emit_good | apply good_err].
Qed.

Lemma parse_literal_good : forall k st buf, good (parse_literal k st buf).
Proof.
  intros k st buf. unfold parse_literal. apply good_bind; [apply dec_int_no_panic; apply kind_prefix_range|].
  intros r _. apply good_bind.
  - destruct (0 <? fst r).
    + rewrite tab_at_lookup. cbn [hbind]. destruct (tab_lookup (d_tab st) (fst r)); [apply good_ok | apply good_err].
    + apply dec_string_no_panic.
  - intros nr _. apply good_bind; [apply dec_string_no_panic|]. intros vr _. apply call_emit_good.
Qed.

Lemma parse_size_update_good : forall st buf, good (parse_size_update st buf).
Proof.
  intros st buf. unfold parse_size_update. destruct (_ && _); [apply good_err|].
  apply good_bind; [apply dec_int_no_panic; lia|]. intros r _.
  destruct (dt_allowed (d_tab st) <? fst r); [apply good_err | apply good_ok].
Qed.

(* parseHeaderFieldRepr on a non-empty buffer never panics *)
Lemma parse_repr_good : forall st buf, buf <> [] -> good (parse_repr st buf).
Proof.
  intros st buf Hne. unfold parse_repr. destruct buf as [|b r]; [contradiction|].
  destruct (128 <=? b); [apply parse_indexed_good|].
  destruct (64 <=? b); [apply parse_literal_good|].
  destruct (b <? 16); [apply parse_literal_good|].
  destruct (b <? 32); [apply parse_literal_good|].
  destruct (b <? 64); [apply parse_size_update_good | apply good_err].
Qed.

(* every successfully parsed representation consumed at least one byte; the rest is a suffix *)
Definition consumes (buf rest : bytes) : Prop := exists used, buf = used ++ rest /\ (0 < length used)%nat.

Lemma consumes_trans : forall a b c, consumes a b -> (b = c \/ consumes b c) -> consumes a c.
Proof.
  intros a b c [u [Hu Hl]] [E | [u2 [Hu2 Hl2]]].
  - subst. exists u. auto.
  - subst. exists (u ++ u2). rewrite <- app_assoc. split; [reflexivity | rewrite app_length; lia].
Qed.

Lemma call_emit_rest : forall st f rest r, call_emit st f rest = HOk r -> snd r = rest.
Proof. intros st f rest r H. unfold call_emit in H. destruct (_ && _); [discriminate|]. inversion H. reflexivity. Qed.

Lemma parse_repr_consumes : forall st buf r, parse_repr st buf = HOk r -> consumes buf (snd r).
Proof.
  intros st buf r H. unfold parse_repr in H. destruct buf as [|b tl]; [discriminate|].
  assert (Hidx : forall r, parse_indexed st (b :: tl) = HOk r -> consumes (b :: tl) (snd r)).
  { intros r0 H0. unfold parse_indexed in H0.
    destruct (dec_int 7 (b :: tl)) as [[i p1]| | | |] eqn:Ei; cbn [hbind] in H0; try discriminate.
    rewrite tab_at_lookup in H0. cbn [hbind fst snd] in H0.
    destruct (tab_lookup (d_tab st) i); [|discriminate].
    apply call_emit_rest in H0. rewrite H0. apply dec_int_suffix in Ei. exact Ei. }
  assert (Hlit : forall k r, parse_literal k st (b :: tl) = HOk r -> consumes (b :: tl) (snd r)).
  { intros k r0 H0. unfold parse_literal in H0.
    destruct (dec_int (kind_prefix k) (b :: tl)) as [[i p1]| | | |] eqn:Ei; cbn [hbind fst snd] in H0; try discriminate.
    apply dec_int_suffix in Ei.
    destruct (0 <? i).
    - rewrite tab_at_lookup in H0. cbn [hbind] in H0.
      destruct (tab_lookup (d_tab st) i); cbn [hbind fst snd] in H0; [|discriminate].
      destruct (dec_string (d_maxstr st) (d_emit st || kind_indexed k) p1) as [[v p2]| | | |] eqn:Ev; cbn [hbind fst snd] in H0; try discriminate.
      apply call_emit_rest in H0. rewrite H0. apply dec_string_suffix in Ev.
      eapply consumes_trans; [exact Ei | right; exact Ev].
    - destruct (dec_string (d_maxstr st) (d_emit st || kind_indexed k) p1) as [[n p2]| | | |] eqn:En; cbn [hbind fst snd] in H0; try discriminate.
      destruct (dec_string (d_maxstr st) (d_emit st || kind_indexed k) p2) as [[v p3]| | | |] eqn:Ev; cbn [hbind fst snd] in H0; try discriminate.
      apply call_emit_rest in H0. rewrite H0. apply dec_string_suffix in En. apply dec_string_suffix in Ev.
      eapply consumes_trans; [exact Ei | right; eapply consumes_trans; [exact En | right; exact Ev]]. }
  destruct (128 <=? b); [apply Hidx; exact H|].
  destruct (64 <=? b); [eapply Hlit; exact H|].
  destruct (b <? 16); [eapply Hlit; exact H|].
  destruct (b <? 32); [eapply Hlit; exact H|].
  destruct (b <? 64); [|discriminate].
  unfold parse_size_update in H. destruct (_ && _); [discriminate|].
  destruct (dec_int 5 (b :: tl)) as [[i p1]| | | |] eqn:Ei; cbn [hbind fst snd] in H; try discriminate.
  destruct (dt_allowed (d_tab st) <? i); [discriminate|]. inversion H. cbn [snd]. apply dec_int_suffix in Ei. exact Ei.
Qed.

Definition wgood (w : wres) : Prop := w <> WPanic /\ w <> WFuel.

(* the loop of Write: with fuel = length of the buffer it never runs out and never panics *)
Theorem dec_loop_total : forall multi fuel st buf acc, (length buf <= fuel)%nat ->
  wgood (snd (dec_loop_gen multi fuel st buf acc)).
Proof.
  intros multi fuel. induction fuel as [|fuel IH]; intros st buf acc Hl.
  - destruct buf; [cbn; split; discriminate | cbn in Hl; lia].
  - destruct buf as [|b tl]; [cbn; split; discriminate|].
    cbn [dec_loop_gen].
    destruct (parse_repr_good st (b :: tl) ltac:(discriminate)) as [Hp Hf].
    destruct (parse_repr st (b :: tl)) as [r| | e | |] eqn:Er; try contradiction.
    + apply IH. apply parse_repr_consumes in Er as [u [Hu Hlu]].
      assert (length (b :: tl) = length u + length (snd r))%nat by (rewrite Hu, app_length; reflexivity).
      lia.
    + destruct (_ && _); cbn; split; discriminate.
    + cbn. split; discriminate.
Qed.

(* Decoder.Write and Decoder.Close on arbitrary input and state *)
Theorem dec_write_total : forall st p, wgood (snd (dec_write st p)).
Proof.
  intros st p. unfold dec_write. destruct p as [|b tl]; [cbn; split; discriminate|].
  unfold dec_loop. apply dec_loop_total. lia.
Qed.

Theorem dec_close_total : forall st, wgood (snd (dec_close st)).
Proof. intro st. unfold dec_close. destruct (d_save st); cbn; split; discriminate. Qed.

Theorem dec_block_total : forall st p, wgood (snd (dec_block st p)).
Proof.
  intros st p. unfold dec_block. pose proof (dec_write_total st p) as Hw.
  destruct (snd (dec_write st p)) eqn:E; try (rewrite E; exact Hw).
  cbn [snd]. apply dec_close_total.
Qed.

(* what Write buffers (saveBuf) is bounded by what has arrived *)
Lemma dec_loop_save_bound : forall multi fuel st buf acc,
  (length (d_save (fst (fst (dec_loop_gen multi fuel st buf acc)))) <= Nat.max (length (d_save st)) (length buf))%nat.
Proof.
  intros multi fuel. induction fuel as [|fuel IH]; intros st buf acc.
  - destruct buf; cbn; lia.
  - destruct buf as [|b tl]; [cbn; lia|]. cbn [dec_loop_gen].
    destruct (parse_repr st (b :: tl)) as [r| | e | |] eqn:Er.
    + etransitivity; [apply IH|].
      pose proof (parse_repr_consumes _ _ _ Er) as [u [Hu Hlu]].
      assert (Hlen : (length (b :: tl) = length u + length (snd r))%nat) by (rewrite Hu, app_length; reflexivity).
      assert (Hs : d_save (fst (fst r)) = d_save st).
      { clear - Er. unfold parse_repr in Er. destruct (128 <=? b).
        - unfold parse_indexed in Er. destruct (dec_int 7 (b :: tl)) as [[i p1]| | | |]; cbn [hbind] in Er; try discriminate.
          destruct (tab_at (d_tab st) (fst (i, p1))) as [[e|]| | | |]; cbn [hbind] in Er; try discriminate.
          unfold call_emit in Er. destruct (_ && _); [discriminate|]. inversion Er. reflexivity.
        - assert (Hlit : forall k, parse_literal k st (b :: tl) = HOk r -> d_save (fst (fst r)) = d_save st).
          { intros k H. unfold parse_literal in H.
            destruct (dec_int (kind_prefix k) (b :: tl)) as [[i p1]| | | |]; cbn [hbind] in H; try discriminate.
            destruct (if 0 <? fst (i, p1) then _ else _) as [nr| | | |]; cbn [hbind] in H; try discriminate.
            destruct (dec_string (d_maxstr st) (d_emit st || kind_indexed k) (snd nr)) as [vr| | | |]; cbn [hbind] in H; try discriminate.
            unfold call_emit in H. destruct (_ && _); [discriminate|]. inversion H. cbn [fst].
            destruct (kind_indexed k); reflexivity. }
          destruct (64 <=? b); [eapply Hlit; exact Er|].
          destruct (b <? 16); [eapply Hlit; exact Er|].
          destruct (b <? 32); [eapply Hlit; exact Er|].
          destruct (b <? 64); [|discriminate].
          unfold parse_size_update in Er. destruct (_ && _); [discriminate|].
          destruct (dec_int 5 (b :: tl)) as [[i p1]| | | |]; cbn [hbind] in Er; try discriminate.
          destruct (dt_allowed (d_tab st) <? fst (i, p1)); [discriminate|]. inversion Er. reflexivity. }
      assert (Hs2 : d_save (if multi && is_size_update (b :: tl) then fst (fst r) else d_with_first (fst (fst r)) false) = d_save st).
      { destruct (multi && is_size_update (b :: tl)); [exact Hs | cbn; exact Hs]. }
      rewrite Hs2. lia.
    + destruct (_ && _); cbn [fst d_save d_with_save]; lia.
    + destruct (multi && is_size_update (b :: tl)); cbn; lia.
    + cbn; lia.
    + cbn; lia.
Qed.

(* the variant of Decoder.at that tests the range after the conversion to int panics on indexes 2^63+61 .. 2^63+126
   (the integers readVarInt still accepts beyond 2^63), whatever the table *)
Lemma tab_at_int_cmp_panics : forall t k, 61 <= k <= 126 ->
  static_len = 61 -> tab_at_gen false t (9223372036854775808 + k) = HPanic.
Proof.
  intros t k Hk Hs. unfold tab_at_gen. rewrite Hs.
  assert (E0 : (9223372036854775808 + k =? 0) = false) by lia. rewrite E0.
  assert (E1 : (9223372036854775808 + k <=? 61) = false) by lia. rewrite E1.
  unfold go_int.
  assert (E2 : (9223372036854775808 + k <? 9223372036854775808) = false) by lia. rewrite E2.
  set (dl := N.of_nat (length (dt_ents t))).
  assert (E3 : (Z.of_N dl <? Z.of_N (9223372036854775808 + k) - 18446744073709551616 - Z.of_N 61)%Z = false) by lia.
  rewrite E3.
  unfold index_atZ.
  assert (E4 : (Z.of_N dl - (Z.of_N (9223372036854775808 + k) - 18446744073709551616 - Z.of_N 61) <? 0)%Z = false) by lia.
  rewrite E4. unfold index_at.
  destruct (nth_error (dt_ents t) _) eqn:En; [|reflexivity].
  exfalso. apply nth_some_lt' in En. subst dl. lia.
Qed.
