(* Proofs/ConfigRTFull.v (cfg, C19) - the round trip through hooked structs. *)
From Coq Require Import List String Bool ZArith NArith Lia.
From MV Require Import Lib.GoJson Lib.GoJsonFacts Gen.CfgTypes Model.ConfigRT Proofs.ConfigRT.
Import ListNotations.
Open Scope string_scope.
Open Scope list_scope.

(* ================================================================================================ *)
(* A. field access by index                                                                          *)
(* ================================================================================================ *)
Lemma nth_set_nth_same {A} (x y : A) : forall l i, nth_error l i = Some y -> nth_error (set_nth i x l) i = Some x.
Proof. induction l as [|z l IH]; intros [|i] H; cbn in *; try discriminate; [reflexivity|apply IH; exact H]. Qed.
Lemma nth_set_nth_other {A} (x : A) : forall l i j, i <> j -> nth_error (set_nth i x l) j = nth_error l j.
Proof.
  induction l as [|z l IH]; intros i j H.
  - destruct i; reflexivity.
  - destruct i as [|i]; destruct j as [|j]; cbn; try reflexivity; try congruence. apply IH. congruence.
Qed.
Lemma set_nth_same {A} (x : A) : forall l i, nth_error l i = Some x -> set_nth i x l = l.
Proof.
  induction l as [|z l IH]; intros [|i] H; cbn in *; try discriminate.
  - inversion H; subst. reflexivity.
  - f_equal. apply IH. exact H.
Qed.
Lemma set_nth_length {A} (x : A) : forall l i, List.length (set_nth i x l) = List.length l.
Proof. induction l as [|z l IH]; intros [|i]; cbn; try reflexivity. f_equal. apply IH. Qed.

Lemma iget1 i v x : iget [i] v = Some x <-> exists vs, v = VStruct vs /\ nth_error vs i = Some x.
Proof.
  cbn. split.
  - destruct v; try discriminate. destruct (nth_error fs i) eqn:E; [|discriminate]. intros H; inversion H; subst. eauto.
  - intros [vs [-> H]]. rewrite H. reflexivity.
Qed.

Lemma iget_iset_same i x y v : iget [i] v = Some y -> iget [i] (iset [i] x v) = Some x.
Proof.
  intros H. apply iget1 in H. destruct H as [vs [-> H]]. cbn. rewrite H. cbn.
  rewrite (nth_set_nth_same x y vs i H). reflexivity.
Qed.
Lemma iget_iset_other i j p q x v : i <> j -> iget (j :: p) (iset (i :: q) x v) = iget (j :: p) v.
Proof.
  intros Hne. cbn. destruct v; try reflexivity.
  destruct (nth_error fs i) as [y|] eqn:E; [|reflexivity].
  cbn. rewrite (nth_set_nth_other _ fs i j Hne). reflexivity.
Qed.
Lemma iget_iset_below X i y v s : iget [X] v = Some s -> iget [X] (iset [X; i] y v) = Some (iset [i] y s).
Proof.
  intros H. apply iget1 in H. destruct H as [vs [-> H]]. cbn [iset]. rewrite H. cbn [iget].
  rewrite (nth_set_nth_same _ s vs X H). reflexivity.
Qed.
Lemma iset_noop i x s : iget [i] s = Some x -> iset [i] x s = s.
Proof. intros H. apply iget1 in H. destruct H as [vs [-> H]]. cbn. rewrite H. cbn. rewrite (set_nth_same x vs i H). reflexivity. Qed.
Lemma iset_missing i y s : iget [i] s = None -> iset [i] y s = s.
Proof. cbn. destruct s; try reflexivity. destruct (nth_error fs i); [discriminate|reflexivity]. Qed.
Lemma iset2_missing X i y v : iget [X] v = None -> iset [X; i] y v = v.
Proof. cbn. destruct v; try reflexivity. destruct (nth_error fs X); [discriminate|reflexivity]. Qed.
Lemma iset_is_struct p x vs : exists vs', iset p x (VStruct vs) = VStruct vs' \/ p = [].
Proof. destruct p as [|i p]; [exists vs; right; reflexivity|]. cbn. destruct (nth_error vs i); eexists; left; reflexivity. Qed.
Lemma iget_struct_len X vs : X < List.length vs -> exists s, iget [X] (VStruct vs) = Some s.
Proof. intros H. cbn. destruct (nth_error vs X) eqn:E; [eauto|]. apply nth_error_None in E. lia. Qed.

(* ================================================================================================ *)
(* B. what loading the dump of a plain struct puts into each field                                   *)
(* ================================================================================================ *)
Lemma Forall2_nth {A B} (P : A -> B -> Prop) : forall l m i a b,
  Forall2 P l m -> nth_error l i = Some a -> nth_error m i = Some b -> P a b.
Proof.
  induction l as [|x l IH]; intros m i a b H Ha Hb; destruct i; cbn in Ha; try discriminate; inversion H; subst; cbn in Hb; try discriminate.
  - inversion Ha; inversion Hb; subst. assumption.
  - eapply IH; eauto.
Qed.
Lemma Forall2_nth_ex {A B} (P : A -> B -> Prop) : forall l m i a,
  Forall2 P l m -> nth_error l i = Some a -> exists b, nth_error m i = Some b /\ P a b.
Proof.
  induction l as [|x l IH]; intros m i a H Ha; destruct i; cbn in Ha; try discriminate; inversion H; subst.
  - inversion Ha; subst. eexists; split; [reflexivity|assumption].
  - cbn. eapply IH; eauto.
Qed.
Lemma Forall2_length {A B} (P : A -> B -> Prop) l m : Forall2 P l m -> List.length l = List.length m.
Proof. induction 1; cbn; congruence. Qed.

Lemma fuel_free_member : forall (O : list (string * json)) name x,
  fuel_free (JObj O) = true -> lookup_member O name None = Some x -> fuel_free x = true.
Proof.
  intros O name x Hff.
  assert (Hffs : Forall (fun kv : string * json => fuel_free (snd kv) = true) O).
  { cbn in Hff. induction O as [|[k y] O IHO]; [constructor|]. apply andb_true_iff in Hff. destruct Hff. constructor; auto. }
  assert (G : forall acc, (forall y, acc = Some y -> fuel_free y = true) -> lookup_member O name acc = Some x -> fuel_free x = true).
  { clear Hff. induction O as [|[k y] O IHO]; intros acc0 Hacc H; cbn in H; [apply Hacc; exact H|].
    inversion Hffs; subst. eapply IHO; [assumption| |exact H].
    intros z Hz. destruct (key_eq k name); [inversion Hz; subst; assumption|apply Hacc; exact Hz]. }
  intros H. eapply (G None); [intros y Hy; discriminate Hy|exact H].
Qed.

(* w : a value of a plain struct; sub : the load of its dump.  Field by field: an omitted field is reloaded as the zero
   value, a printed one as the load of what was printed (which is fuel-free). *)
Lemma decode_plain_fields T tn tsd ws f0 f0' sub :
  find_struct T tn = Some tsd -> plain_struct tsd = true -> struct_ok tsd = true ->
  List.length (s_fields tsd) = List.length ws ->
  fuel_free (encode T (S f0) (TNamed tn) (VStruct ws)) = true ->
  decode T (S f0') (TNamed tn) (encode T (S f0) (TNamed tn) (VStruct ws)) = Some sub ->
  exists ss, sub = VStruct ss /\ List.length ss = List.length ws /\
    forall i fd wi, nth_error (s_fields tsd) i = Some fd -> nth_error ws i = Some wi ->
      exists si, nth_error ss i = Some si /\
        (if omitted fd wi then si = zero_val T f0' (f_ty fd)
         else decode T f0' (f_ty fd) (encode T f0 (f_ty fd) wi) = Some si /\ fuel_free (encode T f0 (f_ty fd) wi) = true).
Proof.
  intros Hs Hp Hok Hl Hff Hd.
  pose proof (plain_compiled T tsd Hp) as Hc.
  destruct (plain_hooks tsd Hp) as [_ [_ Hvis]].
  unfold struct_ok in Hok. apply andb_true_iff in Hok. destruct Hok as [Hnd _].
  cbn [encode] in *. rewrite Hs, Hc in *. cbn [decode] in Hd. rewrite Hs in Hd. cbv zeta in Hd. rewrite Hc in Hd.
  set (O := enc_fields (encode T f0) (s_fields tsd) ws) in *.
  destruct (sequence _) as [ss|] eqn:Eseq; cbn in Hd; [|discriminate]. inversion Hd; subst sub. clear Hd.
  apply sequence_map in Eseq.
  pose proof (lookup_enc_fields (encode T f0) (s_fields tsd) ws Hvis Hnd Hl) as Hlook. fold O in Hlook.
  exists ss. split; [reflexivity|]. split; [rewrite <- (Forall2_length _ _ _ Eseq); exact Hl|].
  intros i fd wi Hfd Hwi.
  destruct (Forall2_nth_ex _ _ _ i fd Eseq Hfd) as [si [Hsi Hdec]]. exists si. split; [exact Hsi|].
  pose proof (Forall2_nth _ _ _ i fd wi Hlook Hfd Hwi) as Hl0. cbn beta in Hl0.
  unfold omitted in *. destruct (f_skip fd) eqn:Es; cbn [orb] in *.
  - inversion Hdec; reflexivity.
  - specialize (Hl0 eq_refl). rewrite Hl0 in Hdec.
    destruct (f_omit fd && is_empty wi)%bool.
    + inversion Hdec; reflexivity.
    + split; [exact Hdec|]. eapply fuel_free_member; [exact Hff|exact Hl0].
Qed.

(* ================================================================================================ *)
(* C. shadow-field hooks: copy out, copy in                                                          *)
(* ================================================================================================ *)
Definition sh_in_step (sub : val) (acc : val) (p : nat * nat * coder) : val :=
  let '(i, H, c) := p in match iget [i] sub with Some x => iset [H] (c_in c x) acc | None => acc end.
Definition sh_out_step (X : nat) (v : val) (acc : val) (p : nat * nat * coder) : val :=
  let '(i, H, c) := p in match iget [H] v with Some h => iset [X; i] (c_out c h) acc | None => acc end.

Lemma sh_in_eq sh z sub : sh_in sh z sub = fold_left (sh_in_step sub) (sh_pairs sh) (iset [sh_tgt sh] sub z).
Proof. reflexivity. Qed.
Lemma sh_out_eq sh v : sh_out sh v = iget [sh_tgt sh] (fold_left (sh_out_step (sh_tgt sh) v) (sh_pairs sh) v).
Proof. reflexivity. Qed.

Definition hid (p : nat * nat * coder) : nat := snd (fst p).
Definition slot (p : nat * nat * coder) : nat := fst (fst p).

(* copy-in leaves every field other than the hidden ones of the list alone *)
Lemma fold_in_other sub l : forall acc j q,
  Forall (fun p => hid p <> j) l -> iget (j :: q) (fold_left (sh_in_step sub) l acc) = iget (j :: q) acc.
Proof.
  induction l as [|[[i H] c] l IH]; intros acc j q Hf; cbn [fold_left]; [reflexivity|].
  inversion Hf; subst. rewrite IH by assumption. unfold sh_in_step.
  destruct (iget [i] sub); [|reflexivity]. apply iget_iset_other. exact H2.
Qed.

(* ... and puts in_c(slot) into each hidden field (when both exist) *)
Lemma fold_in_hidden sub l : forall acc i H c x,
  NoDup (map hid l) -> In (i, H, c) l -> iget [i] sub = Some x ->
  iget [H] (fold_left (sh_in_step sub) l acc) = Some (c_in c x) \/ iget [H] (fold_left (sh_in_step sub) l acc) = None.
Proof.
  induction l as [|[[i0 H0] c0] l IH]; intros acc i H c x Hnd Hin Hx; [contradiction|].
  cbn [fold_left]. cbn in Hnd. inversion Hnd as [|? ? Hnotin Hnd']; subst.
  destruct Hin as [Heq|Hin].
  - inversion Heq; subst. rewrite fold_in_other.
    + unfold sh_in_step. rewrite Hx.
      destruct (iget [H] acc) as [y|] eqn:E.
      * left. eapply iget_iset_same; eauto.
      * right. rewrite iset_missing by exact E. exact E.
    + apply Forall_forall. intros p Hp Hc. apply Hnotin. apply in_map_iff. exists p. split; [exact Hc|exact Hp].
  - eapply IH; eauto.
Qed.

Lemma fold_in_struct sub l : forall vs, exists vs', fold_left (sh_in_step sub) l (VStruct vs) = VStruct vs' /\ List.length vs' = List.length vs.
Proof.
  induction l as [|[[i H] c] l IH]; intros vs; cbn [fold_left]; [eauto|].
  unfold sh_in_step. destruct (iget [i] sub); [|apply IH].
  cbn [iset]. destruct (nth_error vs H); [|apply IH].
  destruct (IH (set_nth H (c_in c v) vs)) as [vs' [E L]]. exists vs'. split; [exact E|]. rewrite L. apply set_nth_length.
Qed.

(* copy-out keeps the target when every slot already holds out_c(hidden) *)
Lemma fold_out_keep X v sub l : forall acc,
  iget [X] acc = Some sub ->
  Forall (fun p => forall h, iget [hid p] v = Some h ->
                   forall x, iget [slot p] sub = Some x -> c_out (snd p) h = x) l ->
  iget [X] (fold_left (sh_out_step X v) l acc) = Some sub.
Proof.
  induction l as [|[[i H] c] l IH]; intros acc Ha Hf; cbn [fold_left]; [exact Ha|].
  inversion Hf as [|? ? Hp Hf']; subst. apply IH; [|exact Hf'].
  unfold sh_out_step. destruct (iget [H] v) as [h|] eqn:Eh; [|exact Ha].
  rewrite (iget_iset_below X i _ acc sub Ha). f_equal.
  destruct (iget [i] sub) as [x|] eqn:Ex.
  - cbn in Hp. rewrite (Hp h Eh x Ex). apply iset_noop. exact Ex.
  - apply iset_missing. exact Ex.
Qed.

(* what copy-out puts into a slot *)
Lemma fold_out_slot X v l : forall acc s i H c h,
  NoDup (map slot l) -> In (i, H, c) l -> iget [H] v = Some h -> iget [X] acc = Some s ->
  exists s', iget [X] (fold_left (sh_out_step X v) l acc) = Some s' /\
             (iget [i] s' = Some (c_out c h) \/ iget [i] s' = None).
Proof.
  induction l as [|[[i0 H0] c0] l IH]; intros acc s i H c h Hnd Hin Hh Ha; [contradiction|].
  cbn [fold_left]. cbn in Hnd. inversion Hnd as [|? ? Hnotin Hnd']; subst.
  destruct Hin as [Heq|Hin].
  - inversion Heq; subst. unfold sh_out_step at 2. rewrite Hh.
    pose proof (iget_iset_below X i (c_out c h) acc s Ha) as Hb.
    (* the remaining steps do not touch slot i *)
    assert (G : forall l' acc' s', Forall (fun p => slot p <> i) l' -> iget [X] acc' = Some s' ->
               exists s'', iget [X] (fold_left (sh_out_step X v) l' acc') = Some s'' /\ iget [i] s'' = iget [i] s').
    { induction l' as [|[[i1 H1] c1] l' IH']; intros acc' s' Hf Ha'; cbn [fold_left]; [eauto|].
      inversion Hf; subst. unfold sh_out_step at 2. destruct (iget [H1] v) as [h1|]; [|apply IH'; assumption].
      destruct (IH' (iset [X; i1] (c_out c1 h1) acc') (iset [i1] (c_out c1 h1) s')) as [s'' [E1 E2]]; [assumption|apply iget_iset_below; exact Ha'|].
      exists s''. split; [exact E1|]. rewrite E2. apply iget_iset_other. cbn in H3. exact H3. }
    destruct (G l _ _ (proj2 (Forall_forall _ _) (fun p Hp Hc => Hnotin (proj2 (in_map_iff slot l i) (ex_intro _ p (conj Hc Hp))))) Hb) as [s'' [E1 E2]].
    exists s''. split; [exact E1|]. rewrite E2.
    destruct (iget [i] s) as [y|] eqn:Ey.
    + left. eapply iget_iset_same; eauto.
    + right. rewrite iset_missing by exact Ey. exact Ey.
  - unfold sh_out_step at 2. destruct (iget [H0] v) as [h0|].
    + eapply IH; eauto. apply iget_iset_below. exact Ha.
    + eapply IH; eauto.
Qed.

(* ================================================================================================ *)
(* D. the round trip over the whole graph                                                            *)
(* ================================================================================================ *)
Definition stable_full_at (T : table) (fuel : nat) (t : ty) (v : val) : Prop :=
  WF T t v -> ty_ok T t = true -> fuel_free (encode T fuel t v) = true ->
  forall fuel' v', decode T fuel' t (encode T fuel t v) = Some v' ->
    encode T fuel t v' = encode T fuel t v /\ (is_empty v = false -> is_empty v' = false).

Lemma table_ok2_inv T : table_ok2 T = true ->
  table_ok T = true /\ hooks_ok T = true /\
  (forall sd, In sd T -> forall fd, In fd (s_fields sd) -> ptr_hook_ok T (f_ty fd) = true).
Proof.
  unfold table_ok2. intros H. apply andb_true_iff in H. destruct H as [H H3]. apply andb_true_iff in H. destruct H as [H1 H2].
  repeat split; try assumption. intros sd Hsd fd Hfd.
  rewrite forallb_forall in H3. specialize (H3 sd Hsd). rewrite forallb_forall in H3. apply H3. exact Hfd.
Qed.

Lemma plain_struct_ok T sd : table_ok T = true -> In sd T -> plain_struct sd = true -> struct_ok sd = true.
Proof. unfold table_ok. intros HT Hin Hp. rewrite forallb_forall in HT. specialize (HT sd Hin). rewrite Hp in HT. exact HT. Qed.

Lemma hooked_not_plain T sd v : plain_struct sd = true -> hook_out T sd (hook_compiled T sd) v = None.
Proof. intros Hp. rewrite (plain_compiled T sd Hp). reflexivity. Qed.

Lemma zero_struct T f n sd : find_struct T n = Some sd ->
  zero_val T (S f) (TNamed n) = VStruct (map (fun fd => zero_val T f (f_ty fd)) (s_fields sd)).
Proof. intros H. cbn. rewrite H. reflexivity. Qed.

Ltac split_andb H :=
  repeat match type of H with
         | (_ && _)%bool = true => let H' := fresh "Hb" in apply andb_true_iff in H; destruct H as [H H']
         end.

Lemma plain_target_inv T t tsd : plain_target T t = Some tsd ->
  exists tn, t = TNamed tn /\ find_struct T tn = Some tsd /\ plain_struct tsd = true /\ struct_ok tsd = true.
Proof.
  unfold plain_target. destruct t; try discriminate. destruct (find_struct T n) as [s|] eqn:E; [|discriminate].
  destruct (plain_struct s && struct_ok s)%bool eqn:E2; [|discriminate]. intros H; inversion H; subst.
  apply andb_true_iff in E2. destruct E2. eauto.
Qed.

(* the hook target of a hooked struct, when it is a struct, is a plain struct *)
Lemma hook_target_plain T sd X tn : hook_ok T sd = true -> hook_tgt (hook_compiled T sd) = Some X ->
  field_ty sd X = TNamed tn -> exists tsd, find_struct T tn = Some tsd /\ plain_struct tsd = true /\ struct_ok tsd = true.
Proof.
  unfold hook_ok. intros H Ht Hty. destruct (hook_compiled T sd) eqn:Eh; cbn in Ht; try discriminate; inversion Ht; subst X.
  - split_andb H. rewrite Hty in *.
    destruct (plain_target T (TNamed tn)) as [tsd|] eqn:Ep; try discriminate.
    destruct (plain_target_inv _ _ _ Ep) as [tn' [E1 [E2 [E3 E4]]]]. inversion E1; subst. eauto.
  - split_andb H. rewrite Hty in *.
    destruct (plain_target T (TNamed tn)) as [tsd|] eqn:Ep; try discriminate.
    destruct (plain_target_inv _ _ _ Ep) as [tn' [E1 [E2 [E3 E4]]]]. inversion E1; subst. eauto.
  - split_andb H. rewrite Hty in *.
    destruct (plain_target T (TNamed tn)) as [tsd|] eqn:Ep; try discriminate.
    destruct (plain_target_inv _ _ _ Ep) as [tn' [E1 [E2 [E3 E4]]]]. inversion E1; subst. eauto.
  - split_andb H. rewrite Hty in *.
    destruct (plain_target T (TNamed tn)) as [tsd|] eqn:Ep; try discriminate.
    destruct (plain_target_inv _ _ _ Ep) as [tn' [E1 [E2 [E3 E4]]]]. inversion E1; subst. eauto.
Qed.

Lemma hooks_ok_at T n sd : hooks_ok T = true -> find_struct T n = Some sd -> s_mptr sd = false -> hook_ok T sd = true.
Proof.
  unfold hooks_ok. intros H Hf Hm. rewrite forallb_forall in H. specialize (H sd (find_struct_in _ _ _ Hf)).
  rewrite Hm in H. exact H.
Qed.

Lemma hook_out_ty T sd h v t2 w : hook_out T sd h v = Some (t2, w) -> exists X, hook_tgt h = Some X /\ t2 = field_ty sd X.
Proof.
  destruct h; cbn; try discriminate;
    match goal with |- option_map _ ?o = _ -> _ => destruct o; cbn; [|discriminate] end;
    intros H; inversion H; subst; eauto.
Qed.

(* a well-formed value of a plain struct prints as an object *)
Lemma encode_plain_obj T fuel tn tsd w : find_struct T tn = Some tsd -> plain_struct tsd = true -> WF T (TNamed tn) w ->
  exists O, encode T (S fuel) (TNamed tn) w = JObj O.
Proof.
  intros Hf Hp Hw. inversion Hw as [t v Hsh Hwf| | | |n sd vs Hfs Hp' Hfl|n sd vs t2 w2 Hfs Hout _ _ _ _|n sd j Hfs Hc Hj]; subst.
  - destruct w; cbn in Hwf; try discriminate; try contradiction.
  - cbn [encode]. rewrite Hfs, (plain_compiled T sd Hp'). eauto.
  - exfalso. rewrite Hf in Hfs. inversion Hfs; subst. rewrite (hooked_not_plain T sd _ Hp) in Hout. discriminate.
  - exfalso. rewrite Hf in Hfs. inversion Hfs; subst. rewrite (plain_compiled T sd Hp) in Hc. discriminate.
Qed.

(* a well-formed value of a non-nilable type never prints as null *)
Lemma encode_not_null_WF T : table_ok2 T = true -> forall fuel t v, WF T t v ->
  ptr_hook_ok T (TPtr t) = true -> fuel_free (encode T (S fuel) t v) = true ->
  match t with TPtr _ | TSlice _ | TMap _ | TAny | TRaw => True | _ => encode T (S fuel) t v <> JNull end.
Proof.
  intros HT fuel t v Hw Hph Hff. destruct (table_ok2_inv T HT) as [HT1 [HT2 _]].
  inversion Hw as [t0 v0 Hsh Hwf| | | |n sd vs Hfs Hp Hfl|n sd vs t2 w Hfs Hout Hside Hlen Hmp Hw2|n sd j Hfs Hc Hj]; subst; auto.
  - (* leaf *)
    destruct t; auto; destruct v; cbn in Hwf; try discriminate; try contradiction; cbn [encode]; try discriminate.
    destruct (String.eqb coder "text"); [discriminate|].
    unfold opaque_json. destruct (String.eqb n "api.DurationConfig"); [destruct (string_to_Z payload)|]; discriminate.
  - cbn [encode]. rewrite Hfs, (plain_compiled T sd Hp). discriminate.
  - (* hooked struct: the target is a plain struct *)
    destruct (hook_out_ty _ _ _ _ _ _ Hout) as [X [HX Ht2]].
    cbn [ptr_hook_ok] in Hph. rewrite Hfs, HX in Hph.
    destruct (field_ty sd X) as [| | | |tn|?|?|?| | |?] eqn:Ety; try discriminate. subst t2.
    destruct (hook_target_plain T sd X tn (hooks_ok_at T n sd HT2 Hfs Hmp) HX Ety) as [tsd [Hft [Hpt _]]].
    cbn [encode] in *. rewrite Hfs in *.
    destruct (hook_compiled T sd) eqn:Eh; try (cbn in HX; discriminate); rewrite Hout in *.
    all: destruct fuel as [|fuel]; [cbn in Hff; discriminate|].
    all: destruct (encode_plain_obj T fuel tn tsd w Hft Hpt Hw2) as [O HO]; rewrite HO; discriminate.
  - cbn [encode]. rewrite Hfs, Hc. assumption.
Qed.

(* ---- coders: out_c (in_c x) = x on what a reload puts into the slot *)
Lemma decode_opaque_not_int T f n j x : decode T f (TOpaque n) j = Some x -> match x with VInt _ => False | _ => True end.
Proof. destruct f; cbn; [discriminate|]. destruct j; intros H; inversion H; subst; exact I. Qed.
Lemma zero_opaque_not_int T f n : match zero_val T f (TOpaque n) with VInt _ => False | _ => True end.
Proof. destruct f; cbn; [exact I|]. destruct (String.prefix "iface:" n); exact I. Qed.
Lemma to_opaque_fix n x : match x with VInt _ => False | _ => True end -> to_opaque n x = x.
Proof. destruct x; cbn; try reflexivity. contradiction. Qed.

Lemma meta_fix_nil : c_out CMeta (c_in CMeta VNil) = VNil.
Proof. reflexivity. Qed.

Lemma meta_fix_image r e es : all_strings (e :: es) ->
  c_out CMeta (c_in CMeta (call_marshal_fn "metadataToConfig" (VRef r (e :: es)))) = call_marshal_fn "metadataToConfig" (VRef r (e :: es)).
Proof. intros H. apply (metadata_coder_law r (e :: es) H). Qed.

Lemma zero_ptr T f t' : zero_val T f (TPtr t') = VNil.
Proof. destruct f; reflexivity. Qed.

Lemma nodupb_NoDup l : nodupb l = true -> NoDup l.
Proof.
  induction l as [|a l IH]; [constructor|]. cbn. intros H. apply andb_true_iff in H. destruct H as [H1 H2].
  constructor; [|apply IH; exact H2]. intros Hin. apply negb_true_iff in H1.
  assert (E : existsb (Nat.eqb a) l = true) by (apply existsb_exists; exists a; split; [exact Hin|apply Nat.eqb_refl]). congruence.
Qed.

Definition pair_cond (tsd : sdesc) (p : nat * nat * coder) : Prop :=
  let '(i, _, c) := p in
  exists fd, nth_error (s_fields tsd) i = Some fd /\ f_skip fd = false /\
             match c with
             | CId (Some _) => exists n, f_ty fd = TOpaque n
             | CId None => True
             | CMeta => is_meta_slot (f_ty fd) = true
             end.

Lemma hook_ok_shadow T sd sh : hook_ok T sd = true -> hook_compiled T sd = CShadow sh ->
  sh_tgt sh < List.length (s_fields sd) /\
  NoDup (map hid (sh_pairs sh)) /\ NoDup (map slot (sh_pairs sh)) /\
  Forall (fun p => hid p <> sh_tgt sh /\ hid p < List.length (s_fields sd)) (sh_pairs sh) /\
  (sh_pairs sh <> [] -> exists tn tsd, field_ty sd (sh_tgt sh) = TNamed tn /\ find_struct T tn = Some tsd /\
                                       plain_struct tsd = true /\ struct_ok tsd = true /\ Forall (pair_cond tsd) (sh_pairs sh)).
Proof.
  unfold hook_ok. intros H Hc. rewrite Hc in H.
  apply andb_true_iff in H. destruct H as [H H8]. apply andb_true_iff in H. destruct H as [H H7].
  apply andb_true_iff in H. destruct H as [H H6]. apply andb_true_iff in H. destruct H as [H H5].
  apply andb_true_iff in H. destruct H as [H H4]. apply andb_true_iff in H. destruct H as [H H3].
  apply andb_true_iff in H. destruct H as [H1 H2].
  split; [apply Nat.ltb_lt; exact H1|].
  split; [apply nodupb_NoDup in H4; exact H4|].
  split; [apply nodupb_NoDup in H5; exact H5|].
  split.
  { apply Forall_forall. intros p Hp. rewrite forallb_forall in H6. specialize (H6 p Hp).
    apply andb_true_iff in H6. destruct H6 as [Ha Hb]. apply negb_true_iff in Ha. apply Nat.eqb_neq in Ha. apply Nat.ltb_lt in Hb.
    unfold hid. split; assumption. }
  intros Hne. destruct (sh_pairs sh) as [|p0 ps] eqn:Eps; [contradiction|].
  destruct (plain_target T (field_ty sd (sh_tgt sh))) as [tsd|] eqn:Ept; [|discriminate].
  destruct (plain_target_inv _ _ _ Ept) as [tn [E1 [E2 [E3 E4]]]].
  exists tn, tsd. repeat split; try assumption.
  apply Forall_forall. intros [[i Hh] c] Hp. rewrite forallb_forall in H8. specialize (H8 _ Hp). cbn beta iota in H8.
  unfold field_at in H8. destruct (nth_error (s_fields tsd) i) as [fd|] eqn:Efd; [|discriminate].
  apply andb_true_iff in H8. destruct H8 as [Hs Hct]. apply negb_true_iff in Hs.
  exists fd. repeat split; try assumption.
  destruct c as [[n|]|]; [|exact I|exact Hct].
  destruct (f_ty fd); try discriminate. eauto.
Qed.

(* ---- the shadow-field case *)
Lemma shadow_roundtrip T (HM : meta_rt T) sd sh vs w f0 f0' sub zs :
  hook_ok T sd = true -> hook_compiled T sd = CShadow sh ->
  List.length vs = List.length (s_fields sd) -> List.length zs = List.length (s_fields sd) ->
  sh_out sh (VStruct vs) = Some w -> shadow_side sh (VStruct vs) ->
  (forall tn tsd, field_ty sd (sh_tgt sh) = TNamed tn -> find_struct T tn = Some tsd -> plain_struct tsd = true -> struct_ok tsd = true ->
     sh_pairs sh <> [] ->
     exists ws, w = VStruct ws /\ List.length (s_fields tsd) = List.length ws /\
                fuel_free (encode T (S f0) (TNamed tn) w) = true /\
                decode T (S f0') (TNamed tn) (encode T (S f0) (TNamed tn) w) = Some sub) ->
  sh_out sh (sh_in sh (VStruct zs) sub) = Some sub.
Proof.
  intros Hok Hc Hlen Hzlen Hw Hside Hfacts.
  destruct (hook_ok_shadow T sd sh Hok Hc) as [HXlt [Hnd [Hnds [Hhid Hpairs]]]].
  rewrite sh_out_eq, sh_in_eq.
  set (X := sh_tgt sh) in *. set (v := VStruct vs) in *.
  assert (HX : X < List.length zs) by lia.
  set (v0 := iset [X] sub (VStruct zs)).
  set (v' := fold_left (sh_in_step sub) (sh_pairs sh) v0).
  assert (H1 : iget [X] v' = Some sub).
  { unfold v'. rewrite fold_in_other.
    - unfold v0. destruct (iget_struct_len X zs HX) as [y Hy]. eapply iget_iset_same; eauto.
    - eapply Forall_impl; [|exact Hhid]. intros p [Ha _]. exact Ha. }
  apply fold_out_keep; [exact H1|].
  apply Forall_forall. intros [[i H] c] Hp h Hh x Hx. unfold hid, slot in Hh, Hx |- *. cbn [fst snd] in Hh, Hx |- *.
  assert (Hh' : iget [H] (fold_left (sh_in_step sub) (sh_pairs sh) v0) = Some h) by exact Hh.
  destruct (fold_in_hidden sub (sh_pairs sh) v0 i H c x Hnd Hp Hx) as [E|E]; rewrite E in Hh'; [|discriminate].
  clear Hh. rename Hh' into Hh.
  inversion Hh; subst h. clear Hh E.
  assert (Hne : sh_pairs sh <> []) by (intros E; rewrite E in Hp; contradiction).
  destruct (Hpairs Hne) as [tn [tsd [Hty [Hft [Hpt [Hsok Hconds]]]]]].
  destruct (Hfacts tn tsd Hty Hft Hpt Hsok Hne) as [ws [Hws [Hwl [Hff Hd]]]].
  rewrite Forall_forall in Hconds. destruct (Hconds _ Hp) as [fd [Efd [Hskip Hct]]].
  rewrite Hws in Hff, Hd.
  destruct (decode_plain_fields T tn tsd ws f0 f0' sub Hft Hpt Hsok Hwl Hff Hd) as [ss [Hss [Hsl Hfields]]].
  subst sub. apply iget1 in Hx. destruct Hx as [ss' [Ess Hxi]]. inversion Ess; subst ss'. clear Ess.
  assert (Hwi : exists wi, nth_error ws i = Some wi).
  { destruct (nth_error ws i) eqn:E; [eauto|]. apply nth_error_None in E. assert (i < List.length (s_fields tsd)) by (apply nth_error_Some; congruence). lia. }
  destruct Hwi as [wi Hwi].
  destruct (Hfields i fd wi Efd Hwi) as [si [Hsi Hcase]]. rewrite Hxi in Hsi. inversion Hsi; subst si. clear Hsi.
  unfold omitted in Hcase. rewrite Hskip in Hcase. cbn [orb] in Hcase.
  destruct c as [[nopq|]|].
  - cbn [c_out c_in]. apply to_opaque_fix. destruct Hct as [n' Etf]. rewrite Etf in Hcase.
    destruct (f_omit fd && is_empty wi)%bool.
    + subst x. apply zero_opaque_not_int.
    + destruct Hcase as [Hdec _]. eapply decode_opaque_not_int; eauto.
  - reflexivity.
  - assert (Hptr : exists t', f_ty fd = TPtr t') by (destruct (f_ty fd) as [| | | | |t'| | | | |]; try discriminate; eauto).
    destruct Hptr as [t' Htp].
    rewrite Forall_forall in Hhid. destruct (Hhid _ Hp) as [_ HHlt]. unfold hid in HHlt. cbn [fst snd] in HHlt.
    destruct (iget_struct_len H vs ltac:(lia)) as [hv Hhv]. fold v in Hhv.
    rewrite sh_out_eq in Hw. fold X in Hw.
    destruct (iget_struct_len X vs ltac:(lia)) as [s0 Hs0]. fold v in Hs0.
    destruct (fold_out_slot X v (sh_pairs sh) v s0 i H CMeta hv Hnds Hp Hhv Hs0) as [s' [Es' Hslot]].
    rewrite Hw in Es'. inversion Es'; subst s'. clear Es'.
    assert (Hwi' : wi = c_out CMeta hv).
    { destruct Hslot as [Hs|Hs]; rewrite Hws in Hs; cbn in Hs; rewrite Hwi in Hs; [inversion Hs; reflexivity|discriminate]. }
    unfold shadow_side in Hside. rewrite Forall_forall in Hside. specialize (Hside _ Hp hv Hhv).
    destruct (f_omit fd && is_empty wi)%bool eqn:Eom.
    + subst x. rewrite Htp, zero_ptr. reflexivity.
    + destruct Hcase as [Hdec Hffi].
      assert (Hnil : c_out CMeta hv = VNil -> c_out CMeta (c_in CMeta x) = x).
      { intros Ev. rewrite Hwi', Ev, Htp in Hdec. rewrite Hwi', Ev, Htp in Hffi.
        destruct f0 as [|f0]; [cbn in Hffi; discriminate|]. destruct f0' as [|f0']; [discriminate|].
        cbn in Hdec. inversion Hdec; reflexivity. }
      destruct Hside as [->|[r [es [-> Hstr]]]]; [apply Hnil; reflexivity|].
      destruct es as [|e es]; [apply Hnil; reflexivity|].
      subst wi. rewrite (HM (f_ty fd) Hct r e es Hstr f0 f0' x Hffi Hdec). apply meta_fix_image. exact Hstr.
Qed.

(* ---- what a reload makes of particular slot values *)
Lemma rt_str T f f' s x : fuel_free (encode T f TStr (VStr s)) = true -> decode T f' TStr (encode T f TStr (VStr s)) = Some x -> x = VStr s.
Proof. destruct f; [discriminate|]. destruct f'; [discriminate|]. cbn. intros _ H. inversion H. reflexivity. Qed.
Lemma rt_nil_ptr T f f' t x : fuel_free (encode T f (TPtr t) VNil) = true -> decode T f' (TPtr t) (encode T f (TPtr t) VNil) = Some x -> x = VNil.
Proof. destruct f; [discriminate|]. destruct f'; [discriminate|]. cbn. intros _ H. inversion H. reflexivity. Qed.
Lemma rt_nil_slice T f f' t x : fuel_free (encode T f (TSlice t) VNil) = true -> decode T f' (TSlice t) (encode T f (TSlice t) VNil) = Some x -> x = VNil.
Proof. destruct f; [discriminate|]. destruct f'; [discriminate|]. cbn. intros _ H. inversion H. reflexivity. Qed.
Lemma sequence_cons_some {A} (o : option A) l r : sequence (o :: l) = Some r -> exists x r', r = x :: r'.
Proof. cbn. destruct o; cbn; [|discriminate]. destruct (sequence l); cbn; [|discriminate]. intros H; inversion H. eauto. Qed.
Lemma rt_slice_nonempty T f f' t r e es x :
  fuel_free (encode T f (TSlice t) (VRef r (e :: es))) = true ->
  decode T f' (TSlice t) (encode T f (TSlice t) (VRef r (e :: es))) = Some x -> exists y ys, x = VRef 0 (y :: ys).
Proof.
  destruct f; [discriminate|]. destruct f'; [discriminate|]. cbn [encode decode map]. intros _ H.
  destruct (sequence _) as [xs|] eqn:E; cbn in H; [|discriminate]. inversion H; subst.
  apply sequence_cons_some in E. destruct E as [y [ys ->]]. cbn. eauto.
Qed.
Lemma zero_slice T f t : zero_val T f (TSlice t) = VNil.
Proof. destruct f; reflexivity. Qed.

(* slots of iset on a struct *)
Lemma iget_iset1_same i x s y : iget [i] s = Some y -> iget [i] (iset [i] x s) = Some x.
Proof. apply iget_iset_same. Qed.
Lemma iget_iset1_other i j x s : i <> j -> iget [j] (iset [i] x s) = iget [j] s.
Proof. intros H. apply (iget_iset_other i j [] [] x s H). Qed.

(* ---- FilterChain *)
Lemma hook_ok_chain T sd tgt ctxs single set : hook_ok T sd = true -> hook_compiled T sd = CChain tgt ctxs single set ->
  tgt < List.length (s_fields sd) /\ ctxs < List.length (s_fields sd) /\ tgt <> ctxs /\ single <> set /\
  exists tn tsd fdS fdT tS tT, field_ty sd tgt = TNamed tn /\ find_struct T tn = Some tsd /\ plain_struct tsd = true /\ struct_ok tsd = true /\
    nth_error (s_fields tsd) single = Some fdS /\ f_skip fdS = false /\ f_ty fdS = TPtr tS /\
    nth_error (s_fields tsd) set = Some fdT /\ f_skip fdT = false /\ f_ty fdT = TSlice tT.
Proof.
  unfold hook_ok. intros H Hc. rewrite Hc in H.
  apply andb_true_iff in H. destruct H as [H H5]. apply andb_true_iff in H. destruct H as [H H4].
  apply andb_true_iff in H. destruct H as [H H3]. apply andb_true_iff in H. destruct H as [H1 H2].
  apply Nat.ltb_lt in H1. apply Nat.ltb_lt in H2. apply negb_true_iff in H3. apply Nat.eqb_neq in H3.
  destruct (plain_target T (field_ty sd tgt)) as [tsd|] eqn:Ept; [|discriminate].
  destruct (plain_target_inv _ _ _ Ept) as [tn [E1 [E2 [E3 E4]]]].
  apply andb_true_iff in H5. destruct H5 as [H5 H8]. apply andb_true_iff in H5. destruct H5 as [H6 H7].
  apply negb_true_iff in H8. apply Nat.eqb_neq in H8.
  unfold field_at in *. destruct (nth_error (s_fields tsd) single) as [fdS|] eqn:ES; [|discriminate].
  destruct (nth_error (s_fields tsd) set) as [fdT|] eqn:ET; [|discriminate].
  apply andb_true_iff in H6. destruct H6 as [H6a H6b]. apply negb_true_iff in H6a.
  apply andb_true_iff in H7. destruct H7 as [H7a H7b]. apply negb_true_iff in H7a.
  destruct (f_ty fdS) as [| | | | |tS| | | | |] eqn:EtS; try discriminate.
  destruct (f_ty fdT) as [| | | | | |tT| | | |] eqn:EtT; try discriminate.
  repeat split; try assumption. exists tn, tsd, fdS, fdT, tS, tT. repeat split; assumption.
Qed.

Lemma nth_len_ex {A} (l : list A) i : i < List.length l -> exists x, nth_error l i = Some x.
Proof. intros H. destruct (nth_error l i) eqn:E; [eauto|]. apply nth_error_None in E. lia. Qed.

Lemma chain_roundtrip T sd tgt ctxs single set vs w ws tn tsd f0 f0' sub zs zctx v' :
  hook_ok T sd = true -> hook_compiled T sd = CChain tgt ctxs single set ->
  List.length vs = List.length (s_fields sd) -> List.length zs = List.length (s_fields sd) ->
  chain_out tgt ctxs single set (VStruct vs) = Some w -> chain_side ctxs (VStruct vs) ->
  field_ty sd tgt = TNamed tn -> find_struct T tn = Some tsd ->
  w = VStruct ws -> List.length (s_fields tsd) = List.length ws ->
  fuel_free (encode T (S f0) (TNamed tn) w) = true ->
  decode T (S f0') (TNamed tn) (encode T (S f0) (TNamed tn) w) = Some sub ->
  chain_in tgt ctxs single set zctx (VStruct zs) sub = Some v' ->
  chain_out tgt ctxs single set v' = Some sub.
Proof.
  intros Hok Hc Hlen Hzlen Hw Hside Hty Hft Hws Hwl Hff Hd Hin.
  destruct (hook_ok_chain T sd tgt ctxs single set Hok Hc) as (Htl & Hcl & Hne & Hss & tn' & tsd' & fdS & fdT & tS & tT & Hty' & Hft' & Hpt & Hsok & ES & HsS & EtS & ET & HsT & EtT).
  rewrite Hty in Hty'. inversion Hty'; subst tn'. rewrite Hft in Hft'. inversion Hft'; subst tsd'. clear Hty' Hft'.
  (* the slots of w *)
  destruct Hside as [r [e [es Hctx]]].
  unfold chain_out in Hw. rewrite Hctx in Hw.
  destruct (iget_struct_len tgt vs ltac:(lia)) as [tv Htv].
  rewrite (iget_iset_below tgt set _ _ (iset [single] VNil tv)) in Hw by (apply iget_iset_below; exact Htv).
  assert (Hw' : iset [set] (VRef r (e :: es)) (iset [single] VNil tv) = w) by (inversion Hw; reflexivity). clear Hw.
  assert (HwS : forall x, nth_error ws single = Some x -> x = VNil).
  { intros x Hx. assert (E : iget [single] w = Some x) by (rewrite Hws; cbn; rewrite Hx; reflexivity).
    rewrite <- Hw' in E. rewrite iget_iset1_other in E by (intros E'; apply Hss; symmetry; exact E').
    destruct (iget [single] tv) as [y|] eqn:Ey.
    - rewrite (iget_iset1_same single VNil tv y Ey) in E. inversion E; reflexivity.
    - rewrite (iset_missing single VNil tv Ey) in E. congruence. }
  assert (HwT : forall x, nth_error ws set = Some x -> x = VRef r (e :: es)).
  { intros x Hx. assert (E : iget [set] w = Some x) by (rewrite Hws; cbn; rewrite Hx; reflexivity).
    rewrite <- Hw' in E.
    destruct (iget [set] (iset [single] VNil tv)) as [y|] eqn:Ey.
    - rewrite (iget_iset1_same set _ _ y Ey) in E. inversion E; reflexivity.
    - rewrite (iset_missing set _ _ Ey) in E. congruence. }
  rewrite Hws in Hff, Hd.
  destruct (decode_plain_fields T tn tsd ws f0 f0' sub Hft Hpt Hsok Hwl Hff Hd) as [ss [Hsub [Hsl Hfields]]].
  destruct (nth_len_ex ws single ltac:(assert (single < List.length (s_fields tsd)) by (apply nth_error_Some; congruence); lia)) as [wS HwSi].
  destruct (nth_len_ex ws set ltac:(assert (set < List.length (s_fields tsd)) by (apply nth_error_Some; congruence); lia)) as [wT HwTi].
  pose proof (HwS wS HwSi) as ->. pose proof (HwT wT HwTi) as ->.
  destruct (Hfields single fdS VNil ES HwSi) as [sS [HsSi HcS]].
  destruct (Hfields set fdT (VRef r (e :: es)) ET HwTi) as [sT [HsTi HcT]].
  unfold omitted in HcS, HcT. rewrite HsS in HcS. rewrite HsT in HcT. cbn [orb is_empty andb] in HcS, HcT.
  rewrite andb_false_r in HcT. rewrite EtS in HcS. rewrite EtT in HcT.
  assert (EsS : sS = VNil).
  { destruct (f_omit fdS && true)%bool; [rewrite HcS; apply zero_ptr|]. destruct HcS as [Hdec Hf]. eapply rt_nil_ptr; eauto. }
  destruct HcT as [HdT HfT]. destruct (rt_slice_nonempty T f0 f0' tT r e es sT HfT HdT) as [y [ys EsT]].
  subst sS sT sub.
  (* copy in *)
  unfold chain_in in Hin. cbn [iget] in Hin. rewrite HsTi, HsSi in Hin.
  assert (Ev : v' = iset [ctxs] (VRef 0 (y :: ys)) (iset [tgt] (VStruct ss) (VStruct zs))) by congruence. subst v'. clear Hin.
  (* copy out *)
  set (v0 := iset [tgt] (VStruct ss) (VStruct zs)).
  assert (Hv0t : iget [tgt] v0 = Some (VStruct ss)).
  { destruct (iget_struct_len tgt zs ltac:(lia)) as [zt Hzt]. eapply iget_iset_same; eauto. }
  assert (Hv0c : exists yc, iget [ctxs] v0 = Some yc).
  { unfold v0. rewrite iget_iset1_other by exact Hne. apply iget_struct_len. lia. }
  destruct Hv0c as [yc Hyc].
  unfold chain_out. rewrite (iget_iset_same ctxs _ yc v0 Hyc).
  assert (Ht' : iget [tgt] (iset [ctxs] (VRef 0 (y :: ys)) v0) = Some (VStruct ss)).
  { rewrite iget_iset1_other by (intros E; apply Hne; symmetry; exact E). exact Hv0t. }
  rewrite (iget_iset_below tgt set _ _ (iset [single] VNil (VStruct ss))) by (apply iget_iset_below; exact Ht').
  f_equal. rewrite (iset_noop single VNil (VStruct ss)) by (cbn; rewrite HsSi; reflexivity).
  apply iset_noop. cbn. rewrite HsTi. reflexivity.
Qed.

(* ---- RouterConfiguration / ClusterManagerConfig, inline mode *)
Lemma hook_ok_inline T sd tgt hidden pathf inlf : hook_ok T sd = true -> hook_compiled T sd = CInline tgt hidden pathf inlf ->
  tgt < List.length (s_fields sd) /\ hidden < List.length (s_fields sd) /\ tgt <> hidden /\ pathf <> inlf /\
  (exists th, field_ty sd hidden = TSlice th) /\
  exists tn tsd fdP fdI tI, field_ty sd tgt = TNamed tn /\ find_struct T tn = Some tsd /\ plain_struct tsd = true /\ struct_ok tsd = true /\
    nth_error (s_fields tsd) pathf = Some fdP /\ f_skip fdP = false /\ f_omit fdP = true /\ f_ty fdP = TStr /\
    nth_error (s_fields tsd) inlf = Some fdI /\ f_skip fdI = false /\ f_omit fdI = true /\ f_ty fdI = TSlice tI.
Proof.
  unfold hook_ok. intros H Hc. rewrite Hc in H.
  apply andb_true_iff in H. destruct H as [H H6]. apply andb_true_iff in H. destruct H as [H H5].
  apply andb_true_iff in H. destruct H as [H H4]. apply andb_true_iff in H. destruct H as [H H3]. apply andb_true_iff in H. destruct H as [H1 H2].
  apply Nat.ltb_lt in H1. apply Nat.ltb_lt in H2. apply negb_true_iff in H3. apply Nat.eqb_neq in H3.
  destruct (field_ty sd hidden) as [| | | | | |th| | | |] eqn:Eth; try discriminate.
  destruct (plain_target T (field_ty sd tgt)) as [tsd|] eqn:Ept; [|discriminate].
  destruct (plain_target_inv _ _ _ Ept) as [tn [E1 [E2 [E3 E4]]]].
  apply andb_true_iff in H6. destruct H6 as [H6 H9]. apply andb_true_iff in H6. destruct H6 as [H7 H8].
  apply negb_true_iff in H9. apply Nat.eqb_neq in H9.
  unfold field_at in *. destruct (nth_error (s_fields tsd) pathf) as [fdP|] eqn:EP; [|discriminate].
  destruct (nth_error (s_fields tsd) inlf) as [fdI|] eqn:EI; [|discriminate].
  apply andb_true_iff in H7. destruct H7 as [H7 H7c]. apply andb_true_iff in H7. destruct H7 as [H7a H7b]. apply negb_true_iff in H7a.
  apply andb_true_iff in H8. destruct H8 as [H8 H8c]. apply andb_true_iff in H8. destruct H8 as [H8a H8b]. apply negb_true_iff in H8a.
  destruct (f_ty fdP) eqn:EtP; try discriminate.
  destruct (f_ty fdI) as [| | | | | |tI| | | |] eqn:EtI; try discriminate.
  repeat split; try assumption; eauto. exists tn, tsd, fdP, fdI, tI. repeat split; assumption.
Qed.

Lemma inline_roundtrip T sd tgt hidden pathf inlf vs w ws tn tsd f0 f0' g sub zs v' :
  hook_ok T sd = true -> hook_compiled T sd = CInline tgt hidden pathf inlf ->
  List.length vs = List.length (s_fields sd) ->
  zs = map (fun fd => zero_val T g (f_ty fd)) (s_fields sd) ->
  inline_out tgt hidden pathf inlf (VStruct vs) = Some w -> inline_side tgt pathf (VStruct vs) ->
  field_ty sd tgt = TNamed tn -> find_struct T tn = Some tsd ->
  w = VStruct ws -> List.length (s_fields tsd) = List.length ws -> WF T (TNamed tn) w ->
  fuel_free (encode T (S f0) (TNamed tn) w) = true ->
  decode T (S f0') (TNamed tn) (encode T (S f0) (TNamed tn) w) = Some sub ->
  inline_in tgt hidden pathf inlf (VStruct zs) sub = Some v' ->
  inline_out tgt hidden pathf inlf v' = Some sub.
Proof.
  intros Hok Hc Hlen Hzs Hw Hside Hty Hft Hws Hwl HWF Hff Hd Hin.
  destruct (hook_ok_inline T sd tgt hidden pathf inlf Hok Hc) as (Htl & Hhl & Hne & Hpi & [th Hth] & tn' & tsd' & fdP & fdI & tI & Hty' & Hft' & Hpt & Hsok & EP & HsP & HoP & EtP & EI & HsI & HoI & EtI).
  rewrite Hty in Hty'. inversion Hty'; subst tn'. rewrite Hft in Hft'. inversion Hft'; subst tsd'. clear Hty' Hft'.
  assert (Hzlen : List.length zs = List.length (s_fields sd)) by (subst zs; apply map_length).
  unfold inline_side in Hside. unfold inline_out in Hw. rewrite Hside in Hw.
  destruct (iget_struct_len tgt vs ltac:(lia)) as [tv Htv].
  rewrite (iget_iset_below tgt inlf _ _ tv Htv) in Hw.
  assert (Hw' : iset [inlf] (iget_d [hidden] (VStruct vs)) tv = w) by (inversion Hw; reflexivity). clear Hw.
  assert (Htvp : iget [pathf] tv = Some (VStr "")).
  { cbn [iget] in Hside, Htv |- *. destruct (nth_error vs tgt) as [t0|]; [|discriminate]. inversion Htv; subst t0. exact Hside. }
  assert (HwP : nth_error ws pathf = Some (VStr "")).
  { assert (E : iget [pathf] w = Some (VStr "")) by (rewrite <- Hw'; rewrite iget_iset1_other by (intros E'; apply Hpi; symmetry; exact E'); exact Htvp).
    rewrite Hws in E. cbn in E. destruct (nth_error ws pathf); [|discriminate]. exact E. }
  rewrite Hws in Hff, Hd.
  destruct (decode_plain_fields T tn tsd ws f0 f0' sub Hft Hpt Hsok Hwl Hff Hd) as [ss [Hsub [Hsl Hfields]]].
  destruct (nth_len_ex ws inlf ltac:(assert (inlf < List.length (s_fields tsd)) by (apply nth_error_Some; congruence); lia)) as [wI HwI].
  destruct (Hfields pathf fdP (VStr "") EP HwP) as [sP [HsPi HcP]].
  destruct (Hfields inlf fdI wI EI HwI) as [sI [HsIi HcI]].
  unfold omitted in HcP, HcI. rewrite HsP, HoP in HcP. rewrite HsI, HoI in HcI. cbn [orb andb is_empty] in HcP, HcI.
  cbn in HcP. rewrite EtP in HcP. rewrite EtI in HcI.
  (* the inline list of w is well-formed at a slice type: nil or a list *)
  assert (HwIshape : wI = VNil \/ exists r es, wI = VRef r es).
  { rewrite Hws in HWF. inversion HWF as [t0 v0 Hsh Hwf| | | |n0 sd0 vs0 Hfs0 Hp0 Hfl0|n0 sd0 vs0 t2 w2 Hfs0 Hout0 _ _ _ _|]; subst.
    - contradiction.
    -  rewrite Hft in Hfs0. inversion Hfs0; subst sd0.
      pose proof (Forall2_nth _ _ _ inlf fdI wI Hfl0 EI HwI) as Hwfi. cbn beta in Hwfi. rewrite EtI in Hwfi.
      inversion Hwfi as [t1 v1 Hsh1 Hwf1| |t1 r1 es1 _| | | |]; subst.
      + destruct wI; cbn in Hwf1; try discriminate; try contradiction. left; reflexivity.
      + right; eauto.
    - exfalso. rewrite Hft in Hfs0. inversion Hfs0; subst sd0. rewrite (hooked_not_plain T tsd _ Hpt) in Hout0. discriminate. }
  subst sub. unfold inline_in in Hin. cbn [iget] in Hin. rewrite HsPi, HsIi in Hin. rewrite HcP in Hin.
  destruct f0' as [|f0']; [cbn in Hin; discriminate|]. cbn [zero_val] in Hin.
  set (v0 := iset [tgt] (VStruct ss) (VStruct zs)) in *.
  assert (Hv0t : iget [tgt] v0 = Some (VStruct ss)).
  { destruct (iget_struct_len tgt zs ltac:(lia)) as [zt Hzt]. eapply iget_iset_same; eauto. }
  assert (HssP : iget [pathf] (VStruct ss) = Some (VStr "")).
  { cbn. rewrite HsPi, HcP. reflexivity. }
  assert (Hzh : iget [hidden] (VStruct zs) = Some VNil).
  { cbn. subst zs. rewrite nth_error_map. destruct (nth_error (s_fields sd) hidden) as [fh|] eqn:Efh.
    - cbn. unfold field_ty in Hth. rewrite Efh in Hth. rewrite Hth, zero_slice. reflexivity.
    - exfalso. apply nth_error_None in Efh. lia. }
  destruct HwIshape as [->|[r [es ->]]].
  - (* nothing inline *)
    cbn [is_empty] in HcI. subst sI. rewrite zero_slice in Hin.
    assert (Ev : v' = v0) by congruence. subst v'. clear Hin.
    unfold inline_out.
    assert (E1 : iget [tgt; pathf] v0 = Some (VStr "")).
    { unfold v0 in *. cbn [iget] in Hv0t |- *. destruct (iset [tgt] (VStruct ss) (VStruct zs)); try discriminate.
      destruct (nth_error fs tgt); [|discriminate]. inversion Hv0t; subst. exact HssP. }
    rewrite E1. rewrite (iget_iset_below tgt inlf _ v0 (VStruct ss) Hv0t). f_equal.
    unfold iget_d, v0. rewrite iget_iset1_other by exact Hne. rewrite Hzh.
    apply iset_noop. cbn. rewrite HsIi, zero_slice. reflexivity.
  - destruct es as [|e es].
    + cbn [is_empty] in HcI. subst sI. rewrite zero_slice in Hin.
      assert (Ev : v' = v0) by congruence. subst v'. clear Hin.
      unfold inline_out.
      assert (E1 : iget [tgt; pathf] v0 = Some (VStr "")).
      { unfold v0 in *. cbn [iget] in Hv0t |- *. destruct (iset [tgt] (VStruct ss) (VStruct zs)); try discriminate.
        destruct (nth_error fs tgt); [|discriminate]. inversion Hv0t; subst. exact HssP. }
      rewrite E1. rewrite (iget_iset_below tgt inlf _ v0 (VStruct ss) Hv0t). f_equal.
      unfold iget_d, v0. rewrite iget_iset1_other by exact Hne. rewrite Hzh.
      apply iset_noop. cbn. rewrite HsIi, zero_slice. reflexivity.
    + cbn [is_empty] in HcI. destruct HcI as [HdI HfI].
      destruct (rt_slice_nonempty T f0 (S f0') tI r e es sI HfI HdI) as [y [ys ->]].
      assert (Ev : v' = iset [hidden] (VRef 0 (y :: ys)) v0) by congruence. subst v'. clear Hin.
      unfold inline_out.
      assert (Ht' : iget [tgt] (iset [hidden] (VRef 0 (y :: ys)) v0) = Some (VStruct ss)).
      { rewrite iget_iset1_other by (intros E; apply Hne; symmetry; exact E). exact Hv0t. }
      assert (E1 : iget [tgt; pathf] (iset [hidden] (VRef 0 (y :: ys)) v0) = Some (VStr "")).
      { cbn [iget] in Ht' |- *. destruct (iset [hidden] (VRef 0 (y :: ys)) v0); try discriminate.
        destruct (nth_error fs tgt); [|discriminate]. inversion Ht'; subst. exact HssP. }
      rewrite E1. rewrite (iget_iset_below tgt inlf _ _ (VStruct ss) Ht'). f_equal.
      assert (Eh : iget_d [hidden] (iset [hidden] (VRef 0 (y :: ys)) v0) = VRef 0 (y :: ys)).
      { unfold iget_d. assert (Ex : exists yh, iget [hidden] v0 = Some yh) by (unfold v0; rewrite iget_iset1_other by exact Hne; eauto).
        destruct Ex as [yh Hyh]. rewrite (iget_iset_same hidden _ yh v0 Hyh). reflexivity. }
      rewrite Eh. apply iset_noop. cbn. rewrite HsIi. reflexivity.
Qed.

(* ---- Listener *)
Lemma hook_ok_listener T sd tgt addr addrcfg network perconn : hook_ok T sd = true -> hook_compiled T sd = CListener tgt addr addrcfg network perconn ->
  tgt < List.length (s_fields sd) /\ addr < List.length (s_fields sd) /\ perconn < List.length (s_fields sd) /\
  tgt <> addr /\ tgt <> perconn /\ addr <> perconn /\ addrcfg <> network /\
  exists tn tsd fdA fdN, field_ty sd tgt = TNamed tn /\ find_struct T tn = Some tsd /\ plain_struct tsd = true /\ struct_ok tsd = true /\
    nth_error (s_fields tsd) addrcfg = Some fdA /\ f_skip fdA = false /\ f_ty fdA = TStr /\
    nth_error (s_fields tsd) network = Some fdN /\ f_skip fdN = false /\ f_ty fdN = TStr.
Proof.
  unfold hook_ok. intros H Hc. rewrite Hc in H.
  apply andb_true_iff in H. destruct H as [H H8]. apply andb_true_iff in H. destruct H as [H H7].
  apply andb_true_iff in H. destruct H as [H H6]. apply andb_true_iff in H. destruct H as [H H5].
  apply andb_true_iff in H. destruct H as [H H4]. apply andb_true_iff in H. destruct H as [H H3]. apply andb_true_iff in H. destruct H as [H1 H2].
  apply Nat.ltb_lt in H1. apply Nat.ltb_lt in H2. apply Nat.ltb_lt in H3.
  apply negb_true_iff in H5. apply Nat.eqb_neq in H5. apply negb_true_iff in H6. apply Nat.eqb_neq in H6. apply negb_true_iff in H7. apply Nat.eqb_neq in H7.
  destruct (plain_target T (field_ty sd tgt)) as [tsd|] eqn:Ept; [|discriminate].
  destruct (plain_target_inv _ _ _ Ept) as [tn [E1 [E2 [E3 E4]]]].
  apply andb_true_iff in H8. destruct H8 as [H8 H11]. apply andb_true_iff in H8. destruct H8 as [H9 H10].
  apply negb_true_iff in H11. apply Nat.eqb_neq in H11.
  unfold field_at in *. destruct (nth_error (s_fields tsd) addrcfg) as [fdA|] eqn:EA; [|discriminate].
  destruct (nth_error (s_fields tsd) network) as [fdN|] eqn:EN; [|discriminate].
  apply andb_true_iff in H9. destruct H9 as [H9a H9b]. apply negb_true_iff in H9a.
  apply andb_true_iff in H10. destruct H10 as [H10a H10b]. apply negb_true_iff in H10a.
  destruct (f_ty fdA) eqn:EtA; try discriminate. destruct (f_ty fdN) eqn:EtN; try discriminate.
  repeat split; try assumption. exists tn, tsd, fdA, fdN. repeat split; assumption.
Qed.

Lemma listener_roundtrip T sd tgt addr addrcfg network perconn vs w ws tn tsd f0 f0' sub zs v' :
  hook_ok T sd = true -> hook_compiled T sd = CListener tgt addr addrcfg network perconn ->
  List.length vs = List.length (s_fields sd) -> List.length zs = List.length (s_fields sd) ->
  listener_out tgt addr addrcfg (VStruct vs) = Some w -> listener_side tgt addr network (VStruct vs) ->
  field_ty sd tgt = TNamed tn -> find_struct T tn = Some tsd ->
  w = VStruct ws -> List.length (s_fields tsd) = List.length ws ->
  fuel_free (encode T (S f0) (TNamed tn) w) = true ->
  decode T (S f0') (TNamed tn) (encode T (S f0) (TNamed tn) w) = Some sub ->
  listener_in tgt addr addrcfg network perconn (VStruct zs) sub = Some v' ->
  listener_out tgt addr addrcfg v' = Some sub.
Proof.
  intros Hok Hc Hlen Hzlen Hw Hside Hty Hft Hws Hwl Hff Hd Hin.
  destruct (hook_ok_listener T sd tgt addr addrcfg network perconn Hok Hc) as (Htl & Hal & Hpl & Hta & Htp & Hap & Han & tn' & tsd' & fdA & fdN & Hty' & Hft' & Hpt & Hsok & EA & HsA & EtA & EN & HsN & EtN).
  rewrite Hty in Hty'. inversion Hty'; subst tn'. rewrite Hft in Hft'. inversion Hft'; subst tsd'. clear Hty' Hft'.
  destruct Hside as (c & a & nw & Haddr & Hane & Hnw & Hlow & Hset).
  unfold listener_out in Hw. rewrite Haddr in Hw.
  destruct (iget_struct_len tgt vs ltac:(lia)) as [tv Htv].
  rewrite (iget_iset_below tgt addrcfg _ _ tv Htv) in Hw.
  assert (Hw' : iset [addrcfg] (VStr a) tv = w) by (inversion Hw; reflexivity). clear Hw.
  assert (Htvn : iget [network] tv = Some (VStr nw)).
  { cbn [iget] in Hnw, Htv |- *. destruct (nth_error vs tgt) as [t0|]; [|discriminate]. inversion Htv; subst t0. exact Hnw. }
  assert (HwN : nth_error ws network = Some (VStr nw)).
  { assert (E : iget [network] w = Some (VStr nw)) by (rewrite <- Hw'; rewrite iget_iset1_other by exact Han; exact Htvn).
    rewrite Hws in E. cbn in E. destruct (nth_error ws network); [|discriminate]. exact E. }
  destruct (nth_len_ex ws addrcfg ltac:(assert (addrcfg < List.length (s_fields tsd)) by (apply nth_error_Some; congruence); lia)) as [wA HwA].
  assert (EwA : wA = VStr a).
  { assert (E : iget [addrcfg] w = Some wA) by (rewrite Hws; cbn; rewrite HwA; reflexivity).
    rewrite <- Hw' in E. destruct (iget [addrcfg] tv) as [y|] eqn:Ey.
    - rewrite (iget_iset1_same addrcfg _ tv y Ey) in E. inversion E; reflexivity.
    - rewrite (iset_missing addrcfg _ tv Ey) in E. congruence. }
  subst wA.
  rewrite Hws in Hff, Hd.
  destruct (decode_plain_fields T tn tsd ws f0 f0' sub Hft Hpt Hsok Hwl Hff Hd) as [ss [Hsub [Hsl Hfields]]].
  destruct (Hfields addrcfg fdA (VStr a) EA HwA) as [sA [HsAi HcA]].
  destruct (Hfields network fdN (VStr nw) EN HwN) as [sN [HsNi HcN]].
  assert (Hnwne : nw <> "") by (destruct Hset as [->|[->| ->]]; discriminate).
  unfold omitted in HcA, HcN. rewrite HsA in HcA. rewrite HsN in HcN. cbn [orb is_empty] in HcA, HcN.
  assert (Ea : String.eqb a "" = false) by (apply String.eqb_neq; exact Hane).
  assert (En : String.eqb nw "" = false) by (apply String.eqb_neq; exact Hnwne).
  rewrite Ea in HcA. rewrite En in HcN. rewrite andb_false_r in HcA, HcN. rewrite EtA in HcA. rewrite EtN in HcN.
  destruct HcA as [HdA HfA]. destruct HcN as [HdN HfN].
  pose proof (rt_str T f0 f0' a sA HfA HdA) as ->. pose proof (rt_str T f0 f0' nw sN HfN HdN) as ->.
  subst sub. unfold listener_in in Hin. cbn [iget] in Hin. rewrite HsAi, HsNi in Hin. rewrite Ea, En, Hlow in Hin.
  assert (Eset : (String.eqb nw "tcp" || String.eqb nw "udp" || String.eqb nw "unix")%bool = true).
  { destruct Hset as [->|[->| ->]]; reflexivity. }
  rewrite Eset in Hin.
  assert (Enoop : iset [network] (VStr nw) (VStruct ss) = VStruct ss) by (apply iset_noop; cbn; rewrite HsNi; reflexivity).
  rewrite Enoop in Hin.
  set (v0 := iset [tgt] (VStruct ss) (VStruct zs)) in *.
  assert (Ev : v' = iset [perconn] (VInt 32768) (iset [addr] (VOpaque "net.Addr" a) v0)) by congruence. subst v'. clear Hin.
  assert (Hv0t : iget [tgt] v0 = Some (VStruct ss)).
  { destruct (iget_struct_len tgt zs ltac:(lia)) as [zt Hzt]. eapply iget_iset_same; eauto. }
  assert (Hv0a : exists ya, iget [addr] v0 = Some ya) by (unfold v0; rewrite iget_iset1_other by exact Hta; apply iget_struct_len; lia).
  destruct Hv0a as [ya Hya].
  unfold listener_out.
  rewrite iget_iset1_other by (intros E; apply Hap; symmetry; exact E).
  rewrite (iget_iset_same addr _ ya v0 Hya).
  assert (Ht' : iget [tgt] (iset [perconn] (VInt 32768) (iset [addr] (VOpaque "net.Addr" a) v0)) = Some (VStruct ss)).
  { rewrite iget_iset1_other by (intros E; apply Htp; symmetry; exact E).
    rewrite iget_iset1_other by (intros E; apply Hta; symmetry; exact E). exact Hv0t. }
  rewrite (iget_iset_below tgt addrcfg _ _ (VStruct ss) Ht'). f_equal.
  apply iset_noop. cbn. rewrite HsAi. reflexivity.
Qed.

(* ================================================================================================ *)
(* E. the theorem                                                                                    *)
(* ================================================================================================ *)
Lemma ty_ok_ptr T t : ty_ok T (TPtr t) = true -> ty_ok T t = true /\ ptr_ok (TPtr t) = true /\ ptr_hook_ok T (TPtr t) = true.
Proof.
  unfold ty_ok. intros H. apply andb_true_iff in H. destruct H as [H1 H2]. cbn [ty_ptr_ok] in H1.
  apply andb_true_iff in H1. destruct H1 as [H1a H1b]. repeat split; try assumption.
  rewrite H1b. cbn [andb]. destruct t; try exact H2; reflexivity.
Qed.
Lemma ty_ok_elem T t : ty_ok T (TSlice t) = true \/ ty_ok T (TMap t) = true -> ty_ok T t = true.
Proof. unfold ty_ok. intros [H|H]; exact H. Qed.

Lemma WF_plain_inv T tn tsd w : find_struct T tn = Some tsd -> plain_struct tsd = true -> WF T (TNamed tn) w ->
  exists ws, w = VStruct ws /\ List.length (s_fields tsd) = List.length ws /\ Forall2 (fun fd x => WF T (f_ty fd) x) (s_fields tsd) ws.
Proof.
  intros Hf Hp Hw. inversion Hw as [t v Hsh Hwf| | | |n sd vs Hfs Hp' Hfl|n sd vs t2 w2 Hfs Hout _ _ _ _|n sd j Hfs Hc Hj]; subst.
  - destruct w; cbn in Hwf; try discriminate; try contradiction.
  - rewrite Hf in Hfs. inversion Hfs; subst. exists vs. split; [reflexivity|]. split; [eapply Forall2_length; eauto|exact Hfl].
  - exfalso. rewrite Hf in Hfs. inversion Hfs; subst. rewrite (hooked_not_plain T sd _ Hp) in Hout. discriminate.
  - exfalso. rewrite Hf in Hfs. inversion Hfs; subst. rewrite (plain_compiled T sd Hp) in Hc. discriminate.
Qed.

Lemma iset_struct i p x vs : exists vs', iset (i :: p) x (VStruct vs) = VStruct vs'.
Proof. cbn. destruct (nth_error vs i); eauto. Qed.

Lemma field_ty_in sd X : X < List.length (s_fields sd) -> exists fd, In fd (s_fields sd) /\ f_ty fd = field_ty sd X.
Proof.
  intros H. unfold field_ty. destruct (nth_error (s_fields sd) X) as [fd|] eqn:E.
  - exists fd. split; [eapply nth_error_In; eauto|reflexivity].
  - apply nth_error_None in E. lia.
Qed.

Lemma fuel_free_arr l : fuel_free (JArr l) = true <-> Forall (fun x => fuel_free x = true) l.
Proof.
  cbn. induction l as [|x l IH]; split; intros H; try constructor; try reflexivity.
  - apply andb_true_iff in H. tauto.
  - apply IH. apply andb_true_iff in H. tauto.
  - inversion H; subst. apply andb_true_iff. split; [assumption|apply IH; assumption].
Qed.
Lemma fuel_free_obj l : fuel_free (JObj l) = true <-> Forall (fun kv : string * json => fuel_free (snd kv) = true) l.
Proof.
  cbn. induction l as [|[k x] l IH]; split; intros H; try constructor; try reflexivity.
  - apply andb_true_iff in H. cbn. tauto.
  - apply IH. apply andb_true_iff in H. tauto.
  - inversion H; subst. apply andb_true_iff. split; [assumption|apply IH; assumption].
Qed.

Lemma list_rt_aux (P : val -> Prop) (enc : val -> json) (dec : json -> option val) :
  (forall x y, P x -> fuel_free (enc x) = true -> dec (enc x) = Some y -> enc y = enc x) ->
  forall (es : list (string * val)) xs,
    Forall (fun kv => P (snd kv)) es -> Forall (fun kv => fuel_free (enc (snd kv)) = true) es ->
    Forall2 (fun kv y => dec (enc (snd kv)) = Some y) es xs ->
    map enc xs = map (fun kv => enc (snd kv)) es.
Proof.
  intros Hrt. induction es as [|[k x] es IH]; intros xs HP Hf H2; inversion H2; subst; [reflexivity|].
  inversion HP; subst. inversion Hf; subst. cbn [map snd]. f_equal; [eapply Hrt; eauto|apply IH; assumption].
Qed.

Lemma iset2_struct i x j y vs : exists vs', iset [i] x (iset [j] y (VStruct vs)) = VStruct vs'.
Proof. destruct (iset_struct j [] y vs) as [vs1 E1]. rewrite E1. apply iset_struct. Qed.

Lemma chain_in_struct tgt ctxs single set zctx zs sub v' :
  chain_in tgt ctxs single set zctx (VStruct zs) sub = Some v' -> exists vs', v' = VStruct vs'.
Proof.
  unfold chain_in. intros H.
  assert (G : forall c, exists vs', iset [ctxs] c (iset [tgt] sub (VStruct zs)) = VStruct vs') by (intros c; apply iset2_struct).
  destruct (iget [set] sub) as [s|].
  - destruct s; try (destruct (iget [single] sub) as [[]|]; try destruct es; try destruct p; try destruct es;
                     injection H as <-; apply G).
    destruct es as [|e es].
    + destruct (iget [single] sub) as [[]|]; try destruct es; try destruct p; try destruct es; injection H as <-; apply G.
    + destruct (iget [single] sub) as [[]|]; try discriminate H; injection H as <-; apply G.
  - destruct (iget [single] sub) as [[]|]; try destruct es; try destruct p; try destruct es; injection H as <-; apply G.
Qed.

Lemma inline_in_struct tgt hidden pathf inlf zs sub v' :
  inline_in tgt hidden pathf inlf (VStruct zs) sub = Some v' -> exists vs', v' = VStruct vs'.
Proof.
  unfold inline_in. intros H.
  assert (G1 : exists vs', iset [tgt] sub (VStruct zs) = VStruct vs') by apply iset_struct.
  assert (G2 : forall c, exists vs', iset [hidden] c (iset [tgt] sub (VStruct zs)) = VStruct vs') by (intros c; apply iset2_struct).
  destruct (iget [pathf] sub) as [[]|]; try discriminate H. destruct s; try discriminate H.
  destruct (iget [inlf] sub) as [[]|]; try destruct es; injection H as <-; first [apply G1 | apply G2].
Qed.

Lemma listener_in_struct tgt addr addrcfg network perconn zs sub v' :
  listener_in tgt addr addrcfg network perconn (VStruct zs) sub = Some v' -> exists vs', v' = VStruct vs'.
Proof.
  unfold listener_in. intros H.
  destruct (iget [addrcfg] sub) as [[]|]; try discriminate H. destruct (iget [network] sub) as [[]|]; try discriminate H.
  destruct (String.eqb s ""); [discriminate H|].
  match type of H with (if ?c then _ else _) = _ => destruct c; [|discriminate H] end.
  assert (G : forall a b c, exists vs', iset [perconn] a (iset [addr] b (iset [tgt] c (VStruct zs))) = VStruct vs').
  { intros a b c. destruct (iset_struct tgt [] c zs) as [z1 E1]. rewrite E1. apply iset2_struct. }
  injection H as <-. apply G.
Qed.

Lemma encode_hooked T f n sd vs t2 w : find_struct T n = Some sd ->
  hook_out T sd (hook_compiled T sd) (VStruct vs) = Some (t2, w) ->
  encode T (S f) (TNamed n) (VStruct vs) = encode T f t2 w.
Proof.
  intros Hfs Hout. cbn [encode]. rewrite Hfs. destruct (hook_compiled T sd) eqn:Eh; cbn [hook_out] in Hout; try discriminate Hout;
    cbn [hook_out]; rewrite Hout; reflexivity.
Qed.

Theorem stable_full T : table_ok2 T = true -> meta_rt T -> forall fuel t v, stable_full_at T fuel t v.
Proof.
  intros HT HM. destruct (table_ok2_inv T HT) as [HT1 [HT2 HT3]].
  induction fuel as [|f IH]; intros t v Hw Hty Hff fuel' v' Hd; [cbn in Hff; discriminate|].
  destruct fuel' as [|f']; [cbn in Hd; discriminate|].
  inversion Hw as [t0 v0 Hsh Hwf|t1 r k x Hx|t1 r es Hes|t1 r es Hes|n sd vs Hfs Hp Hfl|n sd vs t2 w Hfs Hout Hside Hlen Hmp Hw2|n sd j Hfs Hc Hj]; subst.
  - (* leaves: the theorem of the plain fragment *)
    unfold ty_ok in Hty. apply andb_true_iff in Hty. destruct Hty as [Hty _].
    exact (stable T HT1 (S f) t v Hwf Hty Hff (S f') v' Hd).
  - (* pointer *)
    destruct (ty_ok_ptr T t1 Hty) as [Hty1 [Hpk Hph]].
    cbn [encode] in *. destruct f as [|f0]; [cbn in Hff; discriminate|].
    pose proof (encode_not_null_WF T HT f0 t1 x Hx Hph Hff) as Hnn.
    cbn [decode] in Hd.
    assert (Hd' : option_bind (decode T f' t1 (encode T (S f0) t1 x)) (fun y => Some (VRef 0 [("", y)])) = Some v').
    { destruct (encode T (S f0) t1 x) eqn:E; try exact Hd.
      exfalso. destruct t1; try (apply Hnn; reflexivity); cbn in Hpk; discriminate. }
    destruct (decode T f' t1 (encode T (S f0) t1 x)) as [y|] eqn:Ey; cbn in Hd'; [|discriminate].
    inversion Hd'; subst v'.
    destruct (IH t1 x Hx Hty1 Hff f' y Ey) as [Henc _]. split; [exact Henc|reflexivity].
  - (* slice *)
    pose proof (ty_ok_elem T t1 (or_introl Hty)) as Hty1.
    cbn [encode] in *. cbn [decode] in Hd.
    destruct (sequence _) as [xs|] eqn:Eseq; cbn in Hd; [|discriminate]. inversion Hd; subst v'. clear Hd.
    rewrite map_map in Eseq. apply sequence_map in Eseq.
    apply fuel_free_arr in Hff. rewrite Forall_map in Hff.
    cbn [encode]. split.
    + f_equal. rewrite map_map. cbn [snd].
      apply (list_rt_aux (WF T t1) (encode T f t1) (decode T f' t1)); try assumption.
      intros x y Hx Hfx Hdx. destruct (IH t1 x Hx Hty1 Hfx f' y Hdx) as [Henc _]. exact Henc.
    + intros Hne. destruct es; [discriminate|]. inversion Eseq; subst. reflexivity.
  - (* map *)
    pose proof (ty_ok_elem T t1 (or_intror Hty)) as Hty1.
    cbn [encode] in *. cbn [decode] in Hd.
    destruct (sequence _) as [es'|] eqn:Eseq; cbn in Hd; [|discriminate]. inversion Hd; subst v'. clear Hd.
    rewrite map_map in Eseq. apply sequence_map in Eseq.
    apply fuel_free_obj in Hff. rewrite Forall_map in Hff. cbn [snd] in Hff.
    cbn [encode]. split.
    + f_equal.
      clear Hw. revert es' Eseq. induction es as [|[k x] es IHes]; intros es' Eseq; inversion Eseq as [|? y ? ? Hy Hrest]; subst; [reflexivity|].
      inversion Hes as [|? ? Hwx Hes']; subst. inversion Hff as [|? ? Hfx Hff']; subst.
      cbn [fst snd] in Hy.
      destruct (decode T f' t1 (encode T f t1 x)) as [x'|] eqn:Ex; cbn in Hy; [|discriminate]. inversion Hy; subst y.
      cbn [map fst snd]. f_equal.
      * destruct (IH t1 x Hwx Hty1 Hfx f' x' Ex) as [Henc _]. rewrite Henc. reflexivity.
      * apply IHes; assumption.
    + intros Hne. destruct es; [discriminate|]. inversion Eseq; subst. reflexivity.
  - (* plain struct *)
    destruct (plain_hooks sd Hp) as [Hh [Hu Hvis]].
    pose proof (plain_struct_ok T sd HT1 (find_struct_in _ _ _ Hfs) Hp) as Hok.
    unfold struct_ok in Hok. apply andb_true_iff in Hok. destruct Hok as [Hnd Hpo].
    pose proof (Forall2_length _ _ _ Hfl) as Hl.
    pose proof (plain_compiled T sd Hp) as Hc.
    assert (Hph : forall fd, In fd (s_fields sd) -> ptr_hook_ok T (f_ty fd) = true) by (apply HT3; eapply find_struct_in; eauto).
    cbn [encode] in *. rewrite Hfs, Hc in *. cbn [decode] in Hd. rewrite Hfs in Hd. cbv zeta in Hd. rewrite Hc in Hd.
    set (O := enc_fields (encode T f) (s_fields sd) vs) in Hd, Hff.
    destruct (sequence _) as [vs'|] eqn:Eseq; cbn in Hd; [|discriminate]. inversion Hd; subst v'. clear Hd.
    apply sequence_map in Eseq.
    split; [|intros _; reflexivity].
    f_equal.
    pose proof (lookup_enc_fields (encode T f) (s_fields sd) vs Hvis Hnd Hl) as Hlook. fold O in Hlook.
    assert (Hmem : forall fd x, In fd (s_fields sd) -> f_skip fd = false ->
              lookup_member O (f_json fd) None = Some x -> fuel_free x = true).
    { intros fd x _ _ Hx. eapply fuel_free_member; [exact Hff|exact Hx]. }
    clear Hff Hw.
    revert Hmem Hlook Eseq Hfl Hpo Hvis Hph. generalize O. clear O Hnd Hl.
    generalize (s_fields sd) as fds. revert vs'.
    induction vs as [|x vs IHvs]; intros vs' fds O Hmem Hlook Eseq Hwf Hpo Hvis Hph.
    + inversion Hwf; subst. inversion Eseq; subst. reflexivity.
    + inversion Hwf as [|fd ? fds' ? Hwx Hwf']; subst. inversion Eseq as [|? x' ? vs'' Hdx Hseq']; subst.
      inversion Hlook as [|? ? ? ? Hl0 Hlook']; subst.
      cbn in Hpo. apply andb_true_iff in Hpo. destruct Hpo as [Hpx Hpo].
      cbn in Hvis. apply andb_true_iff in Hvis. destruct Hvis as [Hv0 Hvis].
      assert (He : f_embed fd = false \/ f_skip fd = true).
      { destruct (f_skip fd); [right; reflexivity|left]. cbn in Hv0. apply negb_true_iff in Hv0. exact Hv0. }
      rewrite !(enc_fields_cons (encode T f) fd fds' _ _ He).
      assert (IHrest : enc_fields (encode T f) fds' vs'' = enc_fields (encode T f) fds' vs).
      { eapply IHvs; eauto. intros fd0 x0 Hin. apply Hmem. right; exact Hin. intros fd0 Hin. apply Hph. right; exact Hin. }
      rewrite IHrest. f_equal.
      unfold omitted in *.
      destruct (f_skip fd) eqn:Es; [reflexivity|]. cbn [orb] in *.
      specialize (Hl0 eq_refl). rewrite Hl0 in Hdx.
      destruct (f_omit fd && is_empty x)%bool eqn:Eo.
      * inversion Hdx; subst x'. apply andb_true_iff in Eo. destruct Eo as [Eom Eem]. rewrite Eom. cbn [andb].
        pose proof (zero_val_empty T f' (f_ty fd)) as Hz.
        destruct (f_ty fd) eqn:Et; try (rewrite Hz; reflexivity).
        -- (* struct-typed field: a well-formed struct value is never empty *)
           exfalso. clear - Hwx Eem. inversion Hwx as [t0 v0 Hsh0 Hwf0| | | | | |]; subst; cbn in Eem; try discriminate Eem;
             destruct x; cbn in Hwf0, Eem; try discriminate Hwf0; try discriminate Eem; try contradiction.
        -- exfalso. clear - Hwx Eem. inversion Hwx as [t0 v0 Hsh0 Hwf0| | | | | |]; subst; cbn in Eem; try discriminate Eem;
             destruct x; cbn in Hwf0, Eem; try discriminate Hwf0; try discriminate Eem; try contradiction.
      * assert (Hffx : fuel_free (encode T f (f_ty fd) x) = true).
        { eapply (Hmem fd); [left; reflexivity|exact Es|]. rewrite Hl0. reflexivity. }
        assert (Htyx : ty_ok T (f_ty fd) = true) by (unfold ty_ok; rewrite Hpx; cbn; apply Hph; left; reflexivity).
        destruct (IH (f_ty fd) x Hwx Htyx Hffx f' x' Hdx) as [Henc Hemp].
        rewrite Henc.
        destruct (f_omit fd) eqn:Eom; cbn [andb] in *; [|reflexivity].
        rewrite (Hemp Eo). reflexivity.
  - (* hooked struct *)
    pose proof (hooks_ok_at T n sd HT2 Hfs Hmp) as Hok.
    destruct (hook_out_ty _ _ _ _ _ _ Hout) as [X [HX Ht2]].
    assert (HXlt : X < List.length (s_fields sd)).
    { unfold hook_ok in Hok. destruct (hook_compiled T sd) eqn:Eh; cbn in HX; try discriminate; inversion HX; subst X.
      - destruct (hook_ok_shadow T sd sh) as [H _]; [unfold hook_ok; rewrite Eh; exact Hok|exact Eh|exact H].
      - destruct (hook_ok_chain T sd tgt ctxs single set) as [H _]; [unfold hook_ok; rewrite Eh; exact Hok|exact Eh|exact H].
      - destruct (hook_ok_inline T sd tgt hidden pathf inlf) as [H _]; [unfold hook_ok; rewrite Eh; exact Hok|exact Eh|exact H].
      - destruct (hook_ok_listener T sd tgt addr addrcfg network perconn) as [H _]; [unfold hook_ok; rewrite Eh; exact Hok|exact Eh|exact H]. }
    assert (Hty2 : ty_ok T t2 = true).
    { subst t2. unfold ty_ok. destruct (field_ty_in sd X HXlt) as [fdx [Hin Efd]].
      rewrite <- Efd at 2. rewrite (HT3 sd (find_struct_in _ _ _ Hfs) fdx Hin). rewrite andb_true_r.
      destruct (hook_compiled T sd) eqn:Eh; cbn in HX; try discriminate; inversion HX; subst X.
      - unfold hook_ok in Hok. rewrite Eh in Hok. split_andb Hok. assumption.
      - destruct (hook_ok_chain T sd tgt ctxs single set Hok Eh) as (_ & _ & _ & _ & tn & _ & _ & _ & _ & _ & E & _). rewrite E. reflexivity.
      - destruct (hook_ok_inline T sd tgt hidden pathf inlf Hok Eh) as (_ & _ & _ & _ & _ & tn & _ & _ & _ & _ & E & _). rewrite E. reflexivity.
      - destruct (hook_ok_listener T sd tgt addr addrcfg network perconn Hok Eh) as (_ & _ & _ & _ & _ & _ & _ & tn & _ & _ & _ & E & _). rewrite E. reflexivity. }
    assert (Henc0 : encode T (S f) (TNamed n) (VStruct vs) = encode T f t2 w).
    { cbn [encode]. rewrite Hfs. destruct (hook_compiled T sd) eqn:Eh; cbn in HX; try discriminate; rewrite Hout; reflexivity. }
    rewrite Henc0 in *.
    assert (Hz : zero_val T (S f') (TNamed n) = VStruct (map (fun fd => zero_val T f' (f_ty fd)) (s_fields sd))) by (apply zero_struct; exact Hfs).
    set (zs := map (fun fd => zero_val T f' (f_ty fd)) (s_fields sd)) in *.
    assert (Hzlen : List.length zs = List.length (s_fields sd)) by (unfold zs; apply map_length).
    cbn [decode] in Hd. rewrite Hfs in Hd. cbv zeta in Hd. rewrite Hz in Hd.
    (* the facts about w when the target is a plain struct *)
    assert (Hplainw : forall tn tsd, t2 = TNamed tn -> find_struct T tn = Some tsd -> plain_struct tsd = true ->
               exists ws f0 f0', w = VStruct ws /\ List.length (s_fields tsd) = List.length ws /\ f = S f0 /\ f' = S f0').
    { intros tn tsd E Hft Hpt. subst t2. rewrite E in *. destruct (WF_plain_inv T tn tsd w Hft Hpt Hw2) as [ws [Ews [Hwl _]]].
      destruct f as [|f0]; [cbn in Hff; discriminate|].
      destruct f' as [|f0'].
      - exfalso. destruct (hook_compiled T sd); cbn in HX; try discriminate; inversion HX; subst; rewrite E in Hd; cbn in Hd; discriminate.
      - eauto 10. }
    destruct (hook_compiled T sd) eqn:Eh; cbn in HX; try discriminate; inversion HX; subst X; clear HX.
    + (* shadow-field pairs *)
      rewrite <- Ht2 in Hd.
      destruct (decode T f' t2 (encode T f t2 w)) as [sub|] eqn:Esub; cbn in Hd; [|discriminate]. inversion Hd; subst v'. clear Hd.
      destruct (IH t2 w Hw2 Hty2 Hff f' sub Esub) as [Hes _].
      cbn [hook_out] in Hout. destruct (sh_out sh (VStruct vs)) as [w0|] eqn:Ew0; cbn in Hout; [|discriminate].
      assert (w0 = w) by (inversion Hout; reflexivity). subst w0.
      assert (Hrt : sh_out sh (sh_in sh (VStruct zs) sub) = Some sub).
      { destruct f as [|f0]; [cbn in Hff; discriminate|]. destruct f' as [|f0']; [cbn in Esub; discriminate|].
        eapply (shadow_roundtrip T HM sd sh vs w f0 f0' sub zs Hok Eh Hlen Hzlen Ew0 Hside).
        intros tn tsd E Hft Hpt Hsok Hne. rewrite <- Ht2 in E.
        destruct (Hplainw tn tsd E Hft Hpt) as (ws & g0 & g0' & Ews & Hwl & Eg & Eg'). inversion Eg; inversion Eg'; subst g0 g0'.
        exists ws. rewrite <- E. repeat split; assumption. }
      destruct (fold_in_struct sub (sh_pairs sh) zs) as [vs'' [Evs'' _]].
      assert (Hv' : exists vs', sh_in sh (VStruct zs) sub = VStruct vs').
      { rewrite sh_in_eq. destruct (iset_struct (sh_tgt sh) [] sub zs) as [zs' Ezs'].
        rewrite Ezs'. destruct (fold_in_struct sub (sh_pairs sh) zs') as [vs' [E _]]. eauto. }
      destruct Hv' as [vs' Ev']. rewrite Ev' in *.
      split; [|intros _; reflexivity].
      cbn [encode]. rewrite Hfs, Eh. cbn [hook_out]. rewrite Hrt. cbn [option_map]. rewrite <- Ht2. exact Hes.
    + (* FilterChain *)
      rewrite <- Ht2 in Hd.
      destruct (decode T f' t2 (encode T f t2 w)) as [sub|] eqn:Esub; cbn in Hd; [|discriminate].
      destruct (IH t2 w Hw2 Hty2 Hff f' sub Esub) as [Hes _].
      cbn [hook_out] in Hout. destruct (chain_out tgt ctxs single set (VStruct vs)) as [w0|] eqn:Ew0; cbn in Hout; [|discriminate].
      assert (w0 = w) by (inversion Hout; reflexivity). subst w0.
      destruct (hook_ok_chain T sd tgt ctxs single set Hok Eh) as (_ & _ & _ & _ & tn & tsd & _ & _ & _ & _ & Etn & Hft & Hpt & Hsok & _).
      destruct (Hplainw tn tsd ltac:(rewrite Ht2; exact Etn) Hft Hpt) as (ws & f0 & f0' & Ews & Hwl & Ef & Ef'). subst f f'.
      rewrite Ht2, Etn in Hff, Esub.
      pose proof (chain_roundtrip T sd tgt ctxs single set vs w ws tn tsd f0 f0' sub zs _ v' Hok Eh Hlen Hzlen Ew0 Hside Etn Hft Ews Hwl Hff Esub Hd) as Hrt.
      assert (Hv' : exists vs', v' = VStruct vs') by (eapply chain_in_struct; exact Hd).
      destruct Hv' as [vs' ->].
      split; [|intros _; reflexivity].
      rewrite (encode_hooked T (S f0) n sd vs' (TNamed tn) sub Hfs) by (rewrite Eh; cbn [hook_out]; rewrite Hrt; cbn [option_map]; rewrite Etn; reflexivity).
      rewrite Ht2, Etn in Hes. rewrite Ht2, Etn. exact Hes.
    + (* inline mode *)
      rewrite <- Ht2 in Hd.
      destruct (decode T f' t2 (encode T f t2 w)) as [sub|] eqn:Esub; cbn in Hd; [|discriminate].
      destruct (IH t2 w Hw2 Hty2 Hff f' sub Esub) as [Hes _].
      cbn [hook_out] in Hout. destruct (inline_out tgt hidden pathf inlf (VStruct vs)) as [w0|] eqn:Ew0; cbn in Hout; [|discriminate].
      assert (w0 = w) by (inversion Hout; reflexivity). subst w0.
      destruct (hook_ok_inline T sd tgt hidden pathf inlf Hok Eh) as (_ & _ & _ & _ & _ & tn & tsd & _ & _ & _ & Etn & Hft & Hpt & Hsok & _).
      destruct (Hplainw tn tsd ltac:(rewrite Ht2; exact Etn) Hft Hpt) as (ws & f0 & f0' & Ews & Hwl & Ef & Ef'). subst f f'.
      rewrite Ht2, Etn in Hff, Esub, Hw2.
      pose proof (inline_roundtrip T sd tgt hidden pathf inlf vs w ws tn tsd f0 f0' (S f0') sub zs v' Hok Eh Hlen eq_refl Ew0 Hside Etn Hft Ews Hwl Hw2 Hff Esub Hd) as Hrt.
      assert (Hv' : exists vs', v' = VStruct vs') by (eapply inline_in_struct; exact Hd).
      destruct Hv' as [vs' ->].
      split; [|intros _; reflexivity].
      rewrite (encode_hooked T (S f0) n sd vs' (TNamed tn) sub Hfs) by (rewrite Eh; cbn [hook_out]; rewrite Hrt; cbn [option_map]; rewrite Etn; reflexivity).
      rewrite Ht2, Etn in Hes. rewrite Ht2, Etn. exact Hes.
    + (* Listener *)
      rewrite <- Ht2 in Hd.
      destruct (decode T f' t2 (encode T f t2 w)) as [sub|] eqn:Esub; cbn in Hd; [|discriminate].
      destruct (IH t2 w Hw2 Hty2 Hff f' sub Esub) as [Hes _].
      cbn [hook_out] in Hout. destruct (listener_out tgt addr addrcfg (VStruct vs)) as [w0|] eqn:Ew0; cbn in Hout; [|discriminate].
      assert (w0 = w) by (inversion Hout; reflexivity). subst w0.
      destruct (hook_ok_listener T sd tgt addr addrcfg network perconn Hok Eh) as (_ & _ & _ & _ & _ & _ & _ & tn & tsd & _ & _ & Etn & Hft & Hpt & Hsok & _).
      destruct (Hplainw tn tsd ltac:(rewrite Ht2; exact Etn) Hft Hpt) as (ws & f0 & f0' & Ews & Hwl & Ef & Ef'). subst f f'.
      rewrite Ht2, Etn in Hff, Esub.
      pose proof (listener_roundtrip T sd tgt addr addrcfg network perconn vs w ws tn tsd f0 f0' sub zs v' Hok Eh Hlen Hzlen Ew0 Hside Etn Hft Ews Hwl Hff Esub Hd) as Hrt.
      assert (Hv' : exists vs', v' = VStruct vs') by (eapply listener_in_struct; exact Hd).
      destruct Hv' as [vs' ->].
      split; [|intros _; reflexivity].
      rewrite (encode_hooked T (S f0) n sd vs' (TNamed tn) sub Hfs) by (rewrite Eh; cbn [hook_out]; rewrite Hrt; cbn [option_map]; rewrite Etn; reflexivity).
      rewrite Ht2, Etn in Hes. rewrite Ht2, Etn. exact Hes.
  - (* a marshaler carried as JSON *)
    assert (E : forall g, encode T (S g) (TNamed n) (VJson j) = j) by (intros g; cbn [encode]; rewrite Hfs, Hc; reflexivity).
    rewrite E in Hd. cbn [decode] in Hd. rewrite Hfs in Hd. cbv zeta in Hd. rewrite Hc in Hd.
    assert (v' = VJson j) by (destruct j; congruence). subst v'. rewrite E. split; reflexivity.
Qed.

(* ================================================================================================ *)
(* F. the generated graph                                                                            *)
(* ================================================================================================ *)
Lemma table_ok2_true : table_ok2 cfg_structs = true.
Proof. vm_compute. reflexivity. Qed.

Definition sd_meta : sdesc := mkS "v2.MetadataConfig" [mkF "MetaKey" "filter_metadata" false false false (TNamed "v2.LbMeta")] HkNone UkNone false.
Definition sd_lbmeta : sdesc := mkS "v2.LbMeta" [mkF "LbMetaKey" "mosn.lb" false false false (TMap TAny)] HkNone UkNone false.
Lemma find_meta : find_struct cfg_structs "v2.MetadataConfig" = Some sd_meta.
Proof. vm_compute. reflexivity. Qed.
Lemma find_lbmeta : find_struct cfg_structs "v2.LbMeta" = Some sd_lbmeta.
Proof. vm_compute. reflexivity. Qed.

(* string maps as lists of pairs *)
Lemma all_strings_pairs es : all_strings es -> exists ks : list (string * string), es = map (fun ks => (fst ks, VStr (snd ks))) ks.
Proof.
  induction 1 as [|[k x] es [s Hs] _ [ks IH]]; [exists []; reflexivity|].
  cbn in Hs. subst x es. exists ((k, s) :: ks). reflexivity.
Qed.

Lemma enc_any_strs f (ks : list (string * string)) :
  map (fun kv : string * val => (fst kv, encode cfg_structs (S f) TAny (snd kv))) (map any_of_str (map (fun ks => (fst ks, VStr (snd ks))) ks))
  = map (fun ks => (fst ks, JStr (snd ks))) ks.
Proof. induction ks as [|[k s] ks IH]; cbn; [reflexivity|]. f_equal. exact IH. Qed.

Lemma dec_any_strs f (ks : list (string * string)) :
  sequence (map (fun kv : string * json => option_bind (decode cfg_structs (S f) TAny (snd kv)) (fun x => Some (fst kv, x)))
                (map (fun ks => (fst ks, JStr (snd ks))) ks))
  = Some (map any_of_str (map (fun ks => (fst ks, VStr (snd ks))) ks)).
Proof. induction ks as [|[k s] ks IH]; cbn; [reflexivity|]. cbn in IH. rewrite IH. reflexivity. Qed.

Lemma meta_rt_cfg : meta_rt cfg_structs.
Proof.
  unfold meta_rt. intros t Ht r e es Hstr fuel fuel' x Hff Hd.
  destruct t as [| | | | |t'| | | | |]; try discriminate. destruct t' as [| | | |n| | | | | |]; try discriminate.
  cbn in Ht. apply String.eqb_eq in Ht. subst n.
  destruct (all_strings_pairs _ Hstr) as [ks0 Eks]. destruct ks0 as [|[k0 s0] ks0]; [discriminate Eks|].
  remember ((k0, s0) :: ks0) as ks eqn:Eks1.
  change (call_marshal_fn "metadataToConfig" (VRef r (e :: es)))
    with (VRef 0 [("", VStruct [VStruct [VRef 0 (map any_of_str (e :: es))]])]) in *.
  rewrite Eks in *. clear Eks Hstr e es.
  set (m := map any_of_str (map (fun kz : string * string => (fst kz, VStr (snd kz))) ks)) in *.
  (* enough fuel on the way out *)
  destruct fuel as [|f1]; [discriminate Hff|]. cbn [encode] in Hff, Hd.
  destruct f1 as [|f2]; [discriminate Hff|]. cbn [encode] in Hff, Hd. rewrite find_meta in Hff, Hd.
  change (hook_compiled cfg_structs sd_meta) with CNone in Hff, Hd. cbn [enc_fields sd_meta s_fields f_skip f_omit f_embed f_json f_ty orb andb splice app] in Hff, Hd.
  destruct f2 as [|f3]; [discriminate Hff|]. cbn [encode] in Hff, Hd. rewrite find_lbmeta in Hff, Hd.
  change (hook_compiled cfg_structs sd_lbmeta) with CNone in Hff, Hd. cbn [enc_fields sd_lbmeta s_fields f_skip f_omit f_embed f_json f_ty orb andb splice app] in Hff, Hd.
  destruct f3 as [|f4]; [discriminate Hff|]. cbn [encode] in Hff, Hd.
  destruct f4 as [|f5].
  { exfalso. unfold m in Hff. rewrite Eks1 in Hff. cbn in Hff. discriminate Hff. }
  unfold m in Hd. rewrite enc_any_strs in Hd.
  (* and back *)
  destruct fuel' as [|g1]; [discriminate Hd|]. cbn [decode] in Hd.
  destruct g1 as [|g2]; [discriminate Hd|]. cbn [decode] in Hd. rewrite find_meta in Hd. cbv zeta in Hd.
  change (hook_compiled cfg_structs sd_meta) with CNone in Hd.
  cbn [map sd_meta s_fields f_skip f_json f_ty lookup_member] in Hd. rewrite key_eq_refl in Hd.
  destruct g2 as [|g3]; [discriminate Hd|]. cbn [decode] in Hd. rewrite find_lbmeta in Hd. cbv zeta in Hd.
  change (hook_compiled cfg_structs sd_lbmeta) with CNone in Hd.
  cbn [map sd_lbmeta s_fields f_skip f_json f_ty lookup_member] in Hd. rewrite key_eq_refl in Hd.
  destruct g3 as [|g4]; [discriminate Hd|]. cbn [decode] in Hd.
  destruct g4 as [|g5].
  { exfalso. rewrite Eks1 in Hd. cbn in Hd. discriminate Hd. }
  rewrite dec_any_strs in Hd. cbn in Hd. inversion Hd. reflexivity.
Qed.

(* ---- the boolean check decides well-formedness (soundness) *)
Lemma forallb_strs es : forallb (fun kv : string * val => match snd kv with VStr _ => true | _ => false end) es = true -> all_strings es.
Proof.
  induction es as [|[k x] es IH]; cbn; intros H; [constructor|].
  apply andb_true_iff in H. destruct H as [H1 H2]. constructor; [|apply IH; exact H2].
  destruct x; try discriminate. cbn. eauto.
Qed.

Lemma wfb_sound T : forall fuel t v, wfb T fuel t v = true -> WF T t v.
Proof.
  induction fuel as [|f IH]; intros t v H; [discriminate|].
  destruct v; cbn [wfb] in H; try (apply WF_leaf; [exact I|exact H]).
  - (* struct *)
    destruct t; try discriminate. destruct (find_struct T n) as [sd|] eqn:Efs; [|discriminate].
    destruct (plain_struct sd) eqn:Ep.
    + apply (WF_plain T n sd fs Efs Ep).
      revert H. generalize (s_fields sd). induction fs as [|x fs IHfs]; intros fds H; destruct fds as [|fd fds]; try discriminate; [constructor|].
      apply andb_true_iff in H. destruct H as [H1 H2]. constructor; [apply IH; exact H1|apply IHfs; exact H2].
    + destruct (hook_out T sd (hook_compiled T sd) (VStruct fs)) as [[t2 w]|] eqn:Eo; [|discriminate].
      apply andb_true_iff in H. destruct H as [H Hs]. apply andb_true_iff in H. destruct H as [H Hw].
      apply andb_true_iff in H. destruct H as [Hl Hm]. apply Nat.eqb_eq in Hl. apply negb_true_iff in Hm.
      apply (WF_hooked T n sd fs t2 w Efs Eo); try assumption; [|apply IH; exact Hw].
      destruct (hook_compiled T sd) eqn:Eh; try discriminate; cbn [hook_side].
      * unfold shadow_side. apply Forall_forall. intros [[i Hh] c] Hp. rewrite forallb_forall in Hs. specialize (Hs _ Hp). cbn beta iota in Hs.
        destruct c; [exact I|]. intros h Hh'. rewrite Hh' in Hs.
        destruct h; try discriminate; [left; reflexivity|right; eexists; eexists; split; [reflexivity|apply forallb_strs; exact Hs]].
      * unfold chain_side. destruct (iget [ctxs] (VStruct fs)) as [[]|]; try discriminate. destruct es; [discriminate|]. eauto.
      * unfold inline_side. destruct (iget [tgt; pathf] (VStruct fs)) as [[]|]; try discriminate. apply String.eqb_eq in Hs. subst. reflexivity.
      * unfold listener_side. destruct (iget [addr] (VStruct fs)) as [[]|]; try discriminate.
        destruct (iget [tgt; network] (VStruct fs)) as [[]|]; try discriminate.
        apply andb_true_iff in Hs. destruct Hs as [Hs H3]. apply andb_true_iff in Hs. destruct Hs as [H1 H2].
        apply negb_true_iff in H1. apply String.eqb_neq in H1. apply String.eqb_eq in H2.
        exists coder, payload, s. repeat split; try assumption.
        apply orb_true_iff in H3. destruct H3 as [H3|H3]; [apply orb_true_iff in H3; destruct H3 as [H3|H3]|]; apply String.eqb_eq in H3; auto.
  - (* references *)
    destruct t; try discriminate.
    + destruct es as [|[k x] es]; [discriminate|]. destruct es; [|discriminate]. apply WF_ptr. apply IH. exact H.
    + apply WF_slice. apply Forall_forall. intros kv Hin. rewrite forallb_forall in H. apply IH. apply H. exact Hin.
    + apply WF_map. apply Forall_forall. intros kv Hin. rewrite forallb_forall in H. apply IH. apply H. exact Hin.
  - (* JSON *)
    destruct t; try (apply WF_leaf; [exact I|exact H]).
    destruct (find_struct T n) as [sd|] eqn:Efs; [|discriminate].
    destruct (hook_compiled T sd) eqn:Eh; try discriminate.
    apply (WF_json T n sd j Efs Eh). intros ->. discriminate.
Qed.

Theorem roundtrip_full_cfg : forall fuel t v, WF cfg_structs t v -> ty_ok cfg_structs t = true ->
  fuel_free (encode cfg_structs fuel t v) = true ->
  forall fuel' v', decode cfg_structs fuel' t (encode cfg_structs fuel t v) = Some v' ->
    encode cfg_structs fuel t v' = encode cfg_structs fuel t v /\ (is_empty v = false -> is_empty v' = false).
Proof. exact (stable_full cfg_structs table_ok2_true meta_rt_cfg). Qed.

Lemma example_full :
  wfb cfg_structs 64 (TNamed "v2.MOSNConfig") w_cfg = true /\
  ty_ok cfg_structs (TNamed "v2.MOSNConfig") = true /\
  fuel_free (encode cfg_structs 64 (TNamed "v2.MOSNConfig") w_cfg) = true /\
  (exists v', decode cfg_structs 64 (TNamed "v2.MOSNConfig") (encode cfg_structs 64 (TNamed "v2.MOSNConfig") w_cfg) = Some v') /\
  json_eqb (encode cfg_structs 64 (TNamed "v2.MOSNConfig") w_cfg) w_doc = false.
Proof.
  split; [vm_compute; reflexivity|]. split; [vm_compute; reflexivity|]. split; [vm_compute; reflexivity|].
  split; [eexists; vm_compute; reflexivity|vm_compute; reflexivity].
Qed.

(* ================================================================================================ *)
(* path (directory) mode: the directory of items of the generated graph                             *)
(* ================================================================================================ *)
From Coq Require Import Permutation.

(* items: the clusters / virtual hosts of a container in path mode, as values of their type t in the generated graph.
   The no-collision premise is explicit; that every document decodes and that the reloaded item keeps its name are
   premises too (checked on the real code on every run); that the reloaded item prints as the item did is
   roundtrip_full_cfg. *)
Theorem path_mode_dir_roundtrip_cfg fuel t (name_of : val -> string) (d : dir) (items : list val) :
  NoDup (map fst d) ->
  NoDup (map (fun it => file_name src_max_file_path canon_ops (name_of it)) items) ->
  ty_ok cfg_structs t = true ->
  (forall it, In it items ->
     WF cfg_structs t it /\ fuel_free (encode cfg_structs fuel t it) = true /\
     exists v', decode cfg_structs fuel t (encode cfg_structs fuel t it) = Some v' /\ name_of v' = name_of it) ->
  exists l,
    path_read loader_accepts (decode cfg_structs fuel t)
      (path_write (fun it => file_name src_max_file_path canon_ops (name_of it)) (encode cfg_structs fuel t) d items) = Some l /\
    List.length l = List.length items /\
    forall d', NoDup (map fst d') ->
      Permutation (path_write (fun it => file_name src_max_file_path canon_ops (name_of it)) (encode cfg_structs fuel t) d' l)
                  (path_write (fun it => file_name src_max_file_path canon_ops (name_of it)) (encode cfg_structs fuel t) d items).
Proof.
  intros Hd Hi Hty Hit.
  apply (path_redump (fun it => file_name src_max_file_path canon_ops (name_of it)) (encode cfg_structs fuel t)
                     loader_accepts (decode cfg_structs fuel t) d items Hd Hi).
  - intros it _. apply loader_accepts_canon.
  - intros it Hin. destruct (Hit it Hin) as [Hwf [Hff [v' [Hdec Hname]]]]. exists v'.
    split; [exact Hdec|]. split.
    + exact (proj1 (roundtrip_full_cfg fuel t it Hwf Hty Hff fuel v' Hdec)).
    + rewrite Hname. reflexivity.
Qed.

(* ================================================================================================ *)
(* the metadata coder is the identity on string maps (loaded value, not only its print)             *)
(* ================================================================================================ *)
Lemma metadata_coder_identity r es : all_strings es ->
  call_unmarshal_fn "configToMetadata" (call_marshal_fn "metadataToConfig" (VRef r es)) = VRef 0 es.
Proof.
  intros H. destruct es as [|e es]; [reflexivity|].
  change (call_marshal_fn "metadataToConfig" (VRef r (e :: es))) with (VRef 0 [("", VStruct [VStruct [VRef 0 (map any_of_str (e :: es))]])]).
  change (call_unmarshal_fn "configToMetadata" (VRef 0 [("", VStruct [VStruct [VRef 0 (map any_of_str (e :: es))]])]))
    with (VRef 0 (flat_map (fun kv : string * val => match snd kv with VJson (JStr s) => [(fst kv, VStr s)] | _ => [] end) (map any_of_str (e :: es)))).
  rewrite (config_to_metadata_of_strings (e :: es) H). reflexivity.
Qed.

(* ... through the text: dump the metadata of a host / route / weighted cluster, load the text, convert back *)
Theorem metadata_text_identity t : is_meta_slot t = true -> forall r e es, all_strings (e :: es) ->
  forall fuel fuel' x,
    fuel_free (encode cfg_structs fuel t (call_marshal_fn "metadataToConfig" (VRef r (e :: es)))) = true ->
    decode cfg_structs fuel' t (encode cfg_structs fuel t (call_marshal_fn "metadataToConfig" (VRef r (e :: es)))) = Some x ->
    call_unmarshal_fn "configToMetadata" x = VRef 0 (e :: es).
Proof.
  intros Ht r e es Hs fuel fuel' x Hff Hd.
  rewrite (meta_rt_cfg t Ht r e es Hs fuel fuel' x Hff Hd). apply metadata_coder_identity. exact Hs.
Qed.

(* non-vacuity, and what the model does with members that are not strings: they are not metadata *)
Lemma metadata_examples :
  call_unmarshal_fn "configToMetadata" (call_marshal_fn "metadataToConfig" (VRef 7 [("version", VStr "1.10"); ("zeros", VStr "007"); ("t", VStr "true"); ("e", VStr "")]))
    = VRef 0 [("version", VStr "1.10"); ("zeros", VStr "007"); ("t", VStr "true"); ("e", VStr "")] /\
  encode cfg_structs 8 (TPtr (TNamed "v2.MetadataConfig")) (call_marshal_fn "metadataToConfig" (VRef 7 [("version", VStr "1.10"); ("t", VStr "true")]))
    = JObj [("filter_metadata", JObj [("mosn.lb", JObj [("version", JStr "1.10"); ("t", JStr "true")])])] /\
  option_map (call_unmarshal_fn "configToMetadata")
    (decode cfg_structs 8 (TPtr (TNamed "v2.MetadataConfig"))
       (JObj [("filter_metadata", JObj [("mosn.lb", JObj [("version", JStr "1.10"); ("n", JNum "2"); ("b", JBool true); ("z", JNull)])])]))
    = Some (VRef 0 [("version", VStr "1.10")]).
Proof. split; [reflexivity|]. split; vm_compute; reflexivity. Qed.
