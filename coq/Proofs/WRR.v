(* C05 (ChooseHost with unhealthy hosts) composed with C06 (EDF window bound). *)
From Coq Require Import List ZArith NArith Bool Lia Arith.
From MV Require Import Model.LB Model.Edf Model.WRR Proofs.LB Proofs.Edf.
Import ListNotations.
Open Scope Z_scope.

Lemma edf_try_some : forall hs pick n i h k, edf_try hs pick n i = (Some h, k) ->
  (i < k <= i + n)%nat /\
  (forall j, (i <= j < k - 1)%nat -> healthy_opt (get hs (pick j)) = false) /\
  get hs (pick (k - 1)%nat) = Some h /\ hhealthy h = true.
Proof.
  induction n as [|n IH]; intros i h k H; cbn in H; [discriminate|].
  destruct (get hs (pick i)) as [t|] eqn:G; [|discriminate].
  destruct (hhealthy t) eqn:Ht.
  - inversion H; subst. replace (S i - 1)%nat with i by lia. repeat split; auto; try lia; intros j Hj; lia.
  - destruct (IH _ _ _ H) as (Hk & Hsk & Hg & Hh). repeat split; auto; try lia.
    intros j Hj. destruct (Nat.eq_dec j i) as [->|Hne]; [rewrite G; cbn; auto|apply Hsk; lia].
Qed.

Lemma edf_try_none : forall hs pick n i k, hs <> [] -> edf_try hs pick n i = (None, k) ->
  k = (i + n)%nat /\ forall j, (i <= j < k)%nat -> healthy_opt (get hs (pick j)) = false.
Proof.
  induction n as [|n IH]; intros i k Hne H; cbn in H.
  - inversion H; subst. split; [lia|]. intros; lia.
  - destruct (get hs (pick i)) as [t|] eqn:G.
    + destruct (hhealthy t) eqn:Ht; [discriminate|].
      destruct (IH _ _ Hne H) as (Hk & Hall). split; [lia|].
      intros j Hj. destruct (Nat.eq_dec j i) as [->|Hn]; [rewrite G; cbn; auto|apply Hall; lia].
    + destruct (get_some hs (pick i) Hne) as [x Hx]. congruence.
Qed.

Lemma count_pick_app : forall i a b, count_pick i (a ++ b) = count_pick i a + count_pick i b.
Proof. intros. unfold count_pick. rewrite filter_app, app_length. lia. Qed.

Lemma count_pick_zero : forall i l, (forall p, In p l -> p <> i) -> count_pick i l = 0.
Proof.
  intros i l H. unfold count_pick. induction l as [|p l IH]; cbn; auto.
  destruct (Nat.eqb_spec i p) as [->|Hne].
  - exfalso. apply (H p); [left; auto|auto].
  - apply IH. intros q Hq. apply H; right; auto.
Qed.

Section Calls.
  Variable hs : list host.
  Variable i : nat.
  Variable hi : host.
  Hypothesis Hi : nth_error hs i = Some hi.
  Hypothesis Hh : hhealthy hi = true.

  Lemma get_i : get hs (Z.of_nat i) = Some hi.
  Proof.
    assert (Hlt : (i < length hs)%nat) by (apply nth_error_Some; congruence).
    rewrite (get_nth hs i hi Hlt). f_equal. apply nth_error_nth; auto.
  Qed.

  (* a pick the model treats as unhealthy is not position i *)
  Lemma unhealthy_not_i : forall p, healthy_opt (get hs (Z.of_nat p)) = false -> p <> i.
  Proof. intros p H ->. rewrite get_i in H. cbn in H. congruence. Qed.

  (* a call contributes to host i's count exactly through its returned position *)
  Lemma call_count : forall c, classify hs c <> CBad ->
    count_pick i c = count_pick i (match classify hs c with CHit _ => [last c 0%nat] | _ => [] end).
  Proof.
    intros c Hc. unfold classify in *.
    assert (Hne : hs <> []) by (destruct hs; [destruct i; discriminate|discriminate]).
    destruct (edf_try hs (pick_fn c) (length hs) 0) as [[h|] k] eqn:E.
    - destruct (Nat.eqb_spec k (length c)) as [->|]; [|congruence].
      destruct (edf_try_some _ _ _ _ _ _ E) as (Hk & Hsk & Hg & Hhh).
      destruct c as [|x c0]; [cbn in Hk; lia|].
      destruct (@exists_last _ (x :: c0) ltac:(discriminate)) as (sk & r & Ec). rewrite Ec in *.
      rewrite last_last, count_pick_app. rewrite app_length in *; cbn [length] in *.
      rewrite count_pick_zero; [lia|].
      intros p Hp. destruct (In_nth sk p 0%nat Hp) as (j & Hj & Hnth).
      apply unhealthy_not_i. specialize (Hsk j ltac:(lia)). unfold pick_fn in Hsk.
      rewrite app_nth1 in Hsk by lia. rewrite Hnth in Hsk. exact Hsk.
    - destruct (Nat.eqb_spec k (length c)) as [->|]; cbn [andb] in *; [|congruence].
      destruct (Nat.eqb_spec (length c) (length hs)); [|congruence].
      destruct (edf_try_none _ _ _ _ _ Hne E) as (_ & Hall).
      unfold count_pick at 2; cbn. apply count_pick_zero.
      intros p Hp. destruct (In_nth c p 0%nat Hp) as (j & Hj & Hnth).
      apply unhealthy_not_i. specialize (Hall j ltac:(lia)). unfold pick_fn in Hall. rewrite Hnth in Hall. exact Hall.
  Qed.

  Lemma calls_count : forall calls, calls_ok hs calls = true ->
    count_pick i (concat calls) = count_pick i (hit_positions hs calls).
  Proof.
    induction calls as [|c calls IH]; intros Hok; cbn [concat hit_positions flat_map]; auto.
    cbn in Hok. apply andb_prop in Hok. destruct Hok as [Hc Hrest].
    rewrite !count_pick_app, IH by auto. f_equal. apply call_count.
    intros E. rewrite E in Hc. discriminate.
  Qed.
End Calls.

(* The composed statement.  Hosts hs with weights ws (position by position); the scheduler starts in any state
   reachable from the initial one (pre: the unobserved pre-picks of refresh and any earlier traffic); then a
   sequence of ChooseHost calls, each described by the scheduler picks it consumed, which together form a run
   of the scheduler (every pick deadline-minimal, any tie-break).  Calls either return the first healthy pick
   or, after `total` unhealthy picks, fall back to round robin.  Then for any two HEALTHY hosts i, j the numbers
   of times the scheduler path returned them obey the C06 window bound - unhealthy hosts in between, skipped
   picks and fallback calls included. *)
Theorem wrr_window : forall hs ws pre s0 calls s1,
  Forall (fun w => 0 < w) ws ->
  edf_run (edf_of_weights ws) pre = Some s0 ->
  edf_run s0 (concat calls) = Some s1 ->
  calls_ok hs calls = true ->
  forall i j wi wj hi hj,
  nth_error ws i = Some wi -> nth_error ws j = Some wj ->
  nth_error hs i = Some hi -> nth_error hs j = Some hj -> hhealthy hi = true -> hhealthy hj = true ->
  Z.abs (count_pick i (hit_positions hs calls) * wj - count_pick j (hit_positions hs calls) * wi) <= wi + wj.
Proof.
  intros hs ws pre s0 calls s1 Hpos Hpre Hrun Hok i j wi wj hi hj Hwi Hwj Hhi Hhj Hi Hj.
  rewrite <- (calls_count hs i hi Hhi Hi calls Hok), <- (calls_count hs j hj Hhj Hj calls Hok).
  eapply edf_window_weights; eauto.
Qed.

(* what a CHit call is in terms of Model/LB.v: the WRR balancer's answer, all picks consumed, cursor untouched *)
Theorem hit_is_wrr_choose : forall hs c h rr, (2 <= length hs)%nat -> classify hs c = CHit h ->
  wrr_choose hs true (pick_fn c) rr = (Some h, rr, 0%nat, length c) /\ hhealthy h = true /\
  get hs (Z.of_nat (last c 0%nat)) = Some h.
Proof.
  intros hs c h rr Hlen Hc. unfold classify in Hc.
  destruct (edf_try hs (pick_fn c) (length hs) 0) as [[h'|] k] eqn:E.
  - destruct (Nat.eqb_spec k (length c)) as [->|]; [|discriminate]. inversion Hc; subst h'.
    destruct (edf_try_some _ _ _ _ _ _ E) as (Hk & _ & Hg & Hh).
    split; [|split; auto].
    + unfold wrr_choose, edf_choose. destruct hs as [|a [|b l]]; cbn [length] in Hlen; try lia.
      rewrite E. reflexivity.
    + destruct c as [|x c0]; [cbn in Hk; lia|].
      destruct (@exists_last _ (x :: c0) ltac:(discriminate)) as (sk & r & Ec). rewrite Ec in *.
      rewrite last_last. unfold pick_fn in Hg. rewrite app_length in Hg; cbn [length] in Hg.
      replace (length sk + 1 - 1)%nat with (length sk) in Hg by lia. rewrite nth_middle in Hg. exact Hg.
  - destruct (Nat.eqb k (length c) && Nat.eqb k (length hs)); discriminate.
Qed.
