(* Built-in deny filters inside the proxy model: the chain of a request (every built-in filter with the verdict it returns for
   THIS request, Model/ProxyBuiltin.v [builtin_cfg]) is a member of the configuration family for the enumerated listener
   configurations / routes / requests, so the family theorems apply: denied => never forwarded, for every schedule. *)
From Coq Require Import List ZArith Bool Arith Lia.
From MV Require Import Model.Proxy Model.ProxySpec Model.ProxyBuiltin Proofs.ProxyReach Proofs.ProxyFamily Proofs.ProxyFam
  Proofs.ProxyRefute Proofs.ProxyThm Proofs.ProxySrc.
Import ListNotations.
Open Scope Z_scope.

Lemma fam_builtin_in_family : forall c, In c fam_builtin -> In c family.
Proof. intros c H. unfold family. apply in_or_app; right. apply in_or_app; right. apply in_or_app; right. apply in_or_app; right.
  apply in_or_app; left. exact H. Qed.

Lemma builtin_member : forall r q, In r b_routes -> In q b_reqs -> In (builtin_cfg bl_all r q) family.
Proof.
  intros r q Hr Hq. apply fam_builtin_in_family. unfold fam_builtin. apply in_or_app. left.
  apply in_flat_map. exists r. split; [exact Hr|]. apply in_map. exact Hq.
Qed.

(* denied by a built-in filter => never forwarded, the reply is the filter's: every schedule over the alphabet *)
Lemma builtin_denied_family : forall r q, In r b_routes -> In q b_reqs -> forall sched, Forall allowed sched ->
  let g := summ src_tree (builtin_cfg bl_all r q) sched in
  g_denied g = true -> g_new g = 0%nat /\ g_new_after_deny g = false /\
  (g_started g = true -> exists k code, g_reply_kind g = Some (k, code) /\ k <> KUp).
Proof. intros r q Hr Hq. exact (c14_denied_family _ (builtin_member r q Hr Hq)). Qed.

(* and the decision does reach the proxy: with the worker running to the end, a request the chain denies is answered with the
   denying filter's status and no upstream stream is ever created; a request the chain allows is forwarded once *)
Definition builtin_run_ok (l : lcfg) (r : rcfg) (q : breq) : bool :=
  let g := summ src_tree (builtin_cfg l r q) drive in
  match first_deny (decide_spec l r q) with
  | Deny s => g_denied g && (g_new g =? 0)%nat && g_ended g &&
              match g_reply_kind g with Some (KHijack, z) => z =? s | _ => false end
  | Allow => negb (g_denied g) && (g_new g =? 1)%nat
  end.

Lemma builtin_runs : forallb (fun r => forallb (fun q => builtin_run_ok bl_all r q) b_reqs) b_routes = true.
Proof. vm_compute. reflexivity. Qed.

Lemma builtin_run : forall r q, In r b_routes -> In q b_reqs -> builtin_run_ok bl_all r q = true.
Proof.
  intros r q Hr Hq. pose proof builtin_runs as H. rewrite forallb_forall in H. specialize (H r Hr).
  rewrite forallb_forall in H. exact (H q Hq).
Qed.

(* the scenario of the shared-configuration defect, in the proxy model with the tree's filters: the oversized request on the route
   without override is denied with 413 and not forwarded, whatever was served before *)
Lemma builtin_example_holds :
  let r := {| r_cluster := 0; r_pl := None; r_fi := None |} in
  let q := {| q_body := Some 20; q_fault_hdr := false; q_member := [Some false] |} in
  In r b_routes /\ In q b_reqs /\ first_deny (decide_spec bl_all r q) = Deny 413 /\
  g_new (summ src_tree (builtin_cfg bl_all r q) drive) = 0%nat /\
  g_reply_kind (summ src_tree (builtin_cfg bl_all r q) drive) = Some (KHijack, 413).
Proof. cbn zeta. repeat split; try (vm_compute; auto 20; fail). Qed.
