(* The downstream sender (stream layer) returns errors from AppendHeaders / AppendData / AppendTrailers: environment input of the
   append steps ([c_snd_err_hdr], [c_snd_err_data], [c_snd_err_trl] of the configuration).
   With the handling the tree has (appendHeaders logs the error and goes on to endStream; the other two results are discarded:
   switch [append_error_continues], true in [src_tree]) the sender's result changes nothing in the request state machine:
   [snd_err_run].  Hence every family theorem holds as well for the histories in which the sender fails.
   With the other handling (resetStream() and return) a header-only reply whose headers are refused is never cleaned:
   [witness_sender_error_never_cleaned]. *)
From Coq Require Import List ZArith Bool Arith Lia.
From RecordUpdate Require Import RecordSet.
From MV Require Import Model.Proxy Model.ProxySpec Proofs.ProxyReach Proofs.ProxyFamily Proofs.ProxyFam Proofs.ProxyRefute
  Proofs.ProxyThm Proofs.ProxySrc.
Import ListNotations RecordSetNotations.
Open Scope Z_scope.

Definition with_snd_err (c : cfg) (h d t : bool) : cfg :=
  c <| c_snd_err_hdr := h |> <| c_snd_err_data := d |> <| c_snd_err_trl := t |>.

Lemma snd_err_step : forall c h d t s x, do_step src_tree (with_snd_err c h d t) s x = do_step src_tree c s x.
Proof. intros. destruct x as [|e]; [|destruct e]; reflexivity. Qed.

Lemma snd_err_run : forall c h d t l s, run src_tree (with_snd_err c h d t) s l = run src_tree c s l.
Proof.
  induction l as [|x l IH]; intros s; [reflexivity|].
  cbn [run]. rewrite snd_err_step. destruct (do_step src_tree c s x) as [s1 o1]. rewrite IH. reflexivity.
Qed.

Lemma final_snd_err c h d t sched : final src_tree (with_snd_err c h d t) sched = final src_tree c sched.
Proof. unfold final. rewrite snd_err_run. reflexivity. Qed.
Lemma summ_snd_err c h d t sched : summ src_tree (with_snd_err c h d t) sched = summ src_tree c sched.
Proof. unfold summ, trace. rewrite snd_err_run. reflexivity. Qed.

(* ---------- the family theorems over histories with sender errors ---------- *)
Lemma c03_safe_snd_err : forall c, In c family -> forall h d t sched, Forall allowed sched ->
  c03_safe (summ src_tree (with_snd_err c h d t) sched).
Proof. intros c Hc h d t sched Hs. rewrite summ_snd_err. exact (c03_safe_family c Hc sched Hs). Qed.

Lemma c03_outcome_snd_err : forall c, In c family -> forall h d t sched, Forall allowed sched ->
  quiescent (final src_tree (with_snd_err c h d t) sched) = true -> no_defect (final src_tree (with_snd_err c h d t) sched) = true ->
  outcome (with_snd_err c h d t) sched (final src_tree (with_snd_err c h d t) sched) (summ src_tree (with_snd_err c h d t) sched).
Proof.
  intros c Hc h d t sched Hs. rewrite final_snd_err, summ_snd_err. intros Hq Hd.
  exact (c03_outcome_family c Hc sched Hs Hq Hd).
Qed.

Lemma c10_gauge_snd_err : forall c, In c family -> forall h d t sched, Forall allowed sched ->
  let s := final src_tree (with_snd_err c h d t) sched in let g := summ src_tree (with_snd_err c h d t) sched in
  (g_gauge g = 0 \/ g_gauge g = -1) /\ (cleaned s = true <-> g_gauge g = -1) /\
  (quiescent s = true -> no_defect s = true -> 1 + g_gauge g = 0).
Proof. intros c Hc h d t sched Hs. rewrite final_snd_err, summ_snd_err. exact (c10_gauge_family c Hc sched Hs). Qed.

(* filters destroyed at most once; at quiescence the stream is cleaned (cleanStream runs the destroy round) exactly once *)
Lemma c14_destroy_snd_err : forall c, In c family -> forall h d t sched, Forall allowed sched ->
  let g := summ src_tree (with_snd_err c h d t) sched in
  (g_destroy g <= 1)%nat /\
  (quiescent (final src_tree (with_snd_err c h d t) sched) = true -> no_defect (final src_tree (with_snd_err c h d t) sched) = true ->
   cleaned (final src_tree (with_snd_err c h d t) sched) = true /\ g_clean g = 1%nat).
Proof.
  intros c Hc h d t sched Hs g. split.
  - exact (proj1 (proj2 (proj2 (proj2 (c03_safe_snd_err c Hc h d t sched Hs))))).
  - intros Hq Hd. pose proof (c03_outcome_snd_err c Hc h d t sched Hs Hq Hd) as O.
    destruct O as (_ & Oc & On & _). split; assumption.
Qed.

(* ---------- the other handling: resetStream() and return ---------- *)
Definition src_append_error_resets : srcp := src_tree <| append_error_continues := false |>.
Definition cfg_hdr_refused : cfg := plain_cfg <| c_snd_err_hdr := true |>.
(* the upstream answers (headers only / with a body), the worker forwards the reply, the global timer fires afterwards *)
Definition sched_answered (body : bool) : list step :=
  repeat Worker 12 ++ [Env (EvUpResp 0 200 body false)] ++ repeat Worker 8 ++ [Env EvGlobal] ++ repeat Worker 4.

Lemma witness_sender_error_never_cleaned :
  (* header-only reply refused: resetStream() does nothing (upstreamProcessDone is already set), endStream() is skipped *)
  wdone (final src_append_error_resets cfg_hdr_refused (sched_answered false)) = true /\
  quiescent (final src_append_error_resets cfg_hdr_refused (sched_answered false)) = true /\
  cleaned (final src_append_error_resets cfg_hdr_refused (sched_answered false)) = false /\
  g_started (summ src_append_error_resets cfg_hdr_refused (sched_answered false)) = true /\
  g_clean (summ src_append_error_resets cfg_hdr_refused (sched_answered false)) = 0%nat /\
  g_destroy (summ src_append_error_resets cfg_hdr_refused (sched_answered false)) = 0%nat /\
  g_gauge (summ src_append_error_resets cfg_hdr_refused (sched_answered false)) = 0 /\
  (* a reply with a body whose headers are refused is reset and cleaned once *)
  cleaned (final src_append_error_resets cfg_hdr_refused (sched_answered true)) = true /\
  g_clean (summ src_append_error_resets cfg_hdr_refused (sched_answered true)) = 1%nat /\
  g_ended (summ src_append_error_resets cfg_hdr_refused (sched_answered true)) = false /\
  (* the handling in the tree: cleaned once, filters destroyed once, gauge back *)
  cleaned (final src_tree cfg_hdr_refused (sched_answered false)) = true /\
  g_clean (summ src_tree cfg_hdr_refused (sched_answered false)) = 1%nat /\
  g_destroy (summ src_tree cfg_hdr_refused (sched_answered false)) = 1%nat /\
  g_gauge (summ src_tree cfg_hdr_refused (sched_answered false)) = -1 /\
  g_ended (summ src_tree cfg_hdr_refused (sched_answered false)) = true.
Proof. vm_compute. repeat split; reflexivity. Qed.

Lemma witness_sender_error_gauge_stuck :
  quiescent (final src_append_error_resets cfg_hdr_refused (sched_answered false)) = true /\
  g_gauge (summ src_append_error_resets cfg_hdr_refused (sched_answered false)) = 0 /\
  g_gauge (summ src_tree cfg_hdr_refused (sched_answered false)) = -1.
Proof. vm_compute. repeat split; reflexivity. Qed.
Lemma witness_sender_error_no_destroy :
  quiescent (final src_append_error_resets cfg_hdr_refused (sched_answered false)) = true /\
  g_destroy (summ src_append_error_resets cfg_hdr_refused (sched_answered false)) = 0%nat /\
  g_destroy (summ src_tree cfg_hdr_refused (sched_answered false)) = 1%nat.
Proof. vm_compute. repeat split; reflexivity. Qed.

(* the outcome statement of C03 restricted to defect-free states is refuted by that handling *)
Lemma refuted_sender_error :
  ~ (forall c sched, quiescent (final src_append_error_resets c sched) = true -> no_defect (final src_append_error_resets c sched) = true ->
       cleaned (final src_append_error_resets c sched) = true).
Proof.
  intros H. specialize (H cfg_hdr_refused (sched_answered false)).
  pose proof witness_sender_error_never_cleaned as W.
  destruct W as (_ & Wq & Wc & _).
  assert (Hn : no_defect (final src_append_error_resets cfg_hdr_refused (sched_answered false)) = true) by (vm_compute; reflexivity).
  specialize (H Wq Hn). rewrite Wc in H. exact (Bool.diff_false_true H).
Qed.

(* non-vacuity of the histories with sender errors: a family member whose reply headers, body and trailers are all refused; the
   first connection attempt fails, the retry is answered *)
Lemma snd_err_example_holds :
  let c0 := mk false false false RouteForward 2 true 0 [] true 1 [] [] [PoolConnFail] in
  let c := with_snd_err c0 true true true in
  let sched := drive ++ [Env (EvUpResp 1 200 true true)] ++ drive in
  In c0 family /\ Forall allowed sched /\
  quiescent (final src_tree c sched) = true /\ no_defect (final src_tree c sched) = true /\ cleaned (final src_tree c sched) = true /\
  g_hdr (summ src_tree c sched) = 1%nat /\ g_ended (summ src_tree c sched) = true /\ g_clean (summ src_tree c sched) = 1%nat /\
  g_destroy (summ src_tree c sched) = 1%nat /\ 1 + g_gauge (summ src_tree c sched) = 0.
Proof.
  cbn zeta. split; [|split].
  - unfold family. apply in_or_app. right. apply in_or_app. right. apply in_or_app. left.
    vm_compute. repeat (first [left; reflexivity | right]).
  - repeat (apply Forall_app; split); try apply allowed_drive; repeat (apply Forall_cons || apply Forall_nil); cbn; auto.
  - vm_compute. repeat split; reflexivity.
Qed.
