(* General lemmas about Model/Proxy.v: for EVERY configuration, every source switch setting, every schedule.
   - cleanStream's effects (gauge decrement, access log, filter destroy) happen at most once, and [cleaned] tracks them;
   - the asynchronous handlers make no downstream call;
   - the status of the reply generated for an upstream reset is the reason's code;
   - retry decisions: characterisation of doRetryCheck; the budget. *)
From Coq Require Import List ZArith Bool Arith Lia.
From RecordUpdate Require Import RecordSet.
From MV Require Import Model.Proxy Model.ProxySpec.
Import ListNotations RecordSetNotations.
Open Scope Z_scope.

Definition is_gauge (o : out) : bool := match o with OGauge _ => true | _ => false end.
Definition is_log (o : out) : bool := match o with OLog => true | _ => false end.
Definition is_destroy (o : out) : bool := match o with ODestroy => true | _ => false end.
Definition is_down_out (o : out) : bool := match o with ODownHdr _ _ _ | ODownData _ _ | ODownTrl | ODownReset => true | _ => false end.
Definition count (p : out -> bool) (l : list out) : nat := length (filter p l).
Definition count_gauge := count is_gauge.
Definition count_log := count is_log.
Definition count_destroy := count is_destroy.

Lemma count_app p a b : count p (a ++ b) = (count p a + count p b)%nat.
Proof. unfold count. now rewrite filter_app, app_length. Qed.

(* ---------- the clean-once relation ---------- *)
Definition m3 (o : list out) : nat * nat * nat := (count_gauge o, count_log o, count_destroy o).
Definition R (s : st) (o : list out) (s' : st) : Prop :=
  (cleaned s = true -> cleaned s' = true /\ m3 o = (0, 0, 0)%nat) /\
  (cleaned s = false -> (cleaned s' = false /\ m3 o = (0, 0, 0)%nat) \/ (cleaned s' = true /\ m3 o = (1, 1, 1)%nat)).

Lemma m3_app a b : m3 (a ++ b) = (let '(x, y, z) := m3 a in let '(x', y', z') := m3 b in (x + x', y + y', z + z'))%nat.
Proof. unfold m3, count_gauge, count_log, count_destroy. now rewrite !count_app. Qed.

Lemma R_refl s : R s [] s.
Proof. split; intros H; [split|left; split]; auto. Qed.

Lemma R_trans s o1 s1 o2 s2 : R s o1 s1 -> R s1 o2 s2 -> R s (o1 ++ o2) s2.
Proof.
  intros [A1 A2] [B1 B2]. split; intros H.
  - destruct (A1 H) as [C1 M1]. destruct (B1 C1) as [C2 M2]. split; auto. rewrite m3_app, M1, M2. reflexivity.
  - destruct (A2 H) as [[C1 M1]|[C1 M1]].
    + destruct (B2 C1) as [[C2 M2]|[C2 M2]]; [left|right]; split; auto; rewrite m3_app, M1, M2; reflexivity.
    + destruct (B1 C1) as [C2 M2]. right. split; auto. rewrite m3_app, M1, M2. reflexivity.
Qed.

Definition okA (a : A) : Prop := forall s, R s (snd (a s)) (fst (a s)).

Lemma ok_ret : okA ret. Proof. intros s. apply R_refl. Qed.
Lemma ok_seq a b : okA a -> okA b -> okA (a ;; b).
Proof.
  intros Ha Hb s. unfold aseq. specialize (Ha s). destruct (a s) as [s1 o1]. specialize (Hb s1). destruct (b s1) as [s2 o2].
  cbn [fst snd] in *. eapply R_trans; eauto.
Qed.
Lemma ok_ite b a1 a2 : okA a1 -> okA a2 -> okA (ite b a1 a2).
Proof. intros H1 H2 s. unfold ite. destruct (b s); auto. Qed.
Lemma ok_when b a : okA a -> okA (when b a).
Proof. intros H s. unfold when. destruct (b s); auto. apply R_refl. Qed.
Lemma ok_emit o : is_gauge o = false -> is_log o = false -> is_destroy o = false -> okA (emit o).
Proof.
  intros H1 H2 H3 s. unfold emit. cbn [fst snd]. unfold R, m3, count_gauge, count_log, count_destroy, count. cbn [filter].
  rewrite H1, H2, H3. cbn. split; intros H; [split|left; split]; auto.
Qed.
Lemma ok_upd f : (forall s, cleaned (f s) = cleaned s) -> okA (upd f).
Proof. intros Hf s. unfold upd. cbn [fst snd]. unfold R. rewrite Hf. split; intros H; [split|left; split]; auto. Qed.

(* a function-style action: R through a bind *)
Lemma R_bind (a : A) s (k : st -> list out -> st * list out) :
  okA a -> (forall s1 o1, R s o1 s1 -> R s (snd (k s1 o1)) (fst (k s1 o1))) ->
  R s (snd (let '(s1, o1) := a s in k s1 o1)) (fst (let '(s1, o1) := a s in k s1 o1)).
Proof. intros Ha Hk. specialize (Ha s). destruct (a s) as [s1 o1]. apply Hk. exact Ha. Qed.

Ltac ok_auto :=
  repeat first
    [ assumption
    | apply ok_ret
    | apply ok_seq
    | apply ok_ite
    | apply ok_when
    | (apply ok_emit; reflexivity)
    | (apply ok_upd; intros; reflexivity)
    | match goal with
      | |- okA (if ?b then _ else _) => destruct b
      | |- okA (match ?x with _ => _ end) => destruct x
      end ].

Section Gen.
Variable src : srcp.
Variable c : cfg.

Lemma ok_res_dec : okA (res_dec src c).
Proof.
  intros s. unfold res_dec. destruct (res_off src c); cbn [fst snd]; [apply R_refl|].
  unfold R, m3, count_gauge, count_log, count_destroy, count. cbn. split; intros H; [split|left; split]; auto.
Qed.
Lemma ok_res_inc : okA (res_inc src c).
Proof.
  intros s. unfold res_inc. destruct (res_off src c); cbn [fst snd]; [apply R_refl|].
  unfold R, m3, count_gauge, count_log, count_destroy, count. cbn. split; intros H; [split|left; split]; auto.
Qed.
Lemma ok_rs_reset : okA (rs_reset src c).
Proof. unfold rs_reset. pose proof ok_res_dec. ok_auto. Qed.

Lemma ok_upreq_reset_stream : okA upreq_reset_stream.
Proof.
  unfold upreq_reset_stream. apply ok_when. intros s. cbn [fst snd].
  unfold R, m3, count_gauge, count_log, count_destroy, count. cbn. split; intros H; [split|left; split]; auto.
Qed.

Lemma ok_clean_up : okA (clean_up src c).
Proof. unfold clean_up. pose proof ok_rs_reset. ok_auto. Qed.

(* from a state already marked cleaned: the action keeps it so and emits exactly one gauge / log / destroy *)
Definition okB (a : A) : Prop := forall s, cleaned s = true -> cleaned (fst (a s)) = true /\ m3 (snd (a s)) = (1, 1, 1)%nat.
Lemma okB_seq a b : okA a -> okB b -> okB (a ;; b).
Proof.
  intros Ha Hb s Hs. unfold aseq. specialize (Ha s). destruct (a s) as [s1 o1]. cbn [fst snd] in Ha.
  destruct Ha as [Ha _]. destruct (Ha Hs) as [C1 M1]. specialize (Hb s1 C1). destruct (b s1) as [s2 o2]. cbn [fst snd] in *.
  destruct Hb as [C2 M2]. split; auto. rewrite m3_app, M1, M2. reflexivity.
Qed.
Lemma okB_emits f : (forall s, cleaned (f s) = cleaned s) -> okB (emit (OGauge (-1)) ;; emit OLog ;; emit ODestroy ;; upd f).
Proof. intros Hf s Hs. cbn. rewrite Hf. auto. Qed.

Lemma seq_upd_run f (b : A) s : (upd f ;; b) s = (fst (b (f s)), snd (b (f s))).
Proof. unfold aseq, upd. destruct (b (f s)). reflexivity. Qed.

Lemma ok_clean_stream : okA (clean_stream src c).
Proof.
  intros s. unfold clean_stream, ite. destruct (cleaned s) eqn:E; [cbn [fst snd ret]; apply R_refl|].
  assert (Hrest : okB (when (fun s0 => has_upreq s0 && negb (process_done s0) && negb (c_oneway c))
                         (upd (fun s0 => s0 <| process_done := true |>) ;; upreq_reset_stream) ;;
                       clean_up src c ;; emit (OGauge (-1)) ;; emit OLog ;; emit ODestroy ;;
                       upd (fun s0 => s0 <| gave := reuse s0 && negb (up_reset s0) && negb (down_reset s0) |>))).
  { apply okB_seq; [pose proof ok_upreq_reset_stream; ok_auto|]. apply okB_seq; [apply ok_clean_up|]. apply okB_emits. intros; reflexivity. }
  rewrite seq_upd_run. cbn [fst snd].
  assert (Hc : cleaned (s <| cleaned := true |>) = true) by reflexivity.
  destruct (Hrest (s <| cleaned := true |>) Hc) as [C M].
  split; intros H; [congruence|]. right. split; auto.
Qed.

Lemma ok_hijack code body : okA (hijack src c code body). Proof. unfold hijack. ok_auto. Qed.
Lemma ok_direct_response code : okA (direct_response code). Proof. unfold direct_response. ok_auto. Qed.
Lemma ok_on_up_reset why : okA (on_up_reset why). Proof. unfold on_up_reset. ok_auto. Qed.
Lemma ok_on_down_reset why : okA (on_down_reset src why). Proof. unfold on_down_reset. ok_auto. Qed.
Lemma ok_ds_reset_stream : okA (ds_reset_stream src c).
Proof. unfold ds_reset_stream. pose proof (ok_on_down_reset RsLocalReset). ok_auto. Qed.
Lemma ok_setup_retry_act e : okA (setup_retry_act src e).
Proof. unfold setup_retry_act. pose proof ok_upreq_reset_stream. ok_auto. Qed.

Lemma R_of_eq s s' o : cleaned s' = cleaned s -> m3 o = (0, 0, 0)%nat -> R s o s'.
Proof. intros Hc Hm. unfold R. rewrite Hc. split; intros H; [split|left; split]; auto. Qed.

Lemma ok_rs_retry code why s :
  R s (snd (fst (rs_retry src c code why s))) (fst (fst (rs_retry src c code why s))).
Proof.
  unfold rs_retry. pose proof (ok_rs_reset s) as H0. destruct (rs_reset src c s) as [s1 o1]. cbn [fst snd] in H0.
  destruct (retry s1) as [[|n]|]; cbn [fst snd]; auto.
  destruct (negb (retry_check src c code why (s1 <| retry := Some n |>)) || retry_disabled src c); cbn [fst snd].
  - eapply R_trans with (o2 := []) in H0; [rewrite app_nil_r in H0; exact H0|]. apply R_of_eq; reflexivity.
  - destruct (negb (can_create c (s1 <| retry := Some n |>))); cbn [fst snd].
    + eapply R_trans with (o2 := []) in H0; [rewrite app_nil_r in H0; exact H0|]. apply R_of_eq; reflexivity.
    + pose proof (ok_res_inc (s1 <| retry := Some n |>)) as H2. destruct (res_inc src c (s1 <| retry := Some n |>)) as [s3 o3].
      cbn [fst snd] in *. eapply R_trans; [exact H0|].
      eapply R_trans with (s1 := s1 <| retry := Some n |>) (o1 := []); [apply R_of_eq; reflexivity|].
      eapply R_trans with (o2 := []) in H2; [rewrite app_nil_r in H2; exact H2|]. apply R_of_eq; reflexivity.
Qed.

Lemma ok_on_upstream_reset why : okA (on_upstream_reset src c why).
Proof.
  intros s. unfold on_upstream_reset.
  assert (Htail : okA (clean_up src c ;; ite resp_started (ds_reset_stream src c)
                         (upd (fun s0 => s0 <| up_reset := false |>) ;; hijack src c (reason_code src why) false))).
  { pose proof ok_clean_up. pose proof ok_ds_reset_stream. pose proof (ok_hijack (reason_code src why) false). ok_auto. }
  destruct ((negb (reset_excludes_global src) || negb (reason_eqb why RsGlobalTimeout)) && negb (resp_started s) && match retry s with Some _ => true | None => false end).
  - pose proof (ok_rs_retry None why s) as H0. destruct (rs_retry src c None why s) as [[s1 o1] r]. cbn [fst snd] in H0.
    destruct r.
    + assert (H1 : okA (setup_retry_act src true ;; upd (fun s0 => s0 <| up_reset := false |>))).
      { pose proof (ok_setup_retry_act true). ok_auto. }
      specialize (H1 s1). destruct ((setup_retry_act src true ;; upd (fun s0 => s0 <| up_reset := false |>)) s1) as [s2 o2].
      cbn [fst snd] in *. eapply R_trans; eauto.
    + specialize (Htail s1). match goal with |- context [let '(s2, o2) := ?t s1 in _] => destruct (t s1) as [s2 o2] end.
      cbn [fst snd] in *. eapply R_trans; eauto.
    + specialize (Htail s1). match goal with |- context [let '(s2, o2) := ?t s1 in _] => destruct (t s1) as [s2 o2] end.
      cbn [fst snd] in *. eapply R_trans; eauto.
  - apply Htail.
Qed.

(* processError: result state/outputs *)
Lemma ok_process_error s :
  R s (snd (fst (fst (process_error src c s)))) (fst (fst (fst (process_error src c s)))).
Proof.
  unfold process_error. destruct (cleaned s) eqn:Ec; [cbn [fst snd]; apply R_refl|].
  assert (H1 : exists s1 o1 e1, R s o1 s1 /\
     ((up_reset s = true /\ c_oneway c = true) \/
      (if up_reset s then if c_oneway c then None else let '(s1, o1) := on_upstream_reset src c (rreason s) s in Some (s1, o1, true)
       else Some (s, [], false)) = Some (s1, o1, e1))).
  { destruct (up_reset s).
    - destruct (c_oneway c).
      + exists s, [], false. split; [apply R_refl|left; auto].
      + pose proof (ok_on_upstream_reset (rreason s) s) as H0.
        destruct (on_upstream_reset src c (rreason s) s) as [s1 o1]. exists s1, o1, true. split; auto.
    - exists s, [], false. split; [apply R_refl|right; auto]. }
  destruct H1 as (s1 & o1 & e1 & HR & [[Hu Ho]|Heq]).
  - rewrite Hu, Ho. cbn [fst snd]. apply R_refl.
  - rewrite Heq. destruct (down_reset s1).
    + pose proof (ok_clean_stream s1) as H2. destruct (clean_stream src c s1) as [s2 o2]. cbn [fst snd] in *. eapply R_trans; eauto.
    + destruct (direct s1).
      * set (D := (when (fun s0 => match retry s0 with Some _ => true | None => false end) (rs_reset src c) ;;
                   upd (fun s0 => s0 <| setup_retry := false |>) ;;
                   (if direct_resets_upstream src then when has_upreq upreq_reset_stream else ret))).
        assert (Hd : okA D).
        { unfold D. pose proof ok_rs_reset. pose proof ok_upreq_reset_stream. ok_auto. }
        assert (H3 : exists s1r o1r, R s1 o1r s1r /\ (if direct_cancels_retry src then D s1 else (s1, [])) = (s1r, o1r)).
        { destruct (direct_cancels_retry src).
          - specialize (Hd s1). destruct (D s1) as [s1r o1r]. exists s1r, o1r. split; auto.
          - exists s1, []. split; auto. apply R_refl. }
        destruct H3 as (s1r & o1r & HR2 & Heq2). rewrite Heq2.
        assert (HR3 : R s (o1 ++ o1r) s1r) by (eapply R_trans; eauto).
        destruct (c_oneway c); cbn [fst snd].
        { eapply R_trans with (o2 := []) in HR3; [rewrite app_nil_r in HR3; exact HR3|]. apply R_of_eq; reflexivity. }
        match goal with |- context [if ?b then _ else _] => destruct b end; cbn [fst snd].
        { eapply R_trans with (o2 := []) in HR3; [rewrite app_nil_r in HR3; exact HR3|]. apply R_of_eq; reflexivity. }
        { eapply R_trans with (o2 := []) in HR3; [rewrite app_nil_r in HR3; exact HR3|]. apply R_of_eq; reflexivity. }
      * destruct (has_upreq s1 && setup_retry s1); cbn [fst snd].
        { eapply R_trans with (o2 := []) in HR; [rewrite app_nil_r in HR; exact HR|]. apply R_of_eq; reflexivity. }
        destruct (negb (phase_eqb (again s1) PInit)); cbn [fst snd]; auto.
Qed.

Lemma ok_finish_phase next s o s0 : R s0 o s ->
  R s0 (snd (finish_phase src c next s o)) (fst (finish_phase src c next s o)).
Proof.
  intros H0. unfold finish_phase. pose proof (ok_process_error s) as H1.
  destruct (process_error src c s) as [[[s1 o1] p] err]. cbn [fst snd] in H1.
  assert (H2 : R s0 (o ++ o1) s1) by (eapply R_trans; eauto).
  destruct err.
  - destruct (phase_eqb p PEnd); cbn [fst snd].
    + eapply R_trans with (o2 := []) in H2; [rewrite app_nil_r in H2; exact H2|]. apply R_of_eq; reflexivity.
    + destruct (loop_bound src <=? S (outer s1))%nat; cbn [fst snd];
        (eapply R_trans with (o2 := []) in H2; [rewrite app_nil_r in H2; exact H2|]; apply R_of_eq; reflexivity).
  - cbn [fst snd]. eapply R_trans with (o2 := []) in H2; [rewrite app_nil_r in H2; exact H2|]. apply R_of_eq; reflexivity.
Qed.

Lemma ok_fin next a : okA a -> okA (fin src c next a).
Proof.
  intros Ha s. unfold fin. specialize (Ha s). destruct (a s) as [s1 o1]. cbn [fst snd] in Ha. now apply ok_finish_phase.
Qed.

Lemma ok_apply_verdict p f v : okA (apply_verdict src c p f v).
Proof.
  unfold apply_verdict. pose proof ok_clean_stream. pose proof (ok_hijack (f_code f) false). pose proof (ok_direct_response (f_code f)).
  destruct v; ok_auto.
Qed.

Lemma ok_run_recv_from p l : forall i, okA (run_recv_from src c p l i).
Proof.
  induction l as [|f l IH]; intros i; cbn [run_recv_from]; [ok_auto|].
  destruct (f_phase f =? p)%nat; [|apply IH].
  intros s.
  set (v := verdict_at (f_verdicts f) (nth i (fcalls s) 0%nat)).
  assert (H1 : okA (upd (fun s0 => s0 <| fcalls := incr_nth (fcalls s0) i |>) ;; emit (OFilterRecv i p v) ;; apply_verdict src c p f v)).
  { pose proof (ok_apply_verdict p f v). ok_auto. }
  specialize (H1 s). destruct ((upd _ ;; emit (OFilterRecv i p v) ;; apply_verdict src c p f v) s) as [s1 o1]. cbn [fst snd] in H1.
  destruct v; cbn [fst snd];
    try (eapply R_trans with (o2 := []) in H1; [rewrite app_nil_r in H1; exact H1|]; apply R_of_eq; reflexivity).
  - specialize (IH (S i) s1). destruct (run_recv_from src c p l (S i) s1) as [s2 o2]. cbn [fst snd] in *. eapply R_trans; eauto.
  - specialize (IH (S i) s1). destruct (run_recv_from src c p l (S i) s1) as [s2 o2]. cbn [fst snd] in *. eapply R_trans; eauto.
Qed.
Lemma ok_run_recv p : okA (run_recv src c p).
Proof. intros s. unfold run_recv. apply ok_run_recv_from. Qed.

Lemma ok_run_send_from l : forall i, okA (run_send_from src c l i).
Proof.
  induction l as [|f l IH]; intros i; cbn [run_send_from]; [ok_auto|].
  intros s.
  set (v := verdict_at (sf_verdicts f) (nth i (scalls s) 0%nat)).
  assert (H1 : okA (upd (fun s0 => s0 <| scalls := incr_nth (scalls s0) i |>) ;; emit (OFilterSend i v) ;;
                    match v with
                    | VTerm => upd (fun s0 => s0 <| reuse := false |>) ;; clean_stream src c
                    | VHijack => hijack src c (sf_code f) false
                    | VDirect => direct_response (sf_code f)
                    | _ => ret
                    end)).
  { pose proof ok_clean_stream. pose proof (ok_hijack (sf_code f) false). pose proof (ok_direct_response (sf_code f)). destruct v; ok_auto. }
  specialize (H1 s).
  match goal with |- context [let '(s1, o1) := ?t s in _] => destruct (t s) as [s1 o1] end.
  cbn [fst snd] in H1.
  destruct v; cbn [fst snd];
    try (eapply R_trans with (o2 := []) in H1; [rewrite app_nil_r in H1; exact H1|]; apply R_of_eq; reflexivity).
  - specialize (IH (S i) s1). destruct (run_send_from src c l (S i) s1) as [s2 o2]. cbn [fst snd] in *. eapply R_trans; eauto.
  - specialize (IH (S i) s1). destruct (run_send_from src c l (S i) s1) as [s2 o2]. cbn [fst snd] in *. eapply R_trans; eauto.
Qed.
Lemma ok_run_send : okA (run_send src c).
Proof. intros s. unfold run_send. apply ok_run_send_from. Qed.

Lemma ok_up_append_headers e : okA (up_append_headers c e).
Proof.
  unfold up_append_headers. apply ok_ite; [apply ok_ret|]. intros s.
  destruct (pool_at c (nnew s)); cbn [fst snd].
  - apply R_of_eq; reflexivity.
  - pose proof (ok_on_up_reset RsOverflow (s <| nnew := S (nnew s) |> <| cur := nnew s |>)) as H.
    destruct (on_up_reset RsOverflow (s <| nnew := S (nnew s) |> <| cur := nnew s |>)) as [s2 o2]. cbn [fst snd] in *.
    eapply R_trans with (s1 := s <| nnew := S (nnew s) |> <| cur := nnew s |>) (o1 := [OUpNew (nnew s) PoolOverflow]) in H;
      [exact H|apply R_of_eq; reflexivity].
  - pose proof (ok_on_up_reset RsConnFailed (s <| nnew := S (nnew s) |> <| cur := nnew s |>)) as H.
    destruct (on_up_reset RsConnFailed (s <| nnew := S (nnew s) |> <| cur := nnew s |>)) as [s2 o2]. cbn [fst snd] in *.
    eapply R_trans with (s1 := s <| nnew := S (nnew s) |> <| cur := nnew s |>) (o1 := [OUpNew (nnew s) PoolConnFail]) in H;
      [exact H|apply R_of_eq; reflexivity].
Qed.
Lemma ok_up_append_data e : okA (up_append_data e).
Proof. unfold up_append_data. apply ok_ite; [apply ok_ret|]. intros s. destruct (up_sender s); cbn [fst snd]; apply R_of_eq; reflexivity. Qed.
Lemma ok_up_append_trailers : okA up_append_trailers.
Proof. unfold up_append_trailers. apply ok_ite; [apply ok_ret|]. intros s. destruct (up_sender s); cbn [fst snd]; apply R_of_eq; reflexivity. Qed.
Lemma ok_setup_per_req_timeout : okA (setup_per_req_timeout c). Proof. unfold setup_per_req_timeout. ok_auto. Qed.
Lemma ok_request_sent : okA (request_sent c).
Proof. unfold request_sent. pose proof ok_setup_per_req_timeout. ok_auto. Qed.

Lemma ok_choose_host : okA (choose_host src c).
Proof.
  unfold choose_host. apply ok_seq; [ok_auto|]. intros s.
  pose proof (ok_hijack 404 false). pose proof (ok_hijack 502 false).
  destruct (negb (route_matched s)); [apply H|].
  destruct (c_route c) as [|code body| |].
  - apply H.
  - apply ok_hijack.
  - apply H.
  - destruct (negb (hosts_ok c s)).
    + assert (H1 : okA (emit OChoose ;; hijack src c 502 false)) by ok_auto. apply H1.
    + assert (H1 : okA (emit OChoose ;; upd (fun s0 => s0 <| retry := Some (budget src c) |> <| reserved := false |> <| has_upreq := true |>))) by ok_auto.
      apply H1.
Qed.

Lemma ok_receive_headers : okA (receive_headers c).
Proof. unfold receive_headers. pose proof (ok_up_append_headers (no_body c)). pose proof ok_request_sent. ok_auto. Qed.
Lemma ok_receive_data : okA (receive_data src c).
Proof.
  unfold receive_data. pose proof ok_request_sent. pose proof (ok_up_append_data (negb (c_trailers c))). pose proof ok_clean_stream. ok_auto.
Qed.
Lemma ok_receive_trailers : okA (receive_trailers src c).
Proof. unfold receive_trailers. pose proof ok_request_sent. pose proof ok_up_append_trailers. pose proof ok_clean_stream. ok_auto. Qed.
Lemma ok_do_retry : okA (do_retry src c).
Proof.
  assert (okA (do_retry_send src c)); [|unfold do_retry; ok_auto].
  unfold do_retry_send. pose proof (ok_hijack 502 false). pose proof ok_clean_up. pose proof (ok_up_append_headers (no_body c)).
  pose proof (ok_up_append_data (negb (c_trailers c))). pose proof ok_up_append_trailers. pose proof ok_setup_per_req_timeout.
  ok_auto.
Qed.

Lemma ok_recv_finished : okA (recv_finished src c).
Proof. unfold recv_finished. pose proof ok_upreq_reset_stream. pose proof ok_clean_up. ok_auto. Qed.
Lemma ok_after_append h err e : okA (after_append src c h err e).
Proof.
  unfold after_append, end_stream. pose proof ok_clean_stream. pose proof ok_ds_reset_stream.
  destruct (h && negb (append_error_continues src) && err); [assumption|]. ok_auto.
Qed.
Lemma ok_down_append_headers e r : okA (down_append_headers src c e r).
Proof. unfold down_append_headers. pose proof (ok_after_append true (c_snd_err_hdr c) e). ok_auto. Qed.
Lemma ok_down_append_data e w : okA (down_append_data src c e w).
Proof. unfold down_append_data. pose proof (ok_after_append false (c_snd_err_data c) e). ok_auto. Qed.
Lemma ok_down_append_trailers : okA (down_append_trailers src c).
Proof. unfold down_append_trailers. pose proof (ok_after_append false (c_snd_err_trl c) true). ok_auto. Qed.

Lemma ok_late_mark : okA late_mark.
Proof. intros s. unfold late_mark. destruct (gave s); cbn [fst snd]; apply R_of_eq; reflexivity. Qed.
Lemma ok_headers_tail e r : okA (headers_tail src c e r).
Proof.
  unfold headers_tail. pose proof ok_recv_finished. pose proof (ok_down_append_headers e r). pose proof ok_late_mark.
  destruct (started_marked_first src); ok_auto.
Qed.

Lemma ok_on_upstream_headers r : okA (on_upstream_headers src c r).
Proof.
  intros s. unfold on_upstream_headers.
  set (e := negb (r_data r) && negb (r_trailers r)).
  pose proof (ok_headers_tail e r) as Htail.
  destruct (retry s); [|apply Htail].
  match goal with |- context [rs_retry src c (Some (r_code r)) RsEmpty ?x] => set (s' := x) end.
  assert (Hs : forall o t, R s' o t -> R s o t) by (intros o t H; exact H). apply Hs. clear Hs.
  pose proof (ok_rs_retry (Some (r_code r)) RsEmpty s') as H0. destruct (rs_retry src c (Some (r_code r)) RsEmpty s') as [[s1 o1] rs].
  cbn [fst snd] in H0. destruct rs.
  - pose proof (ok_setup_retry_act e s1) as H1. destruct (setup_retry_act src e s1) as [s2 o2]. cbn [fst snd] in *. eapply R_trans; eauto.
  - assert (H1 : okA (rs_reset src c ;; headers_tail src c e r)).
    { pose proof ok_rs_reset. ok_auto. }
    specialize (H1 s1). match goal with |- context [let '(s2, o2) := ?t s1 in _] => destruct (t s1) as [s2 o2] end.
    cbn [fst snd] in *. eapply R_trans; eauto.
  - assert (H1 : okA (rs_reset src c ;; headers_tail src c e r)).
    { pose proof ok_rs_reset. ok_auto. }
    specialize (H1 s1). match goal with |- context [let '(s2, o2) := ?t s1 in _] => destruct (t s1) as [s2 o2] end.
    cbn [fst snd] in *. eapply R_trans; eauto.
Qed.

Lemma ok_upreq_guard a : okA a -> okA (upreq_guard a).
Proof. intros H. unfold upreq_guard. ok_auto. Qed.

Lemma ok_up_filter_step s : R s (snd (up_filter_step src c s)) (fst (up_filter_step src c s)).
Proof.
  unfold up_filter_step.
  assert (Hsend : okA (run_send src c ;; upd (fun s0 => s0 <| rsp_filtered := true |> <| upreq_filtered := send_once_per_upreq src |>))).
  { pose proof ok_run_send. ok_auto. }
  assert (H0 : R s (snd (if send_once_per_upreq src && has_upreq s && upreq_filtered s then (s, [])
                         else (run_send src c ;; upd (fun s0 => s0 <| rsp_filtered := true |> <| upreq_filtered := send_once_per_upreq src |>)) s))
                   (fst (if send_once_per_upreq src && has_upreq s && upreq_filtered s then (s, [])
                         else (run_send src c ;; upd (fun s0 => s0 <| rsp_filtered := true |> <| upreq_filtered := send_once_per_upreq src |>)) s))).
  { destruct (send_once_per_upreq src && has_upreq s && upreq_filtered s); [apply R_refl|apply Hsend]. }
  match type of H0 with R s (snd ?t) _ => destruct t as [s1 o1] end. cbn [fst snd] in H0.
  pose proof (ok_finish_phase PUpRecvHeader s1 o1 s H0) as H1. destruct (finish_phase src c PUpRecvHeader s1 o1) as [s2 o2].
  cbn [fst snd] in H1.
  destruct (phase_eqb (ph s2) PUpRecvHeader && negb (wdone s2) && negb (has_upreq s2)); cbn [fst snd]; auto.
Qed.

Lemma ok_worker s : R s (snd (worker src c s)) (fst (worker src c s)).
Proof.
  unfold worker, wstep. destruct (negb (worker_enabled s)); [apply R_refl|].
  destruct (needs_sleep c s && negb (woken s)); [cbn [fst snd]; apply R_of_eq; reflexivity|].
  set (s' := if needs_sleep c s then s <| woken := false |> <| delayed := ph s :: delayed s |> else s).
  assert (H0 : R s [] s') by (unfold s'; destruct (needs_sleep c s); apply R_of_eq; reflexivity).
  assert (HK : forall x, R s' (snd x) (fst x) -> R s (snd x) (fst x)).
  { intros x Hx. eapply R_trans with (o1 := []) in Hx; [exact Hx|exact H0]. }
  apply HK. clearbody s'. clear HK H0.
  pose proof (ok_run_recv 0). pose proof (ok_run_recv 1). pose proof (ok_run_recv 2).
  pose proof ok_choose_host. pose proof ok_receive_headers. pose proof ok_receive_data. pose proof ok_receive_trailers.
  pose proof ok_clean_stream. pose proof ok_do_retry.
  destruct (ph s').
  - cbn [fst snd]. apply R_of_eq; reflexivity.
  - apply ok_fin; auto.
  - apply ok_fin; ok_auto.
  - apply ok_fin; auto.
  - apply ok_fin; auto.
  - apply ok_fin; auto.
  - apply ok_fin; auto.
  - destruct (c_data c); [apply ok_fin; auto|cbn [fst snd]; apply R_of_eq; reflexivity].
  - destruct (c_trailers c); [apply ok_fin; auto|cbn [fst snd]; apply R_of_eq; reflexivity].
  - destruct (c_oneway c); [apply ok_fin; auto|cbn [fst snd]; apply R_of_eq; reflexivity].
  - apply ok_fin; auto.
  - pose proof (ok_fin PUpFilter ret ok_ret (s' <| notify := false |>)) as H9.
    eapply R_trans with (s := s') (o1 := []) in H9; [exact H9|apply R_of_eq; reflexivity].
  - apply ok_up_filter_step.
  - destruct (rsp s') as [r|]; [|cbn [fst snd]; apply R_of_eq; reflexivity].
    apply ok_fin. apply ok_upreq_guard. apply ok_on_upstream_headers.
  - destruct (rsp s') as [r|]; [|cbn [fst snd]; apply R_of_eq; reflexivity].
    destruct (r_data r); [|cbn [fst snd]; apply R_of_eq; reflexivity].
    apply ok_fin. apply ok_upreq_guard. pose proof ok_recv_finished. pose proof (ok_down_append_data (negb (r_trailers r)) (r_body r)). ok_auto.
  - destruct (rsp s') as [r|]; [|cbn [fst snd]; apply R_of_eq; reflexivity].
    destruct (r_trailers r); [|cbn [fst snd]; apply R_of_eq; reflexivity].
    apply ok_fin. apply ok_upreq_guard. pose proof ok_recv_finished. pose proof ok_down_append_trailers. ok_auto.
  - cbn [fst snd]. apply R_of_eq; reflexivity.
Qed.

(* environment steps never clean and only emit upstream resets *)
Lemma env_shape e s :
  cleaned (fst (env_step src c e s)) = cleaned s /\
  (forall o, In o (snd (env_step src c e s)) -> exists k, o = OUpReset k).
Proof.
  assert (Hr : forall s0, cleaned (fst (upreq_reset_stream s0)) = cleaned s0 /\
                          forall o, In o (snd (upreq_reset_stream s0)) -> exists k, o = OUpReset k).
  { intros s0. unfold upreq_reset_stream, when. destruct (up_sender s0); cbn; split; auto; try tauto.
    intros o [<-|[]]. eauto. }
  assert (Hu : forall why s0, cleaned (fst (on_up_reset why s0)) = cleaned s0 /\ snd (on_up_reset why s0) = []).
  { intros why s0. unfold on_up_reset, ite, ret, upd. destruct (setup_retry s0), (up_reset s0); cbn; auto. }
  set (X := if timers_reset_stream src then upreq_reset_stream else ret).
  assert (Hx : forall s0, cleaned (fst (X s0)) = cleaned s0 /\ forall o, In o (snd (X s0)) -> exists k, o = OUpReset k).
  { unfold X. destruct (timers_reset_stream src); [apply Hr|]. intros s0. cbn. split; auto. tauto. }
  destruct e as [k st d t|k r|k| |r|code| |g|g]; cbn [env_step]; fold X.
  - destruct ((k =? cur s)%nat && up_sender s && up_alive s && negb (c_oneway c)); [|cbn; split; auto; tauto].
    cbn zeta. match goal with |- context [process_done_b ?x] => set (s1 := x) end.
    assert (Hc1 : cleaned s1 = cleaned s) by reflexivity.
    destruct (process_done_b s1 || setup_retry s1); [cbn; split; auto; tauto|].
    destruct (received s1); cbn; split; auto; tauto.
  - destruct ((k =? cur s)%nat && up_sender s && up_alive s).
    + destruct (Hu r (s <| up_alive := false |> <| abandoned := true |>)) as [H1 H2]. rewrite H1, H2. cbn. split; auto; tauto.
    + destruct ((k =? cur s)%nat && up_sender s && c_late_reset c && negb (c_oneway c)); [|cbn; split; auto; tauto].
      destruct (Hu r s) as [H1 H2]. rewrite H1, H2. cbn. split; auto; tauto.
  - destruct (try_armed s) as [k'|]; [|cbn; split; auto; tauto].
    destruct (k =? k')%nat; [|cbn; split; auto; tauto].
    destruct (cleaned (s <| try_armed := None |> <| reuse := false |>)) eqn:E1; [cbn; split; auto; tauto|].
    destruct (received (s <| try_armed := None |> <| reuse := false |>)); [cbn; split; auto; tauto|].
    destruct (resp_started (s <| try_armed := None |> <| reuse := false |> <| received := true |>)); [cbn; split; auto; tauto|].
    unfold aseq. set (s2 := s <| try_armed := None |> <| reuse := false |> <| received := true |>).
    destruct (Hx s2) as [H1 H2]. destruct (X s2) as [s3 o3]. cbn [fst snd] in *.
    destruct (Hu RsPerTryTimeout s3) as [H3 H4]. destruct (on_up_reset RsPerTryTimeout s3) as [s4 o4]. cbn [fst snd] in *.
    subst o4. rewrite app_nil_r. split; auto. rewrite H3, H1. reflexivity.
  - destruct (global_armed s); [|cbn; split; auto; tauto].
    assert (Ht : forall s2, cleaned (fst (if has_upreq s2 then (X ;; on_up_reset RsGlobalTimeout) s2 else (s2, []))) = cleaned s2 /\
                            forall o, In o (snd (if has_upreq s2 then (X ;; on_up_reset RsGlobalTimeout) s2 else (s2, []))) -> exists k, o = OUpReset k).
    { intros s2. destruct (has_upreq s2); [|cbn; split; auto; tauto].
      unfold aseq. destruct (Hx s2) as [H1 H2]. destruct (X s2) as [s3 o3]. cbn [fst snd] in *.
      destruct (Hu RsGlobalTimeout s3) as [H3 H4]. destruct (on_up_reset RsGlobalTimeout s3) as [s4 o4]. cbn [fst snd] in *.
      subst o4. rewrite app_nil_r. split; auto. rewrite H3, H1. reflexivity. }
    cbn zeta.
    destruct (cleaned (s <| global_armed := false |> <| reuse := false |>)) eqn:E1; [cbn; split; auto; tauto|].
    destruct (received (s <| global_armed := false |> <| reuse := false |>)).
    + destruct (global_lost_cas_stops src || resp_started (s <| global_armed := false |> <| reuse := false |>)); [cbn; split; auto; tauto|].
      destruct (Ht (s <| global_armed := false |> <| reuse := false |>)) as [H1 H2]. split; auto.
    + destruct (Ht (s <| global_armed := false |> <| reuse := false |> <| received := true |>)) as [H1 H2]. split; auto.
  - unfold on_down_reset, ite, ret, upd. destruct (on_reset_checks_done src && process_done s); [cbn; split; auto; tauto|].
    destruct (down_reset s); cbn; split; auto; tauto.
  - cbn zeta. destruct (rsp (s <| reuse := false |>)); [cbn; split; auto; tauto|].
    destruct (cleaned (s <| reuse := false |>)) eqn:E; [cbn; split; auto; tauto|].
    destruct (received (s <| reuse := false |>)); cbn; split; auto; tauto.
  - destruct (sleeping s); cbn; split; auto; tauto.
  - unfold stale_try. fold X. cbn zeta.
    destruct (cleaned (s <| reuse := false |>)) eqn:E1; [cbn; split; auto; tauto|].
    destruct (if try_captures_id src then negb g else false); [cbn; split; auto; tauto|].
    destruct (received (s <| reuse := false |>)); [cbn; split; auto; tauto|].
    destruct (resp_started (s <| reuse := false |> <| received := true |>)); [cbn; split; auto; tauto|].
    unfold aseq. set (s2 := s <| reuse := false |> <| received := true |>).
    destruct (Hx s2) as [H1 H2]. destruct (X s2) as [s3 o3]. cbn [fst snd] in *.
    destruct (Hu RsPerTryTimeout s3) as [H3 H4]. destruct (on_up_reset RsPerTryTimeout s3) as [s4 o4]. cbn [fst snd] in *.
    subst o4. rewrite app_nil_r. split; auto. rewrite H3, H1. reflexivity.
  - unfold stale_global. fold X. cbn zeta.
    destruct (cleaned (s <| reuse := false |>)) eqn:E1; [cbn; split; auto; tauto|].
    destruct (if global_captures_id src then negb g else false); [cbn; split; auto; tauto|].
    destruct (received (s <| reuse := false |>)); [cbn; split; auto; tauto|].
    set (s2 := s <| reuse := false |> <| received := true |>).
    destruct (has_upreq s2); [|cbn; split; auto; tauto].
    unfold aseq. destruct (Hx s2) as [H1 H2]. destruct (X s2) as [s3 o3]. cbn [fst snd] in *.
    destruct (Hu RsGlobalTimeout s3) as [H3 H4]. destruct (on_up_reset RsGlobalTimeout s3) as [s4 o4]. cbn [fst snd] in *.
    subst o4. rewrite app_nil_r. split; auto. rewrite H3, H1. reflexivity.
Qed.

Lemma ok_env e s : R s (snd (env_step src c e s)) (fst (env_step src c e s)).
Proof.
  destruct (env_shape e s) as [H1 H2]. apply R_of_eq; auto.
  unfold m3, count_gauge, count_log, count_destroy, count.
  assert (Hf : forall p, (forall k, p (OUpReset k) = false) -> filter p (snd (env_step src c e s)) = []).
  { intros p Hp. induction (snd (env_step src c e s)) as [|o l IH]; cbn; auto.
    destruct (H2 o (or_introl eq_refl)) as [k ->]. rewrite Hp. apply IH. intros o' Ho'. apply H2. now right. }
  rewrite !Hf; auto.
Qed.

Lemma env_no_down_gen e s : filter is_down_out (snd (env_step src c e s)) = [].
Proof.
  destruct (env_shape e s) as [_ H2].
  induction (snd (env_step src c e s)) as [|o l IH]; cbn; auto.
  destruct (H2 o (or_introl eq_refl)) as [k ->]. cbn. apply IH. intros o' Ho'. apply H2. now right.
Qed.

Lemma ok_do_step s x : R s (snd (do_step src c s x)) (fst (do_step src c s x)).
Proof. destruct x; cbn [do_step]; [apply ok_worker|apply ok_env]. Qed.

Lemma ok_run sched : forall s, R s (snd (run src c s sched)) (fst (run src c s sched)).
Proof.
  induction sched as [|x sched IH]; intros s; cbn [run]; [apply R_refl|].
  pose proof (ok_do_step s x) as H1. destruct (do_step src c s x) as [s1 o1]. cbn [fst snd] in H1.
  specialize (IH s1). destruct (run src c s1 sched) as [s2 o2]. cbn [fst snd] in *. eapply R_trans; eauto.
Qed.

End Gen.

Theorem clean_once : forall src c rc0 sched,
  let '(s, o) := run src c (init_st rc0) sched in
  (count_gauge o <= 1)%nat /\ (cleaned s = true <-> count_gauge o = 1%nat) /\
  count_log o = count_gauge o /\ count_destroy o = count_gauge o.
Proof.
  intros src c rc0 sched. pose proof (ok_run src c sched (init_st rc0)) as [_ H].
  destruct (run src c (init_st rc0) sched) as [s o]. cbn [fst snd] in H.
  destruct (H eq_refl) as [[C M]|[C M]]; unfold m3 in M; injection M as M1 M2 M3; rewrite M1, M2, M3;
    repeat split; auto; try congruence; try lia; intros; try congruence; try lia.
Qed.

Theorem env_no_down : forall src c e s, filter is_down_out (snd (env_step src c e s)) = [].
Proof. intros. apply env_no_down_gen. Qed.

(* the reply generated for an upstream reset carries the reason's code *)
Theorem reset_reason_code : forall src c why s,
  resp_started s = false -> ((why = RsGlobalTimeout /\ reset_excludes_global src = true) \/ retry s = None) ->
  let '(s', _) := on_upstream_reset src c why s in
  (exists d o, rsp s' = Some {| r_kind := KHijack; r_code := reason_code src why; r_data := d; r_trailers := false; r_body := o |}) /\ direct s' = true.
Proof.
  intros src c why s Hs Hw. unfold on_upstream_reset.
  assert (E : (negb (reset_excludes_global src) || negb (reason_eqb why RsGlobalTimeout)) && negb (resp_started s) && match retry s with Some _ => true | None => false end = false).
  { destruct Hw as [[-> Hx]| ->]; [rewrite Hx; cbn; auto|now rewrite andb_false_r]. }
  rewrite E. unfold aseq.
  assert (Hc : resp_started (fst (clean_up src c s)) = false).
  { unfold clean_up, aseq, when, upd. destruct (retry s); cbn [fst snd]; auto.
    unfold rs_reset. destruct (reset_guarded src).
    - unfold when. destruct (reserved s); cbn [fst snd]; auto. unfold aseq, res_dec, upd. destruct (res_off src c); cbn; auto.
    - unfold res_dec. destruct (res_off src c); cbn; auto. }
  destruct (clean_up src c s) as [s1 o1]. cbn [fst] in Hc. unfold ite. rewrite Hc. cbn. split; auto. eexists; eexists; reflexivity.
Qed.

(* doRetryCheck *)
Theorem retry_check_response : forall c code,
  retry_rule c (Some code) RsEmpty = true <->
  c_retry_on c = true /\ ((c_codes c = [] /\ 500 <= code) \/ (c_codes c <> [] /\ In code (c_codes c))).
Proof.
  intros c code. unfold retry_rule. cbn [reason_eqb]. destruct (c_retry_on c); [|split; [discriminate|intros [H _]; discriminate]].
  destruct (c_codes c) as [|z l] eqn:E.
  - rewrite Z.leb_le. split; [intros H; split; auto|intros [_ [[_ H]|[H _]]]; auto; congruence].
  - split.
    + intros H. split; auto. right. split; [discriminate|]. apply existsb_exists in H as [y [Hy He]]. apply Z.eqb_eq in He. now subst.
    + intros [_ [[H _]|[_ H]]]; [discriminate|]. apply existsb_exists. exists code. split; auto. apply Z.eqb_refl.
Qed.

Theorem retry_check_reset : forall c why,
  retry_rule c None why = true <->
  why <> RsOverflow /\ (why = RsConnFailed \/ (c_retry_on c = true /\ (why = RsPerTryTimeout \/ why = RsTermination))).
Proof.
  intros c why. unfold retry_rule. destruct why; cbn [reason_eqb]; destruct (c_retry_on c); cbn; split; intros H;
    try discriminate; try (split; [discriminate|]; auto 6); try tauto;
    destruct H as [H1 [H2|[H3 [H4|H4]]]]; try discriminate; try congruence; auto.
Qed.

(* where the status comes from.  A RESET is judged by its reason alone - whatever an earlier attempt left in the request context -
   when doRetryCheck does not consult the status mapping for resets (every flavour), or when the mapping reads the headers *)
Theorem retry_reset_by_reason_only : forall src c why s,
  reset_reads_status src = false \/ c_http c = false -> retry_check src c None why s = retry_rule c None why.
Proof. intros src c why s [H|H]; unfold retry_check, mapped_status; rewrite H; [rewrite andb_false_r|]; reflexivity. Qed.
(* a RESPONSE is judged by its own status when the mapping reads the headers; for the HTTP flavour (status read from the context
   variable) see the family statement on [x_stale] *)
Theorem retry_response_by_own_status : forall src c z why s,
  c_http c = false -> retry_check src c (Some z) why s = retry_rule c (Some z) why.
Proof. intros src c z why s H. unfold retry_check, mapped_status. rewrite H. reflexivity. Qed.
Theorem retry_response_http : forall src c z why s,
  c_http c = true -> status_var s = Some z -> retry_check src c (Some z) why s = retry_rule c (Some z) why.
Proof. intros src c z why s H Hv. unfold retry_check, mapped_status. rewrite H, Hv. reflexivity. Qed.

(* a request that carries proxy_disable_retry is never retried: every route, every reason or status, every state *)
Theorem disabled_request_never_retried : forall src c code why s,
  disable_retry_first src = true -> c_disable_retry c = true ->
  let '(_, _, r) := rs_retry src c code why s in r <> RShould.
Proof.
  intros src c code why s Hf Hd. unfold rs_retry. destruct (rs_reset src c s) as [s1 o1].
  destruct (retry s1) as [[|n]|]; try discriminate.
  unfold retry_disabled. rewrite Hf, Hd. cbn [andb orb]. rewrite orb_true_r. discriminate.
Qed.

Theorem budget_def : forall src c, budget src c = Nat.max (min_budget src) (c_num_retries c).
Proof. reflexivity. Qed.

(* ---------- retry(): admission against the Retries resource ---------- *)
Theorem retry_threshold : forall src c code why s n,
  0 < c_max_retries c -> retry s = Some (S n) -> retry_check src c code why s = true -> 0 <= rc s -> reserved s = false ->
  reset_guarded src = true -> retry_disabled src c = false ->
  let '(s', o, r) := rs_retry src c code why s in
  (rc s < c_max_retries c -> r = RShould /\ rc s' = rc s + 1 /\ reserved s' = true) /\
  (c_max_retries c <= rc s -> r = ROver /\ rc s' = rc s /\ reserved s' = false).
Proof.
  intros src c code why s n Hm Hr Hc H0 Hres Hg Hdis. unfold rs_retry, rs_reset. rewrite Hg. unfold when. rewrite Hres.
  rewrite Hr. change (retry_check src c code why (s <| retry := Some n |>)) with (retry_check src c code why s). rewrite Hc, Hdis. cbn [negb orb].
  unfold can_create. cbn [rc]. change (rc (s <| retry := Some n |>)) with (rc s).
  assert (E0 : (c_max_retries c =? 0) = false) by (apply Z.eqb_neq; lia).
  assert (E1 : (rc s <? 0) = false) by (apply Z.ltb_ge; lia).
  rewrite E0, E1. cbn [orb].
  destruct (rc s <? c_max_retries c) eqn:E2; cbn [negb].
  - apply Z.ltb_lt in E2. unfold res_inc, res_off. rewrite E0. cbn. split; [intros _; auto|intros; lia].
  - apply Z.ltb_ge in E2. cbn. split; [intros; lia|intros _; auto].
Qed.

Theorem retry_should_spec : forall src c code why s,
  let '(s', _, r) := rs_retry src c code why s in
  r = RShould -> retry_check src c code why s = true /\ retry_disabled src c = false /\ exists n, retry s = Some (S n) /\ retry s' = Some n.
Proof.
  intros src c code why s. unfold rs_retry.
  assert (Hk : retry (fst (rs_reset src c s)) = retry s).
  { unfold rs_reset. destruct (reset_guarded src).
    - unfold when. destruct (reserved s); auto. unfold aseq, res_dec, upd. destruct (res_off src c); reflexivity.
    - unfold res_dec. destruct (res_off src c); reflexivity. }
  assert (Hv : status_var (fst (rs_reset src c s)) = status_var s).
  { unfold rs_reset. destruct (reset_guarded src).
    - unfold when. destruct (reserved s); auto. unfold aseq, res_dec, upd. destruct (res_off src c); reflexivity.
    - unfold res_dec. destruct (res_off src c); reflexivity. }
  destruct (rs_reset src c s) as [s1 o1]. cbn [fst] in Hk, Hv.
  destruct (retry s1) as [[|n]|] eqn:E; try discriminate.
  assert (Hq : retry_check src c code why (s1 <| retry := Some n |>) = retry_check src c code why s).
  { unfold retry_check, mapped_status. change (status_var (s1 <| retry := Some n |>)) with (status_var s1). rewrite Hv. reflexivity. }
  rewrite Hq.
  destruct (negb (retry_check src c code why s)) eqn:Ec; [discriminate|].
  destruct (retry_disabled src c) eqn:Ed; [discriminate|]. cbn [orb].
  destruct (negb (can_create c (s1 <| retry := Some n |>))); [discriminate|].
  unfold res_inc. destruct (res_off src c); intros _; (split; [now apply negb_false_iff in Ec|split; [reflexivity|exists n; rewrite <- Hk; auto]]).
Qed.

Theorem global_timeout_not_retried : forall src c s,
  reset_excludes_global src = true -> resp_started s = false ->
  let '(s', _) := on_upstream_reset src c RsGlobalTimeout s in
  setup_retry s' = setup_retry s /\ direct s' = true /\ nnew s' = nnew s /\
  exists d o, rsp s' = Some {| r_kind := KHijack; r_code := reason_code src RsGlobalTimeout; r_data := d; r_trailers := false; r_body := o |}.
Proof.
  intros src c s Hx Hs. unfold on_upstream_reset. rewrite Hx. cbn [reason_eqb negb andb orb]. unfold aseq.
  assert (Hc : resp_started (fst (clean_up src c s)) = false /\ setup_retry (fst (clean_up src c s)) = setup_retry s /\
               nnew (fst (clean_up src c s)) = nnew s).
  { unfold clean_up, aseq, when, upd. destruct (retry s); cbn [fst snd]; auto.
    unfold rs_reset. destruct (reset_guarded src).
    - unfold when. destruct (reserved s); cbn [fst snd]; auto. unfold aseq, res_dec, upd. destruct (res_off src c); cbn; auto.
    - unfold res_dec. destruct (res_off src c); cbn; auto. }
  destruct (clean_up src c s) as [s1 o1]. cbn [fst] in Hc. destruct Hc as [Hc1 [Hc2 Hc3]]. unfold ite. rewrite Hc1. cbn.
  repeat split; auto. eexists; eexists; reflexivity.
Qed.

(* ---------- timer functions of an earlier owner of the pooled object ---------- *)
(* a timer function whose captured proxy ID differs from the object's current ID does nothing to the request that holds the
   object now - every configuration, every state (it only clears reuseBuffer, which it does before any check: the current owner
   will then not give its objects back) *)
Theorem stale_timer_noop : forall src c s,
  (try_captures_id src = true -> env_step src c (EvStaleTry false) s = (s <| reuse := false |>, [])) /\
  (global_captures_id src = true -> env_step src c (EvStaleGlobal false) s = (s <| reuse := false |>, [])).
Proof.
  intros src c s. split; intros Hc; cbn [env_step]; [unfold stale_try|unfold stale_global]; rewrite Hc; cbn zeta; cbn [negb];
    destruct (cleaned (s <| reuse := false |>)); reflexivity.
Qed.

(* ---------- the pooled filter-chain object ---------- *)
Theorem next_request_fresh : forall src, put_resets_cursor src = true ->
  forall prev rc0, rcursor (next_request src prev rc0) = 0%nat /\ scursor (next_request src prev rc0) = 0%nat.
Proof. intros src H prev rc0. unfold next_request. rewrite H. split; reflexivity. Qed.
