(* Proofs about Model/XAlloc.v: with GenerateRequestID a single atomic add, ids allocated by any number of concurrent
   threads under EVERY schedule are pairwise distinct within a window of id_space allocations (counter wrap included). *)
From Coq Require Import List NArith Bool Arith Lia Permutation.
From Coq Require Import ZifyBool ZifyNat ZifyN.
From MV Require Import Lib.Interleave Model.XConn Model.XAlloc Proofs.XConn.
Import ListNotations.
Open Scope N_scope.

(* the ids of the first m allocations after counter value c0, newest first *)
Fixpoint ids_upto (g : genk) (c0 : N) (m : nat) : list N :=
  match m with O => [] | S k => gen_id g ((c0 + N.of_nat k + 1) mod two64) :: ids_upto g c0 k end.

Lemma ids_upto_In : forall g c0 m x, In x (ids_upto g c0 m) -> exists i, (i < m)%nat /\ x = gen_id g ((c0 + N.of_nat i + 1) mod two64).
Proof.
  induction m as [|m IH]; cbn; intros x H; [tauto|]. destruct H as [<-|H]; [exists m; split; [lia|reflexivity]|].
  destruct (IH x H) as [i [Hi E]]. exists i. split; [lia|assumption].
Qed.

Lemma ids_upto_NoDup : forall g c0 m, real_gen g -> c0 < two64 -> N.of_nat m <= id_space g -> NoDup (ids_upto g c0 m).
Proof.
  intros g c0 m Hg Hc. induction m as [|m IH]; intros Hm; cbn; [constructor|].
  constructor; [|apply IH; lia]. intros Hin. apply ids_upto_In in Hin. destruct Hin as [i [Hi E]].
  apply (gen_inj g c0 (N.of_nat i) (N.of_nat m) Hg Hc); [lia|lia|]. symmetry. exact E.
Qed.

Lemma all_ids_app : forall l1 t l2, all_ids (l1 ++ t :: l2) = all_ids l1 ++ a_out t ++ all_ids l2.
Proof. intros. unfold all_ids. rewrite flat_map_app. reflexivity. Qed.

Lemma total_todo_app : forall l1 t l2, total_todo (l1 ++ t :: l2) = (total_todo l1 + a_todo t + total_todo l2)%nat.
Proof. induction l1; cbn; intros; [lia|]. rewrite IHl1. lia. Qed.

Definition alloc_inv (g : genk) (c0 : N) (T : nat) (cfg : list athread * N) : Prop :=
  exists m, snd cfg = (c0 + N.of_nat m) mod two64 /\ (m + total_todo (fst cfg) = T)%nat /\
            Permutation (all_ids (fst cfg)) (ids_upto g c0 m).

Lemma alloc_inv_step : forall g c0 T cfg k, alloc_inv g c0 T cfg -> alloc_inv g c0 T (sched_step (astep (AtomicAdd g)) cfg k).
Proof.
  intros g c0 T [ts c] k [m [Hc [Ht Hp]]]. unfold sched_step. cbn [fst snd] in *.
  destruct (nth_error ts k) as [t|] eqn:En; [|exists m; auto].
  destruct (nth_error_split_upd k ts t En) as [l1 [l2 [E [_ Hu]]]].
  cbn [astep]. destruct (a_todo t) as [|n] eqn:Etodo; cbn [fst snd].
  - exists m. rewrite Hu, <- E. cbn [fst snd]. auto.
  - exists (S m). rewrite Hu. subst ts. cbn [fst snd]. split; [|split].
    + rewrite Hc, next_ctr_closed. f_equal. lia.
    + rewrite total_todo_app in *. cbn [a_todo]. lia.
    + rewrite all_ids_app in *. cbn [a_out ids_upto].
      rewrite Hc, next_ctr_closed. replace (c0 + (N.of_nat m + 1)) with (c0 + N.of_nat m + 1) by lia.
      etransitivity; [symmetry; apply Permutation_middle|]. constructor. exact Hp.
Qed.

Lemma athreads_ids : forall todo, all_ids (athreads todo) = [].
Proof. induction todo; cbn; auto. Qed.

Theorem alloc_atomic_distinct : forall g c0 todo sched, real_gen g -> c0 < two64 ->
  N.of_nat (total_todo (athreads todo)) <= id_space g ->
  let cfg := arun (AtomicAdd g) sched todo c0 in
  NoDup (all_ids (fst cfg)) /\
  exists m, (m <= total_todo (athreads todo))%nat /\ snd cfg = (c0 + N.of_nat m) mod two64 /\
            Permutation (all_ids (fst cfg)) (ids_upto g c0 m).
Proof.
  intros g c0 todo sched Hg Hc Hw cfg.
  assert (HI : alloc_inv g c0 (total_todo (athreads todo)) cfg).
  { unfold cfg, arun. apply (run_invariant (astep (AtomicAdd g)) (alloc_inv g c0 (total_todo (athreads todo)))).
    - intros c k. apply alloc_inv_step.
    - exists 0%nat. cbn [fst snd]. split; [rewrite N.add_0_r; symmetry; apply N.mod_small; assumption|]. split; [lia|].
      rewrite athreads_ids. constructor. }
  destruct HI as [m [H1 [H2 H3]]]. split.
  - eapply Permutation_NoDup; [symmetry; exact H3|]. apply ids_upto_NoDup; auto. lia.
  - exists m. split; [lia|]. auto.
Qed.
