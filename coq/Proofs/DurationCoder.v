(* Proofs/DurationCoder.v (cfg, C19) - time.ParseDuration (Duration.String d) = d, for every d. *)
From Coq Require Import List String Bool ZArith NArith Lia Ascii DecimalString DecimalN Decimal.
From MV Require Import Lib.GoJson.
Import ListNotations.
Open Scope string_scope.
Open Scope N_scope.

(* ================================================================================================ *)
(* 1. strings                                                                                       *)
(* ================================================================================================ *)
Lemma app_assoc_s (a b c : string) : ((a ++ b) ++ c)%string = (a ++ (b ++ c))%string.
Proof. induction a as [|x a IH]; cbn; [reflexivity|now rewrite IH]. Qed.
Lemma app_nil_r_s (a : string) : (a ++ "")%string = a.
Proof. induction a as [|x a IH]; cbn; [reflexivity|now rewrite IH]. Qed.
Lemma length_app_s (a b : string) : String.length (a ++ b) = (String.length a + String.length b)%nat.
Proof. induction a as [|x a IH]; cbn; [reflexivity|now rewrite IH]. Qed.

(* the next character, if any, stops a run of digits *)
Definition nodigit (r : string) : Prop := match r with String c _ => is_digit c = false | EmptyString => True end.
(* ... is a digit or a dot (stops a unit), or the end *)
Definition stops (r : string) : Prop :=
  match r with String c _ => (is_digit c || Ascii.eqb c ".")%bool = true | EmptyString => True end.
Definition starts_digit (r : string) : Prop := match r with String c _ => is_digit c = true | EmptyString => False end.

Fixpoint all_digits (s : string) : Prop :=
  match s with String c s' => is_digit c = true /\ all_digits s' | EmptyString => True end.
Fixpoint dnum (s : string) (acc : N) : N :=
  match s with String c s' => dnum s' (acc * 10 + digit_val c) | EmptyString => acc end.

Lemma scan_digits_app D : forall r acc cnt, all_digits D -> nodigit r ->
  scan_digits (D ++ r) acc cnt = (dnum D acc, (cnt + String.length D)%nat, r).
Proof.
  induction D as [|c D IH]; intros r acc cnt HD Hr; cbn [append dnum String.length].
  - rewrite Nat.add_0_r. destruct r as [|c r]; [reflexivity|]. cbn in *. rewrite Hr. reflexivity.
  - destruct HD as [Hc HD]. cbn [scan_digits]. rewrite Hc. rewrite (IH r _ _ HD Hr). f_equal. f_equal. lia.
Qed.

Lemma dnum_snoc D : forall c acc, dnum (D ++ String c "") acc = dnum D acc * 10 + digit_val c.
Proof. induction D as [|x D IH]; intros c acc; cbn; [reflexivity|apply IH]. Qed.

Lemma all_digits_snoc D c : all_digits D -> is_digit c = true -> all_digits (D ++ String c "").
Proof. induction D as [|x D IH]; cbn; intros H Hc; [tauto|]. destruct H. split; [assumption|apply IH; assumption]. Qed.

Lemma dnum_acc D : forall acc, dnum D acc = acc * pow10 (String.length D) + dnum D 0.
Proof.
  induction D as [|c D IH]; intros acc; cbn [dnum String.length pow10]; [lia|].
  rewrite IH. rewrite (IH (0 * 10 + digit_val c)). lia.
Qed.

(* ================================================================================================ *)
(* 2. decimal printing of a number (NilZero.string_of_uint of N.to_uint) read back                  *)
(* ================================================================================================ *)
Fixpoint uval (d : uint) (acc : N) : N :=
  match d with
  | Nil => acc
  | D0 l => uval l (acc * 10) | D1 l => uval l (acc * 10 + 1) | D2 l => uval l (acc * 10 + 2)
  | D3 l => uval l (acc * 10 + 3) | D4 l => uval l (acc * 10 + 4) | D5 l => uval l (acc * 10 + 5)
  | D6 l => uval l (acc * 10 + 6) | D7 l => uval l (acc * 10 + 7) | D8 l => uval l (acc * 10 + 8)
  | D9 l => uval l (acc * 10 + 9)
  end.

Lemma of_uint_acc_uval d : forall p, N.pos (Pos.of_uint_acc d p) = uval d (N.pos p).
Proof.
  induction d; intros p; cbn [Pos.of_uint_acc uval]; try reflexivity; rewrite IHd; f_equal; lia.
Qed.

Lemma of_uint_uval d : N.of_uint d = uval d 0.
Proof.
  unfold N.of_uint. induction d; cbn [Pos.of_uint uval]; try reflexivity;
    try (rewrite of_uint_acc_uval; f_equal; lia).
  exact IHd.
Qed.

Lemma uint_string d : all_digits (NilEmpty.string_of_uint d) /\ forall acc, dnum (NilEmpty.string_of_uint d) acc = uval d acc.
Proof.
  induction d; cbn [NilEmpty.string_of_uint all_digits dnum uval]; [split; [exact I|intros acc; reflexivity]|..];
    destruct IHd as [H1 H2]; (split; [split; [reflexivity|exact H1]|intros acc; rewrite H2; f_equal; cbn; lia]).
Qed.

Definition N_digits (n : N) : string := N_to_string n.

Lemma N_to_string_digits n : all_digits (N_to_string n) /\ dnum (N_to_string n) 0 = n /\ (1 <= String.length (N_to_string n))%nat.
Proof.
  unfold N_to_string, NilZero.string_of_uint.
  pose proof (DecimalN.Unsigned.of_to n) as Hn. rewrite of_uint_uval in Hn.
  destruct (N.to_uint n) eqn:E.
  1: { cbn in Hn. subst n. split; [split; [reflexivity|exact I]|]. split; [reflexivity|cbn; lia]. }
  all: destruct (uint_string (N.to_uint n)) as [H1 H2]; rewrite E in H1, H2; split; [exact H1|]; split; [rewrite H2; exact Hn|cbn; lia].
Qed.

Lemma N_to_string_starts n : starts_digit (N_to_string n).
Proof.
  destruct (N_to_string_digits n) as [H [_ Hl]]. destruct (N_to_string n); cbn in *; [lia|tauto].
Qed.

Lemma scan_N n r acc cnt : nodigit r ->
  scan_digits (N_to_string n ++ r) acc cnt = (acc * pow10 (String.length (N_to_string n)) + n, (cnt + String.length (N_to_string n))%nat, r).
Proof.
  intros Hr. destruct (N_to_string_digits n) as [H1 [H2 _]].
  rewrite (scan_digits_app _ r acc cnt H1 Hr). rewrite dnum_acc, H2. reflexivity.
Qed.

(* ================================================================================================ *)
(* 3. the fraction printed by fmt_frac                                                              *)
(* ================================================================================================ *)
Lemma pow10_nz n : pow10 n <> 0.
Proof. induction n; cbn [pow10]; lia. Qed.

Lemma pow10_split p k : (k <= p)%nat -> pow10 p = pow10 k * pow10 (p - k).
Proof.
  revert p. induction k as [|k IH]; intros p H; cbn [pow10]; [rewrite Nat.sub_0_r; lia|].
  destruct p as [|p]; [lia|]. cbn [pow10 Nat.sub]. rewrite (IH p) by lia. lia.
Qed.

Lemma dchar_ok d : d < 10 -> is_digit (ascii_of_N (48 + d)) = true /\ digit_val (ascii_of_N (48 + d)) = d.
Proof.
  intros H.
  assert (E : d = 0 \/ d = 1 \/ d = 2 \/ d = 3 \/ d = 4 \/ d = 5 \/ d = 6 \/ d = 7 \/ d = 8 \/ d = 9) by lia.
  repeat (destruct E as [E|E]; [subst d; split; reflexivity|]). subst d; split; reflexivity.
Qed.

Lemma frac_digits_spec : forall p w st acc, exists D,
  frac_digits p w st acc = ((D ++ acc)%string, w / pow10 p) /\ all_digits D /\
  (if st then String.length D = p /\ dnum D 0 = w mod pow10 p
   else (String.length D <= p)%nat /\ dnum D 0 * pow10 (p - String.length D) = w mod pow10 p).
Proof.
  induction p as [|p IH]; intros w st acc.
  - exists "". cbn [frac_digits append pow10 all_digits String.length dnum Nat.sub]. rewrite N.div_1_r, N.mod_1_r.
    split; [reflexivity|]. split; [exact I|]. destruct st; split; lia.
  - cbn [frac_digits]. set (d := w mod 10).
    assert (Hd : d < 10) by (apply N.mod_lt; lia).
    destruct (dchar_ok d Hd) as [Hc1 Hc2].
    assert (Hdiv : w / pow10 (S p) = w / 10 / pow10 p).
    { cbn [pow10]. rewrite N.div_div; [reflexivity|lia|apply pow10_nz]. }
    assert (Hmod : w mod pow10 (S p) = d + 10 * ((w / 10) mod pow10 p)).
    { cbn [pow10]. apply N.mod_mul_r; [lia|apply pow10_nz]. }
    rewrite Hdiv, Hmod.
    destruct st; cbn [orb].
    + destruct (IH (w / 10) true (String (ascii_of_N (48 + d)) acc)) as [D [E [HD [Hl Hn]]]].
      exists (D ++ String (ascii_of_N (48 + d)) "")%string. rewrite E, app_assoc_s. cbn [append].
      split; [reflexivity|]. split; [apply all_digits_snoc; assumption|].
      rewrite length_app_s, dnum_snoc, Hc2, Hn, Hl. cbn [String.length]. split; lia.
    + destruct (N.eqb d 0) eqn:Ez; cbn [negb].
      * apply N.eqb_eq in Ez.
        destruct (IH (w / 10) false acc) as [D [E [HD [Hl Hn]]]].
        exists D. rewrite E. split; [reflexivity|]. split; [exact HD|]. split; [lia|].
        replace (S p - String.length D)%nat with (S (p - String.length D)) by lia. cbn [pow10]. rewrite Ez. lia.
      * destruct (IH (w / 10) true (String (ascii_of_N (48 + d)) acc)) as [D [E [HD [Hl Hn]]]].
        exists (D ++ String (ascii_of_N (48 + d)) "")%string. rewrite E, app_assoc_s. cbn [append].
        split; [reflexivity|]. split; [apply all_digits_snoc; assumption|].
        rewrite length_app_s, dnum_snoc, Hc2, Hn, Hl. cbn [String.length].
        split; [lia|]. replace (S p - (p + 1))%nat with O by lia. cbn [pow10]. lia.
Qed.

Definition frac_text (D : string) : string := match D with EmptyString => EmptyString | _ => String "." D end.

Lemma fmt_frac_spec w prec : exists D,
  fmt_frac w prec = (frac_text D, w / pow10 prec) /\ all_digits D /\ (String.length D <= prec)%nat /\
  dnum D 0 * pow10 (prec - String.length D) = w mod pow10 prec.
Proof.
  unfold fmt_frac. destruct (frac_digits_spec prec w false "") as [D [E [HD [Hl Hn]]]].
  rewrite E, app_nil_r_s. exists D. split; [reflexivity|]. tauto.
Qed.

(* the value ParseDuration adds for that fraction: (digits as a number) * unit / 10^(number of digits) *)
Lemma frac_value D prec x : (String.length D <= prec)%nat -> dnum D 0 * pow10 (prec - String.length D) = x ->
  dnum D 0 * pow10 prec / pow10 (String.length D) = x.
Proof.
  intros Hl Hx. rewrite (pow10_split prec (String.length D) Hl).
  rewrite (N.mul_comm (pow10 (String.length D))), N.mul_assoc, N.div_mul by apply pow10_nz. exact Hx.
Qed.

(* ================================================================================================ *)
(* 4. one component "<int>[.<frac>]<unit>" through the parser                                       *)
(* ================================================================================================ *)
Definition comp_body (rec : string -> N -> option N) (s : string) (acc : N) : option N :=
  let '(v, pre, s1) := scan_digits s 0 0 in
  let '(f, post, s2) := match s1 with
                        | String c s1' => if Ascii.eqb c "." then scan_digits s1' 0 0 else (0, O, s1)
                        | EmptyString => (0, O, s1)
                        end in
  if (Nat.eqb pre O && Nat.eqb post O)%bool then None
  else
    let '(u, s3) := scan_unit s2 in
    match u with
    | EmptyString => None
    | _ => match unit_ns u with
           | None => None
           | Some m => rec s3 (acc + v * m + f * m / pow10 post)
           end
    end.

Lemma parse_comps_S fuel c s acc : parse_comps (S fuel) (String c s) acc = comp_body (parse_comps fuel) (String c s) acc.
Proof. reflexivity. Qed.
Lemma parse_comps_nil fuel acc : parse_comps fuel "" acc = Some acc.
Proof. destruct fuel; reflexivity. Qed.

Lemma parse_comps_mono : forall f s acc r, parse_comps f s acc = Some r -> forall f', (f <= f')%nat -> parse_comps f' s acc = Some r.
Proof.
  induction f as [|f IH]; intros s acc r H f' Hf.
  - destruct s; [cbn in H; rewrite parse_comps_nil; exact H|discriminate].
  - destruct s as [|c s]; [cbn in H; rewrite parse_comps_nil; exact H|].
    destruct f' as [|f']; [lia|]. rewrite parse_comps_S in *. unfold comp_body in *.
    destruct (scan_digits (String c s) 0 0) as [[v pre] s1].
    destruct (match s1 with String c0 s1' => if Ascii.eqb c0 "." then scan_digits s1' 0 0 else (0, O, s1) | EmptyString => (0, O, s1) end) as [[fr post] s2].
    destruct (Nat.eqb pre 0 && Nat.eqb post 0)%bool; [discriminate|].
    destruct (scan_unit s2) as [u s3]. destruct u; [discriminate|].
    destruct (unit_ns (String a u)); [|discriminate]. apply IH with (f' := f') in H; [exact H|lia].
Qed.

(* characters of a unit *)
Fixpoint unit_chars (u : string) : Prop :=
  match u with String c u' => (is_digit c || Ascii.eqb c ".")%bool = false /\ unit_chars u' | EmptyString => True end.

Lemma scan_unit_app u : forall rest, unit_chars u -> stops rest -> scan_unit (u ++ rest) = (u, rest).
Proof.
  induction u as [|c u IH]; intros rest Hu Hr; cbn [append].
  - destruct rest as [|c r]; [reflexivity|]. cbn in *. rewrite Hr. reflexivity.
  - destruct Hu as [Hc Hu]. cbn [scan_unit]. rewrite Hc, (IH rest Hu Hr). reflexivity.
Qed.

Lemma unit_first_nodigit c u rest : unit_chars (String c u) -> nodigit (String c u ++ rest).
Proof. cbn. intros [H _]. apply orb_false_iff in H. tauto. Qed.

Lemma starts_digit_stops r : starts_digit r -> stops r.
Proof. destruct r; cbn; [contradiction|]. intros ->. reflexivity. Qed.

(* reading one component printed as  N_to_string v ++ frac_text D ++ u  *)
Lemma comp_step fuel v D c u m rest acc :
  all_digits D -> unit_chars (String c u) -> unit_ns (String c u) = Some m -> stops rest ->
  parse_comps (S fuel) (N_to_string v ++ frac_text D ++ String c u ++ rest) acc
  = parse_comps fuel rest (acc + v * m + dnum D 0 * m / pow10 (String.length D)).
Proof.
  intros HD Hu Hm Hr.
  pose proof (N_to_string_starts v) as Hs. destruct (N_to_string_digits v) as [_ [_ Hlen]].
  assert (Hne : exists c0 s0, (N_to_string v ++ frac_text D ++ String c u ++ rest)%string = String c0 s0).
  { destruct (N_to_string v) as [|c0 s0]; [contradiction|]. cbn. eauto. }
  destruct Hne as [c0 [s0 E0]]. rewrite E0, parse_comps_S, <- E0. unfold comp_body.
  assert (Hc : (is_digit c || Ascii.eqb c ".")%bool = false) by (destruct Hu; assumption).
  apply orb_false_iff in Hc. destruct Hc as [Hc1 Hc2].
  destruct D as [|x D].
  - change (N_to_string v ++ frac_text "" ++ String c u ++ rest)%string with (N_to_string v ++ String c (u ++ rest))%string.
    rewrite (scan_N v (String c (u ++ rest)) 0 O) by (cbn; exact Hc1).
    rewrite Hc2.
    replace (Nat.eqb (0 + String.length (N_to_string v)) 0) with false by (symmetry; apply Nat.eqb_neq; lia).
    cbn [andb]. change (String c (u ++ rest)) with (String c u ++ rest)%string.
    rewrite (scan_unit_app (String c u) rest Hu Hr). rewrite Hm.
    cbn [dnum String.length pow10]. rewrite N.mul_0_l. reflexivity.
  - change (N_to_string v ++ frac_text (String x D) ++ String c u ++ rest)%string
      with (N_to_string v ++ String "." (String x D ++ (String c u ++ rest)))%string.
    rewrite (scan_N v (String "." (String x D ++ (String c u ++ rest))) 0 O) by (cbn; reflexivity).
    replace (Ascii.eqb "." ".") with true by reflexivity.
    rewrite (scan_digits_app (String x D) (String c u ++ rest) 0 O HD) by (cbn; exact Hc1).
    replace (Nat.eqb (0 + String.length (N_to_string v)) 0) with false by (symmetry; apply Nat.eqb_neq; lia).
    cbn [andb]. rewrite (scan_unit_app (String c u) rest Hu Hr). rewrite Hm.
    rewrite N.mul_0_l, N.add_0_l. reflexivity.
Qed.

(* ================================================================================================ *)
(* 5. Duration.String, shape by shape                                                               *)
(* ================================================================================================ *)
Definition fmt_body (u : N) : string :=
  if N.ltb u 1000000000 then
    if N.ltb u 1000 then N_to_string u ++ "ns"
    else if N.ltb u 1000000 then
      let '(f, r) := fmt_frac u 3 in N_to_string r ++ f ++ String (ascii_of_N 194) (String (ascii_of_N 181) "s")
    else let '(f, r) := fmt_frac u 6 in N_to_string r ++ f ++ "ms"
  else
    let '(f, secs) := fmt_frac u 9 in
    let s := N.modulo secs 60 in
    let mins := N.div secs 60 in
    let spart := N_to_string s ++ f ++ "s" in
    if N.eqb mins 0 then spart
    else
      let m := N.modulo mins 60 in
      let h := N.div mins 60 in
      let mpart := N_to_string m ++ "m" ++ spart in
      if N.eqb h 0 then mpart else N_to_string h ++ "h" ++ mpart.

Lemma fmt_duration_eq d : fmt_duration d =
  if Z.eqb d 0 then "0s" else if Z.ltb d 0 then ("-" ++ fmt_body (Z.to_N (Z.abs d)))%string else fmt_body (Z.to_N (Z.abs d)).
Proof. reflexivity. Qed.

Lemma starts_app a b : starts_digit a -> starts_digit (a ++ b).
Proof. destruct a; cbn; [contradiction|tauto]. Qed.

Lemma len_head v r : String.length (N_to_string v ++ r) = (String.length (N_to_string v) + String.length r)%nat /\ (1 <= String.length (N_to_string v))%nat.
Proof. split; [apply length_app_s|]. destruct (N_to_string_digits v) as [_ [_ H]]. exact H. Qed.

Lemma unit_ok_ns : unit_chars "ns" /\ unit_ns "ns" = Some 1. Proof. repeat split; reflexivity. Qed.
Lemma unit_ok_us : unit_chars micro_s /\ unit_ns micro_s = Some 1000. Proof. repeat split; reflexivity. Qed.
Lemma unit_ok_ms : unit_chars "ms" /\ unit_ns "ms" = Some 1000000. Proof. repeat split; reflexivity. Qed.
Lemma unit_ok_s : unit_chars "s" /\ unit_ns "s" = Some 1000000000. Proof. repeat split; reflexivity. Qed.
Lemma unit_ok_m : unit_chars "m" /\ unit_ns "m" = Some 60000000000. Proof. repeat split; reflexivity. Qed.
Lemma unit_ok_h : unit_chars "h" /\ unit_ns "h" = Some 3600000000000. Proof. repeat split; reflexivity. Qed.

Lemma pow10_3 : pow10 3 = 1000. Proof. reflexivity. Qed.
Lemma pow10_6 : pow10 6 = 1000000. Proof. reflexivity. Qed.
Lemma pow10_9 : pow10 9 = 1000000000. Proof. reflexivity. Qed.

(* the seconds part "<s>[.<frac>]s" with nothing after it *)
Lemma spart_parse fuel s D acc x : all_digits D -> (String.length D <= 9)%nat ->
  dnum D 0 * pow10 (9 - String.length D) = x ->
  parse_comps (S fuel) (N_to_string s ++ frac_text D ++ "s") acc = Some (acc + s * 1000000000 + x).
Proof.
  intros HD Hl Hx. destruct unit_ok_s as [U1 U2].
  change (N_to_string s ++ frac_text D ++ "s")%string with (N_to_string s ++ frac_text D ++ String "s" "" ++ "")%string.
  rewrite (comp_step fuel s D "s" "" 1000000000 "" acc HD U1 U2 I), parse_comps_nil.
  rewrite <- pow10_9 at 2. rewrite (frac_value D 9 x Hl Hx). reflexivity.
Qed.

Lemma body_parse u : u <> 0 ->
  starts_digit (fmt_body u) /\ exists k, (k <= String.length (fmt_body u))%nat /\ (2 <= String.length (fmt_body u))%nat /\
    parse_comps k (fmt_body u) 0 = Some u.
Proof.
  intros Hu. unfold fmt_body.
  destruct (N.ltb u 1000000000) eqn:E9.
  - destruct (N.ltb u 1000) eqn:E3; [|destruct (N.ltb u 1000000) eqn:E6].
    + (* ns *)
      split; [apply starts_app, N_to_string_starts|]. exists 1%nat.
      destruct (len_head u "ns") as [L1 L2]. rewrite L1. cbn [String.length]. split; [lia|]. split; [lia|].
      destruct unit_ok_ns as [U1 U2].
      change (N_to_string u ++ "ns")%string with (N_to_string u ++ frac_text "" ++ String "n" "s" ++ "")%string.
      rewrite (comp_step 0 u "" "n" "s" 1 "" 0 I U1 U2 I), parse_comps_nil.
      cbn [dnum String.length pow10]. f_equal. rewrite N.div_1_r. lia.
    + (* microseconds *)
      destruct (fmt_frac_spec u 3) as [D [E [HD [Hl Hn]]]]. rewrite E. rewrite pow10_3 in *.
      split; [apply starts_app, N_to_string_starts|]. exists 1%nat.
      destruct (len_head (u / 1000) (frac_text D ++ micro_s)) as [L1 L2].
      change (String (ascii_of_N 194) (String (ascii_of_N 181) "s")) with micro_s. rewrite L1, length_app_s.
      change (String.length micro_s) with 3%nat. split; [lia|]. split; [lia|].
      destruct unit_ok_us as [U1 U2].
      change (N_to_string (u / 1000) ++ frac_text D ++ micro_s)%string
        with (N_to_string (u / 1000) ++ frac_text D ++ String (ascii_of_N 194) (String (ascii_of_N 181) "s") ++ "")%string.
      rewrite (comp_step 0 (u / 1000) D _ _ 1000 "" 0 HD U1 U2 I), parse_comps_nil.
      rewrite <- pow10_3 at 3. rewrite (frac_value D 3 (u mod 1000) Hl Hn). f_equal.
      pose proof (N.div_mod u 1000). lia.
    + (* milliseconds *)
      destruct (fmt_frac_spec u 6) as [D [E [HD [Hl Hn]]]]. rewrite E. rewrite pow10_6 in *.
      split; [apply starts_app, N_to_string_starts|]. exists 1%nat.
      destruct (len_head (u / 1000000) (frac_text D ++ "ms")) as [L1 L2]. rewrite L1, length_app_s.
      cbn [String.length]. split; [lia|]. split; [lia|].
      destruct unit_ok_ms as [U1 U2].
      change (N_to_string (u / 1000000) ++ frac_text D ++ "ms")%string
        with (N_to_string (u / 1000000) ++ frac_text D ++ String "m" "s" ++ "")%string.
      rewrite (comp_step 0 (u / 1000000) D "m" "s" 1000000 "" 0 HD U1 U2 I), parse_comps_nil.
      rewrite <- pow10_6 at 3. rewrite (frac_value D 6 (u mod 1000000) Hl Hn). f_equal.
      pose proof (N.div_mod u 1000000). lia.
  - (* a second or more *)
    destruct (fmt_frac_spec u 9) as [D [E [HD [Hl Hn]]]]. rewrite E. rewrite pow10_9 in Hn. rewrite pow10_9.
    set (secs := u / 1000000000). set (s := secs mod 60). set (mins := secs / 60).
    assert (Hu9 : u = secs * 1000000000 + u mod 1000000000) by (unfold secs; pose proof (N.div_mod u 1000000000); lia).
    assert (Hsecs : secs = mins * 60 + s) by (unfold mins, s; pose proof (N.div_mod secs 60); lia).
    assert (HS : forall fuel acc, parse_comps (S fuel) (N_to_string s ++ frac_text D ++ "s") acc = Some (acc + s * 1000000000 + u mod 1000000000)).
    { intros fuel acc. apply spart_parse; [exact HD|exact Hl|]. rewrite <- pow10_9 in Hn. exact Hn. }
    assert (LS : (2 <= String.length (N_to_string s ++ frac_text D ++ "s"))%nat).
    { destruct (len_head s (frac_text D ++ "s")) as [L1 L2]. rewrite L1, length_app_s. cbn [String.length]. lia. }
    assert (SS : starts_digit (N_to_string s ++ frac_text D ++ "s")) by (apply starts_app, N_to_string_starts).
    destruct (N.eqb mins 0) eqn:Em.
    + apply N.eqb_eq in Em. split; [exact SS|]. exists 1%nat. split; [lia|]. split; [exact LS|].
      rewrite HS. f_equal. lia.
    + apply N.eqb_neq in Em. set (m := mins mod 60). set (h := mins / 60).
      assert (Hmins : mins = h * 60 + m) by (unfold h, m; pose proof (N.div_mod mins 60); lia).
      destruct unit_ok_m as [M1 M2].
      assert (HM : forall fuel acc, parse_comps (S (S fuel)) (N_to_string m ++ "m" ++ N_to_string s ++ frac_text D ++ "s") acc
                     = Some (acc + m * 60000000000 + s * 1000000000 + u mod 1000000000)).
      { intros fuel acc.
        change (N_to_string m ++ "m" ++ N_to_string s ++ frac_text D ++ "s")%string
          with (N_to_string m ++ frac_text "" ++ String "m" "" ++ (N_to_string s ++ frac_text D ++ "s"))%string.
        rewrite (comp_step (S fuel) m "" "m" "" 60000000000 _ acc I M1 M2 (starts_digit_stops _ SS)).
        rewrite HS. cbn [dnum String.length pow10]. f_equal. rewrite N.div_1_r. lia. }
      assert (LM : (4 <= String.length (N_to_string m ++ "m" ++ N_to_string s ++ frac_text D ++ "s"))%nat).
      { destruct (len_head m ("m" ++ N_to_string s ++ frac_text D ++ "s")) as [L1 L2]. rewrite L1. cbn [append String.length]. lia. }
      assert (SM : starts_digit (N_to_string m ++ "m" ++ N_to_string s ++ frac_text D ++ "s")) by (apply starts_app, N_to_string_starts).
      destruct (N.eqb h 0) eqn:Eh.
      * apply N.eqb_eq in Eh. split; [exact SM|]. exists 2%nat. split; [lia|]. split; [lia|].
        rewrite HM. f_equal. lia.
      * destruct unit_ok_h as [H1 H2].
        split; [apply starts_app, N_to_string_starts|]. exists 3%nat.
        destruct (len_head h ("h" ++ N_to_string m ++ "m" ++ N_to_string s ++ frac_text D ++ "s")) as [L1 L2].
        rewrite L1. cbn [append String.length]. cbn [append] in LM. split; [lia|]. split; [lia|].
        change (N_to_string h ++ String "h" (N_to_string m ++ String "m" (N_to_string s ++ frac_text D ++ "s")))%string
          with (N_to_string h ++ frac_text "" ++ String "h" "" ++ (N_to_string m ++ "m" ++ N_to_string s ++ frac_text D ++ "s"))%string.
        rewrite (comp_step 2 h "" "h" "" 3600000000000 _ 0 I H1 H2 (starts_digit_stops _ SM)).
        rewrite HM. cbn [dnum String.length pow10]. f_equal. rewrite N.div_1_r. lia.
Qed.

(* ================================================================================================ *)
(* 6. the coder law                                                                                 *)
(* ================================================================================================ *)
Lemma digit_not_sign c : is_digit c = true -> Ascii.eqb c "-"%char = false /\ Ascii.eqb c "+"%char = false.
Proof.
  intros H. split.
  - destruct (Ascii.eqb c "-"%char) eqn:E; [|reflexivity]. apply Ascii.eqb_eq in E. subst c. discriminate.
  - destruct (Ascii.eqb c "+"%char) eqn:E; [|reflexivity]. apply Ascii.eqb_eq in E. subst c. discriminate.
Qed.

Lemma eqb_zero_long s : (2 <= String.length s)%nat -> String.eqb s "0" = false.
Proof.
  intros H. destruct (String.eqb s "0") eqn:E; [|reflexivity]. apply String.eqb_eq in E. subst s. cbn in H. lia.
Qed.

Lemma body_roundtrip (neg : bool) u : u <> 0 ->
  (let body := fmt_body u in
   if String.eqb body "0" then Some 0%Z
   else match body with
        | EmptyString => None
        | _ => match parse_comps (String.length body) body 0 with
               | Some n => Some (if neg then (- Z.of_N n)%Z else Z.of_N n)
               | None => None
               end
        end) = Some (if neg then (- Z.of_N u)%Z else Z.of_N u).
Proof.
  intros Hu. destruct (body_parse u Hu) as [Hs [k [Hk [Hl Hp]]]]. cbv zeta.
  rewrite (eqb_zero_long _ Hl).
  rewrite (parse_comps_mono k _ 0 u Hp _ Hk).
  destruct (fmt_body u); [contradiction|reflexivity].
Qed.

(* for EVERY integer d (in particular every int64 nanosecond count): ParseDuration (String d) = d *)
Theorem parse_fmt_duration d : parse_duration (fmt_duration d) = Some d.
Proof.
  rewrite fmt_duration_eq. destruct (Z.eqb d 0) eqn:E0; [apply Z.eqb_eq in E0; subst d; reflexivity|].
  apply Z.eqb_neq in E0.
  assert (Hu : Z.to_N (Z.abs d) <> 0) by lia.
  unfold parse_duration. destruct (Z.ltb d 0) eqn:En.
  - apply Z.ltb_lt in En.
    transitivity (Some (- Z.of_N (Z.to_N (Z.abs d)))%Z); [exact (body_roundtrip true _ Hu)|f_equal; lia].
  - apply Z.ltb_ge in En. destruct (body_parse _ Hu) as [Hs _].
    assert (Hstrip : strip_sign (fmt_body (Z.to_N (Z.abs d))) = (false, fmt_body (Z.to_N (Z.abs d)))).
    { destruct (fmt_body (Z.to_N (Z.abs d))) as [|c r]; [contradiction|]. cbn in Hs. cbn [strip_sign].
      destruct (digit_not_sign c Hs) as [-> ->]. reflexivity. }
    rewrite Hstrip.
    transitivity (Some (Z.of_N (Z.to_N (Z.abs d)))); [exact (body_roundtrip false _ Hu)|f_equal; lia].
Qed.

(* the printed text is never empty, starts with a digit or '-', and is ASCII except for the micro sign of the
   microsecond unit (not needed by the law; recorded because the dump is a text file) *)
Lemma fmt_duration_examples :
  fmt_duration 0 = "0s" /\ fmt_duration 1 = "1ns" /\ fmt_duration 200000 = ("200" ++ micro_s)%string /\
  fmt_duration 1500000 = "1.5ms" /\ fmt_duration 5400000000000 = "1h30m0s" /\
  fmt_duration 9223372036854775807 = "2562047h47m16.854775807s" /\
  fmt_duration (-9223372036854775808) = "-2562047h47m16.854775808s" /\
  parse_duration "0.5ms" = Some 500000%Z /\ parse_duration "1h0m0.000001s" = Some 3600000001000%Z /\
  parse_duration "1.5h" = Some 5400000000000%Z /\ parse_duration "" = None /\ parse_duration "5" = None /\
  parse_duration "0" = Some 0%Z.
Proof. repeat split; vm_compute; reflexivity. Qed.
