(* The window bound in the rational form the property states it. *)
From Coq Require Import ZArith QArith Qabs Lia.
Open Scope Z_scope.

Lemma window_q_form (ni nj wi wj : Z) : 0 < wi -> 0 < wj ->
  Z.abs (ni * wj - nj * wi) <= wi + wj ->
  (Qabs ((ni # Z.to_pos wi) - (nj # Z.to_pos wj)) <= (1 # Z.to_pos wi) + (1 # Z.to_pos wj))%Q.
Proof.
  intros Hwi Hwj H.
  apply Qabs_Qle_condition. apply Z.abs_le in H. destruct H as [Hlo Hhi].
  unfold Qle, Qminus, Qplus, Qopp; cbn [Qnum Qden].
  rewrite !Pos2Z.inj_mul, !Z2Pos.id by lia.
  split; nia.
Qed.
