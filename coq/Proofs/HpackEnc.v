(* Proofs/HpackEnc.v (group h2): MOSN's encoder (encode.go) emits valid representations that MEAN the
   header list, and its dynamic table stays equal to the decoder's - the invariant behind c18_hpack_roundtrip. *)
From Coq Require Import List NArith Arith Lia Bool.
From Coq Require Import ZifyBool ZifyNat ZifyN.
From MV Require Import Lib.HBits Gen.HpackTables Gen.H2Src Model.Hpack
  Proofs.HpackInt Proofs.HpackHuffman Proofs.HpackString Proofs.HpackRepr.
Import ListNotations.
Open Scope N_scope.

(* ---------------------------------------------------------------- eviction algebra *)
Lemma evict_evict : forall ents size a b,
  evict (fst (evict ents size a)) (snd (evict ents size a)) b = evict ents size (N.min a b).
Proof.
  induction ents as [|x r IH]; intros size a b; cbn [evict fst snd]; [reflexivity|].
  destruct (a <? size) eqn:Ea.
  - rewrite IH. assert (E : (N.min a b <? size) = true) by lia. rewrite E. reflexivity.
  - cbn [fst snd evict]. destruct (b <? size) eqn:Eb.
    + assert (E : (N.min a b <? size) = true) by lia. rewrite E. replace (N.min a b) with b by lia. reflexivity.
    + assert (E : (N.min a b <? size) = false) by lia. rewrite E. reflexivity.
Qed.

Lemma evict_same : forall ents size a, evict (fst (evict ents size a)) (snd (evict ents size a)) a = evict ents size a.
Proof. intros. rewrite evict_evict, N.min_id. reflexivity. Qed.

(* the part of a table both sides share (dt_allowed belongs to the decoder only) *)
Definition tab_core (t : dtab) := (dt_ents t, dt_size t, dt_max t).

Lemma tab_lookup_core : forall t1 t2 i, dt_ents t1 = dt_ents t2 -> tab_lookup t1 i = tab_lookup t2 i.
Proof. intros t1 t2 i H. unfold tab_lookup. rewrite H. reflexivity. Qed.

Lemma dt_add_core : forall t1 t2 n v, tab_core t1 = tab_core t2 -> tab_core (dt_add t1 n v) = tab_core (dt_add t2 n v).
Proof. intros t1 t2 n v H. unfold tab_core in *. inversion H as [[H1 H2 H3]]. unfold dt_add. cbn [dt_ents dt_size dt_max]. rewrite H1, H2, H3. reflexivity. Qed.

(* ---------------------------------------------------------------- table search *)
Lemma nth_some_lt : forall {A} (l : list A) n x, nth_error l n = Some x -> (n < length l)%nat.
Proof. intros A l n x H. apply nth_error_Some. rewrite H. discriminate. Qed.

Lemma find_last_spec : forall {A} (p : A -> bool) l pos acc k,
  find_last p l pos acc = Some k ->
  acc = Some k \/ (pos <= k /\ exists x, nth_error l (N.to_nat (k - pos)) = Some x /\ p x = true).
Proof.
  intros A p. induction l as [|y l IH]; intros pos acc k H; cbn [find_last] in H; [left; exact H|].
  apply IH in H as [H | [Hle [x [Hn Hp]]]].
  - destruct (p y) eqn:Ep; [| left; exact H].
    inversion H; subst. right. split; [lia|]. exists y. rewrite N.sub_diag. cbn. auto.
  - right. split; [lia|]. exists x. split; [| exact Hp].
    replace (N.to_nat (k - pos)) with (S (N.to_nat (k - (pos + 1)))) by lia. exact Hn.
Qed.

Lemma find_last_nth : forall {A} (p : A -> bool) l k, find_last p l 0 None = Some k ->
  exists x, nth_error l (N.to_nat k) = Some x /\ p x = true.
Proof.
  intros A p l k H. apply find_last_spec in H as [H | [_ [x [Hn Hp]]]]; [discriminate|].
  rewrite N.sub_0_r in Hn. eauto.
Qed.

Lemma tbl_search_spec : forall ents idx f i nvm, tbl_search ents idx f = (i, nvm) ->
  (i = 0 /\ nvm = false) \/
  exists k x, i = idx k /\ nth_error ents (N.to_nat k) = Some x /\ fst x = hname f /\
              (nvm = true -> snd x = hvalue f /\ hsens f = false).
Proof.
  intros ents idx f i nvm H. unfold tbl_search in H.
  destruct (if hsens f then None else find_last (nv_match f) ents 0 None) as [k|] eqn:E1.
  - inversion H; subst. right. destruct (hsens f) eqn:Es; [discriminate|].
    apply find_last_nth in E1 as [x [Hn Hp]]. unfold nv_match in Hp. apply andb_true_iff in Hp as [P1 P2].
    apply bytes_eqb_eq in P1. apply bytes_eqb_eq in P2. exists k, x. auto.
  - destruct (find_last (n_match f) ents 0 None) as [k|] eqn:E2.
    + inversion H; subst. right. apply find_last_nth in E2 as [x [Hn Hp]]. unfold n_match in Hp.
      apply bytes_eqb_eq in Hp. exists k, x. split; [reflexivity|]. split; [exact Hn|]. split; [exact Hp | discriminate].
    + inversion H; subst. left. auto.
Qed.

(* what Encoder.searchTable returns refers to a live entry with that name (and value) *)
Lemma enc_search_spec : forall t f i nvm, enc_search t f = (i, nvm) ->
  (i = 0 /\ nvm = false) \/
  exists e, tab_lookup t i = Some e /\ fst e = hname f /\ (nvm = true -> snd e = hvalue f /\ hsens f = false).
Proof.
  intros t f i nvm H. unfold enc_search in H.
  set (dl := N.of_nat (length (dt_ents t))) in *.
  destruct (tbl_search hpack_static_table (fun k => k + 1) f) as [si sn] eqn:Es.
  destruct (tbl_search (dt_ents t) (fun k => dl - k) f) as [di dn] eqn:Ed.
  cbn [fst snd] in H.
  assert (Hstatic : forall j m, (j, m) = (si, sn) -> j <> 0 ->
            exists e, tab_lookup t j = Some e /\ fst e = hname f /\ (m = true -> snd e = hvalue f /\ hsens f = false)).
  { intros j m Hj Hnz. inversion Hj; subst j m. apply tbl_search_spec in Es as [[Hz _] | [k [x [Hi [Hn [Hnm Hv]]]]]]; [contradiction|].
    exists x. split; [| auto]. unfold tab_lookup.
    assert (Hk : (N.to_nat k < length hpack_static_table)%nat) by (eapply nth_some_lt; exact Hn).
    assert (E0 : (si =? 0) = false) by lia. rewrite E0.
    assert (E1 : (si <=? static_len) = true) by (unfold static_len; lia). rewrite E1.
    replace (si - 1) with k by lia. exact Hn. }
  assert (Hdyn : di <> 0 ->
            exists e, tab_lookup t (di + static_len) = Some e /\ fst e = hname f /\ (dn = true -> snd e = hvalue f /\ hsens f = false)).
  { intros Hnz. apply tbl_search_spec in Ed as [[Hz _] | [k [x [Hi [Hn [Hnm Hv]]]]]]; [contradiction|].
    exists x. split; [| auto]. unfold tab_lookup. fold dl.
    assert (Hk : (N.to_nat k < length (dt_ents t))%nat) by (eapply nth_some_lt; exact Hn).
    assert (Hkd : k < dl) by (unfold dl; lia).
    assert (E0 : (di + static_len =? 0) = false) by lia. rewrite E0.
    assert (E1 : (di + static_len <=? static_len) = false) by lia. rewrite E1.
    assert (E2 : (dl + static_len <? di + static_len) = false) by lia. rewrite E2.
    replace (dl - (di + static_len - static_len)) with k by lia. exact Hn. }
  destruct sn.
  - inversion H; subst. right. apply (Hstatic i true eq_refl).
    apply tbl_search_spec in Es as [[_ Hf] | [k [x [Hi _]]]]; [discriminate | lia].
  - destruct (dn || ((si =? 0) && negb (di =? 0))) eqn:Ec.
    + injection H as Hi' Hnv. rewrite <- Hi', <- Hnv. right. apply Hdyn.
      destruct dn.
      * apply tbl_search_spec in Ed as [[_ Hf] | [k [x [Hi [Hn _]]]]]; [discriminate|].
        assert (Hk : (N.to_nat k < length (dt_ents t))%nat) by (eapply nth_some_lt; exact Hn). unfold dl in Hi. lia.
      * cbn [orb] in Ec. lia.
    + inversion H; subst. destruct (N.eq_dec i 0) as [Z|Z]; [left; auto|].
      right. apply (Hstatic i false eq_refl Z).
Qed.

(* ---------------------------------------------------------------- the synchronisation invariant *)
Definition fits_all (maxstr : N) (ents : list (bytes * bytes)) : Prop :=
  Forall (fun e => field_fits maxstr (mkF (fst e) (snd e) false)) ents.

Record sync (maxstr : N) (e : estate) (d : dtab) : Prop := {
  sy_limit : e_limit e <= dt_allowed d;
  sy_allowed : dt_allowed d < 2 ^ 32;
  sy_max : dt_max (e_tab e) <= e_limit e;
  sy_fits : fits_all maxstr (dt_ents d);
  sy_tab : if e_pending e
           then e_min e <= dt_max (e_tab e) /\
                evict (dt_ents d) (dt_size d) (e_min e) = (dt_ents (e_tab e), dt_size (e_tab e))
           else tab_core (e_tab e) = tab_core d /\ e_min e = uint32_max }.

(* header fields an encoder/decoder pair with string limit maxstr can carry *)
Definition field_ok (maxstr : N) (f : hfield) : Prop :=
  bytes_ok (hname f) /\ bytes_ok (hvalue f) /\ len (hname f) + len (hvalue f) + 32 < 2 ^ 31 /\
  field_fits maxstr f.

Lemma static_fits : forall maxstr, maxstr = 0 \/ 32 <= maxstr -> fits_all maxstr hpack_static_table.
Proof.
  intros maxstr H. unfold fits_all.
  assert (C : forallb (fun e => (len (fst e) <=? 32) && (len (snd e) <=? 32)) hpack_static_table = true) by (vm_compute; reflexivity).
  rewrite forallb_forall in C. apply Forall_forall. intros e He. specialize (C e He).
  unfold field_fits. cbn [hname hvalue]. destruct H as [H|H]; [left; exact H | right; lia].
Qed.

Lemma evict_sublist : forall ents size mx x, In x (fst (evict ents size mx)) -> In x ents.
Proof.
  induction ents as [|y r IH]; intros size mx x H; cbn [evict] in H; [exact H|].
  destruct (mx <? size); [right; eapply IH; exact H | exact H].
Qed.

Lemma fits_evict : forall maxstr ents size mx, fits_all maxstr ents -> fits_all maxstr (fst (evict ents size mx)).
Proof.
  intros maxstr ents size mx H. unfold fits_all in *. rewrite Forall_forall in *.
  intros x Hx. apply H. eapply evict_sublist. exact Hx.
Qed.

Lemma fits_add : forall maxstr t n v, fits_all maxstr (dt_ents t) -> field_fits maxstr (mkF n v false) ->
  fits_all maxstr (dt_ents (dt_add t n v)).
Proof.
  intros maxstr t n v H Hf. unfold dt_add. cbn [dt_ents]. apply fits_evict.
  unfold fits_all. apply Forall_app. split; [exact H | constructor; [exact Hf | constructor]].
Qed.

Lemma fits_set_max : forall maxstr t v, fits_all maxstr (dt_ents t) -> fits_all maxstr (dt_ents (dt_set_max t v)).
Proof. intros. unfold dt_set_max. cbn [dt_ents]. apply fits_evict. assumption. Qed.

Lemma tab_lookup_fits : forall maxstr t i e, (maxstr = 0 \/ 32 <= maxstr) -> fits_all maxstr (dt_ents t) ->
  tab_lookup t i = Some e -> field_fits maxstr (mkF (fst e) (snd e) false).
Proof.
  intros maxstr t i e Hm Hf Hl. unfold tab_lookup in Hl.
  destruct (i =? 0); [discriminate|].
  destruct (i <=? static_len).
  - apply nth_error_In in Hl. pose proof (static_fits maxstr Hm) as Hs. unfold fits_all in Hs.
    rewrite Forall_forall in Hs. apply Hs. exact Hl.
  - destruct (N.of_nat (length (dt_ents t)) + static_len <? i); [discriminate|].
    apply nth_error_In in Hl. unfold fits_all in Hf. rewrite Forall_forall in Hf. apply Hf. exact Hl.
Qed.

(* SetMaxDynamicTableSize keeps the invariant: the decoder will catch up at the next block *)
Lemma sync_set_max : forall maxstr e d v, sync maxstr e d -> sync maxstr (enc_set_max e v) d.
Proof.
  intros maxstr e d v [Hlim Hall Hmax Hfit Htab].
  unfold enc_set_max.
  set (v' := if e_limit e <? v then e_limit e else v).
  assert (Hv' : v' <= e_limit e) by (subst v'; destruct (e_limit e <? v) eqn:E; lia).
  constructor; cbn [e_limit e_tab e_min e_pending dt_set_max dt_max dt_ents dt_size]; try assumption.
  destruct (e_pending e).
  - destruct Htab as [Hmin Hev]. split.
    + destruct (v' <? e_min e) eqn:E; lia.
    + pose proof (evict_evict (dt_ents d) (dt_size d) (e_min e) v') as Hee.
      rewrite Hev in Hee. cbn [fst snd] in Hee. rewrite Hee.
      replace (if v' <? e_min e then v' else e_min e) with (N.min (e_min e) v') by (destruct (v' <? e_min e) eqn:E; lia).
      destruct (evict (dt_ents d) (dt_size d) (N.min (e_min e) v')); reflexivity.
  - destruct Htab as [Hcore Hm]. unfold tab_core in Hcore. inversion Hcore as [[H1 H2 H3]].
    rewrite Hm. unfold uint32_max. change (2 ^ 32) with 4294967296 in Hall.
    replace (if v' <? 4294967295 then v' else 4294967295) with v' by (destruct (v' <? 4294967295) eqn:E; lia).
    split; [lia|]. rewrite H1, H2.
    destruct (evict (dt_ents d) (dt_size d) v'); reflexivity.
Qed.

(* ---------------------------------------------------------------- one WriteField *)
Lemma interp_reprs_app : forall rs1 rs2 t t1 f1 t2 f2,
  interp_reprs t rs1 = Some (t1, f1) -> interp_reprs t1 rs2 = Some (t2, f2) ->
  interp_reprs t (rs1 ++ rs2) = Some (t2, f1 ++ f2).
Proof.
  induction rs1 as [|r rs1 IH]; intros rs2 t t1 f1 t2 f2 H1 H2; cbn [interp_reprs app] in *.
  - inversion H1; subst. exact H2.
  - destruct (interp_repr t r) as [[ta fa]|]; [|discriminate].
    destruct (interp_reprs ta rs1) as [[tb fb]|] eqn:E; [|discriminate].
    inversion H1; subst. rewrite (IH rs2 ta t1 fb t2 f2 E H2). rewrite app_assoc. reflexivity.
Qed.

(* the pending size updates bring the decoder's table to the encoder's *)
Lemma pending_updates : forall maxstr e d, sync maxstr e d -> e_pending e = true ->
  exists d1, interp_reprs d ((if e_min e <? dt_max (e_tab e) then [RSize (e_min e)] else []) ++ [RSize (dt_max (e_tab e))]) = Some (d1, []) /\
             tab_core d1 = tab_core (e_tab e) /\ dt_allowed d1 = dt_allowed d /\ fits_all maxstr (dt_ents d1).
Proof.
  intros maxstr e d [Hlim Hall Hmax Hfit Htab] Hp. rewrite Hp in Htab. destruct Htab as [Hmin Hev].
  assert (Hfe : fits_all maxstr (dt_ents (e_tab e))).
  { pose proof (fits_evict maxstr (dt_ents d) (dt_size d) (e_min e) Hfit) as Hf. rewrite Hev in Hf. exact Hf. }
  destruct (e_min e <? dt_max (e_tab e)) eqn:E.
  - exists (dt_set_max (dt_set_max d (e_min e)) (dt_max (e_tab e))).
    assert (Hcore : tab_core (dt_set_max (dt_set_max d (e_min e)) (dt_max (e_tab e))) = tab_core (e_tab e)).
    { unfold tab_core, dt_set_max. cbn [dt_ents dt_size dt_max].
      rewrite evict_evict. rewrite N.min_l by lia. rewrite Hev. reflexivity. }
    split; [| split; [exact Hcore | split; [reflexivity|]]].
    + cbn [app interp_reprs interp_repr].
      assert (E1 : (e_min e <=? dt_allowed d) = true) by lia. rewrite E1.
      assert (E2 : (dt_max (e_tab e) <=? dt_allowed (dt_set_max d (e_min e))) = true) by (cbn [dt_set_max dt_allowed]; lia).
      rewrite E2. reflexivity.
    + apply (f_equal (fun x => fst (fst x))) in Hcore. cbn [tab_core fst] in Hcore. rewrite Hcore. exact Hfe.
  - exists (dt_set_max d (dt_max (e_tab e))).
    assert (Heq : e_min e = dt_max (e_tab e)) by lia.
    assert (Hcore : tab_core (dt_set_max d (dt_max (e_tab e))) = tab_core (e_tab e)).
    { unfold tab_core, dt_set_max. cbn [dt_ents dt_size dt_max]. rewrite <- Heq. rewrite Hev. rewrite Heq. reflexivity. }
    split; [| split; [exact Hcore | split; [reflexivity|]]].
    + cbn [app interp_reprs interp_repr].
      assert (E2 : (dt_max (e_tab e) <=? dt_allowed d) = true) by lia. rewrite E2. reflexivity.
    + apply (f_equal (fun x => fst (fst x))) in Hcore. cbn [tab_core fst] in Hcore. rewrite Hcore. exact Hfe.
Qed.

(* ---------------------------------------------------------------- size accounting (uint32, no wrap below 2^31) *)
Definition ent_small (e : bytes * bytes) : Prop := len (fst e) + len (snd e) + 32 < 2 ^ 31.
Definition sumsz (ents : list (bytes * bytes)) : N := fold_right (fun e a => fsize (fst e) (snd e) + a) 0 ents.

Record tab_wf (t : dtab) : Prop := {
  wf_sum : dt_size t = sumsz (dt_ents t);
  wf_le : dt_size t <= dt_max t;
  wf_max : dt_max t < 2 ^ 31;
  wf_small : Forall ent_small (dt_ents t) }.

Lemma fsize_small : forall n v, len n + len v + 32 < 2 ^ 31 -> fsize n v = len n + len v + 32.
Proof.
  intros n v H. unfold fsize, u32. apply N.mod_small. change (2 ^ 31) with 2147483648 in H. lia.
Qed.

Lemma sumsz_app : forall a b, sumsz (a ++ b) = sumsz a + sumsz b.
Proof. induction a as [|x a IH]; intro b; cbn [sumsz fold_right app]; [reflexivity|]. fold (sumsz (a ++ b)) (sumsz a). rewrite IH. lia. Qed.

Lemma sumsz_length : forall ents, Forall ent_small ents -> 32 * N.of_nat (length ents) <= sumsz ents.
Proof.
  induction ents as [|x r IH]; intro H; [cbn; lia|].
  inversion H as [|? ? Hx Hr]; subst. cbn [sumsz fold_right length]. fold (sumsz r).
  specialize (IH Hr). rewrite fsize_small by exact Hx. lia.
Qed.

Lemma evict_wf : forall ents size mx, size = sumsz ents -> size < 2 ^ 32 -> Forall ent_small ents ->
  snd (evict ents size mx) = sumsz (fst (evict ents size mx)) /\ snd (evict ents size mx) <= mx /\
  Forall ent_small (fst (evict ents size mx)).
Proof.
  induction ents as [|x r IH]; intros size mx Hs Hlt Hsm; cbn [evict].
  - cbn [fst snd]. cbn in Hs. subst. split; [reflexivity|]. split; [lia | constructor].
  - destruct (mx <? size) eqn:E.
    + inversion Hsm as [|? ? Hx Hr]; subst. cbn [sumsz fold_right] in *. fold (sumsz r) in *.
      apply IH; [| | exact Hr].
      * unfold u32sub, u32. rewrite (N.mod_small (fsize (fst x) (snd x))) by lia.
        replace (fsize (fst x) (snd x) + sumsz r + 4294967296 - fsize (fst x) (snd x)) with (sumsz r + 1 * 4294967296) by lia.
        rewrite N.mod_add by discriminate. apply N.mod_small. change (2 ^ 32) with 4294967296 in Hlt. lia.
      * unfold u32sub, u32. change (2 ^ 32) with 4294967296. apply N.mod_lt. discriminate.
    + cbn [fst snd]. split; [exact Hs|]. split; [lia | exact Hsm].
Qed.

Lemma dt_set_max_wf : forall t v, tab_wf t -> v < 2 ^ 31 -> tab_wf (dt_set_max t v).
Proof.
  intros t v [Hs Hl Hm Hsm] Hv. unfold dt_set_max.
  destruct (evict_wf (dt_ents t) (dt_size t) v Hs) as [H1 [H2 H3]]; [| exact Hsm |].
  { change (2 ^ 31) with 2147483648 in Hm. change (2 ^ 32) with 4294967296. lia. }
  constructor; cbn [dt_ents dt_size dt_max]; assumption.
Qed.

Lemma dt_add_wf : forall t n v, tab_wf t -> len n + len v + 32 < 2 ^ 31 -> tab_wf (dt_add t n v).
Proof.
  intros t n v [Hs Hl Hm Hsm] Hf. unfold dt_add.
  assert (Hsz : u32 (dt_size t + fsize n v) = dt_size t + fsize n v).
  { unfold u32. apply N.mod_small. rewrite fsize_small by exact Hf.
    change (2 ^ 31) with 2147483648 in *. lia. }
  destruct (evict_wf (dt_ents t ++ [(n, v)]) (u32 (dt_size t + fsize n v)) (dt_max t)) as [H1 [H2 H3]].
  - rewrite Hsz, sumsz_app, Hs. cbn [sumsz fold_right fst snd]. lia.
  - rewrite Hsz. rewrite fsize_small by exact Hf. change (2 ^ 31) with 2147483648 in *. change (2 ^ 32) with 4294967296. lia.
  - apply Forall_app. split; [exact Hsm | constructor; [exact Hf | constructor]].
  - constructor; cbn [dt_ents dt_size dt_max]; assumption.
Qed.

Lemma wf_length : forall t, tab_wf t -> N.of_nat (length (dt_ents t)) < 2 ^ 26.
Proof.
  intros t [Hs Hl Hm Hsm]. pose proof (sumsz_length _ Hsm) as H.
  change (2 ^ 31) with 2147483648 in Hm. change (2 ^ 26) with 67108864. lia.
Qed.

Lemma static_len_small : static_len < 1000.
Proof. vm_compute. reflexivity. Qed.

Lemma tab_lookup_index_bound : forall t i e, tab_wf t -> tab_lookup t i = Some e -> i < 2 ^ 63.
Proof.
  intros t i e Hwf Hl. pose proof (wf_length t Hwf) as Hlen. pose proof static_len_small as Hst.
  unfold tab_lookup in Hl. destruct (i =? 0); [discriminate|].
  change (2 ^ 26) with 67108864 in Hlen. change (2 ^ 63) with 9223372036854775808.
  destruct (i <=? static_len) eqn:E1; [lia|].
  destruct (N.of_nat (length (dt_ents t)) + static_len <? i) eqn:E2; [discriminate | lia].
Qed.

(* encoder-side invariant *)
Record enc_wf (e : estate) : Prop := {
  ew_tab : tab_wf (e_tab e);
  ew_max : dt_max (e_tab e) <= e_limit e;
  ew_limit : e_limit e < 2 ^ 31 }.

Lemma enc_wf_set_max : forall e v, enc_wf e -> enc_wf (enc_set_max e v).
Proof.
  intros e v [Ht Hm Hl]. unfold enc_set_max.
  set (v' := if e_limit e <? v then e_limit e else v).
  assert (Hv' : v' <= e_limit e) by (subst v'; destruct (e_limit e <? v) eqn:E; lia).
  constructor; cbn [e_tab e_limit].
  - apply dt_set_max_wf; [exact Ht | lia].
  - cbn [dt_set_max dt_max]. exact Hv'.
  - exact Hl.
Qed.

Definition is_size (r : repr) : bool := match r with RSize _ => true | _ => false end.

Lemma field_eta : forall f, mkF (hname f) (hvalue f) (hsens f) = f.
Proof. destruct f; reflexivity. Qed.

Lemma field_fits_sens : forall maxstr n v s1 s2, field_fits maxstr (mkF n v s1) -> field_fits maxstr (mkF n v s2).
Proof. intros maxstr n v s1 s2 H. exact H. Qed.

Lemma field_str_ok : forall maxstr f, field_ok maxstr f ->
  str_ok maxstr (mosn_huff (hname f)) (hname f) /\ str_ok maxstr (mosn_huff (hvalue f)) (hvalue f).
Proof.
  intros maxstr f [Hbn [Hbv [Hsm Hfit]]].
  change (2 ^ 31) with 2147483648 in Hsm.
  split; apply mosn_str_ok; try assumption; try (change (2 ^ 58) with 288230376151711744; lia);
    destruct Hfit as [H0 | [H1 H2]]; auto.
Qed.

Theorem enc_field_correct : forall maxstr e d f,
  (maxstr = 0 \/ 32 <= maxstr) ->
  sync maxstr e d -> enc_wf e -> field_ok maxstr f ->
  exists d' ups x,
    snd (enc_field_reprs e f) = ups ++ [x] /\ forallb is_size ups = true /\ is_size x = false /\
    (e_pending e = false -> ups = []) /\
    e_pending (fst (enc_field_reprs e f)) = false /\
    Forall (repr_ok maxstr) (snd (enc_field_reprs e f)) /\
    interp_reprs d (snd (enc_field_reprs e f)) = Some (d', [f]) /\
    sync maxstr (fst (enc_field_reprs e f)) d' /\ enc_wf (fst (enc_field_reprs e f)).
Proof.
  intros maxstr e d f Hm Hsync Hewf Hfok.
  pose proof (field_str_ok maxstr f Hfok) as [Hsn Hsv].
  destruct Hfok as [Hbn [Hbv [Hsm Hfit]]].
  unfold enc_field_reprs.
  set (pre := if e_pending e then (if e_min e <? dt_max (e_tab e) then [RSize (e_min e)] else []) ++ [RSize (dt_max (e_tab e))] else []).
  set (e1 := if e_pending e then mkE (e_tab e) uint32_max (e_limit e) false else e).
  assert (Hpre : exists d1, interp_reprs d pre = Some (d1, []) /\ tab_core d1 = tab_core (e_tab e1) /\
                            dt_allowed d1 = dt_allowed d /\ fits_all maxstr (dt_ents d1) /\
                            forallb is_size pre = true /\ Forall (repr_ok maxstr) pre /\
                            e_pending e1 = false /\ e_min e1 = uint32_max /\ e_limit e1 = e_limit e /\
                            e_tab e1 = e_tab e /\ (e_pending e = false -> pre = [])).
  { subst pre e1. destruct (e_pending e) eqn:Ep.
    - destruct (pending_updates maxstr e d Hsync Ep) as [d1 [H1 [H2 [H3 H4]]]].
      exists d1. cbn [e_tab e_pending e_min e_limit]. repeat split; try assumption; try reflexivity; try discriminate.
      + destruct (e_min e <? dt_max (e_tab e)); reflexivity.
      + destruct (e_min e <? dt_max (e_tab e)); repeat constructor.
    - destruct Hsync as [Hlim Hall Hmax Hf Htab]. rewrite Ep in Htab. destruct Htab as [Hc Hmin].
      exists d. cbn [interp_reprs]. repeat split; try assumption; try reflexivity; try constructor. symmetry. exact Hc. }
  destruct Hpre as [d1 [Hint1 [Hcore1 [Hal1 [Hfit1 [Hsz [Hok1 [Hp1 [Hmin1 [Hlim1 [Htab1 Hpre0]]]]]]]]]]].
  assert (Hents1 : dt_ents (e_tab e1) = dt_ents d1).
  { apply (f_equal (fun x => fst (fst x))) in Hcore1. cbn [tab_core fst] in Hcore1. symmetry. exact Hcore1. }
  destruct Hsync as [Hlim Hall _ _ _]. destruct Hewf as [Hwt Hwm Hwl].
  assert (Hwf1 : tab_wf (e_tab e1)) by (rewrite Htab1; exact Hwt).
  assert (Hsync1 : sync maxstr e1 d1).
  { constructor; try (rewrite Hal1); try (rewrite Hlim1); try (rewrite Htab1); try assumption.
    rewrite Hp1. split; [rewrite <- Htab1; symmetry; exact Hcore1 | exact Hmin1]. }
  assert (Hewf1 : enc_wf e1) by (constructor; [exact Hwf1 | rewrite Htab1, Hlim1; exact Hwm | rewrite Hlim1; exact Hwl]).
  destruct (enc_search (e_tab e1) f) as [i nvm] eqn:Es. cbn [fst snd].
  pose proof (enc_search_spec _ _ _ _ Es) as Hspec.
  destruct nvm; cbn [fst snd].
  - (* indexed *)
    destruct Hspec as [[_ Hf] | [en [Hl [Hn Hv]]]]; [discriminate|]. destruct (Hv eq_refl) as [Hv1 Hs].
    pose proof (tab_lookup_index_bound _ _ _ Hwf1 Hl) as Hib.
    rewrite (tab_lookup_core _ d1 i Hents1) in Hl.
    exists d1, pre, (RIndexed i).
    split; [reflexivity|]. split; [exact Hsz|]. split; [reflexivity|].
    split; [exact Hpre0|]. split; [exact Hp1|].
    split; [apply Forall_app; split; [exact Hok1 | constructor; [exact Hib | constructor]]|].
    split; [| split; assumption].
    apply (interp_reprs_app pre [RIndexed i] d d1 [] d1 [f] Hint1).
    cbn [interp_reprs interp_repr]. rewrite Hl. rewrite Hn, Hv1, <- Hs. rewrite field_eta. reflexivity.
  - (* literal *)
    set (indexing := negb (hsens f) && (fsize (hname f) (hvalue f) <=? dt_max (e_tab e1))).
    set (k := if hsens f then KNever else if indexing then KIncr else KPlain).
    assert (Hki : kind_indexed k = indexing) by (subst k indexing; destruct (hsens f); [reflexivity|]; cbn [negb andb]; destruct (fsize (hname f) (hvalue f) <=? dt_max (e_tab e1)); reflexivity).
    assert (Hks : kind_sens k = hsens f) by (subst k; destruct (hsens f); [reflexivity|]; destruct indexing; reflexivity).
    set (x := if i =? 0 then RLitNew k (mosn_huff (hname f)) (hname f) (mosn_huff (hvalue f)) (hvalue f)
              else RLitIdx k i (mosn_huff (hvalue f)) (hvalue f)).
    set (e2 := if indexing then mkE (dt_add (e_tab e1) (hname f) (hvalue f)) (e_min e1) (e_limit e1) (e_pending e1) else e1).
    set (d2 := if indexing then dt_add d1 (hname f) (hvalue f) else d1).
    assert (Hx : interp_repr d1 x = Some (d2, [f]) /\ repr_ok maxstr x /\ is_size x = false).
    { subst x d2. destruct (i =? 0) eqn:Ei.
      - cbn [interp_repr repr_ok is_size]. rewrite Hki, Hks, field_eta. split; [reflexivity | split; [split; assumption | reflexivity]].
      - destruct Hspec as [[Hz _] | [en [Hl [Hn _]]]]; [lia|].
        pose proof (tab_lookup_index_bound _ _ _ Hwf1 Hl) as Hib.
        rewrite (tab_lookup_core _ d1 i Hents1) in Hl.
        cbn [interp_repr repr_ok is_size]. rewrite Hl, Hki, Hks, Hn, field_eta. split; [reflexivity | split; [split; assumption | reflexivity]]. }
    destruct Hx as [Hix [Hox Hsx]].
    exists d2, pre, x.
    split; [reflexivity|]. split; [exact Hsz|]. split; [exact Hsx|].
    split; [exact Hpre0|].
    split; [subst e2; destruct indexing; cbn [e_pending]; exact Hp1|].
    split; [apply Forall_app; split; [exact Hok1 | constructor; [exact Hox | constructor]]|].
    split.
    { apply (interp_reprs_app pre [x] d d1 [] d2 [f] Hint1). cbn [interp_reprs]. rewrite Hix. reflexivity. }
    subst e2 d2. destruct indexing.
    + split.
      * destruct Hsync1 as [S1 S2 S3 S4 S5]. rewrite Hp1 in S5. destruct S5 as [S5 S6].
        constructor; cbn [e_limit e_tab e_min e_pending].
        -- unfold dt_add. cbn [dt_allowed]. exact S1.
        -- unfold dt_add. cbn [dt_allowed]. exact S2.
        -- unfold dt_add. cbn [dt_max]. exact S3.
        -- apply fits_add; [exact S4 | exact Hfit].
        -- rewrite Hp1. split; [apply dt_add_core; exact S5 | exact S6].
      * destruct Hewf1 as [W1 W2 W3]. constructor; cbn [e_tab e_limit]; [apply dt_add_wf; assumption | unfold dt_add; cbn [dt_max]; exact W2 | exact W3].
    + split; assumption.
Qed.

(* ---------------------------------------------------------------- a header block *)
Lemma shape_weaken : forall rs, reprs_shape false rs -> reprs_shape true rs.
Proof.
  induction rs as [|r rs IH]; intro H; [exact I|].
  destruct r; cbn [reprs_shape] in *; try exact H. destruct H as [H _]. discriminate.
Qed.

Lemma shape_ups : forall ups rest, forallb is_size ups = true -> reprs_shape true rest -> reprs_shape true (ups ++ rest).
Proof.
  induction ups as [|u ups IH]; intros rest Hu Hr; [exact Hr|].
  cbn [forallb] in Hu. apply andb_true_iff in Hu as [H1 H2].
  destruct u; try discriminate. cbn [app reprs_shape]. split; [reflexivity | apply IH; assumption].
Qed.

Lemma shape_nonsize : forall l x rest, is_size x = false -> reprs_shape false rest -> reprs_shape l (x :: rest).
Proof. intros l x rest Hx Hr. destruct x; try discriminate; exact Hr. Qed.

Theorem enc_fields_correct : forall maxstr fs e d,
  (maxstr = 0 \/ 32 <= maxstr) ->
  sync maxstr e d -> enc_wf e -> Forall (field_ok maxstr) fs ->
  exists d',
    interp_reprs d (snd (enc_fields_reprs e fs)) = Some (d', fs) /\
    sync maxstr (fst (enc_fields_reprs e fs)) d' /\ enc_wf (fst (enc_fields_reprs e fs)) /\
    Forall (repr_ok maxstr) (snd (enc_fields_reprs e fs)) /\
    reprs_shape (e_pending e) (snd (enc_fields_reprs e fs)) /\
    (fs <> [] -> e_pending (fst (enc_fields_reprs e fs)) = false).
Proof.
  intros maxstr fs. induction fs as [|f fs IH]; intros e d Hm Hsync Hewf Hok.
  - exists d. cbn [enc_fields_reprs fst snd interp_reprs reprs_shape].
    split; [reflexivity|]. split; [exact Hsync|]. split; [exact Hewf|]. split; [constructor|]. split; [exact I|].
    intro H. exfalso. apply H. reflexivity.
  - inversion Hok as [|? ? Hf Hfs]; subst.
    destruct (enc_field_correct maxstr e d f Hm Hsync Hewf Hf) as [d1 [ups [x [Hr [Hu [Hx [Hp0 [Hp1 [Hrok [Hint [Hs1 Hw1]]]]]]]]]]].
    destruct (IH (fst (enc_field_reprs e f)) d1 Hm Hs1 Hw1 Hfs) as [d2 [Hint2 [Hs2 [Hw2 [Hrok2 [Hsh2 Hp2]]]]]].
    exists d2. cbn [enc_fields_reprs fst snd].
    split; [apply (interp_reprs_app _ _ d d1 [f] d2 fs Hint Hint2)|].
    split; [exact Hs2|]. split; [exact Hw2|].
    split; [apply Forall_app; split; assumption|].
    split.
    + rewrite Hp1 in Hsh2. rewrite Hr, <- app_assoc. cbn [app].
      destruct (e_pending e) eqn:Ep.
      * apply shape_ups; [exact Hu | apply shape_nonsize; assumption].
      * rewrite (Hp0 eq_refl). cbn [app]. apply shape_nonsize; assumption.
    + intros _. destruct fs as [|f' fs']; [cbn [enc_fields_reprs fst]; exact Hp1 | apply Hp2; discriminate].
Qed.

(* decoder states between header blocks *)
Definition dec_idle (maxstr : N) (d : dstate) : Prop :=
  d_maxstr d = maxstr /\ d_emit d = true /\ d_first d = true /\ d_save d = [].

(* c18_hpack_roundtrip (MOSN encoder -> decoder): every session *)
Theorem session_roundtrip : forall maxstr ops e d,
  h2_hpack_multi_update = true ->
  (maxstr = 0 \/ 32 <= maxstr) ->
  sync maxstr e (d_tab d) -> enc_wf e -> dec_idle maxstr d ->
  Forall (fun o => match o with OBlock fs => Forall (field_ok maxstr) fs | OSetMax _ => True end) ops ->
  exists e' d',
    run_session e d ops = (blocks_of ops, e', d') /\
    sync maxstr e' (d_tab d') /\ enc_wf e' /\ dec_idle maxstr d'.
Proof.
  intros maxstr ops. induction ops as [|o ops IH]; intros e d Hmulti Hm Hsync Hewf Hidle Hok.
  - exists e, d. cbn [run_session blocks_of flat_map]. auto.
  - inversion Hok as [|? ? Ho Hops]; subst. destruct o as [fs | v].
    + destruct (enc_fields_correct maxstr fs e (d_tab d) Hm Hsync Hewf Ho) as [t' [Hint [Hs1 [Hw1 [Hrok [Hsh _]]]]]].
      destruct Hidle as [I1 [I2 [I3 I4]]].
      assert (Hdb : dec_block d (snd (enc_block e fs)) = (mkD t' maxstr true true [], fs, WOk)).
      { unfold enc_block. cbn [snd]. rewrite <- I1.
        apply dec_block_reprs; try assumption.
        - destruct Hsync; assumption.
        - destruct (e_pending e); [exact Hsh | apply shape_weaken; exact Hsh].
        - rewrite I1. exact Hrok.
        - rewrite I1. apply Forall_forall. intros f Hin. rewrite Forall_forall in Ho. destruct (Ho f Hin) as [_ [_ [_ Hfit]]]. exact Hfit. }
      destruct (IH (fst (enc_block e fs)) (mkD t' maxstr true true []) Hmulti Hm) as [e' [d' [Hrun [Hs' [Hw' Hi']]]]];
        try assumption; try (unfold enc_block; cbn [fst]; assumption).
      { unfold dec_idle. cbn. auto. }
      exists e', d'. cbn [run_session]. rewrite Hdb. cbn [fst snd]. rewrite Hrun. cbn [fst snd blocks_of flat_map app].
      auto.
    + destruct (IH (enc_set_max e v) d Hmulti Hm) as [e' [d' [Hrun [Hs' [Hw' Hi']]]]]; try assumption.
      { apply sync_set_max. exact Hsync. }
      { apply enc_wf_set_max. exact Hewf. }
      exists e', d'. cbn [run_session blocks_of flat_map app]. auto.
Qed.

(* the initial states of NewEncoder / NewDecoder(4096) are synchronised *)
Lemma sync_initial : forall maxstr, sync maxstr enc_new (d_tab (dec_new 4096)).
Proof.
  intro maxstr. constructor.
  - cbn. lia.
  - cbn. lia.
  - cbn. lia.
  - constructor.
  - cbn. split; reflexivity.
Qed.

Lemma enc_wf_initial : enc_wf enc_new.
Proof.
  constructor.
  - constructor; cbn; [reflexivity | lia | lia | constructor].
  - cbn. lia.
  - cbn. lia.
Qed.

(* when no size update is pending the two dynamic tables are equal *)
Lemma sync_tables_equal : forall maxstr e d, sync maxstr e d -> e_pending e = false -> tab_core (e_tab e) = tab_core d.
Proof. intros maxstr e d [_ _ _ _ H] Hp. rewrite Hp in H. tauto. Qed.
