(* Proofs about Model/PoolDestroy.v: finite reachable set computed and checked closed; every schedule by run_invariant. *)
From Coq Require Import List Bool Arith Lia.
From MV Require Import Lib.Interleave Model.PoolDestroy.
Import ListNotations.

Lemma dinstr_eqb_eq : forall a b, dinstr_eqb a b = true -> a = b.
Proof. destruct a, b; cbn; intros H; try discriminate; reflexivity. Qed.

Lemma dleqb_eq : forall A (e : A -> A -> bool), (forall x y, e x y = true -> x = y) -> forall a b, dleqb e a b = true -> a = b.
Proof.
  intros A e He. induction a as [|x a IH]; destruct b as [|y b]; cbn; intros H; try discriminate; [reflexivity|].
  apply andb_true_iff in H. destruct H as [H1 H2]. f_equal; [apply He; assumption|apply IH; assumption].
Qed.

Lemma dsh_eqb_eq : forall a b, dsh_eqb a b = true -> a = b.
Proof.
  intros [a1 a2 a3 a4 a5] [b1 b2 b3 b4 b5]. unfold dsh_eqb. cbn. intros H.
  rewrite !andb_true_iff in H. destruct H as [[[[A B] C] D] E].
  apply eqb_prop in A, B, C, D, E. subst. reflexivity.
Qed.

Lemma dcfg_eqb_eq : forall a b, dcfg_eqb a b = true -> a = b.
Proof.
  intros [t1 s1] [t2 s2]. unfold dcfg_eqb. cbn. intros H. apply andb_true_iff in H. destruct H as [H1 H2].
  f_equal; [|apply dsh_eqb_eq; assumption].
  apply (dleqb_eq _ (dleqb dinstr_eqb)); [|assumption]. apply dleqb_eq. apply dinstr_eqb_eq.
Qed.

Lemma dmem_In : forall c l, dmem c l = true -> In c l.
Proof.
  intros c l H. unfold dmem in H. apply existsb_exists in H. destruct H as [d [H1 H2]].
  apply dcfg_eqb_eq in H2. subst. assumption.
Qed.

Lemma dclosed_step : forall c0 R, dclosed_check c0 R = true -> In c0 R /\ forall c k, In c R -> In (sched_step dstep c k) R.
Proof.
  intros c0 R H. unfold dclosed_check in H. apply andb_true_iff in H. destruct H as [H0 H].
  split; [apply dmem_In; assumption|]. rewrite forallb_forall in H.
  intros c k Hc. specialize (H c Hc). apply andb_true_iff in H. destruct H as [Hlen Hs].
  apply Nat.eqb_eq in Hlen. unfold dsucc in Hs. cbn [forallb] in Hs.
  apply andb_true_iff in Hs. destruct Hs as [S0 S1]. apply andb_true_iff in S1. destruct S1 as [S1 _].
  destruct k as [|[|k]]; [apply dmem_In; assumption|apply dmem_In; assumption|].
  unfold sched_step. destruct (fst c) as [|a [|b [|x l]]] eqn:E; cbn in Hlen; try discriminate. destruct k; cbn; assumption.
Qed.

Theorem dreach_every_schedule : forall (good : dcfg -> bool) c0,
  dclosed_check c0 (dreachable c0) = true -> forallb good (dreachable c0) = true ->
  forall sched, good (drun sched c0) = true.
Proof.
  intros good c0 Hc Hg sched. destruct (dclosed_step c0 _ Hc) as [H0 Hstep].
  rewrite forallb_forall in Hg. apply Hg. unfold drun.
  apply (run_invariant dstep (fun c => In c (dreachable c0))); [intros c k; apply Hstep|assumption].
Qed.

Theorem http_destroy_close_first_safe : forall sched, destroy_good (drun sched (destroy_cfg (http_destroy_prog true))) = true.
Proof. apply dreach_every_schedule; vm_compute; reflexivity. Qed.
Theorem pp_destroy_safe : forall sched, destroy_good (drun sched (destroy_cfg pp_destroy_prog)) = true.
Proof. apply dreach_every_schedule; vm_compute; reflexivity. Qed.

Theorem http_destroy_append_first_bad : exists sched, d_leased (snd (drun sched (destroy_cfg (http_destroy_prog false)))) = true.
Proof. exists [0;0;0;1;1;1;0;0;0;0]%nat. vm_compute. reflexivity. Qed.
