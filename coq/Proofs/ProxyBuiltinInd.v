(* Built-in deny filters: the decision for a request never depends on earlier requests served by streams of the same factory. *)
From Coq Require Import List ZArith Bool Lia.
From MV Require Import Model.Proxy Model.ProxyBuiltin Proofs.ProxyBuiltinSrc.
Import ListNotations.
Open Scope Z_scope.

Lemma stream_cfg_keeps {T} fresh replaces (merge : T -> T -> T) shared r :
  fresh || replaces = true -> fst (stream_cfg fresh replaces merge shared r) = shared.
Proof. intros H. unfold stream_cfg. destruct r; [|reflexivity]. destruct replaces; [reflexivity|]. destruct fresh; [reflexivity|discriminate]. Qed.

(* serving a request leaves the factory's configuration objects as they were *)
Lemma serve_keeps src l b r q :
  pl_fresh src || pl_replaces src = true -> fi_fresh src || fi_replaces src = true -> fst (serve src l b r q) = b.
Proof.
  intros Hp Hf. unfold serve. destruct b as [bp bf]. cbn [b_pl b_fi].
  destruct bp as [p|], bf as [f|].
  - pose proof (stream_cfg_keeps (pl_fresh src) (pl_replaces src) pl_merge p (r_pl r) Hp) as Kp.
    pose proof (stream_cfg_keeps (fi_fresh src) (fi_replaces src) fi_merge f (r_fi r) Hf) as Kf.
    destruct (stream_cfg (pl_fresh src) (pl_replaces src) pl_merge p (r_pl r)) as [p' ep].
    destruct (stream_cfg (fi_fresh src) (fi_replaces src) fi_merge f (r_fi r)) as [f' ef]. cbn [fst] in *. subst p' f'.
    cbn [fst]. f_equal; repeat match goal with |- context [if ?x then _ else _] => destruct x end; reflexivity.
  - pose proof (stream_cfg_keeps (pl_fresh src) (pl_replaces src) pl_merge p (r_pl r) Hp) as Kp.
    destruct (stream_cfg (pl_fresh src) (pl_replaces src) pl_merge p (r_pl r)) as [p' ep]. cbn [fst] in *. subst p'.
    cbn [fst]. f_equal; repeat match goal with |- context [if ?x then _ else _] => destruct x end; reflexivity.
  - pose proof (stream_cfg_keeps (fi_fresh src) (fi_replaces src) fi_merge f (r_fi r) Hf) as Kf.
    destruct (stream_cfg (fi_fresh src) (fi_replaces src) fi_merge f (r_fi r)) as [f' ef]. cbn [fst] in *. subst f'.
    cbn [fst]. f_equal; repeat match goal with |- context [if ?x then _ else _] => destruct x end; reflexivity.
  - cbn [fst]. f_equal; repeat match goal with |- context [if ?x then _ else _] => destruct x end; reflexivity.
Qed.

(* independence over histories: for EVERY listener configuration and EVERY history of requests on any routes, request k is
   answered as if it were the first request the factory ever saw *)
Theorem builtin_independent : forall src l,
  pl_fresh src || pl_replaces src = true -> fi_fresh src || fi_replaces src = true ->
  forall h, serve_all src l (binit l) h = map (fun rq => decide src l (fst rq) (snd rq)) h.
Proof.
  intros src l Hp Hf h. generalize (eq_refl (binit l)). generalize (binit l) at 1 3 as b. intros b Hb.
  revert b Hb. induction h as [|[r q] h IH]; intros b Hb; [reflexivity|].
  cbn [serve_all map fst snd]. pose proof (serve_keeps src l b r q Hp Hf) as K.
  destruct (serve src l b r q) as [b' d] eqn:E. cbn [fst] in K. subst b'.
  f_equal.
  - unfold decide. rewrite <- Hb, E. reflexivity.
  - apply IH. exact Hb.
Qed.

(* ... and that answer is the specified one: route-level configuration in place of the listener-level one, the chain stops at
   the first filter that denies *)
Theorem decide_is_spec : forall src l r q, pl_replaces src = true -> fi_replaces src = true ->
  first_deny (decide src l r q) = first_deny (decide_spec l r q).
Proof.
  intros src l r q Hp Hf. unfold decide, serve, decide_spec, binit. cbn [b_pl b_fi].
  destruct (l_ip l) as [i|], (l_pl l) as [p|], (l_fi l) as [f|]; unfold stream_cfg, eff; rewrite ?Hp, ?Hf;
    destruct (r_pl r), (r_fi r); cbn [fst snd];
    repeat match goal with |- context [ip_eval ?a ?b ?c] => destruct (ip_eval a b c) end;
    repeat match goal with |- context [pl_eval ?a ?b] => destruct (pl_eval a b) end;
    repeat match goal with |- context [fi_eval ?a ?b ?c] => destruct (fi_eval a b c) end; reflexivity.
Qed.

Corollary builtin_history_spec : forall l h,
  map first_deny (serve_all bsrc_tree l (binit l) h) = map (fun rq => first_deny (decide_spec l (fst rq) (snd rq))) h.
Proof.
  intros l h. rewrite (builtin_independent bsrc_tree l eq_refl eq_refl h), map_map.
  apply map_ext. intros [r q]. apply decide_is_spec; reflexivity.
Qed.

(* ---------- refuted when the factory hands its own configuration object to every stream AND the route-level configuration is
   written into it: listener limit 10 / status 413; route A overrides the limit with 1000, route B has no override ---------- *)
Definition bsrc_shared_mutated : bsrc := {| pl_fresh := false; pl_replaces := false; fi_fresh := true; fi_replaces := true |}.
Definition l_pl_only : lcfg := {| l_ip := None; l_pl := Some {| pl_max := 10; pl_status := 413 |}; l_fi := None |}.
Definition route_a : rcfg := {| r_cluster := 0; r_pl := Some {| pl_max := 1000; pl_status := 0 |}; r_fi := None |}.
Definition route_b : rcfg := {| r_cluster := 0; r_pl := None; r_fi := None |}.
Definition req_100 : breq := {| q_body := Some 100; q_fault_hdr := false; q_member := [] |}.

Lemma witness_shared_mutated :
  (* the oversized request on route B alone is denied with 413 ... *)
  first_deny (decide bsrc_shared_mutated l_pl_only route_b req_100) = Deny 413 /\
  (* ... after a request on route A it is let through *)
  map first_deny (serve_all bsrc_shared_mutated l_pl_only (binit l_pl_only) [(route_a, req_100); (route_b, req_100)]) = [Allow; Allow] /\
  (* either repair alone restores independence *)
  map first_deny (serve_all (Build_bsrc true false true true) l_pl_only (binit l_pl_only) [(route_a, req_100); (route_b, req_100)]) = [Allow; Deny 413] /\
  map first_deny (serve_all (Build_bsrc false true true true) l_pl_only (binit l_pl_only) [(route_a, req_100); (route_b, req_100)]) = [Allow; Deny 413] /\
  map first_deny (serve_all bsrc_tree l_pl_only (binit l_pl_only) [(route_a, req_100); (route_b, req_100)]) = [Allow; Deny 413].
Proof. vm_compute. repeat split; reflexivity. Qed.

Definition builtin_independence_statement (src : bsrc) : Prop :=
  forall l h, serve_all src l (binit l) h = map (fun rq => decide src l (fst rq) (snd rq)) h.

Lemma refuted_shared_mutated : ~ builtin_independence_statement bsrc_shared_mutated.
Proof.
  intros H. specialize (H l_pl_only [(route_a, req_100); (route_b, req_100)]).
  apply (f_equal (map first_deny)) in H. vm_compute in H. discriminate H.
Qed.
