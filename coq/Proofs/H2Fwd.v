(* Proofs/H2Fwd.v (group h2): C01 for HTTP/2 - forwarding fidelity of the stream layer.
   Part 1 (stream layer): what a receiver holds BY REFERENCE - headers, body, trailers - observed at any later time is
     what the per-stream reference machine makes of the stream's own frames (projection, as Proofs/H2Demux.v, with the
     trailers); sending that on - for ANY cutting of the body into DATA frames, any interleaving with other streams - the
     peer's reference machine delivers the same headers, body and trailers.
   Part 2 (header layer): for every received field list, every iteration order of the header map: the forwarded field
     list has, for every name the path does not manage itself, the same values in the same order; cookies are joined
     with "; "; the pseudo-header fields are carried over. *)
From Coq Require Import List NArith Arith Lia Bool Permutation.
From Coq Require Import ZifyBool ZifyNat ZifyN.
From MV Require Import Lib.HBits Model.Hpack Model.H2Frame Model.H2Demux Model.H2Fwd Proofs.H2Demux Proofs.H2FrameRT Proofs.H2FrameMeta.
Import ListNotations.
Open Scope N_scope.

(* ================================================================= part 1: the stream layer *)
Lemma step_proj4 : forall buf off st f sid buf', NoDup (ids st) -> copies st ->
  map (observe4 buf') (only_sid sid (snd (step false buf off st f))) = snd (pstep4 sid (pstate sid st) f) /\
  fst (pstep4 sid (pstate sid st) f) = fst (pstep sid (pstate sid st) f).
Proof.
  intros buf off st f sid buf' Hnd Hc. unfold pstep4, pstep.
  destruct (N.eq_dec (fsid f) sid) as [Hsame | Hother].
  - assert (E : negb (fsid f =? sid) = false) by lia. rewrite E.
    unfold step, pstate. rewrite Hsame.
    destruct (find_s sid st) as [s|] eqn:Ef; [|cbn [fst snd]; split; reflexivity].
    pose proof (Hc s (find_in _ _ _ Ef)) as Hcs.
    destruct f as [s0 tok es | s0 p es | s0 t]; cbn [fsid] in Hsame; subst s0.
    + destruct es; cbn [fst snd]; [|split; reflexivity].
      cbn [only_sid filter dl_sid]. rewrite N.eqb_refl. split; reflexivity.
    + unfold acc. destruct (ds_rec s) as [[b|o n]|] eqn:Er; try contradiction; cbn [andb]; destruct es; cbn [fst snd];
        try (split; reflexivity); cbn [only_sid filter dl_sid]; rewrite N.eqb_refl; split; reflexivity.
    + cbn [fst snd]. cbn [only_sid filter dl_sid]. rewrite N.eqb_refl.
      cbn [map observe4 dl_sid dl_tok dl_body dl_trail]. split; [|reflexivity].
      unfold acc. destruct (ds_rec s) as [[b|o n]|]; [reflexivity | contradiction | reflexivity].
  - assert (E : negb (fsid f =? sid) = true) by lia. rewrite E. cbn [fst snd].
    destruct (step_other buf off st f sid Hother) as [_ H2]. rewrite H2. split; reflexivity.
Qed.

Lemma steps_proj4 : forall fs buf off st sid buf', NoDup (ids st) -> copies st ->
  map (observe4 buf') (only_sid sid (snd (steps false buf off st fs))) = snd (prun4 sid (pstate sid st) fs) /\
  fst (prun4 sid (pstate sid st) fs) = fst (prun sid (pstate sid st) fs).
Proof.
  induction fs as [|f fs IH]; intros buf off st sid buf' Hnd Hc; [cbn; auto|].
  cbn [steps prun prun4 fst snd].
  destruct (step_keeps buf off st f Hnd Hc) as [Hnd1 Hc1].
  destruct (step_proj buf off st f sid buf' Hnd Hc) as [P1 _].
  destruct (step_proj4 buf off st f sid buf' Hnd Hc) as [R1 R2].
  set (off' := match f with FData _ p _ => off + len p | _ => off end).
  destruct (IH buf off' (fst (step false buf off st f)) sid buf' Hnd1 Hc1) as [Q1 Q2].
  rewrite P1 in Q1, Q2. rewrite R2.
  split; [|exact Q2].
  rewrite only_sid_app, map_app, R1, Q1. reflexivity.
Qed.

Lemma prun4_app : forall sid fs1 fs2 st,
  prun4 sid st (fs1 ++ fs2) = (fst (prun4 sid (fst (prun4 sid st fs1)) fs2), snd (prun4 sid st fs1) ++ snd (prun4 sid (fst (prun4 sid st fs1)) fs2)).
Proof.
  intros sid. induction fs1 as [|f fs1 IH]; intros fs2 st; cbn [app prun4 fst snd].
  - destruct (prun4 sid st fs2); reflexivity.
  - rewrite IH. cbn [fst snd]. rewrite app_assoc. reflexivity.
Qed.

Lemma reads_proj4 : forall reads c sid buf', NoDup (ids (dc_streams c)) -> copies (dc_streams c) ->
  let c' := fold_left (do_read false) reads c in
  map (observe4 buf') (only_sid sid (dc_out c')) =
  map (observe4 buf') (only_sid sid (dc_out c)) ++ snd (prun4 sid (pstate sid (dc_streams c)) (concat reads)).
Proof.
  induction reads as [|rd reads IH]; intros c sid buf' Hnd Hc; cbn [fold_left concat].
  - cbn [prun4 fst snd]. rewrite app_nil_r. reflexivity.
  - destruct (steps_proj rd (read_buf rd) 0 (dc_streams c) sid buf' Hnd Hc) as [S1 [_ [S3 S4]]].
    destruct (steps_proj4 rd (read_buf rd) 0 (dc_streams c) sid buf' Hnd Hc) as [T1 T2].
    pose proof (IH (do_read false c rd) sid buf' S3 S4) as I. cbv zeta in I.
    cbv zeta. rewrite I.
    rewrite prun4_app. cbn [fst snd]. rewrite T2, <- S1.
    unfold do_read. cbn [dc_out dc_streams].
    rewrite only_sid_app, map_app, T1. rewrite <- app_assoc. reflexivity.
Qed.

(* what the receiver of stream sid holds - headers, body, trailers - looked at with ANY later contents of the read buffer *)
Theorem demux4_correct : forall opens reads sid buf', NoDup opens ->
  map (observe4 buf') (only_sid sid (dc_out (run_reads false opens reads))) =
  snd (prun4 sid (if existsb (N.eqb sid) opens then Some ([], []) else None) (concat reads)).
Proof.
  intros opens reads sid buf' Hnd. unfold run_reads.
  pose proof (reads_proj4 reads (dconn_new opens) sid buf') as H. cbv zeta in H.
  rewrite H; [| rewrite ids_new; exact Hnd | apply copies_new].
  rewrite pstate_new by exact Hnd. reflexivity.
Qed.

(* ---------------------------------------------------------------- the reference machine *)
Lemma prun4_own_frames : forall sid fs st, prun4 sid st fs = prun4 sid st (filter (fun f => fsid f =? sid) fs).
Proof.
  intros sid. induction fs as [|f fs IH]; intro st; [reflexivity|].
  cbn [filter]. destruct (fsid f =? sid) eqn:E.
  - cbn [prun4]. rewrite IH. reflexivity.
  - assert (Hp : pstep4 sid st f = (st, [])) by (unfold pstep4; rewrite E; reflexivity).
    cbn [prun4]. rewrite Hp. cbn [fst snd app]. rewrite IH.
    destruct (prun4 sid st (filter (fun f0 => fsid f0 =? sid) fs)); reflexivity.
Qed.

Lemma prun4_none : forall sid fs, prun4 sid None fs = (None, []).
Proof.
  intros sid. induction fs as [|f fs IH]; [reflexivity|]. cbn [prun4]. unfold pstep4.
  destruct (negb (fsid f =? sid)); cbn [fst snd]; rewrite IH; reflexivity.
Qed.

(* at most one delivery per stream *)
Lemma prun4_at_most_one : forall sid fs st, (length (snd (prun4 sid st fs)) <= 1)%nat.
Proof.
  intros sid. induction fs as [|f fs IH]; intro st; [cbn; lia|].
  cbn [prun4 snd]. unfold pstep4. destruct (negb (fsid f =? sid)); [cbn [fst snd app]; apply IH|].
  destruct st as [[tok a]|]; [|cbn [fst snd app]; apply IH].
  destruct f as [s0 t es | s0 p es | s0 t]; try destruct es; cbn [fst snd app];
    try apply IH; rewrite prun4_none; cbn; lia.
Qed.

(* the first three components are C02's reference machine *)
Lemma prun4_prun : forall sid fs st,
  map (fun o : obs4 => fst o) (snd (prun4 sid st fs)) = snd (prun sid st fs) /\ fst (prun4 sid st fs) = fst (prun sid st fs).
Proof.
  intros sid. induction fs as [|f fs IH]; intro st; [split; reflexivity|].
  cbn [prun4 prun fst snd].
  assert (H : map (fun o : obs4 => fst o) (snd (pstep4 sid st f)) = snd (pstep sid st f) /\ fst (pstep4 sid st f) = fst (pstep sid st f)).
  { unfold pstep4, pstep. destruct (negb (fsid f =? sid)); [split; reflexivity|].
    destruct st as [[tok a]|]; [|split; reflexivity].
    destruct f as [s0 t es | s0 p es | s0 t]; try destruct es; split; reflexivity. }
  destruct H as [H1 H2]. rewrite map_app, H1, H2. destruct (IH (fst (pstep sid st f))) as [I1 I2]. rewrite I1, I2. split; reflexivity.
Qed.

(* for a stream whose HEADERS do not end it: its own headers, exactly the concatenation of its DATA payloads up to the
   frame that ends it, and the trailers of that frame *)
Theorem prun4_spec : forall sid fs tok a, (forall t, ~ In (FHead sid t true) fs) ->
  snd (prun4 sid (Some (tok, a)) fs) =
  if ends sid fs then [(sid, tok_of sid tok fs, a ++ body_of sid fs, trail_of sid fs)] else [].
Proof.
  intros sid. induction fs as [|f fs IH]; intros tok a Hno; [reflexivity|].
  assert (Hno' : forall t, ~ In (FHead sid t true) fs) by (intros t Hi; apply (Hno t); right; exact Hi).
  cbn [prun4]. unfold pstep4. destruct f as [s0 t es | s0 p es | s0 t]; cbn [fsid ends body_of tok_of trail_of].
  - destruct (s0 =? sid) eqn:E; cbn [negb andb].
    + apply N.eqb_eq in E. subst s0. destruct es; [exfalso; apply (Hno t); left; reflexivity|].
      cbn [fst snd app]. apply IH. exact Hno'.
    + cbn [fst snd app]. apply IH. exact Hno'.
  - destruct (s0 =? sid) eqn:E; cbn [negb andb].
    + destruct es; cbn [fst snd].
      * rewrite prun4_none. cbn [snd]. rewrite !app_nil_r. reflexivity.
      * cbn [app]. rewrite IH by exact Hno'. destruct (ends sid fs); [rewrite app_assoc; reflexivity | reflexivity].
    + cbn [fst snd app]. apply IH. exact Hno'.
  - destruct (s0 =? sid) eqn:E; cbn [negb].
    + cbn [fst snd]. rewrite prun4_none. cbn [snd]. rewrite !app_nil_r. reflexivity.
    + cbn [fst snd app]. apply IH. exact Hno'.
Qed.

(* a message that is only HEADERS with END_STREAM *)
Lemma prun4_headers_only : forall sid fs t rest, filter (fun f => fsid f =? sid) fs = FHead sid t true :: rest ->
  snd (prun4 sid (Some ([], [])) fs) = [(sid, t, [], None)].
Proof.
  intros sid fs t rest H. rewrite prun4_own_frames, H. cbn [prun4]. unfold pstep4. cbn [fsid]. rewrite N.eqb_refl.
  cbn [negb fst snd]. rewrite prun4_none. reflexivity.
Qed.

(* ---------------------------------------------------------------- the sender *)
Lemma pstep4_data : forall sid tok a p, pstep4 sid (Some (tok, a)) (FData sid p false) = (Some (tok, a ++ p), []).
Proof. intros. unfold pstep4. cbn [fsid]. rewrite N.eqb_refl. reflexivity. Qed.

Lemma prun4_data : forall sid tok a p rest,
  prun4 sid (Some (tok, a)) (FData sid p false :: rest) = prun4 sid (Some (tok, a ++ p)) rest.
Proof. intros. cbn [prun4]. rewrite pstep4_data. cbn [fst snd app]. destruct (prun4 sid (Some (tok, a ++ p)) rest); reflexivity. Qed.

Lemma data_frames_run : forall sid takes b tok a rest,
  prun4 sid (Some (tok, a)) (data_frames sid takes b ++ rest) = prun4 sid (Some (tok, a ++ b)) rest.
Proof.
  intros sid. induction takes as [|t r IH]; intros b tok a rest.
  - destruct b as [|x b]; cbn [data_frames app]; [rewrite app_nil_r; reflexivity|]. apply prun4_data.
  - destruct b as [|x b]; [cbn [data_frames app]; rewrite app_nil_r; reflexivity|].
    cbn [data_frames]. rewrite <- app_comm_cons. rewrite prun4_data, IH. rewrite <- app_assoc, firstn_skipn. reflexivity.
Qed.

(* the DATA frames carry exactly the body, whatever the grants *)
Lemma data_frames_body : forall sid takes b,
  flat_map (fun f => match f with FData _ p _ => p | _ => [] end) (data_frames sid takes b) = b.
Proof.
  intros sid. induction takes as [|t r IH]; intro b; destruct b as [|x b]; cbn [data_frames flat_map]; try reflexivity.
  - rewrite app_nil_r. reflexivity.
  - rewrite IH. apply firstn_skipn.
Qed.

(* what the peer's reference machine makes of a forwarded message, the frames of other streams interleaved at will *)
Theorem send_stream_received : forall sid tok body trail takes wire,
  filter (fun f => fsid f =? sid) wire = send_stream sid tok body trail takes ->
  snd (prun4 sid (Some ([], [])) wire) =
  [(sid, tok, match body with Some b => b | None => [] end, norm_trail trail)].
Proof.
  intros sid tok body trail takes wire H. rewrite prun4_own_frames, H. unfold send_stream.
  assert (G : forall b, snd (prun4 sid (Some ([], [])) (FHead sid tok false :: data_frames sid takes b ++
                [match trail with Some (x :: t) => FTrail sid (x :: t) | _ => FData sid [] true end])) =
              [(sid, tok, b, norm_trail trail)]).
  { intro b.
    assert (Hh : forall rest, prun4 sid (Some ([], [])) (FHead sid tok false :: rest) = prun4 sid (Some (tok, [])) rest).
    { intro rest. cbn [prun4]. unfold pstep4. cbn [fsid]. rewrite N.eqb_refl. cbn [negb fst snd app].
      symmetry. apply surjective_pairing. }
    rewrite Hh, data_frames_run. cbn [app].
    destruct trail as [[|x t]|]; cbn [prun4 norm_trail]; unfold pstep4; cbn [fsid]; rewrite N.eqb_refl; cbn [negb fst snd app];
      rewrite ?app_nil_r; reflexivity. }
  destruct body as [b|]; [apply G|]. destruct trail as [t|]; [apply G|].
  cbn [prun4]. unfold pstep4. cbn [fsid]. rewrite N.eqb_refl. reflexivity.
Qed.

(* ---------------------------------------------------------------- C01: through the proxy *)
(* For EVERY set of open streams, interleaving, grouping into reads: a delivery d of stream sid - kept by reference and
   looked at when the read buffer holds ANY buf' - is what the reference machine makes of the frames of sid alone, and
   forwarding it on stream sid' - any grants, any interleaving on the outgoing connection - makes the peer receive
   exactly these headers, this body and these trailers. *)
Theorem forward_fidelity : forall opens reads sid buf' d, NoDup opens ->
  In d (only_sid sid (dc_out (run_reads false opens reads))) ->
  In (observe4 buf' d) (snd (prun4 sid (if existsb (N.eqb sid) opens then Some ([], []) else None) (concat reads))) /\
  forall nilbody sid' takes wire,
    filter (fun f => fsid f =? sid') wire = forward buf' nilbody d sid' takes ->
    snd (prun4 sid' (Some ([], [])) wire) =
    [(sid', dl_tok d, resolve buf' (dl_body d), norm_trail (dl_trail d))].
Proof.
  intros opens reads sid buf' d Hnd Hin. split.
  - rewrite <- (demux4_correct opens reads sid buf' Hnd). apply in_map. exact Hin.
  - intros nilbody sid' takes wire Hw. unfold forward in Hw. rewrite (send_stream_received _ _ _ _ _ _ Hw).
    destruct (resolve buf' (dl_body d)) as [|x b]; [|reflexivity].
    destruct (dl_trail d); [reflexivity|]. destruct nilbody; reflexivity.
Qed.

(* the aliasing variant: the forwarded body of stream 1 is the body of stream 3 *)
Lemma forward_alias_refuted :
  let c := run_reads true [1; 3] alias_witness in
  map (fun d => snd (prun4 7 (Some ([], [])) (forward (dc_buf c) false d 7 []))) (only_sid 1 (dc_out c)) =
    [[(7, [65], [66; 66; 66], None)]] /\
  snd (prun4 1 (Some ([], [])) (concat alias_witness)) = [(1, [65], [65; 65; 65], None)].
Proof. split; vm_compute; reflexivity. Qed.

(* ================================================================= part 2: the header layer *)
(* ---------------------------------------------------------------- case *)
Lemma to_lower_idem : forall c, to_lower (to_lower c) = to_lower c.
Proof. intro c. unfold to_lower, is_upper. destruct ((65 <=? c) && (c <=? 90)) eqn:E; [|rewrite E; reflexivity].
  destruct ((65 <=? c + 32) && (c + 32 <=? 90)) eqn:E2; [lia | reflexivity]. Qed.
Lemma to_lower_upper : forall c, to_lower (to_upper c) = to_lower c.
Proof. intro c. unfold to_lower, to_upper, is_upper, is_lower.
  repeat match goal with |- context [if ?b then _ else _] => destruct b eqn:? end; lia. Qed.
Lemma lower_idem : forall b, lower (lower b) = lower b.
Proof. intro b. unfold lower. rewrite map_map. apply map_ext. apply to_lower_idem. Qed.
Lemma lower_canon_go : forall b up, lower (canon_go up b) = lower b.
Proof. induction b as [|c r IH]; intro up; [reflexivity|]. cbn [canon_go lower map]. fold (lower (canon_go (c =? 45) r)). rewrite IH.
  destruct up; [rewrite to_lower_upper | rewrite to_lower_idem]; reflexivity. Qed.
Lemma lower_canon : forall b, lower (canon b) = lower b.
Proof. intro b. unfold canon. destruct (forallb is_token b); [apply lower_canon_go | reflexivity]. Qed.

(* a key made from a wire (lower-case) name is recovered from its lower-case form *)
Definition canonical (k : bytes) : Prop := canon (lower k) = k.
Lemma canonical_canon : forall m, lower m = m -> canonical (canon m).
Proof. intros m H. unfold canonical. rewrite lower_canon, H. reflexivity. Qed.
Lemma canon_inj : forall a b, lower a = a -> lower b = b -> canon a = canon b -> a = b.
Proof. intros a b Ha Hb H. rewrite <- Ha, <- Hb, <- (lower_canon a), <- (lower_canon b), H. reflexivity. Qed.

Lemma valid_name_lower : forall n, valid_name n = true -> lower n = n /\ is_pseudo n = false.
Proof.
  intros n H. unfold valid_name in H. destruct n as [|c r]; [discriminate|]. split.
  - revert H. generalize (c :: r). induction l as [|x l IH]; intro H; [reflexivity|]. cbn [forallb] in H.
    apply andb_true_iff in H as [H1 H2]. cbn [lower map]. fold (lower l). rewrite (IH H2). f_equal.
    unfold to_lower, is_upper. destruct ((65 <=? x) && (x <=? 90)); [cbn in H1; rewrite andb_false_r in H1; discriminate | reflexivity].
  - cbn [forallb] in H. apply andb_true_iff in H as [H1 _]. apply andb_true_iff in H1 as [H1 _]. cbn [is_pseudo].
    destruct (N.eq_dec c 58) as [->|Hn]; [vm_compute in H1; discriminate|].
    destruct c as [|p]; [reflexivity|]. do 6 (destruct p as [p|p|]; try reflexivity). exfalso. apply Hn. reflexivity.
Qed.

(* ---------------------------------------------------------------- the header map *)
Definition keys (st : hstore) : list bytes := map fst st.
Definition st_ok (st : hstore) : Prop := NoDup (keys st) /\ forall k, In k (keys st) -> canonical k.

Lemma beqb_false : forall a b, a <> b -> bytes_eqb a b = false.
Proof. intros a b H. destruct (bytes_eqb a b) eqn:E; [apply bytes_eqb_eq in E; contradiction | reflexivity]. Qed.
Lemma beqb_sym : forall a b, bytes_eqb a b = bytes_eqb b a.
Proof. intros a b. destruct (bytes_eqb a b) eqn:E.
  - apply bytes_eqb_eq in E. subst. symmetry. apply bytes_eqb_refl.
  - symmetry. apply beqb_false. intro H. subst. rewrite bytes_eqb_refl in E. discriminate. Qed.
Definition bytes_dec : forall a b : bytes, {a = b} + {a <> b} := list_eq_dec N.eq_dec.

Lemma st_get_absent : forall k st, ~ In k (keys st) -> st_get k st = [].
Proof.
  intros k. induction st as [|e r IH]; intro H; [reflexivity|]. cbn [st_get]. cbn [keys map In] in H.
  rewrite beqb_false by (intro E; apply H; left; exact E). apply IH. intro Hi. apply H. right. exact Hi.
Qed.

Lemma st_get_in : forall k vs st, NoDup (keys st) -> In (k, vs) st -> st_get k st = vs.
Proof.
  intros k vs. induction st as [|e r IH]; intros Hnd Hin; [contradiction|]. cbn [st_get].
  cbn [keys map] in Hnd. inversion Hnd as [|? ? Hn Hr]; subst. destruct Hin as [He|Hin].
  - subst e. cbn [fst snd]. rewrite bytes_eqb_refl. reflexivity.
  - rewrite beqb_false; [apply IH; assumption|]. intro E. apply Hn. rewrite E. change k with (fst (k, vs)). apply in_map. exact Hin.
Qed.

Lemma st_get_add_same : forall k v st, st_get k (st_add k v st) = st_get k st ++ [v].
Proof.
  intros k v. induction st as [|e r IH]; cbn [st_add st_get]; [cbn [fst snd]; rewrite bytes_eqb_refl; reflexivity|].
  destruct (bytes_eqb (fst e) k) eqn:E; cbn [st_get fst snd]; rewrite E; [reflexivity | exact IH].
Qed.

Lemma st_get_add_other : forall k k' v st, k <> k' -> st_get k (st_add k' v st) = st_get k st.
Proof.
  intros k k' v st H. induction st as [|e r IH]; cbn [st_add st_get].
  - cbn [fst]. rewrite beqb_false by (intro E; apply H; symmetry; exact E). reflexivity.
  - destruct (bytes_eqb (fst e) k') eqn:E; cbn [st_get fst snd].
    + apply bytes_eqb_eq in E. rewrite E. rewrite beqb_false by (intro E2; apply H; symmetry; exact E2). reflexivity.
    + destruct (bytes_eqb (fst e) k); [reflexivity | exact IH].
Qed.

Lemma keys_add : forall k v st x, In x (keys (st_add k v st)) -> x = k \/ In x (keys st).
Proof.
  intros k v. induction st as [|e r IH]; intros x H; cbn [st_add] in H.
  - cbn in H. destruct H as [H|[]]. left. symmetry. exact H.
  - destruct (bytes_eqb (fst e) k); cbn [keys map In fst] in *.
    + right. exact H.
    + destruct H as [H|H]; [right; left; exact H|]. destruct (IH x H) as [G|G]; [left; exact G | right; right; exact G].
Qed.

Lemma nodup_add : forall k v st, NoDup (keys st) -> NoDup (keys (st_add k v st)).
Proof.
  intros k v. induction st as [|e r IH]; intro H; cbn [st_add].
  - cbn. constructor; [intros [] | constructor].
  - cbn [keys map] in H. inversion H as [|? ? Hn Hr]; subst.
    destruct (bytes_eqb (fst e) k) eqn:E; cbn [keys map fst].
    + constructor; assumption.
    + constructor; [|apply IH; exact Hr]. intro Hi. destruct (keys_add _ _ _ _ Hi) as [G|G].
      * rewrite G, bytes_eqb_refl in E. discriminate.
      * apply Hn. exact G.
Qed.

Lemma st_ok_add : forall k v st, st_ok st -> canonical k -> st_ok (st_add k v st).
Proof.
  intros k v st [H1 H2] Hk. split; [apply nodup_add; exact H1|].
  intros x Hx. destruct (keys_add _ _ _ _ Hx) as [G|G]; [subst; exact Hk | apply H2; exact G].
Qed.

Lemma keys_del : forall k st x, In x (keys (st_del k st)) <-> In x (keys st) /\ x <> k.
Proof.
  intros k. induction st as [|e r IH]; intro x; cbn [st_del filter keys map In]; [tauto|].
  destruct (bytes_eqb (fst e) k) eqn:E; cbn [negb map In].
  - apply bytes_eqb_eq in E. fold (st_del k r). fold (keys (st_del k r)). rewrite IH. fold (keys r). split; [tauto|].
    intros [[H|H] Hn]; [congruence | tauto].
  - fold (st_del k r). fold (keys (st_del k r)). rewrite IH. fold (keys r). split; [|tauto].
    intros [H|H]; [|tauto]. split; [left; exact H|]. intro Hx. rewrite Hx in H. rewrite H, bytes_eqb_refl in E. discriminate.
Qed.

Lemma nodup_del_k : forall k st, NoDup (keys st) -> NoDup (keys (st_del k st)).
Proof.
  intros k. induction st as [|e r IH]; intro H; cbn [st_del filter]; [constructor|].
  cbn [keys map] in H. inversion H as [|? ? Hn Hr]; subst.
  destruct (bytes_eqb (fst e) k); cbn [negb]; fold (st_del k r); [apply IH; exact Hr|].
  cbn [keys map]. constructor; [|apply IH; exact Hr]. intro Hi. apply keys_del in Hi as [Hi _]. apply Hn. exact Hi.
Qed.

Lemma st_ok_del : forall k st, st_ok st -> st_ok (st_del k st).
Proof. intros k st [H1 H2]. split; [apply nodup_del_k; exact H1|]. intros x Hx. apply keys_del in Hx as [Hx _]. apply H2. exact Hx. Qed.

Lemma st_get_del_other : forall k k' st, k <> k' -> st_get k (st_del k' st) = st_get k st.
Proof.
  intros k k' st H. induction st as [|e r IH]; [reflexivity|]. cbn [st_del filter st_get].
  destruct (bytes_eqb (fst e) k') eqn:E; cbn [negb]; fold (st_del k' r).
  - apply bytes_eqb_eq in E. rewrite E, (beqb_false k' k) by (intro E2; apply H; symmetry; exact E2). exact IH.
  - cbn [st_get]. destruct (bytes_eqb (fst e) k); [reflexivity | exact IH].
Qed.

Lemma st_ok_set : forall k vs st, st_ok st -> canonical k -> st_ok (st_set k vs st).
Proof.
  intros k vs st H Hk. destruct (st_ok_del k st H) as [D1 D2]. unfold st_set. split.
  - cbn [keys map fst]. constructor; [|exact D1]. intro Hi. apply keys_del in Hi as [_ Hn]. apply Hn. reflexivity.
  - intros x [Hx|Hx]; [cbn [fst] in Hx; subst; exact Hk | apply D2; exact Hx].
Qed.

Lemma st_get_set_same : forall k vs st, st_get k (st_set k vs st) = vs.
Proof. intros. unfold st_set. cbn [st_get fst snd]. rewrite bytes_eqb_refl. reflexivity. Qed.
Lemma st_get_set_other : forall k k' vs st, k <> k' -> st_get k (st_set k' vs st) = st_get k st.
Proof. intros k k' vs st H. unfold st_set. cbn [st_get fst snd]. rewrite beqb_false by (intro E; apply H; symmetry; exact E).
  apply st_get_del_other. exact H. Qed.

(* the iteration order of the map does not matter for a lookup *)
Lemma st_perm : forall iter st, NoDup (keys st) -> Permutation iter st ->
  NoDup (keys iter) /\ (forall x, In x (keys iter) <-> In x (keys st)) /\ forall k, st_get k iter = st_get k st.
Proof.
  intros iter st Hnd Hp.
  assert (Hk : Permutation (keys iter) (keys st)) by (apply Permutation_map; exact Hp).
  assert (Hnd' : NoDup (keys iter)) by (apply (Permutation_NoDup (Permutation_sym Hk)); exact Hnd).
  split; [exact Hnd'|]. split.
  - intro x. split; intro H; [apply (Permutation_in _ Hk) | apply (Permutation_in _ (Permutation_sym Hk))]; exact H.
  - intro k. destruct (in_dec bytes_dec k (keys st)) as [Hi|Hn].
    + apply in_map_iff in Hi as [[k0 vs] [E Hi]]. cbn [fst] in E. subst k0.
      rewrite (st_get_in k vs st Hnd Hi). apply st_get_in; [exact Hnd'|]. apply (Permutation_in _ (Permutation_sym Hp)). exact Hi.
    + rewrite (st_get_absent k st Hn). apply st_get_absent. intro Hi. apply Hn. apply (Permutation_in _ Hk). exact Hi.
Qed.

(* ---------------------------------------------------------------- values of a field list *)
Lemma values_app : forall n a b, values n (a ++ b) = values n a ++ values n b.
Proof. intros. unfold values. rewrite filter_app, map_app. reflexivity. Qed.

Lemma values_pairs : forall n m vs, values n (map (fun v => (m, v)) vs) = if bytes_eqb m n then vs else [].
Proof.
  intros n m. induction vs as [|v r IH]; [destruct (bytes_eqb m n); reflexivity|].
  cbn [map]. unfold values in *. cbn [filter fst]. destruct (bytes_eqb m n) eqn:E; cbn [map snd]; [f_equal|]; exact IH.
Qed.

Lemma values_opt_other : forall n m v, m <> n -> values n (opt_field m v) = [].
Proof. intros n m v H. destruct v as [x|]; [|reflexivity]. unfold values. cbn [opt_field filter fst]. rewrite beqb_false by exact H. reflexivity. Qed.

(* filling the map: Add under the canonical key for every field, except the keys in skipk *)
Definition fill (skipk : bytes -> bool) (fs : list hf2) (st : hstore) : hstore :=
  fold_left (fun st f => let k := canon (fst f) in if skipk k then st else st_add k (snd f) st) fs st.

Lemma fill_spec : forall skipk fs st, st_ok st -> (forall f, In f fs -> lower (fst f) = fst f) ->
  st_ok (fill skipk fs st) /\
  forall n, lower n = n -> skipk (canon n) = false -> st_get (canon n) (fill skipk fs st) = st_get (canon n) st ++ values n fs.
Proof.
  intros skipk. induction fs as [|f fs IH]; intros st Hok Hl.
  - split; [exact Hok|]. intros n _ _. cbn. rewrite app_nil_r. reflexivity.
  - assert (Hf : lower (fst f) = fst f) by (apply Hl; left; reflexivity).
    assert (Hl' : forall g, In g fs -> lower (fst g) = fst g) by (intros g Hg; apply Hl; right; exact Hg).
    unfold fill. cbn [fold_left]. cbv zeta. fold (fill skipk fs (if skipk (canon (fst f)) then st else st_add (canon (fst f)) (snd f) st)).
    destruct (skipk (canon (fst f))) eqn:Es.
    + destruct (IH st Hok Hl') as [I1 I2]. split; [exact I1|]. intros n Hn Hs. rewrite (I2 n Hn Hs).
      unfold values. cbn [filter]. rewrite beqb_false; [reflexivity|]. intro E. rewrite E, Hs in Es. discriminate.
    + destruct (IH (st_add (canon (fst f)) (snd f) st)) as [I1 I2]; [apply st_ok_add; [exact Hok | apply canonical_canon; exact Hf] | exact Hl' |].
      split; [exact I1|]. intros n Hn Hs. rewrite (I2 n Hn Hs). unfold values. cbn [filter].
      destruct (bytes_eqb (fst f) n) eqn:E.
      * apply bytes_eqb_eq in E. rewrite E, st_get_add_same, <- app_assoc. reflexivity.
      * rewrite st_get_add_other; [reflexivity|]. intro C. apply canon_inj in C; [|exact Hn|exact Hf]. rewrite C, bytes_eqb_refl in E. discriminate.
Qed.

Lemma st_ok_nil : st_ok [].
Proof. split; [constructor | intros k []]. Qed.

(* ---------------------------------------------------------------- an encoder over the map *)
Lemma enc_absent : forall sel n st, (forall e, In e st -> lower (fst e) <> n) -> values n (enc_store sel st) = [].
Proof.
  intros sel n. induction st as [|e r IH]; intro H; [reflexivity|]. unfold enc_store. cbn [flat_map]. fold (enc_store sel r).
  rewrite values_app, values_pairs, beqb_false by (apply H; left; reflexivity).
  apply IH. intros e' He'. apply H. right. exact He'.
Qed.

Lemma enc_values : forall sel n st, st_ok st -> lower n = n -> sel n [] = [] ->
  values n (enc_store sel st) = sel n (st_get (canon n) st).
Proof.
  intros sel n. induction st as [|e r IH]; intros [Hnd Hc] Hn Hs; [cbn; symmetry; exact Hs|].
  unfold enc_store. cbn [flat_map]. fold (enc_store sel r). rewrite values_app, values_pairs. cbn [st_get].
  cbn [keys map] in Hnd. inversion Hnd as [|? ? Hx Hr]; subst.
  assert (Hokr : st_ok r) by (split; [exact Hr | intros k Hk; apply Hc; right; exact Hk]).
  assert (Hce : canonical (fst e)) by (apply Hc; left; reflexivity).
  destruct (bytes_eqb (lower (fst e)) n) eqn:E.
  - apply bytes_eqb_eq in E. assert (Hk : fst e = canon n) by (rewrite <- E; symmetry; exact Hce).
    rewrite E, Hk, bytes_eqb_refl. rewrite enc_absent; [apply app_nil_r|].
    intros e' He' E'. apply Hx. assert (Hk' : fst e' = canon n).
    { rewrite <- E'. symmetry. apply Hc. right. apply in_map. exact He'. }
    rewrite Hk, <- Hk'. apply in_map. exact He'.
  - rewrite beqb_false; [apply IH; assumption|]. intro C. rewrite C, lower_canon, Hn, bytes_eqb_refl in E. discriminate.
Qed.

(* over ANY iteration order *)
Lemma enc_values_perm : forall sel n iter st, st_ok st -> Permutation iter st -> lower n = n -> sel n [] = [] ->
  values n (enc_store sel iter) = sel n (st_get (canon n) st).
Proof.
  intros sel n iter st [H1 H2] Hp Hn Hs. destruct (st_perm iter st H1 Hp) as [P1 [P2 P3]].
  rewrite enc_values; [rewrite P3; reflexivity | | exact Hn | exact Hs].
  split; [exact P1|]. intros k Hk. apply H2. apply P2. exact Hk.
Qed.

(* ---------------------------------------------------------------- requests *)
Lemma memb_false_in : forall n l, memb n l = false -> forall x, In x l -> n <> x.
Proof.
  intros n l H x Hx E. subst x. unfold memb in H. assert (T : existsb (bytes_eqb n) l = true).
  { apply existsb_exists. exists n. split; [exact Hx | apply bytes_eqb_refl]. }
  rewrite T in H. discriminate.
Qed.

Lemma memb_false_sub : forall n l l', (forall x, In x l' -> In x l) -> memb n l = false -> memb n l' = false.
Proof.
  intros n l l' Hs H. unfold memb. destruct (existsb (bytes_eqb n) l') eqn:E; [|reflexivity].
  apply existsb_exists in E as [x [Hx Ex]]. apply bytes_eqb_eq in Ex. subst x.
  exfalso. exact (memb_false_in n l H n (Hs n Hx) eq_refl).
Qed.

Lemma pseudo_neq : forall n p, is_pseudo n = false -> bytes_eqb (58 :: p) n = false.
Proof.
  intros n p H. destruct n as [|c r]; [reflexivity|]. cbn [bytes_eqb]. destruct (58 =? c) eqn:E; [|reflexivity].
  apply N.eqb_eq in E. subst c. discriminate.
Qed.

Lemma values_single_other : forall n m v, bytes_eqb m n = false -> values n [(m, v)] = [].
Proof. intros n m v H. unfold values. cbn [filter fst]. rewrite H. reflexivity. Qed.

Lemma values_if : forall n (c : bool) (a b : list hf2), values n a = [] -> values n b = [] -> values n (if c then a else b) = [].
Proof. intros n c a b Ha Hb. destruct c; assumption. Qed.

Lemma canon_neq : forall a b, lower a = a -> lower b = b -> a <> b -> canon a <> canon b.
Proof. intros a b Ha Hb H E. apply H. apply canon_inj; assumption. Qed.

Lemma store_of_fill : forall fs, store_of fs = fill (fun _ => false) fs [].
Proof. reflexivity. Qed.

Lemma req_sel_nil : forall n, req_sel n [] = [].
Proof. intro n. unfold req_sel. destruct (memb n req_skip); [reflexivity|]. destruct (bytes_eqb n n_ua); reflexivity. Qed.

(* the header map of the request object, seen from a name the path does not manage *)
Lemma srv_request_hdr : forall fs es r, srv_request fs es = Some r ->
  (forall f, In f (regular fs) -> lower (fst f) = fst f) ->
  st_ok (r_hdr r) /\
  (forall n, lower n = n -> n <> n_expect -> n <> n_cookie -> n <> n_trailer ->
     st_get (canon n) (r_hdr r) = values n (regular fs)) /\
  st_get (canon n_cookie) (r_hdr r) =
    (let cs := values n_cookie (regular fs) in if Nat.ltb 1 (length cs) then [join sep_cookie cs] else cs).
Proof.
  intros fs es r H Hl. unfold srv_request in H.
  match type of H with (if ?c then _ else _) = _ => destruct c; [discriminate|] end.
  inversion H; subst r; clear H. cbn [r_hdr].
  destruct (fill_spec (fun _ => false) (regular fs) [] st_ok_nil Hl) as [Hok0 G0]. rewrite <- store_of_fill in Hok0, G0.
  set (h0 := store_of (regular fs)) in *.
  assert (G0' : forall n, lower n = n -> st_get (canon n) h0 = values n (regular fs)) by (intros n Hn; rewrite (G0 n Hn eq_refl); reflexivity).
  set (h1 := if bytes_eqb (st_first (canon n_expect) h0) v_100continue then st_del (canon n_expect) h0 else h0).
  assert (Hok1 : st_ok h1) by (unfold h1; destruct (bytes_eqb (st_first (canon n_expect) h0) v_100continue); [apply st_ok_del|]; exact Hok0).
  assert (G1 : forall n, lower n = n -> n <> n_expect -> st_get (canon n) h1 = values n (regular fs)).
  { intros n Hn Hne. rewrite <- (G0' n Hn). unfold h1.
    destruct (bytes_eqb (st_first (canon n_expect) h0) v_100continue); [|reflexivity].
    apply st_get_del_other. apply canon_neq; [exact Hn | reflexivity | exact Hne]. }
  assert (Hcc : canonical (canon n_cookie)) by (apply canonical_canon; reflexivity).
  assert (Hok2 : st_ok (cookie_merge h1)).
  { unfold cookie_merge. destruct (Nat.ltb 1 (length (st_get (canon n_cookie) h1))); [apply st_ok_set; assumption | exact Hok1]. }
  split; [apply st_ok_del; exact Hok2|]. split.
  - intros n Hn Hne Hnc Hnt. rewrite st_get_del_other by (apply canon_neq; [exact Hn | reflexivity | exact Hnt]).
    rewrite <- (G1 n Hn Hne). unfold cookie_merge. destruct (Nat.ltb 1 (length (st_get (canon n_cookie) h1))); [|reflexivity].
    apply st_get_set_other. apply canon_neq; [exact Hn | reflexivity | exact Hnc].
  - rewrite st_get_del_other by (apply canon_neq; [reflexivity | reflexivity | discriminate]).
    cbv zeta. rewrite <- (G1 n_cookie eq_refl) by discriminate. unfold cookie_merge.
    destruct (Nat.ltb 1 (length (st_get (canon n_cookie) h1))); [apply st_get_set_same | reflexivity].
Qed.

(* For EVERY received field list whose regular names are lower case (the frame layer guarantees it: sink_wire below),
   EVERY iteration order of the header map and every field the transport adds on its own: a name the path does not
   manage has the same values in the same order in the forwarded list. *)
Theorem req_fields_fidelity : forall fs es r iter tr cl gz ua n,
  srv_request fs es = Some r -> (forall f, In f (regular fs) -> lower (fst f) = fst f) ->
  Permutation iter (r_hdr r) -> lower n = n -> is_pseudo n = false -> memb n req_managed = false ->
  values n (cli_request_fields iter r tr cl gz ua) = values n (regular fs).
Proof.
  intros fs es r iter tr cl gz ua n H Hl Hp Hn Hps Hm.
  destruct (srv_request_hdr fs es r H Hl) as [Hok [G _]].
  pose proof (memb_false_in n req_managed Hm) as Hne.
  assert (Hsk : memb n req_skip = false).
  { apply (memb_false_sub n req_managed); [|exact Hm]. intros x Hx. unfold req_managed. apply in_or_app. left. exact Hx. }
  assert (In n_ua req_managed /\ In n_cookie req_managed /\ In n_expect req_managed /\ In n_trailer req_managed /\
          In n_accenc req_managed /\ In n_clen req_managed) as [I1 [I2 [I3 [I4 [I5 I6]]]]]
    by (unfold req_managed, req_skip; cbn [app In]; tauto).
  unfold cli_request_fields. rewrite !values_app.
  rewrite (enc_values_perm req_sel n iter (r_hdr r) Hok Hp Hn (req_sel_nil n)).
  rewrite (G n Hn (Hne _ I3) (Hne _ I2) (Hne _ I4)).
  assert (P : forall p v, values n [(58 :: p, v)] = []) by (intros p v; apply values_single_other; apply pseudo_neq; exact Hps).
  assert (P2 : forall p v q w, values n [(58 :: p, v); (58 :: q, w)] = []).
  { intros p v q w. unfold values. cbn [filter fst]. rewrite !pseudo_neq by exact Hps. reflexivity. }
  rewrite P2, !values_if; try reflexivity; try apply P2;
    try (apply values_single_other; apply beqb_false; intro E; first [exact (Hne _ I5 (eq_sym E)) | exact (Hne _ I1 (eq_sym E))]).
  rewrite (values_opt_other n n_trailer) by (intro E; exact (Hne _ I4 (eq_sym E))).
  rewrite (values_opt_other n n_clen) by (intro E; exact (Hne _ I6 (eq_sym E))).
  cbn [app]. rewrite !app_nil_r.
  unfold req_sel. rewrite Hsk, (beqb_false n n_ua) by (exact (Hne _ I1)). reflexivity.
Qed.

(* cookies: the crumbs of the cookie fields received come out joined with "; " (one field), a single one unchanged *)
Theorem req_cookie_fidelity : forall fs es r iter tr cl gz ua,
  srv_request fs es = Some r -> (forall f, In f (regular fs) -> lower (fst f) = fst f) ->
  Permutation iter (r_hdr r) ->
  values n_cookie (cli_request_fields iter r tr cl gz ua) =
  (let cs := values n_cookie (regular fs) in if Nat.ltb 1 (length cs) then [join sep_cookie cs] else cs).
Proof.
  intros fs es r iter tr cl gz ua H Hl Hp.
  destruct (srv_request_hdr fs es r H Hl) as [Hok [_ G]].
  unfold cli_request_fields. rewrite !values_app.
  rewrite (enc_values_perm req_sel n_cookie iter (r_hdr r) Hok Hp eq_refl (req_sel_nil _)). rewrite G.
  rewrite !values_if; try reflexivity.
  rewrite (values_opt_other n_cookie n_trailer) by discriminate.
  rewrite (values_opt_other n_cookie n_clen) by discriminate.
  cbn [app]. rewrite !app_nil_r.
  match goal with |- values n_cookie ?l ++ _ = _ => change (values n_cookie l) with (@nil bytes) end. cbn [app].
  unfold req_sel. change (memb n_cookie req_skip) with false. change (bytes_eqb n_cookie n_ua) with false. reflexivity.
Qed.

(* the pseudo-header fields: :method, :path, :scheme as received; :authority as received, the Host field standing in
   for a missing one *)
Theorem req_pseudo_fidelity : forall fs es r iter tr cl gz ua,
  srv_request fs es = Some r ->
  r_method r = pseudo_value p_method fs /\ r_path r = pseudo_value p_path fs /\ r_scheme r = pseudo_value p_scheme fs /\
  r_authority r = (if nilb (pseudo_value p_authority fs) then st_first (canon n_host) (store_of (regular fs)) else pseudo_value p_authority fs) /\
  pseudo_value p_authority (cli_request_fields iter r tr cl gz ua) = r_authority r /\
  pseudo_value p_method (cli_request_fields iter r tr cl gz ua) = r_method r /\
  (bytes_eqb (r_method r) v_connect = false ->
   pseudo_value p_path (cli_request_fields iter r tr cl gz ua) = r_path r /\
   pseudo_value p_scheme (cli_request_fields iter r tr cl gz ua) = r_scheme r).
Proof.
  intros fs es r iter tr cl gz ua H. unfold srv_request in H.
  match type of H with (if ?c then _ else _) = _ => destruct c; [discriminate|] end.
  inversion H; subst r; clear H. cbn [r_method r_path r_scheme r_authority].
  do 6 (split; [reflexivity|]).
  intro E. unfold cli_request_fields. cbn [r_method r_path r_scheme r_authority]. rewrite E. split; reflexivity.
Qed.

(* ---------------------------------------------------------------- responses *)
Lemma resp_sel_nil : forall n, resp_sel n [] = [].
Proof. intro n. unfold resp_sel. destruct (valid_name n); reflexivity. Qed.

Lemma filter_all : forall (A : Type) (f : A -> bool) l, (forall x, In x l -> f x = true) -> filter f l = l.
Proof. intros A f. induction l as [|x l IH]; intro H; [reflexivity|]. cbn [filter]. rewrite (H x) by (left; reflexivity).
  f_equal. apply IH. intros y Hy. apply H. right. exact Hy. Qed.

Lemma values_in : forall n l v, In v (values n l) -> exists f, In f l /\ snd f = v.
Proof. intros n l v H. unfold values in H. apply in_map_iff in H as [f [E Hf]]. apply filter_In in Hf as [Hf _]. exists f. split; assumption. Qed.

Lemma cli_response_some : forall fs p, cli_response fs = Some p ->
  p_hdr p = fill (fun k => bytes_eqb k (canon n_trailer)) (regular fs) [].
Proof. intros fs p H. unfold cli_response in H. destruct (nilb (pseudo_value p_status fs)); [discriminate|]. inversion H. reflexivity. Qed.

Lemma cli_response_hdr : forall fs p, cli_response fs = Some p ->
  (forall f, In f (regular fs) -> lower (fst f) = fst f) ->
  st_ok (rsp_hdr p) /\
  forall n, lower n = n -> n <> n_trailer -> n <> n_clen -> st_get (canon n) (rsp_hdr p) = values n (regular fs).
Proof.
  intros fs p H Hl. unfold rsp_hdr. rewrite (cli_response_some fs p H).
  destruct (fill_spec (fun k => bytes_eqb k (canon n_trailer)) (regular fs) [] st_ok_nil Hl) as [Hok G].
  set (h := fill (fun k => bytes_eqb k (canon n_trailer)) (regular fs) []) in *.
  split; [destruct (nilb (st_first (canon n_clen) h)); [exact Hok | apply st_ok_del; exact Hok]|].
  intros n Hn Hnt Hnc.
  assert (E : st_get (canon n) h = values n (regular fs)).
  { rewrite (G n Hn); [reflexivity|]. apply beqb_false. apply canon_neq; [exact Hn | reflexivity | exact Hnt]. }
  destruct (nilb (st_first (canon n_clen) h)); [exact E|]. rewrite st_get_del_other; [exact E|].
  apply canon_neq; [exact Hn | reflexivity | exact Hnc].
Qed.

(* For EVERY received response field list (regular names lower case, values valid: the frame layer guarantees both),
   EVERY order of the keys and every field the server side adds on its own: a wire-valid name the path does not manage
   has the same values in the same order in the forwarded list; the status is carried over. *)
Theorem resp_fields_fidelity : forall fs p iter ct cl dt n,
  cli_response fs = Some p ->
  (forall f, In f (regular fs) -> lower (fst f) = fst f /\ valid_value (snd f) = true) ->
  Permutation iter (rsp_hdr p) -> valid_name n = true -> memb n rsp_managed = false ->
  values n (srv_response_fields iter p ct cl dt) = values n (regular fs) /\
  pseudo_value p_status (srv_response_fields iter p ct cl dt) = pseudo_value p_status fs.
Proof.
  intros fs p iter ct cl dt n H Hl Hp Hv Hm.
  destruct (valid_name_lower n Hv) as [Hn Hps].
  assert (Hl1 : forall f, In f (regular fs) -> lower (fst f) = fst f) by (intros f Hf; apply (Hl f Hf)).
  destruct (cli_response_hdr fs p H Hl1) as [Hok G].
  pose proof (memb_false_in n rsp_managed Hm) as Hne.
  assert (In n_trailer rsp_managed /\ In n_clen rsp_managed /\ In n_ctype rsp_managed /\ In n_date rsp_managed /\ In n_te rsp_managed)
    as [I1 [I2 [I3 [I4 I5]]]] by (unfold rsp_managed; cbn [In]; tauto).
  split.
  - unfold srv_response_fields.
    change ((58 :: p_status, p_code p) :: enc_store resp_sel iter ++ opt_field n_ctype ct ++ opt_field n_clen cl ++ opt_field n_date dt)
      with ([(58 :: p_status, p_code p)] ++ enc_store resp_sel iter ++ opt_field n_ctype ct ++ opt_field n_clen cl ++ opt_field n_date dt).
    rewrite !values_app.
    rewrite (values_single_other n (58 :: p_status)) by (apply pseudo_neq; exact Hps).
    rewrite (values_opt_other n n_ctype) by (intro E; exact (Hne _ I3 (eq_sym E))).
    rewrite (values_opt_other n n_clen) by (intro E; exact (Hne _ I2 (eq_sym E))).
    rewrite (values_opt_other n n_date) by (intro E; exact (Hne _ I4 (eq_sym E))).
    cbn [app]. rewrite !app_nil_r.
    rewrite (enc_values_perm resp_sel n iter (rsp_hdr p) Hok Hp Hn (resp_sel_nil n)).
    rewrite (G n Hn (Hne _ I1) (Hne _ I2)). unfold resp_sel. rewrite Hv. apply filter_all.
    intros v Hin. apply values_in in Hin as [f [Hf Ef]]. subst v. rewrite (proj2 (Hl f Hf)).
    rewrite (beqb_false n n_te) by (exact (Hne _ I5)). reflexivity.
  - unfold cli_response in H. destruct (nilb (pseudo_value p_status fs)); [discriminate|]. inversion H; subst p.
    unfold srv_response_fields. cbn [p_code]. reflexivity.
Qed.

(* ---------------------------------------------------------------- what the frame layer lets through *)
Definition pair_of (f : hfield) : hf2 := (hname f, hvalue f).

Lemma sink_step : forall sk f r sk', sink_run sk (f :: r) = Some sk' ->
  valid_value (hvalue f) = true /\
  (if is_pseudo (hname f) then sk_regular sk = false else valid_name (hname f) = true) /\
  exists sk1, sink_run sk1 r = Some sk' /\ sk_regular sk1 = (if is_pseudo (hname f) then sk_regular sk else true).
Proof.
  intros sk f r sk' H. cbn [sink_run] in H. unfold sink_emit in H.
  destruct (sk_invalid sk || negb (valid_value (hvalue f)) ||
            (if is_pseudo (hname f) then sk_regular sk else negb (valid_name (hname f)))) eqn:E; cbn [snd fst] in H; [discriminate|].
  apply orb_false_iff in E as [E E3]. apply orb_false_iff in E as [_ E2]. apply negb_false_iff in E2.
  destruct (sk_remain sk <? fsize (hname f) (hvalue f)); cbn [snd fst] in H; [discriminate|].
  split; [exact E2|]. split.
  - destruct (is_pseudo (hname f)); [exact E3 | apply negb_false_iff; exact E3].
  - eexists. split; [exact H|]. reflexivity.
Qed.

Lemma sink_all_regular : forall fs sk sk', sink_run sk fs = Some sk' -> sk_regular sk = true ->
  forall f, In f fs -> is_pseudo (hname f) = false /\ valid_name (hname f) = true /\ valid_value (hvalue f) = true.
Proof.
  induction fs as [|g fs IH]; intros sk sk' H Hr f Hf; [contradiction|].
  destruct (sink_step sk g fs sk' H) as [V [N [sk1 [H1 R1]]]].
  destruct (is_pseudo (hname g)) eqn:P; [rewrite Hr in N; discriminate|].
  destruct Hf as [->|Hf]; [auto|]. apply (IH sk1 sk' H1 R1 f Hf).
Qed.

(* a field list the frame layer accepted (Model/H2Frame.v sink_emit): every regular field has a wire-valid (lower-case
   token) name and a valid value, and no pseudo-header field follows a regular one *)
Lemma sink_wire : forall fs sk sk', sink_run sk fs = Some sk' ->
  forall f, In f (regular (map pair_of fs)) ->
    valid_name (fst f) = true /\ valid_value (snd f) = true /\ lower (fst f) = fst f /\ is_pseudo (fst f) = false.
Proof.
  induction fs as [|g fs IH]; intros sk sk' H f Hf; [contradiction|].
  destruct (sink_step sk g fs sk' H) as [V [N [sk1 [H1 R1]]]].
  cbn [map regular] in Hf. unfold pseudo2 in Hf. cbn [pair_of fst] in Hf.
  destruct (is_pseudo (hname g)) eqn:P; [apply (IH sk1 sk' H1 f Hf)|].
  assert (G : valid_name (fst f) = true /\ valid_value (snd f) = true).
  { destruct Hf as [<-|Hf]; [cbn [pair_of fst snd]; auto|].
    apply in_map_iff in Hf as [x [<- Hx]]. destruct (sink_all_regular fs sk1 sk' H1 R1 x Hx) as [_ [A B]]. cbn [pair_of fst snd]. auto. }
  destruct G as [G1 G2]. destruct (valid_name_lower _ G1) as [G3 G4]. auto.
Qed.

(* ---------------------------------------------------------------- a DATA frame on the wire *)
(* every DATA frame the sender cuts (payload p, any END_STREAM flag) is read back by the frame layer as that frame *)
Lemma data_frame_wire : forall sid es p mx rest, sid_ok sid -> len p < 16777216 -> len p <= mx ->
  read_raw psw_ok 0 mx (ser_frame (AData sid es p None) ++ rest) 0 =
  WFrame (frame_of (AData sid es p None)) (len (ser_frame (AData sid es p None))) 0.
Proof.
  intros sid es p mx rest Hs Hl Hm. apply frame_roundtrip.
  - cbn [aframe_ok pad_ok]. split; [exact Hs | exact I].
  - cbn [aframe_parts pad_prefix pad_suffix app]. rewrite app_nil_r. split; assumption.
  - reflexivity.
Qed.
