From Coq Require Import List ZArith NArith Bool.
From MV Require Import Lib.Interleave Model.LB Model.LBSnapshot Proofs.LB.
Import ListNotations.

Definition triple_ok (U : list (list host)) (tr : triple) : Prop := fst tr = snd tr /\ In (fst tr) U.

Definition thread_ok (la lc : bool) (U : list (list host)) (t : sthread) : Prop :=
  match t with
  | TUpd h _ => In h U
  | TLook p rr x loaded res =>
      match loaded with
      | None => res = None
      | Some tr => triple_ok U tr /\ forall r, res = Some r -> r = o_res (choose la lc p (fst tr) rr x)
      end
  end.

Definition cfg_ok (la lc : bool) (U : list (list host)) (c : list sthread * sshared) : Prop :=
  Forall (thread_ok la lc U) (fst c) /\ triple_ok U (s_snap (snd c)).

Lemma sstep_ok : forall la lc U c k, cfg_ok la lc U c -> cfg_ok la lc U (sched_step (sstep la lc) c k).
Proof.
  intros la lc U [ts s] k [Hts Hs]. unfold sched_step; cbn [fst snd] in *.
  destruct (nth_error ts k) as [t|] eqn:Hk; [|split; auto].
  assert (Ht : thread_ok la lc U t).
  { rewrite Forall_forall in Hts. apply Hts. eapply nth_error_In; eauto. }
  destruct t as [h pc|p rr x loaded res].
  - destruct pc as [|[|[|[|pc]]]]; cbn [sstep fst snd]; split; cbn [fst snd s_snap];
      try (apply Forall_upd_nth; auto); auto.
    split; cbn; auto.
  - destruct loaded as [tr|]; [destruct res as [r|]|]; cbn [sstep fst snd]; split; auto;
      apply Forall_upd_nth; auto; cbn in *.
    + destruct Ht as [Htr _]. split; auto. intros r E. inversion E as [E1]; subst.
      destruct Htr as [Heq _]. rewrite Heq. reflexivity.
    + subst. split; auto. intros; discriminate.
Qed.

Lemma upd_sets_in : forall ts h pc, In (TUpd h pc) ts -> In h (upd_sets ts).
Proof.
  intros ts h pc H. unfold upd_sets. apply in_flat_map. exists (TUpd h pc). split; auto. left; auto.
Qed.

(* every lookup uses ONE published triple: its host set and its balancer's hosts are the same set, that set is
   the initial one or the argument of one of the UpdateHosts calls, and the result is exactly the balancer's
   choice over that one set (so C05's member/healthy/complete statements apply to it) *)
Theorem snapshot_atomic : forall la lc hs0 ts sched,
  forallb fresh ts = true ->
  let U := hs0 :: upd_sets ts in
  Forall (fun t => match t with
                   | TLook p rr x (Some tr) res =>
                       fst tr = snd tr /\ In (fst tr) U /\
                       (forall r, res = Some r -> r = o_res (choose la lc p (fst tr) rr x))
                   | _ => True
                   end) (fst (srun la lc sched ts hs0)).
Proof.
  intros la lc hs0 ts sched Hfresh U. unfold srun.
  assert (H0 : cfg_ok la lc U (ts, mkSh (hs0, hs0) hs0 hs0)).
  { split; cbn [fst snd s_snap].
    - rewrite Forall_forall. intros t Hin. rewrite forallb_forall in Hfresh. specialize (Hfresh t Hin).
      destruct t as [h pc|p rr x [tr|] [r|]]; cbn in *; try discriminate; auto.
      right. eapply upd_sets_in; eauto.
    - split; cbn; auto. }
  pose proof (run_invariant (sstep la lc) (cfg_ok la lc U) (fun c k H => sstep_ok la lc U c k H) sched _ H0) as [Hts _].
  eapply Forall_impl; [|exact Hts]. intros t Ht.
  destruct t as [h pc|p rr x [tr|] res]; auto. destruct Ht as [[He Hin] Hr]. auto.
Qed.
