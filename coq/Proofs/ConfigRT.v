(* Proofs/ConfigRT.v (cfg, C19) *)
From Coq Require Import List String Bool ZArith NArith Lia DecimalString DecimalZ DecimalPos Ascii.
From MV Require Import Lib.GoJson Lib.GoJsonFacts Gen.CfgTypes Model.ConfigRT.
Import ListNotations.
Open Scope string_scope.
Open Scope list_scope.

(* ================================================================================================ *)
(* 1. small facts                                                                                   *)
(* ================================================================================================ *)
Lemma string_to_Z_to_string z : string_to_Z (Z_to_string z) = Some z.
Proof.
  unfold string_to_Z, Z_to_string. rewrite NilZero.isi.
  - now rewrite DecimalZ.of_to.
  - destruct z; cbn; intros H; inversion H. eapply DecimalPos.Unsigned.to_uint_nonnil; eauto.
  - destruct z; cbn; intros H; inversion H. eapply DecimalPos.Unsigned.to_uint_nonnil; eauto.
Qed.

Lemma key_eq_refl a : key_eq a a = true.
Proof. unfold key_eq. apply String.eqb_refl. Qed.
Lemma key_eq_sym a b : key_eq a b = key_eq b a.
Proof. unfold key_eq. apply String.eqb_sym. Qed.

Lemma sequence_map {A B} (f : A -> option B) : forall l r, sequence (map f l) = Some r -> Forall2 (fun x y => f x = Some y) l r.
Proof.
  induction l as [|x l IH]; cbn; intros r H.
  - inversion H; constructor.
  - destruct (f x) as [y|] eqn:E; cbn in H; [|discriminate].
    destruct (sequence (map f l)) as [r'|] eqn:E2; cbn in H; [|discriminate].
    inversion H; subst. constructor; [exact E|apply IH; reflexivity].
Qed.

Lemma lookup_no_match kvs name : forall acc,
  Forall (fun kv : string * json => key_eq (fst kv) name = false) kvs -> lookup_member kvs name acc = acc.
Proof.
  induction kvs as [|[k x] kvs IH]; intros acc H; cbn; [reflexivity|].
  inversion H; subst. cbn [fst] in H2. rewrite H2. apply IH. assumption.
Qed.

Lemma lookup_app a b name acc : lookup_member (a ++ b) name acc = lookup_member b name (lookup_member a name acc).
Proof. revert acc. induction a as [|[k x] a IH]; intros acc; cbn; [reflexivity|apply IH]. Qed.

(* ================================================================================================ *)
(* 2. the members printed for a struct, and looking them up again                                   *)
(* ================================================================================================ *)
Section Fields.
Variable enc : ty -> val -> json.

Definition omitted (fd : field) (x : val) : bool := (f_skip fd || (f_omit fd && is_empty x))%bool.

Lemma enc_fields_cons fd fds x vs :
  f_embed fd = false \/ f_skip fd = true ->
  enc_fields enc (fd :: fds) (x :: vs) =
  ((if omitted fd x then [] else [(f_json fd, enc (f_ty fd) x)]) ++ enc_fields enc fds vs)%list.
Proof.
  intros He. cbn [enc_fields]. unfold omitted. destruct (f_skip fd || f_omit fd && is_empty x)%bool eqn:E; [reflexivity|].
  unfold splice. destruct He as [He|He]; [rewrite He; reflexivity|]. rewrite He in E. discriminate.
Qed.

(* keys of the printed members are JSON names of visible fields *)
Lemma enc_fields_keys : forall fds vs,
  forallb (fun fd => (f_skip fd || negb (f_embed fd))%bool) fds = true ->
  Forall (fun kv : string * json => exists fd, In fd fds /\ f_skip fd = false /\ fst kv = f_json fd) (enc_fields enc fds vs).
Proof.
  induction fds as [|fd fds IH]; intros vs Hp; [destruct vs; constructor|].
  destruct vs as [|x vs]; [constructor|].
  cbn in Hp. apply andb_true_iff in Hp. destruct Hp as [Hfd Hp].
  rewrite enc_fields_cons.
  - apply Forall_app. split.
    + unfold omitted. destruct (f_skip fd) eqn:Es; cbn; [constructor|].
      destruct (f_omit fd && is_empty x)%bool; constructor; [|constructor].
      exists fd. cbn. auto.
    + eapply Forall_impl; [|apply IH; exact Hp]. intros kv [fd' [Hin [Hs Hk]]]. exists fd'. split; [right; exact Hin|auto].
  - destruct (f_skip fd); [right; reflexivity|left]. cbn in Hfd. apply negb_true_iff in Hfd. exact Hfd.
Qed.

(* looking up the JSON name of field number i in the printed object *)
Lemma lookup_enc_fields : forall fds vs,
  forallb (fun fd => (f_skip fd || negb (f_embed fd))%bool) fds = true ->
  names_distinct fds = true -> List.length fds = List.length vs ->
  Forall2 (fun fd x => f_skip fd = false ->
                       lookup_member (enc_fields enc fds vs) (f_json fd) None =
                       if omitted fd x then None else Some (enc (f_ty fd) x)) fds vs.
Proof.
  (* generalise: the object may be preceded by members that match none of the names of fds *)
  assert (G : forall fds vs pre,
    forallb (fun fd => (f_skip fd || negb (f_embed fd))%bool) fds = true ->
    names_distinct fds = true -> List.length fds = List.length vs ->
    Forall (fun kv : string * json => Forall (fun fd => f_skip fd = false -> key_eq (fst kv) (f_json fd) = false) fds) pre ->
    Forall2 (fun fd x => f_skip fd = false ->
                         lookup_member (pre ++ enc_fields enc fds vs) (f_json fd) None =
                         if omitted fd x then None else Some (enc (f_ty fd) x)) fds vs).
  { induction fds as [|fd fds IH]; intros vs pre Hp Hd Hl Hpre; destruct vs as [|x vs]; try discriminate; [constructor|].
    cbn in Hp. apply andb_true_iff in Hp. destruct Hp as [Hfd Hp].
    cbn in Hd. apply andb_true_iff in Hd. destruct Hd as [Hd0 Hd].
    assert (He : f_embed fd = false \/ f_skip fd = true).
    { destruct (f_skip fd); [right; reflexivity|left]. cbn in Hfd. apply negb_true_iff in Hfd. exact Hfd. }
    rewrite (enc_fields_cons fd fds x vs He).
    constructor.
    - (* field 0 *)
      intros Hs. rewrite Hs in Hd0. cbn in Hd0. apply negb_true_iff in Hd0.
      rewrite lookup_app.
      rewrite (lookup_no_match pre).
      2:{ eapply Forall_impl; [|exact Hpre]. intros kv H. inversion H; subst. auto. }
      rewrite lookup_app.
      assert (Hrest : Forall (fun kv : string * json => key_eq (fst kv) (f_json fd) = false) (enc_fields enc fds vs)).
      { eapply Forall_impl; [|apply enc_fields_keys; exact Hp]. intros kv [fd' [Hin [Hs' Hk]]]. rewrite Hk.
        destruct (key_eq (f_json fd') (f_json fd)) eqn:E; [|reflexivity].
        exfalso. assert (X : existsb (fun fd'0 => (negb (f_skip fd'0) && key_eq (f_json fd'0) (f_json fd))%bool) fds = true).
        { apply existsb_exists. exists fd'. split; [exact Hin|]. rewrite Hs', E. reflexivity. }
        congruence. }
      destruct (omitted fd x); cbn [lookup_member].
      + apply lookup_no_match. exact Hrest.
      + rewrite key_eq_refl. apply lookup_no_match. exact Hrest.
    - (* the others: the member of field 0 joins the prefix *)
      specialize (IH vs (pre ++ (if omitted fd x then [] else [(f_json fd, enc (f_ty fd) x)])) Hp Hd).
      rewrite <- app_assoc in IH. apply IH; [cbn in Hl; lia|].
      apply Forall_app. split.
      + eapply Forall_impl; [|exact Hpre]. intros kv H. inversion H; subst. assumption.
      + destruct (omitted fd x) eqn:Eo; constructor; [|constructor].
        cbn [fst]. apply Forall_forall. intros fd' Hin Hs'.
        unfold omitted in Eo. destruct (f_skip fd) eqn:Es; [discriminate|]. cbn in Hd0. apply negb_true_iff in Hd0.
        destruct (key_eq (f_json fd) (f_json fd')) eqn:E; [|reflexivity].
        exfalso. assert (X : existsb (fun fd'0 => (negb (f_skip fd'0) && key_eq (f_json fd'0) (f_json fd))%bool) fds = true).
        { apply existsb_exists. exists fd'. split; [exact Hin|]. rewrite Hs', key_eq_sym, E. reflexivity. }
        congruence. }
  intros fds vs Hp Hd Hl. apply (G fds vs [] Hp Hd Hl). constructor.
Qed.
End Fields.

(* ================================================================================================ *)
(* 3. the generic round trip on the plain fragment                                                  *)
(* ================================================================================================ *)
Lemma zero_val_empty T f t : match t with TNamed _ | TOpaque _ => True | _ => is_empty (zero_val T f t) = true end.
Proof. destruct f; destruct t; cbn; auto. Qed.

Lemma wf_struct_inv T n vs : wf T (TNamed n) (VStruct vs) = true ->
  exists sd, find_struct T n = Some sd /\ plain_struct sd = true /\ List.length (s_fields sd) = List.length vs /\
             Forall2 (fun fd x => wf T (f_ty fd) x = true) (s_fields sd) vs.
Proof.
  cbn. destruct (find_struct T n) as [sd|]; [|discriminate]. intros H.
  apply andb_true_iff in H. destruct H as [Hp H]. exists sd. split; [reflexivity|]. split; [exact Hp|].
  revert H. generalize (s_fields sd). induction vs as [|x vs IH]; intros fds H; destruct fds as [|fd fds]; try discriminate.
  - split; [reflexivity|constructor].
  - apply andb_true_iff in H. destruct H as [H1 H2]. destruct (IH fds H2) as [Hl Hf]. split; [cbn; lia|constructor; assumption].
Qed.

Lemma find_struct_in T n sd : find_struct T n = Some sd -> In sd T.
Proof.
  induction T as [|s T IH]; cbn; [discriminate|]. destruct (String.eqb (s_name s) n).
  - intros H; inversion H; subst. left; reflexivity.
  - intros H. right. apply IH. exact H.
Qed.

Lemma plain_hooks sd : plain_struct sd = true ->
  s_hook sd = HkNone /\ s_unhook sd = UkNone /\ forallb (fun fd => (f_skip fd || negb (f_embed fd))%bool) (s_fields sd) = true.
Proof. unfold plain_struct. intros H. destruct (s_hook sd); try discriminate H. destruct (s_unhook sd); try discriminate H. auto. Qed.

Lemma plain_compiled T sd : plain_struct sd = true -> hook_compiled T sd = CNone.
Proof. intros H. apply plain_hooks in H. destruct H as [Hh [Hu _]]. unfold hook_compiled. rewrite Hh, Hu. reflexivity. Qed.

Definition stable_at (T : table) (fuel : nat) (t : ty) (v : val) : Prop :=
  wf T t v = true -> ty_ptr_ok t = true -> fuel_free (encode T fuel t v) = true ->
  forall fuel' v', decode T fuel' t (encode T fuel t v) = Some v' ->
    encode T fuel t v' = encode T fuel t v /\ (is_empty v = false -> is_empty v' = false).

(* the printed form of a well-formed value of a non-nilable type is never null *)
Lemma encode_not_null T fuel t v : wf T t v = true -> fuel_free (encode T (S fuel) t v) = true ->
  match t with TPtr _ | TSlice _ | TMap _ | TAny | TRaw => True | _ => encode T (S fuel) t v <> JNull end.
Proof.
  intros Hw Hf. destruct t; auto; destruct v; cbn in Hw; try discriminate; cbn [encode]; try discriminate.
  - destruct (find_struct T n) as [sd|]; [|discriminate]. apply andb_true_iff in Hw. destruct Hw as [Hp _].
    rewrite (plain_compiled T sd Hp). discriminate.
  - destruct (String.eqb coder "text"); [discriminate|].
    unfold opaque_json. destruct (String.eqb n "api.DurationConfig"); [destruct (string_to_Z payload)|]; discriminate.
Qed.

Theorem stable T : table_ok T = true -> forall fuel t v, stable_at T fuel t v.
Proof.
  intros HT. induction fuel as [|f IH]; intros t v Hw Hpt Hff fuel' v' Hd; [cbn in Hff; discriminate|].
  destruct fuel' as [|f']; [cbn in Hd; discriminate|].
  destruct v.
  - (* VBool *) destruct t; try discriminate. cbn in *. inversion Hd; subst. auto.
  - (* VInt *) destruct t; try discriminate. cbn in *. rewrite string_to_Z_to_string in Hd. cbn in Hd. inversion Hd; subst. auto.
  - (* VFloat *) destruct t; try discriminate. cbn in *. inversion Hd; subst. auto.
  - (* VStr *) destruct t; try discriminate. cbn in *. inversion Hd; subst. auto.
  - (* VSecret *) destruct t; try discriminate. cbn in *. inversion Hd; subst. auto.
  - (* VStruct *)
    destruct t; try discriminate.
    destruct (wf_struct_inv T n fs Hw) as [sd [Hs [Hp [Hl Hwf]]]].
    destruct (plain_hooks sd Hp) as [Hh [Hu Hvis]].
    assert (Hok : struct_ok sd = true).
    { unfold table_ok in HT. rewrite forallb_forall in HT. specialize (HT sd (find_struct_in _ _ _ Hs)). rewrite Hp in HT. exact HT. }
    unfold struct_ok in Hok. apply andb_true_iff in Hok. destruct Hok as [Hnd Hpo].
    pose proof (plain_compiled T sd Hp) as Hc.
    cbn [encode] in *. rewrite Hs, Hc in *. cbn [decode] in Hd. rewrite Hs in Hd. cbv zeta in Hd. rewrite Hc in Hd.
    set (O := enc_fields (encode T f) (s_fields sd) fs) in Hd, Hff.
    destruct (sequence _) as [vs'|] eqn:Eseq; cbn in Hd; [|discriminate]. inversion Hd; subst v'. clear Hd.
    apply sequence_map in Eseq.
    split; [|intros _; reflexivity].
    f_equal.
    pose proof (lookup_enc_fields (encode T f) (s_fields sd) fs Hvis Hnd Hl) as Hlook. fold O in Hlook.
    (* field by field *)
    assert (Hffs : Forall (fun kv : string * json => fuel_free (snd kv) = true) O).
    { clear - Hff. cbn in Hff. induction O as [|[k x] O IHO]; [constructor|]. apply andb_true_iff in Hff. destruct Hff. constructor; auto. }
    clear Hff.
    assert (Hmem : forall fd x, In fd (s_fields sd) -> f_skip fd = false ->
              lookup_member O (f_json fd) None = Some x -> fuel_free x = true).
    { intros fd x _ _. clear - Hffs.
      assert (G : forall acc, (forall y, acc = Some y -> fuel_free y = true) -> lookup_member O (f_json fd) acc = Some x -> fuel_free x = true).
      { induction O as [|[k y] O IHO]; intros acc0 Hacc H; cbn in H; [apply Hacc; exact H|].
        inversion Hffs; subst. eapply IHO; [assumption| |exact H].
        intros z Hz. destruct (key_eq k (f_json fd)); [inversion Hz; subst; assumption|apply Hacc; exact Hz]. }
      intros H. eapply (G None); [intros y Hy; discriminate Hy|exact H]. }
    clear Hw. revert Hmem Hlook Eseq Hwf Hpo Hvis. generalize O. clear O Hffs Hnd Hl.
    generalize (s_fields sd) as fds. revert vs'.
    induction fs as [|x fs IHfs]; intros vs' fds O Hmem Hlook Eseq Hwf Hpo Hvis.
    + inversion Hwf; subst. inversion Eseq; subst. reflexivity.
    + inversion Hwf as [|fd ? fds' ? Hwx Hwf']; subst. inversion Eseq as [|? x' ? vs'' Hdx Hseq']; subst.
      inversion Hlook as [|? ? ? ? Hl0 Hlook']; subst.
      cbn in Hpo. apply andb_true_iff in Hpo. destruct Hpo as [Hpx Hpo].
      cbn in Hvis. apply andb_true_iff in Hvis. destruct Hvis as [Hv0 Hvis].
      assert (He : f_embed fd = false \/ f_skip fd = true).
      { destruct (f_skip fd); [right; reflexivity|left]. cbn in Hv0. apply negb_true_iff in Hv0. exact Hv0. }
      rewrite !(enc_fields_cons (encode T f) fd fds' _ _ He).
      assert (IHrest : enc_fields (encode T f) fds' vs'' = enc_fields (encode T f) fds' fs).
      { eapply IHfs; eauto. intros fd0 x0 Hin. apply Hmem. right; exact Hin. }
      rewrite IHrest. f_equal.
      unfold omitted in *.
      destruct (f_skip fd) eqn:Es; [reflexivity|]. cbn [orb] in *.
      specialize (Hl0 eq_refl). rewrite Hl0 in Hdx.
      destruct (f_omit fd && is_empty x)%bool eqn:Eo.
      * (* omitted: the reloaded field is the zero value, still empty *)
        inversion Hdx; subst x'. apply andb_true_iff in Eo. destruct Eo as [Eom Eem]. rewrite Eom. cbn [andb].
        pose proof (zero_val_empty T f' (f_ty fd)) as Hz.
        destruct (f_ty fd) eqn:Et; try (rewrite Hz; reflexivity).
        -- (* struct-typed field: a well-formed struct value is never empty *)
           destruct x; cbn in Hwx; try discriminate.
        -- destruct x; cbn in Hwx; try discriminate.
      * (* printed: reload and print again *)
        assert (Hffx : fuel_free (encode T f (f_ty fd) x) = true).
        { eapply (Hmem fd); [left; reflexivity|exact Es|]. rewrite Hl0. reflexivity. }
        destruct (IH (f_ty fd) x Hwx Hpx Hffx f' x' Hdx) as [Henc Hemp].
        rewrite Henc.
        destruct (f_omit fd) eqn:Eom; cbn [andb] in *; [|reflexivity].
        rewrite (Hemp Eo). reflexivity.
  - (* VNil *)
    destruct t; try discriminate; cbn in *; inversion Hd; subst; cbn; auto.
  - (* VRef *)
    destruct t; try discriminate.
    + (* pointer *)
      cbn in Hw. destruct es as [|[k x] es]; [discriminate|]. destruct es; [|discriminate].
      cbn [encode] in *. cbn in Hpt. apply andb_true_iff in Hpt. destruct Hpt as [Hpk Hpt].
      destruct f as [|f0]; [cbn in Hff; discriminate|].
      pose proof (encode_not_null T f0 t x Hw Hff) as Hnn.
      cbn [decode] in Hd.
      assert (Hd' : option_bind (decode T f' t (encode T (S f0) t x)) (fun y => Some (VRef 0 [("", y)])) = Some v').
      { destruct (encode T (S f0) t x) eqn:E; try exact Hd.
        exfalso. destruct t; try (apply Hnn; reflexivity); cbn in Hpk; discriminate. }
      destruct (decode T f' t (encode T (S f0) t x)) as [y|] eqn:Ey; cbn in Hd'; [|discriminate].
      inversion Hd'; subst v'.
      destruct (IH t x Hw Hpt Hff f' y Ey) as [Henc _]. split; [exact Henc|reflexivity].
    + (* slice *)
      cbn [encode] in *. cbn [decode] in Hd.
      destruct (sequence _) as [xs|] eqn:Eseq; cbn in Hd; [|discriminate]. inversion Hd; subst v'. clear Hd.
      rewrite map_map in Eseq. apply sequence_map in Eseq.
      cbn [encode]. split.
      * f_equal. rewrite map_map. cbn [snd].
        cbn in Hw, Hff, Hpt.
        revert xs Eseq. induction es as [|[k x] es IHes]; intros xs Eseq; inversion Eseq; subst; [reflexivity|].
        cbn in Hw. apply andb_true_iff in Hw. destruct Hw as [Hwx Hw].
        cbn in Hff. apply andb_true_iff in Hff. destruct Hff as [Hfx Hff].
        cbn [map]. f_equal.
        -- cbn [snd] in *. destruct (IH t x Hwx Hpt Hfx f' y H1) as [Henc _]. exact Henc.
        -- apply IHes; assumption.
      * intros Hne. destruct es; [discriminate|]. inversion Eseq; subst. reflexivity.
    + (* map *)
      cbn [encode] in *. cbn [decode] in Hd.
      destruct (sequence _) as [es'|] eqn:Eseq; cbn in Hd; [|discriminate]. inversion Hd; subst v'. clear Hd.
      rewrite map_map in Eseq. apply sequence_map in Eseq.
      cbn [encode]. split.
      * f_equal. cbn in Hw, Hff, Hpt.
        revert es' Eseq. induction es as [|[k x] es IHes]; intros es' Eseq; inversion Eseq; subst; [reflexivity|].
        cbn in Hw. apply andb_true_iff in Hw. destruct Hw as [Hwx Hw].
        cbn in Hff. apply andb_true_iff in Hff. destruct Hff as [Hfx Hff].
        cbn [fst snd] in H1.
        destruct (decode T f' t (encode T f t x)) as [x'|] eqn:Ex; cbn in H1; [|discriminate]. inversion H1; subst y.
        cbn [map fst snd]. f_equal.
        -- destruct (IH t x Hwx Hpt Hfx f' x' Ex) as [Henc _]. rewrite Henc. reflexivity.
        -- apply IHes; assumption.
      * intros Hne. destruct es; [discriminate|]. inversion Eseq; subst. reflexivity.
  - (* VJson *)
    destruct t; try discriminate; cbn in *.
    + destruct j; try discriminate; inversion Hd; subst; auto.
    + inversion Hd; subst. auto.
  - (* VOpaque *)
    destruct t; try discriminate. cbn [encode] in *.
    destruct (String.eqb coder "text") eqn:Ec.
    + cbn in Hd. inversion Hd; subst. cbn. auto.
    + unfold opaque_json in *. destruct (String.eqb n "api.DurationConfig") eqn:En.
      * destruct (string_to_Z payload) as [z|] eqn:Ez; cbn in Hd; inversion Hd; subst v'.
        -- cbn. auto.
        -- cbn. unfold opaque_json. rewrite ?En, ?Ez. auto.
      * cbn in Hd. inversion Hd; subst. cbn. unfold opaque_json. rewrite ?En. auto.
Qed.

(* ================================================================================================ *)
(* 4. hook laws: the finite check on the generated graph, and the coders                            *)
(* ================================================================================================ *)
Lemma hook_laws_ok_true : hook_laws_ok cfg_structs = true.
Proof. vm_compute. reflexivity. Qed.

Lemma table_ok_true : table_ok cfg_structs = true.
Proof. vm_compute. reflexivity. Qed.

(* metadata <-> filter_metadata["mosn.lb"]: printing, reloading and printing again gives the same *)

Lemma config_to_metadata_of_strings es : all_strings es ->
  flat_map (fun kv : string * val => match snd kv with VJson (JStr s) => [(fst kv, VStr s)] | _ => [] end) (map any_of_str es) = es.
Proof.
  induction 1 as [|[k x] es [s Hs] _ IH]; cbn; [reflexivity|]. cbn in Hs. subst x. cbn. rewrite IH. reflexivity.
Qed.

Lemma metadata_coder_law r es : all_strings es ->
  call_marshal_fn "metadataToConfig" (call_unmarshal_fn "configToMetadata" (call_marshal_fn "metadataToConfig" (VRef r es)))
  = call_marshal_fn "metadataToConfig" (VRef r es).
Proof.
  intros H. destruct es as [|e es]; [reflexivity|].
  change (call_marshal_fn "metadataToConfig" (VRef r (e :: es))) with (VRef 0 [("", VStruct [VStruct [VRef 0 (map any_of_str (e :: es))]])]).
  change (call_unmarshal_fn "configToMetadata" (VRef 0 [("", VStruct [VStruct [VRef 0 (map any_of_str (e :: es))]])]))
    with (VRef 0 (flat_map (fun kv : string * val => match snd kv with VJson (JStr s) => [(fst kv, VStr s)] | _ => [] end) (map any_of_str (e :: es)))).
  rewrite (config_to_metadata_of_strings (e :: es) H). reflexivity.
Qed.

Lemma metadata_coder_law_nil :
  call_marshal_fn "metadataToConfig" (call_unmarshal_fn "configToMetadata" (call_marshal_fn "metadataToConfig" VNil))
  = call_marshal_fn "metadataToConfig" VNil.
Proof. reflexivity. Qed.

(* non-vacuity: a well-formed value of the fragment, its dump, the reload, the second dump *)
Definition w_dns : val :=
  VStruct [VRef 1 [("", VStr "10.0.0.1"); ("", VStr "10.0.0.2")]; VRef 2 []; VStr "53"; VInt 2; VInt 0; VInt 3].
Lemma witness_roundtrip :
  wf cfg_structs (TNamed "v2.DnsResolverConfig") w_dns = true /\
  ty_ptr_ok (TNamed "v2.DnsResolverConfig") = true /\
  fuel_free (encode cfg_structs 8 (TNamed "v2.DnsResolverConfig") w_dns) = true /\
  exists v', decode cfg_structs 8 (TNamed "v2.DnsResolverConfig") (encode cfg_structs 8 (TNamed "v2.DnsResolverConfig") w_dns) = Some v' /\
             val_eqb v' w_dns = false /\     (* the reloaded value differs: the empty `search` list became nil *)
             encode cfg_structs 8 (TNamed "v2.DnsResolverConfig") v' = encode cfg_structs 8 (TNamed "v2.DnsResolverConfig") w_dns.
Proof.
  split; [vm_compute; reflexivity|].
  split; [vm_compute; reflexivity|].
  split; [vm_compute; reflexivity|].
  eexists. split; [vm_compute; reflexivity|].
  split; vm_compute; reflexivity.
Qed.

(* ================================================================================================ *)
(* 5. path-mode file naming                                                                          *)
(* ================================================================================================ *)
Lemma file_name_canon max n : file_name max canon_ops n = (replace_sep (firstn_str max n) ++ ".json")%string.
Proof. reflexivity. Qed.

Lemma file_name_canon_json max n : exists p, file_name max canon_ops n = (p ++ ".json")%string.
Proof. eexists. apply file_name_canon. Qed.

Lemma str_app_length a b : String.length (a ++ b)%string = (String.length a + String.length b)%nat.
Proof. induction a as [|c a IH]; cbn; [reflexivity|]. now rewrite IH. Qed.

Lemma str_app_inv_tail s : forall a b, (a ++ s)%string = (b ++ s)%string -> a = b.
Proof.
  induction a as [|c a IH]; intros b H; destruct b as [|d b]; cbn in H; try reflexivity.
  - exfalso. apply (f_equal String.length) in H. cbn in H. rewrite str_app_length in H. lia.
  - exfalso. apply (f_equal String.length) in H. cbn in H. rewrite str_app_length in H. lia.
  - inversion H; subst. f_equal. apply IH. assumption.
Qed.

Lemma firstn_str_length max s : (String.length (firstn_str max s) <= max)%nat.
Proof. revert s. induction max as [|m IH]; intros s; destruct s; cbn; try lia. specialize (IH s). lia. Qed.
Lemma replace_sep_length s : String.length (replace_sep s) = String.length s.
Proof. induction s; cbn; congruence. Qed.

Lemma file_name_canon_length max n : (String.length (file_name max canon_ops n) <= max + 5)%nat.
Proof. rewrite file_name_canon, str_app_length, replace_sep_length. pose proof (firstn_str_length max n). cbn. lia. Qed.

(* exactly when two names are kept in the same file *)
Lemma file_name_collide_iff max a b :
  file_name max canon_ops a = file_name max canon_ops b <-> replace_sep (firstn_str max a) = replace_sep (firstn_str max b).
Proof.
  rewrite !file_name_canon. split; [apply str_app_inv_tail|intros ->; reflexivity].
Qed.

Lemma firstn_str_all max s : (String.length s <= max)%nat -> firstn_str max s = s.
Proof. revert s. induction max as [|m IH]; intros s H; destruct s; cbn in *; try reflexivity; try lia. f_equal. apply IH. lia. Qed.
Lemma replace_sep_id s : has_sep s = false -> replace_sep s = s.
Proof.
  induction s as [|c s IH]; cbn; [reflexivity|]. intros H. apply orb_false_iff in H. destruct H as [Hc Hs].
  rewrite Hc. f_equal. apply IH. exact Hs.
Qed.

(* injective on names of at most max bytes without a path separator *)
Lemma file_name_injective_short max a b :
  (String.length a <= max)%nat -> (String.length b <= max)%nat -> has_sep a = false -> has_sep b = false ->
  file_name max canon_ops a = file_name max canon_ops b -> a = b.
Proof.
  intros Ha Hb Hsa Hsb H. apply file_name_collide_iff in H.
  rewrite !firstn_str_all, !replace_sep_id in H by assumption. exact H.
Qed.

(* not injective in general: same first max bytes; '/' against '_' (the listed finding) *)
Lemma file_name_not_injective :
  (exists a b, a <> b /\ file_name 128 canon_ops a = file_name 128 canon_ops b /\ String.length a = 130%nat) /\
  (exists a b, a <> b /\ file_name 128 canon_ops a = file_name 128 canon_ops b /\ String.length a = 3%nat).
Proof.
  split.
  - exists (repeat_char "p"%char 128 ++ "-A")%string, (repeat_char "p"%char 128 ++ "-B")%string.
    split; [intros H; apply (f_equal (fun s => substring 129 1 s)) in H; vm_compute in H; discriminate|].
    split; vm_compute; reflexivity.
  - exists "a/b", "a_b". split; [discriminate|]. split; vm_compute; reflexivity.
Qed.

(* the shape "append the extension, then truncate" loses the extension of a 124-byte name: the loader skips the file *)
Lemma file_name_append_first_refuted :
  loader_accepts (file_name 128 [FReplaceSep; FAppendJson; FTrunc] (repeat_char "a"%char 123)) = true /\
  loader_accepts (file_name 128 [FReplaceSep; FAppendJson; FTrunc] (repeat_char "a"%char 124)) = false /\
  loader_accepts (file_name 128 canon_ops (repeat_char "a"%char 124)) = true /\
  loader_accepts (file_name 128 canon_ops (repeat_char "a"%char 200)) = true.
Proof. repeat split; vm_compute; reflexivity. Qed.

Lemma src_file_name_shape :
  src_fname_ops_cluster = canon_ops /\ src_fname_ops_router = canon_ops /\ src_max_file_path = 128%nat.
Proof. repeat split; reflexivity. Qed.

(* ================================================================================================ *)
(* the directory of a path-mode container: what is written is what is read back                     *)
(* ================================================================================================ *)
From Coq Require Import Permutation.

Lemma loader_accepts_json p : loader_accepts (p ++ ".json")%string = true.
Proof.
  unfold loader_accepts. rewrite str_app_length. cbn [String.length].
  replace (String.length p + 5 - 5)%nat with (String.length p) by lia.
  induction p as [|c p IH]; [reflexivity|]. cbn [String.length append substring]. exact IH.
Qed.

Lemma loader_accepts_canon max n : loader_accepts (file_name max canon_ops n) = true.
Proof. destruct (file_name_canon_json max n) as [p ->]. apply loader_accepts_json. Qed.

Definition dkeys (d : dir) : list string := map fst d.

Lemma NoDup_map_filter {X Y} (g : X -> Y) (f : X -> bool) l : NoDup (map g l) -> NoDup (map g (filter f l)).
Proof.
  induction l as [|a l IH]; cbn; [auto|]. intros H. inversion H as [|? ? Hn Hd]; subst.
  destruct (f a); cbn; [|apply IH; exact Hd].
  constructor; [|apply IH; exact Hd].
  intros Hin. apply Hn. apply in_map_iff in Hin. destruct Hin as [x [Hx Hin]]. apply filter_In in Hin.
  apply in_map_iff. exists x. tauto.
Qed.

Lemma filter_all {X} (f : X -> bool) l : (forall x, In x l -> f x = true) -> filter f l = l.
Proof.
  induction l as [|a l IH]; cbn; [reflexivity|]. intros H. rewrite (H a (or_introl eq_refl)). f_equal.
  apply IH. intros x Hx. apply H. right. exact Hx.
Qed.

Lemma dget_dput_same k x d : dget k (dput k x d) = Some x.
Proof. unfold dput. cbn. rewrite String.eqb_refl. reflexivity. Qed.

Lemma dget_filter_ne k k' d : k' <> k -> dget k' (filter (fun kv => negb (String.eqb (fst kv) k)) d) = dget k' d.
Proof.
  intros H. induction d as [|[a x] d IH]; cbn; [reflexivity|].
  destruct (String.eqb a k) eqn:E; cbn.
  - apply String.eqb_eq in E. subst a. rewrite IH.
    destruct (String.eqb k k') eqn:E2; [apply String.eqb_eq in E2; congruence|reflexivity].
  - rewrite IH. reflexivity.
Qed.

Lemma dget_dput_other k k' x d : k' <> k -> dget k' (dput k x d) = dget k' d.
Proof.
  intros H. unfold dput. cbn. destruct (String.eqb k k') eqn:E; [apply String.eqb_eq in E; congruence|].
  apply dget_filter_ne. exact H.
Qed.

Lemma dput_nodup k x d : NoDup (dkeys d) -> NoDup (dkeys (dput k x d)).
Proof.
  intros H. unfold dput, dkeys. cbn. constructor.
  - intros Hin. apply in_map_iff in Hin. destruct Hin as [[a y] [Ha Hin]]. apply filter_In in Hin. destruct Hin as [_ Hf].
    cbn in *. subst a. rewrite String.eqb_refl in Hf. discriminate.
  - apply NoDup_map_filter. exact H.
Qed.

Lemma dget_in d : NoDup (dkeys d) -> forall k x, In (k, x) d <-> dget k d = Some x.
Proof.
  induction d as [|[a y] d IH]; intros H k x; cbn.
  - split; [contradiction|discriminate].
  - inversion H as [|? ? Hn Hd]; subst. split.
    + intros [E|Hin].
      * inversion E; subst. rewrite String.eqb_refl. reflexivity.
      * destruct (String.eqb a k) eqn:E.
        -- apply String.eqb_eq in E. subst a. exfalso. apply Hn. apply in_map_iff. exists (k, x). split; [reflexivity|exact Hin].
        -- apply IH; assumption.
    + destruct (String.eqb a k) eqn:E.
      * apply String.eqb_eq in E. subst a. intros E2. inversion E2; subst. left. reflexivity.
      * intros Hg. right. apply IH; assumption.
Qed.

Section PathDir.
Context {A : Type} (fn : A -> string) (enc : A -> json).

Lemma written_nodup items : forall d, NoDup (dkeys d) -> NoDup (dkeys (path_written fn enc d items)).
Proof.
  induction items as [|a items IH]; intros d H; cbn; [exact H|]. apply IH. apply dput_nodup. exact H.
Qed.

Lemma written_other items : forall d k, ~ In k (map fn items) -> dget k (path_written fn enc d items) = dget k d.
Proof.
  induction items as [|a items IH]; intros d k H; [reflexivity|].
  change (path_written fn enc d (a :: items)) with (path_written fn enc (dput (fn a) (enc a) d) items).
  cbn in H. rewrite IH by tauto. apply dget_dput_other. intros E. apply H. left. symmetry. exact E.
Qed.

Lemma written_get items : NoDup (map fn items) -> forall d it, In it items ->
  dget (fn it) (path_written fn enc d items) = Some (enc it).
Proof.
  induction items as [|a items IH]; intros H d it Hin; [contradiction|].
  cbn in H. inversion H as [|? ? Hn Hd]; subst.
  change (path_written fn enc d (a :: items)) with (path_written fn enc (dput (fn a) (enc a) d) items).
  destruct Hin as [E|Hin].
  - subst a. rewrite written_other by exact Hn. apply dget_dput_same.
  - apply IH; assumption.
Qed.

(* the directory after the write holds exactly one file per item - the stale files are gone - when no two items share
   a file name *)
Theorem path_write_in d items : NoDup (dkeys d) -> NoDup (map fn items) ->
  forall k x, In (k, x) (path_write fn enc d items) <-> exists it, In it items /\ k = fn it /\ x = enc it.
Proof.
  intros Hd Hi k x. unfold path_write. rewrite filter_In. cbn [fst].
  pose proof (written_nodup items d Hd) as HW. split.
  - intros [Hin Hex]. apply existsb_exists in Hex. destruct Hex as [k0 [Hk0 E]]. apply String.eqb_eq in E. subst k0.
    apply in_map_iff in Hk0. destruct Hk0 as [it [E Hit]]. exists it. split; [exact Hit|]. split; [symmetry; exact E|].
    apply (dget_in _ HW) in Hin. rewrite <- E in Hin. rewrite (written_get items Hi d it Hit) in Hin. congruence.
  - intros [it [Hit [-> ->]]]. split.
    + apply (dget_in _ HW). apply written_get; assumption.
    + apply existsb_exists. exists (fn it). split; [apply in_map; exact Hit|apply String.eqb_refl].
Qed.

Theorem path_write_perm d items : NoDup (dkeys d) -> NoDup (map fn items) ->
  Permutation (path_write fn enc d items) (map (fun it => (fn it, enc it)) items).
Proof.
  intros Hd Hi. apply NoDup_Permutation.
  - apply (NoDup_map_inv fst). unfold path_write. apply NoDup_map_filter. apply written_nodup. exact Hd.
  - apply (NoDup_map_inv fst). rewrite map_map. cbn. exact Hi.
  - intros [k x]. rewrite (path_write_in d items Hd Hi). rewrite in_map_iff. split.
    + intros [it [H1 [H2 H3]]]. exists it. subst. tauto.
    + intros [it [E H]]. inversion E; subst. exists it. tauto.
Qed.

Lemma dins_perm e l : Permutation (dins e l) (e :: l).
Proof.
  induction l as [|e' l IH]; cbn; [apply Permutation_refl|].
  destruct (String.compare (fst e) (fst e')); try apply Permutation_refl.
  eapply Permutation_trans; [apply perm_skip; exact IH|apply perm_swap].
Qed.

Lemma listing_perm d : Permutation (listing d) d.
Proof.
  induction d as [|e d IH]; cbn; [apply Permutation_refl|].
  eapply Permutation_trans; [apply dins_perm|apply perm_skip; exact IH].
Qed.

Lemma sequence_map_some {X Y} (f : X -> option Y) (g : X -> Y) l :
  (forall x, In x l -> f x = Some (g x)) -> sequence (map f l) = Some (map g l).
Proof.
  induction l as [|a l IH]; intros H; cbn; [reflexivity|].
  rewrite (H a (or_introl eq_refl)). cbn. rewrite IH; [reflexivity|]. intros x Hx. apply H. right. exact Hx.
Qed.

(* WRITE THEN READ.  For every starting directory (any stale files), every list of items no two of which share a file
   name, whose file names the loader accepts and whose documents decode: reading the directory back yields exactly the
   decoded items, up to the order of the listing (ReadDir sorts by file name) *)
Definition reloaded (dec : json -> option A) (it : A) : A := match dec (enc it) with Some v => v | None => it end.

Theorem path_read_back (accepts : string -> bool) (dec : json -> option A) d items :
  NoDup (dkeys d) -> NoDup (map fn items) ->
  (forall it, In it items -> accepts (fn it) = true) ->
  (forall it, In it items -> exists v', dec (enc it) = Some v') ->
  exists l, path_read accepts dec (path_write fn enc d items) = Some l /\ Permutation l (map (reloaded dec) items).
Proof.
  intros Hd Hi Hacc Hdec.
  destruct items as [|a0 items0] eqn:Eitems.
  - exists []. split; [|apply Permutation_refl]. unfold path_read, path_write. cbn [map existsb].
    replace (filter (fun _ : string * json => false) (path_written fn enc d [])) with (@nil (string * json)); [reflexivity|].
    generalize (path_written fn enc d []). intros l. induction l as [|x l IH]; cbn; [reflexivity|exact IH].
  - rewrite <- Eitems in *. clear Eitems items0.
    set (D := path_write fn enc d items).
    set (g := fun kv : string * json => match dec (snd kv) with Some v => v | None => a0 end).
    assert (HD : forall kv, In kv D -> exists it, In it items /\ kv = (fn it, enc it)).
    { intros [k x] Hin. apply (path_write_in d items Hd Hi) in Hin. destruct Hin as [it [H1 [H2 H3]]]. exists it. subst. tauto. }
    assert (HL : forall kv, In kv (listing D) -> In kv D) by (intros kv; apply Permutation_in; apply listing_perm).
    assert (Hall : filter (fun kv => accepts (fst kv)) (listing D) = listing D).
    { apply filter_all. intros kv Hin. destruct (HD kv (HL kv Hin)) as [it [Hit ->]]. cbn. apply Hacc. exact Hit. }
    exists (map g (listing D)). split.
    + unfold path_read. fold D. rewrite Hall. apply sequence_map_some.
      intros kv Hin. destruct (HD kv (HL kv Hin)) as [it [Hit ->]]. unfold g. cbn.
      destruct (Hdec it Hit) as [v' Hv]. rewrite Hv. reflexivity.
    + eapply Permutation_trans; [apply Permutation_map; apply listing_perm|].
      eapply Permutation_trans; [apply Permutation_map; apply (path_write_perm d items Hd Hi)|].
      rewrite map_map. rewrite (map_ext_in _ (reloaded dec)); [apply Permutation_refl|].
      intros it Hit. unfold g, reloaded. cbn. destruct (Hdec it Hit) as [v' Hv]. rewrite Hv. reflexivity.
Qed.

(* items that are their own reload come back as they are *)
Corollary path_roundtrip (accepts : string -> bool) (dec : json -> option A) d items :
  NoDup (dkeys d) -> NoDup (map fn items) ->
  (forall it, In it items -> accepts (fn it) = true) ->
  (forall it, In it items -> dec (enc it) = Some it) ->
  exists l, path_read accepts dec (path_write fn enc d items) = Some l /\ Permutation l items.
Proof.
  intros Hd Hi Hacc Hdec.
  destruct (path_read_back accepts dec d items Hd Hi Hacc) as [l [Hr Hp]].
  - intros it Hit. exists it. apply Hdec. exact Hit.
  - exists l. split; [exact Hr|]. rewrite (map_ext_in _ (fun it => it)) in Hp; [rewrite map_id in Hp; exact Hp|].
    intros it Hit. unfold reloaded. rewrite (Hdec it Hit). reflexivity.
Qed.

(* DUMP, LOAD, DUMP.  Items whose reload prints as they do and keeps their name: writing the reloaded items - into any
   directory - gives the directory of the first write *)
Theorem path_redump (accepts : string -> bool) (dec : json -> option A) d items :
  NoDup (dkeys d) -> NoDup (map fn items) ->
  (forall it, In it items -> accepts (fn it) = true) ->
  (forall it, In it items -> exists v', dec (enc it) = Some v' /\ enc v' = enc it /\ fn v' = fn it) ->
  exists l, path_read accepts dec (path_write fn enc d items) = Some l /\ List.length l = List.length items /\
    forall d', NoDup (dkeys d') -> Permutation (path_write fn enc d' l) (path_write fn enc d items).
Proof.
  intros Hd Hi Hacc Hdec.
  destruct (path_read_back accepts dec d items Hd Hi Hacc) as [l [Hr Hp]].
  - intros it Hit. destruct (Hdec it Hit) as [v' [H _]]. exists v'. exact H.
  - assert (Hpair : map (fun it => (fn it, enc it)) (map (reloaded dec) items) = map (fun it => (fn it, enc it)) items).
    { rewrite map_map. apply map_ext_in. intros it Hit. unfold reloaded. destruct (Hdec it Hit) as [v' [H [H1 H2]]].
      rewrite H, H1, H2. reflexivity. }
    exists l. split; [exact Hr|]. split.
    + rewrite (Permutation_length Hp). apply map_length.
    + intros d' Hd'.
      assert (Hl : NoDup (map fn l)).
      { eapply Permutation_NoDup; [apply Permutation_sym; apply Permutation_map; exact Hp|].
        replace (map fn (map (reloaded dec) items)) with (map fn items); [exact Hi|].
        apply (f_equal (map fst)) in Hpair. rewrite !map_map in Hpair. cbn in Hpair. rewrite map_map. symmetry. exact Hpair. }
      eapply Permutation_trans; [apply (path_write_perm d' l Hd' Hl)|].
      eapply Permutation_trans; [apply Permutation_map; exact Hp|].
      rewrite Hpair. apply Permutation_sym. apply path_write_perm; assumption.
Qed.
End PathDir.

(* and with a shared file name the earlier item is gone: the second file replaces the first (the listed finding) *)
Lemma path_collision_loses (a b : string) :
  a <> b -> file_name 128 canon_ops a = file_name 128 canon_ops b ->
  map fst (path_write (file_name 128 canon_ops) (fun n => JStr n) [] [a; b]) = [file_name 128 canon_ops b] /\
  map snd (path_write (file_name 128 canon_ops) (fun n => JStr n) [] [a; b]) = [JStr b].
Proof.
  intros Hab E. unfold path_write, path_written. cbn [fold_left map]. unfold dput. cbn [filter].
  rewrite E. rewrite String.eqb_refl. cbn [negb filter fst existsb]. rewrite String.eqb_refl. cbn. split; reflexivity.
Qed.
