(* Proofs/FlowOpen.v (group h2): with newStream, the HEADERS write and the registration in ONE critical section,
   for EVERY number of opener threads, EVERY reader script and EVERY schedule of the micro-steps, every stream's send
   window is (acknowledged initial window) - sent + (granted increments) and no DATA exceeds the acknowledged credit.
   With cc.mu released between newStream and the registration this is false (the seed's schedule). *)
From Coq Require Import List ZArith Lia Bool.
From Coq Require Import ZifyBool.
From MV Require Import Lib.Interleave Model.FlowOpen.
Import ListNotations.
Open Scope Z_scope.

Definition sh_ok (sh : oshared) : Prop := Forall (os_ok (sh_init sh)) (sh_streams sh).

Lemma Forall_upd : forall (P : ostream -> Prop) sid f l,
  Forall P l -> (forall s, P s -> os_id s = sid -> P (f s)) -> Forall P (upd sid f l).
Proof.
  intros P sid f l H Hf. unfold upd. induction H as [|s l Hs Hl IH]; cbn [map]; constructor; [|exact IH].
  destruct (os_id s =? sid) eqn:E; [apply Hf; [exact Hs | lia] | exact Hs].
Qed.

Lemma win_of_ok : forall sid l init, Forall (os_ok init) l ->
  win_of sid l = 0 \/ exists s, In s l /\ os_id s = sid /\ win_of sid l = os_win s.
Proof.
  intros sid l init H. unfold win_of. destruct (find (fun s => os_id s =? sid) l) as [s|] eqn:E; [|left; reflexivity].
  right. apply find_some in E as [Hin Hid]. exists s. repeat split; [exact Hin | lia].
Qed.

(* one micro-step of any thread keeps the invariant *)
Lemma ostep_ok : forall t sh, sh_ok sh -> sh_ok (snd (ostep true t sh)).
Proof.
  intros t sh H. unfold sh_ok in *. destruct t as [sid pc rem | script].
  - destruct pc as [|[|[|pc]]]; cbn [ostep snd sh_init sh_streams].
    + apply Forall_app. split; [exact H|]. constructor; [|constructor]. unfold os_ok. cbn. repeat split; lia.
    + apply Forall_upd; [exact H|]. intros s [H1 [H2 [H3 H4]]] _. unfold os_ok. cbn. auto.
    + apply Forall_upd; [exact H|]. intros s [H1 [H2 [H3 H4]]] _. unfold os_ok. cbn. auto.
    + set (take := Z.min (win_of sid (sh_streams sh)) rem).
      destruct (0 <? take) eqn:Et; cbn [snd sh_init sh_streams]; [|exact H].
      apply Forall_upd; [exact H|]. intros s [H1 [H2 [H3 H4]]] _.
      destruct (take <=? os_win s) eqn:Ew; [|unfold os_ok; auto].
      unfold os_ok. cbn [os_hdr os_reg os_win os_sent os_wu os_over]. rewrite H4. cbn [orb].
      repeat split; try assumption; lia.
  - destruct script as [|[v | sid inc] r]; cbn [ostep snd sh_init sh_streams]; [exact H | |].
    + apply Forall_forall. intros s' Hin. apply in_map_iff in Hin as [s [Es Hs]].
      rewrite Forall_forall in H. destruct (H s Hs) as [H1 [H2 [H3 H4]]]. rewrite H2 in Es. subst s'.
      unfold os_ok. cbn. repeat split; try assumption; lia.
    + destruct (has_hdr sid (sh_streams sh)); cbn [snd sh_init sh_streams]; [|exact H].
      apply Forall_upd; [exact H|]. intros s [H1 [H2 [H3 H4]]] _. rewrite H2.
      unfold os_ok. cbn. repeat split; try assumption; lia.
Qed.

Lemma sched_step_ok : forall c k, sh_ok (snd c) -> sh_ok (snd (sched_step (ostep true) c k)).
Proof.
  intros c k H. unfold sched_step. destruct (nth_error (fst c) k); [cbn [snd]; apply ostep_ok; exact H | exact H].
Qed.

(* c18 (stream open vs SETTINGS / WINDOW_UPDATE): every schedule *)
Theorem open_atomic_safe : forall threads init sched,
  let c := orun true sched (threads, mkSh init []) in
  Forall (os_ok (sh_init (snd c))) (sh_streams (snd c)).
Proof.
  intros threads init sched. cbv zeta. unfold orun.
  apply (run_invariant (ostep true) (fun c => sh_ok (snd c))).
  - intros c k Hc. apply sched_step_ok. exact Hc.
  - constructor.
Qed.

(* with cc.mu released between newStream and the registration: the seed's schedule *)
Definition split_witness_threads : list othread := [TOpen 1 0 1000; TReader [PSettings 10]].
Definition split_witness_sched : list nat := [0; 1; 0; 0; 0]%nat.   (* newStream; SETTINGS 10 processed + acked; HEADERS; register; send *)

Lemma open_split_refuted :
  let c := orun false split_witness_sched (split_witness_threads, mkSh 65535 []) in
  sh_init (snd c) = 10 /\ map (fun s => (os_sent s, os_win s, os_over s)) (sh_streams (snd c)) = [(1000, 64535, true)] /\
  forallb (os_okb (sh_init (snd c))) (sh_streams (snd c)) = false /\
  (* the same schedule with the single critical section: nothing is sent beyond the 10 bytes *)
  map (fun s => (os_sent s, os_win s, os_over s)) (sh_streams (snd (orun true split_witness_sched (split_witness_threads, mkSh 65535 [])))) = [(10, 0, false)].
Proof. repeat split; vm_compute; reflexivity. Qed.

(* a WINDOW_UPDATE for a stream whose HEADERS are out but which is not registered yet is dropped *)
Lemma open_split_drops_window_update :
  let c := orun false [0; 0; 1; 0]%nat ([TOpen 1 0 0; TReader [PWinUpd 1 500]], mkSh 100 []) in
  map (fun s => (os_win s, os_wu s, os_reg s)) (sh_streams (snd c)) = [(100, 500, true)] /\
  forallb (os_okb (sh_init (snd c))) (sh_streams (snd c)) = false.
Proof. split; vm_compute; reflexivity. Qed.

Lemma os_okb_ok : forall init s, os_okb init s = true <-> os_ok init s.
Proof.
  intros init s. unfold os_okb, os_ok.
  destruct (os_hdr s), (os_reg s), (os_over s); cbn [andb negb]; split; intro H;
    try discriminate; try (destruct H as (? & ? & ? & ?); discriminate); try lia; try (repeat split; lia).
Qed.
