(* Proofs about Model/PoolInit.v: the state space of a connect path racing with its connection's close event is finite;
   its reachable set is computed, checked closed under the steps of both goroutines (vm_compute), and the property then
   holds after EVERY schedule (of any length) by Interleave.run_invariant. *)
From Coq Require Import List ZArith Bool Arith Lia.
From MV Require Import Lib.Interleave Model.PoolInit.
Import ListNotations.
Open Scope Z_scope.

Lemma instr_eqb_eq : forall a b, instr_eqb a b = true -> a = b.
Proof. destruct a, b; cbn; intros H; try discriminate; reflexivity. Qed.

Lemma leqb_eq : forall A (e : A -> A -> bool), (forall x y, e x y = true -> x = y) ->
  forall a b, leqb e a b = true -> a = b.
Proof.
  intros A e He. induction a as [|x a IH]; destruct b as [|y b]; cbn; intros H; try discriminate; [reflexivity|].
  apply andb_true_iff in H. destruct H as [H1 H2]. f_equal; [apply He; assumption|apply IH; assumption].
Qed.

Lemma ish_eqb_eq : forall a b, ish_eqb a b = true -> a = b.
Proof.
  intros [m1 d1 c1 s1 t1 f1] [m2 d2 c2 s2 t2 f2]. unfold ish_eqb. cbn. intros H.
  rewrite !andb_true_iff in H. destruct H as [[[[[A B] C] D] E] F].
  apply eqb_prop in A, B, C, F. apply Nat.eqb_eq in D. apply Z.eqb_eq in E. subst. reflexivity.
Qed.

Lemma icfg_eqb_eq : forall a b, icfg_eqb a b = true -> a = b.
Proof.
  intros [t1 s1] [t2 s2]. unfold icfg_eqb. cbn. intros H. apply andb_true_iff in H. destruct H as [H1 H2].
  f_equal; [|apply ish_eqb_eq; assumption].
  apply (leqb_eq _ (leqb instr_eqb)); [|assumption]. apply leqb_eq. apply instr_eqb_eq.
Qed.

Lemma imem_In : forall c l, imem c l = true -> In c l.
Proof.
  intros c l H. unfold imem in H. apply existsb_exists in H. destruct H as [d [H1 H2]].
  apply icfg_eqb_eq in H2. subst. assumption.
Qed.

(* a set that passes the check is closed under every scheduling step *)
Lemma iclosed_step : forall c0 R, iclosed_check c0 R = true ->
  In c0 R /\ forall c k, In c R -> In (sched_step istep c k) R.
Proof.
  intros c0 R H. unfold iclosed_check in H. apply andb_true_iff in H. destruct H as [H0 H].
  split; [apply imem_In; assumption|]. rewrite forallb_forall in H.
  intros c k Hc. specialize (H c Hc). apply andb_true_iff in H. destruct H as [Hlen Hs].
  apply Nat.eqb_eq in Hlen. unfold isucc in Hs. cbn [forallb] in Hs.
  apply andb_true_iff in Hs. destruct Hs as [S0 S1]. apply andb_true_iff in S1. destruct S1 as [S1 _].
  destruct k as [|[|k]]; [apply imem_In; assumption|apply imem_In; assumption|].
  (* no such thread: a stutter *)
  unfold sched_step. destruct (fst c) as [|a [|b [|x l]]] eqn:E; cbn in Hlen; try discriminate. destruct k; cbn; assumption.
Qed.

Theorem ireach_every_schedule : forall (good : icfg -> bool) c0,
  iclosed_check c0 (ireachable c0) = true -> forallb good (ireachable c0) = true ->
  forall sched, good (irun sched c0) = true.
Proof.
  intros good c0 Hc Hg sched. destruct (iclosed_step c0 _ Hc) as [H0 Hstep].
  rewrite forallb_forall in Hg. apply Hg. unfold irun.
  apply (run_invariant istep (fun c => In c (ireachable c0))); [intros c k; apply Hstep|assumption].
Qed.

(* multiplex init() with the dial inside the critical section *)
Theorem mx_init_locked_safe : forall sched, mx_init_good (irun sched (mx_init_cfg true)) = true.
Proof. apply ireach_every_schedule; vm_compute; reflexivity. Qed.

(* at quiescence: both goroutines finished => a stored client is open *)
Corollary mx_init_locked_quiescent : forall sched, let c := irun sched (mx_init_cfg true) in
  fst c = [[]; []] -> i_slot (snd c) = 2%nat -> i_closed (snd c) = false.
Proof.
  intros sched c Hq Hs. pose proof (mx_init_locked_safe sched) as H. fold c in H. unfold mx_init_good in H.
  rewrite Hq, Hs in H. cbn in H. destruct (i_closed (snd c)); [discriminate|reflexivity].
Qed.

Theorem pp_connect_books : forall count_locked sched, count_good (irun sched (pp_connect_cfg count_locked)) = true.
Proof. intros [|]; apply ireach_every_schedule; vm_compute; reflexivity. Qed.
Theorem http_connect_books : forall sched, count_good (irun sched http_connect_cfg) = true.
Proof. apply ireach_every_schedule; vm_compute; reflexivity. Qed.

(* the unlocked dial: a schedule stores a closed client as Connected for good *)
Theorem mx_init_unlocked_bad : exists sched, let c := irun sched (mx_init_cfg false) in
  fst c = [[]; []] /\ i_slot (snd c) = 2%nat /\ i_closed (snd c) = true.
Proof. exists [0;1;1;1;1;0;0;0]%nat. vm_compute. auto. Qed.

(* A counter / gauge that is incremented AFTER the dial (upstream_connection_active in every pool's newActiveClient; the
   ping-pong totalClientCount before its repair): the close event of a connection that the peer closes at once can be
   handled before the increment - the value is -1 for a moment.  At quiescence it is right (pp_connect_books). *)
Definition inc_after_dial_nonneg_statement : Prop :=
  forall sched, 0 <= i_total (snd (irun sched (pp_connect_cfg false))).
Theorem inc_after_dial_nonneg_refuted : ~ inc_after_dial_nonneg_statement.
Proof. intros H. specialize (H [0;0;0;1;1;1]%nat). vm_compute in H. apply H. reflexivity. Qed.
