(* Proofs/BoltEnc.v (codec) - C01 for bolt / boltv2: fast-path identity, independence of the read buffer,
   modify-then-encode round trip with consistent length fields, refusal of unrepresentable frames. *)
From Coq Require Import List NArith Lia ZifyBool ZifyNat ZifyN Bool.
From MV Require Import Lib.Bytes Lib.Dec Lib.Seg Model.CodecParams Model.HeaderKV Model.Bolt Proofs.HeaderKV Proofs.Bolt.
Import ListNotations.
Open Scope N_scope.

(* ---- what is known about a command that came out of Decode (and is preserved by the setters) ------- *)
Record cmd_wf (c : bolt_cmd) : Prop := {
  w_proto : b_proto c = l_proto (layout_of (b_v2 c) (b_resp c));
  w_type : if b_resp c then b_cmdtype c = bolt_CmdTypeResponse
           else b_cmdtype c = bolt_CmdTypeRequest \/ b_cmdtype c = bolt_CmdTypeRequestOneway;
  w_cmdcode : b_cmdcode c < 65536; w_ver : b_ver c < 256; w_reqid : b_reqid c < 4294967296; w_codec : b_codec c < 256;
  w_tail : b_tail c < (if b_resp c then 65536 else 4294967296);
  w_ver1 : b_ver1 c < 256; w_switch : b_switch c < 256;
  w_v1 : b_v2 c = false -> b_ver1 c = 0 /\ b_switch c = 0
}.

Lemma fld_bound b p : fld b p < 256 ^ (snd p - fst p) \/ snd p < fst p.
Proof.
  unfold fld. destruct (N.lt_ge_cases (snd p) (fst p)) as [H|H]; [now right|left].
  pose proof (be_decw_bound (sub b (fst p) (fst p + (snd p - fst p)))) as Hb.
  eapply N.lt_le_trans; [exact Hb|]. apply N.pow_le_mono_r; [discriminate|].
  unfold sub, blen. rewrite firstn_length. lia.
Qed.

Lemma bolt_pure_wf chk v2 resp ow b c n : bolt_pure chk (layout_of v2 resp) ow b = Ok (c, n) -> cmd_wf c.
Proof.
  intros H. unfold bolt_pure in H.
  destruct (blen b <? _); [discriminate|]. destruct (blen b <? _); [discriminate|]. cbv zeta in H.
  assert (F : forall p w, snd p - fst p = w -> fst p <= snd p -> fld b p < 256 ^ w).
  { intros p w <- Hle. destruct (fld_bound b p); [assumption|lia]. }
  destruct (fst (if 0 <? fld b (l_header (layout_of v2 resp)) then _ else _)); inversion H; subst; clear H;
    (constructor; cbn [b_proto b_v2 b_resp b_cmdtype b_cmdcode b_ver b_reqid b_codec b_tail b_ver1 b_switch];
     destruct v2, resp; cbn [layout_of l_v2 l_resp l_proto bolt_req bolt_resp boltv2_req boltv2_resp l_cmdcode l_ver l_reqid l_codec l_tail l_ver1 l_switch fld_opt];
     try reflexivity; try (destruct ow; auto; fail);
     try (apply (F _ 2); vm_compute; congruence); try (apply (F _ 1); vm_compute; congruence); try (apply (F _ 4); vm_compute; congruence);
     try (vm_compute; reflexivity); try (intros; split; reflexivity); try discriminate).
Qed.

Lemma own_pure_wf chk v2 b c n : own_pure chk v2 b = Ok (c, n) -> cmd_wf c.
Proof.
  unfold own_pure. destruct (_ <=? blen b); [|discriminate]. cbv zeta.
  destruct (_ =? bolt_CmdTypeRequest); [apply bolt_pure_wf|].
  destruct (_ =? bolt_CmdTypeRequestOneway); [apply bolt_pure_wf|].
  destruct (_ =? bolt_CmdTypeResponse); [apply bolt_pure_wf|discriminate].
Qed.
Lemma sw_pure_wf chk b c n : sw_pure chk b = Ok (c, n) -> cmd_wf c.
Proof. destruct b as [|x r]; cbn [sw_pure]; [|destruct (x =? 2)]; apply own_pure_wf. Qed.
Lemma sw2_pure_wf chk b c n : sw2_pure chk b = Ok (c, n) -> cmd_wf c.
Proof.
  destruct b as [|x r]; cbn [sw2_pure]; [apply own_pure_wf|].
  destruct (x =? bolt_ProtocolCode); [apply (sw_pure_wf chk (x :: r))|apply own_pure_wf].
Qed.

Lemma apply_op_wf c o : cmd_wf c -> cmd_wf (apply_op c o).
Proof.
  intros [H1 H2 H3 H4 H5 H6 H7 H8 H9 H10]. destruct o; cbn [apply_op].
  - unfold set_request_id. constructor; cbn; auto. apply N.mod_lt. discriminate.
  - unfold set_header. constructor; cbn; auto.
  - unfold del_header. destruct (kv_del k (b_kvs c)); constructor; cbn; auto.
  - unfold set_data. constructor; cbn; auto.
  - unfold rewrite_in_place. destruct (b_raw c) as [[raw|i j]|]; [destruct (negb (b_cchanged c) && _)| |]; constructor; cbn; auto.
Qed.
Lemma apply_ops_wf ops : forall c, cmd_wf c -> cmd_wf (fold_left apply_op ops c).
Proof. induction ops as [|o r IH]; intros c H; [exact H|]. cbn [fold_left]. apply IH, apply_op_wf, H. Qed.

(* ---- raw storage: a decoded command owns a private copy of exactly its frame bytes ------------------ *)
Lemma bolt_pure_raw chk L ow b c n : bolt_pure chk L ow b = Ok (c, n) ->
  b_raw c = Some (Private (sub b 0 n)) /\ b_hchanged c = false /\ b_cchanged c = false /\ b_v2 c = l_v2 L /\ b_resp c = l_resp L
  /\ b_reqid c = fld b (l_reqid L).
Proof.
  intros H. pose proof (bolt_pure_ok _ _ _ _ _ _ H) as [Hn _]. unfold bolt_pure in H. fold (frame_len L b) in H. rewrite <- Hn in H.
  destruct (blen b <? _); [discriminate|]. destruct (blen b <? n); [discriminate|]. cbv zeta in H.
  destruct (fst (if 0 <? fld b (l_header L) then _ else _)); inversion H; subst; cbn; repeat split; reflexivity.
Qed.

Lemma layout_of_flags v2 resp : l_v2 (layout_of v2 resp) = v2 /\ l_resp (layout_of v2 resp) = resp.
Proof. destruct v2, resp; split; reflexivity. Qed.

Lemma own_pure_raw chk v2 b c n : own_pure chk v2 b = Ok (c, n) ->
  b_raw c = Some (Private (sub b 0 n)) /\ b_hchanged c = false /\ b_cchanged c = false.
Proof.
  unfold own_pure. destruct (_ <=? blen b); [|discriminate]. cbv zeta.
  destruct (_ =? bolt_CmdTypeRequest); [intros H; apply bolt_pure_raw in H; tauto|].
  destruct (_ =? bolt_CmdTypeRequestOneway); [intros H; apply bolt_pure_raw in H; tauto|].
  destruct (_ =? bolt_CmdTypeResponse); [intros H; apply bolt_pure_raw in H; tauto|discriminate].
Qed.
Lemma sw_pure_raw chk b c n : sw_pure chk b = Ok (c, n) ->
  b_raw c = Some (Private (sub b 0 n)) /\ b_hchanged c = false /\ b_cchanged c = false.
Proof. destruct b as [|x r]; cbn [sw_pure]; [|destruct (x =? 2)]; apply own_pure_raw. Qed.
Lemma sw2_pure_raw chk b c n : sw2_pure chk b = Ok (c, n) ->
  b_raw c = Some (Private (sub b 0 n)) /\ b_hchanged c = false /\ b_cchanged c = false.
Proof.
  destruct b as [|x r]; cbn [sw2_pure]; [apply own_pure_raw|].
  destruct (x =? bolt_ProtocolCode); [apply (sw_pure_raw chk (x :: r))|apply own_pure_raw].
Qed.

(* ---- fast path ---------------------------------------------------------------------------------------
   Decode, SetRequestId(id), Encode: the received frame bytes with only the 4 id bytes replaced. *)
Definition reqid_off (c : bolt_cmd) : N := l_reqid_put (layout_of (b_v2 c) (b_resp c)).

Lemma fast_path_generic echk mem c raw id : b_raw c = Some (Private raw) -> b_hchanged c = false -> b_cchanged c = false ->
  exists c', bolt_encode_sw echk mem (set_request_id id c) = EncOk (patch raw (reqid_off c) (be_enc 4 (id mod 4294967296))) c'.
Proof.
  intros Hr Hh Hc. unfold bolt_encode_sw, set_request_id. cbn [upd b_raw b_hchanged b_cchanged b_v2 b_resp b_reqid].
  rewrite Hr, Hh, Hc. cbn [negb andb deref]. eexists. reflexivity.
Qed.

Theorem bolt_fast_path_identity : forall v c n id mem, res (bolt_decode v) = Ok (c, n) ->
  exists c', bolt_encode mem (set_request_id id c) =
             EncOk (patch (takeN n (vb v)) (reqid_off c) (be_enc 4 (id mod 4294967296))) c'.
Proof.
  intros v c n id mem H. unfold bolt_decode in H. rewrite sw_res in H. apply sw_pure_raw in H.
  destruct H as [Hr [Hh Hc]]. rewrite sub_0 in Hr. now apply fast_path_generic.
Qed.
Theorem boltv2_fast_path_identity : forall v c n id mem, res (boltv2_decode v) = Ok (c, n) ->
  exists c', bolt_encode mem (set_request_id id c) =
             EncOk (patch (takeN n (vb v)) (reqid_off c) (be_enc 4 (id mod 4294967296))) c'.
Proof.
  intros v c n id mem H. unfold boltv2_decode in H. rewrite sw2_res in H. apply sw2_pure_raw in H.
  destruct H as [Hr [Hh Hc]]. rewrite sub_0 in Hr. now apply fast_path_generic.
Qed.

(* by definition the patched frame is: the bytes before the id field, the new id, the bytes behind it *)
Lemma patch_spec b i p : patch b i p = takeN i b ++ p ++ dropN (i + blen p) b.
Proof. reflexivity. Qed.

(* ---- independence of the read buffer: the command holds no reference into it ---------------------------- *)
Definition raw_private (c : bolt_cmd) : Prop := match b_raw c with Some (Alias _ _) => False | _ => True end.
Lemma encode_mem_indep echk mem mem' c : raw_private c -> bolt_encode_sw echk mem c = bolt_encode_sw echk mem' c.
Proof. unfold raw_private, bolt_encode_sw. destruct (b_raw c) as [[r|i j]|]; [reflexivity|contradiction|reflexivity]. Qed.
Lemma apply_op_private c o : raw_private c -> raw_private (apply_op c o).
Proof.
  unfold raw_private. destruct o; cbn [apply_op]; try (intros H; exact H).
  - unfold del_header. destruct (kv_del k (b_kvs c)); intros H; exact H.
  - unfold rewrite_in_place. destruct (b_raw c) as [[raw|i j]|] eqn:E; [destruct (negb (b_cchanged c) && _)| |]; cbn; try rewrite E; auto.
Qed.
Lemma apply_ops_private ops : forall c, raw_private c -> raw_private (fold_left apply_op ops c).
Proof. induction ops as [|o r IH]; intros c H; [exact H|]. cbn [fold_left]. apply IH, apply_op_private, H. Qed.
Lemma raw_private_of r c : b_raw c = Some (Private r) -> raw_private c.
Proof. intros H. unfold raw_private. now rewrite H. Qed.

Theorem bolt_buffer_independence : forall v c n ops mem mem', res (bolt_decode v) = Ok (c, n) ->
  bolt_encode mem (fold_left apply_op ops c) = bolt_encode mem' (fold_left apply_op ops c).
Proof.
  intros v c n ops mem mem' H. unfold bolt_decode in H. rewrite sw_res in H. apply sw_pure_raw in H. destruct H as [Hr _].
  apply encode_mem_indep. apply apply_ops_private. eapply raw_private_of; eauto.
Qed.
Theorem boltv2_buffer_independence : forall v c n ops mem mem', res (boltv2_decode v) = Ok (c, n) ->
  bolt_encode mem (fold_left apply_op ops c) = bolt_encode mem' (fold_left apply_op ops c).
Proof.
  intros v c n ops mem mem' H. unfold boltv2_decode in H. rewrite sw2_res in H. apply sw2_pure_raw in H. destruct H as [Hr _].
  apply encode_mem_indep. apply apply_ops_private. eapply raw_private_of; eauto.
Qed.

(* ---- slow path: fields read back from the encoded fixed header ------------------------------------------ *)
Lemma be_enc2 x : be_enc 2 x = [x / 256 mod 256; x mod 256].
Proof. reflexivity. Qed.
Lemma be_enc4 x : be_enc 4 x = [x / 256 / 256 / 256 mod 256; x / 256 / 256 mod 256; x / 256 mod 256; x mod 256].
Proof. reflexivity. Qed.
Lemma be_decw_1 x : be_decw [x] = x mod 256.
Proof. unfold be_decw. cbn. lia. Qed.

Ltac norm_nat := repeat match goal with |- context [N.to_nat ?n] =>
  let v := eval vm_compute in (N.to_nat n) in change (N.to_nat n) with v end.
Ltac fld_fin :=
  match goal with
  | |- be_decw [?x] = _ => apply be_decw_1
  | |- be_decw [_; ?x mod 256] = _ => change (be_decw (be_enc 2 x) = x mod 256 ^ N.of_nat 2); apply be_decw_enc
  | |- be_decw [_; _; _; ?x mod 256] = _ => change (be_decw (be_enc 4 x) = x mod 256 ^ N.of_nat 4); apply be_decw_enc
  end.
Ltac fld_compute := unfold fld, sub; cbn [fst snd]; norm_nat; cbn [skipn firstn]; fld_fin.

Lemma meta_fields v2 resp c cl hl ctl rest :
  let L := layout_of v2 resp in
  let out := enc_meta L c cl hl ctl ++ rest in
  fld out (l_class L) = cl mod 65536 /\ fld out (l_header L) = hl mod 65536 /\ fld out (l_content L) = ctl mod 4294967296 /\
  fld out (l_cmdcode L) = b_cmdcode c mod 65536 /\ fld out (l_ver L) = b_ver c mod 256 /\
  fld out (l_reqid L) = b_reqid c mod 4294967296 /\ fld out (l_codec L) = b_codec c mod 256 /\
  fld out (l_tail L) = b_tail c mod (if resp then 65536 else 4294967296) /\
  fld_opt out (l_ver1 L) = (if v2 then b_ver1 c mod 256 else 0) /\ fld_opt out (l_switch L) = (if v2 then b_switch c mod 256 else 0) /\
  nth 0 out 0 = b_proto c /\
  nth (N.to_nat (if v2 then boltv2_cmdtype_idx else bolt_cmdtype_idx)) out 0 = b_cmdtype c /\
  blen (enc_meta L c cl hl ctl) = l_hlen L.
Proof.
  destruct v2, resp; cbv zeta; unfold enc_meta;
    cbn [layout_of l_v2 l_resp boltv2_resp boltv2_req bolt_resp bolt_req l_class l_header l_content l_cmdcode l_ver l_reqid l_codec l_tail l_ver1 l_switch l_hlen fld_opt];
    rewrite !be_enc2, !be_enc4; cbn [app];
    unfold boltv2_resp_classLen_lo, boltv2_resp_classLen_hi, boltv2_resp_headerLen_lo, boltv2_resp_headerLen_hi, boltv2_resp_contentLen_lo, boltv2_resp_contentLen_hi,
      boltv2_resp_CmdCode_lo, boltv2_resp_CmdCode_hi, boltv2_resp_Version_lo, boltv2_resp_Version_hi, boltv2_resp_RequestId_lo, boltv2_resp_RequestId_hi,
      boltv2_resp_Codec_lo, boltv2_resp_Codec_hi, boltv2_resp_ResponseStatus_lo, boltv2_resp_ResponseStatus_hi, boltv2_resp_Version1_lo, boltv2_resp_Version1_hi,
      boltv2_resp_SwitchCode_lo, boltv2_resp_SwitchCode_hi,
      boltv2_req_classLen_lo, boltv2_req_classLen_hi, boltv2_req_headerLen_lo, boltv2_req_headerLen_hi, boltv2_req_contentLen_lo, boltv2_req_contentLen_hi,
      boltv2_req_CmdCode_lo, boltv2_req_CmdCode_hi, boltv2_req_Version_lo, boltv2_req_Version_hi, boltv2_req_RequestId_lo, boltv2_req_RequestId_hi,
      boltv2_req_Codec_lo, boltv2_req_Codec_hi, boltv2_req_Timeout_lo, boltv2_req_Timeout_hi, boltv2_req_Version1_lo, boltv2_req_Version1_hi,
      boltv2_req_SwitchCode_lo, boltv2_req_SwitchCode_hi,
      bolt_resp_classLen_lo, bolt_resp_classLen_hi, bolt_resp_headerLen_lo, bolt_resp_headerLen_hi, bolt_resp_contentLen_lo, bolt_resp_contentLen_hi,
      bolt_resp_CmdCode_lo, bolt_resp_CmdCode_hi, bolt_resp_Version_lo, bolt_resp_Version_hi, bolt_resp_RequestId_lo, bolt_resp_RequestId_hi,
      bolt_resp_Codec_lo, bolt_resp_Codec_hi, bolt_resp_ResponseStatus_lo, bolt_resp_ResponseStatus_hi,
      bolt_req_classLen_lo, bolt_req_classLen_hi, bolt_req_headerLen_lo, bolt_req_headerLen_hi, bolt_req_contentLen_lo, bolt_req_contentLen_hi,
      bolt_req_CmdCode_lo, bolt_req_CmdCode_hi, bolt_req_Version_lo, bolt_req_Version_hi, bolt_req_RequestId_lo, bolt_req_RequestId_hi,
      bolt_req_Codec_lo, bolt_req_Codec_hi, bolt_req_Timeout_lo, bolt_req_Timeout_hi,
      boltv2_cmdtype_idx, bolt_cmdtype_idx, boltv2_ResponseHeaderLen, boltv2_RequestHeaderLen, bolt_ResponseHeaderLen, bolt_RequestHeaderLen;
    repeat split; try fld_compute; try reflexivity.
Qed.

(* the announced lengths are the true lengths exactly when they fit the fields *)
Definition fits (c : bolt_cmd) : bool :=
  (blen (b_class c) <=? 65535) && (hdr_enc_len (b_kvs c) <=? 65535) && (blen (b_content c) <=? 4294967295).

Lemma bolt_slow_refuses L c : fits c = false -> bolt_slow true L c = EncErr.
Proof.
  unfold fits, bolt_slow. intros H. cbn [andb].
  replace ((65535 <? blen (b_class c)) || (65535 <? hdr_enc_len (b_kvs c)) || (4294967295 <? blen (b_content c))) with true by lia.
  reflexivity.
Qed.

Lemma sub_tail (a m : bytes) : sub (a ++ m) (blen a) (blen (a ++ m)) = m.
Proof.
  rewrite sub_as_take_drop, dropN_app_exact, blen_app.
  replace (blen a + blen m - blen a) with (blen m) by lia. apply takeN_all.
Qed.

Lemma blen_0_nil (b : bytes) : blen b = 0 -> b = [].
Proof. destruct b; [reflexivity|]. unfold blen. cbn. lia. Qed.

Lemma bolt_slow_out c : fits c = true ->
  exists c', bolt_slow true (layout_of (b_v2 c) (b_resp c)) c =
    EncOk (enc_meta (layout_of (b_v2 c) (b_resp c)) c (blen (b_class c)) (hdr_enc_len (b_kvs c)) (blen (b_content c))
           ++ b_class c ++ hdr_encode (b_kvs c) ++ b_content c) c'
    /\ b_classlen c' = blen (b_class c) /\ b_headerlen c' = hdr_enc_len (b_kvs c) /\ b_contentlen c' = blen (b_content c).
Proof.
  unfold fits, bolt_slow. intros H. cbn [andb].
  replace ((65535 <? blen (b_class c)) || (65535 <? hdr_enc_len (b_kvs c)) || (4294967295 <? blen (b_content c))) with false by lia.
  cbv zeta. rewrite !N.mod_small by lia.
  assert (Hc : (if 0 <? blen (b_class c) then b_class c else []) = b_class c).
  { destruct (0 <? blen (b_class c)) eqn:E; [reflexivity|]. symmetry. apply blen_0_nil. lia. }
  assert (Hh : (if 0 <? hdr_enc_len (b_kvs c) then hdr_encode (b_kvs c) else []) = hdr_encode (b_kvs c)).
  { destruct (0 <? hdr_enc_len (b_kvs c)) eqn:E; [reflexivity|]. symmetry. apply blen_0_nil. rewrite hdr_encode_length. lia. }
  assert (Hb : (if 0 <? blen (b_content c) then b_content c else []) = b_content c).
  { destruct (0 <? blen (b_content c)) eqn:E; [reflexivity|]. symmetry. apply blen_0_nil. lia. }
  rewrite Hc, Hh, Hb.
  eexists. split; [reflexivity|]. cbn. repeat split; reflexivity.
Qed.

(* decoding the slow-path output of a well-formed command gives back exactly its content *)
Lemma decode_slow_out c : cmd_wf c -> fits c = true ->
  let L := layout_of (b_v2 c) (b_resp c) in
  let out := enc_meta L c (blen (b_class c)) (hdr_enc_len (b_kvs c)) (blen (b_content c)) ++ b_class c ++ hdr_encode (b_kvs c) ++ b_content c in
  exists d, sw_pure true out = Ok (d, blen out) /\ b_herr d = false /\
    b_class d = b_class c /\ b_kvs d = b_kvs c /\ b_content d = b_content c /\
    b_classlen d = blen (b_class c) /\ b_headerlen d = hdr_enc_len (b_kvs c) /\ b_contentlen d = blen (b_content c) /\
    b_reqid d = b_reqid c /\ b_cmdcode d = b_cmdcode c /\ b_ver d = b_ver c /\ b_codec d = b_codec c /\ b_tail d = b_tail c /\
    b_ver1 d = b_ver1 c /\ b_switch d = b_switch c /\ b_cmdtype d = b_cmdtype c /\ b_proto d = b_proto c /\
    b_v2 d = b_v2 c /\ b_resp d = b_resp c.
Proof.
  intros W Hfit. cbv zeta.
  set (v2 := b_v2 c). set (resp := b_resp c). set (L := layout_of v2 resp).
  set (cl := blen (b_class c)). set (hl := hdr_enc_len (b_kvs c)). set (ctl := blen (b_content c)).
  set (rest := b_class c ++ hdr_encode (b_kvs c) ++ b_content c).
  set (out := enc_meta L c cl hl ctl ++ rest).
  pose proof (meta_fields v2 resp c cl hl ctl rest) as MF. cbv zeta in MF. fold L in MF. fold out in MF.
  destruct MF as [F1 [F2 [F3 [F4 [F5 [F6 [F7 [F8 [F9 [F10 [F11 [F12 F13]]]]]]]]]]]].
  destruct W as [W1 W2 W3 W4 W5 W6 W7 W8 W9 W10]. fold v2 resp in W1, W2, W7, W10.
  unfold fits in Hfit. fold cl hl ctl in Hfit.
  rewrite N.mod_small in F1, F2, F3 by (clear - Hfit; lia). rewrite N.mod_small in F4, F5, F6, F7 by (clear - W3 W4 W5 W6; lia).
  assert (F8' : fld out (l_tail L) = b_tail c) by (rewrite F8; apply N.mod_small; exact W7).
  assert (F9' : fld_opt out (l_ver1 L) = b_ver1 c).
  { rewrite F9. destruct v2 eqn:Ev; [apply N.mod_small; lia|]. destruct (W10 eq_refl) as [-> _]. reflexivity. }
  assert (F10' : fld_opt out (l_switch L) = b_switch c).
  { rewrite F10. destruct v2 eqn:Ev; [apply N.mod_small; lia|]. destruct (W10 eq_refl) as [_ ->]. reflexivity. }
  assert (Hlen : blen out = l_hlen L + cl + hl + ctl).
  { unfold out, rest. rewrite !blen_app, F13, hdr_encode_length. fold cl hl ctl. lia. }
  (* the frame decoder on out with the layout L *)
  assert (HP : forall ow, (if resp then True else ow = (b_cmdtype c =? bolt_CmdTypeRequestOneway)) ->
     exists d, bolt_pure true L ow out = Ok (d, blen out) /\ b_herr d = false /\
      b_class d = b_class c /\ b_kvs d = b_kvs c /\ b_content d = b_content c /\
      b_classlen d = cl /\ b_headerlen d = hl /\ b_contentlen d = ctl /\
      b_reqid d = b_reqid c /\ b_cmdcode d = b_cmdcode c /\ b_ver d = b_ver c /\ b_codec d = b_codec c /\ b_tail d = b_tail c /\
      b_ver1 d = b_ver1 c /\ b_switch d = b_switch c /\ b_cmdtype d = b_cmdtype c /\ b_proto d = b_proto c /\
      b_v2 d = v2 /\ b_resp d = resp).
  { intros ow How. unfold bolt_pure. rewrite F1, F2, F3, F4, F5, F6, F7, F8', F9', F10'.
    assert (Hh0 : 0 < l_hlen L) by (unfold L; destruct v2, resp; vm_compute; reflexivity).
    replace (blen out <? l_hlen L) with false by lia.
    replace (blen out <? l_hlen L + cl + hl + ctl) with false by lia.
    rewrite <- Hlen. cbv zeta.
    assert (Hraw : sub out 0 (blen out) = out) by (rewrite sub_0; apply takeN_all). rewrite Hraw.
    (* the three payload parts *)
    assert (Hcls : sub out (l_hlen L) (l_hlen L + cl) = b_class c).
    { unfold out, rest. rewrite <- F13. unfold cl. apply sub_mid. }
    assert (Hhdr : sub out (l_hlen L + cl) (l_hlen L + cl + hl) = hdr_encode (b_kvs c)).
    { unfold out, rest. rewrite app_assoc. rewrite <- F13. unfold cl, hl. rewrite <- hdr_encode_length, <- blen_app. apply sub_mid. }
    assert (Hcnt : sub out (l_hlen L + cl + hl) (blen out) = b_content c).
    { unfold out, rest. rewrite !app_assoc.
      replace (l_hlen L + cl + hl) with (blen ((enc_meta L c cl hl ctl ++ b_class c) ++ hdr_encode (b_kvs c)))
        by (rewrite !blen_app, F13, hdr_encode_length; reflexivity).
      apply sub_tail. }
    rewrite Hcls, Hhdr, Hcnt.
    assert (Hkv : (if 0 <? hl then hdr_decode true (hdr_encode (b_kvs c)) else (HOk, [])) = (HOk, b_kvs c)).
    { destruct (0 <? hl) eqn:E.
      - apply hdr_roundtrip. apply kvs_ok_of_len. fold hl. lia.
      - f_equal. assert (hl = 0) by lia. unfold hl in H. destruct (b_kvs c) as [|[k v] r]; [reflexivity|]. cbn [hdr_enc_len] in H. lia. }
    rewrite Hkv. cbn [fst snd].
    eexists. split; [reflexivity|]. cbn.
    assert (Hc0 : (if 0 <? cl then b_class c else []) = b_class c).
    { destruct (0 <? cl) eqn:E; [reflexivity|]. symmetry. apply blen_0_nil. fold cl. lia. }
    assert (Hb0 : (if 0 <? ctl then b_content c else []) = b_content c).
    { destruct (0 <? ctl) eqn:E; [reflexivity|]. symmetry. apply blen_0_nil. fold ctl. lia. }
    rewrite Hc0, Hb0. pose proof (layout_of_flags v2 resp) as [Lv Lr]. fold L in Lv, Lr.
    repeat split; try reflexivity; try assumption.
    - rewrite Lr. destruct resp; [symmetry; exact W2|]. subst ow. destruct W2 as [->| ->]; reflexivity.
    - symmetry. exact W1. }
  (* dispatch on the first byte and on the cmd type byte *)
  assert (Hout : exists x r, out = x :: r /\ x = b_proto c).
  { unfold out, enc_meta. cbn [app]. eexists. eexists. split; reflexivity. }
  destruct Hout as [x [r [Eo Ex]]].
  assert (Hproto : b_proto c = if v2 then 2 else 1) by (rewrite W1; unfold L; destruct v2, resp; reflexivity).
  assert (Hsw : sw_pure true out = own_pure true v2 out).
  { rewrite Eo. cbn [sw_pure]. rewrite Ex, Hproto. destruct v2; reflexivity. }
  rewrite Hsw. unfold own_pure.
  assert (Hless : (if v2 then boltv2_LessLen else bolt_LessLen) <= blen out).
  { rewrite Hlen. assert ((if v2 then boltv2_LessLen else bolt_LessLen) <= l_hlen L) by (unfold L; destruct v2, resp; vm_compute; congruence). lia. }
  replace ((if v2 then boltv2_LessLen else bolt_LessLen) <=? blen out) with true by lia.
  cbv zeta. rewrite F12.
  destruct resp eqn:Er.
  - replace (b_cmdtype c =? bolt_CmdTypeRequest) with false by (rewrite W2; reflexivity).
    replace (b_cmdtype c =? bolt_CmdTypeRequestOneway) with false by (rewrite W2; reflexivity).
    replace (b_cmdtype c =? bolt_CmdTypeResponse) with true by (rewrite W2; reflexivity).
    destruct (HP false I) as [d Hd]. exists d. exact Hd.
  - destruct W2 as [W2|W2].
    + replace (b_cmdtype c =? bolt_CmdTypeRequest) with true by (rewrite W2; reflexivity).
      destruct (HP false) as [d Hd]; [rewrite W2; reflexivity|]. exists d. exact Hd.
    + replace (b_cmdtype c =? bolt_CmdTypeRequest) with false by (rewrite W2; reflexivity).
      replace (b_cmdtype c =? bolt_CmdTypeRequestOneway) with true by (rewrite W2; reflexivity).
      destruct (HP true) as [d Hd]; [rewrite W2; reflexivity|]. exists d. exact Hd.
Qed.

(* ---- the modify-then-encode theorem ------------------------------------------------------------------ *)
Definition same_content (d c : bolt_cmd) : Prop :=
  b_class d = b_class c /\ b_kvs d = b_kvs c /\ b_content d = b_content c /\
  b_classlen d = blen (b_class c) /\ b_headerlen d = hdr_enc_len (b_kvs c) /\ b_contentlen d = blen (b_content c) /\
  b_reqid d = b_reqid c /\ b_cmdcode d = b_cmdcode c /\ b_ver d = b_ver c /\ b_codec d = b_codec c /\ b_tail d = b_tail c /\
  b_ver1 d = b_ver1 c /\ b_switch d = b_switch c /\ b_cmdtype d = b_cmdtype c /\ b_proto d = b_proto c /\
  b_v2 d = b_v2 c /\ b_resp d = b_resp c.

Lemma with_raw_wf c r : cmd_wf c -> cmd_wf (with_raw c r).
Proof. intros [H1 H2 H3 H4 H5 H6 H7 H8 H9 H10]. constructor; cbn; auto. Qed.

Lemma slow_path_roundtrip mem c : cmd_wf c -> (b_raw c = None \/ (b_hchanged c || b_cchanged c) = true) -> raw_private c ->
  match bolt_encode_sw true mem c with
  | EncErr => fits c = false
  | EncOk out c' => fits c = true /\ b_classlen c' = blen (b_class c) /\ b_headerlen c' = hdr_enc_len (b_kvs c) /\ b_contentlen c' = blen (b_content c) /\
      exists d, sw_pure true out = Ok (d, blen out) /\ b_herr d = false /\ same_content d c
  end.
Proof.
  intros W Hs Hp. unfold bolt_encode_sw.
  assert (Key : forall c1, cmd_wf c1 -> fits c1 = fits c -> b_class c1 = b_class c -> b_kvs c1 = b_kvs c -> b_content c1 = b_content c ->
            b_v2 c1 = b_v2 c -> b_resp c1 = b_resp c -> b_reqid c1 = b_reqid c -> b_cmdcode c1 = b_cmdcode c -> b_ver c1 = b_ver c ->
            b_codec c1 = b_codec c -> b_tail c1 = b_tail c -> b_ver1 c1 = b_ver1 c -> b_switch c1 = b_switch c -> b_cmdtype c1 = b_cmdtype c ->
            b_proto c1 = b_proto c ->
            match bolt_slow true (layout_of (b_v2 c) (b_resp c)) c1 with
            | EncErr => fits c = false
            | EncOk out c' => fits c = true /\ b_classlen c' = blen (b_class c) /\ b_headerlen c' = hdr_enc_len (b_kvs c) /\ b_contentlen c' = blen (b_content c) /\
                exists d, sw_pure true out = Ok (d, blen out) /\ b_herr d = false /\ same_content d c
            end).
  { intros c1 W1 Hf E1 E2 E3 E4 E5 E6 E7 E8 E9 E10 E11 E12 E13 E14.
    rewrite <- E4, <- E5. destruct (fits c1) eqn:Ef.
    - destruct (bolt_slow_out c1 Ef) as [c' [Eo [L1 [L2 L3]]]]. rewrite Eo.
      split; [congruence|]. rewrite <- E1, <- E2, <- E3. repeat split; try assumption.
      destruct (decode_slow_out c1 W1 Ef) as [d [Hd [He Hc]]]. exists d. split; [exact Hd|]. split; [exact He|].
      unfold same_content. rewrite <- E1, <- E2, <- E3, <- E4, <- E5, <- E6, <- E7, <- E8, <- E9, <- E10, <- E11, <- E12, <- E13, <- E14. exact Hc.
    - rewrite bolt_slow_refuses by exact Ef. congruence. }
  destruct (b_raw c) as [r|] eqn:Er.
  - destruct Hs as [Hs|Hs]; [discriminate|].
    replace (negb (b_hchanged c) && negb (b_cchanged c)) with false by (destruct (b_hchanged c), (b_cchanged c); cbn in *; congruence).
    apply Key; try reflexivity. apply with_raw_wf, W.
  - apply Key; try reflexivity. exact W.
Qed.

Theorem bolt_modify_roundtrip : forall v c n ops mem, res (bolt_decode v) = Ok (c, n) ->
  let c' := fold_left apply_op ops c in
  (b_hchanged c' || b_cchanged c') = true ->
  match bolt_encode mem c' with
  | EncErr => fits c' = false
  | EncOk out c'' => fits c' = true /\ b_classlen c'' = blen (b_class c') /\ b_headerlen c'' = hdr_enc_len (b_kvs c') /\ b_contentlen c'' = blen (b_content c') /\
      exists d, res (bolt_decode (view_of out)) = Ok (d, blen out) /\ b_herr d = false /\ same_content d c'
  end.
Proof.
  intros v c n ops mem H c' Hch. unfold bolt_decode in H. rewrite sw_res in H.
  pose proof (sw_pure_wf _ _ _ _ H) as W. pose proof (sw_pure_raw _ _ _ _ H) as [Hr _].
  assert (W' : cmd_wf c') by (apply apply_ops_wf, W).
  assert (P' : raw_private c') by (apply apply_ops_private; eapply raw_private_of; eauto).
  pose proof (slow_path_roundtrip mem c' W' (or_intror Hch) P') as R.
  unfold bolt_encode. change bolt_enc_checked with true.
  destruct (bolt_encode_sw true mem c') as [out c''|]; [|exact R].
  destruct R as [R1 [R2 [R3 [R4 [d [Hd Hc]]]]]]. repeat split; try assumption.
  exists d. unfold bolt_decode. rewrite sw_res. cbn [view_of vb]. change xp_hdr_checked with true. split; [exact Hd|exact Hc].
Qed.

Theorem boltv2_modify_roundtrip : forall v c n ops mem, res (boltv2_decode v) = Ok (c, n) ->
  let c' := fold_left apply_op ops c in
  (b_hchanged c' || b_cchanged c') = true ->
  match bolt_encode mem c' with
  | EncErr => fits c' = false
  | EncOk out c'' => fits c' = true /\ b_classlen c'' = blen (b_class c') /\ b_headerlen c'' = hdr_enc_len (b_kvs c') /\ b_contentlen c'' = blen (b_content c') /\
      exists d, res (bolt_decode (view_of out)) = Ok (d, blen out) /\ b_herr d = false /\ same_content d c'
  end.
Proof.
  intros v c n ops mem H c' Hch. unfold boltv2_decode in H. rewrite sw2_res in H.
  pose proof (sw2_pure_wf _ _ _ _ H) as W. pose proof (sw2_pure_raw _ _ _ _ H) as [Hr _].
  assert (W' : cmd_wf c') by (apply apply_ops_wf, W).
  assert (P' : raw_private c') by (apply apply_ops_private; eapply raw_private_of; eauto).
  pose proof (slow_path_roundtrip mem c' W' (or_intror Hch) P') as R.
  unfold bolt_encode. change bolt_enc_checked with true.
  destruct (bolt_encode_sw true mem c') as [out c''|]; [|exact R].
  destruct R as [R1 [R2 [R3 [R4 [d [Hd Hc]]]]]]. repeat split; try assumption.
  exists d. unfold bolt_decode. rewrite sw_res. cbn [view_of vb]. change xp_hdr_checked with true. split; [exact Hd|exact Hc].
Qed.

(* the unchecked slow path (before the repair) produced inconsistent length fields: class of 65537 bytes *)
Lemma unchecked_slow_inconsistent :
  let c := {| b_v2 := false; b_resp := false; b_proto := 1; b_cmdtype := 1; b_cmdcode := 1; b_ver := 1; b_reqid := 7; b_codec := 1;
              b_tail := 0; b_ver1 := 0; b_switch := 0; b_classlen := 0; b_headerlen := 0; b_contentlen := 0;
              b_class := repeat 97 (N.to_nat 65537); b_kvs := []; b_content := []; b_raw := None; b_hchanged := true; b_cchanged := false; b_herr := false |} in
  match bolt_encode_sw false [] c with
  | EncOk out c' => b_classlen c' = 1 /\ blen out = 22 + 65537
  | EncErr => False
  end.
Proof. vm_compute. split; reflexivity. Qed.

(* ---- body rewritten in place with the same length, nothing else changed: the fast path returns the received frame with
   exactly the content bytes and the request id replaced (all length fields are the received ones, and they are still true) *)
Lemma bolt_pure_lens chk L ow b c n : bolt_pure chk L ow b = Ok (c, n) ->
  b_classlen c = fld b (l_class L) /\ b_headerlen c = fld b (l_header L) /\ blen (b_content c) = fld b (l_content L) /\
  n = l_hlen L + fld b (l_class L) + fld b (l_header L) + fld b (l_content L).
Proof.
  intros H. pose proof (bolt_pure_ok _ _ _ _ _ _ H) as [Hn [Hh Hb]]. unfold frame_len in Hn.
  unfold bolt_pure in H. destruct (blen b <? _); [discriminate|]. destruct (blen b <? _) eqn:E2; [discriminate|]. cbv zeta in H.
  destruct (fst (if 0 <? fld b (l_header L) then _ else _)); inversion H; subst; cbn [b_classlen b_headerlen b_content];
    (repeat split; try reflexivity;
     destruct (0 <? fld b (l_content L)) eqn:E0; [rewrite sub_length; [lia|lia|rewrite sub_length; lia]|cbn; lia]).
Qed.

Theorem in_place_same_length_generic echk mem c raw id d :
  b_raw c = Some (Private raw) -> b_hchanged c = false -> b_cchanged c = false -> blen d = blen (b_content c) ->
  exists c', bolt_encode_sw echk mem (set_request_id id (rewrite_in_place d c)) =
             EncOk (patch (patch raw (content_index c) d) (reqid_off c) (be_enc 4 (id mod 4294967296))) c'.
Proof.
  intros Hr Hh Hc Hl. unfold rewrite_in_place. rewrite Hr. rewrite Hc. cbn [negb andb]. rewrite Hl, N.eqb_refl.
  unfold bolt_encode_sw, set_request_id. cbn [upd b_raw b_hchanged b_cchanged b_v2 b_resp b_reqid].
  rewrite ?Hh, ?Hc. cbn [negb andb deref]. eexists. reflexivity.
Qed.

Theorem bolt_in_place_same_length : forall v c n id d mem, res (bolt_decode v) = Ok (c, n) ->
  blen d = blen (b_content c) ->
  exists c', bolt_encode mem (set_request_id id (rewrite_in_place d c)) =
             EncOk (patch (patch (takeN n (vb v)) (content_index c) d) (reqid_off c) (be_enc 4 (id mod 4294967296))) c'.
Proof.
  intros v c n id d mem H Hl. unfold bolt_decode in H. rewrite sw_res in H. apply sw_pure_raw in H.
  destruct H as [Hr [Hh Hc]]. rewrite sub_0 in Hr. now apply in_place_same_length_generic.
Qed.
Theorem boltv2_in_place_same_length : forall v c n id d mem, res (boltv2_decode v) = Ok (c, n) ->
  blen d = blen (b_content c) ->
  exists c', bolt_encode mem (set_request_id id (rewrite_in_place d c)) =
             EncOk (patch (patch (takeN n (vb v)) (content_index c) d) (reqid_off c) (be_enc 4 (id mod 4294967296))) c'.
Proof.
  intros v c n id d mem H Hl. unfold boltv2_decode in H. rewrite sw2_res in H. apply sw2_pure_raw in H.
  destruct H as [Hr [Hh Hc]]. rewrite sub_0 in Hr. now apply in_place_same_length_generic.
Qed.
(* a rewrite of another length flags the content changed: it is covered by the modify round trip *)
Lemma rewrite_other_length_changes c raw d : b_raw c = Some (Private raw) -> blen d <> blen (b_content c) ->
  b_cchanged (rewrite_in_place d c) = true /\ b_content (rewrite_in_place d c) = d.
Proof.
  intros Hr Hl. unfold rewrite_in_place. rewrite Hr.
  replace (blen d =? blen (b_content c)) with false by lia. rewrite andb_false_r. split; reflexivity.
Qed.
