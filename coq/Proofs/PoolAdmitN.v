(* max_connections with the count taken inside the critical section of the test: for EVERY limit, EVERY number of
   concurrent callers and EVERY schedule the number of dialled connections never exceeds the limit - by an invariant
   (count = connections + callers between test and dial), not by a computed reachable set. *)
From Coq Require Import List ZArith Bool Arith Lia.
From MV Require Import Lib.Interleave Model.Pool Model.PoolAdmit Model.PoolAdmitN.
Import ListNotations.
Open Scope Z_scope.

Lemma adstepN_one : forall t s, adstepN 1 t s = adstep t s.
Proof. intros [|[] r] s; reflexivity. Qed.

Lemma sched_stepN_one : forall c k, sched_step (adstepN 1) c k = sched_step adstep c k.
Proof. intros c k. unfold sched_step. destruct (nth_error (fst c) k); [rewrite adstepN_one|]; reflexivity. Qed.

Lemma adrunN_one : forall sched c, adrunN 1 sched c = adrun sched c.
Proof.
  unfold adrunN, adrun. induction sched as [|k sched IH]; intros c; [reflexivity|].
  change (Interleave.run (adstepN 1) (k :: sched) c) with (Interleave.run (adstepN 1) sched (sched_step (adstepN 1) c k)).
  change (Interleave.run adstep (k :: sched) c) with (Interleave.run adstep sched (sched_step adstep c k)).
  rewrite sched_stepN_one. apply IH.
Qed.

Definition InvN (mx : Z) (c : adcfg) : Prop :=
  Forall (fun t => validN t = true) (fst c) /\ ad_total (snd c) = ad_conns (snd c) + sumN (fst c) /\ ad_total (snd c) <= mx
  /\ 0 <= sumN (fst c).

Lemma sumN_app : forall a b, sumN (a ++ b) = sumN a + sumN b.
Proof. induction a as [|x a IH]; intros b; cbn [sumN app]; [lia|rewrite IH; lia]. Qed.

Lemma pendingN_nonneg : forall t, 0 <= pendingN t.
Proof. intros t. unfold pendingN. repeat (destruct t as [|[] t]; try lia). Qed.

Lemma sumN_nonneg : forall l, 0 <= sumN l.
Proof. induction l as [|t l IH]; cbn [sumN]; [lia|pose proof (pendingN_nonneg t); lia]. Qed.

(* one micro-step of a valid caller: stays valid, and the count moves with connections + pending *)
Lemma adstepN_valid : forall mx t s, validN t = true ->
  validN (fst (adstepN mx t s)) = true /\
  ad_total (snd (adstepN mx t s)) - ad_conns (snd (adstepN mx t s)) - pendingN (fst (adstepN mx t s))
    = ad_total s - ad_conns s - pendingN t /\
  (ad_total s <= mx -> ad_total (snd (adstepN mx t s)) <= mx).
Proof.
  intros mx t s Hv.
  assert (Hc : In t [[ALock; ATestInc; AUnlock; ADial]; [ATestInc; AUnlock; ADial]; [AUnlock; ADial]; [ADial]; []; [AUnlock]]).
  { repeat (destruct t as [|[] t]; try discriminate Hv; cbn; auto 10). }
  cbn [In] in Hc. destruct Hc as [<-|[<-|[<-|[<-|[<-|[<-|[]]]]]]];
    cbn [adstepN]; try (destruct (ad_mu s)); try (destruct (ad_total s <? mx) eqn:E; [apply Z.ltb_lt in E|]);
    cbn [fst snd validN pendingN ad_total ad_conns]; repeat split; try reflexivity; try lia.
Qed.

Lemma InvN_step : forall mx c k, InvN mx c -> InvN mx (sched_step (adstepN mx) c k).
Proof.
  intros mx [ts s] k (Hv & Hsum & Hle & _). unfold sched_step. cbn [fst snd] in *.
  destruct (nth_error ts k) as [t|] eqn:E; [|repeat split; try assumption; apply sumN_nonneg].
  destruct (nth_error_split_upd k ts t E) as (l1 & l2 & Ets & _ & Hupd). subst ts.
  assert (Hvt : validN t = true).
  { rewrite Forall_forall in Hv. apply Hv. apply in_or_app. right. left. reflexivity. }
  destruct (adstepN_valid mx t s Hvt) as (V & D & L).
  cbn [fst snd]. rewrite Hupd. repeat split.
  - apply Forall_app in Hv. destruct Hv as [H1 H2]. apply Forall_app. split; [assumption|].
    inversion H2; subst. constructor; assumption.
  - cbn [fst snd]. rewrite sumN_app in *. cbn [sumN] in *. lia.
  - cbn [fst snd]. apply L. assumption.
  - apply sumN_nonneg.
Qed.

Lemma InvN_init : forall mx n, 0 <= mx -> InvN mx (conn_cfgN n).
Proof.
  intros mx n Hmx. unfold InvN, conn_cfgN. cbn [fst snd ad0 ad_total ad_conns].
  assert (S0 : sumN (repeat (conn_prog true) n) = 0) by (induction n as [|n IH]; cbn [repeat sumN]; [reflexivity|rewrite IH; reflexivity]).
  repeat split; try lia.
  - apply Forall_forall. intros t Ht. apply repeat_spec in Ht. subst. reflexivity.
Qed.

Theorem conn_count_locked_safe_N : forall mx n sched, 0 <= mx -> ad_conns (snd (adrunN mx sched (conn_cfgN n))) <= mx.
Proof.
  intros mx n sched Hmx.
  assert (H : InvN mx (adrunN mx sched (conn_cfgN n))).
  { unfold adrunN. apply (run_invariant (adstepN mx) (InvN mx)); [intros c k; apply InvN_step|apply InvN_init; assumption]. }
  destruct H as (_ & Hsum & Hle & Hnn). lia.
Qed.

(* the instance the harness exercises (three callers, limit 1) is the existing model *)
Corollary conn_count_locked_safe_N_instance : forall sched, ad_conns (snd (adrun sched (conn_cfg true))) <= ad_max.
Proof. intros sched. rewrite <- adrunN_one. apply (conn_count_locked_safe_N 1 3 sched). lia. Qed.

(* non-vacuity: with limit 2 and four callers a schedule reaches exactly two connections, two callers refused *)
Example conn_count_locked_N_reaches_limit :
  ad_conns (snd (adrunN 2 [0;0;0;0; 1;1;1;1; 2;2;2; 3;3;3]%nat (conn_cfgN 4))) = 2.
Proof. vm_compute. reflexivity. Qed.
