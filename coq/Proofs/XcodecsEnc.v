(* Proofs/XcodecsEnc.v (codec) - C01 at framing level for dubbo and dubbo-thrift: the fast path returns the received
   frame with only the id bytes replaced, and holds no reference into the read buffer. *)
From Coq Require Import List NArith Lia ZifyBool ZifyNat ZifyN Bool.
From MV Require Import Lib.Bytes Lib.Dec Lib.Seg Model.CodecParams Model.Xcodecs Proofs.Xcodecs.
Import ListNotations.
Open Scope N_scope.

Definition U64 : N := 18446744073709551616.

(* ---- dubbo ---- *)
Lemma dubbo_pure_raw hess b f n : dubbo_pure hess b = Ok (f, n) ->
  x_raw f = Some (Private (sub b 0 n)) /\ length (x_nums f) = 8%nat.
Proof.
  unfold dubbo_pure. destruct (blen b <? dubbo_HeaderLen); [discriminate|].
  destruct (dubbo_HeaderLen + dubbo_plen b <=? blen b); [|discriminate].
  unfold dubbo_frame_pure.
  destruct (l_sub _ dubbo_HeaderLen _) as [payload|]; [|discriminate].
  destruct (negb _ && _).
  - destruct (negb (_ =? 2)); [discriminate|]. destruct (hess payload); [|discriminate].
    intros H. inversion H; subst. split; reflexivity.
  - intros H. inversion H; subst. split; reflexivity.
Qed.

Theorem dubbo_fast_path_identity : forall hess v f n id mem, res (dubbo_decode hess v) = Ok (f, n) ->
  dubbo_encode mem (dubbo_set_id id f) = patch (takeN n (vb v)) dubbo_IdIdx (be_enc 8 (id mod U64)).
Proof.
  intros hess v f n id mem H. rewrite dubbo_decode_eq, dubbo_res in H. apply dubbo_pure_raw in H. destruct H as [Hr Hl].
  unfold dubbo_encode, dubbo_set_id, set_num. cbn [x_raw]. rewrite Hr. cbn [deref]. rewrite sub_0.
  f_equal. f_equal. unfold nth_num. cbn [x_nums].
  destruct (x_nums f) as [|a [|b [|c l]]]; try (cbn in Hl; lia). reflexivity.
Qed.

Theorem dubbo_buffer_independence : forall hess v f n id mem mem', res (dubbo_decode hess v) = Ok (f, n) ->
  dubbo_encode mem (dubbo_set_id id f) = dubbo_encode mem' (dubbo_set_id id f).
Proof. intros. erewrite !dubbo_fast_path_identity by eassumption. reflexivity. Qed.

(* SetData (repaired): the raw frame is dropped, the encoder writes header fields and the new payload *)
Theorem dubbo_set_data_encode : forall mem f d,
  dubbo_encode mem (dubbo_set_data dubbo_setdata_resets_raw d f) =
  firstn 2 (x_magic f) ++ [nth_num (set_num f 3 (blen d mod U32)) 0; nth_num (set_num f 3 (blen d mod U32)) 1]
  ++ be_enc 8 (nth_num (set_num f 3 (blen d mod U32)) 2) ++ be_enc 4 (nth_num (set_num f 3 (blen d mod U32)) 3) ++ d.
Proof. reflexivity. Qed.

(* ---- dubbo-thrift ---- *)
Lemma thrift_pure_raw tp b f n : thrift_pure tp b = Ok (f, n) ->
  x_raw f = Some (Private (sub b 0 n)) /\ length (x_nums f) = 5%nat.
Proof.
  intros H. pose proof (thrift_pure_ok _ _ _ _ H) as [Hn0 Hnb].
  unfold thrift_pure in H. destruct (blen b <? thrift_MessageLenSize + thrift_MagicLen) eqn:E1; [discriminate|].
  destruct (thrift_MessageLenSize + thrift_fl b <=? blen b) eqn:E2; [|discriminate].
  set (d := sub b 0 (thrift_MessageLenSize + thrift_fl b)) in *.
  assert (Hd : blen d = thrift_MessageLenSize + thrift_fl b).
  { unfold d. rewrite sub_length; lia. }
  assert (H4 : thrift_MessageLenSize <= blen d) by lia.
  pose proof (thrift_body_ok tp d f n H4 H) as [Hn Hle].
  assert (Hfl : be_decw (sub d 0 thrift_MessageLenSize) = thrift_fl b).
  { unfold d. unfold thrift_fl in *. rewrite sub_sub; try lia. reflexivity. }
  rewrite Hfl in Hn.
  unfold thrift_body_pure in H.
  repeat match type of H with context [opt_or_recovered ?o _] => destruct o eqn:?; cbn [opt_or_recovered] in H; [|discriminate] end.
  destruct (tp _) as [[id mt]|]; [|discriminate]. cbn [res ret fst] in H.
  match type of H with Ok (?fr, ?m) = Ok (f, n) => assert (Hf : f = fr) by congruence; assert (Hm : m = n) by congruence end.
  subst f. cbn [x_raw x_nums]. split; [|reflexivity].
  match goal with Hx : l_sub d 0 _ = Some ?raw |- _ => rewrite Hm in Hx; unfold l_sub in Hx; destruct (_ || _) in Hx; [discriminate|];
    assert (Hraw : raw = sub d 0 n) by congruence end.
  rewrite Hraw. unfold d. rewrite <- Hn. rewrite sub_sub by lia. reflexivity.
Qed.

Theorem thrift_fast_path_identity : forall tp v f n id mem, res (thrift_decode tp v) = Ok (f, n) ->
  let idx := (thrift_MessageLenSize + nth_num f 2 + U16 - thrift_IdLen) mod U16 in
  idx + 8 <= n ->
  thrift_encode mem (thrift_set_id id f) = Some (patch (takeN n (vb v)) idx (be_enc 8 (id mod U64))).
Proof.
  intros tp v f n id mem H idx Hi. rewrite thrift_res in H.
  pose proof (thrift_pure_ok _ _ _ _ H) as [_ Hnb]. apply thrift_pure_raw in H. destruct H as [Hr Hl].
  unfold thrift_encode, thrift_set_id, set_num. cbn [x_raw]. rewrite Hr. cbn [deref]. rewrite sub_0.
  unfold nth_num. cbn [x_nums].
  destruct (x_nums f) as [|a [|b [|c [|d l]]]] eqn:En; try (cbn in Hl; lia).
  cbn [firstn skipn app nth].
  assert (Hidx : (thrift_MessageLenSize + c + U16 - thrift_IdLen) mod U16 = idx) by (unfold idx, nth_num; rewrite En; reflexivity).
  rewrite Hidx. rewrite takeN_length by (fold (vlen v); exact Hnb).
  replace (n <? idx + 8) with false by lia. reflexivity.
Qed.

(* ---- dubbo slow path: SetData(d), Encode, Decode again ----------------------------------------------------------- *)
Lemma dubbo_pure_fields hess b f n : dubbo_pure hess b = Ok (f, n) ->
  blen (x_magic f) = 2 /\ nth_num f 2 < U64 /\ length (x_nums f) = 8%nat /\
  (negb (N.testbit (nth_num f 0) 5) && N.testbit (nth_num f 0) 7 = true -> N.land (nth_num f 0) 31 = 2).
Proof.
  unfold dubbo_pure. destruct (blen b <? dubbo_HeaderLen) eqn:E1; [discriminate|].
  destruct (dubbo_HeaderLen + dubbo_plen b <=? blen b) eqn:E2; [|discriminate].
  unfold dubbo_frame_pure.
  destruct (l_sub _ dubbo_HeaderLen _) as [payload|]; [|discriminate].
  assert (Hm : blen (sub b dubbo_MagicIdx dubbo_FlagIdx) = 2).
  { rewrite sub_length; unfold dubbo_MagicIdx, dubbo_FlagIdx, dubbo_HeaderLen in *; lia. }
  assert (Hid : be_decw (sub b dubbo_IdIdx (dubbo_IdIdx + dubbo_IdLen)) < U64).
  { pose proof (be_decw_bound (sub b dubbo_IdIdx (dubbo_IdIdx + dubbo_IdLen))) as Hb.
    rewrite sub_length in Hb by (unfold dubbo_IdIdx, dubbo_IdLen, dubbo_HeaderLen in *; lia).
    replace (dubbo_IdIdx + dubbo_IdLen - dubbo_IdIdx) with 8 in Hb by reflexivity. exact Hb. }
  set (flag := nth (N.to_nat dubbo_FlagIdx) b 0).
  destruct (negb (N.testbit flag 5) && ((if N.testbit flag 7 then dubbo_EventRequest else dubbo_EventResponse) =? dubbo_EventRequest)) eqn:Ec.
  - destruct (negb (N.land flag 31 =? 2)) eqn:Es; [discriminate|]. destruct (hess payload); [|discriminate].
    intros H. inversion H; subst f. unfold nth_num. cbn [x_magic x_nums nth length]. repeat split; try assumption. intros _. lia.
  - intros H. inversion H; subst f. unfold nth_num. cbn [x_magic x_nums nth length]. repeat split; try assumption.
    intros Hq. exfalso. apply andb_true_iff in Hq. destruct Hq as [Hq1 Hq2]. rewrite Hq1, Hq2 in Ec. discriminate Ec.
Qed.

Ltac norm_nat := repeat match goal with |- context [N.to_nat ?n] =>
  let v := eval vm_compute in (N.to_nat n) in change (N.to_nat n) with v end.

Theorem dubbo_set_data_roundtrip : forall hess v f n d mem, res (dubbo_decode hess v) = Ok (f, n) ->
  dubbo_HeaderLen + blen d < U32 ->
  (negb (N.testbit (nth_num f 0) 5) && N.testbit (nth_num f 0) 7 = true -> hess d = true) ->
  let out := dubbo_encode mem (dubbo_set_data true d (dubbo_set_id (nth_num f 2) f)) in
  exists f', res (dubbo_decode hess (view_of out)) = Ok (f', blen out) /\
    x_payload f' = d /\ nth_num f' 3 = blen d /\ nth_num f' 0 = nth_num f 0 /\ nth_num f' 1 = nth_num f 1 /\ nth_num f' 2 = nth_num f 2.
Proof.
  intros hess v f n d mem H Hlen Hh. rewrite dubbo_decode_eq, dubbo_res in H.
  destruct (dubbo_pure_fields _ _ _ _ H) as [Hm [Hid [Hl Hser]]].
  cbv zeta. rewrite dubbo_decode_eq, dubbo_res. cbn [view_of vb].
  unfold dubbo_encode, dubbo_set_data, dubbo_set_id, set_num, nth_num in *. cbn [x_raw x_nums x_payload x_magic].
  destruct (x_nums f) as [|flag [|status [|id [|dl [|ev [|tw [|dir [|ser [|]]]]]]]]] eqn:En; try (cbn in Hl; lia).
  cbn [firstn skipn app nth] in *.
  destruct (x_magic f) as [|m0 [|m1 [|]]] eqn:Em; try (unfold blen in Hm; cbn in Hm; lia).
  cbn [firstn app].
  rewrite (N.mod_small id) by exact Hid.
  rewrite (N.mod_small (blen d)) by (unfold dubbo_HeaderLen in Hlen; lia).
  set (out := m0 :: m1 :: flag :: status :: (be_enc 8 id ++ be_enc 4 (blen d) ++ d)).
  assert (Hout : blen out = dubbo_HeaderLen + blen d).
  { unfold out. rewrite !blen_cons, !blen_app, !be_enc_blen. unfold dubbo_HeaderLen. lia. }
  assert (Hpl : dubbo_plen out = blen d).
  { unfold dubbo_plen, out, dubbo_DataLenIdx, dubbo_DataLenSize.
    change (be_enc 8 id) with [id / 256 / 256 / 256 / 256 / 256 / 256 / 256 mod 256; id / 256 / 256 / 256 / 256 / 256 / 256 mod 256;
      id / 256 / 256 / 256 / 256 / 256 mod 256; id / 256 / 256 / 256 / 256 mod 256; id / 256 / 256 / 256 mod 256; id / 256 / 256 mod 256; id / 256 mod 256; id mod 256].
    change (be_enc 4 (blen d)) with [blen d / 256 / 256 / 256 mod 256; blen d / 256 / 256 mod 256; blen d / 256 mod 256; blen d mod 256].
    cbn [app]. unfold sub. norm_nat. cbn [skipn firstn].
    change (be_decw (be_enc 4 (blen d)) = blen d). rewrite be_decw_enc. apply N.mod_small. change (256 ^ N.of_nat 4) with U32. unfold dubbo_HeaderLen in Hlen. lia. }
  unfold dubbo_pure. rewrite Hout, Hpl.
  replace (dubbo_HeaderLen + blen d <? dubbo_HeaderLen) with false by lia.
  replace (dubbo_HeaderLen + blen d <=? dubbo_HeaderLen + blen d) with true by lia.
  unfold dubbo_frame_pure. fold (dubbo_plen out). rewrite Hpl.
  rewrite N.mod_small by exact Hlen.
  assert (Hbody : sub out 0 (dubbo_HeaderLen + blen d) = out) by (rewrite <- Hout, sub_0; apply takeN_all).
  rewrite Hbody, Hout.
  assert (Hpay : l_sub out dubbo_HeaderLen (dubbo_HeaderLen + blen d) = Some d).
  { rewrite l_sub_some by lia. f_equal.
    change out with ((m0 :: m1 :: flag :: status :: be_enc 8 id ++ be_enc 4 (blen d)) ++ d).
    assert (Hp : blen (m0 :: m1 :: flag :: status :: be_enc 8 id ++ be_enc 4 (blen d)) = dubbo_HeaderLen)
      by (rewrite !blen_cons, !blen_app, !be_enc_blen; reflexivity).
    rewrite <- Hp. rewrite <- blen_app. rewrite sub_as_take_drop, dropN_app_exact.
    rewrite blen_app. replace (blen (m0 :: m1 :: flag :: status :: be_enc 8 id ++ be_enc 4 (blen d)) + blen d - blen (m0 :: m1 :: flag :: status :: be_enc 8 id ++ be_enc 4 (blen d))) with (blen d) by lia.
    apply takeN_all. }
  rewrite Hpay.
  assert (Hflag : nth (N.to_nat dubbo_FlagIdx) out 0 = flag) by reflexivity.
  assert (Hstatus : nth (N.to_nat dubbo_StatusIdx) out 0 = status) by reflexivity.
  rewrite Hflag, Hstatus.
  assert (Hidr : be_decw (sub out dubbo_IdIdx (dubbo_IdIdx + dubbo_IdLen)) = id).
  { unfold out, dubbo_IdIdx, dubbo_IdLen.
    change (be_enc 8 id) with [id / 256 / 256 / 256 / 256 / 256 / 256 / 256 mod 256; id / 256 / 256 / 256 / 256 / 256 / 256 mod 256;
      id / 256 / 256 / 256 / 256 / 256 mod 256; id / 256 / 256 / 256 / 256 mod 256; id / 256 / 256 / 256 mod 256; id / 256 / 256 mod 256; id / 256 mod 256; id mod 256].
    cbn [app]. unfold sub. norm_nat. cbn [skipn firstn].
    change (be_decw (be_enc 8 id) = id). rewrite be_decw_enc. apply N.mod_small. exact Hid. }
  rewrite Hidr.
  destruct (negb (N.testbit flag 5) && ((if N.testbit flag 7 then dubbo_EventRequest else dubbo_EventResponse) =? dubbo_EventRequest)) eqn:Ec.
  - assert (Hq : negb (N.testbit flag 5) && N.testbit flag 7 = true).
    { apply andb_true_iff in Ec. destruct Ec as [E1 E2]. rewrite E1. destruct (N.testbit flag 7); [reflexivity|discriminate E2]. }
    rewrite (Hser Hq). cbn [N.eqb Pos.eqb negb]. rewrite (Hh Hq).
    eexists. split; [reflexivity|]. cbn [x_payload x_nums nth]. repeat split; reflexivity.
  - eexists. split; [reflexivity|]. cbn [x_payload x_nums nth]. repeat split; reflexivity.
Qed.

(* ---- tars: Decode (Encode (packet)) relative to TarsGo's reader/writer law ------------------------------------------ *)
Section TarsEncProofs.
Variable pkt : Type.
Variable jread : bool -> bytes -> option pkt.
Variable jwrite : bool -> pkt -> bytes.
Variable pid : pkt -> N.
Variable stype : bytes -> N.

(* premises (laws of the TarsGo library, validated by the harness on the real library):
   L1  ReadFrom (WriteTo p) = p
   L2  the tag-5 scan of a written request frame finds a string, of a written response frame an integer *)
Definition tars_law_roundtrip : Prop := forall resp p, jread resp (jwrite resp p) = Some p.
Definition tars_law_stype : Prop := forall resp p fr, fr = tars_encode pkt jwrite resp p ->
  existsb (N.eqb (stype fr)) tars_resp_types = resp /\ existsb (N.eqb (stype fr)) tars_req_types = negb resp.

Theorem tars_encode_decode : tars_law_roundtrip -> tars_law_stype -> forall resp p,
  tars_MessageSizeLen + blen (jwrite resp p) <= tars_MaxPackageLength ->
  let out := tars_encode pkt jwrite resp p in
  res (tars_decode stype (tars_rparse pkt jread pid) (view_of out)) =
    Ok ({| x_nums := [if resp then 1 else 0; pid p]; x_raw := Some (Private out); x_payload := out; x_magic := [] |}, blen out) /\
  jread resp (dropN tars_MessageSizeLen out) = Some p.
Proof.
  intros L1 L2 resp p Hsz. cbv zeta. set (out := tars_encode pkt jwrite resp p).
  assert (Hu : (tars_MessageSizeLen + blen (jwrite resp p)) mod U32 = tars_MessageSizeLen + blen (jwrite resp p)).
  { apply N.mod_small. unfold tars_MaxPackageLength, U32 in *. lia. }
  assert (Hlen : blen out = tars_MessageSizeLen + blen (jwrite resp p)).
  { unfold out, tars_encode. rewrite blen_app, be_enc_blen. unfold tars_MessageSizeLen. lia. }
  assert (Hn : tars_n out = tars_MessageSizeLen + blen (jwrite resp p)).
  { unfold tars_n, out, tars_encode. rewrite Hu.
    replace (0 + 4) with (blen (be_enc 4 (tars_MessageSizeLen + blen (jwrite resp p)))) by (rewrite be_enc_blen; reflexivity).
    rewrite sub_0, takeN_app_exact, be_decw_enc. apply N.mod_small. change (256 ^ N.of_nat 4) with U32. unfold U32, tars_MaxPackageLength, tars_MessageSizeLen in *. lia. }
  assert (Hdrop : dropN tars_MessageSizeLen out = jwrite resp p).
  { unfold out, tars_encode. rewrite Hu.
    replace tars_MessageSizeLen with (blen (be_enc 4 (tars_MessageSizeLen + blen (jwrite resp p)))) at 1 by (rewrite be_enc_blen; reflexivity).
    apply dropN_app_exact. }
  split; [|rewrite Hdrop; apply L1].
  rewrite tars_res. cbn [view_of vb]. unfold tars_pure. rewrite Hn, Hlen.
  replace (tars_MessageSizeLen + blen (jwrite resp p) <? tars_MessageSizeLen) with false by lia.
  cbv zeta.
  replace ((tars_MessageSizeLen + blen (jwrite resp p) <? 4) || (tars_MaxPackageLength <? tars_MessageSizeLen + blen (jwrite resp p))) with false
    by (unfold tars_MessageSizeLen in *; lia).
  replace (tars_MessageSizeLen + blen (jwrite resp p) <? tars_MessageSizeLen + blen (jwrite resp p)) with false by lia.
  assert (Hfr : sub out 0 (tars_MessageSizeLen + blen (jwrite resp p)) = out) by (rewrite <- Hlen, sub_0; apply takeN_all).
  rewrite Hfr. destruct (L2 resp p out eq_refl) as [Ha Hb]. rewrite Ha, Hb.
  replace (resp || negb resp) with true by (destruct resp; reflexivity).
  unfold tars_rparse. rewrite Hdrop, L1. cbn [option_map]. reflexivity.
Qed.
End TarsEncProofs.

(* ---- dubbo-thrift slow path relative to the thrift library's reader/writer law ------------------------------------- *)
Section ThriftEncProofs.
Variable tparse : bytes -> option (N * N).
Variable whdr : bytes -> N -> bytes.
Variable mbegin : bytes -> option N.   (* ReadMessageBegin/End on a payload: the message type *)

(* premise: reading what WriteString(service) ++ WriteI64(id) wrote, followed by a payload, gives the id and the
   message type of the payload *)
Definition thrift_law : Prop := forall svc id pl, id < U64 ->
  tparse (whdr svc id ++ pl) = option_map (fun mt => (id, mt)) (mbegin pl).

Theorem thrift_slow_roundtrip : thrift_law -> forall svc id payload mt,
  id < U64 -> mbegin payload = Some mt ->
  thrift_HeaderIdx + blen (whdr svc id) < U16 ->
  thrift_MessageLenSize + thrift_HeaderIdx + blen (whdr svc id) + blen payload < U32 ->
  let out := thrift_encode_slow whdr svc id payload in
  exists f, res (thrift_decode tparse (view_of out)) = Ok (f, blen out) /\
    x_payload f = payload /\ nth_num f 3 = id /\ nth_num f 2 = thrift_HeaderIdx + blen (whdr svc id) /\
    nth_num f 0 = blen out /\ nth_num f 1 = blen out - thrift_MessageLenSize.
Proof.
  intros Law svc id payload mt Hid Hmb Hh Hm. cbv zeta.
  set (lib := whdr svc id) in *. set (hlen := thrift_HeaderIdx + blen lib) in *. set (mlen := hlen + blen payload).
  assert (Emlen : mlen mod U32 = mlen) by (apply N.mod_small; unfold mlen, hlen, thrift_MessageLenSize in *; lia).
  assert (Ehlen : hlen mod U16 = hlen) by (apply N.mod_small; exact Hh).
  unfold thrift_encode_slow. fold lib hlen mlen. rewrite Emlen, Ehlen.
  set (msg := [thrift_Magic0; thrift_Magic1] ++ be_enc 4 mlen ++ be_enc 2 hlen ++ [1] ++ lib ++ payload).
  assert (Hmsg : blen msg = mlen).
  { unfold msg. rewrite !blen_app, !be_enc_blen. unfold mlen, hlen, thrift_HeaderIdx. cbn [blen length N.of_nat]. lia. }
  set (out := be_enc 4 mlen ++ msg).
  assert (Hout : blen out = thrift_MessageLenSize + mlen) by (unfold out; rewrite blen_app, be_enc_blen, Hmsg; reflexivity).
  assert (Hml32 : mlen < U32) by (unfold mlen, hlen, thrift_MessageLenSize in *; lia).
  assert (Hfl : thrift_fl out = mlen).
  { unfold thrift_fl, out. replace (0 + thrift_MessageLenSize) with (blen (be_enc 4 mlen)) by (rewrite be_enc_blen; reflexivity).
    rewrite sub_0, takeN_app_exact, be_decw_enc. apply N.mod_small. change (256 ^ N.of_nat 4) with U32. exact Hml32. }
  rewrite thrift_res. cbn [view_of vb]. unfold thrift_pure. rewrite Hout, Hfl.
  replace (thrift_MessageLenSize + mlen <? thrift_MessageLenSize + thrift_MagicLen) with false
    by (unfold mlen, hlen, thrift_HeaderIdx, thrift_MagicLen; lia).
  replace (thrift_MessageLenSize + mlen <=? thrift_MessageLenSize + mlen) with true by lia.
  assert (Hd : sub out 0 (thrift_MessageLenSize + mlen) = out) by (rewrite <- Hout, sub_0; apply takeN_all).
  rewrite Hd. unfold thrift_body_pure.
  (* m4 *)
  assert (H1 : l_sub out 0 thrift_MessageLenSize = Some (be_enc 4 mlen)).
  { rewrite l_sub_some by (unfold thrift_MessageLenSize in *; lia). apply f_equal.
    pose proof (takeN_app_exact (be_enc 4 mlen) msg) as X. rewrite <- sub_0 in X. exact X. }
  rewrite H1. cbn [opt_or_recovered]. rewrite be_decw_enc. rewrite (N.mod_small mlen) by exact Hml32.
  rewrite (N.mod_small (thrift_MessageLenSize + mlen)) by (unfold thrift_MessageLenSize in *; lia).
  assert (H2 : l_sub out thrift_MessageLenSize (thrift_MessageLenSize + mlen) = Some msg).
  { rewrite l_sub_some by lia. apply f_equal.
    pose proof (sub_mid (be_enc 4 mlen) msg []) as X. rewrite app_nil_r, Hmsg in X. exact X. }
  rewrite H2. cbn [opt_or_recovered].
  rewrite (N.add_comm mlen). rewrite (N.mod_small (thrift_MessageLenSize + mlen)) by (unfold thrift_MessageLenSize in *; lia).
  (* fixed positions inside msg *)
  assert (Hshape : msg = thrift_Magic0 :: thrift_Magic1 :: (be_enc 4 mlen ++ be_enc 2 hlen ++ [1] ++ lib ++ payload)) by reflexivity.
  assert (H3 : l_sub msg 0 thrift_MagicLen = Some [thrift_Magic0; thrift_Magic1]).
  { rewrite l_sub_some by (unfold thrift_MagicLen, mlen, hlen, thrift_HeaderIdx in *; lia). rewrite Hshape. reflexivity. }
  rewrite H3. cbn [opt_or_recovered].
  assert (H4 : l_sub msg thrift_MessageLenIdx (thrift_MessageLenIdx + thrift_MessageLenSize) = Some (be_enc 4 mlen)).
  { rewrite l_sub_some by (unfold thrift_MessageLenIdx, thrift_MessageLenSize, mlen, hlen, thrift_HeaderIdx in *; lia). apply f_equal.
    exact (sub_mid [thrift_Magic0; thrift_Magic1] (be_enc 4 mlen) (be_enc 2 hlen ++ [1] ++ lib ++ payload)). }
  rewrite H4. cbn [opt_or_recovered].
  assert (H5 : l_sub msg thrift_MessageHeaderLenIdx (thrift_MessageHeaderLenIdx + thrift_MessageHeaderLenSize) = Some (be_enc 2 hlen)).
  { rewrite l_sub_some by (unfold thrift_MessageHeaderLenIdx, thrift_MessageHeaderLenSize, mlen, hlen, thrift_HeaderIdx in *; lia). apply f_equal.
    pose proof (sub_mid ([thrift_Magic0; thrift_Magic1] ++ be_enc 4 mlen) (be_enc 2 hlen) ([1] ++ lib ++ payload)) as X.
    rewrite <- app_assoc in X. exact X. }
  rewrite H5. cbn [opt_or_recovered]. rewrite be_decw_enc. rewrite (N.mod_small hlen) by exact Hh.
  assert (H6 : l_sub out 0 (thrift_MessageLenSize + mlen) = Some out).
  { rewrite l_sub_some by lia. f_equal; try (exact Hd). }
  rewrite H6. cbn [opt_or_recovered]. rewrite Hmsg.
  assert (Hpre : msg = ([thrift_Magic0; thrift_Magic1] ++ be_enc 4 mlen ++ be_enc 2 hlen ++ [1] ++ lib) ++ payload).
  { unfold msg. rewrite <- !app_assoc. reflexivity. }
  assert (Hprel : blen ([thrift_Magic0; thrift_Magic1] ++ be_enc 4 mlen ++ be_enc 2 hlen ++ [1] ++ lib) = hlen).
  { rewrite !blen_app, !be_enc_blen. unfold hlen, thrift_HeaderIdx. cbn [blen length N.of_nat]. lia. }
  assert (H7 : l_sub msg hlen mlen = Some payload).
  { rewrite l_sub_some by (unfold mlen; lia). apply f_equal.
    pose proof (sub_mid ([thrift_Magic0; thrift_Magic1] ++ be_enc 4 mlen ++ be_enc 2 hlen ++ [1] ++ lib) payload []) as X.
    rewrite app_nil_r, Hprel in X. rewrite <- Hpre in X. exact X. }
  rewrite H7. cbn [opt_or_recovered].
  assert (H8 : l_sub msg thrift_HeaderIdx mlen = Some (lib ++ payload)).
  { rewrite l_sub_some by (unfold mlen, hlen; lia). apply f_equal.
    pose proof (sub_mid ([thrift_Magic0; thrift_Magic1] ++ be_enc 4 mlen ++ be_enc 2 hlen ++ [1]) (lib ++ payload) []) as X.
    rewrite app_nil_r in X.
    replace (blen ([thrift_Magic0; thrift_Magic1] ++ be_enc 4 mlen ++ be_enc 2 hlen ++ [1])) with thrift_HeaderIdx in X by reflexivity.
    replace (thrift_HeaderIdx + blen (lib ++ payload)) with mlen in X by (rewrite blen_app; unfold mlen, hlen; lia).
    replace (([thrift_Magic0; thrift_Magic1] ++ be_enc 4 mlen ++ be_enc 2 hlen ++ [1]) ++ lib ++ payload) with msg in X
      by (unfold msg; rewrite <- !app_assoc; reflexivity).
    exact X. }
  rewrite H8. cbn [opt_or_recovered].
  unfold lib. rewrite (Law svc id payload Hid), Hmb. cbn [option_map res ret fst].
  eexists. split; [reflexivity|]. unfold nth_num. cbn [x_payload x_nums nth].
  rewrite be_decw_enc, (N.mod_small mlen) by exact Hml32. fold lib hlen.
  repeat split; try reflexivity; lia.
Qed.
End ThriftEncProofs.
