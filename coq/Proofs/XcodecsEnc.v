(* Proofs/XcodecsEnc.v (codec) - C01 at framing level for dubbo and dubbo-thrift: the fast path returns the received
   frame with only the id bytes replaced, and holds no reference into the read buffer. *)
From Coq Require Import List NArith Lia ZifyBool ZifyNat ZifyN Bool.
From MV Require Import Lib.Bytes Lib.Dec Lib.Seg Gen.ProtoConsts Gen.CodecSrc Model.Xcodecs Proofs.Xcodecs.
Import ListNotations.
Open Scope N_scope.

Definition U64 : N := 18446744073709551616.

(* ---- dubbo ---- *)
Lemma dubbo_pure_raw hess b f n : dubbo_pure hess b = Ok (f, n) ->
  x_raw f = Some (Private (sub b 0 n)) /\ length (x_nums f) = 8%nat.
Proof.
  unfold dubbo_pure. destruct (blen b <? dubbo_HeaderLen); [discriminate|].
  destruct (dubbo_HeaderLen + dubbo_plen b <=? blen b); [|discriminate].
  unfold dubbo_frame_pure.
  destruct (l_sub _ dubbo_HeaderLen _) as [payload|]; [|discriminate].
  destruct (negb _ && _).
  - destruct (negb (_ =? 2)); [discriminate|]. destruct (hess payload); [|discriminate].
    intros H. inversion H; subst. split; reflexivity.
  - intros H. inversion H; subst. split; reflexivity.
Qed.

Theorem dubbo_fast_path_identity : forall hess v f n id mem, res (dubbo_decode hess v) = Ok (f, n) ->
  dubbo_encode mem (dubbo_set_id id f) = patch (takeN n (vb v)) dubbo_IdIdx (be_enc 8 (id mod U64)).
Proof.
  intros hess v f n id mem H. rewrite dubbo_decode_eq, dubbo_res in H. apply dubbo_pure_raw in H. destruct H as [Hr Hl].
  unfold dubbo_encode, dubbo_set_id, set_num. cbn [x_raw]. rewrite Hr. cbn [deref]. rewrite sub_0.
  f_equal. f_equal. unfold nth_num. cbn [x_nums].
  destruct (x_nums f) as [|a [|b [|c l]]]; try (cbn in Hl; lia). reflexivity.
Qed.

Theorem dubbo_buffer_independence : forall hess v f n id mem mem', res (dubbo_decode hess v) = Ok (f, n) ->
  dubbo_encode mem (dubbo_set_id id f) = dubbo_encode mem' (dubbo_set_id id f).
Proof. intros. erewrite !dubbo_fast_path_identity by eassumption. reflexivity. Qed.

(* SetData (repaired): the raw frame is dropped, the encoder writes header fields and the new payload *)
Theorem dubbo_set_data_encode : forall mem f d,
  dubbo_encode mem (dubbo_set_data dubbo_setdata_resets_raw d f) =
  firstn 2 (x_magic f) ++ [nth_num (set_num f 3 (blen d mod U32)) 0; nth_num (set_num f 3 (blen d mod U32)) 1]
  ++ be_enc 8 (nth_num (set_num f 3 (blen d mod U32)) 2) ++ be_enc 4 (nth_num (set_num f 3 (blen d mod U32)) 3) ++ d.
Proof. reflexivity. Qed.

(* ---- dubbo-thrift ---- *)
Lemma thrift_pure_raw tp b f n : thrift_pure tp b = Ok (f, n) ->
  x_raw f = Some (Private (sub b 0 n)) /\ length (x_nums f) = 5%nat.
Proof.
  intros H. pose proof (thrift_pure_ok _ _ _ _ H) as [Hn0 Hnb].
  unfold thrift_pure in H. destruct (blen b <? thrift_MessageLenSize + thrift_MagicLen) eqn:E1; [discriminate|].
  destruct (thrift_MessageLenSize + thrift_fl b <=? blen b) eqn:E2; [|discriminate].
  set (d := sub b 0 (thrift_MessageLenSize + thrift_fl b)) in *.
  assert (Hd : blen d = thrift_MessageLenSize + thrift_fl b).
  { unfold d. rewrite sub_length; lia. }
  assert (H4 : thrift_MessageLenSize <= blen d) by lia.
  pose proof (thrift_body_ok tp d f n H4 H) as [Hn Hle].
  assert (Hfl : be_decw (sub d 0 thrift_MessageLenSize) = thrift_fl b).
  { unfold d. unfold thrift_fl in *. rewrite sub_sub; try lia. reflexivity. }
  rewrite Hfl in Hn.
  unfold thrift_body_pure in H.
  repeat match type of H with context [opt_or_recovered ?o _] => destruct o eqn:?; cbn [opt_or_recovered] in H; [|discriminate] end.
  destruct (tp _) as [[id mt]|]; [|discriminate]. cbn [res ret fst] in H.
  match type of H with Ok (?fr, ?m) = Ok (f, n) => assert (Hf : f = fr) by congruence; assert (Hm : m = n) by congruence end.
  subst f. cbn [x_raw x_nums]. split; [|reflexivity].
  match goal with Hx : l_sub d 0 _ = Some ?raw |- _ => rewrite Hm in Hx; unfold l_sub in Hx; destruct (_ || _) in Hx; [discriminate|];
    assert (Hraw : raw = sub d 0 n) by congruence end.
  rewrite Hraw. unfold d. rewrite <- Hn. rewrite sub_sub by lia. reflexivity.
Qed.

Theorem thrift_fast_path_identity : forall tp v f n id mem, res (thrift_decode tp v) = Ok (f, n) ->
  let idx := (thrift_MessageLenSize + nth_num f 2 + U16 - thrift_IdLen) mod U16 in
  idx + 8 <= n ->
  thrift_encode mem (thrift_set_id id f) = Some (patch (takeN n (vb v)) idx (be_enc 8 (id mod U64))).
Proof.
  intros tp v f n id mem H idx Hi. rewrite thrift_res in H.
  pose proof (thrift_pure_ok _ _ _ _ H) as [_ Hnb]. apply thrift_pure_raw in H. destruct H as [Hr Hl].
  unfold thrift_encode, thrift_set_id, set_num. cbn [x_raw]. rewrite Hr. cbn [deref]. rewrite sub_0.
  unfold nth_num. cbn [x_nums].
  destruct (x_nums f) as [|a [|b [|c [|d l]]]] eqn:En; try (cbn in Hl; lia).
  cbn [firstn skipn app nth].
  assert (Hidx : (thrift_MessageLenSize + c + U16 - thrift_IdLen) mod U16 = idx) by (unfold idx, nth_num; rewrite En; reflexivity).
  rewrite Hidx. rewrite takeN_length by (fold (vlen v); exact Hnb).
  replace (n <? idx + 8) with false by lia. reflexivity.
Qed.
