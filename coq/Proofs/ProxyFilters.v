(* General lemmas about the filter-chain part of Model/Proxy.v (streamfilter/chain.go RunReceiverFilter / RunSenderFilter):
   for EVERY chain, verdict script and state.
   - one pass of a phase calls the receive filters of that phase in strictly increasing configured order (hence each at most
     once), starting at the cursor; send filters likewise;
   - the pass ends with the cursor at 0, except after ReMatchRoute / ReChooseHost, where it stays AT the requesting filter:
     the next pass starts there and never re-runs an earlier filter. *)
From Coq Require Import List ZArith Bool Arith Lia Sorted.
From RecordUpdate Require Import RecordSet.
From MV Require Import Model.Proxy Model.ProxySpec.
Import ListNotations RecordSetNotations.
Open Scope Z_scope.

Definition recv_call (x : out) : list (nat * nat * verdict) := match x with OFilterRecv i p v => [(i, p, v)] | _ => [] end.
Definition recv_calls (o : list out) : list (nat * nat * verdict) := flat_map recv_call o.
Definition send_call (x : out) : list (nat * verdict) := match x with OFilterSend i v => [(i, v)] | _ => [] end.
Definition send_calls (o : list out) : list (nat * verdict) := flat_map send_call o.

Lemma recv_calls_app a b : recv_calls (a ++ b) = recv_calls a ++ recv_calls b.
Proof. unfold recv_calls. apply flat_map_app. Qed.
Lemma send_calls_app a b : send_calls (a ++ b) = send_calls a ++ send_calls b.
Proof. unfold send_calls. apply flat_map_app. Qed.

(* actions that call no filter *)
Definition nofA (a : A) : Prop := forall s, recv_calls (snd (a s)) = [] /\ send_calls (snd (a s)) = [].
Lemma nof_ret : nofA ret. Proof. intros s. cbn. auto. Qed.
Lemma nof_seq a b : nofA a -> nofA b -> nofA (a ;; b).
Proof.
  intros Ha Hb s. unfold aseq. destruct (Ha s) as [A1 A2]. destruct (a s) as [s1 o1]. destruct (Hb s1) as [B1 B2].
  destruct (b s1) as [s2 o2]. cbn [fst snd] in *. now rewrite recv_calls_app, send_calls_app, A1, A2, B1, B2.
Qed.
Lemma nof_ite b a1 a2 : nofA a1 -> nofA a2 -> nofA (ite b a1 a2).
Proof. intros H1 H2 s. unfold ite. destruct (b s); auto. Qed.
Lemma nof_when b a : nofA a -> nofA (when b a).
Proof. intros H s. unfold when. destruct (b s); [apply H|cbn; auto]. Qed.
Lemma nof_emit o : recv_call o = [] -> send_call o = [] -> nofA (emit o).
Proof. intros H1 H2 s. unfold emit. cbn. now rewrite H1, H2. Qed.
Lemma nof_upd f : nofA (upd f). Proof. intros s. cbn. auto. Qed.

Ltac nof_auto :=
  repeat first
    [ assumption | apply nof_ret | apply nof_seq | apply nof_ite | apply nof_when | (apply nof_emit; reflexivity) | apply nof_upd
    | match goal with
      | |- nofA (if ?b then _ else _) => destruct b
      | |- nofA (match ?x with _ => _ end) => destruct x
      end ].

Section F.
Variable src : srcp.
Variable c : cfg.

Lemma nof_res_dec : nofA (res_dec src c).
Proof. intros s. unfold res_dec. destruct (res_off src c); cbn; auto. Qed.
Lemma nof_rs_reset : nofA (rs_reset src c).
Proof. unfold rs_reset. pose proof nof_res_dec. nof_auto. Qed.
Lemma nof_upreq_reset_stream : nofA upreq_reset_stream.
Proof. unfold upreq_reset_stream. apply nof_when. intros s. cbn. auto. Qed.
Lemma nof_clean_up : nofA (clean_up src c).
Proof. unfold clean_up. pose proof nof_rs_reset. nof_auto. Qed.
Lemma nof_clean_stream : nofA (clean_stream src c).
Proof. unfold clean_stream. pose proof nof_upreq_reset_stream. pose proof nof_clean_up. nof_auto. Qed.
Lemma nof_apply_verdict p f v : nofA (apply_verdict src c p f v).
Proof. unfold apply_verdict, hijack, direct_response. pose proof nof_clean_stream. destruct v; nof_auto. Qed.

(* ---- receive filters ---- *)
Definition stops (v : verdict) : bool := match v with VContinue | VHijackCont => false | _ => true end.
Definition keeps_cursor (v : verdict) : bool := match v with VReMatch | VReChoose => true | _ => false end.

(* calls of a pass from cursor i over the remaining filters l: indices strictly increase from i, each filter called belongs
   to phase p and sits at that index, only the last call can be a stopping verdict *)
Inductive pass_ok (p : nat) : list rfilter -> nat -> list (nat * nat * verdict) -> Prop :=
  | pass_nil : forall l i, pass_ok p l i []
  | pass_skip : forall f l i cs, pass_ok p l (S i) cs -> pass_ok p (f :: l) i cs
  | pass_call : forall f l i v cs, f_phase f = p -> (stops v = true -> cs = []) -> pass_ok p l (S i) cs ->
                                   pass_ok p (f :: l) i ((i, p, v) :: cs).

Lemma run_recv_from_pass p l : forall i s, pass_ok p l i (recv_calls (snd (run_recv_from src c p l i s))).
Proof.
  induction l as [|f l IH]; intros i s; cbn [run_recv_from]; [cbn; constructor|].
  destruct (f_phase f =? p)%nat eqn:Ep; [|apply pass_skip; apply IH].
  apply Nat.eqb_eq in Ep.
  set (v := verdict_at (f_verdicts f) (nth i (fcalls s) 0%nat)).
  assert (Hh : forall s0, recv_calls (snd ((upd (fun s1 => s1 <| fcalls := incr_nth (fcalls s1) i |>) ;; emit (OFilterRecv i p v) ;;
                                            apply_verdict src c p f v) s0)) = [(i, p, v)]).
  { intros s0. unfold aseq, upd, emit. destruct (nof_apply_verdict p f v (s0 <| fcalls := incr_nth (fcalls s0) i |>)) as [H1 _].
    destruct (apply_verdict src c p f v (s0 <| fcalls := incr_nth (fcalls s0) i |>)) as [s2 o2]. cbn [fst snd] in *.
    cbn [app]. change (recv_calls (OFilterRecv i p v :: o2)) with ((i, p, v) :: recv_calls o2). now rewrite H1. }
  specialize (Hh s).
  destruct ((upd (fun s1 => s1 <| fcalls := incr_nth (fcalls s1) i |>) ;; emit (OFilterRecv i p v) ;; apply_verdict src c p f v) s) as [s1 o1].
  cbn [fst snd] in Hh.
  destruct v eqn:Ev; cbn [fst snd];
    try (rewrite Hh; apply pass_call; auto; constructor).
  - specialize (IH (S i) s1). destruct (run_recv_from src c p l (S i) s1) as [s2 o2]. cbn [fst snd] in *.
    rewrite recv_calls_app, Hh. cbn [app]. apply pass_call; auto. cbn. discriminate.
  - specialize (IH (S i) s1). destruct (run_recv_from src c p l (S i) s1) as [s2 o2]. cbn [fst snd] in *.
    rewrite recv_calls_app, Hh. cbn [app]. apply pass_call; auto. cbn. discriminate.
Qed.

(* consequences of [pass_ok]: strictly increasing indices >= i, within the chain, all of phase p *)
Lemma pass_ok_bounds p l i cs : pass_ok p l i cs ->
  Forall (fun x => (i <= fst (fst x) < i + length l)%nat /\ snd (fst x) = p /\
                   exists f, nth_error l (fst (fst x) - i) = Some f /\ f_phase f = p) cs.
Proof.
  induction 1 as [l i|f l i cs H IH|f l i v cs Hp Hs H IH]; [constructor| |].
  - eapply Forall_impl; [|exact IH]. intros [[j q] v] (Hj & Hq & g & Hg & Hgp). cbn [fst snd length] in *.
    repeat split; try lia; auto. exists g. split; auto. replace (j - i)%nat with (S (j - S i)) by lia. exact Hg.
  - constructor.
    + cbn [fst snd length]. repeat split; try lia. exists f. rewrite Nat.sub_diag. auto.
    + eapply Forall_impl; [|exact IH]. intros [[j q] w] (Hj & Hq & g & Hg & Hgp). cbn [fst snd length] in *.
      repeat split; try lia; auto. exists g. split; auto. replace (j - i)%nat with (S (j - S i)) by lia. exact Hg.
Qed.

Lemma pass_ok_sorted p l i cs : pass_ok p l i cs -> StronglySorted lt (map (fun x => fst (fst x)) cs).
Proof.
  induction 1 as [l i|f l i cs H IH|f l i v cs Hp Hs H IH]; cbn [map]; [constructor|exact IH|].
  constructor; auto. pose proof (pass_ok_bounds _ _ _ _ H) as Hb.
  apply Forall_forall. intros j Hj. apply in_map_iff in Hj as [x [<- Hx]]. rewrite Forall_forall in Hb.
  destruct (Hb x Hx) as [Hr _]. cbn [fst]. lia.
Qed.

(* the cursor after a pass *)
Lemma run_recv_from_cursor p l : forall i s,
  let s' := fst (run_recv_from src c p l i s) in
  match last (recv_calls (snd (run_recv_from src c p l i s))) (0%nat, 0%nat, VContinue) with
  | (j, _, v) => if keeps_cursor v then rcursor s' = j else rcursor s' = 0%nat
  end.
Proof.
  induction l as [|f l IH]; intros i s; cbn [run_recv_from]; [cbn; reflexivity|].
  destruct (f_phase f =? p)%nat eqn:Ep; [|apply IH].
  set (v := verdict_at (f_verdicts f) (nth i (fcalls s) 0%nat)).
  assert (Hh : forall s0, recv_calls (snd ((upd (fun s1 => s1 <| fcalls := incr_nth (fcalls s1) i |>) ;; emit (OFilterRecv i p v) ;;
                                            apply_verdict src c p f v) s0)) = [(i, p, v)]).
  { intros s0. unfold aseq, upd, emit. destruct (nof_apply_verdict p f v (s0 <| fcalls := incr_nth (fcalls s0) i |>)) as [H1 _].
    destruct (apply_verdict src c p f v (s0 <| fcalls := incr_nth (fcalls s0) i |>)) as [s2 o2]. cbn [fst snd] in *.
    cbn [app]. change (recv_calls (OFilterRecv i p v :: o2)) with ((i, p, v) :: recv_calls o2). now rewrite H1. }
  specialize (Hh s).
  destruct ((upd (fun s1 => s1 <| fcalls := incr_nth (fcalls s1) i |>) ;; emit (OFilterRecv i p v) ;; apply_verdict src c p f v) s) as [s1 o1].
  cbn [fst snd] in Hh.
  destruct v eqn:Ev; cbn [fst snd]; try (rewrite Hh; cbn; reflexivity).
  - specialize (IH (S i) s1). destruct (run_recv_from src c p l (S i) s1) as [s2 o2]. cbn [fst snd] in *.
    rewrite recv_calls_app, Hh. destruct (recv_calls o2) as [|x xs] eqn:E.
    + cbn. cbn in IH. exact IH.
    + cbn [app]. change (last ((i, p, VContinue) :: x :: xs) (0%nat, 0%nat, VContinue)) with (last (x :: xs) (0%nat, 0%nat, VContinue)). exact IH.
  - specialize (IH (S i) s1). destruct (run_recv_from src c p l (S i) s1) as [s2 o2]. cbn [fst snd] in *.
    rewrite recv_calls_app, Hh. destruct (recv_calls o2) as [|x xs] eqn:E.
    + cbn. cbn in IH. exact IH.
    + cbn [app]. change (last ((i, p, VHijackCont) :: x :: xs) (0%nat, 0%nat, VContinue)) with (last (x :: xs) (0%nat, 0%nat, VContinue)). exact IH.
Qed.

End F.

Lemma nth_error_skipn' {X} (l : list X) : forall n k, nth_error (skipn n l) k = nth_error l (n + k).
Proof. induction l as [|x l IH]; intros [|n] k; cbn; auto. now destruct k. Qed.

(* ---- the statements in the form used by Props/C14.v ---- *)
(* one pass of phase p from state s *)
Theorem recv_pass_order : forall src c p s,
  let calls := recv_calls (snd (run_recv src c p s)) in
  StronglySorted lt (map (fun x => fst (fst x)) calls) /\
  Forall (fun x => (rcursor s <= fst (fst x))%nat /\ snd (fst x) = p /\
                   exists f, nth_error (c_recv c) (fst (fst x)) = Some f /\ f_phase f = p) calls.
Proof.
  intros src c p s calls. unfold calls, run_recv.
  pose proof (run_recv_from_pass src c p (skipn (rcursor s) (c_recv c)) (rcursor s) s) as H. split.
  - eapply pass_ok_sorted; eauto.
  - eapply Forall_impl; [|eapply pass_ok_bounds; eauto]. intros [[j q] v] (Hj & Hq & f & Hf & Hp). cbn [fst snd] in *.
    repeat split; try lia; auto. exists f. split; auto.
    rewrite nth_error_skipn' in Hf. replace (rcursor s + (j - rcursor s))%nat with j in Hf by lia. exact Hf.
Qed.

Theorem recv_pass_cursor : forall src c p s,
  let s' := fst (run_recv src c p s) in
  match last (recv_calls (snd (run_recv src c p s))) (0%nat, 0%nat, VContinue) with
  | (j, _, v) => if keeps_cursor v then rcursor s' = j else rcursor s' = 0%nat
  end.
Proof. intros. unfold s', run_recv. apply run_recv_from_cursor. Qed.
