(* Proofs/HeaderKV.v (codec) - the header block codec: termination / no panic of the checked decoder,
   the panic of the unchecked one, encode/decode round trip, length of the encoding. *)
From Coq Require Import List NArith Lia ZifyBool ZifyNat ZifyN Bool.
From MV Require Import Lib.Bytes Lib.Dec Model.CodecParams Model.HeaderKV.
Import ListNotations.
Open Scope N_scope.

(* a successfully decoded string leaves strictly less input *)
Lemma decode_str_ok_len chk i rest s r : decode_str chk false i rest = SOk s r ->
  (length r + 4 <= length rest)%nat /\ rest = firstn 4 rest ++ s ++ r.
Proof.
  unfold decode_str. destruct rest as [|a [|b [|c [|d r0]]]]; try (destruct chk; discriminate).
  destruct (be_decw [a; b; c; d] =? 4294967295); [discriminate|].
  destruct (blen r0 <? be_decw [a; b; c; d]) eqn:E; [discriminate|].
  intros H. inversion H; subst. split.
  - unfold dropN. rewrite skipn_length. cbn [length]. lia.
  - cbn [firstn app]. now rewrite takeN_dropN.
Qed.
Lemma decode_str_inv_len chk i rest r : decode_str chk false i rest = SInvalid r -> (length r + 4 <= length rest)%nat.
Proof.
  unfold decode_str. destruct rest as [|a [|b [|c [|d r0]]]]; try (destruct chk; discriminate).
  destruct (be_decw [a; b; c; d] =? 4294967295); [|destruct (blen r0 <? be_decw [a; b; c; d]); discriminate].
  intros H. inversion H; subst. cbn [length]. lia.
Qed.
Lemma decode_str_checked_no_panic i rest : decode_str true false i rest <> SPanic.
Proof.
  unfold decode_str. destruct rest as [|a [|b [|c [|d r0]]]]; try discriminate.
  destruct (be_decw [a; b; c; d] =? 4294967295); [discriminate|].
  destruct (blen r0 <? be_decw [a; b; c; d]); discriminate.
Qed.

(* the checked loop ends within its fuel and never panics *)
Lemma hdr_loop_total : forall fuel i rest acc, (length rest < fuel)%nat ->
  fst (hdr_loop true false fuel i rest acc) = HOk \/ fst (hdr_loop true false fuel i rest acc) = HErr.
Proof.
  induction fuel as [|k IH]; intros i rest acc Hl; [lia|].
  cbn [hdr_loop]. destruct rest as [|x rest']; [now left|].
  destruct (decode_str true false i (x :: rest')) as [key r|r| |] eqn:E1.
  - apply decode_str_ok_len in E1. destruct E1 as [L1 _].
    destruct (decode_str true false (next_idx false i (x :: rest') r) r) as [val r'|r'| |] eqn:E2.
    + apply decode_str_ok_len in E2. destruct E2 as [L2 _]. apply IH. lia.
    + apply decode_str_inv_len in E2. apply IH. lia.
    + now right.
    + exfalso. eapply decode_str_checked_no_panic; eauto.
  - apply decode_str_inv_len in E1. apply IH. lia.
  - now right.
  - exfalso. eapply decode_str_checked_no_panic; eauto.
Qed.

Theorem hdr_decode_total h : fst (hdr_decode true h) = HOk \/ fst (hdr_decode true h) = HErr.
Proof. unfold hdr_decode, hdr_decode_sw. change hdr_end_u32 with false. apply hdr_loop_total. lia. Qed.

(* the uint32 form of the end test (not the code in the tree: hdr_end_u32 = false) lets a key length of 2^32-3 through:
   4 + (2^32-3) wraps to 1 <= totalLen, and bytes[4:1:1] panics *)
Lemma hdr_decode_u32_panics : fst (hdr_decode_sw true true [255;255;255;253; 1; 2; 3; 4]) = HPanic.
Proof. vm_compute. reflexivity. Qed.

(* the unchecked decoder (mosn.io/pkg header.DecodeHeader) panics on 1-3 dangling bytes *)
Lemma hdr_decode_unchecked_panics : fst (hdr_decode false [0; 1]) = HPanic.
Proof. reflexivity. Qed.

(* ---- encode / decode round trip ------------------------------------------------------------- *)
Definition str_ok (s : bytes) : Prop := blen s < 4294967295.
Definition kvs_ok (kvs : list kv) : Prop := Forall (fun p => str_ok (fst p) /\ str_ok (snd p)) kvs.

Lemma be_enc4_shape v : exists a b c d, be_enc 4 v = [a; b; c; d].
Proof. cbn [be_enc app]. repeat eexists. Qed.

Lemma decode_str_enc chk i s rest : str_ok s -> decode_str chk false i (enc_str s ++ rest) = SOk s rest.
Proof.
  intros Hs. unfold enc_str. destruct (be_enc4_shape (blen s)) as [a [b [c [d E]]]].
  rewrite E. cbn [app]. cbn [decode_str]. rewrite <- E.
  rewrite be_decw_enc. rewrite N.mod_small by (cbn; unfold str_ok in Hs; lia).
  unfold str_ok in Hs. replace (blen s =? 4294967295) with false by lia.
  rewrite blen_app. replace (blen s + blen rest <? blen s) with false by lia.
  rewrite takeN_app_exact, dropN_app_exact. reflexivity.
Qed.

Lemma hdr_encode_length kvs : blen (hdr_encode kvs) = hdr_enc_len kvs.
Proof.
  induction kvs as [|[k v] r IH]; [reflexivity|]. cbn [hdr_encode hdr_enc_len]. unfold enc_str.
  rewrite !blen_app, !be_enc_blen, IH. lia.
Qed.

Lemma enc_str_not_nil s rest : enc_str s ++ rest <> [].
Proof. unfold enc_str. destruct (be_enc4_shape (blen s)) as [a [b [c [d E]]]]. rewrite E. discriminate. Qed.

Lemma hdr_loop_roundtrip chk : forall kvs fuel i acc, kvs_ok kvs -> (length (hdr_encode kvs) < fuel)%nat ->
  hdr_loop chk false fuel i (hdr_encode kvs) acc = (HOk, acc ++ kvs).
Proof.
  induction kvs as [|[k v] r IH]; intros fuel i acc Hok Hf.
  - cbn. destruct fuel; now rewrite app_nil_r.
  - inversion Hok as [|? ? [Hk Hv] Hr]; subst. cbn [fst snd] in *.
    destruct fuel as [|f]; [lia|]. cbn [hdr_encode] in *.
    cbn [hdr_loop]. destruct (enc_str k ++ enc_str v ++ hdr_encode r) eqn:E; [exfalso; eapply enc_str_not_nil; eauto|].
    rewrite <- E. rewrite decode_str_enc by assumption. rewrite decode_str_enc by assumption.
    rewrite IH; [now rewrite <- app_assoc|assumption|].
    rewrite <- E in Hf. rewrite !app_length in Hf. unfold enc_str in Hf. rewrite !app_length, !be_enc_length in Hf. lia.
Qed.

Theorem hdr_roundtrip chk kvs : kvs_ok kvs -> hdr_decode chk (hdr_encode kvs) = (HOk, kvs).
Proof. intros H. unfold hdr_decode, hdr_decode_sw. change hdr_end_u32 with false. rewrite hdr_loop_roundtrip; auto. Qed.

(* a block shorter than 2^32-1 bytes has only representable strings *)
Lemma kvs_ok_of_len kvs : hdr_enc_len kvs < 4294967295 -> kvs_ok kvs.
Proof.
  induction kvs as [|[k v] r IH]; intros H; [constructor|].
  cbn [hdr_enc_len] in H. constructor.
  - cbn [fst snd]. unfold str_ok. split; lia.
  - apply IH. lia.
Qed.
