(* Proofs/Flow.v (group h2): HTTP/2 send-side flow control - flow.add never wraps silently, the accounting
   invariant over every schedule (safety), delivery of the whole body once credit suffices (liveness), and the
   refutation of liveness for a client whose SETTINGS processing does not broadcast. *)
From Coq Require Import List ZArith Bool Lia.
From Coq Require Import ZifyBool ZifyNat ZifyN.
From MV Require Import Model.Flow.
Import ListNotations.
Open Scope Z_scope.

(* ================================================================== int32 *)
Lemma wrap32_id : forall z, i32_min <= z <= i32_max -> wrap32 z = z.
Proof.
  intros z Hz. unfold wrap32, i32_min, i32_max in *.
  rewrite Z.mod_small by lia. lia.
Qed.

Lemma wrap32_hi : forall z, i32_max < z <= i32_max + 4294967296 -> wrap32 z = z - 4294967296.
Proof.
  intros z Hz. unfold wrap32, i32_max in *.
  replace (z + 2147483648) with ((z - 4294967296 + 2147483648) + 1 * 4294967296) by lia.
  rewrite Z.mod_add by lia. rewrite Z.mod_small by lia. lia.
Qed.

Lemma wrap32_lo : forall z, i32_min - 4294967296 <= z < i32_min -> wrap32 z = z + 4294967296.
Proof.
  intros z Hz. unfold wrap32, i32_min in *.
  replace (z + 2147483648) with ((z + 4294967296 + 2147483648) + (-1) * 4294967296) by lia.
  rewrite Z.mod_add by lia. rewrite Z.mod_small by lia. lia.
Qed.

(* flow.add: succeeds exactly when the mathematical sum is an int32, and then stores it; otherwise the window is
   left alone and false is returned - it never stores a wrapped value *)
Theorem flow_add_spec : forall n delta,
  i32_min <= n <= i32_max -> i32_min <= delta <= i32_max ->
  (i32_min <= n + delta <= i32_max -> flow_add n delta = (n + delta, true)) /\
  (~ (i32_min <= n + delta <= i32_max) -> flow_add n delta = (n, false)).
Proof.
  intros n delta Hn Hd. unfold flow_add.
  assert (Hc : i32_min <= n + delta <= i32_max \/ i32_max < n + delta \/ n + delta < i32_min) by lia.
  destruct Hc as [Hin | [Hhi | Hlo]].
  - rewrite wrap32_id by exact Hin. split; [intros _ | intros Hf; contradiction].
    destruct (Bool.eqb (delta <? n + delta) (0 <? n)) eqn:E; [reflexivity|].
    exfalso. apply Bool.eqb_false_iff in E. apply E.
    destruct (0 <? n) eqn:E2; lia.
  - rewrite wrap32_hi by (unfold i32_max, i32_min in *; lia).
    split; [intros Hf; unfold i32_max, i32_min in *; lia | intros _].
    destruct (Bool.eqb (delta <? n + delta - 4294967296) (0 <? n)) eqn:E; [|reflexivity].
    exfalso. apply Bool.eqb_prop in E. unfold i32_max, i32_min in *. lia.
  - rewrite wrap32_lo by (unfold i32_max, i32_min in *; lia).
    split; [intros Hf; unfold i32_max, i32_min in *; lia | intros _].
    destruct (Bool.eqb (delta <? n + delta + 4294967296) (0 <? n)) eqn:E; [|reflexivity].
    exfalso. apply Bool.eqb_prop in E. unfold i32_max, i32_min in *. lia.
Qed.

Lemma flow_add_ok : forall n delta, i32_min <= n <= i32_max -> i32_min <= delta <= i32_max ->
  i32_min <= n + delta <= i32_max -> flow_add n delta = (n + delta, true).
Proof. intros n d Hn Hd H. exact (proj1 (flow_add_spec n d Hn Hd) H). Qed.

Lemma flow_add_cases : forall n delta, i32_min <= n <= i32_max -> i32_min <= delta <= i32_max ->
  (flow_add n delta = (n + delta, true) /\ i32_min <= n + delta <= i32_max) \/
  (flow_add n delta = (n, false) /\ ~ (i32_min <= n + delta <= i32_max)).
Proof.
  intros n d Hn Hd. destruct (flow_add_spec n d Hn Hd) as [H1 H2].
  assert (Hc : i32_min <= n + d <= i32_max \/ ~ (i32_min <= n + d <= i32_max)) by lia.
  destruct Hc as [Hc | Hc]; [left | right]; auto.
Qed.

(* ================================================================== streams as an association list *)
Fixpoint sum_f (f : strm -> Z) (l : list strm) : Z := match l with [] => 0 | s :: r => f s + sum_f f r end.

Lemma sum_f_app : forall f a b, sum_f f (a ++ b) = sum_f f a + sum_f f b.
Proof. intros f a b. induction a as [|x a IH]; cbn [sum_f app] in *; lia. Qed.

Lemma find_s_some : forall sid l s, find_s sid l = Some s -> In s l /\ s_id s = sid.
Proof.
  intros sid l s H. unfold find_s in H. apply find_some in H. destruct H as [H1 H2].
  unfold has_id in H2. split; [exact H1 | lia].
Qed.

Lemma has_s_true : forall sid l, has_s sid l = true <-> exists s, In s l /\ s_id s = sid.
Proof.
  intros sid l. unfold has_s. rewrite existsb_exists. unfold has_id.
  split; intros [s [H1 H2]]; exists s; split; try assumption; lia.
Qed.

Lemma has_s_false : forall sid l, has_s sid l = false -> forall s, In s l -> s_id s <> sid.
Proof.
  intros sid l H s Hin Heq. assert (Ht : has_s sid l = true) by (apply has_s_true; exists s; auto). congruence.
Qed.

Lemma find_s_none : forall sid l, find_s sid l = None -> has_s sid l = false.
Proof.
  intros sid l H. destruct (has_s sid l) eqn:E; [|reflexivity].
  apply has_s_true in E. destruct E as [s [Hin Hid]].
  unfold find_s in H. apply (find_none _ _ H) in Hin. unfold has_id in Hin. lia.
Qed.

Lemma find_s_has : forall sid l s, find_s sid l = Some s -> has_s sid l = true.
Proof. intros sid l s H. apply has_s_true. exists s. apply find_s_some. exact H. Qed.

Lemma has_s_app : forall sid a b, has_s sid (a ++ b) = has_s sid a || has_s sid b.
Proof. intros. unfold has_s. apply existsb_app. Qed.

Lemma nodup_id_eq : forall l s1 s2, NoDup (map s_id l) -> In s1 l -> In s2 l -> s_id s1 = s_id s2 -> s1 = s2.
Proof.
  induction l as [|x l IH]; intros s1 s2 Hnd H1 H2 Heq; [contradiction|].
  cbn [map] in Hnd. inversion Hnd as [|? ? Hnot Hnd']; subst.
  destruct H1 as [H1 | H1]; destruct H2 as [H2 | H2]; subst.
  - reflexivity.
  - exfalso. apply Hnot. rewrite Heq. apply in_map. exact H2.
  - exfalso. apply Hnot. rewrite <- Heq. apply in_map. exact H1.
  - apply IH; assumption.
Qed.

Lemma find_s_nodup : forall l s, NoDup (map s_id l) -> In s l -> find_s (s_id s) l = Some s.
Proof.
  intros l s Hnd Hin. destruct (find_s (s_id s) l) as [s'|] eqn:E.
  - apply find_s_some in E. destruct E as [E1 E2]. f_equal. apply (nodup_id_eq l); auto.
  - apply find_s_none in E. exfalso. exact (has_s_false _ _ E s Hin eq_refl).
Qed.

Lemma in_upd_s : forall sid f l s', In s' (upd_s sid f l) ->
  exists s, In s l /\ s' = (if has_id sid s then f s else s).
Proof.
  intros sid f l s' H. unfold upd_s in H. apply in_map_iff in H. destruct H as [s [H1 H2]]. exists s. auto.
Qed.

Lemma in_upd_s_nodup : forall sid f l s s', NoDup (map s_id l) -> find_s sid l = Some s ->
  In s' (upd_s sid f l) -> s' = f s \/ (In s' l /\ s_id s' <> sid).
Proof.
  intros sid f l s s' Hnd Hf Hin. apply in_upd_s in Hin. destruct Hin as [s0 [H0 Hs']].
  apply find_s_some in Hf. destruct Hf as [Hf1 Hf2]. unfold has_id in Hs'.
  destruct (s_id s0 =? sid) eqn:E.
  - left. assert (s0 = s) by (apply (nodup_id_eq l); auto; lia). subst. reflexivity.
  - right. subst s'. split; [exact H0 | lia].
Qed.

Lemma upd_s_ids : forall sid f l, (forall s, s_id (f s) = s_id s) -> map s_id (upd_s sid f l) = map s_id l.
Proof.
  intros sid f l Hf. unfold upd_s. rewrite map_map. apply map_ext. intro s.
  destruct (has_id sid s); [apply Hf | reflexivity].
Qed.

Lemma has_s_ids : forall sid l l', map s_id l = map s_id l' -> has_s sid l = has_s sid l'.
Proof.
  intros sid l. induction l as [|x l IH]; intros l' H; destruct l' as [|y l']; cbn [map] in H; try discriminate; [reflexivity|].
  injection H as H1 H2. cbn [has_s existsb]. unfold has_s in IH. rewrite (IH l' H2). unfold has_id. rewrite H1. reflexivity.
Qed.

Lemma sum_f_upd : forall g sid f l s, NoDup (map s_id l) -> In s l -> s_id s = sid ->
  sum_f g (upd_s sid f l) = sum_f g l + (g (f s) - g s).
Proof.
  intros g sid f l. induction l as [|x l IH]; intros s Hnd Hin Hid; [contradiction|].
  cbn [map] in Hnd. inversion Hnd as [|? ? Hnot Hnd']; subst.
  cbn [upd_s map sum_f]. fold (upd_s (s_id s) f l). fold (sum_f g (upd_s (s_id s) f l)). fold (sum_f g l).
  destruct Hin as [Hin | Hin].
  - subst x. unfold has_id at 1. rewrite Z.eqb_refl.
    assert (Hsame : upd_s (s_id s) f l = l).
    { unfold upd_s. rewrite <- (map_id l) at 2. apply map_ext_in. intros y Hy. unfold has_id.
      destruct (s_id y =? s_id s) eqn:E; [|reflexivity]. exfalso. apply Hnot. apply Z.eqb_eq in E. rewrite <- E. apply in_map. exact Hy. }
    rewrite Hsame. lia.
  - assert (Hne : s_id x <> s_id s). { intro E. apply Hnot. rewrite E. apply in_map. exact Hin. }
    unfold has_id at 1. destruct (s_id x =? s_id s) eqn:E; [lia|].
    rewrite (IH s Hnd' Hin eq_refl). lia.
Qed.

Lemma sum_f_upd_same : forall g sid f l, (forall s, g (f s) = g s) -> sum_f g (upd_s sid f l) = sum_f g l.
Proof.
  intros g sid f l Hf. induction l as [|x l IH]; [reflexivity|].
  cbn [upd_s map sum_f]. fold (upd_s sid f l). fold (sum_f g (upd_s sid f l)). fold (sum_f g l).
  rewrite IH. destruct (has_id sid x); [rewrite Hf|]; reflexivity.
Qed.

Lemma sum_f_map_same : forall g (h : strm -> strm) l, (forall s, g (h s) = g s) -> sum_f g (map h l) = sum_f g l.
Proof.
  intros g h l Hh. induction l as [|x l IH]; [reflexivity|].
  cbn [map sum_f]. fold (sum_f g (map h l)). fold (sum_f g l). rewrite IH, Hh. reflexivity.
Qed.

Lemma sum_f_ge : forall g l s, (forall x, In x l -> 0 <= g x) -> In s l -> g s <= sum_f g l.
Proof.
  intros g l. induction l as [|x l IH]; intros s Hpos Hin; [contradiction|].
  cbn [sum_f]. fold (sum_f g l).
  assert (H0 : 0 <= sum_f g l).
  { clear IH Hin. induction l as [|y l IHl]; cbn [sum_f]; [lia|]. fold (sum_f g l).
    assert (0 <= g y) by (apply Hpos; right; left; reflexivity).
    assert (0 <= sum_f g l) by (apply IHl; intros z Hz; apply Hpos; destruct Hz as [Hz|Hz]; [left; exact Hz | right; right; exact Hz]). lia. }
  destruct Hin as [Hin | Hin].
  - subst. lia.
  - assert (g s <= sum_f g l) by (apply IH; [intros z Hz; apply Hpos; right; exact Hz | exact Hin]).
    assert (0 <= g x) by (apply Hpos; left; reflexivity). lia.
Qed.

Lemma sum_f_le2 : forall g h l, (forall x, In x l -> g x <= h x) -> sum_f g l <= sum_f h l.
Proof.
  intros g h l. induction l as [|x l IH]; intros H; cbn [sum_f]; [lia|]. fold (sum_f g l). fold (sum_f h l).
  assert (g x <= h x) by (apply H; left; reflexivity).
  assert (sum_f g l <= sum_f h l) by (apply IH; intros z Hz; apply H; right; exact Hz). lia.
Qed.

(* sum of (h - g) over the list, pointwise bound for one element *)
Lemma sum_f_gap : forall g h l s, (forall x, In x l -> g x <= h x) -> In s l ->
  h s - g s <= sum_f h l - sum_f g l.
Proof.
  intros g h l. induction l as [|x l IH]; intros s H Hin; [contradiction|].
  cbn [sum_f]. fold (sum_f g l). fold (sum_f h l).
  assert (Hl : sum_f g l <= sum_f h l) by (apply sum_f_le2; intros z Hz; apply H; right; exact Hz).
  assert (Hx : g x <= h x) by (apply H; left; reflexivity).
  destruct Hin as [Hin | Hin].
  - subst. lia.
  - assert (h s - g s <= sum_f h l - sum_f g l) by (apply IH; [intros z Hz; apply H; right; exact Hz | exact Hin]). lia.
Qed.

Lemma NoDup_app_one : forall (l : list Z) x, NoDup l -> ~ In x l -> NoDup (l ++ [x]).
Proof.
  induction l as [|y l IH]; intros x Hnd Hx; cbn [app].
  - constructor; [intros [] | constructor].
  - inversion Hnd as [|? ? Hy Hnd']; subst. constructor.
    + intro Hin. apply in_app_iff in Hin. destruct Hin as [Hin | [Hin | []]]; [exact (Hy Hin)|]. subst. apply Hx. left. reflexivity.
    + apply IH; [exact Hnd'|]. intro Hin. apply Hx. right. exact Hin.
Qed.

Lemma mem_z_true : forall x l, mem_z x l = true <-> In x l.
Proof.
  intros x l. unfold mem_z. rewrite existsb_exists. split.
  - intros [y [H1 H2]]. apply Z.eqb_eq in H2. subst. exact H1.
  - intros H. exists x. split; [exact H | apply Z.eqb_refl].
Qed.

(* ================================================================== frame lists *)
Lemma sent_total_app : forall a b, sent_total (a ++ b) = sent_total a + sent_total b.
Proof. intros a b. induction a as [|x a IH]; cbn [sent_total app]; lia. Qed.

Lemma frames_of_app : forall sid a b, frames_of sid (a ++ b) = frames_of sid a ++ frames_of sid b.
Proof.
  intros sid a b. induction a as [|x a IH]; cbn [frames_of app]; [reflexivity|].
  destruct (f_sid x =? sid); [cbn [app]; rewrite IH|]; auto.
Qed.

Lemma len_sum_app : forall a b, len_sum (a ++ b) = len_sum a + len_sum b.
Proof. intros a b. induction a as [|x a IH]; cbn [len_sum app]; lia. Qed.

Lemma sent_on_app : forall sid a b, sent_on sid (a ++ b) = sent_on sid a + sent_on sid b.
Proof. intros. unfold sent_on. rewrite frames_of_app. apply len_sum_app. Qed.

Lemma contig_app : forall a b p, contig p a -> contig (p + len_sum a) b -> contig p (a ++ b).
Proof.
  induction a as [|x a IH]; intros b p Ha Hb; cbn [app len_sum contig] in *.
  - replace (p + 0) with p in Hb by lia. exact Hb.
  - destruct Ha as [H1 [H2 H3]]. split; [exact H1|]. split; [exact H2|].
    apply IH; [exact H3|]. replace (p + snd x + len_sum a) with (p + (snd x + len_sum a)) by lia. exact Hb.
Qed.

Lemma len_sum_nonneg : forall l p, contig p l -> 0 <= len_sum l.
Proof. induction l as [|x l IH]; intros p H; cbn [len_sum contig] in *; [lia|]. destruct H as [_ [H2 H3]]. specialize (IH _ H3). lia. Qed.

Definition frame_ok (ch sid t : Z) (f : frame) : Prop := f_sid f = sid /\ 0 < f_len f /\ f_len f <= ch /\ f_len f <= t.

Lemma frames_of_other : forall sid sid' fs, (forall f, In f fs -> f_sid f = sid) -> sid' <> sid -> frames_of sid' fs = [].
Proof.
  intros sid sid' fs. induction fs as [|x fs IH]; intros H Hne; cbn [frames_of]; [reflexivity|].
  assert (Hx : f_sid x = sid) by (apply H; left; reflexivity).
  destruct (f_sid x =? sid') eqn:E; [lia|]. apply IH; [intros f Hf; apply H; right; exact Hf | exact Hne].
Qed.

Lemma chunks_fuel_spec : forall fuel ch sid off t, 0 < ch -> 0 <= t <= Z.of_nat fuel * ch ->
  let fs := chunks_fuel fuel ch sid off t in
  sent_total fs = t /\ (forall f, In f fs -> frame_ok ch sid t f) /\
  contig off (frames_of sid fs) /\ len_sum (frames_of sid fs) = t.
Proof.
  induction fuel as [|fuel IH]; intros ch sid off t Hch Ht; cbn zeta.
  - cbn [chunks_fuel sent_total frames_of contig len_sum]. assert (t = 0) by lia. subst. split; [reflexivity|]. split; [intros ? []|]. split; [exact I | reflexivity].
  - cbn [chunks_fuel]. destruct (t <=? 0) eqn:E.
    + cbn [sent_total frames_of contig len_sum]. assert (t = 0) by lia. subst. split; [reflexivity|]. split; [intros ? []|]. split; [exact I | reflexivity].
    + assert (Hl : 0 < Z.min t ch <= t) by lia.
      assert (Hr : 0 <= t - Z.min t ch <= Z.of_nat fuel * ch) by lia.
      destruct (IH ch sid (off + Z.min t ch) (t - Z.min t ch) Hch Hr) as [I1 [I2 [I3 I4]]].
      cbn [sent_total frames_of f_sid f_off f_len fst snd]. rewrite Z.eqb_refl. cbn [contig len_sum fst snd].
      split; [rewrite I1; lia|]. split.
      * intros f [Hf | Hf].
        -- subst f. unfold frame_ok. cbn [f_sid f_len fst snd]. lia.
        -- specialize (I2 f Hf). unfold frame_ok in *. lia.
      * split; [|rewrite I4; lia]. split; [reflexivity|]. split; [lia | exact I3].
Qed.

Lemma chunks_spec : forall ch sid off t, 0 < ch -> 0 <= t ->
  let fs := chunks ch sid off t in
  sent_total fs = t /\ (forall f, In f fs -> frame_ok ch sid t f) /\
  contig off (frames_of sid fs) /\ len_sum (frames_of sid fs) = t.
Proof.
  intros ch sid off t Hch Ht. unfold chunks. apply chunks_fuel_spec; [exact Hch|].
  split; [exact Ht|]. rewrite Nat2Z.inj_add, Z2Nat.id by (apply Z.div_pos; lia).
  pose proof (Z.mod_pos_bound t ch Hch). pose proof (Z.div_mod t ch ltac:(lia)). cbn [Z.of_nat Pos.of_succ_nat]. nia.
Qed.

(* ================================================================== schedules *)
Lemma run_app : forall g a b c, run g c (a ++ b) =
  (fst (run g (fst (run g c a)) b), snd (run g c a) ++ snd (run g (fst (run g c a)) b)).
Proof.
  intros g a. induction a as [|e a IH]; intros b c; cbn [run app fst snd].
  - destruct (run g c b); reflexivity.
  - rewrite IH. cbn [fst snd]. rewrite app_assoc. reflexivity.
Qed.

Lemma run_one : forall g c e, run g c [e] = (fst (step g c e), snd (step g c e) ++ []).
Proof. intros. reflexivity. Qed.

Lemma effective_app : forall g a b c, effective g c (a ++ b) = effective g c a ++ effective g (fst (run g c a)) b.
Proof.
  intros g a. induction a as [|e a IH]; intros b c; cbn [effective run app fst]; [reflexivity|].
  rewrite IH. rewrite app_assoc. reflexivity.
Qed.

Lemma gledger_snoc : forall cw i0 m0 p e, gledger cw i0 m0 (p ++ [e]) = gstep (gledger cw i0 m0 p) e.
Proof. intros. unfold gledger. rewrite fold_left_app. reflexivity. Qed.

Lemma sledger_snoc : forall sid p e, sledger sid (p ++ [e]) = sstep sid (sledger sid p) e.
Proof. intros. unfold sledger. rewrite fold_left_app. reflexivity. Qed.

(* ================================================================== the accounting invariant *)
Ltac csimpl := cbn [c_win c_mfs c_init c_strs c_wait c_err c_panic broadcast with_strs with_win with_mfs with_init
                    set_err set_panic park fst snd s_id s_win s_body s_sent set_win took
                    gl_init gl_conn gl_mfs gl_ids gl_bodies sl_open sl_incs sl_body] in *.

Lemma winupd_wake_shape : forall g ex c, exists w,
  (w = [] \/ (w = c_wait c /\ g_wu_always g = false)) /\
  winupd_wake g ex c = mkC (c_win c) (c_mfs c) (c_init c) (c_strs c) w (c_err c) (c_panic c).
Proof.
  intros g ex c. unfold winupd_wake. destruct (g_wu_always g) eqn:E; cbn [orb].
  - exists []. split; [left; reflexivity | reflexivity].
  - destruct ex.
    + exists []. split; [left; reflexivity | reflexivity].
    + exists (c_wait c). split; [right; split; reflexivity | destruct c; reflexivity].
Qed.

(* every wake-up the liveness argument needs is in the code: SETTINGS processing broadcasts (always on the server,
   on the client iff the source has it) and WINDOW_UPDATE processing broadcasts unconditionally *)
Definition wakes_ok (g : cfg) : Prop := (g_wakes g = true \/ g_side g = Server) /\ g_wu_always g = true.

Section Invariant.
Variable g : cfg.
Hypothesis Hchunk : 0 < g_chunk g.

(* one stream against its ledger S and the frames emitted so far *)
Definition str_ok (c : conn) (S : sled) (fs : list frame) (s : strm) : Prop :=
  sl_open S = true /\ sl_body S = s_body s /\ 0 <= sl_incs S /\
  0 <= s_sent s <= s_body s /\
  s_win s <= i32_max /\
  (c_err c = false -> c_init c - i32_max <= s_win s) /\
  s_win s + s_sent s <= c_init c + sl_incs S /\
  contig 0 (frames_of (s_id s) fs) /\ sent_on (s_id s) fs = s_sent s.

(* c: state; G, S: ledgers of the handled events; B: "the peer kept every credit within 2^31-1 so far";
   fs: the DATA frames emitted so far *)
Record Inv (c : conn) (G : gled) (S : Z -> sled) (B : Prop) (fs : list frame) : Prop := mkInv {
  i_panic : c_panic c = false;
  i_init : c_init c = gl_init G /\ 0 <= c_init c <= i32_max;
  i_mfs : c_mfs c = gl_mfs G /\ 16384 <= c_mfs c <= 16777215;
  i_cwin : 0 <= c_win c <= i32_max;
  i_conn : c_win c + sent_total fs <= gl_conn G;
  i_nodup : NoDup (map s_id (c_strs c));
  i_ids : forall sid, mem_z sid (gl_ids G) = has_s sid (c_strs c);
  i_bodies : gl_bodies G = sum_f s_body (c_strs c);
  i_total : sent_total fs = sum_f s_sent (c_strs c);
  i_closed : forall sid, has_s sid (c_strs c) = false -> sl_open (S sid) = false /\ frames_of sid fs = [];
  i_strs : forall s, In s (c_strs c) -> str_ok c (S (s_id s)) fs s;
  i_wait : forall sid, In sid (c_wait c) -> has_s sid (c_strs c) = true;
  (* while every add succeeded the accounting is exact *)
  i_exact : B -> c_err c = false /\ c_win c + sent_total fs = gl_conn G /\
            forall s, In s (c_strs c) -> s_win s + s_sent s = c_init c + sl_incs (S (s_id s));
  (* a sender sleeps only while it has nothing to take - needs the broadcast of SETTINGS processing *)
  i_parked : wakes_ok g -> c_err c = false ->
            forall s, In s (c_strs c) -> In (s_id s) (c_wait c) -> flow_available (s_win s) (c_win c) <= 0
}.

Definition Snext (S : Z -> sled) (e : event) : Z -> sled := fun sid => sstep sid (S sid) e.
(* what B' must give: B held before, and the credits after the event are within int32 *)
Definition Bnext (G : gled) (S : Z -> sled) (B B' : Prop) (e : event) : Prop :=
  B' -> B /\ gl_conn (gstep G e) <= i32_max /\ forall sid, gl_init (gstep G e) + sl_incs (Snext S e sid) <= i32_max.

Lemma str_ok_frames : forall c S fs fs' s,
  str_ok c S fs s -> frames_of (s_id s) fs' = frames_of (s_id s) fs -> str_ok c S fs' s.
Proof.
  intros c S fs fs' s H E. unfold str_ok, sent_on in *. rewrite E. exact H.
Qed.

(* events that leave windows and ledgers alone; only the wait set (and possibly max frame size) changes *)
Lemma inv_same : forall c c' G G' S S' (B B' : Prop) fs,
  Inv c G S B fs ->
  c_panic c' = c_panic c -> c_init c' = c_init c -> c_win c' = c_win c -> c_strs c' = c_strs c -> c_err c' = c_err c ->
  gl_init G' = gl_init G -> gl_conn G' = gl_conn G -> gl_ids G' = gl_ids G -> gl_bodies G' = gl_bodies G ->
  (c_mfs c' = gl_mfs G' /\ 16384 <= c_mfs c' <= 16777215) ->
  (forall sid, S' sid = S sid) -> (B' -> B) ->
  (forall sid, In sid (c_wait c') -> has_s sid (c_strs c) = true) ->
  (wakes_ok g -> c_err c = false ->
      forall s, In s (c_strs c) -> In (s_id s) (c_wait c') -> flow_available (s_win s) (c_win c) <= 0) ->
  Inv c' G' S' B' fs.
Proof.
  intros c c' G G' S S' B B' fs I Hp Hi Hw Hs He Gi Gc Gd Gb Hm HS HB Hwt Hpk.
  destruct I. constructor; rewrite ?Hp, ?Hi, ?Hw, ?Hs, ?He, ?Gi, ?Gc, ?Gd, ?Gb; try assumption.
  - intros sid. rewrite HS. auto.
  - intros s Hin. rewrite HS. specialize (i_strs0 s Hin). unfold str_ok in *. rewrite He, Hi. exact i_strs0.
  - intros HB'. specialize (i_exact0 (HB HB')). destruct i_exact0 as [E1 [E2 E3]].
    split; [exact E1|]. split; [exact E2|]. intros s Hin. rewrite HS. auto.
Qed.

Lemma flow_available_le : forall sw cw, flow_available sw cw <= sw /\ flow_available sw cw <= cw.
Proof. intros. unfold flow_available. destruct (cw <? sw) eqn:E; lia. Qed.
Lemma flow_available_mono : forall sw cw cw', cw' <= cw -> flow_available sw cw' <= flow_available sw cw.
Proof. intros. unfold flow_available. destruct (cw <? sw) eqn:E; destruct (cw' <? sw) eqn:E'; lia. Qed.

Lemma step_not_peer : forall c e, is_peer_frame e = false -> dropped c e = false.
Proof. intros c e H. unfold dropped. rewrite H. apply andb_false_r. Qed.

(* ------------------------------------------------------------------ EWake *)
Lemma inv_wake : forall c G S (B B' : Prop) fs, Inv c G S B fs -> (B' -> B) ->
  Inv (broadcast c) G (Snext S EWake) B' fs.
Proof.
  intros c G S B B' fs I HB.
  apply (inv_same c (broadcast c) G G S (Snext S EWake) B B' fs I); try reflexivity; try assumption.
  - destruct I. assumption.
  - intros sid []. 
  - intros _ _ s _ [].
Qed.

(* ------------------------------------------------------------------ EOpen *)
Lemma inv_open : forall c G S (B B' : Prop) fs sid b,
  Inv c G S B fs -> 0 <= b -> (B' -> B) ->
  Inv (fst (step g c (EOpen sid b))) (gstep G (EOpen sid b)) (Snext S (EOpen sid b)) B'
      (fs ++ snd (step g c (EOpen sid b))).
Proof.
  intros c G S B B' fs sid b I Hb HB. unfold step. rewrite step_not_peer by reflexivity.
  destruct (has_s sid (c_strs c)) eqn:Eh; cbn [fst snd]; rewrite ?app_nil_r.
  - (* already there: ignored *)
    assert (Hm : mem_z sid (gl_ids G) = true) by (rewrite (i_ids _ _ _ _ _ I); exact Eh).
    apply (inv_same c c G _ S _ B B' fs I); try reflexivity; try assumption;
      cbn [gstep]; rewrite ?Hm; try reflexivity.
    + destruct I; assumption.
    + intros x. unfold Snext. cbn [sstep]. destruct (sid =? x) eqn:E; [|reflexivity].
      apply Z.eqb_eq in E. subst x. apply has_s_true in Eh. destruct Eh as [s [Hin Hid]].
      destruct (i_strs _ _ _ _ _ I s Hin) as [Ho _]. rewrite Hid in Ho. rewrite Ho. reflexivity.
    + destruct I; assumption.
    + destruct I; assumption.
  - (* new stream *)
    assert (Hm : mem_z sid (gl_ids G) = false) by (rewrite (i_ids _ _ _ _ _ I); exact Eh).
    destruct (i_closed _ _ _ _ _ I sid Eh) as [Hcl Hfr].
    destruct (i_init _ _ _ _ _ I) as [Hi1 Hi2].
    assert (Hadd : flow_add 0 (c_init c) = (c_init c, true)).
    { rewrite flow_add_ok; unfold i32_min, i32_max in *; try lia. f_equal. }
    rewrite Hadd. cbn [fst].
    assert (Hnew : Snext S (EOpen sid b) sid = mkSL true 0 b).
    { unfold Snext. cbn [sstep]. rewrite Z.eqb_refl, Hcl. reflexivity. }
    assert (Hold : forall x, x <> sid -> Snext S (EOpen sid b) x = S x).
    { intros x Hx. unfold Snext. cbn [sstep]. destruct (sid =? x) eqn:E; [lia | reflexivity]. }
    destruct I. constructor; csimpl; cbn [gstep]; rewrite ?Hm; csimpl; try assumption.
    + rewrite map_app. cbn [map]. csimpl. apply NoDup_app_one; [exact i_nodup0|].
      intro Hin. apply in_map_iff in Hin. destruct Hin as [s [H1 H2]]. exact (has_s_false _ _ Eh s H2 H1).
    + intros x. rewrite has_s_app. cbn [mem_z existsb has_s]. unfold has_id. cbn [s_id]. fold (mem_z x (gl_ids G)).
      rewrite i_ids0. rewrite orb_false_r. rewrite Z.eqb_sym. apply orb_comm.
    + rewrite sum_f_app. cbn [sum_f s_body]. lia.
    + rewrite sum_f_app. cbn [sum_f s_sent]. lia.
    + intros x Hx. rewrite has_s_app in Hx. apply orb_false_iff in Hx. destruct Hx as [Hx1 Hx2].
      cbn [has_s existsb] in Hx2. unfold has_id in Hx2. cbn [s_id] in Hx2. rewrite Hold by lia. apply i_closed0. exact Hx1.
    + intros s Hin. apply in_app_iff in Hin. destruct Hin as [Hin | [Hin | []]].
      * rewrite Hold by (exact (has_s_false _ _ Eh s Hin)). specialize (i_strs0 s Hin). exact i_strs0.
      * subst s. csimpl. rewrite Hnew. unfold str_ok, sent_on. csimpl. rewrite Hfr. cbn [contig len_sum].
        unfold i32_max in *. repeat split; try lia.
    + intros x Hx. rewrite has_s_app. rewrite (i_wait0 x Hx). reflexivity.
    + intros HB'. destruct (i_exact0 (HB HB')) as [E1 [E2 E3]]. split; [exact E1|]. split; [exact E2|].
      intros s Hin. apply in_app_iff in Hin. destruct Hin as [Hin | [Hin | []]].
      * rewrite Hold by (exact (has_s_false _ _ Eh s Hin)). auto.
      * subst s. csimpl. rewrite Hnew. csimpl. lia.
    + intros Hw He s Hin Hwt. apply in_app_iff in Hin. destruct Hin as [Hin | [Hin | []]].
      * auto.
      * subst s. csimpl. apply i_wait0 in Hwt. congruence.
Qed.

(* ------------------------------------------------------------------ EWinUpd *)
Lemma inv_winupd : forall c G S (B B' : Prop) fs sid inc,
  Inv c G S B fs -> 1 <= inc <= i32_max -> c_err c = false -> Bnext G S B B' (EWinUpd sid inc) ->
  Inv (fst (step g c (EWinUpd sid inc))) (gstep G (EWinUpd sid inc)) (Snext S (EWinUpd sid inc)) B'
      (fs ++ snd (step g c (EWinUpd sid inc))).
Proof.
  intros c G S B B' fs sid inc I Hinc Herr HB. unfold step, dropped. rewrite Herr. cbn [andb gstep].
  destruct (find_s sid (c_strs c)) as [s|] eqn:Ef; cbn [fst snd]; rewrite ?app_nil_r.
  2:{ apply find_s_none in Ef. destruct (i_closed _ _ _ _ _ I sid Ef) as [Hcl _].
      apply (inv_same c c G G S _ B B' fs I); try reflexivity; try (destruct I; assumption).
      - intros x. unfold Snext. cbn [sstep]. destruct (sid =? x) eqn:E; [|reflexivity].
        apply Z.eqb_eq in E. subst x. rewrite Hcl. reflexivity.
      - intros HB'. exact (proj1 (HB HB')). }
  destruct (find_s_some _ _ _ Ef) as [Hin Hid].
  destruct (i_strs _ _ _ _ _ I s Hin) as [So [Sb [Si [Ss [Swm [Swl [Sle [Sc Sn]]]]]]]].
  rewrite Hid in *. specialize (Swl Herr).
  destruct (i_init _ _ _ _ _ I) as [Hi1 Hi2].
  assert (Hnew : Snext S (EWinUpd sid inc) sid = mkSL true (sl_incs (S sid) + inc) (sl_body (S sid))).
  { unfold Snext. cbn [sstep]. rewrite Z.eqb_refl, So. reflexivity. }
  assert (Hold : forall x, x <> sid -> Snext S (EWinUpd sid inc) x = S x).
  { intros x Hx. unfold Snext. cbn [sstep]. destruct (sid =? x) eqn:E; [lia | reflexivity]. }
  rewrite wrap32_id by (unfold i32_min, i32_max in *; lia).
  destruct (flow_add_cases (s_win s) inc) as [[Ha Hr] | [Ha Hr]]; try (unfold i32_min, i32_max in *; lia);
    rewrite Ha; cbn [fst snd]; rewrite ?app_nil_r.
  - (* the add succeeded *)
    assert (Hu : forall s', In s' (upd_s sid (set_win (s_win s + inc)) (c_strs c)) ->
                 s' = set_win (s_win s + inc) s \/ (In s' (c_strs c) /\ s_id s' <> sid)).
    { intros s' Hs'. apply (in_upd_s_nodup sid _ (c_strs c) s s'); auto. destruct I; assumption. }
    assert (Hids : map s_id (upd_s sid (set_win (s_win s + inc)) (c_strs c)) = map s_id (c_strs c)) by (apply upd_s_ids; reflexivity).
    destruct (winupd_wake_shape g (flow_available (s_win s) (c_win c) =? 0)
                (with_strs c (upd_s sid (set_win (s_win s + inc)) (c_strs c)))) as [w [Hw Ew]].
    rewrite Ew. clear Ew. csimpl.
    destruct I. constructor; csimpl; try assumption.
    + rewrite Hids. assumption.
    + intros x. rewrite i_ids0. apply has_s_ids. symmetry. exact Hids.
    + rewrite sum_f_upd_same by reflexivity. assumption.
    + rewrite sum_f_upd_same by reflexivity. assumption.
    + intros x Hx. rewrite (has_s_ids x _ _ Hids) in Hx. rewrite Hold; [auto|].
      intro E. subst x. rewrite (find_s_has _ _ _ Ef) in Hx. discriminate.
    + intros s' Hs'. destruct (Hu s' Hs') as [E | [Hin' Hne]].
      * subst s'. csimpl. rewrite Hid, Hnew. unfold str_ok. csimpl. rewrite Hid.
        repeat split; try assumption; try lia.
      * rewrite Hold by exact Hne. exact (i_strs0 s' Hin').
    + intros x Hx. destruct Hw as [Hw | [Hw _]]; subst w; [destruct Hx|].
      rewrite (has_s_ids x _ _ Hids). exact (i_wait0 x Hx).
    + intros HB'. destruct (HB HB') as [HB0 _]. destruct (i_exact0 HB0) as [E1 [E2 E3]].
      split; [exact E1|]. split; [exact E2|]. intros s' Hs'. destruct (Hu s' Hs') as [E | [Hin' Hne]].
      * subst s'. csimpl. rewrite Hid, Hnew. csimpl. specialize (E3 s Hin). rewrite Hid in E3. lia.
      * rewrite Hold by exact Hne. auto.
    + intros [_ Hk] _ s' _ Hx. destruct Hw as [Hw | [_ Hw]]; [subst w; destruct Hx | congruence].
  - (* overflow: connection error, nothing stored *)
    destruct I. constructor; csimpl; try assumption.
    + intros x Hx. destruct (Z.eq_dec x sid) as [E | E].
      * subst x. rewrite (find_s_has _ _ _ Ef) in Hx. discriminate.
      * rewrite Hold by exact E. auto.
    + intros s' Hs'. destruct (Z.eq_dec (s_id s') sid) as [E | E].
      * assert (s' = s) by (apply (nodup_id_eq (c_strs c)); auto; lia). subst s'.
        rewrite Hid, Hnew. unfold str_ok. csimpl. rewrite Hid. repeat split; try assumption; try lia. 
      * rewrite Hold by exact E. specialize (i_strs0 s' Hs'). unfold str_ok in *. csimpl.
        repeat split; try tauto.
    + intros HB'. exfalso. destruct (HB HB') as [HB0 [_ Hb]]. destruct (i_exact0 HB0) as [_ [_ E3]].
      specialize (E3 s Hin). specialize (Hb sid). rewrite Hnew in Hb. rewrite Hid in E3. csimpl. cbn [gstep] in Hb.
      unfold i32_min, i32_max in *. lia.
    + intros _ He. discriminate.
Qed.

(* ------------------------------------------------------------------ EWinUpdConn *)
Lemma inv_winupd_conn : forall c G S (B B' : Prop) fs inc,
  Inv c G S B fs -> 1 <= inc <= i32_max -> c_err c = false -> Bnext G S B B' (EWinUpdConn inc) ->
  Inv (fst (step g c (EWinUpdConn inc))) (gstep G (EWinUpdConn inc)) (Snext S (EWinUpdConn inc)) B'
      (fs ++ snd (step g c (EWinUpdConn inc))).
Proof.
  intros c G S B B' fs inc I Hinc Herr HB. unfold step, dropped. rewrite Herr. cbn [andb gstep].
  pose proof (i_cwin _ _ _ _ _ I) as Hcw.
  rewrite wrap32_id by (unfold i32_min, i32_max in *; lia).
  assert (HS : forall x, Snext S (EWinUpdConn inc) x = S x) by reflexivity.
  destruct (flow_add_cases (c_win c) inc) as [[Ha Hr] | [Ha Hr]]; try (unfold i32_min, i32_max in *; lia);
    rewrite Ha; cbn [fst snd]; rewrite ?app_nil_r.
  - destruct (winupd_wake_shape g (c_win c =? 0) (with_win c (c_win c + inc))) as [w [Hw Ew]].
    rewrite Ew. clear Ew. csimpl.
    destruct I. constructor; csimpl; try assumption; try lia.
    + intros x Hx. destruct Hw as [Hw | [Hw _]]; subst w; [destruct Hx | exact (i_wait0 x Hx)].
    + intros HB'. destruct (HB HB') as [HB0 _]. destruct (i_exact0 HB0) as [E1 [E2 E3]].
      split; [exact E1|]. split; [lia | exact E3].
    + intros [_ Hk] _ s' _ Hx. destruct Hw as [Hw | [_ Hw]]; [subst w; destruct Hx | congruence].
  - destruct I. constructor; csimpl; try assumption; try lia.
    + intros s Hs. specialize (i_strs0 s Hs). unfold str_ok in *. csimpl. rewrite HS. repeat split; try tauto.
    + intros HB'. exfalso. destruct (HB HB') as [HB0 [Hb _]]. destruct (i_exact0 HB0) as [_ [E2 _]].
      csimpl. cbn [gstep] in Hb. csimpl.
      assert (0 <= sent_total fs).
      { rewrite i_total0. clear - i_strs0. induction (c_strs c) as [|x l IH]; cbn [sum_f]; [lia|].
        assert (0 <= s_sent x) by (destruct (i_strs0 x (or_introl eq_refl)) as [_ [_ [_ [H _]]]]; lia).
        assert (0 <= sum_f s_sent l) by (apply IH; intros s Hs; apply i_strs0; right; exact Hs). lia. }
      unfold i32_min, i32_max in *. lia.
Qed.

(* ------------------------------------------------------------------ ESetMaxFrame *)
Lemma inv_setmfs : forall c G S (B B' : Prop) fs v,
  Inv c G S B fs -> 16384 <= v <= 16777215 -> c_err c = false -> (B' -> B) ->
  Inv (fst (step g c (ESetMaxFrame v))) (gstep G (ESetMaxFrame v)) (Snext S (ESetMaxFrame v)) B'
      (fs ++ snd (step g c (ESetMaxFrame v))).
Proof.
  intros c G S B B' fs v I Hv Herr HB. unfold step, dropped. rewrite Herr. cbn [andb gstep].
  assert (Hsw : forall c0, (g_side g = Client /\ g_wakes g = false /\ settings_wake g c0 = c0) \/ settings_wake g c0 = broadcast c0).
  { intros c0. unfold settings_wake. destruct (g_side g); [right; reflexivity|]. destruct (g_wakes g); [right | left]; auto. }
  assert (Hgoal : forall c', (c' = with_mfs c v /\ g_side g = Client /\ g_wakes g = false) \/ c' = broadcast (with_mfs c v) ->
            Inv c' (mkG (gl_init G) (gl_conn G) v (gl_ids G) (gl_bodies G)) (Snext S (ESetMaxFrame v)) B' fs).
  { intros c' Hc'. destruct Hc' as [[Hc' [Hsd Hwk]] | Hc']; subst c'.
    - apply (inv_same c (with_mfs c v) G _ S _ B B' fs I); csimpl; try reflexivity; try assumption;
        try (split; [reflexivity | lia]); try (destruct I; assumption).
    - apply (inv_same c (broadcast (with_mfs c v)) G _ S _ B B' fs I); csimpl; try reflexivity; try assumption;
        try (split; [reflexivity | lia]).
      + intros x Hx. destruct Hx.
      + intros _ _ s _ Hx. destruct Hx. }
  destruct (g_side g) eqn:Es.
  - replace ((v <? 16384) || (16777215 <? v)) with false by lia. cbn [fst snd]. rewrite app_nil_r.
    apply Hgoal. right. reflexivity.
  - replace (g_validated g && ((v <? 16384) || (16777215 <? v))) with false by (destruct (g_validated g); cbn [andb]; lia).
    cbn [fst snd]. rewrite app_nil_r. apply Hgoal.
    destruct (Hsw (with_mfs c v)) as [[_ [Hwk E]] | E]; rewrite E; [left | right]; auto.
Qed.

(* ------------------------------------------------------------------ ESend *)
(* what one iteration of the sender loop takes *)
Definition take_of (c : conn) (s : strm) : Z :=
  let rem := s_body s - s_sent s in
  let a := flow_available (s_win s) (c_win c) in
  let t1 := if rem <? a then rem else a in
  let m := wrap32 (c_mfs c) in
  if m <? t1 then m else t1.

Lemma inv_send : forall c G S (B B' : Prop) fs sid,
  Inv c G S B fs -> (B' -> B) ->
  Inv (fst (step g c (ESend sid))) G (Snext S (ESend sid)) B' (fs ++ snd (step g c (ESend sid))).
Proof.
  intros c G S B B' fs sid I HB. unfold step. rewrite step_not_peer by reflexivity.
  assert (Hsame : Inv c G (Snext S (ESend sid)) B' fs).
  { apply (inv_same c c G G S _ B B' fs I); try reflexivity; try assumption; destruct I; assumption. }
  destruct (find_s sid (c_strs c)) as [s|] eqn:Ef; cbn [fst snd]; rewrite ?app_nil_r; [|exact Hsame].
  destruct (find_s_some _ _ _ Ef) as [Hin Hid].
  destruct (mem_z sid (c_wait c)) eqn:Ew; cbn [fst snd]; rewrite ?app_nil_r; [exact Hsame|].
  destruct (s_body s - s_sent s <=? 0) eqn:Er; cbn [fst snd]; rewrite ?app_nil_r; [exact Hsame|].
  destruct (flow_available (s_win s) (c_win c) <=? 0) eqn:Ea; cbn [fst snd]; rewrite ?app_nil_r.
  - (* cond.Wait *)
    apply (inv_same c (park c sid) G G S _ B B' fs I); try reflexivity; try assumption; try (destruct I; assumption).
    + csimpl. intros x [Hx | Hx]; [subst x; exact (find_s_has _ _ _ Ef) | exact (i_wait _ _ _ _ _ I x Hx)].
    + csimpl. intros Hw He s0 Hs0 [Hx | Hx].
      * assert (s0 = s) by (apply (nodup_id_eq (c_strs c)); auto; [destruct I; assumption | lia]). subst s0. lia.
      * exact (i_parked _ _ _ _ _ I Hw He s0 Hs0 Hx).
  - (* take and write *)
    destruct (i_strs _ _ _ _ _ I s Hin) as [So [Sb [Si [Ss [Swm [Swl [Sle [Sc Sn]]]]]]]].
    destruct (i_mfs _ _ _ _ _ I) as [Hm1 Hm2]. pose proof (i_cwin _ _ _ _ _ I) as Hcw.
    pose proof (flow_available_le (s_win s) (c_win c)) as Hav.
    rewrite (wrap32_id (c_mfs c)) by (unfold i32_min, i32_max; lia).
    set (t := if c_mfs c <? (if s_body s - s_sent s <? flow_available (s_win s) (c_win c) then s_body s - s_sent s else flow_available (s_win s) (c_win c))
              then c_mfs c else (if s_body s - s_sent s <? flow_available (s_win s) (c_win c) then s_body s - s_sent s else flow_available (s_win s) (c_win c))).
    assert (Ht : 0 < t /\ t <= flow_available (s_win s) (c_win c) /\ t <= s_body s - s_sent s /\ t <= c_mfs c).
    { subst t. destruct (s_body s - s_sent s <? flow_available (s_win s) (c_win c)) eqn:E1;
        match goal with |- context [c_mfs c <? ?x] => destruct (c_mfs c <? x) eqn:E2 end; lia. }
    replace (t <=? 0) with false by lia.
    unfold flow_take. replace (flow_available (s_win s) (c_win c) <? t) with false by lia.
    rewrite !wrap32_id by (unfold i32_min, i32_max in *; lia). cbn [fst snd].
    destruct (chunks_spec (g_chunk g) sid (s_sent s) t Hchunk ltac:(lia)) as [K1 [K2 [K3 K4]]].
    assert (Hoth : forall x, x <> sid -> frames_of x (chunks (g_chunk g) sid (s_sent s) t) = []).
    { intros x Hx. apply (frames_of_other sid); [|exact Hx]. intros f Hf. exact (proj1 (K2 f Hf)). }
    assert (Hu : forall s', In s' (upd_s sid (took (s_win s - t) t) (c_strs c)) ->
                 s' = took (s_win s - t) t s \/ (In s' (c_strs c) /\ s_id s' <> sid)).
    { intros s' Hs'. apply (in_upd_s_nodup sid _ (c_strs c) s s'); auto. destruct I; assumption. }
    assert (Hids : map s_id (upd_s sid (took (s_win s - t) t) (c_strs c)) = map s_id (c_strs c)) by (apply upd_s_ids; reflexivity).
    rewrite Hid in *.
    destruct I. constructor; unfold Snext; cbn [sstep]; csimpl; try assumption; try lia.
    + rewrite sent_total_app, K1. lia.
    + rewrite Hids. assumption.
    + intros x. rewrite i_ids0. apply has_s_ids. symmetry. exact Hids.
    + rewrite sum_f_upd_same by reflexivity. assumption.
    + rewrite sent_total_app, K1. rewrite (sum_f_upd s_sent sid _ _ s i_nodup0 Hin Hid). csimpl. lia.
    + intros x Hx. rewrite (has_s_ids x _ _ Hids) in Hx. destruct (i_closed0 x Hx) as [C1 C2]. split; [exact C1|].
      rewrite frames_of_app, C2, Hoth; [reflexivity|]. intro E. subst x. rewrite (find_s_has _ _ _ Ef) in Hx. discriminate.
    + intros s' Hs'. destruct (Hu s' Hs') as [E | [Hin' Hne]].
      * subst s'. csimpl. rewrite Hid. unfold str_ok, sent_on. csimpl. rewrite Hid. rewrite frames_of_app, len_sum_app, K4.
        unfold sent_on in Sn. rewrite Sn.
        split; [exact So|]. split; [exact Sb|]. split; [exact Si|]. split; [lia|]. split; [lia|].
        split; [intros _; unfold i32_max in *; lia|]. split; [lia|]. split; [|reflexivity].
        apply contig_app; [exact Sc|]. rewrite Sn. exact K3.
      * apply (str_ok_frames _ _ fs); [exact (i_strs0 s' Hin')|]. rewrite frames_of_app, Hoth by exact Hne. apply app_nil_r.
    + intros x Hx. rewrite (has_s_ids x _ _ Hids). auto.
    + intros HB'. destruct (i_exact0 (HB HB')) as [E1 [E2 E3]]. split; [exact E1|]. split; [rewrite sent_total_app, K1; lia|].
      intros s' Hs'. destruct (Hu s' Hs') as [E | [Hin' Hne]].
      * subst s'. csimpl. specialize (E3 s Hin). rewrite Hid in *. lia.
      * auto.
    + intros Hw He s' Hs' Hwt. destruct (Hu s' Hs') as [E | [Hin' Hne]].
      * subst s'. csimpl. rewrite Hid in Hwt. apply mem_z_true in Hwt. congruence.
      * pose proof (i_parked0 Hw He s' Hin' Hwt). pose proof (flow_available_mono (s_win s') (c_win c) (c_win c - t) ltac:(lia)). lia.
Qed.

(* ------------------------------------------------------------------ ESetInit *)
Definition inrange (z : Z) : Prop := i32_min <= z <= i32_max.

Lemma set_win_same : forall s, set_win (s_win s) s = s.
Proof. intros [i w b n]. reflexivity. Qed.

Lemma add_all_ignore_spec : forall d l, inrange d -> (forall s, In s l -> inrange (s_win s)) ->
  forall s', In s' (add_all_ignore d l) -> exists s, In s l /\ s' = set_win (s_win s') s /\
    ((s_win s' = s_win s + d /\ inrange (s_win s + d)) \/ (s_win s' = s_win s /\ ~ inrange (s_win s + d))).
Proof.
  intros d l Hd Hl s' Hs'. unfold add_all_ignore in Hs'. apply in_map_iff in Hs'. destruct Hs' as [s [E Hin]].
  exists s. split; [exact Hin|]. subst s'. csimpl. split; [reflexivity|].
  destruct (flow_add_cases (s_win s) d (Hl s Hin) Hd) as [[Ha Hr] | [Ha Hr]]; rewrite Ha; cbn [fst]; [left | right]; auto.
Qed.

Lemma add_all_stop_spec : forall d l, inrange d -> (forall s, In s l -> inrange (s_win s)) ->
  map s_id (fst (add_all_stop d l)) = map s_id l /\
  sum_f s_body (fst (add_all_stop d l)) = sum_f s_body l /\
  sum_f s_sent (fst (add_all_stop d l)) = sum_f s_sent l /\
  (forall s', In s' (fst (add_all_stop d l)) -> exists s, In s l /\ s' = set_win (s_win s') s /\
     ((s_win s' = s_win s + d /\ inrange (s_win s + d)) \/ (s_win s' = s_win s /\ snd (add_all_stop d l) = false))) /\
  (snd (add_all_stop d l) = false -> exists s, In s l /\ ~ inrange (s_win s + d)).
Proof.
  intros d l Hd. induction l as [|x l IH]; intros Hl.
  - cbn [add_all_stop fst snd map sum_f]. repeat split; try reflexivity; [intros s' [] | discriminate].
  - cbn [add_all_stop].
    destruct (flow_add_cases (s_win x) d (Hl x (or_introl eq_refl)) Hd) as [[Ha Hr] | [Ha Hr]]; rewrite Ha; cbn [fst snd].
    + destruct (IH (fun s Hs => Hl s (or_intror Hs))) as [I1 [I2 [I3 [I4 I5]]]].
      cbn [map sum_f]. csimpl. rewrite I1, I2, I3. repeat split; try reflexivity.
      * intros s' [Hs' | Hs'].
        -- subst s'. exists x. csimpl. split; [left; reflexivity|]. split; [reflexivity|]. left. auto.
        -- destruct (I4 s' Hs') as [s [J1 [J2 J3]]]. exists s. split; [right; exact J1|]. split; [exact J2|]. exact J3.
      * intros Hf. destruct (I5 Hf) as [s [J1 J2]]. exists s. split; [right; exact J1 | exact J2].
    + repeat split; try reflexivity.
      * intros s' Hs'. exists s'. split; [exact Hs'|]. split; [symmetry; apply set_win_same|]. right. auto.
      * intros _. exists x. split; [left; reflexivity | exact Hr].
Qed.

Lemma inv_setinit : forall c G S (B B' : Prop) fs v,
  Inv c G S B fs -> 0 <= v <= i32_max -> c_err c = false -> Bnext G S B B' (ESetInit v) ->
  Inv (fst (step g c (ESetInit v))) (gstep G (ESetInit v)) (Snext S (ESetInit v)) B'
      (fs ++ snd (step g c (ESetInit v))).
Proof.
  intros c G S B B' fs v I Hv Herr HB.
  destruct (i_init _ _ _ _ _ I) as [Hi1 Hi2].
  set (d := v - c_init c).
  assert (Hd : inrange d) by (unfold inrange, d, i32_min, i32_max in *; lia).
  assert (Hwin : forall s, In s (c_strs c) -> inrange (s_win s) /\ v - i32_max <= s_win s + d).
  { intros s Hs. destruct (i_strs _ _ _ _ _ I s Hs) as [_ [_ [_ [_ [Swm [Swl _]]]]]]. specialize (Swl Herr).
    unfold inrange, d, i32_min, i32_max in *. lia. }
  (* uniform description of the state after the event *)
  assert (Hfacts : exists c', fst (step g c (ESetInit v)) = c' /\ snd (step g c (ESetInit v)) = [] /\
     c_panic c' = c_panic c /\ c_win c' = c_win c /\ c_mfs c' = c_mfs c /\ c_init c' = v /\
     map s_id (c_strs c') = map s_id (c_strs c) /\
     sum_f s_body (c_strs c') = sum_f s_body (c_strs c) /\ sum_f s_sent (c_strs c') = sum_f s_sent (c_strs c) /\
     (forall s', In s' (c_strs c') -> exists s, In s (c_strs c) /\ s' = set_win (s_win s') s /\
        ((s_win s' = s_win s + d /\ inrange (s_win s + d)) \/
         (s_win s' = s_win s /\ 0 < d /\ (i32_max < s_win s + d \/ c_err c' = true)))) /\
     ((forall s, In s (c_strs c) -> inrange (s_win s + d)) -> c_err c' = false) /\
     (forall x, In x (c_wait c') -> In x (c_wait c)) /\
     ((g_wakes g = true \/ g_side g = Server) -> c_err c' = false -> c_wait c' = [])).
  { unfold step, dropped. rewrite Herr. cbn [andb].
    replace ((v <? 0) || (i32_max <? v)) with false by lia.
    rewrite (wrap32_id (v - c_init c)) by exact Hd. fold d.
    destruct (g_side g) eqn:Es.
    - (* server *)
      destruct (add_all_stop_spec d (c_strs c) Hd (fun s Hs => proj1 (Hwin s Hs))) as [A1 [A2 [A3 [A4 A5]]]].
      assert (Hdpos : snd (add_all_stop d (c_strs c)) = false -> 0 < d).
      { intros Hf. destruct (A5 Hf) as [s [J1 J2]]. destruct (Hwin s J1) as [W1 W2].
        unfold inrange, i32_min, i32_max in *. lia. }
      destruct (snd (add_all_stop d (c_strs c))) eqn:Eok.
      + eexists. split; [reflexivity|]. split; [reflexivity|]. csimpl.
        split; [reflexivity|]. split; [reflexivity|]. split; [reflexivity|]. split; [reflexivity|].
        split; [exact A1|]. split; [exact A2|]. split; [exact A3|].
        split; [|split; [intros _; exact Herr|]; split].
        * intros s' Hs'. destruct (A4 s' Hs') as [s [J1 [J2 [J3 | [J3 J4]]]]]; [|discriminate].
          exists s. split; [exact J1|]. split; [exact J2|]. left. exact J3.
        * intros x Hx. destruct Hx.
        * intros _ _. reflexivity.
      + eexists. split; [reflexivity|]. split; [reflexivity|]. csimpl.
        split; [reflexivity|]. split; [reflexivity|]. split; [reflexivity|]. split; [reflexivity|].
        split; [exact A1|]. split; [exact A2|]. split; [exact A3|].
        split; [|split; [|split]].
        * intros s' Hs'. destruct (A4 s' Hs') as [s [J1 [J2 [J3 | [J3 J4]]]]].
          -- exists s. split; [exact J1|]. split; [exact J2|]. left. exact J3.
          -- exists s. split; [exact J1|]. split; [exact J2|]. right. split; [exact J3|]. split; [apply Hdpos; reflexivity | right; reflexivity].
        * intros Hall. exfalso. destruct (A5 eq_refl) as [s [J1 J2]]. exact (J2 (Hall s J1)).
        * intros x Hx. exact Hx.
        * intros _ Hf. discriminate.
    - (* client *)
      assert (Hc' : exists w, (w = [] \/ (w = c_wait c /\ g_wakes g = false)) /\
                settings_wake g (with_strs (with_init c v) (add_all_ignore d (c_strs c))) =
                mkC (c_win c) (c_mfs c) v (add_all_ignore d (c_strs c)) w (c_err c) (c_panic c)).
      { unfold settings_wake. rewrite Es. destruct (g_wakes g); eexists; (split; [|reflexivity]); [left | right]; auto. }
      destruct Hc' as [w [Hw Hc']]. rewrite Hc'. eexists. split; [reflexivity|]. split; [reflexivity|]. csimpl.
      split; [reflexivity|]. split; [reflexivity|]. split; [reflexivity|]. split; [reflexivity|].
      split; [unfold add_all_ignore; rewrite map_map; reflexivity|].
      split; [unfold add_all_ignore; apply sum_f_map_same; reflexivity|].
      split; [unfold add_all_ignore; apply sum_f_map_same; reflexivity|].
      split; [|split; [intros _; exact Herr|]; split].
      + intros s' Hs'. destruct (add_all_ignore_spec d (c_strs c) Hd (fun s Hs => proj1 (Hwin s Hs)) s' Hs') as [s [J1 [J2 [J3 | [J3 J4]]]]].
        * exists s. split; [exact J1|]. split; [exact J2|]. left. exact J3.
        * exists s. split; [exact J1|]. split; [exact J2|]. right. split; [exact J3|].
          destruct (Hwin s J1) as [W1 W2]. unfold inrange, i32_min, i32_max in *. lia.
      + intros x Hx. destruct Hw as [Hw | [Hw _]]; subst w; [destruct Hx | exact Hx].
      + intros [Hk | Hk] _; [|congruence]. destruct Hw as [Hw | [_ Hw]]; [exact Hw | congruence]. }
  destruct Hfacts as [c' [E1 [E2 [Fp [Fw [Fm [Fi [Fids [Fb [Fs [Fstr [Fall [Fwt Fpk]]]]]]]]]]]]].
  rewrite E1, E2, app_nil_r. clear E1 E2.
  assert (HS : forall x, Snext S (ESetInit v) x = S x) by reflexivity.
  assert (Hexact : B' -> forall s, In s (c_strs c) -> inrange (s_win s + d)).
  { intros HB' s Hs. destruct (HB HB') as [HB0 [_ Hb]]. destruct (i_exact _ _ _ _ _ I HB0) as [_ [_ E3]].
    specialize (E3 s Hs). specialize (Hb (s_id s)). rewrite HS in Hb. cbn [gstep gl_init] in Hb.
    destruct (i_strs _ _ _ _ _ I s Hs) as [_ [_ [_ [Ss _]]]]. destruct (Hwin s Hs) as [W1 W2].
    unfold inrange, d, i32_min, i32_max in *. lia. }
  destruct I. constructor; cbn [gstep]; csimpl; rewrite ?Fp, ?Fw, ?Fm, ?Fi, ?Fids, ?Fb, ?Fs; try assumption.
  - split; [reflexivity | lia].
  - intros x. rewrite i_ids0. apply has_s_ids. symmetry. exact Fids.
  - intros x Hx. rewrite (has_s_ids x _ _ Fids) in Hx. rewrite HS. auto.
  - intros s' Hs'. destruct (Fstr s' Hs') as [s [J1 [J2 J3]]].
    assert (Eid : s_id s' = s_id s) by (rewrite J2; reflexivity).
    assert (Ebd : s_body s' = s_body s) by (rewrite J2; reflexivity).
    assert (Esn : s_sent s' = s_sent s) by (rewrite J2; reflexivity).
    destruct (i_strs0 s J1) as [So [Sb [Si [Ss [Swm [Swl [Sle [Sc Sn]]]]]]]]. specialize (Swl Herr).
    unfold str_ok. rewrite HS, Eid, Ebd, Esn, Fi.
    destruct (Hwin s J1) as [W1 W2].
    split; [exact So|]. split; [exact Sb|]. split; [exact Si|]. split; [exact Ss|].
    destruct J3 as [[K1 K2] | [K1 [K2 K3]]]; rewrite K1.
    + unfold inrange, d, i32_min, i32_max in *. repeat split; try assumption; try lia.
    + unfold inrange, d, i32_min, i32_max in *. repeat split; try assumption; try lia.
  - intros x Hx. rewrite (has_s_ids x _ _ Fids). apply i_wait0. apply Fwt. exact Hx.
  - intros HB'. pose proof (Hexact HB') as Hall. destruct (HB HB') as [HB0 _]. destruct (i_exact0 HB0) as [_ [X2 X3]].
    pose proof (Fall Hall) as Hne. split; [exact Hne|]. split; [exact X2|].
    intros s' Hs'. destruct (Fstr s' Hs') as [s [J1 [J2 J3]]].
    assert (Eid : s_id s' = s_id s) by (rewrite J2; reflexivity).
    assert (Esn : s_sent s' = s_sent s) by (rewrite J2; reflexivity).
    rewrite HS, Eid, Esn. specialize (X3 s J1). specialize (Hall s J1).
    destruct J3 as [[K1 K2] | [K1 [K2 K3]]]; rewrite K1; unfold inrange, d, i32_min, i32_max in *; [lia|].
    destruct K3 as [K3 | K3]; [lia | congruence].
  - intros Hk He s' Hs' Hx. rewrite (Fpk (proj1 Hk) He) in Hx. destruct Hx.
Qed.

(* ------------------------------------------------------------------ any event *)
Lemma inv_step : forall c G S (B B' : Prop) fs e,
  Inv c G S B fs -> ev_valid e -> dropped c e = false -> Bnext G S B B' e ->
  Inv (fst (step g c e)) (gstep G e) (Snext S e) B' (fs ++ snd (step g c e)).
Proof.
  intros c G S B B' fs e I Hv Hdr HB.
  assert (HB0 : B' -> B) by (intros H; exact (proj1 (HB H))).
  assert (Herr : is_peer_frame e = true -> c_err c = false).
  { intros Hp. unfold dropped in Hdr. rewrite Hp in Hdr. destruct (c_err c); [discriminate | reflexivity]. }
  destruct e as [sid b | sid inc | inc | v | v | sid |]; cbn [ev_valid] in Hv.
  - apply (inv_open c G S B B'); assumption.
  - apply (inv_winupd c G S B B'); auto.
  - apply (inv_winupd_conn c G S B B'); auto.
  - apply (inv_setinit c G S B B'); auto.
  - apply (inv_setmfs c G S B B'); auto.
  - apply (inv_send c G S B B'); assumption.
  - unfold step. rewrite Hdr. cbn [fst snd]. rewrite app_nil_r. apply (inv_wake c G S B B'); assumption.
Qed.

(* a DATA frame is emitted only by a send step of its stream, is a non-empty chunk within the peer's max frame size,
   and leaves the stream window non-negative *)
Lemma step_emit : forall c G S (B : Prop) fs e f,
  Inv c G S B fs -> In f (snd (step g c e)) ->
  e = ESend (f_sid f) /\ 0 < f_len f <= c_mfs c /\ f_len f <= g_chunk g /\
  exists s', In s' (c_strs (fst (step g c e))) /\ s_id s' = f_sid f /\ 0 <= s_win s'.
Proof.
  intros c G S B fs e f I Hf. unfold step in Hf |- *.
  destruct (dropped c e); [destruct Hf|].
  destruct e as [sid b | sid inc | inc | v | v | sid |].
  - destruct (has_s sid (c_strs c)); destruct Hf.
  - destruct (find_s sid (c_strs c)); [|destruct Hf]. destruct (snd (flow_add (s_win s) (wrap32 inc))); destruct Hf.
  - destruct (snd (flow_add (c_win c) (wrap32 inc))); destruct Hf.
  - destruct ((v <? 0) || (i32_max <? v)); [destruct Hf|]. destruct (g_side g); [|destruct Hf].
    destruct (snd (add_all_stop (wrap32 (v - c_init c)) (c_strs c))); destruct Hf.
  - destruct (g_side g); [destruct ((v <? 16384) || (16777215 <? v)) | destruct (g_validated g && ((v <? 16384) || (16777215 <? v)))]; destruct Hf.
  - destruct (find_s sid (c_strs c)) as [s|] eqn:Ef; [|destruct Hf].
    destruct (find_s_some _ _ _ Ef) as [Hin Hid].
    destruct (mem_z sid (c_wait c)); [destruct Hf|].
    destruct (s_body s - s_sent s <=? 0) eqn:Er; [destruct Hf|].
    destruct (flow_available (s_win s) (c_win c) <=? 0) eqn:Ea; [destruct Hf|].
    destruct (i_mfs _ _ _ _ _ I) as [Hm1 Hm2]. pose proof (i_cwin _ _ _ _ _ I) as Hcw.
    destruct (i_strs _ _ _ _ _ I s Hin) as [_ [_ [_ [_ [Swm _]]]]].
    pose proof (flow_available_le (s_win s) (c_win c)) as Hav.
    rewrite (wrap32_id (c_mfs c)) in Hf |- * by (unfold i32_min, i32_max; lia).
    set (t := if c_mfs c <? (if s_body s - s_sent s <? flow_available (s_win s) (c_win c) then s_body s - s_sent s else flow_available (s_win s) (c_win c))
              then c_mfs c else (if s_body s - s_sent s <? flow_available (s_win s) (c_win c) then s_body s - s_sent s else flow_available (s_win s) (c_win c))) in *.
    assert (Ht : 0 < t /\ t <= flow_available (s_win s) (c_win c) /\ t <= s_body s - s_sent s /\ t <= c_mfs c).
    { subst t. destruct (s_body s - s_sent s <? flow_available (s_win s) (c_win c)) eqn:E1;
        match goal with |- context [c_mfs c <? ?x] => destruct (c_mfs c <? x) eqn:E2 end; lia. }
    replace (t <=? 0) with false in Hf |- * by lia.
    unfold flow_take in Hf |- *. replace (flow_available (s_win s) (c_win c) <? t) with false in Hf |- * by lia.
    rewrite !wrap32_id in Hf |- * by (unfold i32_min, i32_max in *; lia). cbn [fst snd] in Hf |- *.
    destruct (chunks_spec (g_chunk g) sid (s_sent s) t Hchunk ltac:(lia)) as [_ [K2 _]].
    destruct (K2 f Hf) as [F1 [F2 [F3 F4]]]. rewrite F1.
    split; [reflexivity|]. split; [lia|]. split; [lia|].
    exists (took (s_win s - t) t s). csimpl. split; [|split; [exact Hid | lia]].
    unfold upd_s. apply in_map_iff. exists s. split; [|exact Hin]. unfold has_id. rewrite Hid, Z.eqb_refl. reflexivity.
  - destruct Hf.
Qed.
End Invariant.

(* ================================================================== every schedule *)
Section Runs.
Variable g : cfg.
Variables cw i0 m0 : Z.
Hypothesis Hchunk : 0 < g_chunk g.
Hypothesis Hcw : 0 <= cw <= i32_max.
Hypothesis Hi0 : 0 <= i0 <= i32_max.
Hypothesis Hm0 : 16384 <= m0 <= 16777215.

Let c0 := conn_new cw i0 m0.

Lemma bounded_prefix : forall a b, bounded cw i0 m0 (a ++ b) -> bounded cw i0 m0 a.
Proof.
  intros a b H p q E. apply (H p (q ++ b)). rewrite E, app_assoc. reflexivity.
Qed.

Lemma bounded_self : forall a, bounded cw i0 m0 a ->
  conn_credit cw i0 m0 a <= i32_max /\ forall sid, stream_credit cw i0 m0 sid a <= i32_max.
Proof. intros a H. apply (H a []). symmetry. apply app_nil_r. Qed.

Lemma inv_initial : Inv g c0 (gledger cw i0 m0 []) (fun sid => sledger sid []) (bounded cw i0 m0 []) [].
Proof.
  unfold c0, conn_new, gledger, sledger. cbn [fold_left].
  constructor; csimpl; cbn [sent_total sum_f map]; try reflexivity; try lia; try (split; [reflexivity | lia]).
  - constructor.
  - intros sid _. split; reflexivity.
  - intros s Hs. destruct Hs.
  - intros sid Hs. destruct Hs.
  - intros _. split; [reflexivity|]. split; [lia|]. intros s Hs. destruct Hs.
  - intros _ _ s Hs. destruct Hs.
Qed.

(* the invariant holds after every schedule; the ledgers are those of the events MOSN handled *)
Lemma inv_run : forall evs, Forall ev_valid evs ->
  Inv g (fst (run g c0 evs)) (gledger cw i0 m0 (effective g c0 evs)) (fun sid => sledger sid (effective g c0 evs))
      (bounded cw i0 m0 (effective g c0 evs)) (snd (run g c0 evs)).
Proof.
  intros evs. induction evs as [|e evs IH] using rev_ind; intros Hv.
  - exact inv_initial.
  - apply Forall_app in Hv. destruct Hv as [Hv1 Hv2]. inversion Hv2 as [|? ? He _]; subst. specialize (IH Hv1).
    rewrite run_app, effective_app. cbn [fst snd]. cbn [run effective fst snd]. rewrite !app_nil_r.
    set (c1 := fst (run g c0 evs)) in *. set (eff := effective g c0 evs) in *. set (f1 := snd (run g c0 evs)) in *.
    destruct (dropped c1 e) eqn:Ed.
    + unfold step. rewrite Ed. cbn [fst snd]. rewrite !app_nil_r. exact IH.
    + pose proof (inv_step g Hchunk c1 _ _ _ (bounded cw i0 m0 (eff ++ [e])) f1 e IH He Ed) as Hs.
      assert (HBn : Bnext (gledger cw i0 m0 eff) (fun sid => sledger sid eff) (bounded cw i0 m0 eff) (bounded cw i0 m0 (eff ++ [e])) e).
      { intros HB'. split; [exact (bounded_prefix _ _ HB')|]. destruct (bounded_self _ HB') as [Q1 Q2].
        unfold conn_credit in Q1. rewrite gledger_snoc in Q1. split; [exact Q1|].
        intros sid. specialize (Q2 sid). unfold stream_credit in Q2. rewrite gledger_snoc, sledger_snoc in Q2. exact Q2. }
      specialize (Hs HBn).
      apply (inv_same g _ _ _ _ _ _ _ _ _ Hs); try reflexivity.
      * rewrite gledger_snoc. reflexivity.
      * rewrite gledger_snoc. reflexivity.
      * rewrite gledger_snoc. reflexivity.
      * rewrite gledger_snoc. reflexivity.
      * rewrite gledger_snoc. exact (i_mfs _ _ _ _ _ _ Hs).
      * intros sid. rewrite sledger_snoc. reflexivity.
      * intros H; exact H.
      * exact (i_wait _ _ _ _ _ _ Hs).
      * exact (i_parked _ _ _ _ _ _ Hs).
Qed.

(* with a peer that keeps the credits within 2^31-1 nothing is dropped and no connection error occurs *)
Lemma bounded_effective : forall evs, Forall ev_valid evs -> bounded cw i0 m0 evs ->
  effective g c0 evs = evs /\ c_err (fst (run g c0 evs)) = false.
Proof.
  intros evs. induction evs as [|e evs IH] using rev_ind; intros Hv Hb.
  - split; reflexivity.
  - pose proof (inv_run _ Hv) as I.
    apply Forall_app in Hv. destruct Hv as [Hv1 Hv2].
    destruct (IH Hv1 (bounded_prefix _ _ Hb)) as [E1 E2].
    assert (Heff : effective g c0 (evs ++ [e]) = evs ++ [e]).
    { rewrite effective_app, E1. cbn [effective]. unfold dropped. rewrite E2. reflexivity. }
    split; [exact Heff|]. rewrite Heff in I. exact (proj1 (i_exact _ _ _ _ _ _ I Hb)).
Qed.

Theorem flow_safety_run : forall evs, Forall ev_valid evs ->
  forall pre e post, evs = pre ++ e :: post ->
    let c1 := fst (run g c0 pre) in
    let f1 := snd (run g c0 pre) in
    let c2 := fst (step g c1 e) in
    let f2 := snd (step g c1 e) in
    let handled := effective g c0 (pre ++ [e]) in
    c_panic c2 = false /\
    (forall f, In f f2 ->
        e = ESend (f_sid f) /\
        0 < f_len f <= gl_mfs (gledger cw i0 m0 handled) /\ f_len f <= g_chunk g /\
        sent_on (f_sid f) (f1 ++ f2) <= stream_credit cw i0 m0 (f_sid f) handled) /\
    sent_total (f1 ++ f2) <= conn_credit cw i0 m0 handled /\
    (forall sid, contig 0 (frames_of sid (f1 ++ f2))).
Proof.
  intros evs Hv pre e post E. subst evs. cbn zeta.
  assert (Hv1 : Forall ev_valid pre) by (apply Forall_app in Hv; tauto).
  assert (Hv2 : Forall ev_valid (pre ++ [e])).
  { apply Forall_app in Hv. destruct Hv as [H1 H2]. apply Forall_app. split; [exact H1|]. inversion H2; subst. constructor; [assumption | constructor]. }
  pose proof (inv_run _ Hv1) as I1. pose proof (inv_run _ Hv2) as I2.
  rewrite run_app in I2. cbn [fst snd run] in I2. rewrite app_nil_r in I2.
  set (c1 := fst (run g c0 pre)) in *. set (f1 := snd (run g c0 pre)) in *.
  set (handled := effective g c0 (pre ++ [e])) in *.
  split; [exact (i_panic _ _ _ _ _ _ I2)|]. split; [|split].
  - intros f Hf. destruct (step_emit g Hchunk c1 _ _ _ f1 e f I1 Hf) as [Ee [Hl1 [Hl2 [s' [Hs' [Hid Hw]]]]]].
    split; [exact Ee|].
    assert (Hmfs : gl_mfs (gledger cw i0 m0 handled) = c_mfs c1).
    { destruct (i_mfs _ _ _ _ _ _ I2) as [M1 _]. rewrite <- M1. subst e. unfold step.
      rewrite step_not_peer by reflexivity.
      destruct (find_s (f_sid f) (c_strs c1)); [|reflexivity]. destruct (mem_z (f_sid f) (c_wait c1)); [reflexivity|].
      destruct (s_body s - s_sent s <=? 0); [reflexivity|]. destruct (flow_available (s_win s) (c_win c1) <=? 0); [reflexivity|].
      match goal with |- context [if ?b then (set_panic c1, _) else _] => destruct b; [reflexivity|] end.
      destruct (flow_take _ _ _); reflexivity. }
    rewrite Hmfs. split; [exact Hl1|]. split; [exact Hl2|].
    destruct (i_strs _ _ _ _ _ _ I2 s' Hs') as [_ [_ [_ [_ [_ [_ [Sle [_ Sn]]]]]]]].
    rewrite Hid in *. unfold stream_credit. rewrite <- (proj1 (i_init _ _ _ _ _ _ I2)). lia.
  - pose proof (i_conn _ _ _ _ _ _ I2) as Hc. pose proof (i_cwin _ _ _ _ _ _ I2). unfold conn_credit. lia.
  - intros sid. destruct (has_s sid (c_strs (fst (step g c1 e)))) eqn:Eh.
    + apply has_s_true in Eh. destruct Eh as [s [Hs Hid]].
      destruct (i_strs _ _ _ _ _ _ I2 s Hs) as [_ [_ [_ [_ [_ [_ [_ [Sc _]]]]]]]]. rewrite Hid in Sc. exact Sc.
    + destruct (i_closed _ _ _ _ _ _ I2 sid Eh) as [_ Hn]. rewrite Hn. exact I.
Qed.
End Runs.

(* ================================================================== liveness *)
Lemma sum_f_nonneg : forall f l, (forall x, In x l -> 0 <= f x) -> 0 <= sum_f f l.
Proof.
  intros f l. induction l as [|x l IH]; intros H; cbn [sum_f]; [lia|].
  assert (0 <= f x) by (apply H; left; reflexivity).
  assert (0 <= sum_f f l) by (apply IH; intros y Hy; apply H; right; exact Hy). lia.
Qed.

Lemma sent_on_nonneg : forall sid fs, (forall f, In f fs -> 0 < f_len f) -> 0 <= sent_on sid fs.
Proof.
  intros sid fs. unfold sent_on. induction fs as [|x fs IH]; intros H; cbn [frames_of len_sum]; [lia|].
  assert (0 < f_len x) by (apply H; left; reflexivity).
  assert (0 <= len_sum (frames_of sid fs)) by (apply IH; intros f Hf; apply H; right; exact Hf).
  destruct (f_sid x =? sid); cbn [len_sum snd]; lia.
Qed.

Lemma count_send_nonneg : forall sid evs, 0 <= count_send sid evs.
Proof.
  intros sid evs. induction evs as [|e evs IH]; cbn [count_send]; [lia|].
  destruct e; try exact IH. destruct (sid0 =? sid); lia.
Qed.

Section Progress.
Variable g : cfg.
Hypothesis Hchunk : 0 < g_chunk g.
Hypothesis Hwk : wakes_ok g.

(* with exact accounting, enough credit on both levels and the broadcast in place, one iteration of the sender
   moves min(remaining, 16384) bytes at least *)
Lemma send_progress : forall c G S (B : Prop) fs sid,
  Inv g c G S B fs -> B -> sl_open (S sid) = true ->
  sl_body (S sid) <= gl_init G + sl_incs (S sid) -> gl_bodies G <= gl_conn G ->
  Z.min (sl_body (S sid) - sent_on sid fs) 16384 <= sent_on sid (snd (step g c (ESend sid))).
Proof.
  intros c G S B fs sid I HB Hop Hcr Hcc.
  destruct (has_s sid (c_strs c)) eqn:Eh.
  2:{ destruct (i_closed _ _ _ _ _ _ I sid Eh) as [Hcl _]. congruence. }
  apply has_s_true in Eh. destruct Eh as [s [Hin Hid]].
  pose proof (find_s_nodup _ _ (i_nodup _ _ _ _ _ _ I) Hin) as Ef. rewrite Hid in Ef.
  destruct (i_strs _ _ _ _ _ _ I s Hin) as [So [Sb [Si [Ss [Swm [Swl [Sle [Sc Sn]]]]]]]]. rewrite Hid in *.
  destruct (i_exact _ _ _ _ _ _ I HB) as [Herr [Xc Xs]]. pose proof (Xs s Hin) as Xs1. rewrite Hid in Xs1.
  destruct (i_init _ _ _ _ _ _ I) as [Hi1 Hi2]. destruct (i_mfs _ _ _ _ _ _ I) as [Hm1 Hm2].
  pose proof (i_cwin _ _ _ _ _ _ I) as Hcw.
  unfold step. rewrite step_not_peer by reflexivity. rewrite Ef.
  destruct (s_body s - s_sent s <=? 0) eqn:Er.
  { destruct (mem_z sid (c_wait c)); cbn [snd]; unfold sent_on at 2; cbn [frames_of len_sum]; lia. }
  (* the windows cover what remains *)
  assert (Hsw : s_body s - s_sent s <= s_win s) by lia.
  assert (Hcwin : s_body s - s_sent s <= c_win c).
  { pose proof (sum_f_gap s_sent s_body (c_strs c) s) as Hg.
    assert (Hle : forall x, In x (c_strs c) -> s_sent x <= s_body x).
    { intros x Hx. destruct (i_strs _ _ _ _ _ _ I x Hx) as [_ [_ [_ [Q _]]]]. lia. }
    specialize (Hg Hle Hin). rewrite <- (i_bodies _ _ _ _ _ _ I), <- (i_total _ _ _ _ _ _ I) in Hg. lia. }
  assert (Hav : s_body s - s_sent s <= flow_available (s_win s) (c_win c)).
  { unfold flow_available. destruct (c_win c <? s_win s); lia. }
  destruct (mem_z sid (c_wait c)) eqn:Ew.
  { exfalso. apply mem_z_true in Ew. rewrite <- Hid in Ew.
    pose proof (i_parked _ _ _ _ _ _ I Hwk Herr s Hin Ew). lia. }
  replace (flow_available (s_win s) (c_win c) <=? 0) with false by lia.
  pose proof (flow_available_le (s_win s) (c_win c)) as Hav2.
  rewrite (wrap32_id (c_mfs c)) by (unfold i32_min, i32_max; lia).
  set (t := if c_mfs c <? (if s_body s - s_sent s <? flow_available (s_win s) (c_win c) then s_body s - s_sent s else flow_available (s_win s) (c_win c))
            then c_mfs c else (if s_body s - s_sent s <? flow_available (s_win s) (c_win c) then s_body s - s_sent s else flow_available (s_win s) (c_win c))).
  assert (Ht : 0 < t /\ t <= flow_available (s_win s) (c_win c) /\ t <= s_body s - s_sent s /\ Z.min (s_body s - s_sent s) 16384 <= t).
  { subst t. destruct (s_body s - s_sent s <? flow_available (s_win s) (c_win c)) eqn:E1;
      match goal with |- context [c_mfs c <? ?x] => destruct (c_mfs c <? x) eqn:E2 end; lia. }
  replace (t <=? 0) with false by lia.
  unfold flow_take. replace (flow_available (s_win s) (c_win c) <? t) with false by lia. cbn [snd].
  destruct (chunks_spec (g_chunk g) sid (s_sent s) t Hchunk ltac:(lia)) as [_ [_ [_ K4]]].
  unfold sent_on at 2. rewrite K4. unfold sent_on in Sn. unfold sent_on. lia.
Qed.
End Progress.

Lemma sstep_open : forall sid l e, sl_open l = true ->
  sl_open (sstep sid l e) = true /\ sl_body (sstep sid l e) = sl_body l.
Proof.
  intros sid l e H. destruct e; cbn [sstep]; try (split; [exact H | reflexivity]).
  - rewrite H. rewrite andb_false_r. split; [exact H | reflexivity].
  - rewrite H. destruct ((sid0 =? sid) && true); csimpl; split; auto.
Qed.

Lemma sledger_open_app : forall sid a b, sl_open (sledger sid a) = true ->
  sl_open (sledger sid (a ++ b)) = true /\ sl_body (sledger sid (a ++ b)) = sl_body (sledger sid a).
Proof.
  intros sid a b. revert a. induction b as [|e b IH]; intros a H.
  - rewrite app_nil_r. split; [exact H | reflexivity].
  - replace (a ++ e :: b) with ((a ++ [e]) ++ b) by (rewrite <- app_assoc; reflexivity).
    assert (H1 : sl_open (sledger sid (a ++ [e])) = true /\ sl_body (sledger sid (a ++ [e])) = sl_body (sledger sid a)).
    { rewrite sledger_snoc. apply sstep_open. exact H. }
    destruct (IH (a ++ [e]) (proj1 H1)) as [I1 I2]. split; [exact I1|]. rewrite I2. exact (proj2 H1).
Qed.

Section Liveness.
Variable g : cfg.
Hypothesis Hchunk : 0 < g_chunk g.
Hypothesis Hwk : wakes_ok g.
Variables cw i0 m0 : Z.
Hypothesis Hcw : 0 <= cw <= i32_max.
Hypothesis Hi0 : 0 <= i0 <= i32_max.
Hypothesis Hm0 : 16384 <= m0 <= 16777215.
Let c0 := conn_new cw i0 m0.

Lemma tail_progress : forall sid body tail pre,
  Forall ev_valid (pre ++ tail) -> bounded cw i0 m0 (pre ++ tail) ->
  sl_open (sledger sid pre) = true -> sl_body (sledger sid pre) = body ->
  (forall p q, tail = p ++ q ->
     body <= stream_credit cw i0 m0 sid (pre ++ p) /\
     gl_bodies (gledger cw i0 m0 (pre ++ p)) <= conn_credit cw i0 m0 (pre ++ p)) ->
  Z.min body (sent_on sid (snd (run g c0 pre)) + 16384 * count_send sid tail)
    <= sent_on sid (snd (run g c0 (pre ++ tail))).
Proof.
  intros sid body tail. induction tail as [|e t IH]; intros pre Hv Hb Hop Hbd Hcr.
  - rewrite app_nil_r. cbn [count_send]. lia.
  - replace (pre ++ e :: t) with ((pre ++ [e]) ++ t) in * by (rewrite <- app_assoc; reflexivity).
    destruct (sledger_open_app sid pre [e] Hop) as [Hop' Hbd'].
    assert (Hcr' : forall p q, t = p ++ q ->
       body <= stream_credit cw i0 m0 sid ((pre ++ [e]) ++ p) /\
       gl_bodies (gledger cw i0 m0 ((pre ++ [e]) ++ p)) <= conn_credit cw i0 m0 ((pre ++ [e]) ++ p)).
    { intros p q E. rewrite <- app_assoc. apply (Hcr (e :: p) q). rewrite E. reflexivity. }
    specialize (IH (pre ++ [e]) Hv Hb Hop' (eq_trans Hbd' Hbd) Hcr').
    (* the step e from the state after pre *)
    assert (Hv1 : Forall ev_valid pre) by (apply Forall_app in Hv; destruct Hv as [Hv _]; apply Forall_app in Hv; tauto).
    assert (Hb1 : bounded cw i0 m0 pre) by (apply (bounded_prefix cw i0 m0 pre ([e] ++ t)); rewrite app_assoc; exact Hb).
    pose proof (inv_run g cw i0 m0 Hchunk Hcw Hi0 Hm0 pre Hv1) as I1.
    destruct (bounded_effective g cw i0 m0 Hchunk Hcw Hi0 Hm0 pre Hv1 Hb1) as [Eeff _].
    fold c0 in I1, Eeff. rewrite Eeff in I1.
    rewrite (run_app g pre [e]) in IH. cbn [snd run] in IH. rewrite app_nil_r in IH.
    rewrite sent_on_app in IH.
    assert (Hnn : 0 <= sent_on sid (snd (step g (fst (run g c0 pre)) e))).
    { apply sent_on_nonneg. intros f Hf. destruct (step_emit g Hchunk _ _ _ _ _ e f I1 Hf) as [_ [Hl _]]. lia. }
    destruct e as [s0 b0 | s0 inc | inc | v | v | s0 |]; cbn [count_send]; try lia.
    destruct (s0 =? sid) eqn:Es; [|lia]. apply Z.eqb_eq in Es. subst s0.
    destruct (Hcr [] (ESend sid :: t) eq_refl) as [C1 C2]. rewrite app_nil_r in C1, C2.
    pose proof (send_progress g Hchunk Hwk _ _ _ _ _ sid I1 Hb1 Hop) as Hp.
    cbn beta in Hp. rewrite Hbd in Hp. unfold stream_credit in C1. unfold conn_credit in C2. specialize (Hp C1 C2).
    pose proof (count_send_nonneg sid t). lia.
Qed.

Theorem flow_liveness_general_at : forall pre tail sid body,
  Forall ev_valid (pre ++ tail) -> bounded cw i0 m0 (pre ++ tail) ->
  sl_open (sledger sid pre) = true -> sl_body (sledger sid pre) = body ->
  (forall p q, tail = p ++ q ->
     body <= stream_credit cw i0 m0 sid (pre ++ p) /\
     gl_bodies (gledger cw i0 m0 (pre ++ p)) <= conn_credit cw i0 m0 (pre ++ p)) ->
  body / 16384 + 1 <= count_send sid tail ->
  delivers body (frames_of sid (snd (run g c0 (pre ++ tail)))).
Proof.
  intros pre tail sid body Hv Hb Hop Hbd Hcr Hk.
  pose proof (tail_progress sid body tail pre Hv Hb Hop Hbd Hcr) as Hp.
  pose proof (inv_run g cw i0 m0 Hchunk Hcw Hi0 Hm0 (pre ++ tail) Hv) as I.
  destruct (bounded_effective g cw i0 m0 Hchunk Hcw Hi0 Hm0 (pre ++ tail) Hv Hb) as [Eeff _].
  fold c0 in I, Eeff. rewrite Eeff in I.
  destruct (sledger_open_app sid pre tail Hop) as [Hop' Hbd'].
  destruct (has_s sid (c_strs (fst (run g c0 (pre ++ tail))))) eqn:Eh.
  2:{ destruct (i_closed _ _ _ _ _ _ I sid Eh) as [Hcl _]. congruence. }
  apply has_s_true in Eh. destruct Eh as [s [Hin Hid]].
  destruct (i_strs _ _ _ _ _ _ I s Hin) as [So [Sb [Si [Ss [Swm [Swl [Sle [Sc Sn]]]]]]]]. rewrite Hid in *.
  assert (H0 : 0 <= sent_on sid (snd (run g c0 pre))).
  { assert (Hv1 : Forall ev_valid pre) by (apply Forall_app in Hv; tauto).
    pose proof (flow_safety_run g cw i0 m0 Hchunk Hcw Hi0 Hm0 (pre ++ [EWake]) ltac:(apply Forall_app; split; [exact Hv1 | constructor; [exact Logic.I | constructor]]) pre EWake [] eq_refl) as Hs.
    cbn zeta in Hs. destruct Hs as [_ [_ [_ Hc]]]. specialize (Hc sid).
    unfold step in Hc. rewrite step_not_peer in Hc by reflexivity. cbn [snd] in Hc. rewrite app_nil_r in Hc.
    fold c0 in Hc. exact (len_sum_nonneg _ _ Hc). }
  assert (Hbody : 0 <= body) by lia.
  assert (Hbig : body < 16384 * count_send sid tail).
  { pose proof (Z.div_mod body 16384 ltac:(lia)). pose proof (Z.mod_pos_bound body 16384 ltac:(lia)). nia. }
  split; [exact Sc|]. unfold sent_on in *. lia.
Qed.
End Liveness.

(* ================================================================== the theorems, closed *)
Theorem flow_safety : forall g cw i0 m0 evs,
  0 < g_chunk g -> 0 <= cw <= i32_max -> 0 <= i0 <= i32_max -> 16384 <= m0 <= 16777215 ->
  Forall ev_valid evs ->
  forall pre e post, evs = pre ++ e :: post ->
    let c0 := conn_new cw i0 m0 in
    let c1 := fst (run g c0 pre) in
    let f1 := snd (run g c0 pre) in
    let c2 := fst (step g c1 e) in
    let f2 := snd (step g c1 e) in
    let handled := effective g c0 (pre ++ [e]) in
    c_panic c2 = false /\
    (forall f, In f f2 ->
        e = ESend (f_sid f) /\
        0 < f_len f <= gl_mfs (gledger cw i0 m0 handled) /\ f_len f <= g_chunk g /\
        sent_on (f_sid f) (f1 ++ f2) <= stream_credit cw i0 m0 (f_sid f) handled) /\
    sent_total (f1 ++ f2) <= conn_credit cw i0 m0 handled /\
    (forall sid, contig 0 (frames_of sid (f1 ++ f2))).
Proof. intros g cw i0 m0 evs Hc Hcw Hi0 Hm0. exact (flow_safety_run g cw i0 m0 Hc Hcw Hi0 Hm0 evs). Qed.

(* a conforming peer (credits within 2^31-1): every event is handled, no connection error, accounting exact *)
Theorem flow_exact : forall g cw i0 m0 evs,
  0 < g_chunk g -> 0 <= cw <= i32_max -> 0 <= i0 <= i32_max -> 16384 <= m0 <= 16777215 ->
  Forall ev_valid evs -> bounded cw i0 m0 evs ->
  let c := fst (run g (conn_new cw i0 m0) evs) in
  let fs := snd (run g (conn_new cw i0 m0) evs) in
  effective g (conn_new cw i0 m0) evs = evs /\ c_err c = false /\
  c_win c + sent_total fs = conn_credit cw i0 m0 evs /\
  forall s, In s (c_strs c) -> s_win s + sent_on (s_id s) fs = stream_credit cw i0 m0 (s_id s) evs.
Proof.
  intros g cw i0 m0 evs Hc Hcw Hi0 Hm0 Hv Hb. cbn zeta.
  destruct (bounded_effective g cw i0 m0 Hc Hcw Hi0 Hm0 evs Hv Hb) as [E1 E2].
  pose proof (inv_run g cw i0 m0 Hc Hcw Hi0 Hm0 evs Hv) as I. rewrite E1 in I.
  destruct (i_exact _ _ _ _ _ _ I Hb) as [_ [X2 X3]].
  split; [exact E1|]. split; [exact E2|]. split; [exact X2|].
  intros s Hs. destruct (i_strs _ _ _ _ _ _ I s Hs) as [_ [_ [_ [_ [_ [_ [_ [_ Sn]]]]]]]].
  rewrite Sn. unfold stream_credit. rewrite <- (proj1 (i_init _ _ _ _ _ _ I)). exact (X3 s Hs).
Qed.

Theorem flow_liveness_general : forall g, 0 < g_chunk g -> wakes_ok g ->
  liveness_general_statement g.
Proof.
  intros g Hc Hw cw i0 m0 pre tail sid body Hcw Hi0 Hm0. exact (flow_liveness_general_at g Hc Hw cw i0 m0 Hcw Hi0 Hm0 pre tail sid body).
Qed.

Lemma gledger_sends : forall cw i0 m0 evs sid k, gledger cw i0 m0 (evs ++ repeat (ESend sid) k) = gledger cw i0 m0 evs.
Proof.
  intros. unfold gledger. rewrite fold_left_app. generalize (fold_left gstep evs (mkG i0 cw m0 [] 0)).
  induction k as [|k IH]; intros l; cbn [repeat fold_left gstep]; [reflexivity | apply IH].
Qed.

Lemma sledger_sends : forall x evs sid k, sledger x (evs ++ repeat (ESend sid) k) = sledger x evs.
Proof.
  intros. unfold sledger. rewrite fold_left_app. generalize (fold_left (sstep x) evs (mkSL false 0 0)).
  induction k as [|k IH]; intros l; cbn [repeat fold_left sstep]; [reflexivity | apply IH].
Qed.

Lemma bounded_sends : forall cw i0 m0 evs sid k, bounded cw i0 m0 evs -> bounded cw i0 m0 (evs ++ repeat (ESend sid) k).
Proof.
  intros cw i0 m0 evs sid k. revert evs. induction k as [|k IH]; intros evs Hb.
  - cbn [repeat]. rewrite app_nil_r. exact Hb.
  - cbn [repeat]. replace (evs ++ ESend sid :: repeat (ESend sid) k) with ((evs ++ [ESend sid]) ++ repeat (ESend sid) k)
      by (rewrite <- app_assoc; reflexivity).
    apply IH. intros p q E. destruct q as [|x q] using rev_ind.
    + rewrite app_nil_r in E. subst p. destruct (Hb evs [] (eq_sym (app_nil_r _))) as [Q1 Q2].
      unfold conn_credit, stream_credit in *. rewrite gledger_snoc. cbn [gstep]. split; [exact Q1|].
      intros y. rewrite sledger_snoc. cbn [sstep]. exact (Q2 y).
    + clear IHq. rewrite app_assoc in E. apply app_inj_tail in E. destruct E as [E _]. exact (Hb p q E).
Qed.

Lemma count_send_repeat : forall sid k, count_send sid (repeat (ESend sid) k) = Z.of_nat k.
Proof.
  intros sid k. induction k as [|k IH]; cbn [repeat count_send]; [reflexivity|]. rewrite Z.eqb_refl, IH. lia.
Qed.

Theorem flow_liveness : forall g, 0 < g_chunk g -> wakes_ok g -> liveness_statement g.
Proof.
  intros g Hc Hw cw i0 m0 evs sid body k Hcw Hi0 Hm0 Hv Hb Hop Hbd Hcr Hcc Hk.
  apply (flow_liveness_general g Hc Hw cw i0 m0 evs (repeat (ESend sid) k) sid body); try assumption.
  - apply Forall_app. split; [exact Hv|]. apply Forall_forall. intros x Hx. apply repeat_spec in Hx. subst x. exact I.
  - apply bounded_sends. exact Hb.
  - intros p q E.
    assert (Hp : p = repeat (ESend sid) (length p)).
    { apply Forall_eq_repeat. apply Forall_forall. intros x Hx. symmetry. apply (repeat_spec k). rewrite E. apply in_or_app. left. exact Hx. }
    rewrite Hp. unfold stream_credit, conn_credit. rewrite gledger_sends, sledger_sends. split; assumption.
  - rewrite count_send_repeat. exact Hk.
Qed.

Lemma refute_schedule_bounded : bounded 65535 65535 16384 [ESetInit 0; EOpen 1 100; ESend 1; ESetInit 65535].
Proof.
  intros p q E.
      assert (Hp : p = [] \/ p = [ESetInit 0] \/ p = [ESetInit 0; EOpen 1 100] \/ p = [ESetInit 0; EOpen 1 100; ESend 1] \/
                   p = [ESetInit 0; EOpen 1 100; ESend 1; ESetInit 65535]).
      { destruct p as [|a p]; [tauto|]. injection E as Ea E. subst a.
        destruct p as [|a p]; [tauto|]. injection E as Ea E. subst a.
        destruct p as [|a p]; [tauto|]. injection E as Ea E. subst a.
        destruct p as [|a p]; [tauto|]. injection E as Ea E. subst a.
        destruct p as [|a p]; [tauto|]. discriminate. }
      unfold conn_credit, stream_credit, gledger, sledger, i32_max.
      destruct Hp as [Hp | [Hp | [Hp | [Hp | Hp]]]]; subst p;
        (split; [vm_compute; discriminate|]); intros sid;
        cbn [fold_left gstep sstep gl_init gl_conn gl_mfs gl_ids gl_bodies mem_z existsb orb];
        destruct (1 =? sid); cbn [andb negb sl_open sl_incs sl_body]; lia.
Qed.

(* without the broadcast in the client's SETTINGS processing a sender parked on a zero window is never woken
   by a SETTINGS frame that raises the initial window: the claim fails *)
Theorem flow_liveness_refuted_without_wake : forall wu vd ch, 0 < ch -> ~ liveness_statement (mkCfg Client false wu vd ch).
Proof.
  intros wu vd ch Hch H.
  specialize (H 65535 65535 16384 [ESetInit 0; EOpen 1 100; ESend 1; ESetInit 65535] 1 100 1%nat).
  assert (Hd : delivers 100 (frames_of 1 (snd (run (mkCfg Client false wu vd ch) (conn_new 65535 65535 16384)
                 ([ESetInit 0; EOpen 1 100; ESend 1; ESetInit 65535] ++ repeat (ESend 1) 1))))).
  { apply H; unfold i32_max; try lia.
    - repeat constructor; cbn [ev_valid]; unfold i32_max; lia.
    - exact refute_schedule_bounded.
    - reflexivity.
    - reflexivity.
    - vm_compute. discriminate.
    - vm_compute. discriminate. }
  destruct Hd as [_ Hd]. vm_compute in Hd. discriminate.
Qed.

(* ================================================================== a checkable form of `bounded` *)
Fixpoint prefixes (l : list event) : list (list event) :=
  [] :: match l with [] => [] | x :: r => map (cons x) (prefixes r) end.

Lemma prefixes_in : forall l p q, l = p ++ q -> In p (prefixes l).
Proof.
  induction l as [|x l IH]; intros p q E.
  - destruct p; [left; reflexivity | discriminate].
  - destruct p as [|y p]; [left; reflexivity|]. cbn [app] in E. injection E as E1 E2. subst y.
    right. apply in_map. exact (IH p q E2).
Qed.

Definition open_ids (evs : list event) : list Z :=
  flat_map (fun e => match e with EOpen s _ => [s] | _ => [] end) evs.

Lemma sledger_unopened : forall sid p, ~ In sid (open_ids p) -> sledger sid p = mkSL false 0 0.
Proof.
  intros sid p. induction p as [|e p IH] using rev_ind; intros H; [reflexivity|].
  rewrite sledger_snoc. unfold open_ids in H. rewrite flat_map_app in H. fold (open_ids p) in H.
  rewrite IH by (intro Hi; apply H; apply in_or_app; left; exact Hi).
  destruct e; cbn [sstep sl_open andb]; try reflexivity.
  - destruct (sid0 =? sid) eqn:E; [|reflexivity]. exfalso. apply H. apply in_or_app. right.
    cbn [flat_map app]. left. lia.
  - rewrite andb_false_r. reflexivity.
Qed.

Lemma open_ids_prefix : forall p q sid, In sid (open_ids p) -> In sid (open_ids (p ++ q)).
Proof. intros p q sid H. unfold open_ids. rewrite flat_map_app. apply in_or_app. left. exact H. Qed.

Definition boundedb (cw i0 m0 : Z) (evs : list event) : bool :=
  forallb (fun p => (conn_credit cw i0 m0 p <=? i32_max) && (gl_init (gledger cw i0 m0 p) <=? i32_max) &&
                    forallb (fun sid => stream_credit cw i0 m0 sid p <=? i32_max) (open_ids evs)) (prefixes evs).

Lemma boundedb_sound : forall cw i0 m0 evs, boundedb cw i0 m0 evs = true -> bounded cw i0 m0 evs.
Proof.
  intros cw i0 m0 evs H p q E. unfold boundedb in H. rewrite forallb_forall in H.
  specialize (H p (prefixes_in evs p q E)). apply andb_true_iff in H. destruct H as [H H3].
  apply andb_true_iff in H. destruct H as [H1 H2].
  split; [lia|]. intros sid.
  destruct (in_dec Z.eq_dec sid (open_ids evs)) as [Hi | Hn].
  - rewrite forallb_forall in H3. specialize (H3 sid Hi). lia.
  - unfold stream_credit. rewrite sledger_unopened; [cbn [sl_incs]; lia|].
    intro Hi. apply Hn. rewrite E. apply open_ids_prefix. exact Hi.
Qed.

(* ================================================================== conditional wake-up in processWindowUpdate *)
(* `if exhausted { cond.Broadcast() }` with exhausted := available() == 0 before the add: a stream window driven
   NEGATIVE by a SETTINGS decrease below the bytes already sent is not "exhausted", so the WINDOW_UPDATE that
   lifts it back above zero wakes nobody.  Witness: 100000-byte body; the initial window 65535 is used up and the
   sender parks; SETTINGS_INITIAL_WINDOW_SIZE = 1000 (window -64535; whoever is woken re-parks);
   WINDOW_UPDATE +99000 (window 34465, stream credit 100000 = body): the sender sleeps on. *)
Definition cond_wake_witness : list event :=
  [EWinUpdConn 1000000; EOpen 1 100000; ESend 1; ESend 1; ESend 1; ESend 1; ESend 1;
   ESetInit 1000; ESend 1; EWinUpd 1 99000].

Theorem flow_liveness_refuted_with_conditional_wake : forall sd wk vd ch, 0 < ch ->
  ~ liveness_statement (mkCfg sd wk false vd ch).
Proof.
  intros sd wk vd ch Hch H.
  specialize (H 65535 65535 16384 cond_wake_witness 1 100000 8%nat).
  assert (Hd : delivers 100000 (frames_of 1 (snd (run (mkCfg sd wk false vd ch) (conn_new 65535 65535 16384)
                 (cond_wake_witness ++ repeat (ESend 1) 8))))).
  { apply H; unfold i32_max; try lia.
    - apply Forall_forall. intros x Hx. unfold cond_wake_witness in Hx.
      repeat (destruct Hx as [Hx | Hx]; [subst x; cbn [ev_valid]; unfold i32_max; lia|]). destruct Hx.
    - apply boundedb_sound. vm_compute. reflexivity.
    - reflexivity.
    - reflexivity.
    - vm_compute. discriminate.
    - vm_compute. discriminate. }
  destruct Hd as [_ Hd].
  (* chunking is symbolic in ch: count bytes through the accounting instead of evaluating the frames *)
  assert (Hv : Forall ev_valid (cond_wake_witness ++ repeat (ESend 1) 8)).
  { apply Forall_forall. intros x Hx. unfold cond_wake_witness in Hx. cbn [repeat app] in Hx.
    repeat (destruct Hx as [Hx | Hx]; [subst x; cbn [ev_valid]; unfold i32_max; lia|]). destruct Hx. }
  pose proof (inv_run (mkCfg sd wk false vd ch) 65535 65535 16384 Hch ltac:(unfold i32_max; lia) ltac:(unfold i32_max; lia) ltac:(lia) _ Hv) as I.
  set (c := fst (run (mkCfg sd wk false vd ch) (conn_new 65535 65535 16384) (cond_wake_witness ++ repeat (ESend 1) 8))) in *.
  assert (Hs : In (mkS 1 34465 100000 65535) (c_strs c)).
  { subst c. destruct sd; destruct wk; vm_compute; left; reflexivity. }
  destruct (i_strs _ _ _ _ _ _ I _ Hs) as [_ [_ [_ [_ [_ [_ [_ [_ Sn]]]]]]]].
  cbn [s_id s_sent] in Sn. unfold sent_on in Sn. rewrite Sn in Hd. discriminate Hd.
Qed.
