(* Proofs/JsonText.v (cfg, C19) - the text of a dumped string: what encoding/json writes is read back as the string. *)
From Coq Require Import List String Bool ZArith NArith Lia Ascii.
From MV Require Import Lib.GoJson.
Import ListNotations.
Open Scope string_scope.

(* one byte (not the first of a U+2028 / U+2029 sequence): 256 cases by computation *)
Lemma esc_byte_unescape c r : unescape (esc_byte c r) = option_map (String c) (unescape r).
Proof. destruct c as [[] [] [] [] [] [] [] []]; reflexivity. Qed.

Lemma ascii_of_eqb c n : N.eqb (N_of_ascii c) n = true -> c = ascii_of_N n.
Proof. intros H. apply N.eqb_eq in H. rewrite <- (ascii_N_embedding c), H. reflexivity. Qed.

(* for EVERY string s: the literal body written for s denotes s *)
Lemma unescape_escape_len : forall n s, (String.length s <= n)%nat -> unescape (escape s) = Some s.
Proof.
  induction n as [|n IH]; intros s Hl.
  - destruct s; [reflexivity|cbn in Hl; lia].
  - destruct s as [|c r]; [reflexivity|]. cbn [String.length] in Hl.
    assert (Hr : unescape (escape r) = Some r) by (apply IH; lia).
    destruct r as [|c2 [|c3 r3]].
    + cbn [escape]. rewrite esc_byte_unescape. reflexivity.
    + change (escape (String c (String c2 ""))) with (esc_byte c (escape (String c2 ""))).
      rewrite esc_byte_unescape, Hr. reflexivity.
    + change (escape (String c (String c2 (String c3 r3))))
        with (if (N.eqb (N_of_ascii c) 226 && N.eqb (N_of_ascii c2) 128 && (N.eqb (N_of_ascii c3) 168 || N.eqb (N_of_ascii c3) 169))%bool
              then String bs (String "u" (String "2" (String "0" (String "2" (String (hex_char (N_of_ascii c3 - 160)) (escape r3))))))
              else esc_byte c (escape (String c2 (String c3 r3)))).
      destruct (N.eqb (N_of_ascii c) 226) eqn:E1; cbn [andb]; [|rewrite esc_byte_unescape, Hr; reflexivity].
      destruct (N.eqb (N_of_ascii c2) 128) eqn:E2; cbn [andb]; [|rewrite esc_byte_unescape, Hr; reflexivity].
      assert (H3 : unescape (escape r3) = Some r3) by (apply IH; cbn [String.length] in Hl; lia).
      apply ascii_of_eqb in E1. apply ascii_of_eqb in E2. subst c c2.
      destruct (N.eqb (N_of_ascii c3) 168) eqn:E3; cbn [orb].
      * apply ascii_of_eqb in E3. subst c3.
        change (unescape (String bs (String "u" (String "2" (String "0" (String "2" (String (hex_char (N_of_ascii (ascii_of_N 168) - 160)) (escape r3))))))))
          with (match unescape (escape r3) with
                | Some t => Some (String (ascii_of_N 226) (String (ascii_of_N 128) (String (ascii_of_N 168) t)))
                | None => None end).
        rewrite H3. reflexivity.
      * destruct (N.eqb (N_of_ascii c3) 169) eqn:E4; [|rewrite esc_byte_unescape, Hr; reflexivity].
        apply ascii_of_eqb in E4. subst c3.
        change (unescape (String bs (String "u" (String "2" (String "0" (String "2" (String (hex_char (N_of_ascii (ascii_of_N 169) - 160)) (escape r3))))))))
          with (match unescape (escape r3) with
                | Some t => Some (String (ascii_of_N 226) (String (ascii_of_N 128) (String (ascii_of_N 169) t)))
                | None => None end).
        rewrite H3. reflexivity.
Qed.

Theorem unescape_escape s : unescape (escape s) = Some s.
Proof. apply (unescape_escape_len (String.length s)). lia. Qed.

(* a textual post-processing of the encoded text is refuted: a value holding a backslash followed by u003c.  The encoder
   writes two backslashes and u003c; replacing the six characters backslash-u003c by < matches from the SECOND backslash and
   leaves backslash-<, which is no JSON escape: the text no longer decodes.  (For a plain < the replacement is harmless.) *)
Definition w_pre_escaped : string := String "a" (String bs "u003cb").
Lemma post_replace_refuted :
  unescape (escape w_pre_escaped) = Some w_pre_escaped /\
  readable_json (escape w_pre_escaped) = String "a" (String bs "<b") /\
  unescape (readable_json (escape w_pre_escaped)) = None /\
  unescape (readable_json (escape "a<b>&c")) = Some "a<b>&c".
Proof. repeat split; vm_compute; reflexivity. Qed.
