(* The configuration family of the `_family` theorems and the combined result of the per-part reachability checks. *)
From Coq Require Import List ZArith Bool.
From MV Require Import Model.Proxy Model.ProxySpec Proofs.ProxyReach Proofs.ProxyFamily Gen.ProxyTokens.
From MV Require Import Proofs.ProxyFamA Proofs.ProxyFamA2 Proofs.ProxyFamB0 Proofs.ProxyFamB1 Proofs.ProxyFamB2 Proofs.ProxyFamB3
  Proofs.ProxyFamC0 Proofs.ProxyFamC1 Proofs.ProxyFamC2 Proofs.ProxyFamC3 Proofs.ProxyFamC4.
Import ListNotations.
Open Scope Z_scope.

Definition family : list cfg :=
  (fam_routes ++ fam_hijack_cont ++ fam_retry) ++ fam_filters1 ++ fam_forward ++ fam_filters2.

Lemma fam_check_app src P a b : fam_check src P (a ++ b) = fam_check src P a && fam_check src P b.
Proof. unfold fam_check. apply forallb_app. Qed.

Lemma forward_chunks : fam_forward = chunk 0 fam_forward ++ chunk 1 fam_forward ++ chunk 2 fam_forward ++ chunk 3 fam_forward.
Proof. vm_compute. reflexivity. Qed.
Lemma filters2_chunks : fam_filters2 =
  chunk 0 fam_filters2 ++ chunk 1 fam_filters2 ++ chunk 2 fam_filters2 ++ chunk 3 fam_filters2 ++ chunk 4 fam_filters2.
Proof. vm_compute. reflexivity. Qed.

Theorem family_ok : fam_check proxy_src (good_all proxy_src) family = true.
Proof.
  unfold family. pose proof famA_ok as HA. set (pa := fam_routes ++ fam_hijack_cont ++ fam_retry) in *.
  rewrite forward_chunks, filters2_chunks. rewrite !fam_check_app.
  rewrite HA, famA2_ok, famB0_ok, famB1_ok, famB2_ok, famB3_ok, famC0_ok, famC1_ok, famC2_ok, famC3_ok, famC4_ok. reflexivity.
Qed.

(* what it means, in terms of [run]: every configuration of the family, every schedule over the alphabet *)
Definition summary_of (s : st) (o : list out) (sched : list step) : ist :=
  {| i_st := s; i_gs := gs_outs gs0 o; i_dr := existsb is_down_reset sched; i_tm := existsb is_terminate sched |}.

Theorem family_run : forall c, In c family -> forall sched, Forall allowed sched ->
  good_all proxy_src c (summary_of (fst (run proxy_src c (init_st 0) sched)) (snd (run proxy_src c (init_st 0) sched)) sched) = true.
Proof.
  intros c Hc sched Hs. pose proof (fam_sound _ _ _ family_ok c Hc sched Hs) as H.
  rewrite irun_run in H. exact H.
Qed.

Lemma family_size : length family = 466%nat.
Proof. vm_compute. reflexivity. Qed.
