From Coq Require Import List ZArith Bool Lia.
From MV Require Import Model.Edf Model.EdfVar Proofs.Edf.
Import ListNotations.
Open Scope Z_scope.

(* picking with the period the entry already has is the pick of Model/Edf.v *)
Lemma pickw_same s i : edf_pickw s i (per_at s i) = edf_pick s i.
Proof.
  unfold edf_pickw, edf_pick, per_at. destruct (nth_error (es s) i) as [e|]; reflexivity.
Qed.

Lemma pickw_inv s i p s' : EInv s -> 0 < p -> edf_pickw s i p = Some s' -> EInv s'.
Proof.
  unfold edf_pickw, EInv. intros H Hpos Hp.
  destruct (nth_error (es s) i) as [e|] eqn:He; [|discriminate].
  destruct (dl_minimal e (es s)) eqn:Hm; [|discriminate]. inversion Hp; subst s'; clear Hp. cbn [es now].
  apply dl_minimal_spec in Hm.
  pose proof (nth_error_In _ _ He) as Hin.
  rewrite Forall_forall in H. pose proof (H e Hin) as [Hpe [Hlo Hhi]].
  apply Forall_upd.
  - rewrite Forall_forall in *. intros e' He'. pose proof (H e' He') as [Hp' [Hlo' Hhi']].
    pose proof (Hm e' He'). lia.
  - cbn; lia.
Qed.

Lemma pickw_effect s i p s' : edf_pickw s i p = Some s' ->
  length (es s') = length (es s) /\ now s' = dl_at s i /\
  forall j, per_at s' j = (if Nat.eqb j i then p else per_at s j) /\
            dl_at s' j = dl_at s j + (if Nat.eqb j i then p else 0).
Proof.
  unfold edf_pickw. intros Hp.
  destruct (nth_error (es s) i) as [e|] eqn:He; [|discriminate].
  destruct (dl_minimal e (es s)); [|discriminate]. inversion Hp; subst s'; clear Hp. cbn [es now].
  split; [apply upd_length|]. split; [unfold dl_at; rewrite He; reflexivity|].
  intros j. unfold per_at, dl_at; cbn [es].
  destruct (Nat.eqb_spec j i) as [->|Hne].
  - rewrite nth_error_upd_same by (apply nth_error_Some; congruence). rewrite He. cbn. split; lia.
  - rewrite nth_error_upd_other by congruence. destruct (nth_error (es s) j); split; lia.
Qed.

(* ---- histories with arbitrary weight changes keep the invariant ---- *)
Definition wop_ok (o : wop) : Prop := match o with WAdd p => 0 < p | WPick _ p => 0 < p end.

Lemma execw_inv ops : forall s s', Forall wop_ok ops -> EInv s -> edf_execw s ops = Some s' -> EInv s'.
Proof.
  induction ops as [|[p|i p] ops IH]; intros s s' Hok Hinv Hex; cbn [edf_execw] in Hex.
  - inversion Hex; subst; exact Hinv.
  - inversion Hok; subst. eapply IH; [eassumption| |exact Hex]. apply add_inv; assumption.
  - inversion Hok; subst. destruct (edf_pickw s i p) eqn:Hp; [|discriminate].
    eapply IH; [eassumption| |exact Hex]. eapply pickw_inv; eassumption.
Qed.

(* ---- a segment with a constant weight function ---- *)
Lemma runw_effect P picks : (forall i, 0 < P i) -> forall s s', EInv s -> edf_runw s P picks = Some s' ->
  EInv s' /\ length (es s') = length (es s) /\
  forall j, per_at s' j = (if 0 <? count_pick j picks then P j else per_at s j) /\
            dl_at s' j = dl_at s j + count_pick j picks * P j.
Proof.
  intros HP. induction picks as [|i ps IH]; intros s s' Hinv Hrun; cbn [edf_runw] in Hrun.
  - inversion Hrun; subst. split; [exact Hinv|]. split; [reflexivity|]. intros j. unfold count_pick; cbn. split; lia.
  - destruct (edf_pickw s i (P i)) as [s1|] eqn:Hp; [|discriminate].
    pose proof (pickw_inv _ _ _ _ Hinv (HP i) Hp) as Hinv1.
    destruct (pickw_effect _ _ _ _ Hp) as [Hlen1 [_ Heff1]].
    destruct (IH _ _ Hinv1 Hrun) as [Hinv' [Hlen' Heff']].
    split; [exact Hinv'|]. split; [congruence|]. intros j.
    destruct (Heff1 j) as [Hp1 Hd1]. destruct (Heff' j) as [Hp2 Hd2].
    rewrite count_pick_cons.
    assert (Hc : 0 <= count_pick j ps) by (unfold count_pick; lia).
    split.
    + rewrite Hp2, Hp1. destruct (Nat.eqb_spec j i) as [Heq|Hne].
      * rewrite <- Heq.
        assert (E2 : (0 <? 1 + count_pick j ps) = true) by (apply Z.ltb_lt; lia). rewrite E2.
        destruct (0 <? count_pick j ps); reflexivity.
      * replace (0 + count_pick j ps) with (count_pick j ps) by lia. reflexivity.
    + rewrite Hd2, Hd1. destruct (Nat.eqb_spec j i) as [Heq|Hne]; [rewrite <- Heq|]; lia.
Qed.

(* when the weight function answers what every entry was last queued with, a segment is a run of Model/Edf.v *)
Lemma runw_settled P picks : forall s, (forall i, (i < length (es s))%nat -> P i = per_at s i) ->
  edf_runw s P picks = edf_run s picks.
Proof.
  induction picks as [|i ps IH]; intros s HP; cbn [edf_runw edf_run]; [reflexivity|].
  destruct (Nat.lt_ge_cases i (length (es s))) as [Hi|Hi].
  - rewrite (HP i Hi), pickw_same. destruct (edf_pick s i) as [s1|] eqn:Hp; [|reflexivity].
    apply IH. destruct (pick_effect _ _ _ Hp) as [Hlen Heff]. intros k Hk.
    destruct (Heff k) as [Hpk _]. rewrite Hpk. apply HP. lia.
  - unfold edf_pickw, edf_pick. apply nth_error_None in Hi. rewrite Hi. reflexivity.
Qed.

(* The bound while weights are in transit: from ANY state of the invariant, over a segment with constant
   weight function P, an entry whose queued period still stems from an older weight contributes the larger of
   its old and new period. *)
Theorem edf_window_transient s0 P picks s1 : (forall i, 0 < P i) -> EInv s0 -> edf_runw s0 P picks = Some s1 ->
  forall i j, (i < length (es s0))%nat -> (j < length (es s0))%nat ->
  Z.abs (count_pick i picks * P i - count_pick j picks * P j)
    <= Z.max (per_at s0 i) (P i) + Z.max (per_at s0 j) (P j).
Proof.
  intros HP H0 Hrun i j Hi Hj.
  destruct (runw_effect P picks HP _ _ H0 Hrun) as [H1 [Hlen Heff]].
  destruct (Heff i) as [Hpi Hdi]. destruct (Heff j) as [Hpj Hdj].
  pose proof (inv_at s0 i H0 Hi) as [? [? ?]]. pose proof (inv_at s0 j H0 Hj) as [? [? ?]].
  pose proof (inv_at s1 i H1 ltac:(lia)) as [? [? ?]]. pose proof (inv_at s1 j H1 ltac:(lia)) as [? [? ?]].
  pose proof (HP i). pose proof (HP j).
  destruct (0 <? count_pick i picks); destruct (0 <? count_pick j picks); lia.
Qed.

(* Once both entries have been re-queued under the current weights (picked at least once in `warm`), the exact
   bound of the property holds again in every later window, whatever the weights did before. *)
Theorem edf_window_settled s0 P warm sm picks s1 : (forall i, 0 < P i) -> EInv s0 ->
  edf_runw s0 P warm = Some sm -> edf_runw sm P picks = Some s1 ->
  forall i j, (i < length (es s0))%nat -> (j < length (es s0))%nat ->
  0 < count_pick i warm -> 0 < count_pick j warm ->
  Z.abs (count_pick i picks * P i - count_pick j picks * P j) <= P i + P j.
Proof.
  intros HP H0 Hwarm Hrun i j Hi Hj Hci Hcj.
  destruct (runw_effect P warm HP _ _ H0 Hwarm) as [Hm [Hlen Heff]].
  destruct (Heff i) as [Hpi _]. destruct (Heff j) as [Hpj _].
  apply Z.ltb_lt in Hci, Hcj. rewrite Hci in Hpi. rewrite Hcj in Hpj.
  pose proof (edf_window_transient sm P picks s1 HP Hm Hrun i j ltac:(lia) ltac:(lia)) as HW.
  rewrite Hpi, Hpj in HW. lia.
Qed.

(* from the empty scheduler: any history of Adds and picks with arbitrarily changing (positive) periods *)
Theorem edf_window_settled_reachable pre s0 P warm sm picks s1 :
  Forall wop_ok pre -> edf_execw edf_init pre = Some s0 -> (forall i, 0 < P i) ->
  edf_runw s0 P warm = Some sm -> edf_runw sm P picks = Some s1 ->
  forall i j, (i < length (es s0))%nat -> (j < length (es s0))%nat ->
  0 < count_pick i warm -> 0 < count_pick j warm ->
  Z.abs (count_pick i picks * P i - count_pick j picks * P j) <= P i + P j.
Proof.
  intros Hok Hex HP. apply edf_window_settled; [exact HP|].
  eapply execw_inv; [exact Hok|apply init_inv|exact Hex].
Qed.

(* the same with weights: W i is the current weight of position i, D a common multiple of the weights in force *)
Theorem edf_window_settled_weights D W pre s0 warm sm picks s1 :
  0 < D -> (forall i, 0 < W i /\ (W i | D)) ->
  Forall wop_ok pre -> edf_execw edf_init pre = Some s0 ->
  edf_runw s0 (fun i => D / W i) warm = Some sm -> edf_runw sm (fun i => D / W i) picks = Some s1 ->
  forall i j, (i < length (es s0))%nat -> (j < length (es s0))%nat ->
  0 < count_pick i warm -> 0 < count_pick j warm ->
  Z.abs (count_pick i picks * W j - count_pick j picks * W i) <= W i + W j.
Proof.
  intros HD HW Hok Hex Hwarm Hrun i j Hi Hj Hci Hcj.
  assert (HP : forall k, 0 < D / W k).
  { intros k. destruct (HW k) as [Hk [q Hq]]. rewrite Hq in *. rewrite Z.div_mul by lia. nia. }
  pose proof (edf_window_settled_reachable pre s0 _ warm sm picks s1 Hok Hex HP Hwarm Hrun i j Hi Hj Hci Hcj) as HB.
  cbv beta in HB.
  destruct (HW i) as [Hwi [qi Hqi]]. destruct (HW j) as [Hwj [qj Hqj]].
  assert (Hdi : D / W i = qi) by (rewrite Hqi; apply Z.div_mul; lia).
  assert (Hdj : D / W j = qj) by (rewrite Hqj; apply Z.div_mul; lia).
  rewrite Hdi, Hdj in HB.
  eapply (scale_arith D (W i) (W j) qi qj); eauto.
Qed.

(* ---- the stale-period handling is refuted: weights 4,2,1; the first weight goes 4 -> 1 -> 4 ---- *)
Definition stale_D : Z := 4.
Definition stale_wA (i : nat) : Z := match i with 0%nat => 4 | 1%nat => 2 | _ => 1 end.
Definition stale_wB (i : nat) : Z := match i with 0%nat => 1 | 1%nat => 2 | _ => 1 end.
Definition stale_start : cedf :=
  fold_left (fun s w => cedf_add stale_D s w) [4; 2; 1] {| c_now := 0; c_es := [] |}.
Definition stale_window : list nat :=
  let s1 := snd (cedf_run stale_D stale_start stale_wA 14) in
  let s2 := snd (cedf_run stale_D s1 stale_wB 12) in
  let s3 := snd (cedf_run stale_D s2 stale_wA 12) in      (* every entry re-queued under the restored weights *)
  fst (cedf_run stale_D s3 stale_wA 28).
Theorem stale_period_refuted :
  (forall k, In k stale_window -> (k < 3)%nat) /\
  ~ (Z.abs (count_pick 0 stale_window * stale_wA 1 - count_pick 1 stale_window * stale_wA 0)
       <= stale_wA 0 + stale_wA 1).
Proof.
  split.
  - assert (H : forallb (fun k => Nat.ltb k 3) stale_window = true) by (vm_compute; reflexivity).
    rewrite forallb_forall in H. intros k Hk. apply Nat.ltb_lt. apply H. exact Hk.
  - vm_compute. intros H. apply H. reflexivity.
Qed.
