From Coq Require Import List NArith Arith Bool Lia.
From MV Require Import Model.HealthCheck Model.HealthLifecycle Proofs.HealthCheck.
Import ListNotations.

Lemma step_changed_iff : forall u h s r,
  fst (snd (hc_step u h s r)) = true <-> hflag (fst (hc_step u h s r)) <> hflag s.
Proof.
  intros u h s r. unfold hc_step. destruct (is_succ r); destruct (hflag s) eqn:Ef.
  - destruct (N.eqb (u32 (hcc s + 1)) h); cbn; split; intros; congruence.
  - cbn. split; intros; congruence.
  - cbn. split; intros; congruence.
  - destruct (N.eqb (u32 (unc s + 1)) u); cbn; split; intros; congruence.
Qed.

Lemma stop_keeps_flag : forall s, a_flag (stop_addr StopKeeps s) = a_flag s.
Proof. intros [f [c|]]; reflexivity. Qed.

Lemma map_combine_flags : forall (f : nat * astate -> astate) (st : lcstate) k,
  (forall i s, a_flag (f (i, s)) = a_flag s) ->
  map a_flag (map f (combine (seq k (length st)) st)) = map a_flag st.
Proof.
  intros f st. induction st as [|s st IH]; intros k H; cbn; auto. rewrite H, IH; auto.
Qed.

(* no lifecycle operation (host-set change, stop, new checker) changes the condition of any address *)
Theorem lifecycle_keeps_flags : lifecycle_statement StopKeeps.
Proof.
  intros u h st o Ho. destruct o as [a r|l|]; [discriminate| |]; unfold flags; cbn [lc_step fst].
  - apply map_combine_flags. intros i s. destruct (existsb (Nat.eqb i) l).
    + destruct (a_sess s); reflexivity.
    + apply stop_keeps_flag.
  - rewrite map_map. apply map_ext. apply stop_keeps_flag.
Qed.

Theorem lifecycle_of_mode : forall md, md = StopKeeps -> lifecycle_statement md.
Proof. intros md ->. exact lifecycle_keeps_flags. Qed.

Lemma map_nth_flags_other : forall (f : astate -> astate) k st j, j <> k ->
  nth_error (map_nth f k st) j = nth_error st j.
Proof.
  induction k; intros [|s st] j H; cbn; auto.
  - destruct j; [congruence|reflexivity].
  - destruct j; auto. cbn. apply IHk. congruence.
Qed.

(* a check result changes at most the condition of ITS address, exactly as the threshold automaton says, and the
   callback reports `changed` exactly when that condition changed *)
Theorem result_step : forall md u h, thr_ok u -> thr_ok h -> forall st a r st' cb,
  lc_step md u h st (LResult a r) = (st', cb) ->
  (forall j, j <> a -> nth_error st' j = nth_error st j) /\
  match nth_error st a with
  | Some (mkA fl (Some (unc, hcc))) =>
      exists c, cb = Some c /\
        option_map a_flag (nth_error st' a) = Some (hflag (fst (hc_step u h (mkHC fl unc hcc) r))) /\
        c = snd (hc_step u h (mkHC fl unc hcc) r) /\
        (fst c = true <-> hflag (fst (hc_step u h (mkHC fl unc hcc) r)) <> fl)
  | _ => st' = st /\ cb = None
  end.
Proof.
  intros md u h Hu Hh st a r st' cb H. cbn [lc_step] in H.
  destruct (nth_error st a) as [[fl [[unc hcc]|]]|] eqn:E.
  - destruct (hc_step u h (mkHC fl unc hcc) r) as [s' c] eqn:Es. inversion H; subst. split.
    + intros j Hj. apply map_nth_flags_other; auto.
    + exists c. repeat split; auto.
      * clear - E. revert a E. induction st as [|x st IH]; intros [|a] E; cbn in *; try discriminate; auto.
      * pose proof (step_changed_iff u h (mkHC fl unc hcc) r) as Hc. rewrite Es in Hc. cbn in Hc. tauto.
      * pose proof (step_changed_iff u h (mkHC fl unc hcc) r) as Hc. rewrite Es in Hc. cbn in Hc. tauto.
  - inversion H; subst. split; auto.
  - inversion H; subst. split; auto.
Qed.

(* releasing the condition when a session stops: address 0 unhealthy, its session stopped by a host-set change *)
Theorem stop_clears_refuted : ~ lifecycle_statement StopClears.
Proof.
  intros H. specialize (H 1%N 1%N [mkA true (Some (1%N, 0%N))] (LSetHosts []) eq_refl). vm_compute in H. discriminate.
Qed.
