From Coq Require Import List NArith Arith Bool Lia.
From MV Require Import Model.HealthStore.
Import ListNotations.

(* invariant of the append-only store: every live handle points to the cell the store holds for its address *)
Definition hs_inv (s : hstore) : Prop :=
  forall i a c, handle s i = Some (a, c) -> lookup_addr a (st_map s) = Some c.

Lemma nth_app_snoc {A} : forall (l : list A) x d i,
  nth i (l ++ [x]) d = if Nat.eqb i (length l) then x else nth i l d.
Proof.
  induction l as [|y l IH]; intros x d i; cbn.
  - destruct i as [|[|i]]; reflexivity.
  - destruct i; cbn; auto.
Qed.

Lemma nth_set_nth {A} : forall k (x : A) l d i,
  nth i (set_nth k x l) d = if Nat.eqb i k && Nat.ltb k (length l) then x else nth i l d.
Proof.
  induction k as [|k IH]; intros x [|y l] d i; cbn.
  - destruct i; rewrite ?andb_false_r; auto.
  - destruct i; cbn; auto.
  - destruct i; rewrite ?andb_false_r; auto.
  - destruct i; cbn; auto. rewrite IH. reflexivity.
Qed.

Lemma step_inv : forall s o, hs_inv s -> hs_inv (hs_step StoreAppendOnly s o).
Proof.
  intros s o I. unfold hs_inv, handle in *. destruct o as [a|i m|i m|i|a]; cbn [hs_step].
  - destruct (lookup_addr a (st_map s)) as [c|] eqn:L; cbn [st_handles st_map]; intros i a0 c0 H;
      rewrite nth_app_snoc in H; destruct (Nat.eqb i (length (st_handles s))) eqn:Ei.
    + inversion H; subst. exact L.
    + eapply I; eauto.
    + inversion H; subst. cbn. rewrite Nat.eqb_refl. reflexivity.
    + pose proof (I _ _ _ H) as H1. cbn. destruct (Nat.eqb_spec a0 a) as [->|Hne]; [congruence|exact H1].
  - destruct (handle s i) as [[a c]|]; cbn [st_handles st_map]; exact I.
  - destruct (handle s i) as [[a c]|]; cbn [st_handles st_map]; exact I.
  - cbn [st_handles st_map]. intros j a c H. rewrite nth_set_nth in H.
    destruct (Nat.eqb j i && Nat.ltb i (length (st_handles s))); [discriminate|eauto].
  - exact I.
Qed.

Lemma run_inv : forall ops s, hs_inv s -> hs_inv (fold_left (hs_step StoreAppendOnly) ops s).
Proof. induction ops as [|o ops IH]; intros s I; cbn; auto. apply IH, step_inv; auto. Qed.

Theorem one_word_append_only : one_word_statement StoreAppendOnly.
Proof.
  intros ops i j a ci cj Hi Hj.
  assert (I : hs_inv (hs_run StoreAppendOnly ops)).
  { apply run_inv. intros k a0 c0 H. unfold handle in H. cbn in H. destruct k; discriminate. }
  pose proof (I _ _ _ Hi). pose proof (I _ _ _ Hj). congruence.
Qed.

Theorem one_word_of_mode : forall md, md = StoreAppendOnly -> one_word_statement md.
Proof. intros md ->. exact one_word_append_only. Qed.

(* consequence: a condition set or cleared through one host object is seen through every other object of the address *)
Theorem same_word_seen : forall ops i j a ci cj,
  let s := hs_run StoreAppendOnly ops in
  handle s i = Some (a, ci) -> handle s j = Some (a, cj) -> handle_word s i = handle_word s j.
Proof.
  intros ops i j a ci cj s Hi Hj. unfold handle_word. rewrite Hi, Hj.
  rewrite (one_word_append_only ops i j a ci cj Hi Hj). reflexivity.
Qed.

(* releasing a clean entry: two host objects of one address end up on different words - one address in two
   clusters, removed from one while healthy, then a new host object; a flag set through it is invisible through the
   object the other cluster still holds *)
Theorem release_zero_refuted : ~ one_word_statement StoreReleaseZero.
Proof.
  intros H. specialize (H [ONew 7; ONew 7; ODrop 1; ORelease 7; ONew 7] 0%nat 2%nat 7%nat 0%nat 1%nat eq_refl eq_refl).
  discriminate.
Qed.
