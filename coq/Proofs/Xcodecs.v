(* Proofs/Xcodecs.v (codec) - dubbo / dubbo-thrift / tars framing: pure characterisation, totality, bounds,
   prefix stability.  The opaque body parsers are arbitrary functions (universally quantified). *)
From Coq Require Import List NArith Lia ZifyBool ZifyNat ZifyN Bool.
From MV Require Import Lib.Bytes Lib.Dec Lib.Seg Model.CodecParams Model.Xcodecs.
Import ListNotations.
Open Scope N_scope.

(* generic: a framer derived from a pure outcome function that is invariant under later bytes *)
Lemma x_presult_stable (P : bytes -> outcome (xframe * N)) :
  (forall b e, P b <> NeedMore -> P (b ++ e) = P b) ->
  (forall b f n, P b = Ok (f, n) -> 0 < n /\ n <= blen b) ->
  forall parse, (forall b, parse b = match P b with Ok (f, n) => POk f (N.to_nat n) | NeedMore => PNeedMore | _ => PErr end) ->
  stable parse.
Proof.
  intros Hext Hok parse Hp. constructor.
  - intros b f n H. rewrite Hp in H. destruct (P b) as [[c m]| | | |] eqn:E; try discriminate. inversion H; subst.
    split; [apply Hok in E; unfold blen in E; lia|].
    intros e. rewrite Hp, Hext by congruence. now rewrite E.
  - intros b H e. rewrite Hp in *. destruct (P b) as [[c m]| | | |] eqn:E; try discriminate;
      rewrite Hext by congruence; now rewrite E.
  - intros b f n H. rewrite Hp in H. destruct (P b) as [[c m]| | | |]; discriminate.
Qed.

Lemma nth_app_lt (b e : bytes) i : i < blen b -> nth (N.to_nat i) (b ++ e) 0 = nth (N.to_nat i) b 0.
Proof. intros H. apply app_nth1. unfold blen in H. lia. Qed.

Lemma l_sub_some b i j : i <= j -> j <= blen b -> l_sub b i j = Some (sub b i j).
Proof. intros H1 H2. unfold l_sub. now replace ((j <? i) || (blen b <? j)) with false by lia. Qed.

Ltac ok_inv H := match type of H with Ok (_, ?x) = Ok (_, ?n) => let E := fresh "En" in assert (E : n = x) by congruence end.

(* =========================================== dubbo ============================================== *)
Section Dubbo.
Variable hess : bytes -> bool.

Definition dubbo_frame_pure (b : bytes) : outcome (xframe * N) :=
  let magic := sub b dubbo_MagicIdx dubbo_FlagIdx in
  let flag := nth (N.to_nat dubbo_FlagIdx) b 0 in
  let status := nth (N.to_nat dubbo_StatusIdx) b 0 in
  let id := be_decw (sub b dubbo_IdIdx (dubbo_IdIdx + dubbo_IdLen)) in
  let dlen := be_decw (sub b dubbo_DataLenIdx (dubbo_DataLenIdx + dubbo_DataLenSize)) in
  let isevent := N.testbit flag 5 in
  let twoway := N.testbit flag 6 in
  let dir := if N.testbit flag 7 then dubbo_EventRequest else dubbo_EventResponse in
  let serid := N.land flag 31 in
  let frameLen := (dubbo_HeaderLen + dlen) mod U32 in
  let body := sub b 0 frameLen in
  match l_sub body dubbo_HeaderLen (blen body) with
  | None => Panic
  | Some payload =>
      let fr := {| x_nums := [flag; status; id; dlen; b2n isevent; b2n twoway; dir; serid];
                   x_raw := Some (Private body); x_payload := payload; x_magic := magic |} in
      if negb isevent && (dir =? dubbo_EventRequest) then
        if negb (serid =? 2) then Err ERR_BODY
        else if hess payload then Ok (fr, frameLen) else Err ERR_BODY
      else Ok (fr, frameLen)
  end.

Definition dubbo_plen (b : bytes) : N := be_decw (sub b dubbo_DataLenIdx (dubbo_DataLenIdx + dubbo_DataLenSize)).
Definition dubbo_pure (b : bytes) : outcome (xframe * N) :=
  if blen b <? dubbo_HeaderLen then NeedMore else
  if dubbo_HeaderLen + dubbo_plen b <=? blen b then dubbo_frame_pure b else NeedMore.

Ltac dconst := unfold dubbo_HeaderLen, dubbo_MagicIdx, dubbo_FlagIdx, dubbo_StatusIdx, dubbo_IdIdx, dubbo_IdLen,
  dubbo_DataLenIdx, dubbo_DataLenSize, U32 in *.

Lemma dubbo_framelen_le (b : bytes) : (dubbo_HeaderLen + dubbo_plen b) mod U32 <= dubbo_HeaderLen + dubbo_plen b.
Proof. apply N.mod_le. discriminate. Qed.

Lemma dubbo_frame_res v : dubbo_HeaderLen + dubbo_plen (vb v) <= vlen v ->
  res (dubbo_decode_frame hess v) = dubbo_frame_pure (vb v).
Proof.
  intros H. pose proof (dubbo_framelen_le (vb v)) as Hm. unfold dubbo_plen in *.
  unfold dubbo_decode_frame, dubbo_frame_pure.
  rewrite res_bind, rd_sub_res by (dconst; lia).
  rewrite res_bind, rd_idx_res by (dconst; lia).
  rewrite res_bind, rd_idx_res by (dconst; lia).
  rewrite res_bind, rd_be_res by (dconst; lia).
  rewrite res_bind, rd_be_res by (dconst; lia).
  rewrite res_bind. cbn [alloc res fst].
  rewrite res_bind, rd_sub_res by (dconst; lia).
  destruct (l_sub _ dubbo_HeaderLen _); [|reflexivity].
  destruct (negb _ && _); [|reflexivity].
  destruct (negb (_ =? 2)); [reflexivity|]. destruct (hess l); reflexivity.
Qed.

Lemma dubbo_frame_bounded v : dubbo_HeaderLen <= vlen v -> dubbo_HeaderLen + dubbo_plen (vb v) <= vlen v ->
  bounded (vlen v) (dubbo_decode_frame hess v).
Proof.
  intros H16 H. pose proof (dubbo_framelen_le (vb v)) as Hm. unfold dubbo_plen in *. unfold dubbo_decode_frame.
  apply bounded_bind; [apply rd_sub_bounded; dconst; lia|intros magic _].
  apply bounded_bind; [apply rd_idx_bounded; lia|intros flag _].
  apply bounded_bind; [apply rd_idx_bounded; lia|intros status _].
  apply bounded_bind; [apply rd_be_bounded; dconst; lia|intros id _].
  apply bounded_bind; [apply rd_be_bounded; dconst; lia|intros dlen Hd].
  rewrite rd_be_res in Hd by (dconst; lia). match type of Hd with Ok ?x = Ok _ => assert (Hd' : dlen = x) by congruence end; subst dlen.
  apply bounded_bind; [apply bounded_alloc; dconst; lia|intros _ _].
  apply bounded_bind; [apply rd_sub_bounded; dconst; lia|intros body _].
  destruct (l_sub body dubbo_HeaderLen (blen body)); [|apply bounded_panic].
  destruct (negb _ && _); [|apply bounded_ret].
  destruct (negb (_ =? 2)); [apply bounded_fail|]. destruct (hess l); [apply bounded_ret|apply bounded_fail].
Qed.

Lemma dubbo_res v : res (dubbo_decode_sw hess true v) = dubbo_pure (vb v).
Proof.
  unfold dubbo_decode_sw, dubbo_pure. fold (vlen v).
  destruct (vlen v <? dubbo_HeaderLen) eqn:E; [reflexivity|].
  rewrite res_bind, rd_be_res by (dconst; lia). fold (dubbo_plen (vb v)).
  destruct (dubbo_HeaderLen + dubbo_plen (vb v) <=? vlen v) eqn:E2; [|reflexivity].
  apply dubbo_frame_res. lia.
Qed.

Lemma dubbo_bounded v : bounded (vlen v) (dubbo_decode_sw hess true v).
Proof.
  unfold dubbo_decode_sw. destruct (vlen v <? dubbo_HeaderLen) eqn:E; [apply bounded_need_more|].
  apply bounded_bind; [apply rd_be_bounded; dconst; lia|intros plen Hp].
  rewrite rd_be_res in Hp by (dconst; lia). match type of Hp with Ok ?x = Ok _ => assert (Hp' : plen = x) by congruence end; subst plen. fold (dubbo_plen (vb v)).
  destruct (dubbo_HeaderLen + dubbo_plen (vb v) <=? vlen v) eqn:E2; [|apply bounded_need_more].
  apply dubbo_frame_bounded; lia.
Qed.

Lemma dubbo_pure_ext b e : dubbo_pure b <> NeedMore -> dubbo_pure (b ++ e) = dubbo_pure b.
Proof.
  unfold dubbo_pure. destruct (blen b <? dubbo_HeaderLen) eqn:E1; [congruence|].
  destruct (dubbo_HeaderLen + dubbo_plen b <=? blen b) eqn:E2; [|congruence]. intros _.
  assert (Hp : dubbo_plen (b ++ e) = dubbo_plen b) by (unfold dubbo_plen; rewrite sub_app by (dconst; lia); reflexivity).
  rewrite blen_app, Hp.
  replace (blen b + blen e <? dubbo_HeaderLen) with false by lia.
  replace (dubbo_HeaderLen + dubbo_plen b <=? blen b + blen e) with true by lia.
  pose proof (dubbo_framelen_le b) as Hm. unfold dubbo_plen in *.
  unfold dubbo_frame_pure.
  rewrite !(sub_app b e) by (dconst; lia).
  rewrite !nth_app_lt by (dconst; lia). reflexivity.
Qed.

Lemma dubbo_pure_ok b f n : blen b < U32 -> dubbo_pure b = Ok (f, n) -> 0 < n /\ n <= blen b.
Proof.
  unfold dubbo_pure. intros Hb. destruct (blen b <? dubbo_HeaderLen) eqn:E1; [discriminate|].
  destruct (dubbo_HeaderLen + dubbo_plen b <=? blen b) eqn:E2; [|discriminate].
  unfold dubbo_frame_pure. fold (dubbo_plen b).
  rewrite N.mod_small by lia.
  destruct (l_sub _ dubbo_HeaderLen _); [|discriminate].
  destruct (negb _ && _).
  - destruct (negb (_ =? 2)); [discriminate|]. destruct (hess l); [|discriminate].
    intros H. ok_inv H. unfold dubbo_plen in *. dconst. lia.
  - intros H. ok_inv H. unfold dubbo_plen in *. dconst. lia.
Qed.

(* without the 4 GiB bound on the buffer: a frame never extends beyond the buffered bytes *)
Lemma dubbo_pure_ok_le b f n : dubbo_pure b = Ok (f, n) -> n <= blen b.
Proof.
  unfold dubbo_pure. destruct (blen b <? dubbo_HeaderLen) eqn:E1; [discriminate|].
  destruct (dubbo_HeaderLen + dubbo_plen b <=? blen b) eqn:E2; [|discriminate].
  pose proof (dubbo_framelen_le b) as Hm.
  unfold dubbo_frame_pure. fold (dubbo_plen b).
  destruct (l_sub _ dubbo_HeaderLen _); [|discriminate].
  destruct (negb _ && _).
  - destruct (negb (_ =? 2)); [discriminate|]. destruct (hess l); [|discriminate].
    intros H. ok_inv H. unfold dubbo_plen in *. lia.
  - intros H. ok_inv H. unfold dubbo_plen in *. lia.
Qed.

Lemma dubbo_pure_total b : blen b < U32 -> dubbo_pure b <> Panic /\ dubbo_pure b <> OutOfFuel.
Proof.
  unfold dubbo_pure. intros Hb. destruct (blen b <? dubbo_HeaderLen) eqn:E1; [split; discriminate|].
  destruct (dubbo_HeaderLen + dubbo_plen b <=? blen b) eqn:E2; [|split; discriminate].
  unfold dubbo_frame_pure. fold (dubbo_plen b). rewrite N.mod_small by lia.
  rewrite l_sub_some.
  - destruct (negb _ && _); [|split; discriminate].
    destruct (negb (_ =? 2)); [split; discriminate|]. destruct (hess _); split; discriminate.
  - rewrite sub_length by lia. dconst. lia.
  - lia.
Qed.

(* a frame consumes at least one byte also above 4 GiB?  No: there the uint32 sum wraps.  Stability of the framer
   needs 0 < n only for frames that are returned, which the bound gives; the framer used by the dispatch theorem
   therefore treats a zero-length "frame" as what it is in Go - see dubbo_parse_stable below. *)
End Dubbo.

(* =========================================== dubbo-thrift ======================================= *)
Section Thrift.
Variable tparse : bytes -> option (N * N).

Definition thrift_fl (b : bytes) : N := be_decw (sub b 0 (0 + thrift_MessageLenSize)).

(* the decoder after the frame was copied: a function of the copy only *)
Definition thrift_body_pure (dataBytes : bytes) : outcome (xframe * N) :=
  res (opt_or_recovered (l_sub dataBytes 0 thrift_MessageLenSize) (fun m4 =>
  let messageLen := be_decw m4 in
  opt_or_recovered (l_sub dataBytes thrift_MessageLenSize ((thrift_MessageLenSize + messageLen) mod U32)) (fun body =>
  let frameLength := (messageLen + thrift_MessageLenSize) mod U32 in
  opt_or_recovered (l_sub body 0 thrift_MagicLen) (fun magic =>
  opt_or_recovered (l_sub body thrift_MessageLenIdx (thrift_MessageLenIdx + thrift_MessageLenSize)) (fun ml =>
  opt_or_recovered (l_sub body thrift_MessageHeaderLenIdx (thrift_MessageHeaderLenIdx + thrift_MessageHeaderLenSize)) (fun hl =>
  let headerLength := be_decw hl in
  opt_or_recovered (l_sub dataBytes 0 frameLength) (fun raw =>
  opt_or_recovered (l_sub body headerLength (blen body)) (fun payload =>
  opt_or_recovered (l_sub body thrift_HeaderIdx (blen body)) (fun tbody =>
  match tparse tbody with
  | None => fail ERR_BODY
  | Some (id, mtype) =>
      ret ({| x_nums := [frameLength; be_decw ml; headerLength; id; if mtype =? 1 then 1 else 2];
              x_raw := Some (Private raw); x_payload := payload; x_magic := magic |}, frameLength)
  end))))))))).

Definition thrift_pure (b : bytes) : outcome (xframe * N) :=
  if blen b <? thrift_MessageLenSize + thrift_MagicLen then NeedMore else
  if thrift_MessageLenSize + thrift_fl b <=? blen b then thrift_body_pure (sub b 0 (thrift_MessageLenSize + thrift_fl b)) else NeedMore.

Ltac tconst := unfold thrift_MessageLenSize, thrift_MagicLen, thrift_MessageLenIdx, thrift_MessageHeaderLenIdx,
  thrift_MessageHeaderLenSize, thrift_HeaderIdx, thrift_IdLen, U32 in *.

Lemma thrift_frame_res v : thrift_MessageLenSize <= vlen v -> thrift_MessageLenSize + thrift_fl (vb v) <= vlen v ->
  res (thrift_decode_frame tparse v) = thrift_body_pure (sub (vb v) 0 (thrift_MessageLenSize + thrift_fl (vb v))).
Proof.
  intros H4 H. unfold thrift_decode_frame, thrift_fl in *.
  rewrite res_bind, rd_be_res by (tconst; lia).
  rewrite res_bind. cbn [alloc res fst].
  rewrite res_bind, rd_sub_res by (tconst; lia). reflexivity.
Qed.

Lemma opt_or_recovered_bounded {A} n (o : option A) k : (forall a, bounded n (k a)) -> bounded n (opt_or_recovered o k).
Proof. intros H. destruct o; [apply H|apply bounded_fail]. Qed.

Lemma thrift_frame_bounded v : thrift_MessageLenSize <= vlen v -> thrift_MessageLenSize + thrift_fl (vb v) <= vlen v ->
  bounded (vlen v) (thrift_decode_frame tparse v).
Proof.
  intros H4 H. unfold thrift_decode_frame, thrift_fl in *.
  apply bounded_bind; [apply rd_be_bounded; tconst; lia|intros fl Hf].
  rewrite rd_be_res in Hf by (tconst; lia). match type of Hf with Ok ?x = Ok _ => assert (Hf' : fl = x) by congruence end; subst fl.
  apply bounded_bind; [apply bounded_alloc; lia|intros _ _].
  apply bounded_bind; [apply rd_sub_bounded; lia|intros dataBytes _].
  repeat (apply opt_or_recovered_bounded; intros ?).
  destruct (tparse _) as [[id mt]|]; [apply bounded_ret|apply bounded_fail].
Qed.

Lemma thrift_res v : res (thrift_decode tparse v) = thrift_pure (vb v).
Proof.
  unfold thrift_decode, thrift_pure. fold (vlen v).
  destruct (vlen v <? thrift_MessageLenSize + thrift_MagicLen) eqn:E; [reflexivity|].
  rewrite res_bind, rd_be_res by (tconst; lia). fold (thrift_fl (vb v)).
  destruct (thrift_MessageLenSize + thrift_fl (vb v) <=? vlen v) eqn:E2; [|reflexivity].
  apply thrift_frame_res; tconst; lia.
Qed.

Lemma thrift_bounded v : bounded (vlen v) (thrift_decode tparse v).
Proof.
  unfold thrift_decode. destruct (vlen v <? thrift_MessageLenSize + thrift_MagicLen) eqn:E; [apply bounded_need_more|].
  apply bounded_bind; [apply rd_be_bounded; tconst; lia|intros fl Hf].
  rewrite rd_be_res in Hf by (tconst; lia). match type of Hf with Ok ?x = Ok _ => assert (Hf' : fl = x) by congruence end; subst fl. fold (thrift_fl (vb v)).
  destruct (thrift_MessageLenSize + thrift_fl (vb v) <=? vlen v) eqn:E2; [|apply bounded_need_more].
  apply thrift_frame_bounded; tconst; lia.
Qed.

Lemma thrift_pure_ext b e : thrift_pure b <> NeedMore -> thrift_pure (b ++ e) = thrift_pure b.
Proof.
  unfold thrift_pure. destruct (blen b <? thrift_MessageLenSize + thrift_MagicLen) eqn:E1; [congruence|].
  destruct (thrift_MessageLenSize + thrift_fl b <=? blen b) eqn:E2; [|congruence]. intros _.
  assert (Hp : thrift_fl (b ++ e) = thrift_fl b) by (unfold thrift_fl; rewrite sub_app by (tconst; lia); reflexivity).
  rewrite blen_app, Hp.
  replace (blen b + blen e <? thrift_MessageLenSize + thrift_MagicLen) with false by lia.
  replace (thrift_MessageLenSize + thrift_fl b <=? blen b + blen e) with true by lia.
  rewrite sub_app by lia. reflexivity.
Qed.

(* the body of a returned frame starts behind the prefix: the uint32 sum did not wrap, the frame is 4 + fl bytes *)
Lemma thrift_body_ok d f n : thrift_MessageLenSize <= blen d -> thrift_body_pure d = Ok (f, n) ->
  n = thrift_MessageLenSize + be_decw (sub d 0 thrift_MessageLenSize) /\ n <= blen d.
Proof.
  intros H4. unfold thrift_body_pure.
  rewrite l_sub_some by (tconst; lia). cbn [opt_or_recovered].
  set (ml := be_decw (sub d 0 thrift_MessageLenSize)).
  assert (Hml : ml < U32).
  { unfold ml. pose proof (be_decw_bound (sub d 0 thrift_MessageLenSize)) as Hb. rewrite sub_length in Hb by (tconst; lia).
    change (256 ^ (thrift_MessageLenSize - 0)) with U32 in Hb. exact Hb. }
  destruct (l_sub d thrift_MessageLenSize ((thrift_MessageLenSize + ml) mod U32)) as [body|] eqn:Eb; [|discriminate].
  unfold l_sub in Eb.
  destruct ((_ <? thrift_MessageLenSize) || (blen d <? _)) eqn:Ec; [discriminate|].
  assert (Hnw : thrift_MessageLenSize + ml < U32).
  { destruct (N.lt_ge_cases (thrift_MessageLenSize + ml) U32) as [|Hge]; [assumption|]. exfalso.
    assert ((thrift_MessageLenSize + ml) mod U32 = thrift_MessageLenSize + ml - U32).
    { rewrite <- (N.mod_small (thrift_MessageLenSize + ml - U32) U32) by (tconst; lia).
      replace (thrift_MessageLenSize + ml) with ((thrift_MessageLenSize + ml - U32) + 1 * U32) at 1 by lia.
      apply N.mod_add. discriminate. }
    tconst. lia. }
  rewrite N.mod_small in Ec by assumption.
  cbn [opt_or_recovered].
  repeat match goal with |- context [opt_or_recovered ?o _] => destruct o; cbn [opt_or_recovered]; [|discriminate] end.
  destruct (tparse _) as [[id mt]|]; [|discriminate].
  cbn [res ret fst]. intros H. ok_inv H. subst n. rewrite (N.add_comm ml). rewrite N.mod_small by assumption. lia.
Qed.

Lemma thrift_pure_ok b f n : thrift_pure b = Ok (f, n) -> 0 < n /\ n <= blen b.
Proof.
  unfold thrift_pure. destruct (blen b <? thrift_MessageLenSize + thrift_MagicLen) eqn:E1; [discriminate|].
  destruct (thrift_MessageLenSize + thrift_fl b <=? blen b) eqn:E2; [|discriminate].
  intros H. apply thrift_body_ok in H.
  - rewrite sub_length in H by lia. tconst. lia.
  - rewrite sub_length by lia. tconst. lia.
Qed.

Lemma opt_or_recovered_total {A} (o : option A) k :
  (forall a, res (k a) <> Panic /\ res (k a) <> OutOfFuel) ->
  res (opt_or_recovered o k) <> Panic /\ res (opt_or_recovered o k) <> OutOfFuel.
Proof. intros H. destruct o; [apply H|split; discriminate]. Qed.

Lemma thrift_pure_total b : thrift_pure b <> Panic /\ thrift_pure b <> OutOfFuel.
Proof.
  unfold thrift_pure. destruct (_ <? _); [split; discriminate|]. destruct (_ <=? _); [|split; discriminate].
  unfold thrift_body_pure.
  repeat (apply opt_or_recovered_total; intros ?).
  destruct (tparse _) as [[id mt]|]; split; discriminate.
Qed.
End Thrift.

(* =========================================== tars =============================================== *)
Section Tars.
Variable stype : bytes -> N.
Variable rparse : bool -> bytes -> option N.

Definition tars_n (b : bytes) : N := be_decw (sub b 0 (0 + 4)).
Definition tars_pure (b : bytes) : outcome (xframe * N) :=
  if blen b <? tars_MessageSizeLen then NeedMore else
  let n := tars_n b in
  if (n <? 4) || (tars_MaxPackageLength <? n) then NeedMore else
  if blen b <? n then NeedMore else
  let fr := sub b 0 n in
  let ty := stype fr in
  let isresp := existsb (N.eqb ty) tars_resp_types in
  let isreq := existsb (N.eqb ty) tars_req_types in
  if isresp || isreq then
    match rparse isresp (dropN tars_MessageSizeLen fr) with
    | Some id => Ok ({| x_nums := [if isresp then 1 else 0; id]; x_raw := Some (Private fr); x_payload := fr; x_magic := [] |}, n)
    | None => Err ERR_BODY
    end
  else Err ERR_TYPE.

Ltac rconst := unfold tars_MessageSizeLen, tars_MaxPackageLength in *.

Lemma tars_res v : res (tars_decode stype rparse v) = tars_pure (vb v).
Proof.
  unfold tars_decode, tars_pure. fold (vlen v).
  destruct (vlen v <? tars_MessageSizeLen) eqn:E; [reflexivity|].
  rewrite res_bind, rd_be_res by (rconst; lia). fold (tars_n (vb v)).
  destruct ((tars_n (vb v) <? 4) || (tars_MaxPackageLength <? tars_n (vb v))) eqn:E2; [reflexivity|].
  destruct (vlen v <? tars_n (vb v)) eqn:E3; [reflexivity|].
  rewrite res_bind, rd_sub_res by lia. cbv zeta.
  destruct (existsb _ tars_resp_types || existsb _ tars_req_types); [|reflexivity].
  rewrite res_bind. cbn [alloc res fst].
  rewrite res_bind, rd_sub_res by lia.
  destruct (rparse _ _); reflexivity.
Qed.

Lemma tars_bounded v : bounded (vlen v) (tars_decode stype rparse v).
Proof.
  unfold tars_decode. destruct (vlen v <? tars_MessageSizeLen) eqn:E; [apply bounded_need_more|].
  apply bounded_bind; [apply rd_be_bounded; rconst; lia|intros n _].
  destruct ((n <? 4) || (tars_MaxPackageLength <? n)); [apply bounded_need_more|].
  destruct (vlen v <? n) eqn:E3; [apply bounded_need_more|].
  apply bounded_bind; [apply rd_sub_bounded; lia|intros fr _]. cbv zeta.
  destruct (existsb _ tars_resp_types || existsb _ tars_req_types); [|apply bounded_fail].
  apply bounded_bind; [apply bounded_alloc; lia|intros _ _].
  apply bounded_bind; [apply rd_sub_bounded; lia|intros raw _].
  destruct (rparse _ _); [apply bounded_ret|apply bounded_fail].
Qed.

Lemma tars_pure_ext b e : tars_pure b <> NeedMore -> tars_pure (b ++ e) = tars_pure b.
Proof.
  unfold tars_pure. destruct (blen b <? tars_MessageSizeLen) eqn:E1; [congruence|].
  assert (Hn : tars_n (b ++ e) = tars_n b) by (unfold tars_n; rewrite sub_app by (rconst; lia); reflexivity).
  rewrite blen_app, Hn.
  replace (blen b + blen e <? tars_MessageSizeLen) with false by lia.
  cbv zeta.
  destruct ((tars_n b <? 4) || (tars_MaxPackageLength <? tars_n b)) eqn:E2; [congruence|].
  destruct (blen b <? tars_n b) eqn:E3; [congruence|]. intros _.
  replace (blen b + blen e <? tars_n b) with false by lia.
  rewrite sub_app by lia. reflexivity.
Qed.

Lemma tars_pure_ok b f n : tars_pure b = Ok (f, n) -> 0 < n /\ n <= blen b.
Proof.
  unfold tars_pure. destruct (blen b <? tars_MessageSizeLen) eqn:E1; [discriminate|]. cbv zeta.
  destruct ((tars_n b <? 4) || (tars_MaxPackageLength <? tars_n b)) eqn:E2; [discriminate|].
  destruct (blen b <? tars_n b) eqn:E3; [discriminate|].
  destruct (existsb _ tars_resp_types || existsb _ tars_req_types); [|discriminate]. destruct (rparse _ _); [|discriminate].
  intros H. ok_inv H. lia.
Qed.

Lemma tars_pure_total b : tars_pure b <> Panic /\ tars_pure b <> OutOfFuel.
Proof.
  unfold tars_pure. destruct (_ <? _); [split; discriminate|]. cbv zeta.
  destruct ((tars_n b <? 4) || (tars_MaxPackageLength <? tars_n b)); [split; discriminate|]. destruct (blen b <? tars_n b); [split; discriminate|].
  destruct (existsb _ tars_resp_types || existsb _ tars_req_types); [|split; discriminate]. destruct (rparse _ _); split; discriminate.
Qed.
End Tars.

(* ---- statements about the framers used by the dispatch loop --------------------------------------- *)
Lemma dubbo_decode_eq hess : dubbo_decode hess = dubbo_decode_sw hess true.
Proof. reflexivity. Qed.

(* The dubbo framer: a returned frame is non-empty only below 4 GiB of buffered data (uint32 sum in decodeFrame);
   the framer handed to the dispatch model maps a zero-length "frame" to PErr so that stability is unconditional,
   and dubbo_zero_frame_unreachable shows that below 4 GiB this case does not occur. *)
Definition dubbo_pure_nz hess (b : bytes) : outcome (xframe * N) :=
  match dubbo_pure hess b with
  | Ok (f, n) => if n =? 0 then Panic else Ok (f, n)
  | o => o
  end.

Lemma dubbo_pure_nz_ext hess b e : dubbo_pure_nz hess b <> NeedMore -> dubbo_pure_nz hess (b ++ e) = dubbo_pure_nz hess b.
Proof.
  unfold dubbo_pure_nz. intros H. rewrite dubbo_pure_ext; [reflexivity|].
  intros E. rewrite E in H. congruence.
Qed.
Lemma dubbo_pure_nz_ok hess b f n : dubbo_pure_nz hess b = Ok (f, n) -> 0 < n /\ n <= blen b.
Proof.
  unfold dubbo_pure_nz. destruct (dubbo_pure hess b) as [[f' n']| | | |] eqn:E; try discriminate.
  destruct (n' =? 0) eqn:E0; [discriminate|]. intros H. inversion H; subst.
  apply dubbo_pure_ok_le in E. lia.
Qed.
Lemma dubbo_zero_frame_unreachable hess b : blen b < U32 -> dubbo_pure_nz hess b = dubbo_pure hess b.
Proof.
  intros Hb. unfold dubbo_pure_nz. destruct (dubbo_pure hess b) as [[f n]| | | |] eqn:E; try reflexivity.
  apply dubbo_pure_ok in E; [|assumption]. now replace (n =? 0) with false by lia.
Qed.

Definition dubbo_parse_nz hess (b : bytes) : presult xframe :=
  match dubbo_pure_nz hess b with Ok (f, n) => POk f (N.to_nat n) | NeedMore => PNeedMore | _ => PErr end.

Theorem dubbo_parse_nz_stable hess : stable (dubbo_parse_nz hess).
Proof. eapply (x_presult_stable (dubbo_pure_nz hess)); [apply dubbo_pure_nz_ext|apply dubbo_pure_nz_ok|reflexivity]. Qed.

Lemma dubbo_parse_eq hess b : blen b < U32 -> dubbo_parse hess b = dubbo_parse_nz hess b.
Proof.
  intros Hb. unfold dubbo_parse, dubbo_parse_nz, x_presult. rewrite dubbo_decode_eq, dubbo_res. cbn [view_of vb].
  now rewrite dubbo_zero_frame_unreachable.
Qed.

Lemma thrift_parse_eq tp b : thrift_parse tp b = match thrift_pure tp b with Ok (f, n) => POk f (N.to_nat n) | NeedMore => PNeedMore | _ => PErr end.
Proof. unfold thrift_parse, x_presult. rewrite thrift_res. reflexivity. Qed.
Theorem thrift_parse_stable tp : stable (thrift_parse tp).
Proof. eapply (x_presult_stable (thrift_pure tp)); [apply thrift_pure_ext|apply thrift_pure_ok|apply thrift_parse_eq]. Qed.

Lemma tars_parse_eq st rp b : tars_parse st rp b = match tars_pure st rp b with Ok (f, n) => POk f (N.to_nat n) | NeedMore => PNeedMore | _ => PErr end.
Proof. unfold tars_parse, x_presult. rewrite tars_res. reflexivity. Qed.
Theorem tars_parse_stable st rp : stable (tars_parse st rp).
Proof. eapply (x_presult_stable (tars_pure st rp)); [apply tars_pure_ext|apply tars_pure_ok|apply tars_parse_eq]. Qed.

(* C08 statements *)
Theorem dubbo_decode_total hess v : vlen v < U32 -> res (dubbo_decode hess v) <> Panic /\ res (dubbo_decode hess v) <> OutOfFuel.
Proof. intros H. rewrite dubbo_decode_eq, dubbo_res. now apply dubbo_pure_total. Qed.
Theorem dubbo_decode_bounded hess v : bounded (vlen v) (dubbo_decode hess v).
Proof. apply dubbo_bounded. Qed.
Theorem dubbo_decode_spare_indep hess b s1 s2 :
  res (dubbo_decode hess {| vb := b; vspare := s1 |}) = res (dubbo_decode hess {| vb := b; vspare := s2 |}).
Proof. now rewrite dubbo_decode_eq, !dubbo_res. Qed.
Theorem dubbo_decode_consumed hess v f n : vlen v < U32 -> res (dubbo_decode hess v) = Ok (f, n) -> 0 < n /\ n <= vlen v.
Proof. intros H. rewrite dubbo_decode_eq, dubbo_res. now apply dubbo_pure_ok. Qed.

Theorem thrift_decode_total tp v : res (thrift_decode tp v) <> Panic /\ res (thrift_decode tp v) <> OutOfFuel.
Proof. rewrite thrift_res. apply thrift_pure_total. Qed.
Theorem thrift_decode_bounded tp v : bounded (vlen v) (thrift_decode tp v).
Proof. apply thrift_bounded. Qed.
Theorem thrift_decode_spare_indep tp b s1 s2 :
  res (thrift_decode tp {| vb := b; vspare := s1 |}) = res (thrift_decode tp {| vb := b; vspare := s2 |}).
Proof. now rewrite !thrift_res. Qed.
Theorem thrift_decode_consumed tp v f n : res (thrift_decode tp v) = Ok (f, n) -> 0 < n /\ n <= vlen v.
Proof. rewrite thrift_res. apply thrift_pure_ok. Qed.

Theorem tars_decode_total st rp v : res (tars_decode st rp v) <> Panic /\ res (tars_decode st rp v) <> OutOfFuel.
Proof. rewrite tars_res. apply tars_pure_total. Qed.
Theorem tars_decode_bounded st rp v : bounded (vlen v) (tars_decode st rp v).
Proof. apply tars_bounded. Qed.
Theorem tars_decode_spare_indep st rp b s1 s2 :
  res (tars_decode st rp {| vb := b; vspare := s1 |}) = res (tars_decode st rp {| vb := b; vspare := s2 |}).
Proof. now rewrite !tars_res. Qed.
Theorem tars_decode_consumed st rp v f n : res (tars_decode st rp v) = Ok (f, n) -> 0 < n /\ n <= vlen v.
Proof. rewrite tars_res. apply tars_pure_ok. Qed.

