(* Proofs about Model/Stage.v (property C11, stage manager under interleaved signals). *)
From Coq Require Import List Bool Arith Lia.
From MV Require Import Model.Stage.
Import ListNotations.

Definition is_drain (c : scall) : bool := match c with CClose => false | _ => true end.
Definition has_drain (tr : list scall) : bool := existsb is_drain tr.

(* appending to a trace that is fine: fine if the appended part is fine once a drain has been seen, and either the
   appended part starts with a drain or the trace already contains one *)
Lemma dbc_app seen tr tl :
  drained_before_close_from seen tr = true ->
  drained_before_close_from true tl = true ->
  (orb seen (has_drain tr) = true \/ drained_before_close_from false tl = true) ->
  drained_before_close_from seen (tr ++ tl) = true.
Proof.
  revert seen; induction tr as [|c tr IH]; intros seen H1 H2 H3; cbn [app].
  - destruct seen; [exact H2|]. cbn in H3. destruct H3 as [H3|H3]; [discriminate|exact H3].
  - cbn in *. destruct c.
    + apply IH; [exact H1|exact H2|left; reflexivity].
    + apply IH; [exact H1|exact H2|left; reflexivity].
    + apply andb_true_iff in H1 as [Hs H1]. subst seen. cbn. apply IH; [exact H1|exact H2|left; reflexivity].
Qed.

Lemma has_drain_app a b : has_drain (a ++ b) = orb (has_drain a) (has_drain b).
Proof. unfold has_drain. apply existsb_app. Qed.

Definition good : sflags := mkSF true true.

(* invariant: the trace is fine; a released main goroutine was released by a noticed stop (whose action stays graceful) or by
   the upgrade handler, which has drained *)
Definition g_inv (g : stg) : Prop :=
  drained_before_close (g_trace g) = true /\
  (g_released g = true -> g_stopped g = false -> g_noticed g = true \/ has_drain (g_trace g) = true) /\
  (g_noticed g = true -> graceful (g_action g) = true) /\
  (4 <= g_hpc g -> has_drain (g_trace g) = true).

Lemma g_inv_init : g_inv g_init.
Proof. repeat split; cbn; intros; try discriminate; lia. Qed.

Lemma g_inv_step g e :
  (match e with EvInt => False | _ => True end) -> g_inv g -> g_inv (g_step good g e).
Proof.
  intros He (Ht & Hr & Hn & Hh). destruct g as [st ac rel hpc stp tr nt]. unfold g_inv, g_step, drained_before_close in *.
  cbn [g_trace g_released g_action g_stopped g_hpc g_state g_noticed good always hupsafe] in *.
  destruct stp; [repeat split; assumption|].
  destruct e; try contradiction; cbn [g_trace g_released g_action g_stopped g_hpc g_state g_noticed].
  - (* SIGTERM *) split; [exact Ht|]. split; [intros _ _; left; reflexivity|]. split; [intros _; reflexivity|exact Hh].
  - (* SIGHUP: ignored once a stop has been noticed *)
    cbn [andb]. destruct nt; cbn [g_trace g_released g_action g_stopped g_hpc g_state g_noticed].
    + split; [exact Ht|]. split; [exact Hr|]. split; [exact Hn|exact Hh].
    + split; [exact Ht|]. split; [exact Hr|]. split; [intros H; discriminate|exact Hh].
  - (* the new server dialled *)
    destruct (Nat.eqb hpc 0) eqn:E0; cbn [g_trace g_released g_action g_stopped g_hpc g_state g_noticed].
    + split; [exact Ht|]. split; [exact Hr|]. split; [intros _; reflexivity|intros H; lia].
    + split; [exact Ht|]. split; [exact Hr|]. split; [exact Hn|exact Hh].
  - (* handler progress *)
    destruct hpc as [|[|[|[|[|n]]]]]; cbn [g_trace g_released g_action g_stopped g_hpc g_state g_noticed].
    + split; [exact Ht|]. split; [exact Hr|]. split; [exact Hn|exact Hh].
    + split; [exact Ht|]. split; [exact Hr|]. split; [exact Hn|intros H; lia].
    + split; [exact Ht|]. split; [exact Hr|]. split; [exact Hn|intros H; lia].
    + split; [apply dbc_app; [exact Ht|reflexivity|right; reflexivity]|].
      split; [intros _ _; right; rewrite has_drain_app; cbn; apply orb_true_r|].
      split; [exact Hn|intros _; rewrite has_drain_app; cbn; apply orb_true_r].
    + split; [exact Ht|]. split; [intros _ _; right; apply Hh; lia|]. split; [exact Hn|intros _; apply Hh; lia].
    + split; [exact Ht|]. split; [exact Hr|]. split; [exact Hn|exact Hh].
  - (* handler failure *)
    destruct hpc as [|[|[|[|n]]]]; cbn [g_trace g_released g_action g_stopped g_hpc g_state g_noticed];
      split; try exact Ht; split; try exact Hr; split; try exact Hn; try exact Hh; intros H; lia.
  - (* the main goroutine stops *)
    destruct rel; cbn [g_trace g_released g_action g_stopped g_hpc g_state g_noticed]; [|split; [exact Ht|]; split; [exact Hr|]; split; [exact Hn|exact Hh]].
    cbn [orb andb]. rewrite andb_true_r.
    split; [|split; [|split]].
    + destruct (Hr eq_refl eq_refl) as [Hnt|Hd].
      * rewrite (Hn Hnt). apply dbc_app; [exact Ht|reflexivity|right; reflexivity].
      * destruct (graceful ac).
        -- apply dbc_app; [exact Ht|reflexivity|right; reflexivity].
        -- cbn [app]. apply dbc_app; [exact Ht|reflexivity|left; cbn; exact Hd].
    + intros _ H; discriminate.
    + exact Hn.
    + intros H. rewrite has_drain_app. rewrite (Hh H). reflexivity.
Qed.

Lemma g_inv_run evs : forall g, g_inv g -> admissible evs = true -> g_inv (fold_left (g_step good) evs g).
Proof.
  induction evs as [|e evs IH]; intros g Hi Ha; cbn [fold_left]; [exact Hi|].
  unfold admissible in Ha. cbn [forallb] in Ha. apply andb_true_iff in Ha as [He Ha].
  apply IH; [|exact Ha]. apply g_inv_step; [|exact Hi]. destruct e; try exact I; discriminate.
Qed.

(* MAIN: for EVERY interleaving (without an immediate stop) of SIGTERM, SIGHUP, the new server's dial, the upgrade handler's
   progress and failure, and the main goroutine's Stop(): Application.Close is never called before a drain has been
   performed by someone *)
Theorem close_never_before_drain evs :
  admissible evs = true -> drained_before_close (g_trace (g_run good evs)) = true.
Proof. intros Ha. exact (proj1 (g_inv_run evs g_init g_inv_init Ha)). Qed.
