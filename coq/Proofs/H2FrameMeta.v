(* Proofs/H2FrameMeta.v (group h2): HEADERS / CONTINUATION aggregation (readMetaFrame).
   - collect_ser: the CONTINUATION frames following a HEADERS frame are collected in order, each once,
     and exactly their bytes are accounted for;
   - headers_block_roundtrip: a HEADERS frame carrying a complete header block made of ANY valid
     representations of wire-valid fields is returned as a MetaHeadersFrame with exactly those fields
     (frame layer and HPACK decoder composed). *)
From Coq Require Import List NArith ZArith Arith Lia Bool.
From Coq Require Import ZifyBool ZifyNat ZifyN.
From MV Require Import Lib.HBits Gen.HpackTables Gen.H2Src Model.Hpack Model.H2Frame
  Proofs.HpackInt Proofs.HpackHuffman Proofs.HpackString Proofs.HpackRepr Proofs.HpackTotal
  Proofs.H2FrameStable Proofs.H2FrameRT.
Import ListNotations.
Open Scope N_scope.

(* ---------------------------------------------------------------- reading at an offset *)
Lemma skipn_pre : forall (pre x : bytes) k, skipn (N.to_nat (len pre + k)) (pre ++ x) = skipn (N.to_nat k) x.
Proof.
  intros pre x k. unfold len. replace (N.to_nat (N.of_nat (length pre) + k)) with (length pre + N.to_nat k)%nat by lia.
  rewrite skipn_app. rewrite skipn_all2 by lia. replace (length pre + N.to_nat k - length pre)%nat with (N.to_nat k) by lia.
  reflexivity.
Qed.

Lemma read_raw_shift : forall eo last mx pre x off,
  read_raw eo last mx (pre ++ x) (len pre + off) = read_raw eo last mx x off.
Proof.
  intros eo last mx pre x off. unfold read_raw.
  rewrite len_app.
  assert (E1 : (len pre + len x <? len pre + off + 9) = (len x <? off + 9)) by lia. rewrite E1.
  destruct (len x <? off + 9) eqn:E; [reflexivity|].
  rewrite skipn_pre.
  set (fh := parse_fhdr (skipn (N.to_nat off) x)).
  destruct (mx <? fh_len fh); [reflexivity|].
  assert (E2 : (len pre + len x - (len pre + off + 9) <? fh_len fh) = (len x - (off + 9) <? fh_len fh)) by lia. rewrite E2.
  destruct (len x - (off + 9) <? fh_len fh); [reflexivity|].
  unfold slice. replace (len pre + off + 9) with (len pre + (off + 9)) by lia. rewrite skipn_pre. reflexivity.
Qed.

(* ---------------------------------------------------------------- CONTINUATION collection *)
Fixpoint ser_conts (sid : N) (cs : list bytes) : bytes :=
  match cs with
  | [] => []
  | [f] => ser_frame (ACont sid true f)
  | f :: r => ser_frame (ACont sid false f) ++ ser_conts sid r
  end.

Lemma ser_cont_len : forall sid eh f, len (ser_frame (ACont sid eh f)) = 9 + len f.
Proof. intros. unfold ser_frame. cbn [aframe_parts]. unfold ser_frame_raw. rewrite len_app, len_ser_hdr. reflexivity. Qed.

Lemma read_cont : forall sid eh f mx pre rest,
  sid_ok sid -> len f < 16777216 -> len f <= mx ->
  read_raw psw_ok sid mx (pre ++ ser_frame (ACont sid eh f) ++ rest) (len pre) =
  WFrame (frame_of (ACont sid eh f)) (9 + len f) (if eh then 0 else sid).
Proof.
  intros sid eh f mx pre rest Hs Hl Hm.
  replace (len pre) with (len pre + 0) by lia. rewrite read_raw_shift.
  rewrite (frame_roundtrip (ACont sid eh f) sid (if eh then 0 else sid) mx rest).
  - rewrite ser_cont_len. reflexivity.
  - exact Hs.
  - cbn [aframe_parts]. split; assumption.
  - unfold frame_of. cbn [aframe_parts f_hdr]. unfold check_order. cbn [fh_type fh_sid fh_flags].
    destruct Hs as [Hs1 Hs2].
    assert (E1 : negb (sid =? 0) = true) by lia. rewrite E1.
    change (T_CONT =? T_CONT) with true. cbn [negb]. rewrite N.eqb_refl. cbn [negb].
    destruct eh; reflexivity.
Qed.

Theorem collect_ser : forall cs sid mx drains fuel pre rest off msize acc,
  cs <> [] -> sid_ok sid ->
  Forall (fun f => len f < 16777216 /\ len f <= mx) cs ->
  (length cs <= fuel)%nat -> len pre = off + msize ->
  collect psw_ok true drains fuel sid mx (pre ++ ser_conts sid cs ++ rest) off msize acc =
  COk (acc ++ cs) (msize + len (ser_conts sid cs)).
Proof.
  induction cs as [|f cs IH]; intros sid mx drains fuel pre rest off msize acc Hne Hs Hall Hfuel Hpre; [contradiction|].
  inversion Hall as [|? ? [Hl Hm] Hrest]; subst.
  destruct fuel as [|fuel]; [cbn in Hfuel; lia|].
  cbn [collect]. rewrite <- Hpre.
  destruct cs as [|g cs].
  - cbn [ser_conts]. rewrite read_cont by assumption.
    unfold frame_of. cbn [aframe_parts f_body body_of]. cbn [N.eqb].
    rewrite ser_cont_len. reflexivity.
  - change (ser_conts sid (f :: g :: cs)) with (ser_frame (ACont sid false f) ++ ser_conts sid (g :: cs)).
    rewrite <- app_assoc. rewrite read_cont by assumption.
    unfold frame_of. cbn [aframe_parts f_body body_of].
    destruct Hs as [Hs1 Hs2]. assert (E : (sid =? 0) = false) by lia. rewrite E.
    replace (pre ++ ser_frame (ACont sid false f) ++ ser_conts sid (g :: cs) ++ rest)
      with ((pre ++ ser_frame (ACont sid false f)) ++ ser_conts sid (g :: cs) ++ rest) by (rewrite <- app_assoc; reflexivity).
    rewrite (IH sid mx drains fuel (pre ++ ser_frame (ACont sid false f)) rest off (msize + (9 + len f)) (acc ++ [f])).
    + rewrite <- app_assoc. cbn [app]. f_equal. rewrite len_app, ser_cont_len. lia.
    + discriminate.
    + split; assumption.
    + exact Hrest.
    + cbn [length] in *. lia.
    + rewrite len_app, ser_cont_len. lia.
Qed.

(* ---------------------------------------------------------------- the emit callback on wire-valid fields *)
(* running the callback over a field list; None as soon as it would switch emission off *)
Fixpoint sink_run (sk : msink) (fs : list hfield) : option msink :=
  match fs with
  | [] => Some sk
  | f :: r => let x := sink_emit sk f in if snd x then None else sink_run (fst x) r
  end.

Lemma sink_run_app : forall a b sk sk1, sink_run sk a = Some sk1 -> sink_run sk (a ++ b) = sink_run sk1 b.
Proof.
  induction a as [|f a IH]; intros b sk sk1 H; cbn [sink_run app] in *.
  - inversion H; reflexivity.
  - destruct (snd (sink_emit sk f)); [discriminate | apply IH; exact H].
Qed.

Lemma sink_run_fields : forall fs sk sk', sink_run sk fs = Some sk' ->
  sk_fields sk' = sk_fields sk ++ fs /\ sk_trunc sk' = sk_trunc sk /\ sk_invalid sk' = sk_invalid sk.
Proof.
  induction fs as [|f fs IH]; intros sk sk' H; cbn [sink_run] in H.
  - inversion H; subst. rewrite app_nil_r. auto.
  - unfold sink_emit in H.
    destruct (sk_invalid sk || negb (valid_value (hvalue f)) ||
              (if is_pseudo (hname f) then sk_regular sk else negb (valid_name (hname f)))) eqn:E; cbn [snd fst] in H; [discriminate|].
    destruct (sk_remain sk <? fsize (hname f) (hvalue f)); cbn [snd fst] in H; [discriminate|].
    apply IH in H as [H1 [H2 H3]]. cbn [sk_fields sk_trunc sk_invalid] in *.
    rewrite H1, <- app_assoc. cbn [app]. repeat split; try assumption.
    rewrite H3. destruct (sk_invalid sk); [cbn in E; discriminate | reflexivity].
Qed.

Lemma meta_loop_reprs : forall rs leading st sk t' fs sk' fuel,
  (length (flat_map ser_repr rs) <= fuel)%nat ->
  d_emit st = true -> (leading = true -> d_first st = true) ->
  dt_allowed (d_tab st) < 2 ^ 32 ->
  reprs_shape leading rs -> Forall (repr_ok (d_maxstr st)) rs ->
  interp_reprs (d_tab st) rs = Some (t', fs) -> Forall (field_fits (d_maxstr st)) fs ->
  sink_run sk fs = Some sk' ->
  exists fb, meta_loop true fuel st (flat_map ser_repr rs) sk =
             (mkD t' (d_maxstr st) true fb (d_save st), sk', WOk).
Proof.
  induction rs as [|r rs IH]; intros leading st sk t' fs sk' fuel Hfuel Hemit Hlead Hall Hshape Hok Hint Hfits Hsink.
  - cbn [interp_reprs] in Hint. inversion Hint; subst. cbn [sink_run] in Hsink. inversion Hsink; subst.
    cbn [flat_map]. destruct fuel; cbn [meta_loop]; exists (d_first st); destruct st; cbn in *; subst; reflexivity.
  - cbn [interp_reprs] in Hint.
    destruct (interp_repr (d_tab st) r) as [[t1 f1]|] eqn:E1; [|discriminate].
    destruct (interp_reprs t1 rs) as [[t2 f2]|] eqn:E2; [|discriminate].
    inversion Hint; subst t' fs. clear Hint.
    apply Forall_app in Hfits as [Hf1 Hf2].
    inversion Hok as [|? ? Hr Hrs]; subst.
    cbn [flat_map] in *.
    destruct (ser_repr_nonempty r) as [b0 [tl Eser]].
    destruct fuel as [|fuel]; [rewrite Eser in Hfuel; cbn in Hfuel; lia|].
    assert (Hpr : parse_repr st (ser_repr r ++ flat_map ser_repr rs) = HOk (d_with_tab st t1, f1, flat_map ser_repr rs)).
    { apply parse_repr_ser; try assumption.
      intros v Hv. subst r. cbn [reprs_shape] in Hshape. apply Hlead. tauto. }
    pose proof (is_size_update_ser r (flat_map ser_repr rs)) as Hsu.
    remember (ser_repr r ++ flat_map ser_repr rs) as buf eqn:Ebuf.
    assert (Hne : exists b tl', buf = b :: tl') by (rewrite Ebuf, Eser; cbn [app]; eauto).
    destruct Hne as [bb [tl' Ebb]].
    cbn [meta_loop]. rewrite Ebb. rewrite <- Ebb.
    rewrite Hpr. cbn [fst snd andb]. rewrite Hsu.
    assert (Hlen : (length (flat_map ser_repr rs) <= fuel)%nat).
    { rewrite Ebuf, Eser in Hfuel. cbn [app length] in Hfuel. rewrite app_length in Hfuel. lia. }
    pose proof (interp_repr_allowed _ _ _ _ E1) as Hal.
    (* the fields this representation emits: none (size update) or one *)
    assert (Hf1s : (exists v, r = RSize v /\ f1 = []) \/ (exists f, f1 = [f] /\ match r with RSize _ => False | _ => True end)).
    { destruct r as [i | k i hv v | k hn n hv v | v]; cbn [interp_repr] in E1.
      - destruct (tab_lookup (d_tab st) i); inversion E1; subst. right. eexists. split; [reflexivity | exact I].
      - destruct (tab_lookup (d_tab st) i); inversion E1; subst. right. eexists. split; [reflexivity | exact I].
      - inversion E1; subst. right. eexists. split; [reflexivity | exact I].
      - destruct (v <=? dt_allowed (d_tab st)); inversion E1; subst. left. eexists. split; reflexivity. }
    destruct Hf1s as [[v [Hrv Hf1e]] | [f [Hf1e Hnot]]].
    + subst r f1. cbn [app] in Hsink. cbn [reprs_shape] in Hshape. destruct Hshape as [Hl Hsh].
      destruct (IH true (d_with_tab st t1) sk t2 f2 sk' fuel) as [fb Hfb]; try assumption; try (cbn; congruence).
      { intros _. cbn. apply Hlead. exact Hl. }
      { cbn. rewrite Hal. exact Hall. }
      exists fb. rewrite Hfb. reflexivity.
    + subst f1. cbn [app sink_run] in Hsink.
      destruct (snd (sink_emit sk f)) eqn:Edis; [discriminate|].
      assert (Hsh' : reprs_shape false rs) by (destruct r; try contradiction; exact Hshape).
      assert (Hnsz : match r with RSize _ => true | _ => false end = false) by (destruct r; try contradiction; reflexivity).
      rewrite Hnsz.
      destruct (IH false (d_with_first (d_with_tab st t1) false) (fst (sink_emit sk f)) t2 f2 sk' fuel) as [fb Hfb];
        try assumption; try (cbn; congruence); try (intro; discriminate).
      { cbn. rewrite Hal. exact Hall. }
      exists fb. rewrite Hfb. reflexivity.
Qed.

(* ---------------------------------------------------------------- a complete header block in one HEADERS frame *)
Theorem headers_block_roundtrip : forall st sid es pr pad rs t' fs rest sk',
  h2_hpack_multi_update = true ->
  fs_last st = 0 ->
  let a := AHeaders sid es true pr (flat_map ser_repr rs) pad in
  aframe_ok a ->
  (let '(t, fl, s, p) := aframe_parts a in len p < 16777216 /\ len p <= fs_max st) ->
  d_save (fs_dec st) = [] -> d_first (fs_dec st) = true ->
  dt_allowed (d_tab (fs_dec st)) < 2 ^ 32 ->
  rs <> [] -> reprs_shape true rs -> Forall (repr_ok (fs_maxlist st)) rs ->
  interp_reprs (d_tab (fs_dec st)) rs = Some (t', fs) ->
  Forall (field_fits (fs_maxlist st)) fs ->
  sink_run (mkSink (fs_maxlist st) false false false []) fs = Some sk' ->
  check_pseudos fs [] false false = true ->
  forall drains,
  read_frame_gen psw_ok true drains st (ser_frame a ++ rest) =
  ROk (mkFrame (f_hdr (frame_of a)) (BMeta pr fs false)) (len (ser_frame a))
      (mkFs 0 (fs_max st) (fs_maxlist st) (mkD t' (fs_maxlist st) true true [])).
Proof.
  intros st sid es pr pad rs t' fs rest sk' Hmulti Hlast a Hok Hlen Hsave Hfirst Hall Hne Hshape Hrok Hint Hfits Hsink Hps drains.
  unfold read_frame_gen. rewrite Hlast.
  assert (Hord : check_order 0 (f_hdr (frame_of a)) = HOk 0).
  { unfold frame_of, a. cbn [aframe_parts f_hdr]. unfold check_order. cbn [fh_type fh_sid fh_flags N.eqb negb].
    change (T_HEADERS =? T_CONT) with false. change (T_HEADERS =? T_HEADERS) with true. cbv iota.
    assert (E : flag (b2n es 1 + b2n true 4 + pad_flag pad + match pr with Some _ => 32 | None => 0 end) F_END_HEADERS = true)
      by (destruct es, pad, pr; reflexivity).
    rewrite E. reflexivity. }
  rewrite (frame_roundtrip a 0 0 (fs_max st) rest Hok Hlen Hord).
  unfold frame_of. unfold a. cbn [aframe_parts f_body body_of f_hdr]. cbn [N.eqb].
  (* the HPACK part *)
  set (d0 := d_with_maxstr (d_with_emit (fs_dec st) true) (fs_maxlist st)).
  match goal with |- context [meta_frags ?D ?F ?S] =>
    assert (Hw : exists fb, meta_frags D F S = (mkD t' (fs_maxlist st) true fb [], sk', WOk)) end.
  { cbn [meta_frags]. unfold meta_write.
    destruct (flat_map ser_repr rs) as [|b tl] eqn:Eb.
    { destruct rs as [|r rs']; [contradiction|]. cbn [flat_map] in Eb.
      destruct (ser_repr_nonempty r) as [b0 [tl0 E0]]. rewrite E0 in Eb. discriminate. }
    rewrite <- Eb. subst d0. cbn [d_save d_with_maxstr d_with_emit]. rewrite Hsave. cbn [app].
    rewrite Hmulti.
    destruct (meta_loop_reprs rs true
               (d_with_save (d_with_maxstr (d_with_emit (fs_dec st) true) (fs_maxlist st)) [])
               (mkSink (fs_maxlist st) false false false []) t' fs sk' (length (flat_map ser_repr rs))) as [fb Hfb];
      try assumption; try (cbn; lia); try (cbn; tauto).
    exists fb. rewrite Hfb. cbn. reflexivity. }
  destruct Hw as [fb Hw]. rewrite Hw. cbn [fst snd].
  unfold dec_close. cbn [d_save d_with_first fst snd].
  pose proof (sink_run_fields _ _ _ Hsink) as [Hf [Ht Hi]]. cbn [sk_fields sk_trunc sk_invalid app] in Hf, Ht, Hi.
  rewrite Hi, Hf, Ht, Hps. cbn [negb].
  rewrite N.add_0_r. reflexivity.
Qed.
