(* Per-property consequences of the family check (Proofs/ProxyFam.v), the refutation witnesses (Proofs/ProxyRefute.v) and the
   general lemmas (Proofs/ProxyGen.v), in the shape the Props files state them. *)
From Coq Require Import List ZArith Bool Arith Lia.
From RecordUpdate Require Import RecordSet.
From MV Require Import Model.Proxy Model.ProxySpec Proofs.ProxyReach Proofs.ProxyFamily Proofs.ProxyFam Proofs.ProxyRefute
  Proofs.ProxySrc.
Import ListNotations RecordSetNotations.
Open Scope Z_scope.

Ltac fam_conj c sched Hc Hs :=
  pose proof (family_run c Hc sched Hs) as H; unfold good_all in H;
  repeat match type of H with (_ && _) = true => let H2 := fresh "G" in apply andb_prop in H as [H H2] end.

Lemma implb'_elim a b : implb' a b = true -> a = true -> b = true.
Proof. unfold implb'. destruct a, b; cbn; congruence. Qed.
Ltac impl_elim H tac :=
  let H' := fresh "I" in
  pose proof (implb'_elim _ _ H) as H'; clear H; rename H' into H;
  match type of H with ?a = true -> _ => let A := fresh "A" in assert (A : a = true) by tac; specialize (H A); clear A end.

(* ---------- C03 ---------- *)
Definition c03_safe (g : gs) : Prop :=
  reply_wf g = true /\ (g_clean g <= 1)%nat /\ (g_log g <= 1)%nat /\ (g_destroy g <= 1)%nat /\ g_panic g = false /\
  g_mixed g = false.

Lemma c03_safe_family : forall c, In c family -> forall sched, Forall allowed sched -> c03_safe (summ src_tree c sched).
Proof.
  intros c Hc sched Hs. fam_conj c sched Hc Hs. unfold good_c03 in H. cbn [i_st i_gs summary_of] in H.
  repeat match type of H with (_ && _) = true => let H2 := fresh "K" in apply andb_prop in H as [H H2] end.
  unfold c03_safe, summ, trace. repeat split; auto.
  - now apply Nat.leb_le.
  - now apply Nat.leb_le.
  - now apply Nat.leb_le.
  - now apply negb_true_iff.
  - now apply negb_true_iff.
Qed.

(* the outcome clause at quiescence *)
Definition outcome (c : cfg) (sched : list step) (s : st) (g : gs) : Prop :=
  wdone s = true /\ cleaned s = true /\ g_clean g = 1%nat /\
  (g_ended g = true \/ existsb is_down_reset sched = true \/ g_term g = true \/ c_oneway c = true).

Lemma c03_outcome_family : forall c, In c family -> forall sched, Forall allowed sched ->
  quiescent (final src_tree c sched) = true -> no_defect (final src_tree c sched) = true ->
  outcome c sched (final src_tree c sched) (summ src_tree c sched).
Proof.
  intros c Hc sched Hs Hq Hd. fam_conj c sched Hc Hs. unfold good_c03 in H. cbn [i_st i_gs i_dr summary_of] in H.
  repeat match type of H with (_ && _) = true => let H2 := fresh "K" in apply andb_prop in H as [H H2] end.
  unfold final in *. impl_elim K0 ltac:(rewrite Hq, Hd; reflexivity).
  repeat match type of K0 with (_ && _) = true => let H2 := fresh "J" in apply andb_prop in K0 as [K0 H2] end.
  unfold outcome, summ, trace. repeat split; auto.
  - now apply Nat.eqb_eq.
  - repeat (apply orb_prop in J as [J|J]); auto.
Qed.

Lemma c03_timeout_family : forall c, In c family -> forall sched, Forall allowed sched ->
  let s := final src_tree c sched in
  parked s = true -> no_defect s = true -> c_oneway c = false ->
  global_armed s = true \/ exists k, try_armed s = Some k.
Proof.
  intros c Hc sched Hs s Hp Hd Ho. fam_conj c sched Hc Hs. unfold good_timeout in G6. cbn [i_st i_gs summary_of] in G6.
  apply andb_prop in G6 as [T1 T2]. fold (final src_tree c sched) in T1. fold s in T1.
  impl_elim T1 ltac:(rewrite Hp, Hd, Ho; reflexivity).
  apply orb_prop in T1 as [T1|T1]; [now left|right]. destruct (try_armed s) as [k|]; [now exists k|discriminate].
Qed.

(* firing the global timer of a parked request whose upstream is silent yields the 504 hijack reply and ends the request *)
Lemma c03_timeout_reply_family : forall c, In c family -> forall sched, Forall allowed sched ->
  let s := final src_tree c sched in
  parked s = true -> global_armed s = true -> received s = false -> down_reset s = false -> up_reset s = false ->
  direct s = false -> has_upreq s = true -> c_send c = [] ->
  let '(s1, o1) := env_step src_tree c EvGlobal s in
  let '(s2, g2) := run_worker_n src_tree c 40 (s1, gs_outs (summ src_tree c sched) o1) in
  wdone s2 = true /\ cleaned s2 = true /\ g_ended g2 = true /\ g_reply_kind g2 = Some (KHijack, 504).
Proof.
  intros c Hc sched Hs s Hp Hg Hr Hdr Hur Hdi Hu Hsf. fam_conj c sched Hc Hs. unfold good_timeout in G6.
  cbn [i_st i_gs summary_of] in G6. apply andb_prop in G6 as [T1 T2]. fold (final src_tree c sched) in T2. fold s in T2.
  impl_elim T2 ltac:(rewrite Hp, Hg, Hr, Hdr, Hur, Hdi, Hu, Hsf; reflexivity).
  unfold summ, trace. destruct (env_step src_tree c EvGlobal s) as [s1 o1].
  destruct (run_worker_n src_tree c 40 (s1, gs_outs (gs_outs gs0 (snd (run src_tree c (init_st 0) sched))) o1)) as [s2 g2].
  repeat match type of T2 with (_ && _) = true => let H2 := fresh "J" in apply andb_prop in T2 as [T2 H2] end.
  repeat split; auto.
  destruct (g_reply_kind g2) as [[[] z]|]; try discriminate.
  destruct z as [|p|p]; try discriminate. f_equal. f_equal.
  repeat (destruct p as [p|p|]; try discriminate). reflexivity.
Qed.

(* ---------- C10 ---------- *)
Lemma c10_gauge_family : forall c, In c family -> forall sched, Forall allowed sched ->
  let s := final src_tree c sched in let g := summ src_tree c sched in
  (g_gauge g = 0 \/ g_gauge g = -1) /\ (cleaned s = true <-> g_gauge g = -1) /\
  (quiescent s = true -> no_defect s = true -> 1 + g_gauge g = 0).
Proof.
  intros c Hc sched Hs s g. fam_conj c sched Hc Hs. unfold good_c10_gauge in G5. cbn [i_st i_gs summary_of] in G5.
  fold (final src_tree c sched) in G5. fold s in G5. fold (trace src_tree c sched) in G5. fold (summ src_tree c sched) in G5. fold g in G5.
  apply andb_prop in G5 as [G5 Q]. apply andb_prop in G5 as [V E].
  apply orb_prop in V. apply Bool.eqb_prop in E. split; [|split].
  - destruct V as [V|V]; apply Z.eqb_eq in V; auto.
  - rewrite E. apply Z.eqb_eq.
  - intros Hq Hd. impl_elim Q ltac:(rewrite Hq, Hd; reflexivity). apply Z.eqb_eq in Q. lia.
Qed.

Lemma res_off_tree c : res_off src_tree c = false.
Proof. unfold res_off. apply andb_false_r. Qed.

Lemma c10_res_family : forall c, In c family -> forall sched, Forall allowed sched ->
  let s := final src_tree c sched in let g := summ src_tree c sched in
  0 <= g_res_min g /\ g_res g <= 1 /\ rc s = g_res g /\ (cleaned s = true -> g_res g = 0) /\
  (reserved s = true <-> g_res g = 1).
Proof.
  intros c Hc sched Hs s g. fam_conj c sched Hc Hs. unfold good_c10_res in G4. cbn [i_st i_gs summary_of] in G4.
  fold (final src_tree c sched) in G4. fold s in G4. fold (trace src_tree c sched) in G4. fold (summ src_tree c sched) in G4. fold g in G4.
  rewrite res_off_tree in G4.
  repeat match type of G4 with (_ && _) = true => let H2 := fresh "J" in apply andb_prop in G4 as [G4 H2] end.
  apply Z.leb_le in G4. apply Z.leb_le in J2. apply Z.eqb_eq in J1. repeat split; auto.
  - intros Hcl. impl_elim J ltac:(assumption). now apply Z.eqb_eq.
  - intros Hr. apply Bool.eqb_prop in J0. rewrite J0 in Hr. now apply Z.eqb_eq.
  - intros Hr. apply Bool.eqb_prop in J0. rewrite J0. now apply Z.eqb_eq.
Qed.

(* ---------- C14 ---------- *)
Lemma c14_denied_family : forall c, In c family -> forall sched, Forall allowed sched ->
  let g := summ src_tree c sched in
  g_denied g = true -> g_new g = 0%nat /\ g_new_after_deny g = false /\
  (g_started g = true -> exists k code, g_reply_kind g = Some (k, code) /\ k <> KUp).
Proof.
  intros c Hc sched Hs g Hd. fam_conj c sched Hc Hs. unfold good_c14 in G1. cbn [i_st i_gs summary_of] in G1.
  fold (trace src_tree c sched) in G1. fold (summ src_tree c sched) in G1. fold g in G1.
  apply andb_prop in G1 as [G1 X]. apply andb_prop in G1 as [G1 R]. apply andb_prop in G1 as [N D].
  impl_elim D ltac:(assumption). apply Nat.eqb_eq in D. apply negb_true_iff in N. repeat split; auto.
  intros Hst. impl_elim R ltac:(rewrite Hd, Hst; reflexivity).
  destruct (g_reply_kind g) as [[k z]|]; [|discriminate]. exists k, z. split; auto. destruct k; congruence.
Qed.

Lemma c14_reply_family : forall c, In c family -> forall sched, Forall allowed sched ->
  let s := final src_tree c sched in let g := summ src_tree c sched in
  g_denied g = true -> g_term g = false -> existsb is_down_reset sched = false -> existsb is_terminate sched = false ->
  quiescent s = true -> no_defect s = true ->
  g_ended g = true /\ g_hdr g = 1%nat /\ Forall (fun n => (n <= 1)%nat) (scalls s) /\
  exists k code, g_reply_kind g = Some (k, code) /\ k <> KUp.
Proof.
  intros c Hc sched Hs s g Hd Ht Hdr Htm Hq Hnd. fam_conj c sched Hc Hs. unfold good_c14_reply in G0.
  cbn [i_st i_gs i_dr i_tm summary_of] in G0.
  fold (final src_tree c sched) in G0. fold s in G0. fold (trace src_tree c sched) in G0. fold (summ src_tree c sched) in G0. fold g in G0.
  impl_elim G0 ltac:(rewrite Hd, Ht, Hdr, Htm, Hq, Hnd; reflexivity).
  repeat match type of G0 with (_ && _) = true => let H2 := fresh "J" in apply andb_prop in G0 as [G0 H2] end.
  repeat split; auto.
  - now apply Nat.eqb_eq.
  - apply negb_true_iff in J0. apply Forall_forall. intros n Hn.
    destruct (Nat.leb_spec n 1) as [|Hgt]; auto. exfalso.
    assert (existsb (fun n => (1 <? n)%nat) (scalls s) = true); [|congruence].
    apply existsb_exists. exists n. split; auto. now apply Nat.ltb_lt.
  - destruct (g_reply_kind g) as [[k z]|]; [|discriminate]. exists k, z. split; auto. destruct k; congruence.
Qed.

(* ---------- C17 (retry part) ---------- *)
Lemma c17_retry_family : forall c, In c family -> forall sched, Forall allowed sched ->
  let g := summ src_tree c sched in
  (g_new g <= 1 + budget src_tree c)%nat /\ g_new_after_start g = false /\ g_new_unchosen g = false /\ g_fin_bad g = false.
Proof.
  intros c Hc sched Hs g. fam_conj c sched Hc Hs. unfold good_c17 in G. cbn [i_st i_gs summary_of] in G.
  fold (trace src_tree c sched) in G. fold (summ src_tree c sched) in G. fold g in G.
  apply andb_prop in G as [G X]. apply andb_prop in G as [G F]. apply andb_prop in G as [G U]. apply andb_prop in G as [B A].
  apply Nat.leb_le in B. apply negb_true_iff in A. apply negb_true_iff in U. apply negb_true_iff in F. auto.
Qed.

(* every response the retry state judges is judged with its own status - also in the HTTP flavour, where the status travels through
   the x-mosn-status variable of the request context, which is never cleared between attempts ([x_stale] is raised by
   onUpstreamHeaders when the variable does not hold the status of the response in hand) *)
Lemma c17_own_status_family : forall c, In c family -> forall sched, Forall allowed sched ->
  x_stale (final src_tree c sched) = false.
Proof.
  intros c Hc sched Hs. fam_conj c sched Hc Hs. unfold good_c17 in G. cbn [i_st i_gs summary_of] in G.
  apply andb_prop in G as [G X]. now apply negb_true_iff in X.
Qed.

Lemma fam_http_in_family : forall c, In c fam_http -> In c family.
Proof.
  intros c H. unfold family. apply in_or_app; right. apply in_or_app; right. apply in_or_app; right. apply in_or_app; right.
  apply in_or_app; right. apply in_or_app; left. exact H.
Qed.

(* non-vacuity for the HTTP flavour: 503 (retried), then silence until the global time-out: two attempts, the 504 local reply *)
Lemma c17_http_example_holds :
  let c := mk false false false RouteForward 2 true 2 [503] false 0 [] [] [] <| c_http := true |> in
  let sched := repeat Worker 12 ++ [Env (EvUpResp 0 503 false false)] ++ drive ++ [Env EvGlobal] ++ drive in
  In c family /\ Forall allowed sched /\ g_new (summ src_tree c sched) = 2%nat /\
  g_reply_kind (summ src_tree c sched) = Some (KHijack, 504) /\ g_ended (summ src_tree c sched) = true /\
  quiescent (final src_tree c sched) = true /\ cleaned (final src_tree c sched) = true.
Proof.
  cbn zeta. split; [|split].
  - apply fam_http_in_family. vm_compute. repeat (first [left; reflexivity | right]).
  - repeat (apply Forall_app; split); try apply allowed_drive; repeat (apply Forall_cons || apply Forall_nil); cbn; auto.
  - vm_compute. repeat split; reflexivity.
Qed.

(* C10: upstream streams *)
Lemma c10_streams_family : forall c, In c family -> forall sched, Forall allowed sched ->
  let s := final src_tree c sched in let g := summ src_tree c sched in
  g_leak g = false /\
  (wdone s = true -> cleaned s = true -> existsb is_terminate sched = false -> c_oneway c = false -> up_alive s = false).
Proof.
  intros c Hc sched Hs s g. fam_conj c sched Hc Hs. unfold good_c10_streams in G3. cbn [i_st i_gs i_tm summary_of] in G3.
  fold (final src_tree c sched) in G3. fold s in G3. fold (trace src_tree c sched) in G3. fold (summ src_tree c sched) in G3. fold g in G3.
  apply andb_prop in G3 as [L Q]. apply negb_true_iff in L. split; auto.
  intros Hw Hcl Ht Ho. impl_elim Q ltac:(rewrite Hw, Hcl, Ht, Ho; reflexivity). now apply negb_true_iff in Q.
Qed.

(* ---------- refutations of the full statements (witnesses of Proofs/ProxyRefute.v) ---------- *)
Definition outcome_statement (src : srcp) : Prop :=
  forall c sched, quiescent (final src c sched) = true -> outcome c sched (final src c sched) (summ src c sched).

Lemma outcome_ok_of c sched src : quiescent (final src c sched) = true -> outcome c sched (final src c sched) (summ src c sched) ->
  outcome_ok c sched (final src c sched) (trace src c sched) = true.
Proof.
  intros Hq (Hw & Hc & _ & Ho). unfold outcome_ok. fold (summ src c sched). rewrite Hq, Hw, Hc. cbn.
  destruct Ho as [-> | [-> | [-> | ->]]]; cbn; rewrite ?orb_true_r; reflexivity.
Qed.

Lemma refuted_loop : ~ outcome_statement src_tree.
Proof.
  intros H. destruct witness_loop as (Hq & _ & _ & _ & _ & Hbad).
  pose proof (outcome_ok_of cfg_loop sched_loop src_tree Hq (H cfg_loop sched_loop Hq)) as K.
  rewrite K in Hbad. exact (Bool.diff_true_false Hbad).
Qed.
Lemma refuted_nog : ~ outcome_statement src_tree.
Proof.
  intros H. destruct witness_nog as (Hq & _ & _ & _ & _ & _ & Hbad).
  pose proof (outcome_ok_of cfg_nog drive src_tree Hq (H cfg_nog drive Hq)) as K.
  rewrite K in Hbad. exact (Bool.diff_true_false Hbad).
Qed.
Lemma refuted_upf : ~ outcome_statement src_no_direct_reset.
Proof.
  intros H. destruct witness_upf as (Hq & _ & _ & _ & _ & Hbad).
  pose proof (outcome_ok_of cfg_upf sched_upf src_no_direct_reset Hq (H cfg_upf sched_upf Hq)) as K.
  rewrite K in Hbad. exact (Bool.diff_true_false Hbad).
Qed.

(* non-vacuity example for the family theorems *)
Lemma allowed_drive : Forall allowed drive.
Proof. unfold drive. apply Forall_concat. apply Forall_forall. intros l Hl. apply repeat_spec in Hl. subst l. repeat (apply Forall_cons || apply Forall_nil); exact I. Qed.

Lemma c03_example_holds :
  let c := mk false false false RouteForward 2 true 0 [] true 1 [] [] [PoolConnFail] in
  let sched := drive ++ [Env (EvUpResp 1 503 true true)] ++ drive ++ [Env (EvUpResp 2 200 true true)] ++ drive in
  In c family /\ Forall allowed sched /\ quiescent (final src_tree c sched) = true /\ no_defect (final src_tree c sched) = true /\
  g_ended (summ src_tree c sched) = true /\ g_new (summ src_tree c sched) = 3%nat.
Proof.
  cbn zeta. split; [|split].
  - unfold family. apply in_or_app. right. apply in_or_app. right. apply in_or_app. left.
    vm_compute. repeat (first [left; reflexivity | right]).
  - repeat (apply Forall_app; split); try apply allowed_drive; repeat (apply Forall_cons || apply Forall_nil); cbn; auto.
  - vm_compute. repeat split; reflexivity.
Qed.

(* ---------- C10 / C14 refutations on the source switches set back (the code before the repairs) ---------- *)
Definition retries_balanced_statement (src : srcp) : Prop :=
  forall c sched, 0 <= g_res_min (summ src c sched) /\ (cleaned (final src c sched) = true -> g_res (summ src c sched) = 0).

Lemma refuted_unguarded : ~ retries_balanced_statement src_unguarded.
Proof.
  intros H. destruct witness_unguarded as (_ & Hc & Hr & _). destruct (H cfg_breaker sched_plain) as [_ H2].
  rewrite (H2 Hc) in Hr. discriminate Hr.
Qed.
Lemma refuted_keep_retry : ~ retries_balanced_statement src_keep_retry.
Proof.
  intros H. destruct witness_keep_retry as (_ & Hc & Hr & _). destruct (H cfg_leak sched_leak) as [_ H2].
  rewrite (H2 Hc) in Hr. discriminate Hr.
Qed.

Definition denied_statement (src : srcp) : Prop :=
  forall c sched, g_denied (summ src c sched) = true -> g_new_after_deny (summ src c sched) = false.
Lemma refuted_keep_again : ~ denied_statement src_keep_again.
Proof.
  intros H. destruct witness_keep_again as (Hd & Hn & _). rewrite (H cfg_hc sched_plain Hd) in Hn. discriminate Hn.
Qed.

(* ---------- examples ---------- *)
Lemma c10_example_holds :
  wdone (final src_tree cfg_breaker sched_plain) = true /\ cleaned (final src_tree cfg_breaker sched_plain) = true /\
  g_res (summ src_tree cfg_breaker sched_plain) = 0 /\ g_res_min (summ src_tree cfg_breaker sched_plain) = 0 /\
  1 + g_gauge (summ src_tree cfg_breaker sched_plain) = 0.
Proof. vm_compute. repeat split; reflexivity. Qed.

Lemma c14_example_holds :
  let c := mk false false false RouteForward 2 true 0 [] false 0
              [{| f_phase := 1; f_code := 403; f_verdicts := [VHijackCont] |}; {| f_phase := 1; f_code := 429; f_verdicts := [VReMatch] |}]
              [{| sf_code := 400; sf_verdicts := [] |}] [] in
  In c family /\ Forall allowed drive /\ g_denied (summ src_tree c drive) = true /\
  g_reply_kind (summ src_tree c drive) = Some (KHijack, 403) /\ scalls (final src_tree c drive) = [1%nat].
Proof.
  cbn zeta. split; [|split].
  - unfold family. apply in_or_app. left. apply in_or_app. right. apply in_or_app. left.
    vm_compute. repeat (first [left; reflexivity | right]).
  - apply allowed_drive.
  - vm_compute. repeat split; reflexivity.
Qed.

Lemma c17_example_holds :
  let c := mk false false false RouteForward 2 true 4 [] true 1 [] [] [PoolConnFail] in
  let sched := drive ++ [Env (EvPerTry 1)] ++ drive ++ [Env (EvUpResp 2 503 false false)] ++ drive ++ [Env (EvUpResp 3 200 false false)] ++ drive in
  In c family /\ Forall allowed sched /\ g_new (summ src_tree c sched) = 4%nat /\ g_ended (summ src_tree c sched) = true.
Proof.
  cbn zeta. split; [|split].
  - unfold family. apply in_or_app. left. apply in_or_app. right. apply in_or_app. right.
    vm_compute. repeat (first [left; reflexivity | right]).
  - repeat (apply Forall_app; split); try apply allowed_drive; repeat (apply Forall_cons || apply Forall_nil); cbn; auto.
  - vm_compute. repeat split; reflexivity.
Qed.

(* ---------- the pooled filter-chain object: a Put that leaves the cursor lets the next stream skip its leading filters ---------- *)
Definition fresh_cursor_statement (src : srcp) : Prop :=
  forall prev rc0, rcursor (next_request src prev rc0) = 0%nat /\ scursor (next_request src prev rc0) = 0%nat.
Lemma refuted_stale_cursor : ~ fresh_cursor_statement src_no_put_reset.
Proof.
  intros H. destruct witness_stale_cursor as (_ & H1 & _). destruct (H (final src_no_put_reset cfg_park drive) 0) as [H0 _].
  rewrite H0 in H1. discriminate H1.
Qed.

(* ---------- C02 (proxy half): the recycle condition and what it buys ---------- *)
Lemma c02_recycle_family : forall c, In c family -> forall sched, Forall allowed sched ->
  let s := final src_tree c sched in
  gave s = true ->
  abandoned s = false /\ (nnew s <= 1)%nat /\ global_armed s = false /\ try_armed s = None /\ up_alive s = false /\
  cleaned s = true.
Proof.
  intros c Hc sched Hs s Hg. fam_conj c sched Hc Hs. unfold good_c02 in G2. cbn [i_st summary_of] in G2.
  fold (final src_tree c sched) in G2. fold s in G2. apply andb_prop in G2 as [_ G2]. impl_elim G2 ltac:(assumption).
  repeat match type of G2 with (_ && _) = true => let H2 := fresh "J" in apply andb_prop in G2 as [G2 H2] end.
  apply negb_true_iff in G2. apply Nat.leb_le in J3. apply negb_true_iff in J2. apply negb_true_iff in J1.
  destruct (try_armed s); [discriminate|]. repeat split; auto.
Qed.

(* nothing is written into the downStream object after give-back, so the next request served from it starts in the initial state -
   whatever the previous owner went through *)
Lemma c02_no_write_after_give_family : forall c, In c family -> forall sched, Forall allowed sched ->
  late_started (final src_tree c sched) = false.
Proof.
  intros c Hc sched Hs. fam_conj c sched Hc Hs. unfold good_c02 in G2. cbn [i_st summary_of] in G2.
  apply andb_prop in G2 as [L _]. now apply negb_true_iff in L.
Qed.
Lemma next_request_initial : forall src prev rc0,
  put_resets_cursor src = true -> late_started prev = false -> next_request src prev rc0 = init_st rc0.
Proof. intros src prev rc0 Hp Hl. unfold next_request. rewrite Hp, Hl. reflexivity. Qed.
Lemma c03_next_request_fresh_family : forall c, In c family -> forall sched, Forall allowed sched ->
  forall rc0, next_request src_tree (final src_tree c sched) rc0 = init_st rc0.
Proof. intros c Hc sched Hs rc0. apply next_request_initial; [reflexivity|]. exact (c02_no_write_after_give_family c Hc sched Hs). Qed.
(* a history of requests served one after the other from the same pooled object: request k runs as if it were alone *)
Fixpoint run_history (src : srcp) (s0 : st) (h : list (cfg * list step)) : list (st * list out) :=
  match h with
  | [] => []
  | (c, sched) :: h' => let r := run src c s0 sched in r :: run_history src (next_request src (fst r) 0) h'
  end.
Lemma c03_history_independent_family : forall h,
  Forall (fun cs => In (fst cs) family /\ Forall allowed (snd cs)) h ->
  run_history src_tree (init_st 0) h = map (fun cs => run src_tree (fst cs) (init_st 0) (snd cs)) h.
Proof.
  induction h as [|[c sched] h IH]; intros Hh; [reflexivity|].
  inversion Hh as [|x l [Hc Hs] Hl]; subst. cbn [run_history map fst snd].
  f_equal. change (fst (run src_tree c (init_st 0) sched)) with (final src_tree c sched).
  rewrite (c03_next_request_fresh_family c Hc sched Hs 0). exact (IH Hl).
Qed.

(* every reply whose headers are written downstream has passed the send-filter chain since it was last replaced: family x every
   schedule, including the local 502 produced in the retry phase when the re-attempt cannot start *)
Lemma c14_reply_filtered_family : forall c, In c family -> forall sched, Forall allowed sched ->
  x_unfilt (final src_tree c sched) = false.
Proof.
  intros c Hc sched Hs. fam_conj c sched Hc Hs. unfold good_c14 in G1. cbn [i_st i_gs summary_of] in G1.
  apply andb_prop in G1 as [_ X]. now apply negb_true_iff in X.
Qed.

(* sequences of requests on one pooled object: request n+1 takes the object only after request n gave it back; a reply that was
   under way for an abandoned, unanswered attempt of an EARLIER user can then still reach the object (the upstreamRequest carries
   no generation tag) and would be taken for the current request's response.  [carry] = such a reply can exist. *)
Definition carries (s : st) : bool := gave s && abandoned s.
Fixpoint foreign_possible (finals : list st) : bool :=
  match finals with [] => false | s :: rest => carries s || foreign_possible rest end.
Lemma no_foreign_reply (finals : list st) :
  Forall (fun s => gave s = true -> abandoned s = false) finals -> foreign_possible finals = false.
Proof.
  induction 1 as [|s rest Hs _ IH]; cbn [foreign_possible]; [reflexivity|]. rewrite IH, orb_false_r. unfold carries.
  destruct (gave s) eqn:E; [|reflexivity]. rewrite (Hs eq_refl). reflexivity.
Qed.
Lemma c02_no_foreign_family : forall reqs : list (cfg * list step),
  Forall (fun r => In (fst r) family /\ Forall allowed (snd r)) reqs ->
  foreign_possible (map (fun r => final src_tree (fst r) (snd r)) reqs) = false.
Proof.
  intros reqs H. apply no_foreign_reply. apply Forall_forall. intros s Hs. apply in_map_iff in Hs as [[c sched] [<- Hr]].
  rewrite Forall_forall in H. destruct (H _ Hr) as [Hc Ha]. cbn [fst snd] in *. intros Hg.
  now destruct (c02_recycle_family c Hc sched Ha Hg) as [H1 _].
Qed.

Definition recycle_statement (src : srcp) : Prop :=
  forall c sched, gave (final src c sched) = true -> abandoned (final src c sched) = false.
Lemma refuted_seed_recycle : ~ recycle_statement src_seed_recycle.
Proof.
  intros H. destruct witness_seed_recycle as (Hg & Ha & _). rewrite (H cfg_recycle sched_recycle Hg) in Ha. discriminate Ha.
Qed.

Lemma allowed_sched_plain : Forall allowed sched_plain.
Proof. unfold sched_plain. repeat (apply Forall_app; split); try (apply Forall_forall; intros x Hx; apply repeat_spec in Hx; subst x; exact I); repeat (apply Forall_cons || apply Forall_nil); cbn; auto. Qed.

Lemma c02_example_holds :
  let c := mk false false false RouteForward 2 true 0 [] false 0 [] [] [] in
  In c family /\ Forall allowed sched_plain /\ gave (final src_tree c sched_plain) = true /\
  gave (final src_tree cfg_recycle sched_recycle) = false /\ g_ended (summ src_tree cfg_recycle sched_recycle) = true.
Proof.
  cbn zeta. split; [|split].
  - unfold family. apply in_or_app. right. apply in_or_app. right. apply in_or_app. left.
    vm_compute. repeat (first [left; reflexivity | right]).
  - apply allowed_sched_plain.
  - vm_compute. repeat split; reflexivity.
Qed.
