(* Proofs about Model/LB.v: every policy returns a member of the host set, a healthy one, and some host whenever
   a healthy host exists (under the policy's precondition). *)
From Coq Require Import List ZArith NArith Bool Lia.
From MV Require Import Model.LB.
Import ListNotations.
Open Scope Z_scope.

(* ---------- hostSet.Get ---------- *)
Lemma zlen_pos : forall hs, hs <> [] -> 0 < zlen hs.
Proof. intros [|h hs] H; [congruence|]. unfold zlen; cbn [length]; lia. Qed.

Lemma get_cons : forall h0 hs i, get (h0 :: hs) i = Some (nth (clamp (S (length hs)) i) (h0 :: hs) h0).
Proof. reflexivity. Qed.

Lemma get_in : forall hs i h, get hs i = Some h -> In h hs.
Proof.
  intros [|h0 hs] i h H; [discriminate|]. rewrite get_cons in H.
  assert (E : h = nth (clamp (S (length hs)) i) (h0 :: hs) h0) by congruence.
  rewrite E. apply nth_In. unfold clamp. cbn [length]. lia.
Qed.

Lemma get_some : forall hs i, hs <> [] -> exists h, get hs i = Some h.
Proof. intros [|h0 hs] i H; [congruence|]. eexists; reflexivity. Qed.

Lemma get_nth : forall hs k d, (k < length hs)%nat -> get hs (Z.of_nat k) = Some (nth k hs d).
Proof.
  intros [|h0 hs] k d Hk; cbn [length] in Hk; [lia|]. rewrite get_cons.
  f_equal. replace (clamp (S (length hs)) (Z.of_nat k)) with k by (unfold clamp; lia).
  apply nth_indep. cbn [length]; lia.
Qed.

(* ---------- a scan over total consecutive positions (mod total) from a non-negative start covers every host *)
Lemma cover : forall hs start, hs <> [] -> 0 <= start ->
  (forall j, 0 <= j < zlen hs -> healthy_opt (get hs (Z.rem (start + j) (zlen hs))) = false) ->
  forall h, In h hs -> hhealthy h = false.
Proof.
  intros hs start Hne Hs Hall h Hin.
  pose proof (zlen_pos hs Hne) as Hpos.
  destruct (In_nth hs h h Hin) as (k & Hk & Hnth).
  set (j := (Z.of_nat k - start) mod zlen hs).
  assert (Hj : 0 <= j < zlen hs) by (apply Z.mod_pos_bound; lia).
  specialize (Hall j Hj).
  assert (E : Z.rem (start + j) (zlen hs) = Z.of_nat k).
  { rewrite Z.rem_mod_nonneg by lia. unfold j. rewrite Zplus_mod_idemp_r.
    replace (start + (Z.of_nat k - start)) with (Z.of_nat k) by lia.
    apply Z.mod_small. unfold zlen; lia. }
  rewrite E, (get_nth hs k h Hk), Hnth in Hall. exact Hall.
Qed.

Lemma scan_sound : forall hs total start n i h idx,
  scan_from hs total start n i = Some (h, idx) -> In h hs /\ hhealthy h = true.
Proof.
  induction n as [|n IH]; intros i h idx H; cbn in H; [discriminate|].
  destruct (get hs (Z.rem (start + i) total)) as [t|] eqn:G; [|discriminate].
  destruct (hhealthy t) eqn:Ht.
  - inversion H; subst. split; auto. eapply get_in; eauto.
  - eauto.
Qed.

Lemma scan_none : forall hs total start n i, hs <> [] ->
  scan_from hs total start n i = None ->
  forall j, 0 <= j < Z.of_nat n -> healthy_opt (get hs (Z.rem (start + (i + j)) total)) = false.
Proof.
  induction n as [|n IH]; intros i Hne H j Hj; [lia|]. cbn in H.
  destruct (get hs (Z.rem (start + i) total)) as [t|] eqn:G.
  - destruct (hhealthy t) eqn:Ht; [discriminate|].
    destruct (Z.eq_dec j 0) as [->|Hj0].
    + rewrite Z.add_0_r, G. cbn. auto.
    + specialize (IH (i + 1) Hne H (j - 1)). replace (i + 1 + (j - 1)) with (i + j) in IH by lia. apply IH. lia.
  - destruct (get_some hs (Z.rem (start + i) total) Hne) as [x Hx]. congruence.
Qed.

Lemma scan_complete : forall hs start, hs <> [] -> 0 <= start ->
  (exists h, In h hs /\ hhealthy h = true) ->
  scan_from hs (zlen hs) start (length hs) 0 <> None.
Proof.
  intros hs start Hne Hs (h & Hin & Hh) Hnone.
  pose proof (scan_none hs (zlen hs) start (length hs) 0 Hne Hnone) as Hall.
  assert (hhealthy h = false); [|congruence].
  apply (cover hs start Hne Hs); auto; intros j Hj; apply (Hall j); unfold zlen in Hj; lia.
Qed.

(* ---------- soundness predicate ---------- *)
Definition sound (hs : list host) (r : option host) : Prop :=
  forall h, r = Some h -> In h hs /\ hhealthy h = true.

Lemma sound_none : forall hs, sound hs None.
Proof. intros hs h H; discriminate. Qed.

Lemma sound_scan : forall hs total start n i, sound hs (option_map fst (scan_from hs total start n i)).
Proof.
  intros hs total start n i h H. destruct (scan_from hs total start n i) as [[h' idx]|] eqn:E; cbn in H; [|discriminate].
  inversion H; subst. eapply scan_sound; eauto.
Qed.

(* ---------- round robin ---------- *)
Lemma rr_pass1_sound : forall hs total n idx, sound hs (fst (rr_pass1 hs total n idx)).
Proof.
  induction n as [|n IH]; intros idx; cbn; [apply sound_none|].
  destruct (get hs _) as [t|] eqn:G; [|apply sound_none].
  destruct (hhealthy t) eqn:Ht; cbn; auto.
  intros h H; inversion H; subst. split; auto. eapply get_in; eauto.
Qed.

Lemma rr_sound : forall hs idx, sound hs (fst (rr_choose hs idx)).
Proof.
  intros hs idx. unfold rr_choose. destruct hs as [|h0 hs']; [apply sound_none|].
  pose proof (rr_pass1_sound (h0 :: hs') (N.of_nat (length (h0 :: hs'))) (length (h0 :: hs')) idx) as H1.
  destruct (rr_pass1 _ _ _ idx) as [[h|] idx']; cbn [fst] in *; auto.
  apply sound_scan.
Qed.

Lemma rr_complete : forall hs idx, (exists h, In h hs /\ hhealthy h = true) -> fst (rr_choose hs idx) <> None.
Proof.
  intros hs idx Hex. unfold rr_choose. destruct hs as [|h0 hs'].
  - destruct Hex as (h & [] & _).
  - destruct (rr_pass1 _ _ _ idx) as [[h|] idx']; cbn [fst]; [discriminate|].
    set (hs := h0 :: hs') in *.
    assert (Hne : hs <> []) by (unfold hs; discriminate).
    pose proof (scan_complete hs (Z.of_N (u32 (idx' + 1) mod N.of_nat (length hs))%N) Hne (N2Z.is_nonneg _) Hex) as Hc.
    destruct (scan_from _ _ _ _ _); cbn; congruence.
Qed.

(* ---------- random ---------- *)
Lemma random_sound : forall hs rr draw, sound hs (fst (fst (random_choose hs rr draw))).
Proof.
  intros hs rr draw. unfold random_choose. destruct hs as [|h0 hs']; [apply sound_none|].
  destruct (get _ _) as [t|] eqn:G; [|apply sound_none].
  destruct (hhealthy t) eqn:Ht; cbn [fst].
  - intros h H; inversion H; subst. split; auto. eapply get_in; eauto.
  - apply rr_sound.
Qed.

Lemma random_complete : forall hs rr draw, (exists h, In h hs /\ hhealthy h = true) ->
  fst (fst (random_choose hs rr draw)) <> None.
Proof.
  intros hs rr draw Hex. unfold random_choose. destruct hs as [|h0 hs'].
  - destruct Hex as (h & [] & _).
  - destruct (get_some (h0 :: hs') (draw 0%nat) ltac:(discriminate)) as [t G]. rewrite G.
    destruct (hhealthy t); cbn [fst]; [discriminate|]. apply rr_complete; auto.
Qed.

(* ---------- EDF ---------- *)
Lemma edf_try_sound : forall hs pick n i, sound hs (fst (edf_try hs pick n i)).
Proof.
  induction n as [|n IH]; intros i; cbn; [apply sound_none|].
  destruct (get hs (pick i)) as [t|] eqn:G; [|apply sound_none].
  destruct (hhealthy t) eqn:Ht; cbn; auto.
  intros h H; inversion H; subst. split; auto. eapply get_in; eauto.
Qed.

Definition fres (f : option host * N * nat) : option host := fst (fst f).
Definition eres (e : option host * N * nat * nat) : option host := fst (fst (fst e)).

Lemma edf_sound : forall hs sched pick fb rr, sound hs (fres (fb tt)) -> sound hs (eres (edf_choose hs sched pick fb rr)).
Proof.
  intros hs sched pick fb rr Hfb. unfold edf_choose, eres, fres in *.
  destruct hs as [|h0 [|h1 hs']]; cbn [fst]; [apply sound_none| |].
  - destruct (hhealthy h0) eqn:Hh; [|apply sound_none].
    intros h H; inversion H; subst. split; auto. left; auto.
  - destruct sched; cbn [fst]; auto.
    pose proof (edf_try_sound (h0 :: h1 :: hs') pick (length (h0 :: h1 :: hs')) 0) as Ht.
    destruct (edf_try _ _ _ _) as [[h|] k]; cbn [fst] in *; auto.
Qed.

Lemma edf_complete : forall hs sched pick fb rr, (exists h, In h hs /\ hhealthy h = true) ->
  ((exists h, In h hs /\ hhealthy h = true) -> fres (fb tt) <> None) ->
  eres (edf_choose hs sched pick fb rr) <> None.
Proof.
  intros hs sched pick fb rr Hex Hfb. unfold edf_choose, eres, fres in *.
  destruct hs as [|h0 [|h1 hs']]; cbn [fst].
  - destruct Hex as (h & [] & _).
  - destruct Hex as (h & [<-|[]] & Hh). rewrite Hh. discriminate.
  - destruct sched; cbn [fst]; auto.
    destruct (edf_try _ _ _ _) as [[h|] k]; cbn [fst]; [discriminate|auto].
Qed.

(* ---------- least request / least connection ---------- *)
Lemma least_loop_sound : forall key hs draw n i cand,
  sound hs cand -> sound hs (least_loop true key hs draw n i cand).
Proof.
  induction n as [|n IH]; intros i cand Hc; cbn; auto.
  destruct (get hs (draw i)) as [t|] eqn:G; auto.
  destruct (hhealthy t) eqn:Ht; cbn [andb negb]; auto.
  assert (St : sound hs (Some t)).
  { intros h H; inversion H; subst. split; auto. eapply get_in; eauto. }
  destruct cand as [c|]; apply IH; auto. destruct (key t <? key c)%N; auto.
Qed.

Lemma least_loop_member : forall aware key hs draw n i cand,
  (forall h, cand = Some h -> In h hs) -> forall h, least_loop aware key hs draw n i cand = Some h -> In h hs.
Proof.
  induction n as [|n IH]; intros i cand Hc h; cbn; auto.
  destruct (get hs (draw i)) as [t|] eqn:G; auto.
  assert (St : forall x, Some t = Some x -> In x hs) by (intros x H; inversion H; subst; eapply get_in; eauto).
  destruct (aware && negb (hhealthy t)); [apply IH; auto|].
  destruct cand as [c|]; apply IH; auto. destruct (key t <? key c)%N; auto.
Qed.

Lemma least_fallback_sound : forall key hs choice draw, sound hs (fst (least_fallback true key hs choice draw)).
Proof.
  intros. unfold least_fallback.
  pose proof (least_loop_sound key hs draw choice 0 None (sound_none hs)) as H.
  destruct (least_loop _ _ _ _ _ _ _) as [h|]; cbn [fst]; auto. apply sound_scan.
Qed.

Lemma least_fallback_member : forall aware key hs choice draw h,
  fst (least_fallback aware key hs choice draw) = Some h -> In h hs.
Proof.
  intros aware key hs choice draw h. unfold least_fallback.
  pose proof (least_loop_member aware key hs draw choice 0 None ltac:(discriminate)) as H.
  destruct (least_loop _ _ _ _ _ _ _) as [c|]; cbn [fst].
  - intros E; inversion E; subst; auto.
  - destruct aware; cbn [fst]; [|discriminate]. intros E. apply (sound_scan _ _ _ _ _ _ E).
Qed.

Lemma least_fallback_complete : forall key hs choice draw, hs <> [] -> 0 <= draw choice ->
  (exists h, In h hs /\ hhealthy h = true) -> fst (least_fallback true key hs choice draw) <> None.
Proof.
  intros key hs choice draw Hne Hd Hex. unfold least_fallback.
  destruct (least_loop _ _ _ _ _ _ _) as [h|]; cbn [fst]; [discriminate|].
  pose proof (scan_complete hs (draw choice) Hne Hd Hex) as Hc.
  destruct (scan_from _ _ _ _ _); cbn; congruence.
Qed.

(* ---------- peak EWMA ---------- *)
Lemma better_sound : forall hs t cand, sound hs (Some t) -> sound hs cand -> sound hs (better t cand).
Proof. intros hs t [c|] Ht Hc; cbn; auto. destruct (hscore t <? hscore c)%N; auto. Qed.

Lemma better_some : forall t cand, better t cand <> None.
Proof. intros t [c|]; cbn; [destruct (hscore t <? hscore c)%N|]; discriminate. Qed.

Lemma peak_iter_sound : forall hs total idx n i cand, sound hs cand -> sound hs (peak_iter hs total idx n i cand).
Proof.
  induction n as [|n IH]; intros i cand Hc; cbn; auto.
  destruct (get hs _) as [t|] eqn:G; auto. apply IH.
  destruct (hhealthy t) eqn:Ht; auto. apply better_sound; auto.
  intros h H; inversion H; subst. split; auto. eapply get_in; eauto.
Qed.

Lemma peak_rand_sound : forall hs draw n i cand, sound hs cand -> sound hs (peak_rand hs draw n i cand).
Proof.
  induction n as [|n IH]; intros i cand Hc; cbn; auto.
  destruct (get hs _) as [t|] eqn:G; auto. apply IH.
  destruct (hhealthy t) eqn:Ht; auto. apply better_sound; auto.
  intros h H; inversion H; subst. split; auto. eapply get_in; eauto.
Qed.

Lemma peak_iter_some : forall hs total idx n i c, peak_iter hs total idx n i (Some c) <> None.
Proof.
  induction n as [|n IH]; intros i c; cbn; [discriminate|].
  destruct (get hs _) as [t|]; [|discriminate].
  destruct (hhealthy t); [|apply IH].
  unfold better. destruct (hscore t <? hscore c)%N; apply IH.
Qed.

Lemma peak_iter_none : forall hs total idx n i, hs <> [] ->
  peak_iter hs total idx n i None = None ->
  forall j, 0 <= j < Z.of_nat n -> healthy_opt (get hs (Z.rem (idx + (i + j)) total)) = false.
Proof.
  induction n as [|n IH]; intros i Hne H j Hj; [lia|]. cbn in H.
  destruct (get hs (Z.rem (i + idx) total)) as [t|] eqn:G.
  - destruct (hhealthy t) eqn:Ht.
    + exfalso. destruct (better t None) eqn:E; [eapply peak_iter_some; eauto|eapply better_some; eauto].
    + destruct (Z.eq_dec j 0) as [->|Hj0].
      * rewrite Z.add_0_r, (Z.add_comm idx i), G. cbn; auto.
      * specialize (IH (i + 1) Hne H (j - 1)). replace (i + 1 + (j - 1)) with (i + j) in IH by lia. apply IH; lia.
  - destruct (get_some hs (Z.rem (i + idx) total) Hne) as [x Hx]. congruence.
Qed.

Lemma peak_fallback_sound : forall hs choice draw rr, sound hs (fres (peak_fallback hs choice draw rr)).
Proof.
  intros. unfold peak_fallback, fres. destruct (zlen hs <=? Z.of_nat choice); cbn [fst].
  - apply peak_iter_sound, sound_none.
  - pose proof (peak_rand_sound hs draw choice 0 None (sound_none hs)) as H.
    destruct (peak_rand _ _ _ _ _) as [h|]; cbn [fst]; auto. apply rr_sound.
Qed.

Lemma peak_fallback_complete : forall hs choice draw rr, hs <> [] -> 0 <= draw 0%nat ->
  (exists h, In h hs /\ hhealthy h = true) -> fres (peak_fallback hs choice draw rr) <> None.
Proof.
  intros hs choice draw rr Hne Hd Hex. unfold peak_fallback, fres.
  destruct (zlen hs <=? Z.of_nat choice); cbn [fst].
  - intros Hnone. destruct Hex as (h & Hin & Hh).
    pose proof (peak_iter_none hs (zlen hs) (draw 0%nat) (length hs) 0 Hne Hnone) as Hall.
    assert (hhealthy h = false); [|congruence].
    apply (cover hs (draw 0%nat) Hne Hd); auto; intros j Hj; apply (Hall j); unfold zlen in Hj; lia.
  - destruct (peak_rand _ _ _ _ _) as [h|]; cbn [fst]; [discriminate|]. apply rr_complete; auto.
Qed.

(* ---------- maglev / request round robin ---------- *)
Lemma maglev_sound : forall hs table pol lookup v, sound hs (fst (maglev_choose hs table pol lookup v)).
Proof.
  intros. unfold maglev_choose. destruct (negb table || negb pol); [apply sound_none|].
  destruct (get hs lookup) as [c|] eqn:G; [|apply sound_none].
  destruct v as [| |z]; cbn [negb orb].
  - destruct (hhealthy c) eqn:Hc; cbn [negb orb].
    + intros h H; inversion H; subst. split; auto. eapply get_in; eauto.
    + destruct (scan_from _ _ _ _ _) as [[h ind]|] eqn:E; cbn [fst]; [|apply sound_none].
      intros x H; inversion H; subst. eapply scan_sound; eauto.
  - rewrite orb_true_r. destruct (scan_from _ _ _ _ _) as [[h ind]|] eqn:E; cbn [fst]; [|apply sound_none].
    intros x H; inversion H; subst. eapply scan_sound; eauto.
  - rewrite orb_true_r. destruct (scan_from _ _ _ _ _) as [[h ind]|] eqn:E; cbn [fst]; [|apply sound_none].
    intros x H; inversion H; subst. eapply scan_sound; eauto.
Qed.

Lemma maglev_complete : forall hs lookup v,
  match v with VarInt i => -1 <= i | _ => 0 <= lookup + 1 end ->
  (exists h, In h hs /\ hhealthy h = true) -> fst (maglev_choose hs true true lookup v) <> None.
Proof.
  intros hs lookup v Hv Hex. unfold maglev_choose. cbn [negb orb].
  assert (Hne : hs <> []) by (destruct Hex as (h & Hin & _); destruct hs; [destruct Hin|discriminate]).
  destruct (get_some hs lookup Hne) as [c G]. rewrite G.
  destruct v as [| |z]; cbn [negb orb].
  - destruct (hhealthy c); cbn [negb orb fst]; [discriminate|].
    pose proof (scan_complete hs (lookup + 1) Hne Hv Hex) as Hc.
    destruct (scan_from _ _ _ _ _) as [[h ind]|]; cbn [fst]; congruence.
  - rewrite orb_true_r.
    pose proof (scan_complete hs (lookup + 1) Hne Hv Hex) as Hc.
    destruct (scan_from _ _ _ _ _) as [[h ind]|]; cbn [fst]; congruence.
  - rewrite orb_true_r.
    pose proof (scan_complete hs (z + 1) Hne ltac:(lia) Hex) as Hc.
    destruct (scan_from _ _ _ _ _) as [[h ind]|]; cbn [fst]; congruence.
Qed.

Lemma reqrr_sound : forall hs v, sound hs (fst (reqrr_choose hs v)).
Proof.
  intros. unfold reqrr_choose. destruct hs as [|h0 hs']; [apply sound_none|].
  destruct (scan_from _ _ _ _ _) as [[h ind]|] eqn:E; cbn [fst]; [|apply sound_none].
  intros x H; inversion H; subst. eapply scan_sound; eauto.
Qed.

Lemma reqrr_complete : forall hs v, match v with VarInt i => -1 <= i | _ => True end ->
  (exists h, In h hs /\ hhealthy h = true) -> fst (reqrr_choose hs v) <> None.
Proof.
  intros hs v Hv Hex. unfold reqrr_choose. destruct hs as [|h0 hs'].
  - destruct Hex as (h & [] & _).
  - set (hs := h0 :: hs') in *.
    assert (Hne : hs <> []) by (unfold hs; discriminate).
    pose proof (scan_complete hs (match v with VarInt i => i + 1 | _ => 0 end) Hne
                  ltac:(destruct v; lia) Hex) as Hc.
    destruct (scan_from _ _ _ _ _) as [[h ind]|]; cbn [fst]; congruence.
Qed.

(* ---------- all policies ---------- *)
Definition aware_for (la lc : bool) (p : policy) : Prop :=
  (p = PLeastRequest -> la = true) /\ (p = PLeastConn -> lc = true).

Lemma rr_as_fb_sound : forall hs rr, sound hs (fres (let r := rr_choose hs rr in (fst r, snd r, 0%nat))).
Proof. intros; unfold fres; cbn [fst]. apply rr_sound. Qed.

Theorem choose_sound : forall la lc p hs rr x, aware_for la lc p ->
  forall h, o_res (choose la lc p hs rr x) = Some h -> In h hs /\ hhealthy h = true.
Proof.
  intros la lc p hs rr x [Hla Hlc] h. unfold choose. destruct p.
  - pose proof (random_sound hs rr (i_draw x)) as S. destruct (random_choose _ _ _) as [[r rr'] d]; cbn in *. apply S.
  - pose proof (rr_sound hs rr) as S. destruct (rr_choose _ _) as [r rr']; cbn in *. apply S.
  - pose proof (edf_sound hs (i_sched x) (i_pick x) (fun _ => let r := rr_choose hs rr in (fst r, snd r, 0%nat)) rr
                  (rr_as_fb_sound hs rr)) as S.
    unfold wrr_choose. destruct (edf_choose _ _ _ _ _) as [[[r rr'] d] k]; cbn in *. apply S.
  - rewrite (Hla eq_refl).
    pose proof (edf_sound hs (i_sched x) (i_pick x)
      (fun _ => let r := least_fallback true hreq hs (i_choice x) (i_draw x) in (fst r, rr, snd r)) rr
      (least_fallback_sound hreq hs (i_choice x) (i_draw x))) as S.
    unfold least_choose. destruct (edf_choose _ _ _ _ _) as [[[r rr'] d] k]; cbn in *. apply S.
  - rewrite (Hlc eq_refl).
    pose proof (edf_sound hs (i_sched x) (i_pick x)
      (fun _ => let r := least_fallback true hconn hs (i_choice x) (i_draw x) in (fst r, rr, snd r)) rr
      (least_fallback_sound hconn hs (i_choice x) (i_draw x))) as S.
    unfold least_choose. destruct (edf_choose _ _ _ _ _) as [[[r rr'] d] k]; cbn in *. apply S.
  - pose proof (edf_sound hs (i_sched x) (i_pick x) (fun _ => peak_fallback hs (i_choice x) (i_draw x) rr) rr
      (peak_fallback_sound hs (i_choice x) (i_draw x) rr)) as S.
    unfold peak_choose. destruct (edf_choose _ _ _ _ _) as [[[r rr'] d] k]; cbn in *. apply S.
  - pose proof (maglev_sound hs (i_table x) (i_haspolicy x) (i_lookup x) (i_var x)) as S.
    destruct (maglev_choose _ _ _ _ _) as [r v]; cbn in *. apply S.
  - pose proof (reqrr_sound hs (i_var x)) as S. destruct (reqrr_choose _ _) as [r v]; cbn in *. apply S.
Qed.

(* membership holds for every policy even without the health test in the least-* fallback *)
Lemma edf_member : forall hs sched pick fb rr, (forall h, fres (fb tt) = Some h -> In h hs) ->
  forall h, eres (edf_choose hs sched pick fb rr) = Some h -> In h hs.
Proof.
  intros hs sched pick fb rr Hfb h. unfold edf_choose, eres, fres in *.
  destruct hs as [|h0 [|h1 hs']]; cbn [fst]; [discriminate| |].
  - destruct (hhealthy h0); [|discriminate]. intros H; inversion H; subst. left; auto.
  - destruct sched; cbn [fst]; auto.
    pose proof (edf_try_sound (h0 :: h1 :: hs') pick (length (h0 :: h1 :: hs')) 0) as Ht.
    destruct (edf_try _ _ _ _) as [[c|] k]; cbn [fst] in *; auto.
    intros H. apply Ht; auto.
Qed.

Theorem choose_member : forall la lc p hs rr x h, o_res (choose la lc p hs rr x) = Some h -> In h hs.
Proof.
  intros la lc p hs rr x h.
  assert (Hgen : aware_for la lc p -> o_res (choose la lc p hs rr x) = Some h -> In h hs).
  { intros Ha H. eapply choose_sound; eauto. }
  destruct p; try (apply Hgen; split; intros; discriminate).
  - unfold choose, least_choose.
    pose proof (edf_member hs (i_sched x) (i_pick x)
      (fun _ => let r := least_fallback la hreq hs (i_choice x) (i_draw x) in (fst r, rr, snd r)) rr) as S.
    destruct (edf_choose _ _ _ _ _) as [[[r rr'] d] k]; cbn in *. apply S.
    intros c. unfold fres; cbn [fst]. apply least_fallback_member.
  - unfold choose, least_choose.
    pose proof (edf_member hs (i_sched x) (i_pick x)
      (fun _ => let r := least_fallback lc hconn hs (i_choice x) (i_draw x) in (fst r, rr, snd r)) rr) as S.
    destruct (edf_choose _ _ _ _ _) as [[[r rr'] d] k]; cbn in *. apply S.
    intros c. unfold fres; cbn [fst]. apply least_fallback_member.
Qed.

Theorem choose_complete : forall la lc p hs rr x, aware_for la lc p -> pre_ok p hs x ->
  (exists h, In h hs /\ hhealthy h = true) -> o_res (choose la lc p hs rr x) <> None.
Proof.
  intros la lc p hs rr x [Hla Hlc] [Hd Hp] Hex.
  assert (Hne : hs <> []) by (destruct Hex as (h & Hin & _); destruct hs; [destruct Hin|discriminate]).
  unfold choose. destruct p.
  - pose proof (random_complete hs rr (i_draw x) Hex) as C. destruct (random_choose _ _ _) as [[r rr'] d]; cbn in *; auto.
  - pose proof (rr_complete hs rr Hex) as C. destruct (rr_choose _ _) as [r rr']; cbn in *; auto.
  - pose proof (edf_complete hs (i_sched x) (i_pick x)
      (fun _ => let r := rr_choose hs rr in (fst r, snd r, 0%nat)) rr Hex) as C.
    unfold wrr_choose. destruct (edf_choose _ _ _ _ _) as [[[r rr'] d] k]; cbn in *. apply C.
    intros _. unfold fres; cbn [fst]. apply rr_complete; auto.
  - rewrite (Hla eq_refl).
    pose proof (edf_complete hs (i_sched x) (i_pick x)
      (fun _ => let r := least_fallback true hreq hs (i_choice x) (i_draw x) in (fst r, rr, snd r)) rr Hex) as C.
    unfold least_choose. destruct (edf_choose _ _ _ _ _) as [[[r rr'] d] k]; cbn in *. apply C.
    intros _. unfold fres; cbn [fst]. apply least_fallback_complete; auto.
  - rewrite (Hlc eq_refl).
    pose proof (edf_complete hs (i_sched x) (i_pick x)
      (fun _ => let r := least_fallback true hconn hs (i_choice x) (i_draw x) in (fst r, rr, snd r)) rr Hex) as C.
    unfold least_choose. destruct (edf_choose _ _ _ _ _) as [[[r rr'] d] k]; cbn in *. apply C.
    intros _. unfold fres; cbn [fst]. apply least_fallback_complete; auto.
  - pose proof (edf_complete hs (i_sched x) (i_pick x) (fun _ => peak_fallback hs (i_choice x) (i_draw x) rr) rr Hex) as C.
    unfold peak_choose. destruct (edf_choose _ _ _ _ _) as [[[r rr'] d] k]; cbn in *. apply C.
    intros _. apply peak_fallback_complete; auto.
  - destruct Hp as (Ht & Hpol & Hv). rewrite Ht, Hpol.
    pose proof (maglev_complete hs (i_lookup x) (i_var x) Hv Hex) as C.
    destruct (maglev_choose _ _ _ _ _) as [r v]; cbn in *; auto.
  - pose proof (reqrr_complete hs (i_var x) Hp Hex) as C. destruct (reqrr_choose _ _) as [r v]; cbn in *; auto.
Qed.

(* ---------- the fallback without the health test returns an unhealthy host while a healthy one exists ---------- *)
Definition bad_hosts : list host := [mkHost 0 1 false 0 0 0; mkHost 1 1 true 0 0 0].
Definition bad_inputs : inputs := mkIn (fun _ => 0) (fun _ => 0) false 2 false false 0 VarUnset.

Theorem least_unaware_refuted : forall lc,
  ~ (forall hs rr x h, o_res (choose false lc PLeastRequest hs rr x) = Some h -> hhealthy h = true).
Proof.
  intros lc H. specialize (H bad_hosts 0%N bad_inputs (mkHost 0 1 false 0 0 0) eq_refl). discriminate.
Qed.

Theorem leastconn_unaware_refuted : forall la,
  ~ (forall hs rr x h, o_res (choose la false PLeastConn hs rr x) = Some h -> hhealthy h = true).
Proof.
  intros la H. specialize (H bad_hosts 0%N bad_inputs (mkHost 0 1 false 0 0 0) eq_refl). discriminate.
Qed.

(* ---------- histories ---------- *)
Definition entry_ok (p : policy) (e : list host * inputs * output) : Prop :=
  let '(hs, x, o) := e in
  (forall h, o_res o = Some h -> In h hs /\ hhealthy h = true) /\
  (pre_ok p hs x -> (exists h, In h hs /\ hhealthy h = true) -> o_res o <> None).

Theorem history_ok : forall la lc p, aware_for la lc p -> forall ops hs rr,
  Forall (entry_ok p) (run_ops la lc p hs rr ops).
Proof.
  intros la lc p Ha ops. induction ops as [|op ops IH]; intros hs rr; cbn; [constructor|].
  destruct op as [x|k|hs' rr0]; auto.
  constructor; auto. unfold entry_ok. split.
  - apply choose_sound; auto.
  - apply choose_complete; auto.
Qed.
