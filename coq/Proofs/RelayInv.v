(* Proofs about Model/Relay.v, part 1b: one read-loop iteration preserves the relay invariant (assembled from the
   case files Proofs/RelayInv_<read outcome>_<first write outcome>[_<second write outcome>].v, which build in parallel). *)
From Coq Require Import List NArith Bool Lia.
From MV Require Import Model.Relay.
From MV Require Export Proofs.RelayInvDefs.
From MV Require Import Proofs.RelayInv_RNone_nil Proofs.RelayInv_RNone_ok Proofs.RelayInv_RNone_to Proofs.RelayInv_RNone_err.
From MV Require Import Proofs.RelayInv_REOF_nil.
From MV Require Import Proofs.RelayInv_REOF_ok_nil Proofs.RelayInv_REOF_ok_ok Proofs.RelayInv_REOF_ok_to Proofs.RelayInv_REOF_ok_err.
From MV Require Import Proofs.RelayInv_REOF_to_nil Proofs.RelayInv_REOF_to_ok Proofs.RelayInv_REOF_to_to Proofs.RelayInv_REOF_to_err.
From MV Require Import Proofs.RelayInv_REOF_err_nil Proofs.RelayInv_REOF_err_ok Proofs.RelayInv_REOF_err_to Proofs.RelayInv_REOF_err_err.
From MV Require Import Proofs.RelayInv_RTimeout_nil Proofs.RelayInv_RTimeout_ok Proofs.RelayInv_RTimeout_to Proofs.RelayInv_RTimeout_err.
From MV Require Import Proofs.RelayInv_RErr_nil Proofs.RelayInv_RErr_ok Proofs.RelayInv_RErr_to Proofs.RelayInv_RErr_err.
Import ListNotations.

Lemma rd_inv x y b e wo : Inv2 x y -> Inv2 (fst (rd x y b e wo)) (snd (rd x y b e wo)).
Proof.
  destruct e.
  - destruct wo as [|[|k|k] wo]; [apply rd_inv_RNone_nil|apply rd_inv_RNone_ok|apply rd_inv_RNone_to|apply rd_inv_RNone_err].
  - destruct wo as [|[|k|k] [|[|k2|k2] wo]].
    + apply rd_inv_REOF_nil.
    + apply rd_inv_REOF_ok_nil.
    + apply rd_inv_REOF_ok_ok.
    + apply rd_inv_REOF_ok_to.
    + apply rd_inv_REOF_ok_err.
    + apply rd_inv_REOF_to_nil.
    + apply rd_inv_REOF_to_ok.
    + apply rd_inv_REOF_to_to.
    + apply rd_inv_REOF_to_err.
    + apply rd_inv_REOF_err_nil.
    + apply rd_inv_REOF_err_ok.
    + apply rd_inv_REOF_err_to.
    + apply rd_inv_REOF_err_err.
  - destruct wo as [|[|k|k] wo]; [apply rd_inv_RTimeout_nil|apply rd_inv_RTimeout_ok|apply rd_inv_RTimeout_to|apply rd_inv_RTimeout_err].
  - destruct wo as [|[|k|k] wo]; [apply rd_inv_RErr_nil|apply rd_inv_RErr_ok|apply rd_inv_RErr_to|apply rd_inv_RErr_err].
Qed.
