(* Proofs about Model/UrlBuild.v: c01_url_identity and the characterisation of the reproduced request targets. *)
From Coq Require Import List NArith Bool Lia.
From MV Require Import Model.UrlBuild.
Import ListNotations.
Open Scope N_scope.

Lemma beqb_refl a : beqb a a = true.
Proof. induction a as [|x a IH]; cbn; [reflexivity|]. now rewrite N.eqb_refl, IH. Qed.
Lemma beqb_eq a b : beqb a b = true <-> a = b.
Proof.
  revert b. induction a as [|x a IH]; intros [|y b]; cbn; split; try reflexivity; try discriminate.
  - rewrite andb_true_iff, N.eqb_eq, IH. intros [-> ->]. reflexivity.
  - intros H. inversion H; subst. now rewrite N.eqb_refl, beqb_refl.
Qed.

Lemma nilb_app_cons (a : list N) x b : nilb (a ++ x :: b) = false.
Proof. destruct a; reflexivity. Qed.

Section UrlBuild.
  Variable path_unescape : list N -> option (list N).
  Variable norm : list N -> list N.
  Variable request_uri : list N -> list N.
  Notation build_url := (build_url path_unescape norm request_uri).
  Notation rebuild := (rebuild path_unescape norm request_uri).

  (* the route did not rewrite the path: VarPath is still fasthttp's normalisation of VarPathOriginal *)
  Lemma build_url_unrewritten po query :
    build_url (norm po) po query =
    (if nilb po then [c_slash] else po) ++ (if nilb query then [] else c_qmark :: query).
  Proof.
    unfold UrlBuild.build_url. rewrite beqb_refl, orb_true_r.
    destruct (nilb query); [now rewrite app_nil_r|reflexivity].
  Qed.

  (* ... and also when only the first disjunct holds (path = PathUnescape(pathOriginal)) *)
  Lemma build_url_unescaped path po query :
    path_unescape po = Some path ->
    build_url path po query =
    (if nilb po then [c_slash] else po) ++ (if nilb query then [] else c_qmark :: query).
  Proof.
    intros H. unfold UrlBuild.build_url. rewrite H, beqb_refl. cbn [orb].
    destruct (nilb query); [now rewrite app_nil_r|reflexivity].
  Qed.

  (* break_at: the pieces put back together give the list; the first piece does not contain the separator *)
  Lemma break_at_spec c l :
    let (a, b) := break_at c l in
    l = a ++ (match b with Some r => c :: r | None => [] end) /\ ~ In c a.
  Proof.
    induction l as [|x r IH]; cbn [break_at].
    - split; [reflexivity|intros []].
    - destruct (N.eqb x c) eqn:E.
      + apply N.eqb_eq in E. subst. split; [reflexivity|intros []].
      + destruct (break_at c r) as [a b]. destruct IH as [IH1 IH2]. split.
        * cbn. now rewrite IH1 at 1.
        * intros [H|H]; [subst; now rewrite N.eqb_refl in E|auto].
  Qed.

  Definition qpart (q : option (list N)) : list N := match q with Some r => c_qmark :: r | None => [] end.
  Definition hpart (h : option (list N)) : list N := match h with Some r => c_hash :: r | None => [] end.

  Lemma split_target_spec t :
    let tg := split_target t in
    t = t_po tg ++ qpart (t_query tg) ++ hpart (t_hash tg) /\ ~ In c_qmark (t_po tg) /\ ~ In c_hash (t_po tg).
  Proof.
    unfold split_target.
    pose proof (break_at_spec c_hash t) as H1. destruct (break_at c_hash t) as [bf fr]. destruct H1 as [H1 H1'].
    pose proof (break_at_spec c_qmark bf) as H2. destruct (break_at c_qmark bf) as [po q]. destruct H2 as [H2 H2'].
    cbn [t_po t_query t_hash]. split; [|split].
    - rewrite H1, H2. unfold qpart, hpart. now rewrite <- app_assoc.
    - exact H2'.
    - intros Hin. apply H1'. rewrite H2. apply in_or_app. left. exact Hin.
  Qed.

  Lemma rebuild_value t :
    let tg := split_target t in
    rebuild t = (if nilb (t_po tg) then [c_slash] else t_po tg) ++
                (match t_query tg with Some (x :: q) => c_qmark :: x :: q | _ => [] end).
  Proof.
    cbn zeta. unfold UrlBuild.rebuild. rewrite build_url_unrewritten. f_equal.
    unfold var_query. destruct (t_query (split_target t)) as [[|x q]|]; reflexivity.
  Qed.

  Lemma app_len_neq (a b : list N) : b <> [] -> a <> a ++ b.
  Proof. intros Hb H. apply (f_equal (@length N)) in H. rewrite app_length in H. destruct b; [congruence|cbn in H; lia]. Qed.

  (* exactly the targets with a non-empty path part, without '#', and without a '?' followed by nothing come back
     byte for byte *)
  Lemma rebuild_identity_iff t : rebuild t = t <-> reproducible t.
  Proof.
    unfold reproducible. rewrite rebuild_value.
    pose proof (split_target_spec t) as [Ht [Hq Hh]].
    destruct (split_target t) as [po q h]. cbn [t_po t_query t_hash] in *.
    split.
    - intros H. rewrite Ht in H. clear Ht.
      destruct po as [|p po].
      + (* empty path part: the rebuilt URI starts with '/', the target with '?', '#' or nothing *)
        exfalso. cbn [nilb app] in H. destruct q as [[|x q]|]; destruct h as [h|]; cbn in H; try discriminate.
      + cbn [nilb] in H. apply app_inv_head in H.
        destruct h as [h|].
        * exfalso. destruct q as [[|x q]|]; cbn in H; try discriminate.
          inversion H as [H']. apply (app_len_neq (x :: q) (c_hash :: h)); [discriminate|].
          cbn. now rewrite H' at 1.
        * split; [reflexivity|]. split; [discriminate|]. intros ->. cbn in H. discriminate.
    - intros [-> [Hpo Hq']]. rewrite Ht. destruct po as [|p po]; [congruence|]. cbn [nilb]. f_equal.
      cbn [hpart]. rewrite app_nil_r. destruct q as [[|x q]|]; [congruence|reflexivity|reflexivity].
  Qed.

  (* the two ways a well-formed origin-form target is NOT reproduced *)
  Lemma rebuild_empty_query po : po <> [] -> ~ In c_qmark po -> ~ In c_hash po ->
    rebuild (po ++ [c_qmark]) = po.
  Proof.
    intros Hne Hq Hh. rewrite rebuild_value. unfold split_target.
    assert (B : forall c l r, ~ In c l -> break_at c (l ++ c :: r) = (l, Some r)).
    { intros c l r. induction l as [|x l IH]; cbn; intros Hn.
      - now rewrite N.eqb_refl.
      - destruct (N.eqb x c) eqn:E; [apply N.eqb_eq in E; subst; exfalso; apply Hn; now left|].
        rewrite IH; [reflexivity|]. intros H; apply Hn; now right. }
    assert (B0 : forall c l, ~ In c l -> break_at c l = (l, None)).
    { intros c l. induction l as [|x l IH]; cbn; intros Hn; [reflexivity|].
      destruct (N.eqb x c) eqn:E; [apply N.eqb_eq in E; subst; exfalso; apply Hn; now left|].
      rewrite IH; [reflexivity|]. intros H; apply Hn; now right. }
    rewrite (B0 c_hash (po ++ [c_qmark])).
    - rewrite (B c_qmark po [] Hq). cbn [t_po t_query]. destruct po; [congruence|]. cbn. now rewrite app_nil_r.
    - intros H. apply in_app_or in H. destruct H as [H|[H|[]]]; [auto|discriminate].
  Qed.
End UrlBuild.

Lemma url_target_refuted :
  ~ (forall (path_unescape : list N -> option (list N)) (norm request_uri : list N -> list N) t,
       (exists r, t = c_slash :: r) -> ~ In c_hash t -> rebuild path_unescape norm request_uri t = t).
Proof.
  intros H. specialize (H (fun _ => None) (fun p => p) (fun p => p) [47; 97; 63]).
  assert (E : rebuild (fun _ => None) (fun p => p) (fun p => p) [47; 97; 63] = [47; 97]) by (vm_compute; reflexivity).
  rewrite E in H. discriminate H.
  - exists [97; 63]. reflexivity.
  - cbn. intros [A|[A|[A|[]]]]; discriminate A.
Qed.
