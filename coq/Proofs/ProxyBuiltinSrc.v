(* The switches of Model/ProxyBuiltin.v as the tree has them (constant: the proofs do not depend on the generated file; Props/C14.v
   requires the generated record to be equal to this one). *)
From MV Require Import Model.ProxyBuiltin.
Definition bsrc_tree : bsrc := {| pl_fresh := true; pl_replaces := true; fi_fresh := true; fi_replaces := true |}.
