(* Proofs about Model/PoolPut.v: the closed test inside the critical section of the append keeps "a closed client is never
   idle" under every schedule; the test before the lock does not. *)
From Coq Require Import List Bool Arith Lia.
From MV Require Import Lib.Interleave Model.PoolPut.
Import ListNotations.

Definition put_R : list ucfg := Eval vm_compute in ureachable (put_cfg true).

Lemma put_R_init : In (put_cfg true) put_R.
Proof. vm_compute. tauto. Qed.

Lemma put_R_good : forall c, In c put_R -> put_good c = true.
Proof. intros c H. unfold put_R in H. cbn [In] in H. repeat (destruct H as [<-|H]; [reflexivity|]). contradiction. Qed.

Lemma put_R_two : forall c, In c put_R -> length (fst c) = 2.
Proof. intros c H. unfold put_R in H. cbn [In] in H. repeat (destruct H as [<-|H]; [reflexivity|]). contradiction. Qed.

Lemma put_R_step0 : forall c, In c put_R -> In (sched_step ustep c 0) put_R.
Proof. intros c H. unfold put_R in H. cbn [In] in H. repeat (destruct H as [<-|H]; [vm_compute; tauto|]). contradiction. Qed.

Lemma put_R_step1 : forall c, In c put_R -> In (sched_step ustep c 1) put_R.
Proof. intros c H. unfold put_R in H. cbn [In] in H. repeat (destruct H as [<-|H]; [vm_compute; tauto|]). contradiction. Qed.

Lemma put_R_step : forall c k, In c put_R -> In (sched_step ustep c k) put_R.
Proof.
  intros c k H. destruct k as [|[|k]]; [apply put_R_step0; assumption|apply put_R_step1; assumption|].
  pose proof (put_R_two c H) as L. unfold sched_step.
  destruct (fst c) as [|a [|b [|x l]]]; cbn in L; try discriminate. destruct k; cbn; assumption.
Qed.

Theorem put_tested_locked_safe : put_statement (put_cfg true).
Proof.
  intros sched. apply put_R_good. unfold urun.
  apply (run_invariant ustep (fun c => In c put_R)); [intros c k; apply put_R_step|apply put_R_init].
Qed.

(* the returner reads closed = false, the close event removes the client and sets closed, the returner appends it *)
Theorem put_tested_before_lock_refuted : ~ put_statement (put_cfg false).
Proof. intros H. specialize (H [0;1;1;1;0;0;0]%nat). vm_compute in H. discriminate. Qed.

Example put_locked_example : urun [0;1;0;0;1;1;1]%nat (put_cfg true) = ([[]; []], mkUSh false true false).
Proof. vm_compute. reflexivity. Qed.
