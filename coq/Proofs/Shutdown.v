(* Proofs about Model/Shutdown.v (property C11). *)
From Coq Require Import List NArith Arith Bool Lia ZifyBool ZifyNat ZifyN.
From MV Require Import Lib.Bytes Lib.Seg Model.Shutdown.
Import ListNotations.
Open Scope nat_scope.

(* ------------------------------------------------------------------ 1. listener *)
(* an accept loop runs only in state Running *)
Definition l_wf (l : listener) : Prop :=
  (l_loop l = true -> l_state l = LRunning /\ l_bind l = true) /\
  (l_bind l = true -> l_state l = LClosed -> l_sock l = SClosed \/ l_sock l = SNone).

Lemma l_wf_init b i : l_wf (l_init b i).
Proof. unfold l_wf, l_init; cbn. split; [discriminate|]. intros _ H; discriminate. Qed.

Lemma l_wf_step l o : l_wf l -> l_wf (l_step l o).
Proof.
  unfold l_wf. intros [H1 H2]. destruct l as [bd st so lp fd dr]. cbn in H1, H2.
  destruct o as [r|u| |]; cbn; unfold l_start, l_shutdown, l_stop_accept, l_close, l_drain, with_state; cbn;
    destruct bd, st, so, lp; try destruct r; try destruct u; cbn;
    (split; [intros E; try (split; reflexivity); try discriminate; auto; try (destruct (H1 eq_refl); discriminate)
            |intros Eb Es; try discriminate; auto; try (left; reflexivity); try (right; reflexivity);
             try (destruct (H2 eq_refl eq_refl); discriminate)]).
Qed.

Lemma l_wf_run ops : forall l, l_wf l -> l_wf (l_run l ops).
Proof.
  induction ops as [|o ops IH]; intros l H; [exact H|].
  change (l_run l (o :: ops)) with (l_run (l_step l o) ops). apply IH. apply l_wf_step. exact H.
Qed.

Definition closed_quiet (l : listener) : Prop := l_state l = LClosed /\ l_loop l = false.

Lemma closed_quiet_step l o : is_restart o = false -> closed_quiet l -> closed_quiet (l_step l o).
Proof.
  intros Ho [Hs Hl]. destruct l as [bd st so lp fd dr]. cbn in Hs, Hl. subst.
  destruct o as [r|u| |]; cbn in *; unfold closed_quiet, l_start, l_shutdown, l_stop_accept, l_close, l_drain, with_state; cbn;
    try (destruct r; [discriminate|]); try destruct u; destruct bd; cbn; split; reflexivity.
Qed.

Lemma closed_quiet_run ops : forall l, forallb (fun o => negb (is_restart o)) ops = true ->
  closed_quiet l -> closed_quiet (l_run l ops).
Proof.
  induction ops as [|o ops IH]; intros l Hf H; [exact H|].
  change (l_run l (o :: ops)) with (l_run (l_step l o) ops).
  cbn in Hf. apply andb_true_iff in Hf as [Ho Hf]. apply IH; [exact Hf|].
  apply closed_quiet_step; [|exact H]. destruct (is_restart o); [discriminate|reflexivity].
Qed.

(* a closed listener of a well-formed history has no loop; for an arbitrary record we ask l_wf *)
Lemma shutdown_closes l : l_wf l -> l_bind l = true -> closed_quiet (l_shutdown false l).
Proof.
  intros [Hw _] Hb. destruct l as [bd st so lp fd dr]. cbn in Hb. subst. cbn in Hw.
  unfold closed_quiet, l_shutdown, l_close, l_drain, with_state; cbn.
  destruct st; cbn; split; try reflexivity.
  destruct lp; [|reflexivity]. destruct (Hw eq_refl). discriminate.
Qed.

(* after a non-upgrade Shutdown nothing is accepted, whatever happens next short of Start(restart=true) *)
Theorem no_new_after_shutdown l ops :
  l_wf l -> l_bind l = true ->
  forallb (fun o => negb (is_restart o)) ops = true ->
  l_accepts (l_run (l_shutdown false l) ops) = false.
Proof.
  intros Hw Hb Hf. destruct (closed_quiet_run ops _ Hf (shutdown_closes l Hw Hb)) as [_ Hl].
  unfold l_accepts. rewrite Hl. reflexivity.
Qed.

Lemma l_bind_step l o : l_bind (l_step l o) = l_bind l.
Proof.
  destruct l as [bd st so lp fd dr]. destruct o as [r|u| |]; cbn;
    unfold l_start, l_shutdown, l_stop_accept, l_close, l_drain, with_state; cbn;
    destruct bd, st, so; try destruct r; try destruct u; reflexivity.
Qed.

Lemma l_bind_run ops : forall l, l_bind (l_run l ops) = l_bind l.
Proof.
  induction ops as [|o ops IH]; intros l; [reflexivity|].
  change (l_run l (o :: ops)) with (l_run (l_step l o) ops). rewrite IH. apply l_bind_step.
Qed.

(* graceful stop: at the moment the drain starts, and ever after (short of Start(restart)), a connect is REFUSED - it is
   not left in the backlog of a socket nobody accepts from *)
Lemma closed_refuses l : l_wf l -> l_bind l = true -> l_state l = LClosed -> l_connect l = CRefused.
Proof.
  intros [_ Hw] Hb Hs. unfold l_connect. destruct (Hw Hb Hs) as [-> | ->]; reflexivity.
Qed.

Theorem refused_during_and_after_drain l ops :
  l_wf l -> l_bind l = true ->
  forallb (fun o => negb (is_restart o)) ops = true ->
  (exists l', l_at_drain false l = Some l' /\ l_connect l' = CRefused) /\
  l_connect (l_run (l_shutdown false l) ops) = CRefused.
Proof.
  intros Hw Hb Hf. split.
  - unfold l_at_drain. rewrite Hb. exists (l_close l). split; [reflexivity|].
    assert (Hw' : l_wf (l_close l)) by (apply (l_wf_step l OpClose); exact Hw).
    apply closed_refuses; [exact Hw'| |].
    + destruct l as [bd st so lp fd dr]; cbn in *; subst. unfold l_close, with_state; cbn. destruct st; reflexivity.
    + destruct l as [bd st so lp fd dr]; cbn in *; subst. unfold l_close, with_state; cbn. destruct st; reflexivity.
  - assert (Hw1 : l_wf (l_shutdown false l)) by (apply (l_wf_step l (OpShutdown false)); exact Hw).
    assert (Hw2 : l_wf (l_run (l_shutdown false l) ops)) by (apply l_wf_run; exact Hw1).
    destruct (closed_quiet_run ops _ Hf (shutdown_closes l Hw Hb)) as [Hs _].
    apply closed_refuses; [exact Hw2| |exact Hs].
    rewrite l_bind_run. destruct l as [bd st so lp fd dr]; cbn in *; subst.
    unfold l_shutdown, l_close, l_drain, with_state; cbn. destruct st; reflexivity.
Qed.

Definition stopped_quiet (l : listener) : Prop :=
  (l_state l = LStopped \/ l_state l = LClosed) /\ l_loop l = false.

Lemma stopped_quiet_step l o : is_start o = false -> stopped_quiet l ->
  stopped_quiet (l_step l o) /\ l_fd (l_step l o) = l_fd l.
Proof.
  intros Ho [Hs Hl]. destruct l as [bd st so lp fd dr]. cbn in Hs, Hl. subst.
  destruct o as [r|u| |]; cbn in *; try discriminate;
    unfold stopped_quiet, l_shutdown, l_stop_accept, l_close, l_drain, with_state; cbn;
    destruct Hs as [-> | ->]; try destruct u; destruct bd; cbn; repeat split; auto.
Qed.

Lemma stopped_quiet_run ops : forall l, forallb (fun o => negb (is_start o)) ops = true ->
  stopped_quiet l -> stopped_quiet (l_run l ops) /\ l_fd (l_run l ops) = l_fd l.
Proof.
  induction ops as [|o ops IH]; intros l Hf H; [split; [exact H|reflexivity]|].
  change (l_run l (o :: ops)) with (l_run (l_step l o) ops).
  cbn in Hf. apply andb_true_iff in Hf as [Ho Hf].
  assert (Ho' : is_start o = false) by (destruct (is_start o); [discriminate|reflexivity]).
  destruct (stopped_quiet_step l o Ho' H) as [H1 H2].
  destruct (IH _ Hf H1) as [H3 H4]. split; [exact H3|]. rewrite H4. exact H2.
Qed.

Lemma stop_accept_quiet l : l_wf l -> l_bind l = true ->
  stopped_quiet (l_shutdown true l) /\ l_fd (l_shutdown true l) = l_fd l /\
  (l_sock l <> SClosed -> l_sock (l_shutdown true l) <> SClosed).
Proof.
  intros [Hw _] Hb. destruct l as [bd st so lp fd dr]. cbn in Hb. subst. cbn in Hw.
  unfold stopped_quiet, l_shutdown, l_stop_accept, l_drain, with_state; cbn.
  destruct st; cbn; repeat split; auto; try (destruct so; cbn; congruence);
    destruct lp; try reflexivity; destruct (Hw eq_refl); discriminate.
Qed.

(* upgrade: after stopAccept the old process accepts nothing until a Start, the listening socket keeps its identity
   and is not closed by the Shutdown itself (the new process that inherited it goes on accepting) *)
Theorem no_new_after_stop_accept l ops :
  l_wf l -> l_bind l = true ->
  forallb (fun o => negb (is_start o)) ops = true ->
  l_accepts (l_run (l_shutdown true l) ops) = false /\
  l_fd (l_run (l_shutdown true l) ops) = l_fd l /\
  (l_sock l <> SClosed -> l_sock (l_shutdown true l) <> SClosed).
Proof.
  intros Hw Hb Hf. destruct (stop_accept_quiet l Hw Hb) as (Hq & Hfd & Hs).
  destruct (stopped_quiet_run ops _ Hf Hq) as [[_ Hl] Hfd2].
  split; [unfold l_accepts; rewrite Hl; reflexivity|]. split; [rewrite Hfd2; exact Hfd|exact Hs].
Qed.

(* ------------------------------------------------------------------ 2. drain loop *)
Definition increasing (pt : nat -> nat) : Prop := forall i, pt i < pt (S i).

Lemma increasing_ge pt : increasing pt -> forall i, pt 0 + i <= pt i.
Proof. intros H i. induction i as [|i IH]; [lia|]. specialize (H i). lia. Qed.

Lemma increasing_mono pt : increasing pt -> forall i j, i <= j -> pt i <= pt j.
Proof. intros H i j Hij. induction Hij as [|j Hij IH]; [lia|]. specialize (H j). lia. Qed.

Definition exit_cond (g : nat -> nat) (pt : nat -> nat) (max k : nat) : bool :=
  orb (g (pt k) =? 0) (max <? pt k - pt 0).

Lemma drain_loop_total g pt max : increasing pt -> forall fuel k,
  max + 1 < k + fuel -> k <= max + 1 -> drain_loop g pt max fuel k <> None.
Proof.
  intros Hi. induction fuel as [|f IH]; intros k H1 H2; [lia|]. cbn [drain_loop].
  destruct (orb (g (pt k) =? 0) (max <? pt k - pt 0)) eqn:E; [discriminate|].
  apply orb_false_iff in E as [_ E]. apply Nat.ltb_ge in E.
  pose proof (increasing_ge pt Hi k). apply IH; lia.
Qed.

Lemma drain_loop_spec g pt max : forall fuel k e,
  drain_loop g pt max fuel k = Some e ->
  k <= e /\ exit_cond g pt max e = true /\ forall j, k <= j < e -> exit_cond g pt max j = false.
Proof.
  induction fuel as [|f IH]; intros k e H; [discriminate|]. cbn [drain_loop] in H.
  destruct (orb (g (pt k) =? 0) (max <? pt k - pt 0)) eqn:E.
  - injection H as <-. split; [lia|]. split; [exact E|]. intros j Hj; lia.
  - destruct (IH _ _ H) as (H1 & H2 & H3). split; [lia|]. split; [exact H2|].
    intros j Hj. destruct (Nat.eq_dec j k) as [->|Hne]; [exact E|]. apply H3. lia.
Qed.

(* the loop always ends: fuel exhaustion is unreachable *)
Theorem drain_exit_total rs pt max : increasing pt -> drain_exit rs pt max <> None.
Proof. intros Hi. unfold drain_exit. apply drain_loop_total; [exact Hi|lia|lia]. Qed.

Lemma gauge_pos rs r t : In r rs -> r_active r t = true -> 0 < gauge rs t.
Proof.
  intros Hin Ha. unfold gauge.
  assert (In r (filter (fun r => r_active r t) rs)) as H by (apply filter_In; split; assumption).
  destruct (filter (fun r0 => r_active r0 t) rs); [contradiction|cbn; lia].
Qed.

(* MAIN: wherever the signal falls while request r has a stream (waiting for the upstream, reply half written), if what
   remains of r fits into the drain time then Shutdown returns only after r's reply was written - for every set of
   concurrent requests and every poll schedule *)
Theorem inflight_complete rs pt max r e :
  increasing pt -> In r rs ->
  r_active r (pt 0) = true ->
  r_done r - pt 0 <= max ->
  drain_exit rs pt max = Some e ->
  r_done r <= pt e.
Proof.
  intros Hi Hin Ha Hrem He. unfold drain_exit in He.
  destruct (drain_loop_spec _ _ _ _ _ _ He) as (_ & Hc & _).
  destruct (le_lt_dec (r_done r) (pt e)) as [|Hlt]; [assumption|exfalso].
  unfold r_active in Ha. apply andb_true_iff in Ha as [Ha1 Ha2].
  apply Nat.leb_le in Ha1. apply Nat.ltb_lt in Ha2.
  pose proof (increasing_mono pt Hi 0 e ltac:(lia)) as Hm.
  assert (Hact : r_active r (pt e) = true).
  { unfold r_active. apply andb_true_iff. split; [apply Nat.leb_le; lia|apply Nat.ltb_lt; lia]. }
  pose proof (gauge_pos rs r (pt e) Hin Hact) as Hg.
  unfold exit_cond in Hc. apply orb_true_iff in Hc as [Hc|Hc].
  - apply Nat.eqb_eq in Hc. lia.
  - apply Nat.ltb_lt in Hc. lia.
Qed.

(* per protocol: once the request is a stream - whole request sent for bolt and HTTP/1.1, HEADERS sent for HTTP/2 - it is
   waited for *)
Lemma req_of_done x : x_wf x -> stream_at x <= x_done x -> r_done (req_of x) = x_done x.
Proof.
  intros (H1 & H2 & H3) H4. unfold r_done, req_of; cbn.
  assert (x_first x <= stream_at x) by (unfold stream_at; destruct (x_proto x); lia). lia.
Qed.

Theorem inflight_complete_proto xs pt max x e :
  increasing pt -> In x xs -> x_wf x ->
  stream_at x <= pt 0 -> pt 0 < x_done x ->
  x_done x - pt 0 <= max ->
  drain_exit (map req_of xs) pt max = Some e ->
  x_done x <= pt e.
Proof.
  intros Hi Hin Hw Hs Hd Hrem He.
  assert (Hsd : stream_at x <= x_done x) by lia.
  pose proof (req_of_done x Hw Hsd) as Hdone.
  rewrite <- Hdone. apply (inflight_complete (map req_of xs) pt max (req_of x) e Hi).
  - apply in_map. exact Hin.
  - unfold r_active. rewrite Hdone. unfold r_decoded, req_of; cbn.
    destruct Hw as (H1 & H2 & H3).
    assert (x_first x <= stream_at x) by (unfold stream_at; destruct (x_proto x); lia).
    apply andb_true_iff. split; [apply Nat.leb_le; lia|apply Nat.ltb_lt; lia].
  - rewrite Hdone. exact Hrem.
  - exact He.
Qed.

(* the loop does not overstay: every poll before the exit was within the drain time and saw an active request *)
Theorem drain_no_overstay rs pt max e :
  drain_exit rs pt max = Some e -> forall j, j < e -> pt j - pt 0 <= max /\ 0 < gauge rs (pt j).
Proof.
  intros He j Hj. unfold drain_exit in He.
  destruct (drain_loop_spec _ _ _ _ _ _ He) as (_ & _ & Hb). specialize (Hb j ltac:(lia)).
  unfold exit_cond in Hb. apply orb_false_iff in Hb as [H1 H2].
  apply Nat.eqb_neq in H1. apply Nat.ltb_ge in H2. lia.
Qed.

(* ------------------------------------------------------------------ 3. transfer codec *)
Open Scope N_scope.

Lemma u32_lt n : u32 n < 4294967296.
Proof. unfold u32. apply N.mod_lt. discriminate. Qed.

Lemma be4 v : v < 4294967296 -> be_dec (be_enc 4 v) = v.
Proof. intros H. apply be_enc_small. exact H. Qed.

Lemma build_head_len s1 s2 : blen (build_head s1 s2) = 8.
Proof. unfold build_head. rewrite blen_app, !be_enc_blen. reflexivity. Qed.

Lemma build_head_length s1 s2 : length (build_head s1 s2) = 8%nat.
Proof. unfold build_head. rewrite app_length, !be_enc_length. reflexivity. Qed.

Lemma parse_build_head s1 s2 rest :
  parse_head (build_head s1 s2 ++ rest) = Some (u32 s1, u32 s2).
Proof.
  unfold parse_head. rewrite blen_app, build_head_len.
  destruct (8 + blen rest <? 8) eqn:E; [apply N.ltb_lt in E; lia|].
  rewrite !sub_app by (rewrite ?build_head_len; lia).
  unfold build_head.
  set (A := be_enc 4 (u32 s1)). set (B := be_enc 4 (u32 s2)).
  assert (HA : blen A = 4) by (unfold A; rewrite be_enc_blen; reflexivity).
  assert (HB : blen B = 4) by (unfold B; rewrite be_enc_blen; reflexivity).
  assert (E1 : sub (A ++ B) 0 4 = A).
  { rewrite sub_0. rewrite <- HA. apply takeN_app_exact. }
  assert (E2 : sub (A ++ B) 4 8 = B).
  { pose proof (sub_mid A B []) as H. rewrite app_nil_r, HA, HB in H. exact H. }
  rewrite E1, E2. unfold A, B. rewrite !be4 by apply u32_lt. reflexivity.
Qed.

Lemma u32_small n : n < 4294967296 -> u32 n = n.
Proof. intros H. unfold u32. apply N.mod_small. exact H. Qed.

(* parse (build m) = m for the transfer-read message, any bytes may follow on the socket; lengths up to the uint32 width *)
Theorem read_msg_roundtrip data tls rest :
  blen data < 4294967296 -> blen tls < 4294967296 ->
  parse_read_msg (build_read_msg data tls ++ rest) = RecvOk (data, tls) rest.
Proof.
  intros Hd Ht. unfold parse_read_msg, build_read_msg.
  rewrite <- app_assoc. rewrite parse_build_head. rewrite !u32_small by assumption.
  replace (dropN 8 (build_head (blen data) (blen tls) ++ (data ++ tls) ++ rest)) with ((data ++ tls) ++ rest).
  2:{ rewrite <- (build_head_len (blen data) (blen tls)) at 1. rewrite dropN_app_exact. reflexivity. }
  destruct (blen ((data ++ tls) ++ rest) <? blen data + blen tls) eqn:E.
  { apply N.ltb_lt in E. rewrite !blen_app in E. lia. }
  f_equal.
  - f_equal.
    + rewrite <- app_assoc. apply takeN_app_exact.
    + rewrite <- app_assoc. pose proof (sub_mid data tls rest) as H. exact H.
  - rewrite <- blen_app. apply dropN_app_exact.
Qed.

Theorem write_msg_roundtrip id data rest :
  blen data < 4294967296 ->
  parse_write_msg (build_write_msg id data ++ rest) = RecvOk (u32 id, data) rest.
Proof.
  intros Hd. unfold parse_write_msg, build_write_msg.
  rewrite <- app_assoc. rewrite parse_build_head. rewrite (u32_small (blen data)) by assumption.
  replace (dropN 8 (build_head (blen data) id ++ data ++ rest)) with (data ++ rest).
  2:{ rewrite <- (build_head_len (blen data) id) at 1. rewrite dropN_app_exact. reflexivity. }
  destruct (blen (data ++ rest) <? blen data) eqn:E.
  { apply N.ltb_lt in E. rewrite blen_app in E. lia. }
  rewrite takeN_app_exact, dropN_app_exact. reflexivity.
Qed.

Theorem id_roundtrip id rest : parse_id (build_id id ++ rest) = RecvOk (u32 id) rest.
Proof.
  unfold parse_id, build_id. rewrite blen_app, be_enc_blen.
  destruct (N.of_nat 4 + blen rest <? 4) eqn:E; [apply N.ltb_lt in E; lia|].
  set (A := be_enc 4 (u32 id)).
  assert (HA : blen A = 4) by (unfold A; rewrite be_enc_blen; reflexivity).
  rewrite <- HA. rewrite takeN_app_exact, dropN_app_exact.
  unfold A. rewrite be4 by apply u32_lt. reflexivity.
Qed.

(* a read message that has not fully arrived blocks the receiver; it is never mis-parsed *)
Theorem read_msg_prefix_blocks data tls n :
  blen data < 4294967296 -> blen tls < 4294967296 ->
  n < blen (build_read_msg data tls) ->
  parse_read_msg (takeN n (build_read_msg data tls)) = RecvBlock.
Proof.
  intros Hd Ht Hn.
  assert (Hlen : blen (takeN n (build_read_msg data tls)) = n) by (apply takeN_length; lia).
  destruct (N.ltb_spec n 8) as [H8|H8].
  - unfold parse_read_msg, parse_head. rewrite Hlen.
    destruct (n <? 8) eqn:E; [reflexivity|]. apply N.ltb_ge in E. lia.
  - (* the 8 head bytes are those of the full message *)
    assert (Hhead : takeN n (build_read_msg data tls) = build_head (blen data) (blen tls) ++ takeN (n - 8) (data ++ tls)).
    { unfold build_read_msg. unfold takeN. rewrite firstn_app.
      pose proof (build_head_length (blen data) (blen tls)) as Hl.
      rewrite firstn_all2 by lia. f_equal. f_equal. lia. }
    unfold parse_read_msg. rewrite Hhead, parse_build_head. rewrite !u32_small by assumption.
    rewrite <- (build_head_len (blen data) (blen tls)) at 1. rewrite dropN_app_exact.
    assert (Hb : blen (takeN (n - 8) (data ++ tls)) = n - 8).
    { apply takeN_length. unfold build_read_msg in Hn. rewrite !blen_app, build_head_len in Hn. rewrite blen_app. lia. }
    destruct (blen (takeN (n - 8) (data ++ tls)) <? blen data + blen tls) eqn:E; [reflexivity|].
    apply N.ltb_ge in E. unfold build_read_msg in Hn. rewrite !blen_app, build_head_len in Hn. lia.
Qed.
Close Scope N_scope.

(* ------------------------------------------------------------------ 4. handover *)
Section Handover.
Context {F : Type}.
Variable parse : bytes -> presult F.
Hypothesis St : stable parse.

Definition prepend (o : list (event F)) (s : cstate F) : cstate F :=
  {| buf := buf s; out := o ++ out s; dead := dead s; stuck := stuck s |}.

Lemma drain_prepend o : forall fuel s, drain parse fuel (prepend o s) = prepend o (drain parse fuel s).
Proof.
  induction fuel as [|k IH]; intros s.
  - cbn [drain]. change (buf (prepend o s)) with (buf s). destruct (buf s); reflexivity.
  - destruct (buf s) as [|x r] eqn:Eb.
    + rewrite !drain_nil by (try exact Eb; cbn [prepend buf]; exact Eb). reflexivity.
    + assert (Hne : buf s <> []) by (rewrite Eb; discriminate).
      assert (Hne' : buf (prepend o s) <> []) by exact Hne.
      destruct (parse (buf s)) as [f n| | |f n] eqn:Ep.
      * rewrite (drain_ok parse k (prepend o s) f n Hne' Ep), (drain_ok parse k s f n Hne Ep).
        rewrite <- IH. unfold prepend. cbn [buf out dead stuck]. rewrite app_assoc. reflexivity.
      * rewrite (drain_needmore parse k (prepend o s) Ep), (drain_needmore parse k s Ep). reflexivity.
      * rewrite (drain_err parse k (prepend o s) Hne' Ep), (drain_err parse k s Hne Ep).
        unfold prepend. cbn [buf out dead stuck]. rewrite app_assoc. reflexivity.
      * rewrite (drain_rep parse k (prepend o s) f n Hne' Ep), (drain_rep parse k s f n Hne Ep).
        rewrite <- IH. unfold prepend. cbn [buf out dead stuck]. rewrite app_assoc. reflexivity.
Qed.

Lemma feed_prepend o s c : feed parse (prepend o s) c = prepend o (feed parse s c).
Proof.
  unfold feed. cbn [prepend dead buf]. destruct (dead s); [reflexivity|].
  rewrite <- drain_prepend. reflexivity.
Qed.

Lemma handover_ok (s : cstate F) tls :
  (blen (buf s) < 4294967296)%N -> (blen tls < 4294967296)%N ->
  handover s tls = Some (fresh_with (buf s), tls).
Proof.
  intros Hb Ht. unfold handover.
  pose proof (read_msg_roundtrip (buf s) tls [] Hb Ht) as H. rewrite app_nil_r in H. rewrite H. reflexivity.
Qed.

(* MAIN: a connection handed over after ANY prefix a of the byte stream a ++ b: the frames the old process extracted from a,
   followed by the frames the new process extracts from the transferred buffer and b, are exactly the frames one process
   extracts from a ++ b; the residual buffer and the closed flag agree too. *)
Theorem handover_stream a b tls :
  let old := feed parse (@init F) a in
  dead old = false ->
  (blen (buf old) < 4294967296)%N -> (blen tls < 4294967296)%N ->
  exists nw, handover old tls = Some (nw, tls) /\
    let fin := feed parse nw b in
    out (feed parse (@init F) (a ++ b)) = out old ++ out fin /\
    buf (feed parse (@init F) (a ++ b)) = buf fin /\
    dead (feed parse (@init F) (a ++ b)) = dead fin /\
    stuck fin = false.
Proof.
  intros old Hd Hb Ht. exists (fresh_with (buf old)). split; [apply handover_ok; assumption|].
  cbn zeta. rewrite <- (feed_feed parse St init a b). fold old.
  assert (Hst : stuck old = false) by (unfold old; rewrite (seg_never_stuck parse St); reflexivity).
  assert (Hold : old = prepend (out old) (fresh_with (buf old))).
  { destruct old as [ob oo od os]. cbn in Hd, Hst. subst. unfold prepend, fresh_with. cbn. rewrite app_nil_r. reflexivity. }
  assert (Hfeed : feed parse old b = prepend (out old) (feed parse (fresh_with (buf old)) b)).
  { rewrite Hold at 1. apply feed_prepend. }
  rewrite Hfeed. cbn [prepend out buf dead].
  repeat split; try reflexivity.
  rewrite (seg_never_stuck parse St). reflexivity.
Qed.

(* the instance a = []: a connection that is IDLE at hand-over (nothing buffered) - the new process starts from the empty
   buffer and extracts exactly the frames one process would *)
Theorem handover_idle b tls :
  (blen tls < 4294967296)%N ->
  exists nw, handover (feed parse (@init F) []) tls = Some (nw, tls) /\ buf nw = [] /\
    out (feed parse (@init F) b) = out (feed parse nw b) /\
    buf (feed parse (@init F) b) = buf (feed parse nw b) /\
    dead (feed parse (@init F) b) = dead (feed parse nw b) /\
    stuck (feed parse nw b) = false.
Proof.
  intros Ht.
  assert (E : feed parse (@init F) [] = @init F) by reflexivity.
  assert (Hk : handover (@init F) tls = Some (fresh_with [], tls)).
  { apply (handover_ok (@init F) tls); [cbn; lia|exact Ht]. }
  pose proof (handover_stream [] b tls) as H. cbv zeta in H. rewrite E in H.
  destruct H as [nw [H1 H2]]; [reflexivity|cbn; lia|exact Ht|].
  rewrite Hk in H1. inversion H1; subst nw. cbn [app out init] in H2. destruct H2 as [Ho [Hb [Hd Hs]]].
  exists (fresh_with []). rewrite E. repeat split; assumption.
Qed.
End Handover.

(* ------------------------------------------------------------------ a concrete framer for the non-vacuity examples:
   one length byte n followed by n payload bytes *)
Definition lp_parse (b : bytes) : presult bytes :=
  match b with
  | [] => PNeedMore
  | n :: r => if (N.to_nat n <=? length r)%nat then POk (firstn (N.to_nat n) r) (S (N.to_nat n)) else PNeedMore
  end.

Lemma lp_stable : stable lp_parse.
Proof.
  constructor.
  - intros b f n H. destruct b as [|x r]; [discriminate|]. cbn [lp_parse] in H.
    destruct (N.to_nat x <=? length r)%nat eqn:E; [|discriminate]. apply Nat.leb_le in E.
    injection H as <- <-. split; [cbn [length]; lia|].
    intros e. cbn [app lp_parse]. rewrite app_length.
    destruct (N.to_nat x <=? length r + length e)%nat eqn:E2; [|apply Nat.leb_gt in E2; lia].
    rewrite firstn_app. replace (N.to_nat x - length r)%nat with 0%nat by lia. cbn [firstn]. rewrite app_nil_r. reflexivity.
  - intros b H. destruct b as [|x r]; [discriminate|]. cbn [lp_parse] in H. destruct (N.to_nat x <=? length r)%nat; discriminate.
  - intros b f n H. destruct b as [|x r]; [discriminate|]. cbn [lp_parse] in H. destruct (N.to_nat x <=? length r)%nat; discriminate.
Qed.

(* ------------------------------------------------------------------ bolt request framing is prefix-stable *)
Open Scope N_scope.
Lemma bolt_req_len_app b e : 22 <= blen b -> bolt_req_len (b ++ e) = bolt_req_len b.
Proof.
  intros H. unfold bolt_req_len. rewrite !sub_app by lia. reflexivity.
Qed.

Lemma bolt_req_stable : stable bolt_req_parse.
Proof.
  constructor.
  - intros b f n H. unfold bolt_req_parse in H.
    destruct (blen b <? 22) eqn:E1; [discriminate|]. apply N.ltb_ge in E1.
    destruct (blen b <? bolt_req_len b) eqn:E2; [discriminate|]. apply N.ltb_ge in E2.
    injection H as <- <-.
    assert (Hpos : 22 <= bolt_req_len b) by (unfold bolt_req_len; lia).
    split; [unfold blen in *; lia|].
    intros e. unfold bolt_req_parse. rewrite blen_app, (bolt_req_len_app b e E1).
    destruct (blen b + blen e <? 22) eqn:E3; [apply N.ltb_lt in E3; lia|].
    destruct (blen b + blen e <? bolt_req_len b) eqn:E4; [apply N.ltb_lt in E4; lia|].
    rewrite takeN_app by lia. reflexivity.
  - intros b H. unfold bolt_req_parse in H.
    destruct (blen b <? 22); [discriminate|]. destruct (blen b <? bolt_req_len b); discriminate.
  - intros b f n H. unfold bolt_req_parse in H.
    destruct (blen b <? 22); [discriminate|]. destruct (blen b <? bolt_req_len b); discriminate.
Qed.

(* with room in the buffer every handed-over connection survives; without, exactly the pool sizes are fatal *)
Lemma survives_with_room n : handed_over_conn_survives true n = true.
Proof. reflexivity. Qed.
Lemma without_room_64_fatal : handed_over_conn_survives false 64 = false /\ handed_over_conn_survives false 4096 = false /\
  handed_over_conn_survives false 63 = true /\ handed_over_conn_survives false 65 = true.
Proof. vm_compute. repeat split; reflexivity. Qed.
Lemma served_when_published n : handed_over_conn_served true true n = true.
Proof. reflexivity. Qed.
Lemma unpublished_idle_never_served : handed_over_conn_served true false 0 = false /\ handed_over_conn_served true false 1 = true.
Proof. vm_compute. split; reflexivity. Qed.
Close Scope N_scope.

(* ------------------------------------------------------------------ a server = a list of listeners: none is skipped *)
Lemma hits_seq s n i : hits (seq s n) i = if andb (s <=? i) (i <? s + n) then 1 else 0.
Proof.
  unfold hits. revert s; induction n as [|n IH]; intros s.
  - cbn [seq count_occ].
    destruct (Nat.leb_spec s i) as [H1|H1]; destruct (Nat.ltb_spec i (s + 0)) as [H2|H2]; cbn [andb]; try reflexivity; lia.
  - cbn [seq count_occ]. rewrite IH.
    destruct (Nat.eq_dec s i) as [He|He];
      destruct (Nat.leb_spec (S s) i) as [H1|H1]; destruct (Nat.ltb_spec i (S s + n)) as [H2|H2];
      destruct (Nat.leb_spec s i) as [H3|H3]; destruct (Nat.ltb_spec i (s + S n)) as [H4|H4];
      cbn [andb]; try reflexivity; lia.
Qed.

Lemma hits_all n i : i < n -> hits (shutdown_targets true n) i = 1.
Proof.
  intros H. unfold shutdown_targets. rewrite hits_seq.
  destruct (Nat.leb_spec 0 i) as [H1|H1]; destruct (Nat.ltb_spec i (0 + n)) as [H2|H2]; cbn [andb]; try reflexivity; lia.
Qed.

Lemma mapi_from_nth {A B} (f : nat -> A -> B) : forall l k i x,
  nth_error l i = Some x -> nth_error (mapi_from f k l) i = Some (f (k + i) x).
Proof.
  induction l as [|y l IH]; intros k i x H; [destruct i; discriminate|].
  destruct i as [|i]; cbn in *.
  - injection H as <-. rewrite Nat.add_0_r. reflexivity.
  - rewrite (IH (S k) i x H). f_equal. f_equal. lia.
Qed.

(* graceful stop of the SERVER: every listener of the list is shut down - refuses connects and has called OnShutdown for its
   connections (go-away + drain) exactly once more *)
Theorem no_listener_skipped ls i l :
  nth_error ls i = Some l -> l_wf l -> l_bind l = true ->
  exists l', nth_error (srv_shutdown true ls) i = Some l' /\ l' = l_shutdown false l /\
             l_connect l' = CRefused /\ l_drains l' = S (l_drains l).
Proof.
  intros Hn Hw Hb. exists (l_shutdown false l).
  assert (Hi : i < length ls) by (apply nth_error_Some; congruence).
  split.
  - unfold srv_shutdown. rewrite (mapi_from_nth _ ls 0 i l Hn). cbn [Nat.add].
    rewrite (hits_all (length ls) i Hi). reflexivity.
  - split; [reflexivity|]. split.
    + destruct (refused_during_and_after_drain l [] Hw Hb eq_refl) as [_ H]. exact H.
    + destruct l as [bd st so lp fd dr]. cbn in Hb. subst. unfold l_shutdown, l_close, l_drain, with_state; cbn.
      destruct st; reflexivity.
Qed.

Lemma srv_return_ge tg pt max : forall rss k t i rs e,
  srv_return_from tg rss pt max k = Some t ->
  nth_error rss i = Some rs -> 0 < hits tg (k + i) -> drain_exit rs pt max = Some e -> pt e <= t.
Proof.
  induction rss as [|rs0 rest IH]; intros k t i rs e H Hn Hh He; [destruct i; discriminate|].
  cbn [srv_return_from] in H.
  destruct (srv_return_from tg rest pt max (S k)) as [t'|] eqn:Er; [|discriminate].
  destruct i as [|i]; cbn in Hn.
  - injection Hn as ->. rewrite Nat.add_0_r in Hh.
    destruct (0 <? hits tg k) eqn:E; [|apply Nat.ltb_ge in E; lia].
    rewrite He in H. injection H as <-. lia.
  - assert (Hle : pt e <= t').
    { apply (IH (S k) t' i rs e Er Hn); [|exact He]. replace (S k + i) with (k + S i) by lia. exact Hh. }
    destruct (0 <? hits tg k); [|injection H as <-; exact Hle].
    destruct (drain_exit rs0 pt max); [|discriminate]. injection H as <-. lia.
Qed.

(* ... and GracefulStopListeners returns only after the in-flight requests of EVERY listener *)
Theorem inflight_complete_all_listeners rss pt max i rs r t :
  increasing pt -> nth_error rss i = Some rs -> In r rs ->
  r_active r (pt 0) = true -> r_done r - pt 0 <= max ->
  srv_return true rss pt max = Some t ->
  r_done r <= t.
Proof.
  intros Hi Hn Hin Ha Hrem Ht.
  destruct (drain_exit rs pt max) as [e|] eqn:He; [|exfalso; exact (drain_exit_total rs pt max Hi He)].
  pose proof (inflight_complete rs pt max r e Hi Hin Ha Hrem He) as Hd.
  assert (Hlt : i < length rss) by (apply nth_error_Some; congruence).
  unfold srv_return in Ht.
  pose proof (srv_return_ge _ pt max rss 0 t i rs e Ht Hn) as H. cbn [Nat.add] in H.
  rewrite (hits_all (length rss) i Hlt) in H. specialize (H ltac:(lia) He). lia.
Qed.

(* ------------------------------------------------------------------ hand-over and the write lock *)
(* invariant of every schedule when the lock is taken before the socket is given away *)
Definition h_inv (w n : bytes) (st : hst) : Prop :=
  exists wd nd, h_wire st = wd ++ nd /\ wd ++ h_old st = w /\ nd ++ h_new st = n /\
                (h_fd st = true -> h_old st = []) /\ (h_fd st = false -> nd = []) /\
                (h_tpc st >= 1 -> h_old st = []).

Lemma h_inv_init w k n : h_inv w n (h_init w k n).
Proof.
  exists (firstn k w), []. unfold h_init; cbn. rewrite app_nil_r, firstn_skipn.
  repeat split; try reflexivity; try discriminate; intros; lia.
Qed.

Ltac h_close := repeat split; intros; try assumption; try reflexivity; try discriminate; try lia; auto.

Lemma h_inv_step w n st a : h_inv w n st -> h_inv w n (h_step true st a).
Proof.
  intros (wd & nd & Hw & Ho & Hn & Hfd & Hnf & Hpc). destruct st as [old pc fd nw wr]; cbn in *.
  destruct a; cbn [h_step h_old h_tpc h_fd h_new h_wire].
  - (* the old writer emits a byte: only possible while the socket is still ours, so nothing of n is out *)
    destruct old as [|x r]; [exists wd, nd; h_close|].
    assert (Hf : fd = false) by (destruct fd; [specialize (Hfd eq_refl); discriminate|reflexivity]). subst fd.
    specialize (Hnf eq_refl). subst nd. rewrite app_nil_r in Hw. subst wr.
    exists (wd ++ [x]), []. cbn. rewrite app_nil_r, <- app_assoc. cbn.
    split; [reflexivity|]. split; [exact Ho|]. split; [exact Hn|]. split; [discriminate|]. split; [reflexivity|].
    intros Hp. specialize (Hpc Hp). discriminate.
  - unfold t_step; cbn [h_old h_tpc h_fd h_new h_wire].
    destruct pc as [|[|pc]]; cbn [h_old h_tpc h_fd h_new h_wire].
    + destruct old as [|x r]; cbn [is_nil h_old h_tpc h_fd h_new h_wire]; exists wd, nd; h_close.
    + assert (Hold : old = []) by (apply Hpc; lia). subst old.
      exists wd, nd. h_close.
    + exists wd, nd. h_close.
  - destruct fd; [|exists wd, nd; h_close].
    destruct nw as [|x r]; [exists wd, nd; h_close|].
    exists wd, (nd ++ [x]). cbn [h_old h_tpc h_fd h_new h_wire].
    split; [rewrite Hw, <- app_assoc; reflexivity|]. split; [exact Ho|].
    split; [rewrite <- app_assoc; exact Hn|]. split; [exact Hfd|]. split; [discriminate|exact Hpc].
Qed.

Lemma h_inv_run w n sched : forall st, h_inv w n st -> h_inv w n (fold_left (h_step true) sched st).
Proof. induction sched as [|a sched IH]; intros st H; cbn; [exact H|]. apply IH. apply h_inv_step. exact H. Qed.

(* MAIN: for EVERY schedule of the old writer, transfer() and the new side - wherever the old write had got when transfer()
   was called -: what is on the wire is a prefix of w followed by a prefix of n, and no byte of the new side is written
   before the last byte of the old write that was in progress *)
Theorem new_side_waits_for_old_write w k n sched :
  let st := h_run true w k n sched in
  exists wd nd, h_wire st = wd ++ nd /\ wd ++ h_old st = w /\ nd ++ h_new st = n /\ (nd <> [] -> wd = w).
Proof.
  cbn zeta. destruct (h_inv_run w n sched _ (h_inv_init w k n)) as (wd & nd & Hw & Ho & Hn & Hfd & Hnf & _).
  exists wd, nd. repeat split; try assumption.
  intros Hne. destruct (h_fd (h_run true w k n sched)) eqn:E.
  - unfold h_run in *. rewrite (Hfd E) in Ho. rewrite app_nil_r in Ho. exact Ho.
  - unfold h_run in *. specialize (Hnf E). contradiction.
Qed.

Corollary wire_complete w k n sched :
  h_old (h_run true w k n sched) = [] -> h_new (h_run true w k n sched) = [] -> h_wire (h_run true w k n sched) = w ++ n.
Proof.
  intros H1 H2. destruct (new_side_waits_for_old_write w k n sched) as (wd & nd & Hw & Ho & Hn & _).
  rewrite H1, app_nil_r in Ho. rewrite H2, app_nil_r in Hn. subst. exact Hw.
Qed.
