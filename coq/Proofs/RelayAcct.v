(* Proofs about Model/RelayAcct.v (C10, L4 connection accounting).  Nothing here depends on Gen/*.v: the lemmas are proved
   for the two shapes of the accounting that are constants of the model (sw_repaired, sw_old); Props/C10_relay.v compares the
   generated src_sw with sw_repaired by conversion. *)
From Coq Require Import List ZArith Bool Lia ZifyBool.
From MV Require Import Model.RelayAcct.
Import ListNotations.
Open Scope Z_scope.

(* ------------------------------------------------------------------ sums over the session list *)
Lemma sumf_app f a b : sumf f (a ++ b) = sumf f a + sumf f b.
Proof. induction a as [|x a IH]; cbn; [reflexivity|lia]. Qed.

Lemma sumf_upd f l : forall i old new, nth_error l i = Some old ->
  sumf f (upd l i new) = sumf f l + (f new - f old).
Proof.
  induction l as [|y l IH]; intros [|i] old new H; cbn in *; try discriminate.
  - inversion H; subst. lia.
  - rewrite (IH _ _ _ H). lia.
Qed.

Lemma nth_upd_same {A} (l : list A) : forall i old new, nth_error l i = Some old -> nth_error (upd l i new) i = Some new.
Proof. induction l as [|y l IH]; intros [|i] old new H; cbn in *; try discriminate; eauto. Qed.
Lemma nth_upd_other {A} (l : list A) : forall i j new, i <> j -> nth_error (upd l i new) j = nth_error l j.
Proof. induction l as [|y l IH]; intros [|i] [|j] new H; cbn in *; try congruence; auto. Qed.

Lemma Forall_upd {A} (P : A -> Prop) (l : list A) : forall i new, Forall P l -> P new -> Forall P (upd l i new).
Proof.
  induction l as [|y l IH]; intros [|i] new Hl Hn; cbn; auto; inversion Hl; subst; constructor; auto.
Qed.

(* ------------------------------------------------------------------ globals are the sums of what the sessions hold *)
Definition Sums (g : gst) : Prop :=
  res g = sumf h_res (ss g) /\ g_host g = sumf h_host (ss g) /\ g_clu g = sumf h_clu (ss g) /\ g_down g = sumf h_down (ss g).

Lemma commit_sums g i old new ovf : Sums g -> nth_error (ss g) i = Some old -> Sums (commit g i old new ovf).
Proof.
  intros (A & B & C & D) H. unfold Sums, commit. cbn [res g_host g_clu g_down ss].
  rewrite !(sumf_upd _ _ _ _ _ H). lia.
Qed.

Lemma step_sums w c g e : Sums g -> Sums (step w c g e).
Proof.
  intros S. destruct e as [|i|i o|i|n|i]; cbn [step].
  - destruct S as (A & B & C & D). unfold Sums. cbn [res g_host g_clu g_down ss]. rewrite !sumf_app. cbn. lia.
  - destruct (nth_error (ss g) i) as [s|] eqn:E; [|exact S]. destruct (ph s); try exact S.
    destruct (can_create (g_max g) (res g)); [destruct (tries c)|]; apply commit_sums; assumption.
  - destruct (nth_error (ss g) i) as [s|] eqn:E; [|exact S]. destruct (ph s) as [|[|k]| |]; try exact S.
    apply commit_sums; assumption.
  - destruct (nth_error (ss g) i) as [s|] eqn:E; [|exact S]. destruct (ph s); try exact S. apply commit_sums; assumption.
  - exact S.
  - destruct (nth_error (ss g) i) as [s|] eqn:E; [|exact S]. destruct (ph s); try exact S; apply commit_sums; assumption.
Qed.

Lemma fold_sums w c evs : forall g, Sums g -> Sums (fold_left (step w c) evs g).
Proof. induction evs as [|e evs IH]; cbn; intros g S; [exact S|]. apply IH, step_sums, S. Qed.

Lemma run_sums w c evs : Sums (run w c evs).
Proof. apply fold_sums. unfold Sums; cbn. lia. Qed.

(* ------------------------------------------------------------------ what a session holds, by phase *)
(* (for the resource manager that always counts) *)
Definition SessOk (w : sw) (s : sess) : Prop :=
  match ph s with
  | Accepted | Dialing _ => (acct_before w = false -> hs s = false) /\ h_res s = 0 /\ h_host s = 0 /\ h_clu s = 0 /\ h_down s = 1
  | Live => hs s = true /\ h_res s = 1 /\ h_host s = 1 /\ h_clu s = 1 /\ h_down s = 1
  | Done => h_res s = 0 /\ h_host s = 0 /\ h_clu s = 0 /\ h_down s = 0
  end.

(* the phase after a connect attempt does not depend on the accounting *)
Lemma dial_phase w c s k o :
  ph (dial w c s k o) =
  match o with ConnOk => Live | ConnOkEarly => Done | _ => match k with O => Done | S _ => Dialing k end end.
Proof. destruct o, k; reflexivity. Qed.

Definition okb_all (o : outcome) : bool := true.

Ltac dial_tac :=
  cbv [dial undo set_res set_hs add_gauges set_ph close_d SessOk sw_repaired bump
       acct_before gauges_before err_decreases err_undoes_gauges err_unsets_host timeout_finalizes counts_unlimited
       ph hs h_res h_host h_clu h_down andb negb];
  repeat split; intros; try discriminate; try reflexivity; try lia.

(* repaired shape: every outcome, the early close included, whatever the limit is at that moment *)
Lemma dial_ok_repaired mx s k o : ph s = Dialing (S k) -> SessOk sw_repaired s -> SessOk sw_repaired (dial sw_repaired mx s k o).
Proof.
  intros Hp Hs. unfold SessOk in Hs. rewrite Hp in Hs. destruct Hs as (_ & H2 & H3 & H4 & H5).
  destruct s as [p h r ho cl dn]. cbn [ph hs h_res h_host h_clu h_down] in *. subst.
  destruct o, k; dial_tac.
Qed.

Section Generic.
Variable w : sw.
Variable okb : outcome -> bool.
Hypothesis Hcnt : counts_unlimited w = true.
Hypothesis Hdial : forall mx s k o, okb o = true -> ph s = Dialing (S k) -> SessOk w s -> SessOk w (dial w mx s k o).

Definition allowed (e : event) : bool := match e with Dial _ o => okb o | _ => true end.

Lemma finish_ok mx s : ph s = Live -> SessOk w s -> SessOk w (finish w mx s).
Proof.
  intros Hp Hs. unfold SessOk in Hs. rewrite Hp in Hs. destruct Hs as (H1 & H2 & H3 & H4 & H5).
  unfold finish, SessOk, bump. cbn. rewrite Hcnt, H1, H2, H3, H4, H5. repeat split; lia.
Qed.

Lemma close_d_ok s : (ph s = Accepted \/ exists k, ph s = Dialing k) -> SessOk w s -> SessOk w (close_d s).
Proof.
  intros Hp Hs. unfold SessOk in Hs.
  assert (H : (acct_before w = false -> hs s = false) /\ h_res s = 0 /\ h_host s = 0 /\ h_clu s = 0 /\ h_down s = 1)
    by (destruct Hp as [Hp|[k Hp]]; rewrite Hp in Hs; exact Hs).
  destruct H as (H1 & H2 & H3 & H4 & H5). unfold close_d, SessOk. cbn. repeat split; lia.
Qed.

Definition AllOk (g : gst) : Prop := Forall (SessOk w) (ss g).

Lemma nth_Forall {A} (P : A -> Prop) l i x : Forall P l -> nth_error l i = Some x -> P x.
Proof. intros H E. rewrite Forall_forall in H. apply H. eapply nth_error_In; eassumption. Qed.

Lemma step_allok c g e : allowed e = true -> AllOk g -> AllOk (step w c g e).
Proof.
  intros Hw A. unfold AllOk in *. destruct e as [|i|i o|i|n|i]; cbn [step].
  - cbn [ss]. apply Forall_app. split; [exact A|]. constructor; [|constructor]. unfold SessOk; cbn. repeat split; auto; lia.
  - destruct (nth_error (ss g) i) as [s|] eqn:E; [|exact A]. pose proof (nth_Forall _ _ _ _ A E) as Hs.
    destruct (ph s) eqn:Hp; try exact A.
    destruct (can_create (g_max g) (res g)); [destruct (tries c) eqn:Ht|]; unfold commit; cbn [ss]; apply Forall_upd; try exact A.
    + apply close_d_ok; [now left|exact Hs].
    + unfold SessOk, set_ph in *. rewrite Hp in Hs. cbn. exact Hs.
    + apply close_d_ok; [now left|exact Hs].
  - destruct (nth_error (ss g) i) as [s|] eqn:E; [|exact A]. pose proof (nth_Forall _ _ _ _ A E) as Hs.
    destruct (ph s) as [|[|k]| |] eqn:Hp; try exact A.
    unfold commit; cbn [ss]; apply Forall_upd; [exact A|]. apply Hdial; try assumption.
  - destruct (nth_error (ss g) i) as [s|] eqn:E; [|exact A]. pose proof (nth_Forall _ _ _ _ A E) as Hs.
    destruct (ph s) eqn:Hp; try exact A. unfold commit; cbn [ss]; apply Forall_upd; [exact A|]. now apply finish_ok.
  - exact A.
  - destruct (nth_error (ss g) i) as [s|] eqn:E; [|exact A]. pose proof (nth_Forall _ _ _ _ A E) as Hs.
    destruct (ph s) eqn:Hp; try exact A; unfold commit; cbn [ss]; apply Forall_upd; try exact A.
    + apply close_d_ok; [now left|exact Hs].
    + now apply finish_ok.
Qed.

Lemma fold_allok c evs : forall g, forallb allowed evs = true -> AllOk g -> AllOk (fold_left (step w c) evs g).
Proof.
  induction evs as [|e evs IH]; cbn; intros g Hn A; [exact A|].
  apply andb_true_iff in Hn. destruct Hn as [He Hn]. apply IH; [exact Hn|]. now apply step_allok.
Qed.

Lemma run_allok c evs : forallb allowed evs = true -> AllOk (run w c evs).
Proof. intros Hn. apply fold_allok; [assumption|constructor]. Qed.

(* sums of well-formed sessions are counts *)
Lemma sums_counts l : Forall (SessOk w) l ->
  sumf h_res l = count is_live l /\ sumf h_host l = count is_live l /\ sumf h_clu l = count is_live l /\
  sumf h_down l = count (fun s => negb (is_done s)) l /\
  0 <= count is_live l /\ 0 <= count (fun s => negb (is_done s)) l.
Proof.
  induction 1 as [|s l Hs Hl IH]; [unfold count; cbn; lia|]. unfold count in *. cbn [sumf].
  destruct IH as (A & B & C & D & E & F). unfold SessOk, is_live, is_done in *.
  destruct (ph s); cbn [negb].
  - destruct Hs as (H1 & H2 & H3 & H4 & H5). rewrite H2, H3, H4, H5. repeat split; lia.
  - destruct Hs as (H1 & H2 & H3 & H4 & H5). rewrite H2, H3, H4, H5. repeat split; lia.
  - destruct Hs as (H1 & H2 & H3 & H4 & H5). rewrite H2, H3, H4, H5. repeat split; lia.
  - destruct Hs as (H2 & H3 & H4 & H5). rewrite H2, H3, H4, H5. repeat split; lia.
Qed.

(* the statement of c10_l4_conserved *)
Lemma l4_conserved c evs : forallb allowed evs = true ->
  let g := run w c evs in
  (* every session holds 0 or 1 of each counter, and nothing once it is over *)
  Forall (fun s => 0 <= h_res s <= 1 /\ 0 <= h_host s <= 1 /\ 0 <= h_clu s <= 1 /\ 0 <= h_down s <= 1 /\
                   (is_done s = true -> h_res s = 0 /\ h_host s = 0 /\ h_clu s = 0 /\ h_down s = 0)) (ss g) /\
  (* the counters are the sums of what the sessions hold, hence ... *)
  res g = sumf h_res (ss g) /\ g_host g = sumf h_host (ss g) /\ g_clu g = sumf h_clu (ss g) /\ g_down g = sumf h_down (ss g) /\
  (* ... equal to the number of sessions that are relaying / not over, never negative, and zero when idle *)
  res g = count is_live (ss g) /\ g_host g = count is_live (ss g) /\ g_clu g = count is_live (ss g) /\
  g_down g = count (fun s => negb (is_done s)) (ss g) /\
  0 <= res g /\ 0 <= g_host g /\ 0 <= g_clu g /\ 0 <= g_down g /\
  (forallb is_done (ss g) = true -> res g = 0 /\ g_host g = 0 /\ g_clu g = 0 /\ g_down g = 0).
Proof.
  intros Hn g. pose proof (run_sums w c evs) as (S1 & S2 & S3 & S4). pose proof (run_allok c evs Hn) as A.
  fold g in S1, S2, S3, S4, A. unfold AllOk in A. pose proof (sums_counts _ A) as (C1 & C2 & C3 & C4 & C5 & C6).
  split.
  { eapply Forall_impl; [|exact A]. intros s Hs. unfold SessOk in Hs. unfold is_done.
    destruct (ph s).
    - destruct Hs as (_ & H2 & H3 & H4 & H5). repeat split; intros; try lia; try discriminate.
    - destruct Hs as (_ & H2 & H3 & H4 & H5). repeat split; intros; try lia; try discriminate.
    - destruct Hs as (_ & H2 & H3 & H4 & H5). repeat split; intros; try lia; try discriminate.
    - destruct Hs as (H2 & H3 & H4 & H5). repeat split; intros; try lia; try discriminate. }
  repeat (split; [first [assumption | lia | nia]|]).
  intros Hd.
  assert (Z1 : count is_live (ss g) = 0 /\ count (fun s => negb (is_done s)) (ss g) = 0).
  { clear - Hd. unfold count. induction (ss g) as [|s l IH]; cbn in *; [lia|].
    apply andb_true_iff in Hd. destruct Hd as [Hs Hl]. destruct (IH Hl) as [I1 I2].
    unfold is_done, is_live in *. destruct (ph s); cbn; try discriminate; lia. }
  destruct Z1 as [Z1 Z2]. rewrite S1, S2, S3, S4, C1, C2, C3, C4, Z1, Z2. lia.
Qed.

(* ------------------------------------------------------------------ the breaker threshold *)
Lemma count_upd f l i old new : nth_error l i = Some old ->
  count f (upd l i new) = count f l + ((if f new then 1 else 0) - (if f old then 1 else 0)).
Proof. intros H. unfold count. now rewrite (sumf_upd _ _ _ _ _ H). Qed.
Lemma count_app f a b : count f (a ++ b) = count f a + count f b.
Proof. apply sumf_app. Qed.
Lemma count_nonneg f l : 0 <= count f l.
Proof. unfold count. induction l as [|s l IH]; cbn; [lia|]. destruct (f s); lia. Qed.

(* the limit stays what it was configured to when no update happens *)
Lemma step_max c g e : is_setmax e = false -> g_max (step w c g e) = g_max g.
Proof.
  intros He. destruct e as [|i|i o|i|n|i]; cbn [step]; try reflexivity; try discriminate;
    repeat match goal with |- context [match ?x with _ => _ end] => destruct x end; reflexivity.
Qed.

Definition SerInv (g : gst) : Prop :=
  count is_dialing (ss g) <= 1 /\ count is_live (ss g) + count is_dialing (ss g) <= g_max g.

Lemma step_serinv c g e : 0 < g_max g -> is_setmax e = false -> AllOk g -> Sums g ->
  (match e with Admit _ => count is_dialing (ss g) =? 0 | _ => true end) = true ->
  SerInv g -> SerInv (step w c g e).
Proof.
  intros Hm Hnm A S Hser [I1 I2]. unfold SerInv. rewrite (step_max c g e Hnm).
  pose proof (sums_counts _ A) as (C1 & _ & _ & _ & C5 & _).
  assert (Hres : res g = count is_live (ss g)) by (destruct S as (S1 & _); now rewrite S1, C1).
  destruct e as [|i|i o|i|n|i]; cbn [step]; try discriminate Hnm.
  - cbn [ss]. rewrite !count_app.
    replace (count is_dialing [mkS Accepted false 0 0 0 1]) with 0 by reflexivity.
    replace (count is_live [mkS Accepted false 0 0 0 1]) with 0 by reflexivity. lia.
  - destruct (nth_error (ss g) i) as [s|] eqn:E; [|split; assumption]. destruct (ph s) eqn:Hp; try (split; assumption).
    apply Z.eqb_eq in Hser.
    destruct (can_create (g_max g) (res g)) eqn:Hc; [destruct (tries c) eqn:Ht|]; unfold commit; cbn [ss];
      rewrite !(count_upd _ _ _ _ _ E); unfold is_live, is_dialing, close_d, set_ph in *; cbn [ph]; rewrite Hp; try lia.
    all: unfold can_create in Hc; lia.
  - destruct (nth_error (ss g) i) as [s|] eqn:E; [|split; assumption]. destruct (ph s) as [|[|k]| |] eqn:Hp; try (split; assumption).
    unfold commit; cbn [ss]; rewrite !(count_upd _ _ _ _ _ E). unfold is_live, is_dialing in *. rewrite Hp.
    rewrite (dial_phase w (g_max g) s k o). destruct o, k; lia.
  - destruct (nth_error (ss g) i) as [s|] eqn:E; [|split; assumption]. destruct (ph s) eqn:Hp; try (split; assumption).
    unfold commit; cbn [ss]; rewrite !(count_upd _ _ _ _ _ E). unfold is_live, is_dialing, finish in *. cbn [ph]. rewrite Hp. lia.
  - destruct (nth_error (ss g) i) as [s|] eqn:E; [|split; assumption]. destruct (ph s) eqn:Hp; try (split; assumption);
    unfold commit; cbn [ss]; rewrite !(count_upd _ _ _ _ _ E); unfold is_live, is_dialing, finish, close_d in *; cbn [ph]; rewrite Hp; lia.
Qed.

Lemma fold_serinv c evs : forall g, 0 < g_max g ->
  forallb allowed evs = true -> no_setmax evs = true -> serial_from w c g evs = true -> AllOk g -> Sums g -> SerInv g ->
  SerInv (fold_left (step w c) evs g) /\ g_max (fold_left (step w c) evs g) = g_max g.
Proof.
  induction evs as [|e evs IH]; cbn; intros g Hm Hn Hx Hs A S I; [split; [exact I|reflexivity]|].
  apply andb_true_iff in Hn. destruct Hn as [He Hn].
  apply andb_true_iff in Hx. destruct Hx as [Hx1 Hx2]. apply negb_true_iff in Hx1.
  apply andb_true_iff in Hs. destruct Hs as [Hs1 Hs2].
  pose proof (step_max c g e Hx1) as Hmx.
  destruct (IH (step w c g e)) as [J1 J2]; try assumption.
  - now rewrite Hmx.
  - now apply step_allok.
  - now apply step_sums.
  - apply step_serinv; assumption.
  - split; [exact J1|]. now rewrite J2.
Qed.

(* with serialised admissions and no change of the limit the resource never exceeds max_connections *)
Lemma l4_threshold_bound c evs : 0 < maxc c -> forallb allowed evs = true -> no_setmax evs = true ->
  serial_from w c (g0 c) evs = true -> res (run w c evs) <= maxc c.
Proof.
  intros Hm Hn Hx Hs.
  destruct (fold_serinv c evs (g0 c)) as [I Imax]; try assumption; try (cbn; assumption).
  - constructor.
  - unfold Sums; cbn; lia.
  - unfold SerInv, count; cbn; lia.
  - fold (run w c evs) in I, Imax. cbn [g0 g_max] in Imax.
    pose proof (run_sums w c evs) as (S1 & _). pose proof (run_allok c evs Hn) as A.
    pose proof (sums_counts _ A) as (C1 & _). destruct I as [I1 I2].
    pose proof (count_nonneg is_dialing (ss (run w c evs))).
    rewrite S1, C1. lia.
Qed.

(* the admission decision itself, in every reachable state (whatever the history did to the limit): refused exactly when the
   resource has reached the limit in force *)
Lemma l4_admission c evs i s :
  let g := run w c evs in
  forallb allowed evs = true -> 0 < g_max g ->
  nth_error (ss g) i = Some s -> ph s = Accepted ->
  let g' := step w c g (Admit i) in
  (res g < g_max g -> overflows g' = overflows g /\
       exists s', nth_error (ss g') i = Some s' /\ ph s' = match tries c with O => Done | S _ => Dialing (tries c) end) /\
  (g_max g <= res g -> overflows g' = S (overflows g) /\ exists s', nth_error (ss g') i = Some s' /\ ph s' = Done).
Proof.
  intros g Hn Hm E Hp g'.
  assert (H0 : 0 <= res g) by (pose proof (l4_conserved c evs Hn) as L; cbn zeta in L; fold g in L; tauto).
  subst g'. cbn [step]. rewrite E, Hp. unfold can_create.
  split; intros Hr.
  - replace ((g_max g =? 0) || (res g <? 0) || (res g <? g_max g)) with true by lia.
    destruct (tries c) eqn:Ht; unfold commit; cbn [overflows ss]; (split; [lia|]); eexists; (split; [eapply nth_upd_same; exact E|reflexivity]).
  - replace ((g_max g =? 0) || (res g <? 0) || (res g <? g_max g)) with false by lia.
    unfold commit; cbn [overflows ss]. split; [lia|]. eexists; (split; [eapply nth_upd_same; exact E|reflexivity]).
Qed.

End Generic.

(* ------------------------------------------------------------------ the repaired shape: every history *)
Lemma all_allowed evs : forallb (allowed okb_all) evs = true.
Proof. apply forallb_forall. intros [|i|i o|i|n|i] _; reflexivity. Qed.

Definition l4_conserved_repaired c evs := l4_conserved sw_repaired okb_all eq_refl (fun mx s k o _ => dial_ok_repaired mx s k o) c evs (all_allowed evs).
Definition l4_admission_repaired c evs i s := l4_admission sw_repaired okb_all eq_refl (fun mx s k o _ => dial_ok_repaired mx s k o) c evs i s (all_allowed evs).
Definition l4_threshold_bound_repaired c evs Hm := l4_threshold_bound sw_repaired okb_all eq_refl (fun mx s k o _ => dial_ok_repaired mx s k o) c evs Hm (all_allowed evs).

(* ------------------------------------------------------------------ the shapes before the repairs (refuted) *)
(* accounting after Connect (before fix 68bc5586c): a close event handled before Connect returns leaks the unit taken afterwards *)
Lemma l4_early_close_leaks_old :
  let g := run sw_old (mkCfg 1 1) [Accept; Admit 0; Dial 0 ConnOkEarly] in
  forallb is_done (ss g) = true /\ res g = 1 /\ g_host g = 1 /\ g_clu g = 0 /\ g_down g = 0.
Proof. vm_compute. repeat split; reflexivity. Qed.

Lemma l4_old_statement_refuted :
  ~ (forall c evs, let g := run sw_old c evs in
       forallb is_done (ss g) = true -> res g = 0 /\ g_host g = 0 /\ g_clu g = 0 /\ g_down g = 0).
Proof.
  intros H. specialize (H (mkCfg 1 1) [Accept; Admit 0%nat; Dial 0%nat ConnOkEarly]). cbn zeta in H.
  assert (D : forallb is_done (ss (run sw_old (mkCfg 1 1) [Accept; Admit 0%nat; Dial 0%nat ConnOkEarly])) = true) by (vm_compute; reflexivity).
  destruct (H D) as [R _]. vm_compute in R. discriminate R.
Qed.

(* no counting while max == 0 (before fix c8b45b4d7): a limit set at run time finds the open connection uncounted, and its
   close takes the counter below zero *)
Lemma l4_nocount_statement_refuted :
  ~ (forall c evs, 0 <= res (run sw_nocount c evs)).
Proof.
  intros H. specialize (H (mkCfg 0 1) [Accept; Admit 0%nat; Dial 0%nat ConnOk; SetMax 3; DownClose 0%nat]).
  vm_compute in H. apply H. reflexivity.
Qed.

(* two admissions between CanCreate and Increase: max_connections = 1 accepts two *)
Lemma l4_threshold_refuted :
  ~ (forall c evs, 0 < maxc c -> no_setmax evs = true -> res (run sw_repaired c evs) <= maxc c).
Proof.
  intros H. specialize (H (mkCfg 1 1) [Accept; Accept; Admit 0%nat; Admit 1%nat; Dial 0%nat ConnOk; Dial 1%nat ConnOk]).
  assert (R : res (run sw_repaired (mkCfg 1 1) [Accept; Accept; Admit 0%nat; Admit 1%nat; Dial 0%nat ConnOk; Dial 1%nat ConnOk]) = 2) by (vm_compute; reflexivity).
  rewrite R in H. cbn in H. specialize (H eq_refl eq_refl). lia.
Qed.
