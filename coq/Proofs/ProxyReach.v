(* Exhaustive reachability for Model/Proxy.v over a FIXED configuration and a finite event alphabet: the set of instrumented
   states (state + trace summary) closed under every step is computed (vm_compute) and a predicate checked on all of it;
   [reach_sound] turns the check into a statement about EVERY schedule over the alphabet (any length), by induction on the
   schedule.  Used for the finite-family (`_family`) theorems of C03/C10/C14/C17. *)
From Coq Require Import List ZArith Bool Arith Lia FMapPositive PArith.
From MV Require Import Model.Proxy Model.ProxySpec.
Import ListNotations.
Open Scope Z_scope.

(* ---------- boolean equalities with soundness ---------- *)
Definition opt_eqb {X} (e : X -> X -> bool) (a b : option X) : bool :=
  match a, b with Some x, Some y => e x y | None, None => true | _, _ => false end.
Fixpoint list_eqb {X} (e : X -> X -> bool) (a b : list X) : bool :=
  match a, b with [], [] => true | x :: a', y :: b' => e x y && list_eqb e a' b' | _, _ => false end.

Lemma opt_eqb_eq {X} (e : X -> X -> bool) : (forall x y, e x y = true -> x = y) -> forall a b, opt_eqb e a b = true -> a = b.
Proof. intros He [x|] [y|] H; cbn in H; try discriminate; auto. f_equal; auto. Qed.
Lemma list_eqb_eq {X} (e : X -> X -> bool) : (forall x y, e x y = true -> x = y) -> forall a b, list_eqb e a b = true -> a = b.
Proof.
  intros He a; induction a as [|x a IH]; intros [|y b] H; cbn in H; try discriminate; auto.
  apply andb_prop in H as [H1 H2]. f_equal; auto.
Qed.
Lemma phase_eqb_eq a b : phase_eqb a b = true -> a = b. Proof. destruct a, b; cbn; congruence. Qed.
Lemma reason_eqb_eq a b : reason_eqb a b = true -> a = b. Proof. destruct a, b; cbn; congruence. Qed.
Lemma rkind_eqb_eq a b : rkind_eqb a b = true -> a = b. Proof. destruct a, b; cbn; congruence. Qed.
Lemma bool_eqb_eq a b : Bool.eqb a b = true -> a = b. Proof. apply Bool.eqb_prop. Qed.
Lemma nat_eqb_eq a b : Nat.eqb a b = true -> a = b. Proof. apply Nat.eqb_eq. Qed.
Lemma z_eqb_eq a b : Z.eqb a b = true -> a = b. Proof. apply Z.eqb_eq. Qed.

Definition resp_eqb (a b : resp) : bool :=
  rkind_eqb (r_kind a) (r_kind b) && Z.eqb (r_code a) (r_code b) && Bool.eqb (r_data a) (r_data b) && Bool.eqb (r_trailers a) (r_trailers b) &&
  rkind_eqb (r_body a) (r_body b).
Lemma resp_eqb_eq a b : resp_eqb a b = true -> a = b.
Proof.
  destruct a, b; unfold resp_eqb; cbn; intros H.
  repeat (apply andb_prop in H as [H ?]).
  f_equal; auto using rkind_eqb_eq, z_eqb_eq, bool_eqb_eq.
Qed.

Definition st_eqb (a b : st) : bool :=
  phase_eqb (ph a) (ph b) && Nat.eqb (outer a) (outer b) && Bool.eqb (wdone a) (wdone b) && Bool.eqb (sleeping a) (sleeping b) &&
  Bool.eqb (woken a) (woken b) && Bool.eqb (received a) (received b) && Bool.eqb (cleaned a) (cleaned b) &&
  Bool.eqb (up_reset a) (up_reset b) && Bool.eqb (down_reset a) (down_reset b) && Bool.eqb (direct a) (direct b) &&
  Bool.eqb (resp_started a) (resp_started b) && Bool.eqb (recv_done a) (recv_done b) && Bool.eqb (req_sent a) (req_sent b) &&
  Bool.eqb (process_done a) (process_done b) && Bool.eqb (setup_retry a) (setup_retry b) && phase_eqb (again a) (again b) &&
  reason_eqb (rreason a) (rreason b) && Bool.eqb (notify a) (notify b) && opt_eqb Nat.eqb (try_armed a) (try_armed b) &&
  Bool.eqb (global_armed a) (global_armed b) && opt_eqb Nat.eqb (retry a) (retry b) && Bool.eqb (reserved a) (reserved b) &&
  Bool.eqb (has_upreq a) (has_upreq b) && Bool.eqb (up_sender a) (up_sender b) && Bool.eqb (up_alive a) (up_alive b) &&
  Nat.eqb (nnew a) (nnew b) && Nat.eqb (cur a) (cur b) && opt_eqb resp_eqb (rsp a) (rsp b) &&
  Bool.eqb (route_matched a) (route_matched b) && Nat.eqb (rcursor a) (rcursor b) && Nat.eqb (scursor a) (scursor b) &&
  list_eqb Nat.eqb (fcalls a) (fcalls b) && list_eqb Nat.eqb (scalls a) (scalls b) && list_eqb phase_eqb (delayed a) (delayed b) &&
  Bool.eqb (reuse a) (reuse b) && Bool.eqb (gave a) (gave b) && Bool.eqb (abandoned a) (abandoned b) && Nat.eqb (nfin a) (nfin b) && Z.eqb (rc a) (rc b) && Bool.eqb (global_ever a) (global_ever b) && Bool.eqb (x_loop a) (x_loop b) &&
  Bool.eqb (x_upf a) (x_upf b) && Bool.eqb (x_nog a) (x_nog b) && opt_eqb Z.eqb (status_var a) (status_var b) && Bool.eqb (x_stale a) (x_stale b) &&
  Bool.eqb (rsp_filtered a) (rsp_filtered b) && Bool.eqb (upreq_filtered a) (upreq_filtered b) && Bool.eqb (x_unfilt a) (x_unfilt b) &&
  Bool.eqb (late_started a) (late_started b).

Ltac split_andb H :=
  repeat match type of H with (_ && _) = true => let H2 := fresh "E" in apply andb_prop in H as [H H2] end.

Lemma st_eqb_eq a b : st_eqb a b = true -> a = b.
Proof.
  unfold st_eqb; intros H. split_andb H.
  repeat match goal with
  | E : phase_eqb _ _ = true |- _ => apply phase_eqb_eq in E
  | E : reason_eqb _ _ = true |- _ => apply reason_eqb_eq in E
  | E : Bool.eqb _ _ = true |- _ => apply bool_eqb_eq in E
  | E : Nat.eqb _ _ = true |- _ => apply nat_eqb_eq in E
  | E : Z.eqb _ _ = true |- _ => apply z_eqb_eq in E
  | E : opt_eqb Nat.eqb _ _ = true |- _ => apply (opt_eqb_eq _ nat_eqb_eq) in E
  | E : opt_eqb Z.eqb _ _ = true |- _ => apply (opt_eqb_eq _ z_eqb_eq) in E
  | E : opt_eqb resp_eqb _ _ = true |- _ => apply (opt_eqb_eq _ resp_eqb_eq) in E
  | E : list_eqb Nat.eqb _ _ = true |- _ => apply (list_eqb_eq _ nat_eqb_eq) in E
  | E : list_eqb phase_eqb _ _ = true |- _ => apply (list_eqb_eq _ phase_eqb_eq) in E
  end.
  destruct a, b; simpl in *; subst; reflexivity.
Qed.

Definition rk_eqb (a b : rkind * Z) : bool := rkind_eqb (fst a) (fst b) && Z.eqb (snd a) (snd b).
Lemma rk_eqb_eq a b : rk_eqb a b = true -> a = b.
Proof. destruct a, b; unfold rk_eqb; cbn; intros H; apply andb_prop in H as [H1 H2]. f_equal; auto using rkind_eqb_eq, z_eqb_eq. Qed.

Definition gs_eqb (a b : gs) : bool :=
  Nat.eqb (g_hdr a) (g_hdr b) && Bool.eqb (g_started a) (g_started b) && Bool.eqb (g_ended a) (g_ended b) && Bool.eqb (g_bad a) (g_bad b) &&
  Nat.eqb (g_clean a) (g_clean b) && Nat.eqb (g_log a) (g_log b) && Nat.eqb (g_destroy a) (g_destroy b) && Nat.eqb (g_new a) (g_new b) &&
  Nat.eqb (g_choose a) (g_choose b) && Bool.eqb (g_new_unchosen a) (g_new_unchosen b) && Bool.eqb (g_fresh a) (g_fresh b) &&
  Bool.eqb (g_new_after_start a) (g_new_after_start b) && Bool.eqb (g_denied a) (g_denied b) &&
  Bool.eqb (g_new_after_deny a) (g_new_after_deny b) && Bool.eqb (g_term a) (g_term b) && Z.eqb (g_gauge a) (g_gauge b) &&
  Z.eqb (g_res a) (g_res b) && Z.eqb (g_res_min a) (g_res_min b) && Bool.eqb (g_panic a) (g_panic b) &&
  Bool.eqb (g_leak a) (g_leak b) && Bool.eqb (g_fin_bad a) (g_fin_bad b) && Bool.eqb (g_mixed a) (g_mixed b) &&
  opt_eqb rk_eqb (g_reply_kind a) (g_reply_kind b).
Lemma gs_eqb_eq a b : gs_eqb a b = true -> a = b.
Proof.
  unfold gs_eqb; intros H. split_andb H.
  repeat match goal with
  | E : Bool.eqb _ _ = true |- _ => apply bool_eqb_eq in E
  | E : Nat.eqb _ _ = true |- _ => apply nat_eqb_eq in E
  | E : Z.eqb _ _ = true |- _ => apply z_eqb_eq in E
  | E : opt_eqb rk_eqb _ _ = true |- _ => apply (opt_eqb_eq _ rk_eqb_eq) in E
  end.
  destruct a, b; simpl in *; subst; reflexivity.
Qed.

(* ---------- instrumented states ---------- *)
Record ist := { i_st : st; i_gs : gs; i_dr : bool (* a downstream reset was in the schedule *); i_tm : bool (* a TerminateStream call was *) }.
Definition ist_eqb (a b : ist) : bool :=
  st_eqb (i_st a) (i_st b) && gs_eqb (i_gs a) (i_gs b) && Bool.eqb (i_dr a) (i_dr b) && Bool.eqb (i_tm a) (i_tm b).
Lemma ist_eqb_eq a b : ist_eqb a b = true -> a = b.
Proof.
  destruct a, b; unfold ist_eqb; cbn; intros H. split_andb H.
  apply st_eqb_eq in H. apply gs_eqb_eq in E1. apply bool_eqb_eq in E0. apply bool_eqb_eq in E. subst. reflexivity.
Qed.

Section Reach.
Variable src : srcp.
Variable c : cfg.
Variable sigma_at : ist -> list step.   (* the steps that can change the given state (finite) *)
Variable allowed : step -> Prop.        (* the alphabet of the schedules the theorem is about *)
Hypothesis cover : forall x l, allowed l ->
  In l (sigma_at x) \/
  (let '(s', o) := do_step src c (i_st x) l in s' = i_st x /\ o = [] /\ is_down_reset l = false /\ is_terminate l = false).

Definition istep (x : ist) (l : step) : ist :=
  let '(s', o) := do_step src c (i_st x) l in
  {| i_st := s'; i_gs := gs_outs (i_gs x) o; i_dr := i_dr x || is_down_reset l; i_tm := i_tm x || is_terminate l |}.
Definition iinit (rc0 : Z) : ist := {| i_st := init_st rc0; i_gs := gs0; i_dr := false; i_tm := false |}.
Definition irun (rc0 : Z) (sched : list step) : ist := fold_left istep sched (iinit rc0).

(* link to [run] *)
Lemma gs_outs_app g a b : gs_outs g (a ++ b) = gs_outs (gs_outs g a) b.
Proof. unfold gs_outs. apply fold_left_app. Qed.

Lemma irun_from_run : forall sched x,
  fold_left istep sched x =
  {| i_st := fst (run src c (i_st x) sched); i_gs := gs_outs (i_gs x) (snd (run src c (i_st x) sched));
     i_dr := i_dr x || existsb is_down_reset sched; i_tm := i_tm x || existsb is_terminate sched |}.
Proof.
  induction sched as [|l sched IH]; intros x; cbn [run fold_left existsb].
  - destruct x; cbn. now rewrite !orb_false_r.
  - rewrite IH. unfold istep. destruct (do_step src c (i_st x) l) as [s1 o1]. cbn [i_st i_gs i_dr i_tm].
    destruct (run src c s1 sched) as [s2 o2]. cbn [fst snd]. now rewrite gs_outs_app, !orb_assoc.
Qed.

Lemma irun_run rc0 sched :
  irun rc0 sched =
  {| i_st := fst (run src c (init_st rc0) sched); i_gs := gs_outs gs0 (snd (run src c (init_st rc0) sched));
     i_dr := existsb is_down_reset sched; i_tm := existsb is_terminate sched |}.
Proof. unfold irun. rewrite irun_from_run. reflexivity. Qed.

(* ---------- visited set: buckets keyed by a cheap hash ---------- *)
Definition b2n (b : bool) : N := if b then 1%N else 0%N.
Definition phase_idx (p : phase) : N :=
  match p with PInit => 0 | PDownFilter => 1 | PMatchRoute => 2 | PAfterRoute => 3 | PChooseHost => 4 | PAfterChoose => 5
  | PRecvHeader => 6 | PRecvData => 7 | PRecvTrailer => 8 | POneway => 9 | PRetry => 10 | PWaitNotify => 11 | PUpFilter => 12
  | PUpRecvHeader => 13 | PUpRecvData => 14 | PUpRecvTrailer => 15 | PEnd => 16 end%N.
(* hash = a positive consed bit by bit (no arithmetic): booleans one bit, small naturals in unary, enumerations by a fixed code *)
Definition pb (b : bool) (p : positive) : positive := if b then xI p else xO p.
Fixpoint pn (n : nat) (p : positive) : positive := match n with O => xO p | S n' => xI (pn n' p) end.
Definition pon (o : option nat) (p : positive) : positive := match o with None => xO p | Some n => xI (pn n p) end.
Definition pz (z : Z) (p : positive) : positive :=
  match z with Z0 => xO (xO p) | Zpos xH => xI (xO p) | Zpos _ => xI (xI p) | Zneg xH => xO (xI p) | Zneg _ => xO (xI (xI p)) end.
Definition preason (r : reason) (p : positive) : positive :=
  match r with RsTermination => xO (xO (xO p)) | RsConnFailed => xI (xO (xO p)) | RsLocalReset => xO (xI (xO p))
  | RsOverflow => xI (xI (xO p)) | RsRemoteReset => xO (xO (xI p)) | RsUpstreamReset => xI (xO (xI p))
  | RsGlobalTimeout => xO (xI (xI p)) | RsPerTryTimeout => xI (xI (xI (xO p))) | RsEmpty => xI (xI (xI (xI p))) end.
Definition pphase (q : phase) (p : positive) : positive :=
  match q with
  | PInit => xO (xO (xO (xO (xO p)))) | PDownFilter => xI (xO (xO (xO (xO p)))) | PMatchRoute => xO (xI (xO (xO (xO p))))
  | PAfterRoute => xI (xI (xO (xO (xO p)))) | PChooseHost => xO (xO (xI (xO (xO p)))) | PAfterChoose => xI (xO (xI (xO (xO p))))
  | PRecvHeader => xO (xI (xI (xO (xO p)))) | PRecvData => xI (xI (xI (xO (xO p)))) | PRecvTrailer => xO (xO (xO (xI (xO p))))
  | POneway => xI (xO (xO (xI (xO p)))) | PRetry => xO (xI (xO (xI (xO p)))) | PWaitNotify => xI (xI (xO (xI (xO p))))
  | PUpFilter => xO (xO (xI (xI (xO p)))) | PUpRecvHeader => xI (xO (xI (xI (xO p)))) | PUpRecvData => xO (xI (xI (xI (xO p))))
  | PUpRecvTrailer => xI (xI (xI (xI (xO p)))) | PEnd => xO (xO (xO (xO (xI p))))
  end.
Definition hash (x : ist) : positive :=
  let s := i_st x in
  let g := i_gs x in
  let p := xH in
  let p := pb (wdone s) (pb (sleeping s) (pb (woken s) (pb (received s) (pb (cleaned s) (pb (up_reset s) (pb (down_reset s)
          (pb (direct s) (pb (resp_started s) (pb (process_done s) (pb (setup_retry s) (pb (notify s) (pb (global_armed s)
          (pb (has_upreq s) (pb (up_sender s) (pb (up_alive s) (pb (i_dr x) (pb (i_tm x) p))))))))))))))))) in
  let p := pb (g_started g) (pb (g_ended g) (pb (recv_done s) (pb (req_sent s) (pb (reserved s) (pb (g_denied g) (pb (g_term g)
          (pb (g_fresh g) (pb (global_ever s) (pb (x_nog s) p))))))))) in
  let p := pphase (ph s) p in
  let p := pn (nnew s) p in
  let p := pn (outer s) p in
  let p := pon (retry s) p in
  let p := pon (try_armed s) p in
  let p := preason (rreason s) p in
  let p := match again s with PInit => xO p | PMatchRoute => xI (xO p) | _ => xI (xI p) end in
  let p := match rsp s with
           | None => xO p
           | Some r => xI (pb (r_data r) (pb (r_trailers r) (match r_kind r with KUp => xO (pb (r_code r <? 500) p) | KHijack => xI (xO (pz (r_code r - 502) p)) | KDirect => xI (xI p) end)))
           end in
  let p := match status_var s with None => xO p | Some z => xI (pb (z <? 500) p) end in
  let p := pn (g_choose g) p in
  let p := pz (g_res g) p in
  let p := pz (rc s) p in
  let p := pn (rcursor s) p in
  let p := fold_left (fun a n => pn n a) (fcalls s) p in
  let p := fold_left (fun a n => pn n a) (scalls s) p in
  p.

Definition vset := PositiveMap.t (list ist).
Definition vmem (x : ist) (v : vset) : bool :=
  match PositiveMap.find (hash x) v with Some l => existsb (ist_eqb x) l | None => false end.
Definition vadd (x : ist) (v : vset) : vset :=
  let k := hash x in
  match PositiveMap.find k v with Some l => PositiveMap.add k (x :: l) v | None => PositiveMap.add k [x] v end.

(* worklist exploration: pop a state, add its unseen successors to the set and to the worklist *)
Definition succs (x : ist) (acc : vset * list ist) : vset * list ist :=
  fold_left (fun (a : vset * list ist) l =>
               let y := istep x l in
               if vmem y (fst a) then a else (vadd y (fst a), y :: snd a)) (sigma_at x) acc.
Fixpoint bfs (fuel : nat) (v : vset) (todo : list ist) : option vset :=
  match todo with
  | [] => Some v
  | x :: todo' =>
    match fuel with
    | O => None
    | S f => let '(v', todo'') := succs x (v, todo') in bfs f v' todo''
    end
  end.
Definition explore_set (rc0 : Z) : option vset :=
  let x0 := iinit rc0 in bfs (400 * 400) (vadd x0 (PositiveMap.empty _)) [x0].

Definition all_states (v : vset) : list ist := flat_map snd (PositiveMap.elements v).
Definition all_good (P : ist -> bool) (v : vset) : bool := forallb P (all_states v).

Definition In_v (x : ist) (v : vset) : Prop := exists k l, PositiveMap.find k v = Some l /\ In x l.

Lemma vmem_In x v : vmem x v = true -> In_v x v.
Proof.
  unfold vmem. destruct (PositiveMap.find (hash x) v) as [l|] eqn:E; [|discriminate].
  intros H. apply existsb_exists in H as [y [Hy He]]. apply ist_eqb_eq in He. subst y. exists (hash x), l. split; [exact E | exact Hy].
Qed.
Lemma In_v_all x v : In_v x v -> In x (all_states v).
Proof.
  intros (k & l & Hf & Hi). unfold all_states. apply in_flat_map. exists (k, l). split; [|exact Hi].
  now apply PositiveMap.elements_correct.
Qed.
Lemma In_v_vadd_same x v : In_v x (vadd x v).
Proof.
  unfold vadd. destruct (PositiveMap.find (hash x) v) as [l|] eqn:E.
  - exists (hash x), (x :: l). split; [apply PositiveMap.gss|now left].
  - exists (hash x), [x]. split; [apply PositiveMap.gss|now left].
Qed.
Lemma In_v_vadd_mono x y v : In_v x v -> In_v x (vadd y v).
Proof.
  intros (k & l & Hf & Hi). unfold vadd. destruct (Pos.eq_dec k (hash y)) as [->|Hk].
  - rewrite Hf. exists (hash y), (y :: l). split; [apply PositiveMap.gss|now right].
  - destruct (PositiveMap.find (hash y) v); exists k, l; (split; [rewrite PositiveMap.gso; auto|exact Hi]).
Qed.

(* every state of the set is still on the worklist or has all its successors in the set *)
Definition closed_at (x : ist) (v : vset) : Prop := forall l, In l (sigma_at x) -> In_v (istep x l) v.
Definition winv (v : vset) (todo : list ist) : Prop :=
  (forall x, In x todo -> In_v x v) /\ (forall x, In_v x v -> In x todo \/ closed_at x v).

(* [succs] on a prefix of the labels: the set only grows, new states go to the worklist, the handled labels are covered *)
Lemma succs_spec x : forall ls v todo v' todo',
  fold_left (fun (a : vset * list ist) l =>
               let y := istep x l in if vmem y (fst a) then a else (vadd y (fst a), y :: snd a)) ls (v, todo) = (v', todo') ->
  (forall z, In_v z v -> In_v z v') /\
  (forall z, In z todo -> In z todo') /\
  (forall z, In z todo' -> In z todo \/ In_v z v') /\
  (forall z, In_v z v' -> In_v z v \/ In z todo') /\
  (forall l, In l ls -> In_v (istep x l) v').
Proof.
  induction ls as [|l ls IH]; intros v todo v' todo' H; cbn [fold_left] in H.
  - inversion H; subst. repeat split; auto. intros l [].
  - cbn [fst snd] in H. destruct (vmem (istep x l) v) eqn:E.
    + destruct (IH _ _ _ _ H) as (A & B & C & D & F). repeat split; auto.
      intros l0 [<-|Hl]; auto. apply A. now apply vmem_In.
    + destruct (IH _ _ _ _ H) as (A & B & C & D & F). repeat split.
      * intros z Hz. apply A. now apply In_v_vadd_mono.
      * intros z Hz. apply B. now right.
      * intros z Hz. destruct (C z Hz) as [[<-|Hz']|Hz']; auto. right. apply A. apply In_v_vadd_same.
      * intros z Hz. destruct (D z Hz) as [Hz'|Hz']; auto.
        destruct Hz' as (k & l0 & Hf & Hi). unfold vadd in Hf.
        destruct (Pos.eq_dec k (hash (istep x l))) as [->|Hk].
        -- destruct (PositiveMap.find (hash (istep x l)) v) as [l1|] eqn:E1; rewrite PositiveMap.gss in Hf; inversion Hf; subst l0.
           ++ destruct Hi as [<-|Hi]; [right; apply B; now left|left; exists (hash (istep x l)), l1; auto].
           ++ destruct Hi as [<-|[]]. right. apply B. now left.
        -- destruct (PositiveMap.find (hash (istep x l)) v); rewrite PositiveMap.gso in Hf; auto; left; exists k, l0; auto.
      * intros l0 [<-|Hl]; auto. apply A. apply In_v_vadd_same.
Qed.

Lemma bfs_closed : forall fuel v todo v', winv v todo -> bfs fuel v todo = Some v' ->
  (forall x, In_v x v -> In_v x v') /\ (forall x, In_v x v' -> closed_at x v').
Proof.
  induction fuel as [|f IH]; intros v todo v' [W1 W2] H.
  - destruct todo as [|x todo]; [|discriminate]. inversion H; subst. split; auto.
    intros x Hx. destruct (W2 x Hx) as [[]|Hc]; auto.
  - destruct todo as [|x todo]; cbn [bfs] in H.
    + inversion H; subst. split; auto. intros x Hx. destruct (W2 x Hx) as [[]|Hc]; auto.
    + destruct (succs x (v, todo)) as [v1 todo1] eqn:E. unfold succs in E.
      destruct (succs_spec x _ _ _ _ _ E) as (A & B & C & D & F).
      assert (Wn : winv v1 todo1).
      { split.
        - intros z Hz. destruct (C z Hz) as [Hz'|Hz']; auto. apply A. apply W1. now right.
        - intros z Hz. destruct (D z Hz) as [Hz'|Hz']; [|now left].
          destruct (W2 z Hz') as [[<-|Hz'']|Hc].
          + right. intros l Hl. now apply F.
          + left. now apply B.
          + right. intros l Hl. apply A. now apply Hc. }
      destruct (IH _ _ _ Wn H) as [M K]. split; auto.
Qed.

Lemma closed_step v : (forall x, In_v x v -> closed_at x v) -> forall x, In_v x v -> forall l, allowed l -> In_v (istep x l) v.
Proof.
  intros Hc x Hx l Hl. destruct (cover x l Hl) as [Hin | Hid].
  - now apply Hc.
  - unfold istep. destruct (do_step src c (i_st x) l) as [s' o]. destruct Hid as (-> & -> & -> & ->).
    cbn [gs_outs fold_left]. rewrite !orb_false_r. destruct x; exact Hx.
Qed.

Lemma closed_run v : (forall x, In_v x v -> closed_at x v) ->
  forall sched x, In_v x v -> Forall allowed sched -> In_v (fold_left istep sched x) v.
Proof.
  intros Hc sched; induction sched as [|l sched IH]; intros x Hx Hs; cbn; auto.
  inversion Hs; subst. apply IH; auto. now apply closed_step.
Qed.

(* the check and its soundness *)
Definition reach_check (rc0 : Z) (P : ist -> bool) : bool :=
  match explore_set rc0 with
  | Some v => all_good P v
  | None => false
  end.

Theorem reach_sound rc0 P : reach_check rc0 P = true ->
  forall sched, Forall allowed sched -> P (irun rc0 sched) = true.
Proof.
  unfold reach_check, explore_set. destruct (bfs (400 * 400) (vadd (iinit rc0) (PositiveMap.empty _)) [iinit rc0]) as [v|] eqn:E; [|discriminate].
  intros Hg sched Hs.
  assert (W : winv (vadd (iinit rc0) (PositiveMap.empty _)) [iinit rc0]).
  { split.
    - intros x [<-|[]]. apply In_v_vadd_same.
    - intros x (k & l & Hf & Hi). left. unfold vadd in Hf. rewrite PositiveMap.gempty in Hf.
      destruct (Pos.eq_dec k (hash (iinit rc0))) as [->|Hk].
      + rewrite PositiveMap.gss in Hf. inversion Hf; subst l. destruct Hi as [<-|[]]. now left.
      + rewrite PositiveMap.gso, PositiveMap.gempty in Hf; auto. discriminate. }
  destruct (bfs_closed _ _ _ _ W E) as [M K].
  pose proof (closed_run v K sched (iinit rc0) (M _ (In_v_vadd_same _ _)) Hs) as Hr.
  unfold all_good in Hg. rewrite forallb_forall in Hg. apply Hg. now apply In_v_all.
Qed.

Definition reach_size (rc0 : Z) : nat := match explore_set rc0 with Some v => length (all_states v) | None => O end.

End Reach.
