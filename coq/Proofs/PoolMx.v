(* Proofs about Model/PoolMx.v (multiplex pool, one slot): invariant over EVERY op history for the repaired code. *)
From Coq Require Import List ZArith Bool Arith Lia.
From Coq Require Import ZifyBool ZifyNat.
From RecordUpdate Require Import RecordUpdate.
From MV Require Import Model.Pool Model.PoolMx Proofs.Pool.
Import ListNotations.
Open Scope Z_scope.

Lemma mcount_countb : forall f n, mcount f n = countb f n.
Proof. induction n; cbn; [reflexivity|]. rewrite IHn. reflexivity. Qed.

Definition mcount_live (p : mpool) : nat := mcount (mlive p) (mnstreams p).

(* ex: a client exempt from the "no orphan / drained go-away is closed" clauses (in the middle of an operation) *)
Record MInvX (k : mcfg) (p : mpool) (ex : option nat) : Prop := mkMInv {
  mi_slot : forall c, mslot p = SClient c -> (c < mnclients p)%nat /\ mclosed p c = false;
  mi_open : forall c, Some c <> ex -> (c < mnclients p)%nat -> mclosed p c = false ->
            mslot p = SClient c \/ (mc_goaway (mcl p c) = true /\ (mactive p c >= 1)%nat);
  mi_drain : forall c, Some c <> ex -> (c < mnclients p)%nat -> mclosed p c = false -> mc_goaway (mcl p c) = true -> (mactive p c >= 1)%nat;
  mi_state : forall c, (c < mnclients p)%nat ->
             (mc_state (mcl p c) = st_connected /\ mc_goaway (mcl p c) = false) \/
             ((mc_state (mcl p c) = st_goaway \/ mc_state (mcl p c) = st_connecting) /\ mc_goaway (mcl p c) = true);
  mi_scli : forall s, (s < mnstreams p)%nat -> (mscli p s < mnclients p)%nat;
  mi_live : forall s, (s < mnstreams p)%nat -> mlive p s = true -> mclosed p (mscli p s) = false;
  mi_req : mreq p = Z.of_nat (mcount_live p) + mext p;
  mi_ext : 0 <= mext p;
  mi_once : forall s, (s < mnstreams p)%nat ->
            ms_destroys (mst p s) = (if mlive p s then 0 else 1)%nat /\ (ms_recv (mst p s) <= 1)%nat /\
            (mlive p s = true -> ms_recv (mst p s) = 0%nat)
}.
Notation MInv k p := (MInvX k p None).

Lemma MInvX_weaken : forall k p ex, MInvX k p None -> MInvX k p ex.
Proof.
  intros k p ex [I1 I2 I3 I4 I5 I6 I7 I8 I9]. constructor; auto.
  - intros c _. apply I2. discriminate.
  - intros c _. apply I3. discriminate.
Qed.

Lemma MInvX_strengthen : forall k p c, MInvX k p (Some c) ->
  ((c < mnclients p)%nat -> mclosed p c = false ->
     (mslot p = SClient c \/ (mc_goaway (mcl p c) = true /\ (mactive p c >= 1)%nat)) /\
     (mc_goaway (mcl p c) = true -> (mactive p c >= 1)%nat)) ->
  MInvX k p None.
Proof.
  intros k p c [I1 I2 I3 I4 I5 I6 I7 I8 I9] H. constructor; auto.
  - intros c' _ H1 H2. destruct (Nat.eq_dec c' c) as [->|N]; [apply H; assumption|apply I2; auto; congruence].
  - intros c' _ H1 H2. destruct (Nat.eq_dec c' c) as [->|N]; [apply H; assumption|apply I3; auto; congruence].
Qed.

Lemma minit_inv : forall k, MInv k minit.
Proof.
  intros k. constructor; cbn; try (intros; lia); try discriminate.
Qed.

(* ------------------------------------------------------------------------------------------------ *)
(* counting live streams per client *)
Lemma mactive_zero_iff : forall p c, mactive p c = 0%nat <-> forall s, (s < mnstreams p)%nat -> mlive p s = true -> mscli p s <> c.
Proof.
  intros p c. unfold mactive. rewrite mcount_countb. split.
  - intros H s Hs Hl E. revert H Hs. generalize (mnstreams p). induction n as [|n IH]; cbn [countb]; intros H Hs; [lia|].
    destruct (Nat.eq_dec s n) as [->|Hne].
    + rewrite Hl, E, Nat.eqb_refl in H. cbn in H. lia.
    + apply IH; [|lia]. destruct (mlive p n && Nat.eqb (mscli p n) c); lia.
  - intros H. apply countb_zero. intros s Hs. destruct (mlive p s) eqn:E; [|reflexivity].
    destruct (Nat.eqb_spec (mscli p s) c) as [E2|]; [|reflexivity]. exfalso. apply (H s Hs E E2).
Qed.

Lemma mactive_pos : forall p c s, (s < mnstreams p)%nat -> mlive p s = true -> mscli p s = c -> (mactive p c >= 1)%nat.
Proof.
  intros p c s Hs Hl E. destruct (Nat.eq_dec (mactive p c) 0) as [H|H]; [|lia].
  exfalso. apply (proj1 (mactive_zero_iff p c) H s Hs Hl E).
Qed.

(* two states with the same streams except that s (live on c before) is dead afterwards *)
Lemma mactive_after_death : forall p p' s c',
  mnstreams p' = mnstreams p -> (s < mnstreams p)%nat -> mlive p s = true ->
  (forall t, mscli p' t = mscli p t) -> (forall t, mlive p' t = if Nat.eqb t s then false else mlive p t) ->
  mactive p c' = ((if Nat.eqb (mscli p s) c' then 1 else 0) + mactive p' c')%nat.
Proof.
  intros p p' s c' Hn Hs Hl Hc Hlv. unfold mactive. rewrite !mcount_countb, Hn.
  destruct (Nat.eqb_spec (mscli p s) c') as [E|E].
  - rewrite (countb_clear (fun t => mlive p t && Nat.eqb (mscli p t) c') (fun t => mlive p' t && Nat.eqb (mscli p' t) c') (mnstreams p) s); auto.
    + rewrite Hl, E, Nat.eqb_refl. reflexivity.
    + rewrite Hlv, Nat.eqb_refl. reflexivity.
    + intros i Hi. rewrite Hlv, Hc. destruct (Nat.eqb_spec i s); [contradiction|reflexivity].
  - cbn. apply countb_ext. intros i Hi. rewrite Hlv, Hc. destruct (Nat.eqb_spec i s) as [->|]; [|reflexivity].
    rewrite Hl. destruct (Nat.eqb_spec (mscli p s) c'); [contradiction|reflexivity].
Qed.

Lemma mcount_live_after_death : forall p p' s,
  mnstreams p' = mnstreams p -> (s < mnstreams p)%nat -> mlive p s = true ->
  (forall t, mlive p' t = if Nat.eqb t s then false else mlive p t) ->
  mcount_live p = S (mcount_live p').
Proof.
  intros p p' s Hn Hs Hl Hlv. unfold mcount_live. rewrite !mcount_countb, Hn.
  apply countb_clear with (c := s); auto.
  - rewrite Hlv, Nat.eqb_refl. reflexivity.
  - intros i Hi. rewrite Hlv. destruct (Nat.eqb_spec i s); [contradiction|reflexivity].
Qed.

(* ------------------------------------------------------------------------------------------------ *)
(* generic preservation lemmas: the streams part and the clients part change separately *)

(* only recv / reset fields of stream s change *)
Lemma MInv_stream_fields : forall k p p' s ex,
  MInvX k p ex -> (s < mnstreams p)%nat ->
  mnclients p' = mnclients p -> mcl p' = mcl p -> mnstreams p' = mnstreams p -> mslot p' = mslot p ->
  mreq p' = mreq p -> mext p' = mext p ->
  (forall t, t <> s -> mst p' t = mst p t) ->
  ms_cli (mst p' s) = ms_cli (mst p s) -> ms_live (mst p' s) = ms_live (mst p s) ->
  ms_destroys (mst p' s) = ms_destroys (mst p s) ->
  (ms_recv (mst p' s) <= 1)%nat -> (mlive p s = true -> ms_recv (mst p' s) = 0%nat) ->
  MInvX k p' ex.
Proof.
  intros k p p' s ex HI Hs Hn Hcl Hns Hsl Hr He Ho Hc Hl Hd Hrc Hr0.
  assert (Hlv : forall t, mlive p' t = mlive p t).
  { intros t. unfold mlive. destruct (Nat.eq_dec t s) as [->|N]; [assumption|rewrite Ho by assumption; reflexivity]. }
  assert (Hsc : forall t, mscli p' t = mscli p t).
  { intros t. unfold mscli. destruct (Nat.eq_dec t s) as [->|N]; [assumption|rewrite Ho by assumption; reflexivity]. }
  assert (Hac : forall c, mactive p' c = mactive p c).
  { intros c. unfold mactive. rewrite Hns, !mcount_countb. apply countb_ext. intros; rewrite Hlv, Hsc; reflexivity. }
  assert (Hclo : forall c, mclosed p' c = mclosed p c) by (intros; unfold mclosed; rewrite Hcl; reflexivity).
  destruct HI as [I1 I2 I3 I4 I5 I6 I7 I8 I9].
  constructor; rewrite ?Hn, ?Hns, ?Hsl, ?Hr, ?He; try rewrite Hcl.
  - intros c H. rewrite Hclo. auto.
  - intros c Hx H1 H2. rewrite Hclo in H2. rewrite Hac. auto.
  - intros c Hx H1 H2. rewrite Hclo in H2. rewrite Hac. auto.
  - assumption.
  - intros t Ht. rewrite Hsc. auto.
  - intros t Ht. rewrite Hlv, Hsc, Hclo. auto.
  - rewrite I7. unfold mcount_live. rewrite Hns, !mcount_countb.
    f_equal. f_equal. apply countb_ext. intros; rewrite Hlv; reflexivity.
  - assumption.
  - intros t Ht. rewrite Hlv. destruct (Nat.eq_dec t s) as [->|N].
    + destruct (I9 s Ht) as [A [B C]]. rewrite Hd. split; [assumption|]. split; [assumption|]. intros L. apply Hr0. exact L.
    + rewrite Ho by assumption. auto.
Qed.

(* connection c closes (pool's listener, repaired code) when no live stream is on it *)
Lemma mclose_event_inv : forall k p c, mk_sw k = mx_sw_fixed -> MInvX k p (Some c) -> (c < mnclients p)%nat ->
  mactive p c = 0%nat -> MInv k (mclose_event k c p).
Proof.
  intros k p c Hsw HI Hc Hz. unfold mclose_event. destruct (mclosed p c) eqn:Ecl.
  { apply (MInvX_strengthen k p c HI). intros _ H. congruence. }
  rewrite Hsw. cbn [sw_mx_delete_own mx_sw_fixed].
  set (e := mcl p c).
  set (p1 := mset_client p c (mkMClient true (mc_state e) (mc_goaway e))).
  assert (Hclo : forall c', mclosed p1 c' = if Nat.eqb c' c then true else mclosed p c').
  { intros c'. unfold mclosed, p1, mset_client. cbn. unfold upd. destruct (Nat.eqb c' c); reflexivity. }
  assert (Hflags : forall c', mc_state (mcl p1 c') = mc_state (mcl p c') /\ mc_goaway (mcl p1 c') = mc_goaway (mcl p c')).
  { intros c'. unfold p1, mset_client. cbn. unfold upd. destruct (Nat.eqb_spec c' c) as [->|]; cbn; auto. }
  assert (Hac : forall c', mactive p1 c' = mactive p c') by reflexivity.
  assert (Hnolive : forall s, (s < mnstreams p)%nat -> mlive p s = true -> mscli p s <> c) by (apply mactive_zero_iff; assumption).
  destruct HI as [I1 I2 I3 I4 I5 I6 I7 I8 I9].
  (* the result, whatever the slot decision *)
  assert (Hgoal : forall q, mnclients q = mnclients p -> mcl q = mcl p1 -> mnstreams q = mnstreams p -> mst q = mst p ->
            mreq q = mreq p -> mext q = mext p ->
            (mslot q = match mslot p with SClient c' => if Nat.eqb c' c then SEmpty else mslot p | _ => mslot p end) -> MInv k q).
  { intros q Q1 Q2 Q3 Q4 Q5 Q6 Q7.
    assert (Hqc : forall c', mclosed q c' = mclosed p1 c') by (intros; unfold mclosed; rewrite Q2; reflexivity).
    assert (Hqa : forall c', mactive q c' = mactive p c') by (intros; unfold mactive, mlive, mscli; rewrite Q3, Q4; reflexivity).
    constructor; rewrite ?Q1, ?Q3, ?Q5, ?Q6.
    - intros c' H. rewrite Q7 in H. rewrite Hqc, Hclo. destruct (mslot p) as [| |c0] eqn:Es; try discriminate.
      destruct (Nat.eqb_spec c0 c) as [->|N]; [discriminate|]. inversion H; subst c0.
      destruct (Nat.eqb_spec c' c); [contradiction|]. apply I1. reflexivity.
    - intros c' _ H1 H2. rewrite Hqc, Hclo in H2. destruct (Nat.eqb_spec c' c) as [->|N]; [discriminate|].
      assert (Hx : Some c' <> Some c) by congruence.
      rewrite Q2, Hqa. destruct (Hflags c') as [_ ->]. destruct (I2 c' Hx H1 H2) as [H|H]; [left|right; assumption].
      rewrite Q7, H. destruct (Nat.eqb_spec c' c); [contradiction|reflexivity].
    - intros c' _ H1 H2. rewrite Hqc, Hclo in H2. destruct (Nat.eqb_spec c' c) as [->|N]; [discriminate|].
      assert (Hx : Some c' <> Some c) by congruence.
      rewrite Q2, Hqa. destruct (Hflags c') as [_ ->]. auto.
    - intros c' H1. rewrite Q2. destruct (Hflags c') as [-> ->]. auto.
    - intros s Hs. unfold mscli. rewrite Q4. apply I5. assumption.
    - intros s Hs. unfold mlive, mscli. rewrite Q4. intros L. rewrite Hqc, Hclo.
      destruct (Nat.eqb_spec (ms_cli (mst p s)) c) as [E|N]; [exfalso; apply (Hnolive s Hs L E)|]. apply I6; assumption.
    - rewrite I7. unfold mcount_live, mlive. rewrite Q3, Q4. reflexivity.
    - assumption.
    - intros s Hs. unfold mlive. rewrite Q4. apply I9. assumption. }
  assert (Hs1 : mslot p1 = mslot p) by reflexivity.
  destruct (mslot p) as [| |c0] eqn:Es.
  - apply Hgoal; try reflexivity. exact Hs1.
  - apply Hgoal; try reflexivity. exact Hs1.
  - destruct (Nat.eqb_spec c0 c) as [->|N].
    + apply Hgoal; try reflexivity.
    + apply Hgoal; try reflexivity. exact Hs1.
Qed.

(* ------------------------------------------------------------------------------------------------ *)
Definition mkill (k : mcfg) (s : nat) (p : mpool) : mpool :=
  let x := mst p s in
  mreq_dec k (p <| mst := upd (mst p) s (mkMStream (ms_cli x) false (ms_recv x) (S (ms_destroys x)) (ms_reset x)) |>).

Lemma mkill_frame : forall k s p,
  mnclients (mkill k s p) = mnclients p /\ mcl (mkill k s p) = mcl p /\ mnstreams (mkill k s p) = mnstreams p /\
  mslot (mkill k s p) = mslot p /\ mext (mkill k s p) = mext p /\ mshut (mkill k s p) = mshut p /\
  mreq (mkill k s p) = mreq p - 1 /\
  (forall t, mscli (mkill k s p) t = mscli p t) /\
  (forall t, mlive (mkill k s p) t = if Nat.eqb t s then false else mlive p t) /\
  (forall t, t <> s -> mst (mkill k s p) t = mst p t) /\
  ms_recv (mst (mkill k s p) s) = ms_recv (mst p s) /\ ms_destroys (mst (mkill k s p) s) = S (ms_destroys (mst p s)) /\
  ms_reset (mst (mkill k s p) s) = ms_reset (mst p s).
Proof.
  intros k s p. unfold mkill, mreq_dec. cbn; repeat split; try reflexivity;
    try (intros t; unfold mscli, mlive; cbn; unfold upd; destruct (Nat.eqb_spec t s) as [->|]; reflexivity);
    try (intros t Hne; unfold upd; destruct (Nat.eqb_spec t s); [contradiction|reflexivity]);
    try (unfold upd; rewrite Nat.eqb_refl; reflexivity).
Qed.
(* from here on the proofs go through mkill_frame *)
#[local] Opaque mreq_dec.

Lemma mkill_inv : forall k p s, MInv k p -> (s < mnstreams p)%nat -> mlive p s = true ->
  MInvX k (mkill k s p) (Some (mscli p s)).
Proof.
  intros k p s HI Hs Hl.
  destruct (mkill_frame k s p) as [F1 [F2 [F3 [F4 [F5 [F6 [F7 [F8 [F9 [F10 [F11 [F12 F13]]]]]]]]]]]].
  assert (Hclo : forall c, mclosed (mkill k s p) c = mclosed p c) by (intros; unfold mclosed; rewrite F2; reflexivity).
  assert (Hac : forall c, mactive p c = ((if Nat.eqb (mscli p s) c then 1 else 0) + mactive (mkill k s p) c)%nat).
  { intros c. apply (mactive_after_death p (mkill k s p) s c); auto. }
  destruct HI as [I1 I2 I3 I4 I5 I6 I7 I8 I9].
  constructor; rewrite ?F1, ?F3, ?F4, ?F5.
  - intros c H. rewrite Hclo. auto.
  - intros c Hx H1 H2. rewrite Hclo in H2. rewrite F2. assert (Hne : mscli p s <> c) by congruence.
    specialize (Hac c). destruct (Nat.eqb_spec (mscli p s) c); [contradiction|]. cbn in Hac. rewrite <- Hac.
    apply I2; auto. discriminate.
  - intros c Hx H1 H2. rewrite Hclo in H2. rewrite F2. assert (Hne : mscli p s <> c) by congruence.
    specialize (Hac c). destruct (Nat.eqb_spec (mscli p s) c); [contradiction|]. cbn in Hac. rewrite <- Hac.
    apply I3; auto. discriminate.
  - rewrite F2. assumption.
  - intros t Ht. rewrite F8. auto.
  - intros t Ht. rewrite F9, F8, Hclo. destruct (Nat.eqb_spec t s); [discriminate|]. auto.
  - rewrite F7, I7. rewrite (mcount_live_after_death p (mkill k s p) s); auto. lia.
  - assumption.
  - intros t Ht. rewrite F9. destruct (Nat.eqb_spec t s) as [->|N].
    + destruct (I9 s Hs) as [A [B C]]. rewrite Hl in A. rewrite F12, F11. split; [lia|]. split; [assumption|discriminate].
    + rewrite F10 by assumption. apply I9. assumption.
Qed.

Lemma mdestroy_eq : forall k s p,
  mdestroy k s p = (let c := mscli p s in let p2 := mkill k s p in
                    if mdrain_test k p2 c && Nat.eqb (mactive p2 c) 0 && negb (mclosed p2 c) then mclose_event k c p2 else p2).
Proof. reflexivity. Qed.

Lemma mdestroy_inv : forall k p s, mk_sw k = mx_sw_fixed -> MInv k p -> (s < mnstreams p)%nat -> mlive p s = true ->
  MInv k (mdestroy k s p).
Proof.
  intros k p s Hsw HI Hs Hl. rewrite mdestroy_eq. cbn zeta.
  set (c := mscli p s). set (p2 := mkill k s p).
  assert (HX : MInvX k p2 (Some c)) by (apply mkill_inv; assumption).
  destruct (mkill_frame k s p) as [F1 [F2 [F3 [F4 [F5 [F6 [F7 [F8 [F9 _]]]]]]]]]. fold p2 in F1, F2, F3, F4, F5, F6, F7, F8, F9.
  assert (Hc : (c < mnclients p)%nat) by (apply (mi_scli _ _ _ HI); assumption).
  unfold mdrain_test. rewrite Hsw. cbn [sw_mx_goaway_flag mx_sw_fixed].
  destruct (mc_goaway (mcl p2 c) && Nat.eqb (mactive p2 c) 0 && negb (mclosed p2 c)) eqn:Ed.
  - apply andb_true_iff in Ed. destruct Ed as [Ed _]. apply andb_true_iff in Ed. destruct Ed as [_ Ez]. apply Nat.eqb_eq in Ez.
    apply mclose_event_inv; auto; rewrite F1; assumption.
  - apply (MInvX_strengthen k p2 c HX). rewrite F1. intros _ Hopen. rewrite Hopen in Ed. cbn in Ed. rewrite andb_true_r in Ed.
    assert (Hopen' : mclosed p c = false) by (unfold mclosed in *; rewrite F2 in Hopen; exact Hopen).
    assert (Hac := mactive_after_death p p2 s c F3 Hs Hl F8 F9). fold c in Hac. rewrite Nat.eqb_refl in Hac.
    rewrite F2 in *. rewrite F4.
    destruct (mc_goaway (mcl p c)) eqn:Eg.
    + cbn in Ed. apply Nat.eqb_neq in Ed. split; [right; split; [reflexivity|lia]|intros _; lia].
    + split; [|discriminate]. destruct (mi_open _ _ _ HI c) as [H|[H _]]; auto; [discriminate|congruence].
Qed.

Lemma mdestroy_frame : forall k s p,
  mnclients (mdestroy k s p) = mnclients p /\ mnstreams (mdestroy k s p) = mnstreams p /\
  mst (mdestroy k s p) = mst (mkill k s p) /\ mext (mdestroy k s p) = mext p /\ mshut (mdestroy k s p) = mshut p.
Proof.
  intros k s p. rewrite mdestroy_eq. cbn zeta. destruct (mkill_frame k s p) as [F1 [F2 [F3 [F4 [F5 [F6 _]]]]]].
  destruct (mdrain_test k (mkill k s p) (mscli p s) && Nat.eqb (mactive (mkill k s p) (mscli p s)) 0 && negb (mclosed (mkill k s p) (mscli p s))); auto.
  unfold mclose_event. destruct (mclosed (mkill k s p) (mscli p s)); auto.
  match goal with |- context [if ?b then _ else _] => destruct b end; cbn; auto.
Qed.

Lemma mreset_stream_inv : forall k p s code, mk_sw k = mx_sw_fixed -> MInv k p -> (s < mnstreams p)%nat ->
  MInv k (mreset_stream k s code p).
Proof.
  intros k p s code Hsw HI Hs. unfold mreset_stream. destruct (mlive p s) eqn:Hl; [|assumption].
  assert (HD := mdestroy_inv k p s Hsw HI Hs Hl).
  destruct (mdestroy_frame k s p) as [D1 [D2 [D3 [D4 D5]]]].
  destruct (mkill_frame k s p) as [_ [_ [_ [_ [_ [_ [_ [_ [F9 [_ [F11 _]]]]]]]]]]].
  assert (Hdead : mlive (mdestroy k s p) s = false).
  { unfold mlive. rewrite D3. specialize (F9 s). unfold mlive in F9. rewrite F9, Nat.eqb_refl. reflexivity. }
  apply (MInv_stream_fields k (mdestroy k s p) _ s None HD); try reflexivity; cbn.
  - rewrite D2. assumption.
  - intros t Hne. unfold upd. destruct (Nat.eqb_spec t s); [contradiction|reflexivity].
  - unfold upd. rewrite Nat.eqb_refl. reflexivity.
  - unfold upd. rewrite Nat.eqb_refl. reflexivity.
  - unfold upd. rewrite Nat.eqb_refl. reflexivity.
  - unfold upd. rewrite Nat.eqb_refl. cbn. apply (mi_once _ _ _ HD s). rewrite D2. assumption.
  - intros H. congruence.
Qed.

Lemma mreset_stream_frame : forall k s code p,
  mnclients (mreset_stream k s code p) = mnclients p /\ mnstreams (mreset_stream k s code p) = mnstreams p /\
  (forall t, mscli (mreset_stream k s code p) t = mscli p t) /\
  (forall t, mlive (mreset_stream k s code p) t = if Nat.eqb t s then false else mlive p t).
Proof.
  intros k s code p. unfold mreset_stream. destruct (mlive p s) eqn:Hl.
  - destruct (mdestroy_frame k s p) as [D1 [D2 [D3 _]]]. destruct (mkill_frame k s p) as [_ [_ [_ [_ [_ [_ [_ [F8 [F9 _]]]]]]]]].
    cbn. rewrite D1, D2. split; [reflexivity|]. split; [reflexivity|]. split.
    + intros t. unfold mscli. cbn. unfold upd. rewrite D3. destruct (Nat.eqb_spec t s) as [->|]; cbn; apply F8.
    + intros t. unfold mlive. cbn. unfold upd. rewrite D3. destruct (Nat.eqb_spec t s) as [->|N]; cbn.
      * specialize (F9 s). unfold mlive in F9. rewrite F9, Nat.eqb_refl. reflexivity.
      * specialize (F9 t). unfold mlive in F9. rewrite F9. destruct (Nat.eqb_spec t s); [contradiction|reflexivity].
  - repeat split; try reflexivity. intros t. destruct (Nat.eqb_spec t s) as [->|]; [exact Hl|reflexivity].
Qed.

Lemma mreset_all_inv : forall k c code n p, mk_sw k = mx_sw_fixed -> MInv k p -> (n <= mnstreams p)%nat ->
  MInv k (mreset_all k c code n p) /\ mnclients (mreset_all k c code n p) = mnclients p /\
  mnstreams (mreset_all k c code n p) = mnstreams p /\
  (forall t, mscli (mreset_all k c code n p) t = mscli p t) /\
  (forall t, mlive (mreset_all k c code n p) t = true -> mlive p t = true) /\
  (forall t, (t < n)%nat -> mlive (mreset_all k c code n p) t = true -> mscli p t <> c).
Proof.
  intros k c code n p Hsw HI. induction n as [|n IH]; intros Hn; cbn [mreset_all].
  - split; [assumption|]. split; [reflexivity|]. split; [reflexivity|]. split; [reflexivity|]. split; [auto|]. intros t Ht. lia.
  - destruct IH as [A [B [C [D [E F]]]]]; [lia|]. set (q := mreset_all k c code n p) in *.
    destruct (mlive q n && Nat.eqb (mscli q n) c) eqn:Ec.
    + destruct (mreset_stream_frame k n code q) as [R1 [R2 [R3 R4]]].
      split; [apply mreset_stream_inv; auto; lia|]. split; [congruence|]. split; [congruence|]. split.
      * intros t. rewrite R3. apply D.
      * split.
        -- intros t. rewrite R4. destruct (Nat.eqb_spec t n); [discriminate|]. apply E.
        -- intros t Ht. rewrite R4. destruct (Nat.eqb_spec t n); [discriminate|]. intros L. apply F; [lia|assumption].
    + split; [assumption|]. split; [assumption|]. split; [assumption|]. split; [assumption|]. split; [assumption|].
      intros t Ht L. destruct (Nat.eq_dec t n) as [->|N]; [|apply F; [lia|assumption]].
      rewrite L in Ec. cbn in Ec. apply Nat.eqb_neq in Ec. rewrite D in Ec. exact Ec.
Qed.

(* ------------------------------------------------------------------------------------------------ *)
(* client-side changes *)

(* state word / go-away flag of client c change, closed flag stays *)
Lemma MInv_client_update : forall k p c st' g',
  MInv k p -> (c < mnclients p)%nat ->
  ((st' = st_connected /\ g' = false) \/ ((st' = st_goaway \/ st' = st_connecting) /\ g' = true)) ->
  MInvX k (mset_client p c (mkMClient (mc_closed (mcl p c)) st' g')) (Some c).
Proof.
  intros k p c st' g' [I1 I2 I3 I4 I5 I6 I7 I8 I9] Hc Hst.
  set (p' := mset_client p c (mkMClient (mc_closed (mcl p c)) st' g')).
  assert (Hclo : forall c', mclosed p' c' = mclosed p c').
  { intros c'. unfold mclosed, p', mset_client. cbn. unfold upd. destruct (Nat.eqb_spec c' c) as [->|]; reflexivity. }
  assert (Hoth : forall c', c' <> c -> mcl p' c' = mcl p c').
  { intros c' N. unfold p', mset_client. cbn. unfold upd. destruct (Nat.eqb_spec c' c); [contradiction|reflexivity]. }
  constructor.
  - intros c' H. change (mslot p') with (mslot p) in H. change (mnclients p') with (mnclients p). rewrite Hclo. auto.
  - intros c' Hx H1 H2. rewrite Hclo in H2. assert (N : c' <> c) by congruence.
    change (mnclients p') with (mnclients p) in H1. change (mslot p') with (mslot p). change (mactive p' c') with (mactive p c').
    rewrite Hoth by assumption. apply I2; auto. discriminate.
  - intros c' Hx H1 H2. rewrite Hclo in H2. assert (N : c' <> c) by congruence.
    change (mnclients p') with (mnclients p) in H1. change (mactive p' c') with (mactive p c').
    rewrite Hoth by assumption. apply I3; auto. discriminate.
  - intros c' H1. change (mnclients p') with (mnclients p) in H1. destruct (Nat.eq_dec c' c) as [->|N].
    + unfold p', mset_client. cbn. unfold upd. rewrite Nat.eqb_refl. cbn. exact Hst.
    + rewrite Hoth by assumption. apply I4; assumption.
  - exact I5.
  - intros s Hs L. change (mscli p' s) with (mscli p s). rewrite Hclo. apply I6; assumption.
  - exact I7.
  - exact I8.
  - exact I9.
Qed.

(* the slot changes; a client that leaves the slot while open must be a go-away client that is still draining *)
Lemma MInv_set_slot : forall k p sl',
  MInv k p ->
  (forall c, sl' = SClient c -> (c < mnclients p)%nat /\ mclosed p c = false) ->
  (forall c, mslot p = SClient c -> sl' <> SClient c -> mclosed p c = false ->
     mc_goaway (mcl p c) = true /\ (mactive p c >= 1)%nat) ->
  MInv k (p <| mslot := sl' |>).
Proof.
  intros k p sl' [I1 I2 I3 I4 I5 I6 I7 I8 I9] Hnew Hold. constructor; cbn; auto.
  intros c _ H1 H2. destruct (I2 c ltac:(discriminate) H1 H2) as [H|H]; [|right; assumption].
  destruct sl' as [| |c0] eqn:E; try (right; apply Hold; [assumption|discriminate|assumption]).
  destruct (Nat.eq_dec c0 c) as [->|N]; [left; reflexivity|right]. apply Hold; [assumption|congruence|assumption].
Qed.

(* a freshly dialled client enters the slot *)
Lemma MInv_new_client : forall k p,
  MInv k p ->
  (forall c, mslot p = SClient c -> mclosed p c = false -> mc_goaway (mcl p c) = true /\ (mactive p c >= 1)%nat) ->
  MInv k (p <| mcl := upd (mcl p) (mnclients p) (mkMClient false st_connected false) |>
            <| mnclients := S (mnclients p) |> <| mslot := SClient (mnclients p) |>).
Proof.
  intros k p [I1 I2 I3 I4 I5 I6 I7 I8 I9] Hold.
  set (n := mnclients p).
  assert (Hnoact : mactive p n = 0%nat).
  { apply mactive_zero_iff. intros s Hs _ E. specialize (I5 s Hs). fold n in I5. lia. }
  constructor; cbn; fold n.
  - intros c H. inversion H; subst c. split; [lia|]. unfold mclosed. cbn. unfold upd. rewrite Nat.eqb_refl. reflexivity.
  - intros c _ H1. unfold mclosed. cbn. unfold upd. destruct (Nat.eqb_spec c n) as [->|N]; [intros _; left; reflexivity|].
    intros H2. right. assert (Hc : (c < n)%nat) by lia.
    destruct (I2 c ltac:(discriminate) Hc H2) as [H|H]; [|exact H]. apply Hold; assumption.
  - intros c _ H1. unfold mclosed. cbn. unfold upd. destruct (Nat.eqb_spec c n) as [->|N]; [cbn; discriminate|].
    intros H2. apply I3; [discriminate|lia|exact H2].
  - intros c H1. unfold upd. destruct (Nat.eqb_spec c n) as [->|N]; [left; cbn; auto|apply I4; lia].
  - intros s Hs. specialize (I5 s Hs). fold n in I5. unfold mscli in *. cbn. lia.
  - intros s Hs L. specialize (I5 s Hs). fold n in I5. specialize (I6 s Hs L). unfold mclosed, mscli in *. cbn. unfold upd.
    destruct (Nat.eqb_spec (ms_cli (mst p s)) n); [lia|]. exact I6.
  - assumption.
  - assumption.
  - assumption.
Qed.

Lemma minit_run_inv : forall k d p, MInv k p ->
  (forall c, mslot p = SClient c -> mclosed p c = false -> mc_goaway (mcl p c) = true /\ (mactive p c >= 1)%nat) ->
  MInv k (minit_run k d p).
Proof.
  intros k d p HI Hold. unfold minit_run. destruct (mshut p); [assumption|]. destruct (dial_ok d).
  - apply MInv_new_client; assumption.
  - apply MInv_set_slot; [assumption|discriminate|]. intros c H _ Ho. apply Hold; assumption.
Qed.

(* ------------------------------------------------------------------------------------------------ *)
Lemma mstep_inv : forall k p o, mk_sw k = mx_sw_fixed -> MInv k p -> MInv k (fst (mstep k p o)).
Proof.
  intros k p o Hsw HI. destruct o as [d| |s|s|c ev|c| |inc]; cbn [mstep].
  - (* MInit *)
    destruct (mslot p) as [| |c] eqn:Es; cbn [fst].
    + apply minit_run_inv.
      * apply MInv_set_slot; [assumption|discriminate|]. intros c H. congruence.
      * cbn. discriminate.
    + assumption.
    + destruct (mi_slot _ _ _ HI c Es) as [Hc Hopen].
      destruct (Nat.eqb_spec (mc_state (mcl p c)) st_connected) as [E2|N2]; [assumption|].
      destruct (Nat.eqb_spec (mc_state (mcl p c)) st_goaway) as [E3|N3]; cbn [fst]; [|assumption].
      assert (Hg : mc_goaway (mcl p c) = true).
      { destruct (mi_state _ _ _ HI c Hc) as [[A _]|[_ B]]; [congruence|exact B]. }
      set (p1 := mset_client p c (mkMClient (mc_closed (mcl p c)) st_connecting (mc_goaway (mcl p c)))).
      assert (H1 : MInv k p1).
      { apply (MInvX_strengthen k p1 c).
        - unfold p1. rewrite Hg. apply MInv_client_update; auto.
        - intros _ _. split; [left; exact Es|]. intros _. apply (mi_drain _ _ _ HI c); auto. discriminate. }
      apply minit_run_inv; [exact H1|].
      intros c' Hs' Ho'. change (mslot p1) with (mslot p) in Hs'. rewrite Es in Hs'. inversion Hs'; subst c'.
      unfold p1, mset_client. cbn. unfold upd. rewrite Nat.eqb_refl. cbn. split; [exact Hg|].
      change (mactive (p <| mcl := upd (mcl p) c (mkMClient (mc_closed (mcl p c)) st_connecting (mc_goaway (mcl p c))) |>) c) with (mactive p c).
      apply (mi_drain _ _ _ HI c); auto. discriminate.
  - (* MNew *)
    destruct (mslot p) as [| |c] eqn:Es; cbn [fst]; try assumption.
    destruct (Nat.eqb_spec (mc_state (mcl p c)) st_connected) as [E2|N2]; cbn [fst]; [|assumption].
    destruct (mcan_create k p); cbn [fst]; [|assumption].
    destruct (mi_slot _ _ _ HI c Es) as [Hc Hopen].
    destruct HI as [I1 I2 I3 I4 I5 I6 I7 I8 I9].
    set (n := mnstreams p).
    set (p' := mreq_inc k p <| mst := upd (mst p) n (mkMStream c true 0 0 0) |> <| mnstreams := S n |>).
    assert (F : mnclients p' = mnclients p /\ mcl p' = mcl p /\ mslot p' = mslot p /\ mext p' = mext p /\
                mreq p' = mreq p + 1 /\ mnstreams p' = S n /\
                mst p' = upd (mst p) n (mkMStream c true 0 0 0)).
    { unfold p', mreq_inc. cbn; auto 10. }
    destruct F as [F1 [F2 [F3 [F4 [F5 [F6 F7]]]]]].
    assert (Hlv : forall t, mlive p' t = if Nat.eqb t n then true else mlive p t).
    { intros t. unfold mlive. rewrite F7. unfold upd. destruct (Nat.eqb t n); reflexivity. }
    assert (Hsc : forall t, mscli p' t = if Nat.eqb t n then c else mscli p t).
    { intros t. unfold mscli. rewrite F7. unfold upd. destruct (Nat.eqb t n); reflexivity. }
    assert (Hac : forall c', (mactive p' c' >= mactive p c')%nat).
    { intros c'. unfold mactive. rewrite F6. cbn [mcount]. fold n.
      rewrite !mcount_countb. rewrite (countb_ext (fun s => mlive p' s && Nat.eqb (mscli p' s) c') (fun s => mlive p s && Nat.eqb (mscli p s) c') n).
      - pose proof (mcount_countb (fun s : nat => mlive p s && Nat.eqb (mscli p s) c') n) as Hm. fold n. unfold n in *.
        destruct (mlive p' (mnstreams p) && Nat.eqb (mscli p' (mnstreams p)) c'); lia.
      - intros i Hi. rewrite Hlv, Hsc. destruct (Nat.eqb_spec i n); [lia|reflexivity]. }
    assert (Hclo : forall c', mclosed p' c' = mclosed p c') by (intros; unfold mclosed; rewrite F2; reflexivity).
    constructor; rewrite ?F1, ?F3, ?F4, ?F5, ?F6.
    + intros c' H. rewrite Hclo. auto.
    + intros c' _ H1 H2. rewrite Hclo in H2. rewrite F2. destruct (I2 c' ltac:(discriminate) H1 H2) as [H|[H H']]; [left; assumption|right].
      split; [assumption|]. specialize (Hac c'). lia.
    + intros c' _ H1 H2. rewrite Hclo in H2. rewrite F2. intros G. specialize (I3 c' ltac:(discriminate) H1 H2 G). specialize (Hac c'). lia.
    + rewrite F2. assumption.
    + intros t Ht. rewrite Hsc. destruct (Nat.eqb_spec t n); [assumption|]. apply I5. fold n. lia.
    + intros t Ht. rewrite Hlv, Hsc, Hclo. destruct (Nat.eqb_spec t n); [intros _; assumption|]. apply I6. fold n. lia.
    + assert (Hm : mcount (mlive p') n = mcount (mlive p) n).
      { rewrite !mcount_countb. apply countb_ext. intros i Hi. rewrite Hlv. destruct (Nat.eqb_spec i n); [lia|reflexivity]. }
      rewrite I7. unfold mcount_live. rewrite F6. cbn [mcount]. rewrite Hlv, Nat.eqb_refl. rewrite Hm. fold n.
      lia.
    + assumption.
    + intros t Ht. rewrite Hlv. destruct (Nat.eqb_spec t n) as [->|N].
      * rewrite F7. unfold upd. rewrite Nat.eqb_refl. cbn. auto.
      * rewrite F7. unfold upd. destruct (Nat.eqb_spec t n); [contradiction|]. apply I9. fold n. lia.
  - (* MResponse *)
    destruct (Nat.ltb_spec s (mnstreams p)) as [Hs|]; cbn [andb fst]; [|assumption].
    destruct (mlive p s) eqn:Hl; cbn [fst]; [|assumption].
    assert (HD := mdestroy_inv k p s Hsw HI Hs Hl).
    destruct (mdestroy_frame k s p) as [D1 [D2 [D3 [D4 D5]]]].
    destruct (mkill_frame k s p) as [_ [_ [_ [_ [_ [_ [_ [_ [F9 [_ [F11 _]]]]]]]]]]].
    apply (MInv_stream_fields k (mdestroy k s p) _ s None HD); try reflexivity; cbn.
    + rewrite D2. assumption.
    + intros t Hne. unfold upd. destruct (Nat.eqb_spec t s); [contradiction|reflexivity].
    + unfold upd. rewrite Nat.eqb_refl. reflexivity.
    + unfold upd. rewrite Nat.eqb_refl. reflexivity.
    + unfold upd. rewrite Nat.eqb_refl. reflexivity.
    + unfold upd. rewrite Nat.eqb_refl. cbn. rewrite D3, F11. destruct (mi_once _ _ _ HI s Hs) as [_ [_ H]]. rewrite (H Hl). lia.
    + intros H. exfalso. unfold mlive in H. rewrite D3 in H. specialize (F9 s). unfold mlive in F9. rewrite F9, Nat.eqb_refl in H. discriminate.
  - (* MReset *)
    destruct (Nat.ltb_spec s (mnstreams p)) as [Hs|]; cbn [fst]; [|assumption]. apply mreset_stream_inv; assumption.
  - (* MConnClose *)
    destruct (Nat.ltb_spec c (mnclients p)) as [Hc|]; cbn [andb fst]; [|assumption].
    destruct (mclosed p c) eqn:Ecl; cbn [negb fst]; [assumption|].
    destruct (mreset_all_inv k c 3 (mnstreams p) p Hsw HI (le_n _)) as [A [B [C [D [E F]]]]].
    apply mclose_event_inv; auto.
    + apply MInvX_weaken. assumption.
    + rewrite B. assumption.
    + apply mactive_zero_iff. intros t Ht L. rewrite D. apply F; [rewrite C in Ht; assumption|assumption].
  - (* MGoAway *)
    destruct (Nat.ltb_spec c (mnclients p)) as [Hc|]; cbn [andb fst]; [|assumption].
    destruct (mclosed p c) eqn:Ecl; cbn [negb fst]; [assumption|].
    set (p1 := mset_client p c (mkMClient (mc_closed (mcl p c)) st_goaway true)).
    assert (HX : MInvX k p1 (Some c)) by (apply MInv_client_update; auto).
    assert (Hac : mactive p1 c = mactive p c) by reflexivity.
    destruct (Nat.eqb_spec (mactive p1 c) 0) as [Ez|Nz].
    + apply mclose_event_inv; auto.
    + apply (MInvX_strengthen k p1 c HX). intros _ _. split; [|intros _; lia].
      right. split; [|lia]. unfold p1, mset_client. cbn. unfold upd. rewrite Nat.eqb_refl. reflexivity.
  - (* MShutdown *)
    cbn [fst]. destruct HI as [I1 I2 I3 I4 I5 I6 I7 I8 I9]. constructor; auto.
  - (* MExtReq *)
    destruct HI as [I1 I2 I3 I4 I5 I6 I7 I8 I9].
    destruct inc; [|destruct (0 <? mext p) eqn:Ee]; cbn [fst]; try (constructor; assumption);
      constructor; cbn; try assumption; unfold mcount_live, mlive in *; cbn; lia.
Qed.

Theorem mrun_inv : forall k ops, mk_sw k = mx_sw_fixed -> MInv k (mrun k ops minit).
Proof.
  intros k ops Hsw. unfold mrun. generalize (minit_inv k). generalize minit.
  induction ops as [|o ops IH]; cbn [fold_left]; intros p HI; [assumption|]. apply IH. apply mstep_inv; assumption.
Qed.

(* ------------------------------------------------------------------------------------------------ *)
(* statements used by Props/C09.v *)

(* No connection is lost by the pool: after every history the slot holds an open connection; every open connection is
   either the pool's current one or a go-away connection that still drains at least one stream (so a drained go-away
   connection is closed); live streams sit on open connections; the Requests resource counts the live streams. *)
Theorem mx_no_orphan : forall k ops, mk_sw k = mx_sw_fixed -> let p := mrun k ops minit in
  (forall c, mslot p = SClient c -> (c < mnclients p)%nat /\ mclosed p c = false) /\
  (forall c, (c < mnclients p)%nat -> mclosed p c = false ->
     mslot p = SClient c \/ (mc_goaway (mcl p c) = true /\ (mactive p c >= 1)%nat)) /\
  (forall c, (c < mnclients p)%nat -> mclosed p c = false -> mc_goaway (mcl p c) = true -> (mactive p c >= 1)%nat) /\
  (forall s, (s < mnstreams p)%nat -> mlive p s = true -> mclosed p (mscli p s) = false) /\
  mreq p = Z.of_nat (mcount_live p) + mext p /\ 0 <= mext p /\
  (forall s, (s < mnstreams p)%nat -> (ms_destroys (mst p s) <= 1)%nat /\ (ms_recv (mst p s) <= 1)%nat).
Proof.
  intros k ops Hsw p. assert (HI := mrun_inv k ops Hsw). fold p in HI. destruct HI as [I1 I2 I3 I4 I5 I6 I7 I8 I9].
  split; [exact I1|]. split; [intros c H1 H2; apply I2; auto; discriminate|].
  split; [intros c H1 H2; apply I3; auto; discriminate|]. split; [exact I6|]. split; [exact I7|]. split; [exact I8|].
  intros s Hs. destruct (I9 s Hs) as [A [B _]]. split; [destruct (mlive p s); lia|exact B].
Qed.

(* A stream is created only on the pool's current connection, which is open, Connected and has not received go-away. *)
Theorem mx_lease_sound : forall k ops c, mk_sw k = mx_sw_fixed -> let p := mrun k ops minit in
  snd (mstep k p MNew) = MRL c ->
  mslot p = SClient c /\ mclosed p c = false /\ mc_state (mcl p c) = st_connected /\ mc_goaway (mcl p c) = false.
Proof.
  intros k ops c Hsw p H. assert (HI := mrun_inv k ops Hsw). fold p in HI. cbn [mstep] in H.
  destruct (mslot p) as [| |c0] eqn:Es; try discriminate.
  destruct (Nat.eqb_spec (mc_state (mcl p c0)) st_connected) as [E|N]; [|discriminate].
  destruct (mcan_create k p); [|discriminate]. cbn in H. inversion H; subst c0.
  destruct (mi_slot _ _ _ HI c Es) as [Hc Ho]. split; [reflexivity|]. split; [assumption|]. split; [assumption|].
  destruct (mi_state _ _ _ HI c Hc) as [[_ A]|[[B|B] _]]; [assumption| |]; unfold st_connected, st_goaway, st_connecting in *; congruence.
Qed.

(* Capacity returns: unless the pool was shut down, when the slot is empty or holds a go-away connection one
   CheckAndInit whose dial succeeds installs a fresh Connected connection, on which NewStream is granted (if the
   Requests limit accepts one more). *)
Theorem mx_capacity_returns : forall k ops, mk_sw k = mx_sw_fixed -> let p := mrun k ops minit in
  mshut p = false ->
  (mslot p = SEmpty \/ exists c, mslot p = SClient c /\ mc_state (mcl p c) = st_goaway) ->
  let p' := fst (mstep k p (MInit DialOk)) in
  mslot p' = SClient (mnclients p) /\ mc_state (mcl p' (mnclients p)) = st_connected /\ mclosed p' (mnclients p) = false /\
  (mcan_create k p' = true -> snd (mstep k p' MNew) = MRL (mnclients p)).
Proof.
  intros k ops Hsw p Hns Hslot p'.
  assert (Hp' : mslot p' = SClient (mnclients p) /\ mcl p' (mnclients p) = mkMClient false st_connected false).
  { unfold p'. cbn [mstep]. destruct Hslot as [E|[c [E E3]]]; rewrite E.
    - cbn [fst]. unfold minit_run. cbn. rewrite Hns. cbn. unfold upd. rewrite Nat.eqb_refl. auto.
    - rewrite E3. cbn [Nat.eqb st_goaway st_connected fst]. unfold minit_run, mset_client. cbn. rewrite Hns. cbn.
      unfold upd. rewrite Nat.eqb_refl. auto. }
  destruct Hp' as [A B]. split; [assumption|]. unfold mclosed. rewrite B. cbn. split; [reflexivity|]. split; [reflexivity|].
  intros Hcc. cbn [mstep]. rewrite A, B. cbn. rewrite Hcc. reflexivity.
Qed.
