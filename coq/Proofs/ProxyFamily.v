(* Finite-family theorems for the proxy model: for every configuration of an explicitly enumerated family and EVERY schedule
   (any length, any interleaving) over the event alphabet [allowed] (statuses {200,503}, two response shapes, four reset
   reasons, client disconnect, TerminateStream(403), timers, wake-ups; attempt indices unrestricted), the predicate holds.
   Discharged by exhaustive reachability (Proofs/ProxyReach.v) + vm_compute. *)
From Coq Require Import List ZArith Bool Arith Lia.
From RecordUpdate Require Import RecordSet.
Import RecordSetNotations.
From MV Require Import Model.ProxyBuiltin.
From MV Require Import Model.Proxy Model.ProxySpec Proofs.ProxyReach.
Import ListNotations.
Open Scope Z_scope.

Definition statuses : list Z := [200; 503].
Definition shapes : list (bool * bool) := [(false, false); (true, true)].
Definition up_reasons : list reason := [RsTermination; RsConnFailed; RsRemoteReset; RsOverflow].

Definition allowed (l : step) : Prop :=
  match l with
  | Worker => True
  | Env (EvUpResp _ st d t) => In st statuses /\ In (d, t) shapes
  | Env (EvUpReset _ r) => In r up_reasons
  | Env (EvPerTry _) | Env EvGlobal | Env EvWake => True
  | Env (EvDownReset r) => r = RsTermination
  | Env (EvTerminate code) => code = 403
  | Env (EvStaleTry _) | Env (EvStaleGlobal _) => False    (* covered by the general theorem stale_timer_noop *)
  end.

Definition resp_events (k : nat) : list step :=
  flat_map (fun st => map (fun sh => Env (EvUpResp k st (fst sh) (snd sh))) shapes) statuses.
Definition reset_events (k : nat) : list step := map (fun r => Env (EvUpReset k r)) up_reasons.

Definition sigma_at (x : ist) : list step :=
  let s := i_st x in
  [Worker; Env EvGlobal; Env (EvDownReset RsTermination); Env (EvTerminate 403); Env EvWake] ++
  resp_events (cur s) ++ reset_events (cur s) ++
  match try_armed s with Some k => [Env (EvPerTry k)] | None => [] end.

Lemma cover src c : forall x l, allowed l ->
  In l (sigma_at x) \/
  (let '(s', o) := do_step src c (i_st x) l in s' = i_st x /\ o = [] /\ is_down_reset l = false /\ is_terminate l = false).
Proof.
  intros x l Hl. unfold sigma_at. destruct l as [|e]; [left; cbn; auto|]. destruct e as [k st d t|k r|k| |r|code| |g|g]; cbn [allowed] in Hl.
  - destruct (Nat.eq_dec k (cur (i_st x))) as [->|Hk].
    + left. apply in_or_app. right. apply in_or_app. left. unfold resp_events. apply in_flat_map.
      destruct Hl as [H1 H2]. exists st. split; [exact H1|]. apply in_map_iff. exists (d, t). split; [reflexivity|exact H2].
    + right. cbn [do_step env_step]. apply Nat.eqb_neq in Hk. rewrite Hk. cbn. auto.
  - destruct (Nat.eq_dec k (cur (i_st x))) as [->|Hk].
    + left. apply in_or_app. right. apply in_or_app. right. apply in_or_app. left. unfold reset_events.
      apply in_map_iff. exists r. auto.
    + right. cbn [do_step env_step]. apply Nat.eqb_neq in Hk. rewrite Hk. cbn. auto.
  - destruct (try_armed (i_st x)) as [k'|] eqn:E.
    + destruct (Nat.eq_dec k k') as [->|Hk].
      * left. apply in_or_app. right. apply in_or_app. right. apply in_or_app. right. cbn. auto.
      * right. cbn [do_step env_step]. rewrite E. apply Nat.eqb_neq in Hk. rewrite Hk. cbn. auto.
    + right. cbn [do_step env_step]. rewrite E. cbn. auto.
  - left. cbn. auto.
  - subst r. left. cbn. auto.
  - subst code. left. cbn. auto.
  - left. cbn. auto 10.
  - contradiction.
  - contradiction.
Qed.

(* family check and its meaning *)
Definition fam_check (src : srcp) (P : cfg -> ist -> bool) (cs : list cfg) : bool :=
  forallb (fun c => reach_check src c sigma_at 0 (P c)) cs.

Theorem fam_sound src P cs : fam_check src P cs = true ->
  forall c, In c cs -> forall sched, Forall allowed sched -> P c (irun src c 0 sched) = true.
Proof.
  unfold fam_check. rewrite forallb_forall. intros H c Hc sched Hs.
  eapply reach_sound; [apply cover | apply H; exact Hc | exact Hs].
Qed.

Definition fam_states (src : srcp) (cs : list cfg) : nat :=
  fold_left (fun a c => (a + reach_size src c sigma_at 0)%nat) cs O.

(* ---------- the predicates ---------- *)
Definition no_defect (s : st) : bool := negb (x_loop s) && negb (x_upf s) && negb (x_nog s).
Definition implb' (a b : bool) : bool := negb a || b.

(* C03: well-formed single reply, cleanStream effects once, and at quiescence the request is over with an explained outcome -
   unless one of the three listed defect patterns occurred *)
Definition good_c03 (c : cfg) (x : ist) : bool :=
  let s := i_st x in let g := i_gs x in
  reply_wf g && (g_clean g <=? 1)%nat && (g_log g <=? 1)%nat && (g_destroy g <=? 1)%nat && negb (g_panic g) && negb (g_mixed g) &&
  implb' (quiescent s && no_defect s)
         (wdone s && cleaned s && (g_clean g =? 1)%nat && (g_ended g || i_dr x || g_term g || c_oneway c)) &&
  implb' (g_ended g && negb (c_oneway c)) (cleaned s).

(* C03 safety part only (holds with the defects present) *)
Definition safe_c03 (c : cfg) (x : ist) : bool :=
  let g := i_gs x in
  reply_wf g && (g_clean g <=? 1)%nat && (g_log g <=? 1)%nat && (g_destroy g <=? 1)%nat && negb (g_panic g).

(* C10: gauge; Retries resource *)
Definition good_c10_gauge (c : cfg) (x : ist) : bool :=
  let s := i_st x in let g := i_gs x in
  ((g_gauge g =? 0) || (g_gauge g =? -1)) && Bool.eqb (cleaned s) (g_gauge g =? -1) &&
  implb' (quiescent s && no_defect s) (g_gauge g =? -1).
Definition good_c10_res (src : srcp) (c : cfg) (x : ist) : bool :=
  let s := i_st x in let g := i_gs x in
  (0 <=? g_res_min g) && (g_res g <=? 1) && (rc s =? g_res g) &&
  (* the resource is 1 exactly while this request holds a reservation (0 throughout where it is not counted) *)
  (if res_off src c then g_res g =? 0 else Bool.eqb (reserved s) (g_res g =? 1)) &&
  implb' (cleaned s) (g_res g =? 0).

(* C10: upstream streams (the pool's Requests resource / UpstreamRequestActive hang on them): a retry never starts while the
   previous attempt's stream is still open, and once the request is over no stream is left open - except after TerminateStream,
   which answers the client without resetting the upstream attempt (listed finding) *)
Definition good_c10_streams (c : cfg) (x : ist) : bool :=
  let s := i_st x in let g := i_gs x in
  negb (g_leak g) && implb' (wdone s && cleaned s && negb (i_tm x) && negb (c_oneway c)) (negb (up_alive s)).

(* C02 (proxy half): the pooled per-request objects (the downStream and the pooled upstreamRequest) are given back only when
   nothing of this request can reach them any more: no timer armed (no reset flag was set at that moment: part of giveStream's own test),
   a single attempt, answered; in particular no
   attempt was abandoned unanswered (a reply already under way could still reach its listener) *)
Definition good_c02 (c : cfg) (x : ist) : bool :=
  let s := i_st x in
  (* nothing is written into the downStream object after it was given back to the pool *)
  negb (late_started s) &&
  implb' (gave s)
         (negb (abandoned s) && (nnew s <=? 1)%nat && negb (global_armed s) && negb (up_alive s) &&
          match try_armed s with None => true | Some _ => false end && cleaned s).

(* C14 *)
Definition good_c14 (c : cfg) (x : ist) : bool :=
  let s := i_st x in let g := i_gs x in
  negb (g_new_after_deny g) &&
  implb' (g_denied g) ((g_new g =? 0)%nat) &&
  implb' (g_denied g && g_started g) (match g_reply_kind g with Some (KUp, _) => false | Some _ => true | None => false end) &&
  (* every reply whose headers were written downstream had passed the send-filter chain since it was last replaced *)
  negb (x_unfilt s).

(* C17 retry part *)
Definition good_c17 (src : srcp) (c : cfg) (x : ist) : bool :=
  let g := i_gs x in
  (g_new g <=? 1 + budget src c)%nat && negb (g_new_after_start g) && negb (g_new_unchosen g) && negb (g_fin_bad g) &&
  (* a response is judged by the retry state with its own status, also when the status travels through the context variable *)
  negb (x_stale (i_st x)).

(* C03 time-out liveness: a parked worker (not one-way, no defect pattern) is guarded by an armed timer, and from a parked state
   with the global timer armed and nothing else pending, the expiry followed by the worker's reaction yields the 504 hijack reply *)
Definition parked (s : st) : bool := negb (wdone s) && negb (sleeping s) && phase_eqb (ph s) PWaitNotify && negb (notify s).
Fixpoint run_worker_n (src : srcp) (c : cfg) (n : nat) (x : st * gs) : st * gs :=
  match n with
  | O => x
  | S n' => if worker_enabled (fst x) then let '(s1, o1) := worker src c (fst x) in run_worker_n src c n' (s1, gs_outs (snd x) o1) else x
  end.
Definition good_timeout (src : srcp) (c : cfg) (x : ist) : bool :=
  let s := i_st x in let g := i_gs x in
  implb' (parked s && no_defect s && negb (c_oneway c)) (global_armed s || match try_armed s with Some _ => true | None => false end) &&
  implb' (parked s && global_armed s && negb (received s) && negb (down_reset s) && negb (up_reset s) && negb (direct s) &&
          has_upreq s && (match c_send c with [] => true | _ => false end))
         (let '(s1, o1) := env_step src c EvGlobal s in
          let '(s2, g2) := run_worker_n src c 40 (s1, gs_outs g o1) in
          wdone s2 && cleaned s2 && g_ended g2 && match g_reply_kind g2 with Some (KHijack, 504) => true | _ => false end).

(* C14: when a receive filter answered (no termination) and the client did not go away, the client gets that local reply,
   complete, and every send filter was invoked on it (once per filter unless one of them stopped the chain) *)
Definition good_c14_reply (c : cfg) (x : ist) : bool :=
  let s := i_st x in let g := i_gs x in
  implb' (g_denied g && negb (g_term g) && negb (i_dr x) && negb (i_tm x) && quiescent s && no_defect s)
         (g_ended g && (g_hdr g =? 1)%nat && negb (existsb (fun n => (1 <? n)%nat) (scalls s)) &&
          match g_reply_kind g with Some (KUp, _) => false | Some _ => true | None => false end).

Definition good_all (src : srcp) (c : cfg) (x : ist) : bool :=
  good_c03 c x && good_timeout src c x && good_c10_gauge c x && good_c10_res src c x && good_c10_streams c x && good_c02 c x && good_c14 c x && good_c14_reply c x &&
  good_c17 src c x.

(* ---------- configuration families ---------- *)
Definition mk (ow d t : bool) (r : route) (nh : nat) (ron : bool) (nr : nat) (codes : list Z) (tt : bool) (mx : Z)
              (rf : list rfilter) (sf : list sfilter) (pool : list poolres) : cfg :=
  {| c_oneway := ow; c_data := d; c_trailers := t; c_route := r; c_nhosts := nh; c_retry_on := ron; c_num_retries := nr;
     c_codes := codes; c_try_timeout := tt; c_max_retries := mx; c_recv := rf; c_send := sf; c_pool := pool; c_delay := []; c_snd_err_hdr := false; c_snd_err_data := false; c_snd_err_trl := false; c_http := false; c_nohost_from := None; c_late_reset := false; c_disable_retry := false |}.

Definition req_shapes : list (bool * bool * bool) :=
  [(false, false, false); (false, true, false); (false, true, true); (true, false, false)].
Definition pools : list (list poolres) := [[]; [PoolConnFail]; [PoolOverflow]; [PoolOk; PoolConnFail]; [PoolConnFail; PoolConnFail]].

(* forwarding configurations without filters: shape x retry policy x per-try x breaker x pool script *)
Definition fam_forward : list cfg :=
  flat_map (fun sh => let '(ow, d, t) := sh in
  flat_map (fun ron =>
  flat_map (fun tt =>
  flat_map (fun mx =>
  map (fun pool => mk ow d t RouteForward 2 ron 0 [] tt mx [] [] pool) pools)
  [0; 1]) [false; true]) [false; true]) req_shapes.

(* routes that do not forward, zero hosts *)
Definition fam_routes : list cfg :=
  flat_map (fun sh => let '(ow, d, t) := sh in
  map (fun r => mk ow d t (fst r) (snd r) true 0 [] true 1 [] [] [])
      [(RouteNone, 2%nat); (RouteDirect 403 false, 2%nat); (RouteDirect 200 true, 2%nat); (RouteNoCluster, 2%nat); (RouteForward, 0%nat)])
  req_shapes.

(* filter chains: one or two receive filters over the three phases with each verdict (no hijack-and-continue), one send filter *)
Definition deny_verdicts : list verdict := [VContinue; VStop; VTerm; VHijack; VDirect; VReMatch; VReChoose].
Definition fam_filters1 : list cfg :=
  flat_map (fun p =>
  flat_map (fun v =>
  map (fun sv => mk false false false RouteForward 2 true 0 [] false 0
                    [{| f_phase := p; f_code := 403; f_verdicts := [v] |}] [{| sf_code := 400; sf_verdicts := [sv] |}] [])
      [VContinue; VStop; VTerm; VHijack; VDirect]) deny_verdicts) [0; 1; 2]%nat.
Definition fam_filters2 : list cfg :=
  flat_map (fun pp =>
  flat_map (fun v1 => map (fun v2 =>
    mk false true false RouteForward 2 false 0 [] false 0
       [{| f_phase := fst pp; f_code := 403; f_verdicts := [v1] |}; {| f_phase := snd pp; f_code := 429; f_verdicts := [v2; v2] |}] [] [])
    deny_verdicts) deny_verdicts) [(0, 1); (1, 1); (1, 2); (2, 2)]%nat.

(* a filter that hijacks but lets the chain continue, followed by every verdict *)
Definition fam_hijack_cont : list cfg :=
  flat_map (fun p => map (fun v2 =>
    mk false false false RouteForward 2 true 0 [] false 0
       [{| f_phase := p; f_code := 403; f_verdicts := [VHijackCont] |}; {| f_phase := p; f_code := 429; f_verdicts := [v2] |}]
       [{| sf_code := 400; sf_verdicts := [] |}] [])
    (VHijackCont :: deny_verdicts)) [0; 1; 2]%nat.

(* larger retry budgets, status-code lists *)
Definition fam_retry : list cfg :=
  [mk false false false RouteForward 2 true 4 [] true 1 [] [] [PoolConnFail];
   mk false true false RouteForward 2 true 4 [503] false 2 [] [] [];
   mk false false false RouteForward 2 false 5 [] false 0 [] [] [PoolConnFail; PoolConnFail]].

(* send filters that hijack / answer directly from the send phase (through the receive handler, as the transcoder filter does),
   with retries: the upstream's 5xx-with-body is retried and the next attempt fails to connect / overflows *)
Definition fam_send_hijack : list cfg :=
  flat_map (fun sv => map (fun pool =>
    mk false false false RouteForward 2 true 0 [] false 0 [{| f_phase := 0; f_code := 403; f_verdicts := [] |}]
       [{| sf_code := 400; sf_verdicts := [sv; VContinue] |}] pool)
    [[]; [PoolOk; PoolConnFail]; [PoolOk; PoolOverflow]]) [VContinue; VHijack; VDirect; VStop].

(* chains of the built-in deny filters (Model/ProxyBuiltin.v): ip_access (BeforeRoute, 403), payload_limit (AfterRoute, limit 10,
   413), fault_inject (AfterRoute, 503, for requests carrying x-fault) - every combination of their decisions, reached through
   requests without body / under / over the limit, with / without the fault header, from a listed / unlisted address, on a route
   without per-route configuration and on one that overrides the limit (1000); and the payload_limit filter alone *)
Definition bl_all : lcfg :=
  {| l_ip := Some {| ip_entries := [IpDeny]; ip_default_deny := false |};
     l_pl := Some {| pl_max := 10; pl_status := 413 |};
     l_fi := Some {| fi_status := 503; fi_always := true; fi_upstream := None; fi_hdr := true |} |}.
Definition bl_pl : lcfg := {| l_ip := None; l_pl := Some {| pl_max := 10; pl_status := 413 |}; l_fi := None |}.
Definition b_routes : list rcfg :=
  [{| r_cluster := 0; r_pl := None; r_fi := None |}; {| r_cluster := 0; r_pl := Some {| pl_max := 1000; pl_status := 413 |}; r_fi := None |}].
Definition b_reqs : list breq :=
  flat_map (fun m => flat_map (fun body => map (fun h => {| q_body := body; q_fault_hdr := h; q_member := [Some m] |}) [false; true])
                              [None; Some 5; Some 20]) [false; true].
Definition fam_builtin : list cfg :=
  flat_map (fun r => map (fun q => builtin_cfg bl_all r q) b_reqs) b_routes ++
  flat_map (fun r => map (fun body => builtin_cfg bl_pl r {| q_body := body; q_fault_hdr := false; q_member := [] |}) [None; Some 5; Some 20]) b_routes.

(* the HTTP flavour (status mapping reads the x-mosn-status variable of the request context): retry policies x per-try x breaker x
   pool scripts, with and without a status-code list *)
Definition fam_http : list cfg :=
  flat_map (fun codes =>
  flat_map (fun tt =>
  flat_map (fun mx =>
  map (fun pool => mk false false false RouteForward 2 true (match codes with [] => 0 | _ => 2 end) codes tt mx [] [] pool <| c_http := true |>) pools)
  [0; 1]) [false; true]) [[]; [503]] ++
  [mk false true false RouteForward 2 true 0 [] true 0 [] [] [] <| c_http := true |>;
   mk false false false RouteForward 2 false 0 [] false 0 [] [] [PoolConnFail] <| c_http := true |>;
   mk false false false RouteForward 2 true 0 [] false 0 [{| f_phase := 0; f_code := 403; f_verdicts := [] |}] [] [] <| c_http := true |>].

(* the re-attempt of a retry cannot start (no healthy host / no cluster any more at retry time): the local 502 is produced in the
   retry phase, after the retried 5xx had gone through the send filters; chains with send filters that continue / stop / answer *)
Definition fam_nohost : list cfg :=
  flat_map (fun sv =>
  flat_map (fun tt => map (fun http =>
    mk false false false RouteForward 2 true 0 [] tt 0 [{| f_phase := 0; f_code := 403; f_verdicts := [] |}]
       [{| sf_code := 400; sf_verdicts := [VContinue; sv] |}; {| sf_code := 401; sf_verdicts := [] |}] []
       <| c_http := http |> <| c_nohost_from := Some 1%nat |>) [false; true]) [false; true])
  [VContinue; VStop; VHijack; VDirect] ++
  [mk false true false RouteForward 2 true 0 [] false 1 [] [{| sf_code := 400; sf_verdicts := [] |}] [PoolConnFail] <| c_nohost_from := Some 1%nat |>;
   mk false false false RouteForward 2 true 2 [503] true 0 [] [{| sf_code := 400; sf_verdicts := [] |}] [] <| c_nohost_from := Some 2%nat |>].

Definition chunkn (n k : nat) (l : list cfg) : list cfg := firstn n (skipn (n * k) l).
