#!/bin/bash
# tools/seedall.sh <id> <demo pkgdir> <PID> [demo build tags]  : verify a seed and run the property's check on it (compact output)
ID=$1; PKG=$2; PID=$3
echo "######## $ID ($PID)"
/verif/tools/seedverify.sh /tmp/seed-$ID $PKG 2>&1 | grep -E "REBASE|^--- (demo|FAIL|base)|^ok|^FAIL|packages=" | tr '\n' ';' ; echo
/verif/tools/seedrun.sh /tmp/seed-$ID $PID 2>&1 | grep -v "^KNOWN" | tail -3
