#!/bin/bash
# tools/seedapplies.sh : does every seeded patch still apply to /repo HEAD?
for d in /verif/seeded/*/; do
  if git -C /repo apply --check $d/patch.diff 2>/dev/null; then echo "ok    $(basename $d)"; else echo "STALE $(basename $d)"; fi
done
