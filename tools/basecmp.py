#!/usr/bin/env python3
"""Run `go test` (guard OFF) on the given /repo packages and compare with /root/.vp/BASELINE.json stable_pass.
usage: basecmp.py [-tags verif] ./pkg/router ./pkg/proxy ...   (or 'all')"""
import json, subprocess, sys, os
args = sys.argv[1:]
tags = []
if args and args[0] == '-tags':
    tags = ['-tags', args[1]]; args = args[2:]
base = json.load(open('/root/.vp/BASELINE.json'))
stable = set(base['stable_pass'])
env = dict(os.environ, GOFLAGS='-mod=mod', GOPROXY='off', GOSUMDB='off', GOTOOLCHAIN='local')
pkgs = ['./...'] if args == ['all'] else args
p = subprocess.run(['go', 'test', '-json', '-vet=off', '-count=1', '-timeout', '25m'] + tags + pkgs, cwd=os.environ.get('VERIF_REPO','/repo'), env=env, capture_output=True, text=True)
res = {}
for line in p.stdout.splitlines():
    try: e = json.loads(line)
    except Exception: continue
    if e.get('Test') and e.get('Action') in ('pass', 'fail', 'skip'):
        res[e['Package'] + '::' + e['Test']] = e['Action']
pk = set(k.split('::')[0] for k in res)
want = [t for t in stable if t.split('::')[0] in pk]
bad = [t for t in want if res.get(t) != 'pass']
print(f"packages={len(pk)} tests_run={len(res)} stable_expected={len(want)} not_passing={len(bad)}")
for t in sorted(bad)[:40]: print('  NOT PASS', t, res.get(t))
sys.exit(1 if bad else 0)
