#!/bin/sh
# Build the framework from files on disk only (offline).
set -e
V=${VERIF_ROOT:-/verif}; R=${VERIF_REPO:-/repo}
cd $V
export GOFLAGS=-mod=mod GOPROXY=off GOSUMDB=off GOTOOLCHAIN=local
mkdir -p .build coq/Gen coq/Cases evidence replays
cp $R/go.sum harness/go.sum
for d in harness/cmd/*/; do g=$(basename $d)
  (cd harness && go build -tags verif -o $V/.build/vh-$g ./cmd/$g) && ./.build/vh-$g gen --repo $R --out $V/coq/Gen || echo "setup: group $g failed to build"
done
python3 - <<'PY'
import sys, os; sys.path.insert(0, os.environ.get('VERIF_ROOT','/verif')+'/tools')
import check; check.coq_project()
PY
# full .vo build; a failure here is reported by the individual checks, so do not abort setup
(cd coq && timeout 3000 make -j16 -k >$V/.build/setup_make.log 2>&1) || echo "setup: coq build incomplete (see .build/setup_make.log)"
# hygiene: no axioms / admits / disabled checks in the development
if ! python3 - <<'PY'
import re, sys, glob
# Coq comments (nested) are removed first: the words below are forbidden as DECLARATIONS / TACTICS, not in prose
def strip(src):
    out=[]; depth=0; i=0; instr=False
    while i < len(src):
        c=src[i]
        if depth==0 and c=='"': instr = not instr; out.append(c); i+=1; continue
        if not instr and src.startswith('(*', i): depth+=1; i+=2; continue
        if not instr and depth>0 and src.startswith('*)', i): depth-=1; i+=2; continue
        if depth==0: out.append(c)
        elif c=='\n': out.append('\n')
        i+=1
    return ''.join(out)
pat=re.compile(r'\b(Admitted|admit|Axiom|Axioms|Parameter|Parameters|Conjecture|Conjectures|Unset\s+Guard|Unset\s+Positivity|Unset\s+Universe|bypass_check|Admit\s+Obligations|give_up)\b')
bad=0
for d in ('coq/Lib','coq/Model','coq/Proofs','coq/Props'):
    for f in sorted(glob.glob(d+'/**/*.v', recursive=True)):
        for n,line in enumerate(strip(open(f).read()).split('\n'),1):
            if pat.search(line):
                print(f'{f}:{n}: {line.strip()[:160]}'); bad+=1
sys.exit(1 if bad else 0)
PY
then echo "setup: forbidden declaration found"; exit 1; fi
echo setup done
