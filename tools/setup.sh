#!/bin/sh
# Build the framework from files on disk only (offline).
set -e
V=${VERIF_ROOT:-/verif}; R=${VERIF_REPO:-/repo}
cd $V
export GOFLAGS=-mod=mod GOPROXY=off GOSUMDB=off GOTOOLCHAIN=local
mkdir -p .build coq/Gen coq/Cases evidence replays
cp $R/go.sum harness/go.sum
for d in harness/cmd/*/; do g=$(basename $d)
  (cd harness && go build -tags verif -o $V/.build/vh-$g ./cmd/$g) && ./.build/vh-$g gen --repo $R --out $V/coq/Gen || echo "setup: group $g failed to build"
done
python3 - <<'PY'
import sys, os; sys.path.insert(0, os.environ.get('VERIF_ROOT','/verif')+'/tools')
import check; check.coq_project()
PY
# full .vo build; a failure here is reported by the individual checks, so do not abort setup
(cd coq && timeout 3000 make -j16 -k >$V/.build/setup_make.log 2>&1) || echo "setup: coq build incomplete (see .build/setup_make.log)"
# hygiene: no axioms / admits / disabled checks in the development
if grep -rnE '\b(Admitted|admit|Axiom|Parameter|Conjecture|Unset Guard|bypass_check|Admit Obligations)\b' coq/Lib coq/Model coq/Proofs coq/Props --include=*.v; then
  echo "setup: forbidden declaration found"; exit 1; fi
echo setup done
