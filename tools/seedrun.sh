#!/bin/sh
# Run checks against a MUTATED copy of mosn without touching /repo or /verif:
#   tools/seedrun.sh <mosn-worktree> <PID> [<PID> ...]
# Copies /verif (with its compiled .vo files) to a scratch dir, points the harness module at the worktree,
# runs ./check there with VERIF_ROOT/VERIF_REPO set, prints the result lines, removes the scratch dir.
set -e
WT=$1; shift
S=$(mktemp -d /tmp/vseed-XXXXXX)
rsync -a --exclude .git --exclude .build --exclude replays /verif/ $S/
sed -i "s#replace mosn.io/mosn => /repo#replace mosn.io/mosn => $WT#" $S/harness/go.mod
cp $WT/go.sum $S/harness/go.sum
rc=0
for p in "$@"; do
  echo "== $p on $WT"
  (cd $S && VERIF_ROOT=$S VERIF_REPO=$WT python3 $S/tools/check.py $p --tier ${VERIF_TIER:-quick}) || rc=1
  mkdir -p /verif/.build/seedrun && cp $S/evidence/$p.json /verif/.build/seedrun/$p.$(basename $WT).json 2>/dev/null || true
  mkdir -p /verif/.build/seedrun/replays && cp $S/replays/* /verif/.build/seedrun/replays/ 2>/dev/null || true
done
rm -rf $S
exit $rc
