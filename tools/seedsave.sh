#!/bin/bash
# tools/seedsave.sh <id> "<detected_by text>"  : copy a confirmed seeded change from /tmp/seed-<id> into /verif/seeded/<id>
ID=$1; DET=$2; WT=/tmp/seed-$ID; D=/verif/seeded/$ID
mkdir -p $D
(cd $WT && git diff -- . ':!go.sum' > $D/patch.diff)
cp $WT/_seed/demo_test.go $D/ 2>/dev/null || cp $WT/_seed/demo* $D/
python3 - "$ID" "$DET" <<'PY'
import json,sys
i,det=sys.argv[1:3]
m=json.load(open(f'/tmp/seed-{i}/_seed/meta.json'))
m['breaks_property']=i.split('-')[0]
m['confirmed_by_lead']=['tools/seedverify.sh: change rebased onto /repo HEAD; demo FAILS with the change, PASSES without; baseline tests of the touched packages (guard off) still pass with the change',
                        'tools/seedrun.sh <worktree> '+i.split('-')[0]+' (the registered quick check against the mutated tree, /repo untouched)']
m['detected_by']=det
json.dump(m,open(f'/verif/seeded/{i}/meta.json','w'),indent=1)
PY
echo saved $D
