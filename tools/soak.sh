#!/bin/bash
# tools/soak.sh [rounds] : from the current directory (a checkout of /verif), build and run every claimed check
# `rounds` times with different seeds; print one line per run; exit 1 if any run alarmed.
R=${1:-2}
export VERIF_ROOT=$(pwd)
rc=0
./tools/setup.sh >.build.setup.log 2>&1 || { echo "SETUP FAILED (exit code of setup_cmd is not 0):"; tail -3 .build.setup.log | cut -c1-300; rc=1; }
for r in $(seq 1 $R); do
  for p in $(python3 -c "import json;print(' '.join(c['property_id'] for c in json.load(open('MANIFEST.json'))['checks']))"); do
    seed=$((100*r+7))
    out=$(python3 tools/check.py $p --seed $seed 2>&1 | grep -v '^KNOWN-FINDING' | tail -3)
    echo "$out" | tail -1
    if echo "$out" | grep -q VIOLATION; then rc=1; echo "$out" | grep VIOLATION; cp replays/$p-*.json /verif/.build/ 2>/dev/null; fi
  done
done
exit $rc
