#!/bin/bash
# tools/seedrebase.sh <worktree> : move the worktree's uncommitted change onto /repo HEAD (no git stash!)
WT=$1; cd $WT || exit 2
H=$(git -C /repo rev-parse HEAD)
[ "$(git rev-parse HEAD)" = "$H" ] && exit 0
git diff -- . ':!go.sum' > /tmp/$(basename $WT).rebase.diff && git checkout -q -- . && git checkout -q --detach $H && git apply --3way /tmp/$(basename $WT).rebase.diff || { echo "REBASE CONFLICT in $WT"; exit 3; }
git reset -q; rm -f /tmp/$(basename $WT).rebase.diff
