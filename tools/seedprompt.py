#!/usr/bin/env python3
"""Print the prompt for a mutation sub-agent: tools/seedprompt.py <PID> <worktree> '<focus hint>' '<test packages>'"""
import json, sys
pid, wt, hint, pkgs = sys.argv[1:5]
p = [json.loads(l) for l in open('/verif/properties.jsonl') if json.loads(l)['id'] == pid][0]
print(f"""You are testing how robust a software project's quality checks are. You have your own scratch git worktree of the Go project mosn/mosn at {wt} (work ONLY there; do not read or write /verif or /repo; do not look outside this worktree except the Go toolchain/module cache). Environment for every shell call: `export GOFLAGS=-mod=mod GOPROXY=off GOSUMDB=off GOTOOLCHAIN=local` (no network). Files named verif_hooks*.go (build tag verif) are test hooks: leave them alone.

Property that the code is supposed to satisfy ({pid} "{p['title']}"):
"{p['statement']}"
(Quantified over: {p['quantifier']['text']})
Relevant code: {', '.join(p['anchors']['files'])}.

Task: produce ONE realistic change to the mosn source (a plausible refactor/optimisation/bugfix-gone-wrong a developer might make) that BREAKS this property while the project still compiles (`go build ./...`) and the existing tests of the touched packages still pass (`go test -vet=off -count=1 {pkgs}`; first run them WITHOUT your change to see which tests already fail - ignore those). The breakage should need something specific to manifest - a particular interleaving, a fault at a particular point, a multi-step sequence of operations, an unusual input or boundary value, or two cooperating sites that each look fine alone - not something ordinary use would expose at once. Focus: {hint}

Deliver in {wt}/_seed/ : (1) patch.diff (`git diff` of your source change only, no test files), (2) a demonstration: a Go test file demo_test.go (state in a header comment which package directory it must be copied into) or small program that FAILS with your change and PASSES without it (verify both; NEVER use `git stash` - the stash is shared by all worktrees of this repository and other people are using it: use `git diff > /tmp/<your-unique-name>.diff; git apply -R /tmp/<...>.diff; <run>; git apply /tmp/<...>.diff` instead), (3) meta.json {{"property":"{pid}","summary":"...","needs":"what specific condition is needed to manifest","ran":["commands you ran and their outcomes"]}}. Leave the worktree with your change applied (and the demo NOT copied into the package). Keep your final answer short: the summary and the file list.""")
