#!/usr/bin/env python3
"""Orchestrator:  ./check CNN [--tier quick|thorough] [--seed N] [--replay PATH]

Per run, for property CNN (meta/CNN.json says which harness command / Props file):
  1. rebuild the Go harness against /repo's working tree (build tag verif)
  2. regenerate coq/Gen from /repo (translators)
  3. make Props/CNN.vo (full .vo build of the model, the proofs and the property theorems)
  4. run the correspondence harness on the REAL code; it also evaluates the property itself on the
     implementation (the finder) and writes Coq case shards; evaluate every shard with coqc/vm_compute
  5. decide: unlisted finder failure -> VIOLATION with the concrete input as replay;
     broken proof / translator / correspondence without a failing input -> VIOLATION ... no-failing-input-found;
     listed finder failure -> KNOWN-FINDING line
  6. write evidence/CNN.json
"""
import sys, os, json, subprocess, time, hashlib, re, fcntl, argparse, glob, shutil
from concurrent.futures import ThreadPoolExecutor

V = os.environ.get('VERIF_ROOT', '/verif')
REPO = os.environ.get('VERIF_REPO', '/repo')
COQ = V + '/coq'
BUILD = V + '/.build'
ENV = dict(os.environ, GOFLAGS='-mod=mod', GOPROXY='off', GOSUMDB='off', GOTOOLCHAIN='local', VERIF_REPO=REPO, VERIF_ROOT=V)


def sh(cmd, cwd=None, timeout=None, env=None):
    """Run a command in its own process group; on timeout kill the whole group (coqc/coqchk children included)."""
    import signal, resource

    def _limits():
        # coqc needs a deep stack for big case lists (a 600 kB `cases` literal overflows the default 8 MB)
        try:
            soft, hard = resource.getrlimit(resource.RLIMIT_STACK)
            resource.setrlimit(resource.RLIMIT_STACK, (hard, hard))
        except Exception:
            pass
    t = time.time()
    p = subprocess.Popen(cmd, cwd=cwd, shell=isinstance(cmd, str), stdout=subprocess.PIPE, stderr=subprocess.STDOUT,
                         env=env or ENV, start_new_session=True, preexec_fn=_limits)
    try:
        out, _ = p.communicate(timeout=timeout)
        return p.returncode, out.decode(errors='replace'), time.time() - t
    except subprocess.TimeoutExpired:
        try:
            os.killpg(p.pid, signal.SIGKILL)
        except OSError:
            pass
        out, _ = p.communicate()
        return 124, (out or b'').decode(errors='replace') + '\nTIMEOUT after %ss' % timeout, time.time() - t


class Lock:
    def __init__(self, name='lock'):
        os.makedirs(BUILD, exist_ok=True)
        self.f = open(os.path.join(BUILD, name), 'w')

    def __enter__(self):
        fcntl.flock(self.f, fcntl.LOCK_EX)

    def __exit__(self, *a):
        fcntl.flock(self.f, fcntl.LOCK_UN)


def coq_project():
    """(re)write _CoqProject listing every .v under Lib Model Proofs Props Gen; (re)create the Makefile when it changed."""
    files = []
    for d in ('Lib', 'Gen', 'Model', 'Proofs', 'Props'):
        files += sorted(glob.glob(f'{COQ}/{d}/*.v'))
    txt = '-Q . MV\n-arg -w -arg -notation-overridden,-deprecated-hint-without-locality,-deprecated-instance-without-locality\n' + '\n'.join(os.path.relpath(f, COQ) for f in files) + '\n'
    p = COQ + '/_CoqProject'
    old = open(p).read() if os.path.exists(p) else ''
    if old != txt or not os.path.exists(COQ + '/Makefile'):
        open(p, 'w').write(txt)
        rc, out, _ = sh('coq_makefile -f _CoqProject -o Makefile', cwd=COQ)
        if rc != 0:
            raise RuntimeError('coq_makefile failed: ' + out)


def build_harness(pkg):
    if not os.path.exists(V + '/harness/go.sum'):
        shutil.copy(REPO + '/go.sum', V + '/harness/go.sum')
    rc, out, dt = sh(['go', 'build', '-tags', 'verif', '-o', f'{BUILD}/vh-{pkg}', f'./cmd/{pkg}'], cwd=V + '/harness', timeout=1500)
    return rc, out, dt


def load_meta(pid):
    """A property's meta is the merge of meta/parts/<pid>.<group>.json (several groups may contribute
    theorem files and harness commands to one property)."""
    parts = [json.load(open(f)) for f in sorted(glob.glob(f'{V}/meta/parts/{pid}.*.json'))]
    if not parts:
        raise SystemExit(f'no meta/parts/{pid}.*.json')
    m = {'props_files': [], 'harness': [], 'trusted_base': [], 'assumptions': []}
    for p in parts:
        m['props_files'] += p.get('props_files', [])
        if p.get('harness'):
            m['harness'].append(p['harness'])
        m['trusted_base'] += p.get('trusted_base', [])
        m['assumptions'] += p.get('assumptions', [])
        for k in ('make_timeout_s', 'harness_timeout_s', 'shard_timeout_s', 'shard_workers', 'coqchk_timeout_s'):
            if k in p:
                m[k] = max(m.get(k, 0), p[k])
        for k in ('technique', 'level_text', 'level_note', 'design_ref'):
            if p.get(k):
                m[k] = (m[k] + ' || ' if m.get(k) else '') + p[k]
    return m


def main():
    ap = argparse.ArgumentParser()
    ap.add_argument('prop')
    ap.add_argument('--tier', default=os.environ.get('VERIF_TIER', 'quick'))
    ap.add_argument('--seed', type=int, default=int(os.environ.get('VERIF_SEED', '1') or 1))
    ap.add_argument('--replay')
    a = ap.parse_args()
    pid = a.prop
    if a.tier not in ('quick', 'thorough'):
        a.tier = 'quick'
    meta = load_meta(pid)
    t0 = time.time()
    replay_expect = None
    if a.replay:
        rp = json.load(open(a.replay))
        a.seed = rp.get('seed', a.seed)
        a.tier = rp.get('tier', a.tier)
        replay_expect = rp.get('signature')
        print(f'replaying {a.replay}: seed={a.seed} tier={a.tier} signature={replay_expect}')

    listed = {}
    for kf in [V + '/known_findings.json'] + sorted(glob.glob(V + '/known_findings.d/*.json')):
        known = json.load(open(kf))
        listed.update({f['signature']: f for f in known.get('findings', []) if f['property'] == pid})

    broken = []       # obligations / ties that no longer check: dicts {kind, what, detail}
    log = {}
    props_files = meta['props_files']
    run_root = f'{BUILD}/run/{pid}.{os.getpid()}'   # per process: concurrent runs of one property must not delete each other's shards
    for old in glob.glob(f'{BUILD}/run/{pid}.*'):
        try:
            if time.time() - os.path.getmtime(old) > 3600:
                shutil.rmtree(old, ignore_errors=True)
        except OSError:
            pass
    shutil.rmtree(run_root, ignore_errors=True)
    os.makedirs(run_root, exist_ok=True)

    # ---- 1-3: build under the global lock
    pa_text = ''
    built = {}
    obligations = discharged = 0
    thm_names = []
    coq_ok = True
    checker_cmds = []
    with Lock():
        for h in meta['harness']:
            pkg = h['pkg']
            if pkg in built:
                continue
            rc, out, dt = build_harness(pkg)
            log[f'harness_build_{pkg}_s'] = round(dt, 1)
            built[pkg] = rc == 0
            if rc != 0:
                broken.append({'kind': 'harness-build', 'what': f'the correspondence harness cmd/{pkg} no longer builds against /repo', 'detail': out[-3000:]})
                continue
            rc, out, dt = sh([f'{BUILD}/vh-{pkg}', 'gen', '--repo', REPO, '--out', COQ + '/Gen'], timeout=600)
            if rc != 0:
                broken.append({'kind': 'translator', 'what': f'vh-{pkg} gen failed', 'detail': out[-3000:]})
        coq_project()
        for props_file in props_files:
            vo = COQ + '/' + props_file[:-2] + '.vo'
            if os.path.exists(vo):
                os.remove(vo)
            cmd = f'make -C {COQ} -j16 {props_file[:-2]}.vo'
            checker_cmds.append(cmd)
            rc, out, dt = sh(cmd, timeout=int(meta.get('make_timeout_s', 1500)))
            log[f'make_{os.path.basename(props_file)}_s'] = round(dt, 1)
            pa_text += out
            src = open(COQ + '/' + props_file).read()
            thms = [(m.start(), m.group(2)) for m in re.finditer(r'^(Theorem|Lemma|Example|Corollary)\s+(\w+)', src, re.M)]
            obligations += len(thms)
            thm_names += [n for _, n in thms]
            if rc == 0:
                discharged += len(thms)
                continue
            coq_ok = False
            m = re.search(r'File "([^"]+)", line (\d+), characters [\d-]+:\s*\n(Error:.*?)(?:\n\n|\nmake|\Z)', out, re.S)
            where = f'{m.group(1)}:{m.group(2)}' if m else 'unknown'
            err = m.group(3)[:1500] if m else out[-1500:]
            broken.append({'kind': 'proof', 'what': f'Coq build of {props_file} failed at {where}', 'detail': err})
            if m and m.group(1).endswith(os.path.basename(props_file)):
                off = sum(len(l) + 1 for l in src.split('\n')[:int(m.group(2)) - 1])
                discharged += max(len([1 for (pos, _) in thms if pos < off]) - 1, 0)
    checker_cmd = ' && '.join(checker_cmds)
    n_closed = len(re.findall(r'Closed under the global context', pa_text))
    ax_blocks = re.findall(r'Axioms:\n((?:[^\n]+\n)+?)(?:\n|\Z|(?=COQC|make))', pa_text + '\n')
    axioms = sorted(set(re.findall(r'^([\w.\']+)\s*:', ''.join(ax_blocks), re.M)))
    assumptions_printed = n_closed + len(ax_blocks)

    # ---- 4: correspondence + finder (every harness part of this property)
    summaries = []
    mismatches = []
    shards_ok = shards_total = 0
    for h in meta['harness']:
        pkg, hc = h['pkg'], h['cmd']
        if not built.get(pkg):
            continue
        run_dir = f'{run_root}/{pkg}-{hc}'
        os.makedirs(run_dir, exist_ok=True)
        cmd = [f'{BUILD}/vh-{pkg}', hc, '--tier', a.tier, '--seed', str(a.seed), '--out', run_dir]
        rc, out, dt = sh(cmd, timeout=int(meta.get('harness_timeout_s', 900 if a.tier == 'quick' else 7200)), cwd=run_dir)
        log[f'harness_run_{pkg}_{hc}_s'] = round(dt, 1)
        if rc != 0 or not os.path.exists(run_dir + '/summary.json'):
            broken.append({'kind': 'harness-run', 'what': f'harness command vh-{pkg} {hc} failed (rc={rc})', 'detail': out[-3000:]})
            continue
        summary = json.load(open(run_dir + '/summary.json'))
        summary['_dir'] = run_dir
        summaries.append(summary)
    if coq_ok:
        jobs = [(sm['_dir'], shard) for sm in summaries for shard in (sm.get('shards') or [])]
        shards_total = len(jobs)

        def one(job):
            d, shard = job
            rc, out, dt = sh(['coqc', '-Q', COQ, 'MV', '-w', '-notation-overridden', shard], cwd=d, timeout=int(meta.get('shard_timeout_s', 900)))
            return d, shard, rc, out, dt
        t1 = time.time()
        with ThreadPoolExecutor(max_workers=int(meta.get('shard_workers', 12))) as ex:
            for d, shard, rc, out, dt in ex.map(one, jobs):
                m = re.search(r'M\s*=\s*(\[[^\]]*\])', out, re.S)
                if rc == 0 and m and re.sub(r'\s', '', m.group(1)) == '[]':
                    shards_ok += 1
                    continue
                idxs = [int(x) for x in re.findall(r'\d+', m.group(1))] if m else []
                cases = []
                try:
                    descr = json.load(open(d + '/' + shard[:-2] + '.cases.json'))
                    cases = [descr[i] for i in idxs[:3] if i < len(descr)]
                except Exception:
                    pass
                mismatches.append({'shard': os.path.basename(d) + '/' + shard, 'rc': rc, 'indices': idxs[:50], 'first_cases': cases, 'output_tail': '' if m else out[-1500:]})
        log['shards_s'] = round(time.time() - t1, 1)
        if mismatches:
            broken.append({'kind': 'correspondence', 'what': f'model and implementation disagree in {len(mismatches)} shard(s)', 'detail': mismatches[:3]})
    else:
        log['shards_skipped'] = 'Coq build failed'
    # merged summary
    summary = None
    if summaries:
        summary = {'evaluations': sum(x.get('evaluations', 0) for x in summaries),
                   'distinct_nontrivial': sum(x.get('distinct_nontrivial', 0) for x in summaries),
                   'rule': ' || '.join(x.get('rule', '') for x in summaries),
                   'samples': [y for x in summaries for y in (x.get('samples') or [])[:4]],
                   'exhaustive': all(x.get('exhaustive', False) for x in summaries),
                   'distribution': {k: v for x in summaries for k, v in (x.get('distribution') or {}).items()},
                   'property_failures': [y for x in summaries for y in (x.get('property_failures') or [])],
                   'shards': [y for x in summaries for y in (x.get('shards') or [])],
                   'extra': {k: v for x in summaries for k, v in (x.get('extra') or {}).items()}}

    # ---- 5: decide
    lines = []
    violations = 0
    known_hit = []
    fails = (summary or {}).get('property_failures') or []
    unlisted = [f for f in fails if f['signature'] not in listed]
    for f in fails:
        if f['signature'] in listed and f['signature'] not in known_hit:
            known_hit.append(f['signature'])
            lines.append(f'KNOWN-FINDING: property={pid} {listed[f["signature"]]["what"]} [{f["signature"]}]')
    os.makedirs(V + '/replays', exist_ok=True)
    seen_sig = set()
    for f in unlisted:
        if f['signature'] in seen_sig:
            continue
        seen_sig.add(f['signature'])
        body = {'property': pid, 'signature': f['signature'], 'what': f['what'], 'input': f['replay'], 'seed': a.seed, 'tier': a.tier,
                'broken_obligations': broken, 'how_to_replay': f'./check {pid} --replay <this file>'}
        h = hashlib.sha256(json.dumps([f['signature'], f['replay']], sort_keys=True, default=str).encode()).hexdigest()[:10]
        path = f'{V}/replays/{pid}-{h}.json'
        json.dump(body, open(path, 'w'), indent=1, default=str)
        lines.append(f'VIOLATION property={pid} replay={path}')
        violations += 1
    if broken and not unlisted:
        body = {'property': pid, 'signature': 'no-failing-input-found', 'seed': a.seed, 'tier': a.tier,
                'what': 'a proof obligation, translator or correspondence no longer checks and the finder found no input on which the implementation breaks the property',
                'broken_obligations': broken}
        h = hashlib.sha256(json.dumps(broken, sort_keys=True, default=str).encode()).hexdigest()[:10]
        path = f'{V}/replays/{pid}-{h}.json'
        json.dump(body, open(path, 'w'), indent=1, default=str)
        lines.append(f'VIOLATION property={pid} replay={path} no-failing-input-found')
        violations += 1

    # ---- 6: evidence
    wall = time.time() - t0
    gen_hashes = {}
    for g in sorted(glob.glob(COQ + '/Gen/*.v')):
        gen_hashes[os.path.basename(g)] = hashlib.sha256(open(g, 'rb').read()).hexdigest()[:16]
    cov = {
        'obligations': obligations, 'discharged': discharged,
        'checker_cmd': checker_cmd + ' (coqc 8.16.1 full .vo build; shards: coqc + vm_compute)',
        'trusted_base': meta.get('trusted_base', []) + ['Coq 8.16.1 kernel incl. vm_compute; no native_compute',
                                                          'Print Assumptions: ' + (f'{n_closed} theorem(s) closed under the global context' + ('; axioms used: ' + '; '.join(axioms) if axioms else '') if assumptions_printed else 'not printed (build failed)')],
        'theorems': thm_names,
        'evaluations': (summary or {}).get('evaluations', 0),
        'distinct_nontrivial': (summary or {}).get('distinct_nontrivial', 0),
        'rule': (summary or {}).get('rule', ''),
        'samples': ((summary or {}).get('samples') or [])[:6] or [{'note': 'harness did not run'}],
        'exhaustive': bool((summary or {}).get('exhaustive', False)),
        'distribution': (summary or {}).get('distribution', {}),
        'shards': shards_total, 'shards_ok': shards_ok,
        'mismatches': mismatches[:5],
        'finder_failures': [{'signature': f['signature'], 'what': f['what']} for f in fails[:10]],
        'known_findings_hit': known_hit,
        'translators': gen_hashes,
        'broken': [{'kind': b['kind'], 'what': b['what']} for b in broken],
        'timing': log,
        'extra': (summary or {}).get('extra', {}),
    }
    if a.tier == 'thorough' and coq_ok and meta.get('coqchk', True):
        mod = ' '.join('MV.' + pf[:-2].replace('/', '.') for pf in props_files)
        with Lock('coqchk.lock'):
            rc, out, dt = sh(f'coqchk -silent -o -Q {COQ} MV {mod}', timeout=int(meta.get('coqchk_timeout_s', 2400)))
        cov['coqchk'] = {'rc': rc, 'seconds': round(dt, 1), 'tail': out[-1200:]}
        if rc not in (0, 124):
            lines.append(f'VIOLATION property={pid} replay={V}/replays/{pid}-coqchk.json no-failing-input-found')
            json.dump({'property': pid, 'what': 'coqchk rejected the compiled theorems', 'detail': out[-3000:]}, open(f'{V}/replays/{pid}-coqchk.json', 'w'))
            violations += 1
    ev = {'property_id': pid, 'tier': a.tier, 'seed': a.seed, 'level': 'proof', 'coverage': cov,
          'assumptions': meta.get('assumptions', []), 'wall_s': round(wall, 1), 'violations': violations}
    os.makedirs(V + '/evidence', exist_ok=True)
    json.dump(ev, open(f'{V}/evidence/{pid}.json', 'w'), indent=1, default=str)

    for l in lines:
        print(l)
    print(f'{pid}: tier={a.tier} seed={a.seed} obligations={discharged}/{obligations} cases={cov["evaluations"]} shards={shards_ok}/{cov["shards"]} '
          f'finder_failures={len(fails)} known={len(known_hit)} violations={violations} wall={wall:.0f}s')
    if a.replay:
        hit = any(f['signature'] == replay_expect for f in fails) or (replay_expect == 'no-failing-input-found' and broken)
        print('replay: ' + ('REPRODUCED' if hit else 'not reproduced'))
        sys.exit(1 if hit else 0)
    sys.exit(1 if violations else 0)


if __name__ == '__main__':
    main()
