#!/usr/bin/env python3
"""Orchestrator:  ./check CNN [--tier quick|thorough] [--seed N] [--replay PATH]

Per run, for property CNN (meta/CNN.json says which harness command / Props file):
  1. rebuild the Go harness against /repo's working tree (build tag verif)
  2. regenerate coq/Gen from /repo (translators)
  3. make Props/CNN.vo (full .vo build of the model, the proofs and the property theorems)
  4. run the correspondence harness on the REAL code; it also evaluates the property itself on the
     implementation (the finder) and writes Coq case shards; evaluate every shard with coqc/vm_compute
  5. decide: unlisted finder failure -> VIOLATION with the concrete input as replay;
     broken proof / translator / correspondence without a failing input -> VIOLATION ... no-failing-input-found;
     listed finder failure -> KNOWN-FINDING line
  6. write evidence/CNN.json
"""
import sys, os, json, subprocess, time, hashlib, re, fcntl, argparse, glob, shutil
from concurrent.futures import ThreadPoolExecutor

V = '/verif'
COQ = V + '/coq'
BUILD = V + '/.build'
ENV = dict(os.environ, GOFLAGS='-mod=mod', GOPROXY='off', GOSUMDB='off', GOTOOLCHAIN='local')


def sh(cmd, cwd=None, timeout=None, env=None):
    t = time.time()
    try:
        p = subprocess.run(cmd, cwd=cwd, shell=isinstance(cmd, str), capture_output=True, text=True, timeout=timeout, env=env or ENV, errors='replace')
        return p.returncode, p.stdout + p.stderr, time.time() - t
    except subprocess.TimeoutExpired as e:
        out = (e.stdout or b'')
        if isinstance(out, bytes):
            out = out.decode(errors='replace')
        return 124, out + '\nTIMEOUT after %ss' % timeout, time.time() - t


class Lock:
    def __init__(self, name='lock'):
        os.makedirs(BUILD, exist_ok=True)
        self.f = open(os.path.join(BUILD, name), 'w')

    def __enter__(self):
        fcntl.flock(self.f, fcntl.LOCK_EX)

    def __exit__(self, *a):
        fcntl.flock(self.f, fcntl.LOCK_UN)


def coq_project():
    """(re)write _CoqProject listing every .v under Lib Model Proofs Props Gen; (re)create the Makefile when it changed."""
    files = []
    for d in ('Lib', 'Gen', 'Model', 'Proofs', 'Props'):
        files += sorted(glob.glob(f'{COQ}/{d}/*.v'))
    txt = '-Q . MV\n-arg -w -arg -notation-overridden,-deprecated-hint-without-locality,-deprecated-instance-without-locality\n' + '\n'.join(os.path.relpath(f, COQ) for f in files) + '\n'
    p = COQ + '/_CoqProject'
    old = open(p).read() if os.path.exists(p) else ''
    if old != txt or not os.path.exists(COQ + '/Makefile'):
        open(p, 'w').write(txt)
        rc, out, _ = sh('coq_makefile -f _CoqProject -o Makefile', cwd=COQ)
        if rc != 0:
            raise RuntimeError('coq_makefile failed: ' + out)


def build_harness():
    rc, out, dt = sh(['go', 'build', '-tags', 'verif', '-o', BUILD + '/vh', '.'], cwd=V + '/harness', timeout=1500)
    return rc, out, dt


def main():
    ap = argparse.ArgumentParser()
    ap.add_argument('prop')
    ap.add_argument('--tier', default=os.environ.get('VERIF_TIER', 'quick'))
    ap.add_argument('--seed', type=int, default=int(os.environ.get('VERIF_SEED', '1') or 1))
    ap.add_argument('--replay')
    a = ap.parse_args()
    pid = a.prop
    if a.tier not in ('quick', 'thorough'):
        a.tier = 'quick'
    meta = json.load(open(f'{V}/meta/{pid}.json'))
    t0 = time.time()
    replay_expect = None
    if a.replay:
        rp = json.load(open(a.replay))
        a.seed = rp.get('seed', a.seed)
        a.tier = rp.get('tier', a.tier)
        replay_expect = rp.get('signature')
        print(f'replaying {a.replay}: seed={a.seed} tier={a.tier} signature={replay_expect}')

    known = json.load(open(V + '/known_findings.json'))
    listed = {f['signature']: f for f in known.get('findings', []) if f['property'] == pid}

    broken = []       # obligations / ties that no longer check: dicts {kind, what, detail}
    log = {}
    props_file = meta.get('props_file', f'Props/{pid}.v')
    run_dir = f'{BUILD}/run/{pid}'
    shutil.rmtree(run_dir, ignore_errors=True)
    os.makedirs(run_dir, exist_ok=True)

    # ---- 1-3: build under the global lock
    pa_text = ''
    coq_ok = False
    with Lock():
        rc, out, dt = build_harness()
        log['harness_build_s'] = round(dt, 1)
        harness_ok = rc == 0
        if rc != 0:
            broken.append({'kind': 'harness-build', 'what': 'the correspondence harness no longer builds against /repo', 'detail': out[-3000:]})
        if harness_ok:
            rc, out, dt = sh([BUILD + '/vh', 'gen', '--repo', '/repo', '--out', COQ + '/Gen'], timeout=300)
            if rc != 0:
                broken.append({'kind': 'translator', 'what': 'vh gen failed', 'detail': out[-3000:]})
        coq_project()
        vo = COQ + '/' + props_file[:-2] + '.vo'
        if os.path.exists(vo):
            os.remove(vo)
        checker_cmd = f'make -C {COQ} -j16 {props_file[:-2]}.vo'
        rc, out, dt = sh(checker_cmd, timeout=int(meta.get('make_timeout_s', 1500)))
        log['make_s'] = round(dt, 1)
        log['make_tail'] = out[-1500:]
        coq_ok = rc == 0
        pa_text = out
        if rc != 0:
            m = re.search(r'File "([^"]+)", line (\d+), characters [\d-]+:\s*\n(Error:.*?)(?:\n\n|\nmake|\Z)', out, re.S)
            where = f'{m.group(1)}:{m.group(2)}' if m else 'unknown'
            err = m.group(3)[:1500] if m else out[-1500:]
            broken.append({'kind': 'proof', 'what': f'Coq build of {props_file} failed at {where}', 'detail': err, 'file': m.group(1) if m else None, 'line': int(m.group(2)) if m else None})

    # obligations: theorem-like statements in the Props file
    src = open(COQ + '/' + props_file).read()
    thms = [(m.start(), m.group(2)) for m in re.finditer(r'^(Theorem|Lemma|Example|Corollary)\s+(\w+)', src, re.M)]
    obligations = len(thms)
    if coq_ok:
        discharged = obligations
    else:
        discharged = 0
        b = [x for x in broken if x['kind'] == 'proof']
        if b and b[0].get('file') and b[0]['file'].endswith(os.path.basename(props_file)) and b[0].get('line'):
            off = sum(len(l) + 1 for l in src.split('\n')[:b[0]['line'] - 1])
            discharged = len([1 for (pos, _) in thms if pos < off]) - 1
            discharged = max(discharged, 0)
    n_closed = len(re.findall(r'Closed under the global context', pa_text))
    ax_blocks = re.findall(r'Axioms:\n((?:[^\n]+\n)+?)(?:\n|\Z|(?=COQC|make))', pa_text + '\n')
    axioms = sorted(set(re.findall(r'^([\w.\']+)\s*:', ''.join(ax_blocks), re.M)))
    assumptions_printed = n_closed + len(ax_blocks)

    # ---- 4: correspondence + finder
    summary = None
    mismatches = []
    shards_ok = 0
    if harness_ok:
        cmd = [BUILD + '/vh', meta['harness_cmd'], '--tier', a.tier, '--seed', str(a.seed), '--out', run_dir]
        rc, out, dt = sh(cmd, timeout=int(meta.get('harness_timeout_s', 900 if a.tier == 'quick' else 7200)), cwd=run_dir)
        log['harness_run_s'] = round(dt, 1)
        if rc != 0 or not os.path.exists(run_dir + '/summary.json'):
            broken.append({'kind': 'harness-run', 'what': f'harness command {meta["harness_cmd"]} failed (rc={rc})', 'detail': out[-3000:]})
        else:
            summary = json.load(open(run_dir + '/summary.json'))
    if summary and coq_ok:
        def one(shard):
            rc, out, dt = sh(['coqc', '-Q', COQ, 'MV', '-w', '-notation-overridden', shard], cwd=run_dir, timeout=int(meta.get('shard_timeout_s', 900)))
            return shard, rc, out, dt
        t1 = time.time()
        with ThreadPoolExecutor(max_workers=int(meta.get('shard_workers', 12))) as ex:
            for shard, rc, out, dt in ex.map(one, summary.get('shards') or []):
                m = re.search(r'M\s*=\s*(\[[^\]]*\])', out, re.S)
                if rc == 0 and m and re.sub(r'\s', '', m.group(1)) == '[]':
                    shards_ok += 1
                    continue
                idxs = []
                if m:
                    idxs = [int(x) for x in re.findall(r'\d+', m.group(1))]
                cases = []
                try:
                    descr = json.load(open(run_dir + '/' + shard[:-2] + '.cases.json'))
                    cases = [descr[i] for i in idxs[:3] if i < len(descr)]
                except Exception:
                    pass
                mismatches.append({'shard': shard, 'rc': rc, 'indices': idxs[:50], 'first_cases': cases, 'output_tail': '' if m else out[-1500:]})
        log['shards_s'] = round(time.time() - t1, 1)
        if mismatches:
            broken.append({'kind': 'correspondence', 'what': f'model and implementation disagree in {len(mismatches)} shard(s)', 'detail': mismatches[:3]})
    elif summary and not coq_ok:
        log['shards_skipped'] = 'Coq build failed'

    # ---- 5: decide
    lines = []
    violations = 0
    known_hit = []
    fails = (summary or {}).get('property_failures') or []
    unlisted = [f for f in fails if f['signature'] not in listed]
    for f in fails:
        if f['signature'] in listed and f['signature'] not in known_hit:
            known_hit.append(f['signature'])
            lines.append(f'KNOWN-FINDING: property={pid} {listed[f["signature"]]["what"]} [{f["signature"]}]')
    os.makedirs(V + '/replays', exist_ok=True)
    seen_sig = set()
    for f in unlisted:
        if f['signature'] in seen_sig:
            continue
        seen_sig.add(f['signature'])
        body = {'property': pid, 'signature': f['signature'], 'what': f['what'], 'input': f['replay'], 'seed': a.seed, 'tier': a.tier,
                'broken_obligations': broken, 'how_to_replay': f'./check {pid} --replay <this file>'}
        h = hashlib.sha256(json.dumps([f['signature'], f['replay']], sort_keys=True, default=str).encode()).hexdigest()[:10]
        path = f'{V}/replays/{pid}-{h}.json'
        json.dump(body, open(path, 'w'), indent=1, default=str)
        lines.append(f'VIOLATION property={pid} replay={path}')
        violations += 1
    if broken and not unlisted:
        body = {'property': pid, 'signature': 'no-failing-input-found', 'seed': a.seed, 'tier': a.tier,
                'what': 'a proof obligation, translator or correspondence no longer checks and the finder found no input on which the implementation breaks the property',
                'broken_obligations': broken}
        h = hashlib.sha256(json.dumps(broken, sort_keys=True, default=str).encode()).hexdigest()[:10]
        path = f'{V}/replays/{pid}-{h}.json'
        json.dump(body, open(path, 'w'), indent=1, default=str)
        lines.append(f'VIOLATION property={pid} replay={path} no-failing-input-found')
        violations += 1

    # ---- 6: evidence
    wall = time.time() - t0
    gen_hashes = {}
    for g in sorted(glob.glob(COQ + '/Gen/*.v')):
        gen_hashes[os.path.basename(g)] = hashlib.sha256(open(g, 'rb').read()).hexdigest()[:16]
    cov = {
        'obligations': obligations, 'discharged': discharged,
        'checker_cmd': checker_cmd + ' (coqc 8.16.1 full .vo build; shards: coqc + vm_compute)',
        'trusted_base': meta.get('trusted_base', []) + ['Coq 8.16.1 kernel incl. vm_compute; no native_compute',
                                                          'Print Assumptions: ' + (f'{n_closed} theorem(s) closed under the global context' + ('; axioms used: ' + '; '.join(axioms) if axioms else '') if assumptions_printed else 'not printed (build failed)')],
        'theorems': [n for _, n in thms],
        'evaluations': (summary or {}).get('evaluations', 0),
        'distinct_nontrivial': (summary or {}).get('distinct_nontrivial', 0),
        'rule': (summary or {}).get('rule', ''),
        'samples': ((summary or {}).get('samples') or [])[:6] or [{'note': 'harness did not run'}],
        'exhaustive': bool((summary or {}).get('exhaustive', False)),
        'distribution': (summary or {}).get('distribution', {}),
        'shards': len((summary or {}).get('shards') or []), 'shards_ok': shards_ok,
        'mismatches': mismatches[:5],
        'finder_failures': [{'signature': f['signature'], 'what': f['what']} for f in fails[:10]],
        'known_findings_hit': known_hit,
        'translators': gen_hashes,
        'broken': [{'kind': b['kind'], 'what': b['what']} for b in broken],
        'timing': log,
        'extra': (summary or {}).get('extra', {}),
    }
    if a.tier == 'thorough' and coq_ok and meta.get('coqchk', True):
        mod = 'MV.' + props_file[:-2].replace('/', '.')
        with Lock('coqchk.lock'):
            rc, out, dt = sh(f'coqchk -silent -o -Q {COQ} MV {mod}', timeout=int(meta.get('coqchk_timeout_s', 2400)))
        cov['coqchk'] = {'rc': rc, 'seconds': round(dt, 1), 'tail': out[-1200:]}
        if rc not in (0, 124):
            lines.append(f'VIOLATION property={pid} replay={V}/replays/{pid}-coqchk.json no-failing-input-found')
            json.dump({'property': pid, 'what': 'coqchk rejected the compiled theorems', 'detail': out[-3000:]}, open(f'{V}/replays/{pid}-coqchk.json', 'w'))
            violations += 1
    ev = {'property_id': pid, 'tier': a.tier, 'seed': a.seed, 'level': 'proof', 'coverage': cov,
          'assumptions': meta.get('assumptions', []), 'wall_s': round(wall, 1), 'violations': violations}
    os.makedirs(V + '/evidence', exist_ok=True)
    json.dump(ev, open(f'{V}/evidence/{pid}.json', 'w'), indent=1, default=str)

    for l in lines:
        print(l)
    print(f'{pid}: tier={a.tier} seed={a.seed} obligations={discharged}/{obligations} cases={cov["evaluations"]} shards={shards_ok}/{cov["shards"]} '
          f'finder_failures={len(fails)} known={len(known_hit)} violations={violations} wall={wall:.0f}s')
    if a.replay:
        hit = any(f['signature'] == replay_expect for f in fails) or (replay_expect == 'no-failing-input-found' and broken)
        print('replay: ' + ('REPRODUCED' if hit else 'not reproduced'))
        sys.exit(1 if hit else 0)
    sys.exit(1 if violations else 0)


if __name__ == '__main__':
    main()
