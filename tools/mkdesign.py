#!/usr/bin/env python3
"""Regenerate the generated tail of DESIGN.md (everything after the marker line):
   §9 seeded changes table (from seeded/*/meta.json), §10 findings (known_findings*.json), §11 per-group as-built notes (notes/*.md)."""
import json, glob, os, re
V='/verif'
MARK='<!-- GENERATED TAIL: tools/mkdesign.py - do not edit below this line -->'
s=open(V+'/DESIGN.md').read()
head=s.split(MARK)[0].rstrip()+'\n\n'
out=[MARK,'','---------------------------------------------------------------------------------------','',
 '## 9. Seeded changes and which checks catch them','',
 'Each row is a directory `/verif/seeded/<id>/` (patch.diff, demo, meta.json).  Every change was written by a fresh sub-agent that saw only the property text and a scratch worktree, and was kept only after the lead confirmed it (demo fails with the change, passes without; baseline tests of the touched packages still pass; `tools/seedverify.sh`).  Checks were run against the mutated tree with `tools/seedrun.sh` (a copy of /verif pointed at the scratch worktree; /repo untouched).','',
 '| id | property | what the change does | what it needs to manifest | caught by |','|---|---|---|---|---|']
def cell(x): return re.sub(r'\s+',' ',str(x)).replace('|','\\|')
for d in sorted(glob.glob(V+'/seeded/*/meta.json')):
    m=json.load(open(d)); i=os.path.basename(os.path.dirname(d))
    out.append(f"| {i} | {m.get('breaks_property',m.get('property'))} | {cell(m.get('summary',''))[:700]} | {cell(m.get('needs',''))[:400]} | {cell(m.get('detected_by',''))} |")
out+=['','## 10. Genuine defects: repaired (`fix:` commits in /repo) and listed findings','']
fixed=[];listed=[]
for f in [V+'/known_findings.json']+sorted(glob.glob(V+'/known_findings.d/*.json')):
    k=json.load(open(f)); g=os.path.basename(f)
    fixed+=[(g,x) for x in k.get('fixed',[])]; listed+=[(g,x) for x in k.get('findings',[])]
out+=['**Repaired** (each reproduced on the real code by the finder before the repair; the model follows the repaired code; a `fixed` entry suppresses nothing):','']
for g,x in fixed: out.append(f"* [{x.get('property')}] `{x.get('commit','')}` {cell(x.get('what',''))}  ({g})")
out+=['','**Listed (known findings; the check prints `KNOWN-FINDING` for exactly these signatures and reports any other violation):**','']
for g,x in listed: out.append(f"* [{x.get('property')}] `{x.get('signature')}` - {cell(x.get('what',''))}  ({g})")
out+=['','## 11. As-built notes per group (what is modelled, theorems, tie, trusted base, limits, false alarms corrected)','']
for n in sorted(glob.glob(V+'/notes/*.md')):
    body=open(n).read()
    body=re.sub(r'^(#+) ',lambda m:'##'+m.group(1)+' ',body,flags=re.M)   # demote headings
    out+=[f'<!-- from {os.path.relpath(n,V)} -->',body,'']
open(V+'/DESIGN.md','w').write(head+'\n'.join(out)+'\n')
print('DESIGN.md regenerated tail:',len(out),'lines')
