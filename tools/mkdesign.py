#!/usr/bin/env python3
"""Regenerate the generated tail of DESIGN.md (everything after the marker line):
   §9 seeded changes table (from seeded/*/meta.json), §10 findings (known_findings*.json), §11 per-group as-built notes (notes/*.md)."""
import json, glob, os, re
V='/verif'
MARK='<!-- GENERATED TAIL: tools/mkdesign.py - do not edit below this line -->'
s=open(V+'/DESIGN.md').read()
head=s.split(MARK)[0].rstrip()+'\n\n'
out=[MARK,'','---------------------------------------------------------------------------------------','',
 '## 9. Seeded changes and which checks catch them','',
 'Each row is a directory `/verif/seeded/<id>/` (patch.diff, demo, meta.json).  Every change was written by a fresh sub-agent that saw only the property text and a scratch worktree, and was kept only after the lead confirmed it (demo fails with the change, passes without; baseline tests of the touched packages still pass; `tools/seedverify.sh`).  Checks were run against the mutated tree with `tools/seedrun.sh` (a copy of /verif pointed at the scratch worktree; /repo untouched).','',
 '| id | property | what the change does | what it needs to manifest | caught by |','|---|---|---|---|---|']
def cell(x): return re.sub(r'\s+',' ',str(x)).replace('|','\\|')
for d in sorted(glob.glob(V+'/seeded/*/meta.json')):
    m=json.load(open(d)); i=os.path.basename(os.path.dirname(d))
    out.append(f"| {i} | {m.get('breaks_property',m.get('property'))} | {cell(m.get('summary',''))[:700]} | {cell(m.get('needs',''))[:400]} | {cell(m.get('detected_by',''))} |")
out+=['','## 10. Genuine defects: repaired (`fix:` commits in /repo) and listed findings','']
fixed=[];listed=[]
for f in [V+'/known_findings.json']+sorted(glob.glob(V+'/known_findings.d/*.json')):
    k=json.load(open(f)); g=os.path.basename(f)
    fixed+=[(g,x) for x in k.get('fixed',[])]; listed+=[(g,x) for x in k.get('findings',[])]
out+=['**Repaired** (each reproduced on the real code by the finder before the repair; the model follows the repaired code; a `fixed` entry suppresses nothing):','']
for g,x in fixed: out.append(f"* [{x.get('property')}] `{x.get('commit','')}` {cell(x.get('what',''))}  ({g})")
out+=['','**Listed (known findings; the check prints `KNOWN-FINDING` for exactly these signatures and reports any other violation):**','']
for g,x in listed: out.append(f"* [{x.get('property')}] `{x.get('signature')}` - {cell(x.get('what',''))}  ({g})")
# ---- §12 data gathered first (printed after §11)
import subprocess, sys
sys.path.insert(0, V+'/tools')
tb=['','## 12. Trusted base as built (generated)','',
 '* **Proof assistant**: Coq 8.16.1 (`coqc`, full `.vo` builds through `coq_makefile`; never `-vos`). `vm_compute` is used inside proofs of finite facts (tables, reachable-state closures, refutation witnesses) and to evaluate the correspondence shards; `native_compute` is not used. No `Axiom`/`Parameter`/`Conjecture`/`Admitted`/`admit`/`Admit Obligations`, no Variable/Hypothesis outside a Section, no disabled guard/positivity/universe checks (`tools/setup.sh` greps the development and fails otherwise). `Print Assumptions` is printed under every property theorem on every run and recorded in the evidence: every theorem is closed under the global context (no stdlib axiom is used either). The thorough tier re-checks the property files with `coqchk -silent -o` (result in evidence `coverage.coqchk`: no axioms).',
 '* **Extraction**: not used (no `Extract Constant` / `Extract Inductive`); models are evaluated inside Coq by `vm_compute`.',
 '* **Translators** (Go programs in `harness/cmd/*/gen*.go`, go/ast + reflect; regenerate `coq/Gen/*.v` from /repo on every run; a translator that does not recognise the source emits `<name>_translator_ok := false`, which breaks an obligation): ' + ', '.join(sorted(os.path.basename(g) for g in glob.glob(V+'/coq/Gen/*.v'))) + '.  A wrong translator could mis-read the source; mitigated by the correspondence runs, which exercise the same code paths on the real implementation.',
 '* **Correspondence harness and finders**: `harness/cmd/<group>/*.go` + `harness/vhlib` (generators, canonicalisation, Coq case printers) and `tools/check.py` (decision logic).  They are test code: a bug there can hide a disagreement or raise a false alarm; the seeded-change loop (§9) is the empirical check on them.',
 '* **Modelled rather than verified**: every file under `coq/Model` that is not generated is a hand-written model of the Go code; the theorems are about these models; the tie is the correspondence (finite, per run) and the translators (shape of selected source spots).  What each model leaves out is listed per group in §11 ("Partial"/"Limits").',
 '* **Assumed specifications of external code** (named in the meta parts): Go `sync/atomic` sequential consistency, `math/rand` through a scripted source, `crypto/tls`/x509 acceptance per ClientAuthType (validated cell by cell with real handshakes), Go `regexp`/`net.SplitHostPort`/`url` functions supplied as inputs, thrift/TarsGo/hessian body codecs as explicit premises validated on the real libraries each run, IEEE float64 ordering of distinct EDF deadlines, wall-clock timers ordered by observed timestamps.','']
hooks=subprocess.run("git -C /repo log --reverse --format='%h %s' a37e84986..HEAD", shell=True, capture_output=True, text=True).stdout.strip().splitlines()
hk=[l for l in hooks if ' verif hook' in l]; fx=[l for l in hooks if ' fix:' in l]
tb+=[f'* **Hooks in /repo** ({len(hk)} commits, add-only files `verif_hooks*.go` under `//go:build verif`; the single non-additive edit is the `verifYield()` call in `pkg/upstream/cluster/health.go` with a no-op twin): '+'; '.join('`'+l.split()[0]+'` '+' '.join(l.split()[1:])[:90] for l in hk),'',
     f'* **Repairs in /repo**: {len(fx)} `fix:` commits (independent maintainer-style review: notes/fixreview.md, included in §11).','']
import re as _re
rows=[]
for mp in sorted(glob.glob(V+'/meta/parts/*.json')):
    m=json.load(open(mp)); pid=os.path.basename(mp).split('.')[0]; grp=os.path.basename(mp).split('.')[1]
    n=0
    for pf in m.get('props_files',[]):
        try: n+=len(_re.findall(r'^(Theorem|Lemma|Example|Corollary)\s+\w+', open(V+'/coq/'+pf).read(), _re.M))
        except Exception: pass
    rows.append(f"| {pid} | {grp} | {', '.join(m.get('props_files',[]))} | {n} | {cell(m.get('level_note',''))[:600]} |")
tb+=['**Property parts** (statements counted in the Props files; `level_note` = what is assumed / partial):','','| property | group | theorem files | statements | level note |','|---|---|---|---|---|']+rows+['']
out+=['','## 11. As-built notes per group (what is modelled, theorems, tie, trusted base, limits, false alarms corrected)','']
for n in sorted(glob.glob(V+'/notes/*.md')):
    body=open(n).read()
    body=re.sub(r'^(#+) ',lambda m:'##'+m.group(1)+' ',body,flags=re.M)   # demote headings
    out+=[f'<!-- from {os.path.relpath(n,V)} -->',body,'']
out+=tb
open(V+'/DESIGN.md','w').write(head+'\n'.join(out)+'\n')
print('DESIGN.md regenerated tail:',len(out),'lines')
