#!/bin/bash
# tools/seedverify.sh <worktree> <pkgdir for the demo, e.g. pkg/router> [extra pkgs for the baseline comparison]
# 1. rebase the worktree's uncommitted change onto /repo HEAD  2. demo must FAIL with the change, PASS without
# 3. baseline tests of the touched packages must still pass with the change (guard off).
set -u
WT=$1; PKG=$2; shift 2
export GOFLAGS=-mod=mod GOPROXY=off GOSUMDB=off GOTOOLCHAIN=local
cd $WT || exit 2
H=$(git -C /repo rev-parse HEAD)
# NOTE: never use `git stash` here - the stash is shared by all worktrees of /repo.
if [ "$(git rev-parse HEAD)" != "$H" ]; then
  git diff -- . ':!go.sum' > /tmp/$(basename $WT).rebase.diff && git checkout -q -- . && git checkout -q --detach $H && git apply --3way /tmp/$(basename $WT).rebase.diff || { echo "REBASE CONFLICT"; exit 3; }
  git reset -q; rm -f /tmp/$(basename $WT).rebase.diff
fi
git diff --stat -- . ':!go.sum' | tail -3
TESTS=$(grep -ohE '^func (Test\w+)' _seed/demo_test.go | sed 's/func //' | paste -sd'|')
cp _seed/demo_test.go $PKG/zz_seed_demo_test.go
echo "--- demo WITH change (expect FAIL)"; go test -vet=off -count=1 -run "^($TESTS)\$" ./$PKG/ 2>&1 | grep -E '^(--- FAIL|FAIL|ok|panic)' | head -5
FILES=$(git diff --name-only -- . ':!go.sum')
git diff -- $FILES > /tmp/$(basename $WT).chg.diff; git apply -R /tmp/$(basename $WT).chg.diff
echo "--- demo WITHOUT change (expect ok)"; go test -vet=off -count=1 -run "^($TESTS)\$" ./$PKG/ 2>&1 | grep -E '^(--- FAIL|FAIL|ok|panic)' | head -5
git apply /tmp/$(basename $WT).chg.diff; rm -f /tmp/$(basename $WT).chg.diff
rm -f $PKG/zz_seed_demo_test.go
echo "--- baseline tests of touched packages WITH change"
PK=$(for f in $FILES; do echo ./$(dirname $f); done | sort -u | paste -sd' ')
VERIF_REPO=$WT python3 /verif/tools/basecmp.py $PK "$@"
git checkout -q -- go.sum 2>/dev/null; true
