#!/usr/bin/env python3
"""Assemble /verif/MANIFEST.json from meta/CNN.json (one per claimed property)."""
import json, glob, os, subprocess
V='/verif'
props=[json.loads(l) for l in open(V+'/properties.jsonl')]
base=json.load(open('/root/.vp/BASELINE.json'))
hooks=subprocess.run("git -C /repo log --format='%h %s' a37e84986..HEAD", shell=True, capture_output=True, text=True).stdout.strip().splitlines()
hook_commits=[l.split()[0] for l in hooks if l.split(' ',1)[1].startswith('verif hook')]
checks=[]; na=[]
for p in props:
    pid=p['id']
    if not glob.glob(f'{V}/meta/parts/{pid}.*.json'):
        na.append({'property_id':pid,'reason':'not claimed in this revision: model/harness not built yet (work in progress, see DESIGN.md §8)'}); continue
    import sys; sys.path.insert(0,V+'/tools'); import check; m=check.load_meta(pid)
    if m.get('not_applicable'):
        na.append({'property_id':pid,'reason':m['not_applicable']}); continue
    checks.append({
      'property_id':pid,
      'quick_cmd':f'./check {pid} --tier quick',
      'thorough_cmd':f'./check {pid} --tier thorough',
      'evidence_file':f'/verif/evidence/{pid}.json',
      'replay_cmd_template':f'./check {pid} --replay {{path}}',
      'engine':'coq-model+correspondence',
      'level_claimed':{'category':'proof','text':m['level_text'],'design_ref':m.get('design_ref','DESIGN.md')},
      'level_note':m['level_note'],
      'technique':m['technique']})
man={'version':1,'setup_cmd':'./tools/setup.sh',
 'hooks':{'guard':'verif','enable':'go build -tags verif (harness module /verif/harness with replace mosn.io/mosn => /repo)',
          'baseline_off_cmd':base['cmd'],'source_commits':hook_commits,'add_only':True},
 'engines':[{'name':'coq-model+correspondence','path':'/verif/coq + /verif/harness + /verif/tools/check.py','serves_properties':[c['property_id'] for c in checks],
   'kind_free_text':'Coq 8.16.1 development (models, proofs, property theorems), go/ast+reflect translators regenerating coq/Gen from /repo on every run, Go differential harness running the real mosn code and the model (vm_compute) on the same inputs, finder evaluating the property on the implementation'}],
 'checks':checks,
 'notes':'Every check: rebuild harness against /repo working tree (tag verif) -> regenerate coq/Gen -> make Props/CNN.vo -> run harness (real code) -> evaluate Coq shards -> decide. See DESIGN.md.',
 'not_applicable':na}
json.dump(man,open(V+'/MANIFEST.json','w'),indent=1)
print('checks',len(checks),'not_applicable',len(na))
