#!/bin/bash
# tools/seedregress.sh [-o out] [ids...] : re-run the registered quick check of every saved seeded change
# (seeded/<id>/patch.diff) against a scratch worktree of /repo HEAD and report caught / MISSED / STALE.
# /repo itself is never touched; the scratch worktree lives under /tmp and is removed at the end.
OUT=/verif/.build/seedregress.txt
if [ "$1" = "-o" ]; then OUT=$2; shift 2; fi
: > $OUT
WT=/tmp/seedreg-$$
git -C /repo worktree add --detach $WT HEAD >/dev/null 2>&1 || exit 2
for d in ${@:-$(ls /verif/seeded)}; do
  pid=${d%%-*}
  (cd $WT && git checkout -q -- . && git clean -fdq)
  if ! git -C $WT apply /verif/seeded/$d/patch.diff 2>/dev/null; then echo "$d STALE" >> $OUT; continue; fi
  r=$(/verif/tools/seedrun.sh $WT $pid 2>&1 | grep -E "^$pid: tier")
  case "$r" in
    *"violations=0"*) echo "$d MISSED $r" >> $OUT;;
    "") echo "$d ERROR(no result line)" >> $OUT;;
    *) echo "$d caught $r" >> $OUT;;
  esac
done
git -C /repo worktree remove --force $WT
echo done >> $OUT
