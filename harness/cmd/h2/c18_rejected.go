package main

// C18: the connection's HPACK state after a REJECTED header block.  The frame reader switches emitting off in the middle
// of a block (invalid field name, pseudo-header field after a regular one, header list over the limit) and goes on decoding
// to keep the dynamic table in step with the peer's encoder.  After every such block
//   - MOSN's decoder table must hold what the reference decoder (golang.org/x/net/http2/hpack), fed the same bytes, holds
//     (read through a probe block that references every dynamic index), and
//   - a later well-formed request on the same connection that refers to the fields the rejected block inserted must decode
//     to the header list the peer encoded.

import (
	"context"
	"fmt"
	"strings"

	xh2 "golang.org/x/net/http2"
	xhpack "golang.org/x/net/http2/hpack"
	mh2 "mosn.io/mosn/pkg/module/http2"
	"mosn.io/pkg/buffer"

	. "vh/vhlib"
)

func hpackAfterRejectedBlock(run *Run, n int) {
	r := run.R
	kinds := []string{"invalid-field-name", "pseudo-after-regular", "list-over-limit", "invalid-field-value"}
	for s := 0; s < n; s++ {
		if abortRun {
			return
		}
		kind := kinds[s%len(kinds)]
		w := newC02Wire()
		xdec := xhpack.NewDecoder(4096, nil)
		sc := mh2.NewServerConn(&fakeConn{})
		limit := uint32(1 << 20)
		if kind == "list-over-limit" {
			limit = 300
			sc.Framer.MaxHeaderListSize = limit
		}
		mk := func(i int) [2]string {
			return [2]string{fmt.Sprintf("x-%s-%d-%x", []string{"tenant", "trace", "shard", "zone"}[r.Intn(4)], i, r.Bytes(2)), strings.Repeat(string(rune('a'+r.Intn(26))), 1+r.Intn(30))}
		}
		common := [][2]string{{":method", "GET"}, {":scheme", "https"}, {":path", "/"}, {":authority", fmt.Sprintf("svc%d.example", s)}}
		var before, after [][2]string
		for i := 0; i < r.Intn(3); i++ {
			before = append(before, mk(i))
		}
		for i := 0; i < 1+r.Intn(4); i++ {
			after = append(after, mk(10+i))
		}
		first := append(append([][2]string{}, common...), before...)
		switch kind {
		case "invalid-field-name":
			first = append(first, [2]string{"X-Bad", "1"})
		case "pseudo-after-regular":
			first = append(first, [2]string{"x-regular", "1"}, [2]string{":path", "/again"})
		case "list-over-limit":
			for i := 0; i < 5; i++ { // each string fits, the list does not
				first = append(first, [2]string{fmt.Sprintf("x-big-%d", i), strings.Repeat("b", 80)})
			}
		case "invalid-field-value":
			first = append(first, [2]string{"x-ctl", "a\x01b"})
		}
		first = append(first, after...)
		second := append(append([][2]string{}, common...), before...)
		second = append(second, after...)
		if r.Bool() {
			second = append(second, mk(99))
		}
		block := func(fs [][2]string) []byte {
			w.hb.Reset()
			for _, f := range fs {
				w.enc.WriteField(xhpack.HeaderField{Name: f[0], Value: f[1]})
			}
			return append([]byte(nil), w.hb.Bytes()...)
		}
		frame := func(sid uint32, blk []byte) []byte {
			w.out.Reset()
			w.fr.WriteHeaders(xh2.HeadersFrameParam{StreamID: sid, BlockFragment: blk, EndHeaders: true, EndStream: true})
			return append([]byte(nil), w.out.Bytes()...)
		}
		b1 := block(first)
		b2 := block(second)
		rep := map[string]interface{}{"part": "hpack-after-rejected-block", "kind": kind, "first_request": first, "second_request": second, "block1": Hex(b1), "block2": Hex(b2)}
		// the reference decoder sees the same bytes
		if _, err := xdec.DecodeFull(b1); err != nil {
			run.Fail("hpack:reference-rejects-generated-block", "x/net decoder: "+err.Error(), rep)
			continue
		}
		buf := buffer.NewIoBuffer(0)
		var f1 mh2.Frame
		var e1 error
		perr := guarded(func() error {
			buf.Write(frame(1, b1))
			f1, _, e1 = sc.Framer.ReadFrame(context.Background(), buf, 0)
			return nil
		})
		if perr != nil {
			run.Fail("h2frame:reader-panic-or-hang", perr.Error(), rep)
			continue
		}
		_, isStream := e1.(mh2.StreamError)
		rejected := isStream
		if mf, isMeta := f1.(*mh2.MetaHeadersFrame); isMeta && mf.Truncated {
			rejected = true // over the list limit: the frame is handed over as truncated
		}
		if !rejected || buf.Len() != 0 {
			run.Fail("h2:malformed-request-not-rejected", fmt.Sprintf("%s: ReadFrame gave frame %T, error %v, %d bytes left", kind, f1, e1, buf.Len()), rep)
			continue
		}
		// (1) the tables: reference decoder read through a probe block that references every dynamic index
		mt := sc.Framer.ReadMetaHeaders.VerifTable()
		nprobe := len(mt.Ents) + 2
		var ref [][2]string
		for i := 0; i < nprobe; i++ {
			var p []byte
			idx := uint64(62 + i)
			if idx < 127 {
				p = []byte{0x80 | byte(idx)}
			} else {
				p = []byte{0xff, byte(idx - 127)}
			}
			probe := xhpack.NewDecoder(4096, nil)
			_ = probe
			fs, err := xdec.DecodeFull(p)
			if err != nil || len(fs) != 1 {
				break
			}
			ref = append(ref, [2]string{fs[0].Name, fs[0].Value})
		}
		var mine [][2]string
		for i := len(mt.Ents) - 1; i >= 0; i-- { // newest first = index 62, 63, ...
			mine = append(mine, [2]string{mt.Ents[i].Name, mt.Ents[i].Value})
		}
		rep["table_mosn"], rep["table_reference"] = mine, ref
		if fmt.Sprint(mine) != fmt.Sprint(ref) {
			d := 0
			for d < len(mine) && d < len(ref) && mine[d] == ref[d] {
				d++
			}
			run.Fail("hpack:dynamic-table-diverges-after-rejected-block", fmt.Sprintf("after a block rejected for %s MOSN's decoder table has %d entries, the reference decoder fed the same bytes %d; first difference at dynamic index %d: MOSN %q, reference %q",
				kind, len(mine), len(ref), 62+d, at2(mine, d), at2(ref, d)), rep)
		}
		// (2) the next request on the connection
		var f2 mh2.Frame
		var e2 error
		sc.Framer.MaxHeaderListSize = 1 << 20 // the limit was only there to have the first block rejected
		perr = guarded(func() error {
			buf.Write(frame(3, b2))
			f2, _, e2 = sc.Framer.ReadFrame(context.Background(), buf, 0)
			return nil
		})
		if perr != nil {
			run.Fail("h2frame:reader-panic-or-hang", perr.Error(), rep)
			continue
		}
		var got [][2]string
		if mf, isMeta := f2.(*mh2.MetaHeadersFrame); isMeta && e2 == nil {
			for _, hf := range mf.Fields {
				got = append(got, [2]string{hf.Name, hf.Value})
			}
		}
		xfs, xerr := xdec.DecodeFull(b2)
		var xgot [][2]string
		for _, hf := range xfs {
			xgot = append(xgot, [2]string{hf.Name, hf.Value})
		}
		if xerr != nil || fmt.Sprint(xgot) != fmt.Sprint(second) {
			run.Fail("hpack:reference-misdecodes-follow-up-block", fmt.Sprintf("x/net: %v %q", xerr, xgot), rep)
		}
		if e2 != nil || fmt.Sprint(got) != fmt.Sprint(second) {
			rep["second_request_decoded"] = got
			run.Fail("h2:later-request-decodes-differently-after-rejected-block", fmt.Sprintf("after a request rejected for %s the next request on the connection (stream 3, %d fields, referring to the fields the rejected block inserted) is read as %q (error %v); the peer encoded %q",
				kind, len(second), got, e2, second), rep)
		}
		run.Count(fmt.Sprintf("hrej|%s|%s", Hex(b1), Hex(b2)), true, "hpack-after-rejected-block", "hpack-rejected-kind="+kind)
	}
}

func at2(l [][2]string, i int) [2]string {
	if i < len(l) {
		return l[i]
	}
	return [2]string{"<none>", ""}
}
